(* Alist.v — association lists over a key type with boolean equality, with the lemmas the registry proofs use. *)
From Coq Require Import List Bool Arith NArith Lia.
Import ListNotations.

(* ---------- association lists over a key type with boolean equality ---------- *)
Section AList.
  Variable K V : Type.
  Variable keqb : K -> K -> bool.
  Hypothesis keqb_spec : forall a b, keqb a b = true <-> a = b.

  Fixpoint aget (k : K) (l : list (K * V)) : option V :=
    match l with [] => None | (k', v) :: t => if keqb k k' then Some v else aget k t end.
  Fixpoint aset (k : K) (v : V) (l : list (K * V)) : list (K * V) :=
    match l with
    | [] => [(k, v)]
    | (k', v') :: t => if keqb k k' then (k, v) :: t else (k', v') :: aset k v t
    end.
  Fixpoint adel (k : K) (l : list (K * V)) : list (K * V) :=
    match l with [] => [] | (k', v') :: t => if keqb k k' then adel k t else (k', v') :: adel k t end.

  Lemma keqb_refl a : keqb a a = true.
  Proof. apply keqb_spec. reflexivity. Qed.
  Lemma keqb_neq a b : a <> b -> keqb a b = false.
  Proof. intros H. destruct (keqb a b) eqn:E; auto. apply keqb_spec in E. contradiction. Qed.

  Lemma aget_aset_same k v l : aget k (aset k v l) = Some v.
  Proof.
    induction l as [|[k' v'] t IH]; cbn; [rewrite keqb_refl; reflexivity|].
    destruct (keqb k k') eqn:E; cbn; [rewrite keqb_refl; reflexivity|]. rewrite E. exact IH.
  Qed.
  Lemma aget_aset_other k k2 v l : k2 <> k -> aget k2 (aset k v l) = aget k2 l.
  Proof.
    intros Hn. induction l as [|[k' v'] t IH]; cbn; [rewrite (keqb_neq _ _ Hn); reflexivity|].
    destruct (keqb k k') eqn:E; cbn.
    - apply keqb_spec in E. subst k'. rewrite (keqb_neq _ _ Hn). reflexivity.
    - destruct (keqb k2 k'); auto.
  Qed.
  Lemma aget_adel_same k l : aget k (adel k l) = None.
  Proof.
    induction l as [|[k' v'] t IH]; cbn; [reflexivity|].
    destruct (keqb k k') eqn:E; cbn; [exact IH|]. rewrite E. exact IH.
  Qed.
  Lemma aget_adel_other k k2 l : k2 <> k -> aget k2 (adel k l) = aget k2 l.
  Proof.
    intros Hn. induction l as [|[k' v'] t IH]; cbn; [reflexivity|].
    destruct (keqb k k') eqn:E; cbn.
    - apply keqb_spec in E. subst k'. rewrite (keqb_neq _ _ Hn). exact IH.
    - destruct (keqb k2 k'); auto.
  Qed.

  (* weighted count over the values of a list with unique keys *)
  Variable w : V -> nat.
  Fixpoint asum (l : list (K * V)) : nat := match l with [] => 0 | (_, v) :: t => w v + asum t end.
  Definition wopt (o : option V) : nat := match o with Some v => w v | None => 0 end.

  Definition ukeys (l : list (K * V)) : Prop := NoDup (map fst l).

  Lemma aget_none_notin k l : aget k l = None -> ~ In k (map fst l).
  Proof.
    induction l as [|[k' v'] t IH]; cbn; [tauto|].
    destruct (keqb k k') eqn:E; [discriminate|]. intros H [Hk|Hin].
    - subst. rewrite keqb_refl in E. discriminate.
    - exact (IH H Hin).
  Qed.
  Lemma notin_aget_none k l : ~ In k (map fst l) -> aget k l = None.
  Proof.
    induction l as [|[k' v'] t IH]; cbn; [reflexivity|]. intros H.
    destruct (keqb k k') eqn:E.
    - apply keqb_spec in E. subst. exfalso. apply H. left. reflexivity.
    - apply IH. intros Hin. apply H. right. exact Hin.
  Qed.

  Lemma keys_aset k v l x : In x (map fst (aset k v l)) -> x = k \/ In x (map fst l).
  Proof.
    induction l as [|[k' v'] t IH]; cbn; [intros [<-|[]]; auto|].
    destruct (keqb k k') eqn:E; cbn.
    - intros [<-|H]; auto.
    - intros [<-|H]; auto. destruct (IH H); auto.
  Qed.
  Lemma ukeys_aset k v l : ukeys l -> ukeys (aset k v l).
  Proof.
    unfold ukeys. induction l as [|[k' v'] t IH]; cbn; intros H.
    - constructor; [intros []|constructor].
    - inversion H as [|? ? Hn Hd]; subst. destruct (keqb k k') eqn:E; cbn.
      + apply keqb_spec in E. subst. constructor; assumption.
      + constructor; [|apply IH; assumption].
        intros Hin. apply keys_aset in Hin as [->|Hin]; [rewrite keqb_refl in E; discriminate|contradiction].
  Qed.
  Lemma keys_adel k l x : In x (map fst (adel k l)) -> In x (map fst l).
  Proof.
    induction l as [|[k' v'] t IH]; cbn; [tauto|].
    destruct (keqb k k'); cbn; [intros H; right; auto|intros [<-|H]; auto].
  Qed.
  Lemma ukeys_adel k l : ukeys l -> ukeys (adel k l).
  Proof.
    unfold ukeys. induction l as [|[k' v'] t IH]; cbn; intros H; [constructor|].
    inversion H as [|? ? Hn Hd]; subst. destruct (keqb k k'); cbn; [apply IH; assumption|].
    constructor; [|apply IH; assumption]. intros Hin. apply keys_adel in Hin. contradiction.
  Qed.

  Lemma asum_aset k v l : ukeys l -> asum (aset k v l) + wopt (aget k l) = asum l + w v.
  Proof.
    unfold ukeys. induction l as [|[k' v'] t IH]; cbn; intros H; [lia|].
    inversion H as [|? ? Hn Hd]; subst. destruct (keqb k k') eqn:E; cbn; [lia|].
    specialize (IH Hd). lia.
  Qed.
  Lemma asum_adel k l : ukeys l -> asum (adel k l) + wopt (aget k l) = asum l.
  Proof.
    unfold ukeys. induction l as [|[k' v'] t IH]; cbn; intros H; [lia|].
    inversion H as [|? ? Hn Hd]; subst. destruct (keqb k k') eqn:E; cbn.
    - apply keqb_spec in E. subst k'. rewrite (notin_aget_none _ _ Hn) in IH. specialize (IH Hd). cbn in IH.
      assert (Hz : asum (adel k t) = asum t) by lia. lia.
    - specialize (IH Hd). lia.
  Qed.
End AList.

Arguments aget {K V}. Arguments aset {K V}. Arguments adel {K V}. Arguments asum {K V}. Arguments ukeys {K V}.
Arguments wopt {V}.

Lemma aget_in {K V} (eqb : K -> K -> bool) (spec : forall a b, eqb a b = true <-> a = b) (l : list (K * V)) k v :
  aget eqb k l = Some v -> In (k, v) l.
Proof.
  induction l as [|[k' v'] t IH]; cbn; [discriminate|].
  destruct (eqb k k') eqn:E; [intros H; inversion H; subst; apply spec in E; subst; left; reflexivity|auto].
Qed.
Lemma in_aget {K V} (eqb : K -> K -> bool) (spec : forall a b, eqb a b = true <-> a = b) (l : list (K * V)) k v :
  ukeys l -> In (k, v) l -> aget eqb k l = Some v.
Proof.
  unfold ukeys. induction l as [|[k' v'] t IH]; cbn; [tauto|]. intros Hd [H|H].
  - inversion H; subst. rewrite (proj2 (spec k k) eq_refl). reflexivity.
  - inversion Hd as [|? ? Hn Hd']; subst. destruct (eqb k k') eqn:E.
    + apply spec in E. subst. exfalso. apply Hn. change k' with (fst (k', v)). apply in_map. exact H.
    + apply IH; assumption.
Qed.
Lemma in_aset {K V} (eqb : K -> K -> bool) (l : list (K * V)) k v k2 v2 :
  In (k2, v2) (aset eqb k v l) -> (k2, v2) = (k, v) \/ In (k2, v2) l.
Proof.
  induction l as [|[k' v'] t IH]; cbn; [intros [H|[]]; auto|].
  destruct (eqb k k'); cbn; intros [H|H]; auto. destruct (IH H); auto.
Qed.
Lemma in_adel {K V} (eqb : K -> K -> bool) (spec : forall a b, eqb a b = true <-> a = b) (l : list (K * V)) k k2 v2 :
  In (k2, v2) (adel eqb k l) -> k2 <> k /\ In (k2, v2) l.
Proof.
  induction l as [|[k' v'] t IH]; cbn; [tauto|].
  destruct (eqb k k') eqn:E; cbn.
  - intros H. destruct (IH H). auto.
  - intros [H|H].
    + inversion H; subst. split; auto. intros ->. rewrite (proj2 (spec k k) eq_refl) in E. discriminate.
    + destruct (IH H). auto.
Qed.

Fixpoint memN (x : N) (l : list N) : bool := match l with [] => false | y :: t => N.eqb x y || memN x t end.
Fixpoint distinct (l : list N) : list N :=
  match l with [] => [] | x :: t => if memN x t then distinct t else x :: distinct t end.
Lemma neqb_spec a b : N.eqb a b = true <-> a = b.
Proof. apply N.eqb_eq. Qed.
Lemma memN_In x l : memN x l = true <-> In x l.
Proof.
  induction l as [|y t IH]; cbn; [split; [discriminate|tauto]|].
  rewrite orb_true_iff, N.eqb_eq, IH. split; intros [H|H]; auto.
Qed.
Lemma memN_distinct x l : memN x (distinct l) = memN x l.
Proof.
  induction l as [|y t IH]; cbn; [reflexivity|].
  destruct (memN y t) eqn:E; cbn.
  - rewrite IH. destruct (N.eqb x y) eqn:Exy; cbn; auto. apply N.eqb_eq in Exy. subst. rewrite E. reflexivity.
  - rewrite IH. reflexivity.
Qed.
Lemma NoDup_distinct l : NoDup (distinct l).
Proof.
  induction l as [|y t IH]; cbn; [constructor|].
  destruct (memN y t) eqn:E; [exact IH|]. constructor; [|exact IH].
  intros Hin. apply memN_In in Hin. rewrite memN_distinct in Hin. congruence.
Qed.

(* insertion sort on N, used to compare multisets of observations *)
Fixpoint insN (x : N) (l : list N) : list N :=
  match l with [] => [x] | y :: t => if N.leb x y then x :: l else y :: insN x t end.
Fixpoint sortN (l : list N) : list N := match l with [] => [] | x :: t => insN x (sortN t) end.
Fixpoint eqNl (a b : list N) : bool :=
  match a, b with [], [] => true | x :: s, y :: t => N.eqb x y && eqNl s t | _, _ => false end.
Lemma eqNl_spec a b : eqNl a b = true <-> a = b.
Proof.
  revert b; induction a as [|x s IH]; intros [|y t]; cbn; try (split; [discriminate|intros H; discriminate]); [tauto|].
  rewrite andb_true_iff, N.eqb_eq, IH. split; [intros [-> ->]; reflexivity|intros H; inversion H; auto].
Qed.
