(* Spike: base64 RawURLEncoding (no padding) codec over lists of N (< 256) with round trip. *)
From Coq Require Import List Bool Arith NArith ZArith Lia ZifyN ZifyNat ZifyBool.
Import ListNotations.
Open Scope N_scope.
Ltac Zify.zify_post_hook ::= Z.div_mod_to_equations.

(* alphabet index (0..63) -> character code *)
Definition alpha (i : N) : N :=
  if i <? 26 then 65 + i            (* A-Z *)
  else if i <? 52 then 97 + (i - 26)  (* a-z *)
  else if i <? 62 then 48 + (i - 52)  (* 0-9 *)
  else if i =? 62 then 45             (* - *)
  else 95.                            (* _ *)

Definition unalpha (c : N) : option N :=
  if (65 <=? c) && (c <=? 90) then Some (c - 65)
  else if (97 <=? c) && (c <=? 122) then Some (c - 97 + 26)
  else if (48 <=? c) && (c <=? 57) then Some (c - 48 + 52)
  else if c =? 45 then Some 62
  else if c =? 95 then Some 63
  else None.

Lemma unalpha_alpha i : i < 64 -> unalpha (alpha i) = Some i.
Proof.
  intros Hi. unfold alpha, unalpha.
  destruct (i <? 26) eqn:E1.
  - replace ((65 <=? 65 + i) && (65 + i <=? 90)) with true by lia. f_equal. lia.
  - destruct (i <? 52) eqn:E2.
    + replace ((65 <=? 97 + (i - 26)) && (97 + (i - 26) <=? 90)) with false by lia.
      replace ((97 <=? 97 + (i - 26)) && (97 + (i - 26) <=? 122)) with true by lia. f_equal. lia.
    + destruct (i <? 62) eqn:E3.
      * replace ((65 <=? 48 + (i - 52)) && (48 + (i - 52) <=? 90)) with false by lia.
        replace ((97 <=? 48 + (i - 52)) && (48 + (i - 52) <=? 122)) with false by lia.
        replace ((48 <=? 48 + (i - 52)) && (48 + (i - 52) <=? 57)) with true by lia. f_equal. lia.
      * destruct (i =? 62) eqn:E4.
        -- cbn. f_equal. lia.
        -- cbn. f_equal. lia.
Qed.

Fixpoint encode (bs : list N) : list N :=
  match bs with
  | [] => []
  | [a] => [alpha (a / 4); alpha ((a mod 4) * 16)]
  | [a; b] => [alpha (a / 4); alpha ((a mod 4) * 16 + b / 16); alpha ((b mod 16) * 4)]
  | a :: b :: c :: rest =>
      alpha (a / 4) :: alpha ((a mod 4) * 16 + b / 16) :: alpha ((b mod 16) * 4 + c / 64) :: alpha (c mod 64)
      :: encode rest
  end.

Definition bind {A B} (o : option A) (f : A -> option B) : option B :=
  match o with Some x => f x | None => None end.

(* strict decoder: rejects non-canonical trailing bits, like Go's Strict mode; Go's default accepts them,
   which does not matter for the round trip *)
Fixpoint decode (cs : list N) : option (list N) :=
  match cs with
  | [] => Some []
  | [_] => None
  | [p; q] =>
      bind (unalpha p) (fun x => bind (unalpha q) (fun y =>
        Some [x * 4 + y / 16]))
  | [p; q; r] =>
      bind (unalpha p) (fun x => bind (unalpha q) (fun y => bind (unalpha r) (fun z =>
        Some [x * 4 + y / 16; (y mod 16) * 16 + z / 4])))
  | p :: q :: r :: s :: rest =>
      bind (unalpha p) (fun x => bind (unalpha q) (fun y => bind (unalpha r) (fun z => bind (unalpha s) (fun w =>
        bind (decode rest) (fun tl =>
          Some (x * 4 + y / 16 :: (y mod 16) * 16 + z / 4 :: (z mod 4) * 64 + w :: tl))))))
  end.

Definition bytes (bs : list N) : Prop := Forall (fun b => b < 256) bs.

(* induction in steps of three *)
Lemma list_ind3 (P : list N -> Prop) :
  P [] -> (forall a, P [a]) -> (forall a b, P [a; b]) ->
  (forall a b c rest, P rest -> P (a :: b :: c :: rest)) ->
  forall l, P l.
Proof.
  intros H0 H1 H2 H3.
  assert (H : forall l, P l /\ (forall a, P (a :: l)) /\ (forall a b, P (a :: b :: l))).
  { induction l as [|x l [IH0 [IH1 IH2]]].
    - split; [exact H0|]. split; [exact H1|exact H2].
    - split; [apply IH1|]. split; [intros a; apply IH2|].
      intros a b. apply H3. exact IH0. }
  intros l. apply H.
Qed.

Theorem decode_encode bs : bytes bs -> decode (encode bs) = Some bs.
Proof.
  induction bs as [|a|a b|a b c rest IH] using list_ind3; intros Hb.
  - reflexivity.
  - inversion Hb as [|? ? Ha _]; subst.
    cbn [encode decode].
    rewrite !unalpha_alpha by lia. cbn [bind]. do 2 f_equal. lia.
  - inversion Hb as [|? ? Ha Hb']; subst. inversion Hb' as [|? ? Hbb _]; subst.
    cbn [encode decode].
    rewrite !unalpha_alpha by lia. cbn [bind]. f_equal. f_equal; [lia|]. f_equal. lia.
  - inversion Hb as [|? ? Ha Hb1]; subst. inversion Hb1 as [|? ? Hbb Hb2]; subst.
    inversion Hb2 as [|? ? Hc Hr]; subst.
    cbn [encode decode].
    rewrite !unalpha_alpha by lia. cbn [bind]. rewrite (IH Hr). cbn [bind].
    f_equal. f_equal; [lia|]. f_equal; [lia|]. f_equal. lia.
Qed.

Print Assumptions decode_encode.

(* sanity: "Ma" |-> "TWE" ; "Man" |-> "TWFu" *)
Eval vm_compute in encode [77; 97].
Eval vm_compute in encode [77; 97; 110].
Eval vm_compute in decode (encode [0; 255; 254; 1; 2]).

(* RawURLEncoding: the output is drawn from the URL-safe alphabet only (A-Z a-z 0-9 - _; so no '=' padding, no '+', no '/'),
   and its length is ceil(4n/3) — for every list of N, a byte string or not *)
Definition url_char (c : N) : bool :=
  ((65 <=? c) && (c <=? 90)) || ((97 <=? c) && (c <=? 122)) || ((48 <=? c) && (c <=? 57)) || (c =? 45) || (c =? 95).

Lemma alpha_url_char i : url_char (alpha i) = true.
Proof.
  unfold alpha, url_char.
  destruct (i <? 26) eqn:E1; [lia|]. destruct (i <? 52) eqn:E2; [lia|]. destruct (i <? 62) eqn:E3; [lia|].
  destruct (i =? 62) eqn:E4; reflexivity.
Qed.

Theorem encode_alphabet bs : Forall (fun c => url_char c = true) (encode bs).
Proof.
  induction bs as [|a|a b|a b c rest IH] using list_ind3; cbn [encode].
  - constructor.
  - repeat (constructor; [apply alpha_url_char|]). constructor.
  - repeat (constructor; [apply alpha_url_char|]). constructor.
  - repeat (constructor; [apply alpha_url_char|]). exact IH.
Qed.

Theorem encode_no_padding bs : ~ In 61 (encode bs).
Proof.
  intros H. pose proof (encode_alphabet bs) as F. rewrite Forall_forall in F. specialize (F _ H). discriminate F.
Qed.

Theorem encode_length bs : (3 * List.length (encode bs) = 4 * List.length bs + (3 - List.length bs mod 3) mod 3)%nat.
Proof.
  induction bs as [|a|a b|a b c rest IH] using list_ind3; cbn [encode List.length]; try reflexivity.
  replace (S (S (S (List.length rest)))) with (List.length rest + 1 * 3)%nat by lia.
  rewrite Nat.mod_add by lia. lia.
Qed.
