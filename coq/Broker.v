(* Broker.v — executable model of the Broker registry (broker.go, graphmap.go, node.go:linkNodes/flatten,
   graph.go:doValidate/reopen).  Identifiers (node ids, pipeline ids, event types, object identities) are N,
   0 is the empty string.  Proofs live in BrokerProofs.v; this file only defines. *)
From Coq Require Import List Bool Arith NArith ZArith.
From Verif Require Import Alist.
Import ListNotations.

Inductive ntype := TFilter | TFormatter | TSink | TFormatterFilter | TOther.
Inductive pol := PAllow | PDeny.
(* the option argument of a registration: none given / AllowOverwrite / DenyOverwrite / an invalid policy string *)
Inductive polarg := ANone | AAllow | ADeny | ABad.
Definition pol_of (a : polarg) : option pol :=
  match a with ANone | AAllow => Some PAllow | ADeny => Some PDeny | ABad => None end.

Record nodeU := { nu_obj : N; nu_ty : ntype; nu_rc : nat; nu_pol : pol }.
(* a registered pipeline: the ids it lists, the (object, type) it was linked with at registration, its policy *)
Record pipe := { p_ids : list N; p_objs : list (N * ntype); p_pol : pol }.

Definition pkey := (N * N)%type.   (* (event type, pipeline id) *)
Definition pkeqb (a b : pkey) : bool := N.eqb (fst a) (fst b) && N.eqb (snd a) (snd b).

Record broker := {
  b_nodes : list (N * nodeU);
  b_pipes : list (pkey * pipe);
  b_graphs : list N;                 (* event types that have a graph *)
  b_thr : list (N * (Z * Z));        (* per type: (successThreshold, successThresholdSinks); absent = (0,0) *)
}.
Definition b0 : broker := {| b_nodes := []; b_pipes := []; b_graphs := []; b_thr := [] |}.

Inductive rclass := ROk | RInvalid | RDenied | RNotFound | RInUse | RNotRegistered | RValidate | RNoGraph | RNoPipeline | RCloseErr.

Inductive op :=
| RegisterNode (id obj : N) (ty : ntype) (pa : polarg)
| RemoveNode (id : N)
| RegisterPipeline (pid ety : N) (ids : list N) (pa : polarg)
| RemovePipeline (ety pid : N)
| RemovePipelineAndNodes (ety pid : N)
| SetThr (ety : N) (v : Z)
| SetThrSinks (ety : N) (v : Z).

Definition set_rc (u : nodeU) (rc : nat) : nodeU := {| nu_obj := nu_obj u; nu_ty := nu_ty u; nu_rc := rc; nu_pol := nu_pol u |}.

(* decrement (never below zero) / increment the count of every id of the list that is registered *)
Fixpoint release (ids : list N) (nodes : list (N * nodeU)) : list (N * nodeU) :=
  match ids with
  | [] => nodes
  | id :: t =>
      release t (match aget N.eqb id nodes with
                 | Some u => aset N.eqb id (set_rc u (pred (nu_rc u))) nodes
                 | None => nodes
                 end)
  end.
Fixpoint retain (ids : list N) (nodes : list (N * nodeU)) : list (N * nodeU) :=
  match ids with
  | [] => nodes
  | id :: t =>
      retain t (match aget N.eqb id nodes with
                | Some u => aset N.eqb id (set_rc u (S (nu_rc u))) nodes
                | None => nodes
                end)
  end.

(* unregisterNode(force = true) for every id: the nodes left, the objects to close, whether all were found *)
Fixpoint unregister_all (ids : list N) (nodes : list (N * nodeU)) (closed : list N) (ok : bool)
  : list (N * nodeU) * list N * bool :=
  match ids with
  | [] => (nodes, closed, ok)
  | id :: t =>
      match aget N.eqb id nodes with
      | Some u =>
          if Nat.leb (nu_rc u) 1 then unregister_all t (adel N.eqb id nodes) (closed ++ [nu_obj u]) ok
          else unregister_all t (aset N.eqb id (set_rc u (pred (nu_rc u))) nodes) closed ok
      | None => unregister_all t nodes closed false
      end
  end.

Fixpoint resolve (ids : list N) (nodes : list (N * nodeU)) : option (list (N * ntype)) :=
  match ids with
  | [] => Some []
  | id :: t =>
      match aget N.eqb id nodes, resolve t nodes with
      | Some u, Some r => Some ((nu_obj u, nu_ty u) :: r)
      | _, _ => None
      end
  end.

Definition is_sink (t : ntype) : bool := match t with TSink => true | _ => false end.
Definition is_fmt (t : ntype) : bool := match t with TFormatter | TFormatterFilter => true | _ => false end.
(* graph.doValidate on a linear list *)
Definition valid_shape (objs : list (N * ntype)) : bool :=
  match rev objs with
  | (_, l) :: (_, p) :: _ => is_sink l && is_fmt p
  | _ => false
  end.

Definition add_graph (ety : N) (g : list N) : list N := if memN ety g then g else ety :: g.
Definition thr_of (b : broker) (ety : N) : Z * Z :=
  match aget N.eqb ety (b_thr b) with Some p => p | None => (0%Z, 0%Z) end.

Section Step.
  Variable close_fails : N -> bool.

  Definition step (b : broker) (o : op) : broker * rclass * list N (* objects closed, in order *) :=
    match o with
    | RegisterNode id obj ty pa =>
        if N.eqb id 0 then (b, RInvalid, []) else
        match pol_of pa with
        | None => (b, RInvalid, [])
        | Some p =>
            match aget N.eqb id (b_nodes b) with
            | Some u =>
                match nu_pol u with
                | PDeny => (b, RDenied, [])
                | PAllow => ({| b_nodes := aset N.eqb id {| nu_obj := obj; nu_ty := ty; nu_rc := nu_rc u; nu_pol := p |} (b_nodes b);
                                b_pipes := b_pipes b; b_graphs := b_graphs b; b_thr := b_thr b |}, ROk, [])
                end
            | None => ({| b_nodes := aset N.eqb id {| nu_obj := obj; nu_ty := ty; nu_rc := 0; nu_pol := p |} (b_nodes b);
                          b_pipes := b_pipes b; b_graphs := b_graphs b; b_thr := b_thr b |}, ROk, [])
            end
        end
    | RemoveNode id =>
        if N.eqb id 0 then (b, RInvalid, []) else
        match aget N.eqb id (b_nodes b) with
        | None => (b, RNotFound, [])
        | Some u =>
            if Nat.ltb 0 (nu_rc u) then (b, RInUse, [])
            else ({| b_nodes := adel N.eqb id (b_nodes b); b_pipes := b_pipes b; b_graphs := b_graphs b; b_thr := b_thr b |},
                  (if close_fails (nu_obj u) then RCloseErr else ROk), [nu_obj u])
        end
    | RegisterPipeline pid ety ids pa =>
        if N.eqb pid 0 || N.eqb ety 0 || match ids with [] => true | _ => false end || memN 0 ids then (b, RInvalid, []) else
        match pol_of pa with
        | None => (b, RInvalid, [])
        | Some p =>
            let b1 := {| b_nodes := b_nodes b; b_pipes := b_pipes b;
                         b_graphs := add_graph ety (b_graphs b); b_thr := b_thr b |} in
            let denied := match aget pkeqb (ety, pid) (b_pipes b) with
                          | Some old => match p_pol old with PDeny => true | PAllow => false end
                          | None => false
                          end in
            if denied then (b1, RDenied, []) else
            match resolve ids (b_nodes b) with
            | None => (b1, RNotRegistered, [])
            | Some objs =>
                if negb (valid_shape objs) then (b1, RValidate, []) else
                let nodes1 := match aget pkeqb (ety, pid) (b_pipes b) with
                              | Some old => release (distinct (p_ids old)) (b_nodes b)
                              | None => b_nodes b
                              end in
                ({| b_nodes := retain (distinct ids) nodes1;
                    b_pipes := aset pkeqb (ety, pid) {| p_ids := ids; p_objs := objs; p_pol := p |} (b_pipes b);
                    b_graphs := b_graphs b1; b_thr := b_thr b |}, ROk, [])
            end
        end
    | RemovePipeline ety pid =>
        if N.eqb ety 0 || N.eqb pid 0 then (b, RInvalid, []) else
        if negb (memN ety (b_graphs b)) then (b, RNoGraph, []) else
        match aget pkeqb (ety, pid) (b_pipes b) with
        | None => (b, ROk, [])
        | Some old => ({| b_nodes := release (distinct (p_ids old)) (b_nodes b);
                          b_pipes := adel pkeqb (ety, pid) (b_pipes b); b_graphs := b_graphs b; b_thr := b_thr b |}, ROk, [])
        end
    | RemovePipelineAndNodes ety pid =>
        if N.eqb ety 0 || N.eqb pid 0 then (b, RInvalid, []) else
        if negb (memN ety (b_graphs b)) then (b, RNoGraph, []) else
        match aget pkeqb (ety, pid) (b_pipes b) with
        | None => (b, RNoPipeline, [])
        | Some old =>
            let '(nodes', closed, ok) := unregister_all (distinct (p_ids old)) (b_nodes b) [] true in
            ({| b_nodes := nodes'; b_pipes := adel pkeqb (ety, pid) (b_pipes b); b_graphs := b_graphs b; b_thr := b_thr b |},
             (if ok && negb (existsb close_fails closed) then ROk else RCloseErr), closed)
        end
    | SetThr ety v =>
        if N.eqb ety 0 || Z.ltb v 0 then (b, RInvalid, []) else
        ({| b_nodes := b_nodes b; b_pipes := b_pipes b; b_graphs := add_graph ety (b_graphs b);
            b_thr := aset N.eqb ety (v, snd (thr_of b ety)) (b_thr b) |}, ROk, [])
    | SetThrSinks ety v =>
        if N.eqb ety 0 || Z.ltb v 0 then (b, RInvalid, []) else
        ({| b_nodes := b_nodes b; b_pipes := b_pipes b; b_graphs := add_graph ety (b_graphs b);
            b_thr := aset N.eqb ety (fst (thr_of b ety), v) (b_thr b) |}, ROk, [])
    end.
End Step.

(* every history from the empty broker *)
Definition run (cf : N -> bool) (ops : list op) : broker := fold_left (fun b o => fst (fst (step cf b o))) ops b0.

(* ---- queries (read-only API) ---- *)
(* the pipelines currently registered for a type, as (pipeline id, pipe) *)
Definition pipes_of (b : broker) (ety : N) : list (N * pipe) :=
  map (fun kp => (snd (fst kp), snd kp)) (filter (fun kp => N.eqb (fst (fst kp)) ety) (b_pipes b)).
Definition is_any (b : broker) (ety : N) : bool :=
  memN ety (b_graphs b) && match pipes_of b ety with [] => false | _ => true end.
(* SuccessThreshold / SuccessThresholdSinks getters *)
Definition get_thr (b : broker) (ety : N) : Z * bool :=
  if memN ety (b_graphs b) then (fst (thr_of b ety), true) else (0%Z, false).
Definition get_thr_sinks (b : broker) (ety : N) : Z * bool :=
  if memN ety (b_graphs b) then (snd (thr_of b ety), true) else (0%Z, false).
(* objects that a Send of this type traverses when every node passes the event on: one list per pipeline *)
Definition deliveries (b : broker) (ety : N) : list (list N) :=
  map (fun ip => map fst (p_objs (snd ip))) (pipes_of b ety).
Definition in_use (u : nodeU) : bool := Nat.ltb 0 (nu_rc u).

(* ---- Reopen: iteration orders of the graph map and of each Range are parameters (the list orders) ---- *)
Section Reopen.
  Variable fails : N -> bool.   (* which object's Reopen returns an error *)
  (* doReopen on a linear pipeline: calls made, first failing object if any *)
  Fixpoint reopen_pipe (objs : list N) : list N * option N :=
    match objs with
    | [] => ([], None)
    | o :: t => if fails o then ([o], Some o)
                else let '(c, e) := reopen_pipe t in (o :: c, e)
    end.
  (* graph.reopen: every pipeline is visited, errors are collected *)
  Fixpoint reopen_graph (ps : list (list N)) : list N * list N :=
    match ps with
    | [] => ([], [])
    | p :: t => let '(c, e) := reopen_pipe p in
                let '(c2, e2) := reopen_graph t in
                (c ++ c2, match e with Some x => x :: e2 | None => e2 end)
    end.
  (* Broker.Reopen: stops at the first graph that reported errors *)
  Fixpoint reopen_graphs (gs : list (list (list N))) : list N * list N :=
    match gs with
    | [] => ([], [])
    | g :: t => let '(c, e) := reopen_graph g in
                match e with
                | [] => let '(c2, e2) := reopen_graphs t in (c ++ c2, e2)
                | _ => (c, e)
                end
    end.
End Reopen.

(* the graphs of a broker in model order: one entry per type that has a graph *)
Definition graphs_of (b : broker) : list (list (list N)) :=
  map (fun ety => deliveries b ety) (b_graphs b).
Definition all_linked_objs (b : broker) : list N := concat (concat (graphs_of b)).
