(* BrokerClose.v — C06: no history makes the broker close a node twice.
   Node objects are identities; a history is *fresh* when every RegisterNode brings an object not registered before
   (what the harness does, and what "a node" means in the property).  Then the global close log is duplicate-free. *)
From Coq Require Import List Bool Arith NArith ZArith Lia.
From Verif Require Import Alist Broker BrokerProofs.
Import ListNotations.

Definition node_objs (nodes : list (N * nodeU)) : list N := map (fun kv => nu_obj (snd kv)) nodes.
Definition disjoint (a b : list N) : Prop := forall x, In x a -> ~ In x b.

Fixpoint reg_objs (ops : list op) : list N :=
  match ops with
  | [] => []
  | RegisterNode _ obj _ _ :: t => obj :: reg_objs t
  | _ :: t => reg_objs t
  end.

Lemma node_objs_aset_in id u l x : In x (node_objs (aset N.eqb id u l)) -> x = nu_obj u \/ In x (node_objs l).
Proof.
  unfold node_objs.
  induction l as [|[k v] t IH]; cbn; [intros [<-|[]]; auto|].
  destruct (N.eqb id k); cbn; intros [<-|H]; auto. destruct (IH H); auto.
Qed.
Lemma node_objs_aset_nodup id u l : NoDup (node_objs l) -> ~ In (nu_obj u) (node_objs l) -> NoDup (node_objs (aset N.eqb id u l)).
Proof.
  unfold node_objs.
  induction l as [|[k v] t IH]; cbn; intros Hnd Hni; [constructor; [intros []|constructor]|].
  inversion Hnd as [|? ? Hx Ht]; subst. destruct (N.eqb id k); cbn.
  - constructor; [intros H; apply Hni; right; exact H|exact Ht].
  - constructor.
    + intros H. apply node_objs_aset_in in H as [H|H]; [apply Hni; left; auto|contradiction].
    + apply IH; [exact Ht|intros H; apply Hni; right; exact H].
Qed.
Lemma node_objs_set_rc id u r l : nget id l = Some u -> node_objs (aset N.eqb id (set_rc u r) l) = node_objs l.
Proof.
  unfold node_objs.
  induction l as [|[k v] t IH]; cbn; [discriminate|].
  destruct (N.eqb id k) eqn:E; cbn; [intros H; inversion H; reflexivity|intros H; rewrite (IH H); reflexivity].
Qed.
Lemma node_objs_fold_rc f ids : forall nodes, node_objs (fold_rc f ids nodes) = node_objs nodes.
Proof.
  induction ids as [|x t IH]; intros nodes; cbn [fold_rc]; [reflexivity|].
  destruct (nget x nodes) as [u|] eqn:E; [|apply IH]. rewrite IH. apply node_objs_set_rc. exact E.
Qed.
Lemma node_objs_adel_in id l x : In x (node_objs (adel N.eqb id l)) -> In x (node_objs l).
Proof.
  unfold node_objs.
  induction l as [|[k v] t IH]; cbn; [tauto|]. destruct (N.eqb id k); cbn; [intros H; right; auto|intros [<-|H]; auto].
Qed.
Lemma node_objs_adel_nodup id l : NoDup (node_objs l) -> NoDup (node_objs (adel N.eqb id l)).
Proof.
  unfold node_objs.
  induction l as [|[k v] t IH]; cbn; intros Hnd; [constructor|]. inversion Hnd as [|? ? Hx Ht]; subst.
  destruct (N.eqb id k); cbn; [apply IH; exact Ht|]. constructor; [|apply IH; exact Ht].
  intros H. apply node_objs_adel_in in H. contradiction.
Qed.
Lemma nget_obj_in id u l : nget id l = Some u -> In (nu_obj u) (node_objs l).
Proof.
  unfold node_objs.
  induction l as [|[k v] t IH]; cbn; [discriminate|]. destruct (N.eqb id k); [intros H; inversion H; left; reflexivity|intros H; right; auto].
Qed.
Lemma node_objs_adel_gone id u l : NoDup (node_objs l) -> nget id l = Some u -> ~ In (nu_obj u) (node_objs (adel N.eqb id l)).
Proof.
  unfold node_objs.
  induction l as [|[k v] t IH]; cbn; [discriminate|]. intros Hnd. inversion Hnd as [|? ? Hx Ht]; subst.
  destruct (N.eqb id k) eqn:E; cbn.
  - intros H; inversion H; subst v. intros Hin. apply node_objs_adel_in in Hin. contradiction.
  - intros H [Heq|Hin]; [|exact (IH Ht H Hin)]. apply Hx. cbn in Heq. rewrite Heq. eapply nget_obj_in; eauto.
Qed.

(* the invariant: registered objects pairwise distinct, the close log duplicate-free and disjoint from the registered objects *)
Definition cinv (nodes : list (N * nodeU)) (log : list N) : Prop :=
  NoDup (node_objs nodes) /\ NoDup log /\ disjoint log (node_objs nodes).

Lemma nodup_snoc (l : list N) x : NoDup l -> ~ In x l -> NoDup (l ++ [x]).
Proof.
  induction l as [|y t IH]; cbn; intros Hnd Hni; [constructor; [intros []|constructor]|].
  inversion Hnd as [|? ? Hy Ht]; subst. constructor.
  - intros H. apply in_app_or in H as [H|[H|[]]]; [contradiction|]. apply Hni. left. symmetry. exact H.
  - apply IH; [exact Ht|intros H; apply Hni; right; exact H].
Qed.

Lemma unregister_all_cinv ids : forall nodes pre closed ok,
  cinv nodes (pre ++ closed) ->
  let '(nodes', closed', _) := unregister_all ids nodes closed ok in
  cinv nodes' (pre ++ closed') /\ (forall x, In x (node_objs nodes') -> In x (node_objs nodes)).
Proof.
  induction ids as [|x t IH]; intros nodes pre closed ok Hc; cbn [unregister_all]; [split; [exact Hc|auto]|].
  destruct Hc as [H1 [H2 H3]].
  destruct (nget x nodes) as [u|] eqn:Ex; [|apply IH; repeat split; assumption].
  destruct (Nat.leb (nu_rc u) 1).
  - specialize (IH (adel N.eqb x nodes) pre (closed ++ [nu_obj u]) ok).
    assert (Hc' : cinv (adel N.eqb x nodes) (pre ++ closed ++ [nu_obj u])).
    { repeat split.
      - apply node_objs_adel_nodup. exact H1.
      - rewrite app_assoc. apply nodup_snoc; [exact H2|]. intros Hin. apply (H3 _ Hin). eapply nget_obj_in; eauto.
      - intros y Hy Hin. rewrite app_assoc in Hy. apply in_app_or in Hy as [Hy|[<-|[]]].
        + apply (H3 _ Hy). apply node_objs_adel_in in Hin. exact Hin.
        + exact (node_objs_adel_gone _ _ _ H1 Ex Hin). }
    specialize (IH Hc'). destruct (unregister_all t (adel N.eqb x nodes) (closed ++ [nu_obj u]) ok) as [[n' c'] ok'].
    destruct IH as [Hi Hs]. split; [exact Hi|]. intros y Hy. apply node_objs_adel_in with (id := x). apply Hs. exact Hy.
  - specialize (IH (aset N.eqb x (set_rc u (pred (nu_rc u))) nodes) pre closed ok).
    rewrite (node_objs_set_rc _ _ _ _ Ex) in IH. unfold cinv in IH at 1. rewrite (node_objs_set_rc _ _ _ _ Ex) in IH.
    specialize (IH (conj H1 (conj H2 H3))). exact IH.
Qed.

Lemma cinv_step cf b o log used :
  cinv (b_nodes b) log ->
  (forall x, In x (node_objs (b_nodes b)) -> In x used) -> (forall x, In x log -> In x used) ->
  (forall x, In x (reg_objs [o]) -> ~ In x used) ->
  let b' := fst (fst (step cf b o)) in
  cinv (b_nodes b') (log ++ snd (step cf b o)) /\
  (forall x, In x (node_objs (b_nodes b')) -> In x (reg_objs [o] ++ used)) /\
  (forall x, In x (log ++ snd (step cf b o)) -> In x (reg_objs [o] ++ used)).
Proof.
  intros [H1 [H2 H3]] Hu1 Hu2 Hfresh.
  assert (Hsame : cinv (b_nodes b) (log ++ []) /\
                  (forall x, In x (node_objs (b_nodes b)) -> In x (reg_objs [o] ++ used)) /\
                  (forall x, In x (log ++ []) -> In x (reg_objs [o] ++ used))).
  { rewrite app_nil_r. repeat split; auto; intros x Hx; apply in_or_app; right; auto. }
  destruct o as [id obj ty pa|id|pid ety ids pa|ety pid|ety pid|ety v|ety v]; cbn [step].
  - destruct (N.eqb id 0); [exact Hsame|]. destruct (pol_of pa) as [p|]; [|exact Hsame].
    assert (Hobj : ~ In obj used) by (apply Hfresh; left; reflexivity).
    assert (Hnew : forall rc0, cinv (aset N.eqb id {| nu_obj := obj; nu_ty := ty; nu_rc := rc0; nu_pol := p |} (b_nodes b)) (log ++ []) /\
               (forall x, In x (node_objs (aset N.eqb id {| nu_obj := obj; nu_ty := ty; nu_rc := rc0; nu_pol := p |} (b_nodes b))) -> In x (reg_objs [RegisterNode id obj ty pa] ++ used)) /\
               (forall x, In x (log ++ []) -> In x (reg_objs [RegisterNode id obj ty pa] ++ used))).
    { intros rc0. rewrite app_nil_r. repeat split.
      - apply node_objs_aset_nodup; [exact H1|]. cbn. intros Hin. apply Hobj. apply Hu1. exact Hin.
      - exact H2.
      - intros x Hx Hin. apply node_objs_aset_in in Hin as [->|Hin]; [apply Hobj; apply Hu2; exact Hx|exact (H3 _ Hx Hin)].
      - intros x Hin. apply node_objs_aset_in in Hin as [->|Hin]; cbn; [left; reflexivity|right; auto].
      - intros x Hx. cbn. right. auto. }
    destruct (nget id (b_nodes b)) as [u|]; [destruct (nu_pol u)|]; cbn [fst snd b_nodes]; try exact Hsame; apply Hnew.
  - destruct (N.eqb id 0); [exact Hsame|]. destruct (nget id (b_nodes b)) as [u|] eqn:Eg; [|exact Hsame].
    destruct (Nat.ltb 0 (nu_rc u)); [exact Hsame|]. cbn [fst snd b_nodes]. repeat split.
    + apply node_objs_adel_nodup. exact H1.
    + apply nodup_snoc; [exact H2|]. intros Hin. apply (H3 _ Hin). eapply nget_obj_in; eauto.
    + intros y Hy Hin. apply in_app_or in Hy as [Hy|[<-|[]]].
      * apply (H3 _ Hy). apply node_objs_adel_in in Hin. exact Hin.
      * exact (node_objs_adel_gone _ _ _ H1 Eg Hin).
    + intros x Hin. cbn. apply Hu1. apply node_objs_adel_in in Hin. exact Hin.
    + intros x Hx. cbn. apply in_app_or in Hx as [Hx|[<-|[]]]; [auto|]. apply Hu1. eapply nget_obj_in; eauto.
  - destruct (_ || _ || _ || _); [exact Hsame|]. destruct (pol_of pa) as [p|]; [|exact Hsame].
    destruct (match pget (ety, pid) (b_pipes b) with Some old => _ | None => false end); [exact Hsame|].
    destruct (resolve ids (b_nodes b)) as [objs|]; [|exact Hsame]. destruct (negb (valid_shape objs)); [exact Hsame|].
    cbn [fst snd b_nodes]. rewrite retain_is_fold.
    assert (Ho : node_objs (fold_rc S (distinct ids) (match pget (ety, pid) (b_pipes b) with
                  | Some old => release (distinct (p_ids old)) (b_nodes b) | None => b_nodes b end)) = node_objs (b_nodes b)).
    { rewrite node_objs_fold_rc. destruct (pget (ety, pid) (b_pipes b)); [rewrite release_is_fold; apply node_objs_fold_rc|reflexivity]. }
    unfold cinv. rewrite Ho. exact Hsame.
  - destruct (_ || _); [exact Hsame|]. destruct (negb _); [exact Hsame|]. destruct (pget (ety, pid) (b_pipes b)) as [old|]; [|exact Hsame].
    cbn [fst snd b_nodes]. rewrite release_is_fold. unfold cinv. rewrite node_objs_fold_rc. exact Hsame.
  - destruct (_ || _); [exact Hsame|]. destruct (negb _); [exact Hsame|]. destruct (pget (ety, pid) (b_pipes b)) as [old|]; [|exact Hsame].
    pose proof (unregister_all_cinv (distinct (p_ids old)) (b_nodes b) log [] true) as Hun. rewrite app_nil_r in Hun.
    specialize (Hun (conj H1 (conj H2 H3))).
    pose proof (unregister_all_closed (distinct (p_ids old)) (NoDup_distinct _) (b_nodes b) [] true) as Hcl.
    destruct (unregister_all (distinct (p_ids old)) (b_nodes b) [] true) as [[n' c'] ok']. cbn [fst snd b_nodes].
    destruct Hun as [Hi Hs]. split; [exact Hi|]. split.
    + intros x Hin. cbn. apply Hu1. apply Hs. exact Hin.
    + intros x Hx. cbn. apply in_app_or in Hx as [Hx|Hx]; [auto|]. rewrite Hcl in Hx. cbn [app] in Hx.
      apply in_map_iff in Hx as [id [<- Hid]]. apply filter_In in Hid as [_ Hl]. unfold last_ref in Hl. unfold obj_at.
      destruct (nget id (b_nodes b)) as [u|] eqn:Eg; [|discriminate]. apply Hu1. eapply nget_obj_in; eauto.
  - destruct (_ || _); exact Hsame.
  - destruct (_ || _); exact Hsame.
Qed.

Lemma nodup_app_r (a c : list N) : NoDup (a ++ c) -> NoDup c.
Proof. induction a as [|x t IH]; cbn; [auto|]. intros H. inversion H; subst. auto. Qed.

Lemma reg_objs_cons o t : reg_objs (o :: t) = reg_objs [o] ++ reg_objs t.
Proof. destruct o; reflexivity. Qed.

Lemma no_double_close_gen cf ops : forall b log used,
  cinv (b_nodes b) log ->
  (forall x, In x (node_objs (b_nodes b)) -> In x used) -> (forall x, In x log -> In x used) ->
  NoDup (reg_objs ops) -> (forall x, In x (reg_objs ops) -> ~ In x used) ->
  NoDup (log ++ closed_in cf b ops).
Proof.
  induction ops as [|o t IH]; intros b log used Hc Hu1 Hu2 Hnd Hfr; cbn [closed_in]; [rewrite app_nil_r; apply Hc|].
  rewrite reg_objs_cons in Hnd, Hfr.
  destruct (cinv_step cf b o log used Hc Hu1 Hu2) as [Hc' [Hu1' Hu2']].
  { intros x Hx. apply Hfr. apply in_or_app. left. exact Hx. }
  rewrite app_assoc. apply (IH _ _ (reg_objs [o] ++ used) Hc' Hu1' Hu2').
  - apply nodup_app_r in Hnd. exact Hnd.
  - intros x Hx Hin. apply in_app_or in Hin as [Hin|Hin].
    + clear - Hnd Hx Hin. induction (reg_objs [o]) as [|y l IHl]; [destruct Hin|]. cbn in Hnd. inversion Hnd as [|? ? Hy Hl]; subst.
      destruct Hin as [->|Hin]; [apply Hy; apply in_or_app; right; exact Hx|apply IHl; assumption].
    + apply (Hfr x); [apply in_or_app; right; exact Hx|exact Hin].
Qed.

(* every history in which each RegisterNode brings a new object: no object is ever closed twice *)
Theorem no_double_close cf ops : NoDup (reg_objs ops) -> NoDup (closed_in cf b0 ops).
Proof.
  intros Hnd. apply (no_double_close_gen cf ops b0 [] []); cbn; auto.
  repeat split; try constructor. intros x [].
Qed.
Print Assumptions no_double_close.
