(* BrokerExamples.v — non-vacuity: concrete histories that meet the hypotheses of the registry theorems. *)
From Coq Require Import List Bool Arith NArith ZArith Lia.
From Verif Require Import Alist Broker BrokerProofs BrokerClose.
Import ListNotations.
Open Scope N_scope.

Definition nocf (_ : N) := false.
Definition h1 : list op :=
  [RegisterNode 1 11 TFilter ANone; RegisterNode 2 12 TFormatter ANone; RegisterNode 3 13 TSink ADeny;
   RegisterPipeline 1 1 [1; 2; 3] ADeny; RegisterPipeline 2 1 [2; 3] ANone; RegisterPipeline 1 2 [1; 1; 2; 3] AAllow].

(* a well-formed definition exists and is accepted; an ill-formed one is refused *)
Example wf_accepts : snd (fst (step nocf (run nocf h1) (RegisterPipeline 3 1 [1; 2; 3] ANone))) = ROk.
Proof. vm_compute. reflexivity. Qed.
Example wf_spec_inhabited : wf_spec (run nocf h1) 3 1 [1; 2; 3] ANone.
Proof. apply (register_pipeline_ok_iff nocf). exact wf_accepts. Qed.
Example illformed_refused : snd (fst (step nocf (run nocf h1) (RegisterPipeline 3 1 [2; 1; 3] ANone))) = RValidate.
Proof. vm_compute. reflexivity. Qed.
Example deny_refused : snd (fst (step nocf (run nocf h1) (RegisterPipeline 1 1 [2; 3] ANone))) = RDenied.
Proof. vm_compute. reflexivity. Qed.

(* reference counts in a state with shared nodes and a duplicate id: node 1 listed by 2 pipelines, nodes 2 and 3 by 3 *)
Example rc_values : map (fun kv => (fst kv, nu_rc (snd kv))) (b_nodes (run nocf h1)) = [(1, 2%nat); (2, 3%nat); (3, 3%nat)].
Proof. vm_compute. reflexivity. Qed.
(* removing everything un-pins everything: after the three removals every RemoveNode succeeds *)
Example unpinned :
  let b := run nocf (h1 ++ [RemovePipeline 1 2; RemovePipeline 2 1; RemovePipeline 1 1]) in
  map (fun id => snd (fst (step nocf b (RemoveNode id)))) [1; 2; 3] = [ROk; ROk; ROk].
Proof. vm_compute. reflexivity. Qed.
(* a Deny node in a reachable state (hypotheses of deny_sticky_node) *)
Example deny_node_exists : exists u, aget N.eqb 3 (b_nodes (run nocf h1)) = Some u /\ nu_pol u = PDeny.
Proof. eexists. split; vm_compute; reflexivity. Qed.
Example deny_pipe_exists : exists p, aget pkeqb (1, 1) (b_pipes (run nocf h1)) = Some p /\ p_pol p = PDeny.
Proof. eexists. split; vm_compute; reflexivity. Qed.
(* Reopen on that state: all 3 objects of 3 pipelines reached; with object 12 failing an error carrying 12 *)
Example reopen_ok : reopen_graphs (fun _ => false) (graphs_of (run nocf h1)) = ([11; 11; 12; 13; 11; 12; 13; 12; 13], []).
Proof. vm_compute. reflexivity. Qed.
Example reopen_fail : snd (reopen_graphs (N.eqb 12) (graphs_of (run nocf h1))) = [12].
Proof. vm_compute. reflexivity. Qed.

Example fresh_history_closes :
  NoDup (reg_objs h1) /\ closed_in nocf b0 (h1 ++ [RemovePipelineAndNodes 1 2; RemovePipelineAndNodes 2 1; RemovePipelineAndNodes 1 1]) = [11; 12; 13].
Proof.
  split; [|vm_compute; reflexivity]. cbn [reg_objs h1].
  repeat (constructor; [cbn; intuition discriminate|]). constructor.
Qed.
