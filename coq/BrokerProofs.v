(* BrokerProofs.v — invariants and theorems over the registry model of Broker.v, for every history. *)
From Coq Require Import List Bool Arith NArith ZArith Lia Permutation.
From Verif Require Import Alist Broker.
Import ListNotations.

Lemma pkeqb_spec a b : pkeqb a b = true <-> a = b.
Proof.
  destruct a as [a1 a2], b as [b1 b2]. unfold pkeqb. cbn. rewrite andb_true_iff, !N.eqb_eq.
  split; [intros [-> ->]; reflexivity|intros H; inversion H; auto].
Qed.

(* ================= C06: the reference count is the number of pipelines listing the node ================= *)
Notation nget := (aget N.eqb).
Notation pget := (aget pkeqb).

Definition b2n (b : bool) : nat := if b then 1 else 0.
Definition lists (id : N) (p : pipe) : nat := b2n (memN id (p_ids p)).
Definition listing (id : N) (b : broker) : nat := asum (lists id) (b_pipes b).


(* effect of folding a per-node count update over a duplicate-free id list *)
Section Fold.
  Variable f : nat -> nat.
  Fixpoint fold_rc (ids : list N) (nodes : list (N * nodeU)) : list (N * nodeU) :=
    match ids with
    | [] => nodes
    | id :: t => fold_rc t (match nget id nodes with
                            | Some u => aset N.eqb id (set_rc u (f (nu_rc u))) nodes
                            | None => nodes
                            end)
    end.

  Lemma fold_rc_get ids : NoDup ids -> forall nodes id,
    nget id (fold_rc ids nodes) =
    match nget id nodes with
    | Some u => Some (if memN id ids then set_rc u (f (nu_rc u)) else u)
    | None => None
    end.
  Proof.
    induction ids as [|x t IH]; intros Hnd nodes id; cbn [fold_rc memN].
    - destruct (nget id nodes); reflexivity.
    - inversion Hnd as [|? ? Hx Ht]; subst. rewrite (IH Ht).
      destruct (N.eqb id x) eqn:E.
      + apply N.eqb_eq in E. subst x. cbn [orb].
        assert (Hm : memN id t = false) by (destruct (memN id t) eqn:Em; auto; apply memN_In in Em; contradiction).
        rewrite Hm. destruct (nget id nodes) as [u|] eqn:Eg.
        * rewrite (aget_aset_same _ _ N.eqb neqb_spec). reflexivity.
        * rewrite Eg. reflexivity.
      + cbn [orb]. assert (Hne : id <> x) by (intros ->; rewrite N.eqb_refl in E; discriminate).
        destruct (nget x nodes) as [ux|] eqn:Ex.
        * rewrite (aget_aset_other _ _ N.eqb neqb_spec) by assumption. reflexivity.
        * reflexivity.
  Qed.

  Lemma fold_rc_ukeys ids nodes : ukeys nodes -> ukeys (fold_rc ids nodes).
  Proof.
    revert nodes; induction ids as [|x t IH]; intros nodes H; cbn [fold_rc]; [exact H|].
    apply IH. destruct (nget x nodes); [apply (ukeys_aset _ _ N.eqb neqb_spec); exact H|exact H].
  Qed.
End Fold.

Lemma release_is_fold ids nodes : release ids nodes = fold_rc pred ids nodes.
Proof. revert nodes; induction ids as [|x t IH]; intros nodes; cbn; [reflexivity|]. rewrite IH. reflexivity. Qed.
Lemma retain_is_fold ids nodes : retain ids nodes = fold_rc S ids nodes.
Proof. revert nodes; induction ids as [|x t IH]; intros nodes; cbn; [reflexivity|]. rewrite IH. reflexivity. Qed.

(* sums *)
Lemma asum_in {K} (w : pipe -> nat) (l : list (K * pipe)) k p : In (k, p) l -> w p <= asum w l.
Proof. induction l as [|[k' p'] t IH]; cbn; [tauto|]. intros [H|H]; [inversion H; subst; lia|specialize (IH H); lia]. Qed.
Lemma asum_zero {K} (w : pipe -> nat) (l : list (K * pipe)) : (forall k p, In (k, p) l -> w p = 0) -> asum w l = 0.
Proof.
  induction l as [|[k' p'] t IH]; cbn; intros H; [reflexivity|].
  rewrite (H k' p' (or_introl eq_refl)). rewrite IH; [reflexivity|]. intros k p Hin. apply (H k p). right. exact Hin.
Qed.

Record binv (b : broker) : Prop := {
  bi_nk : ukeys (b_nodes b);
  bi_pk : ukeys (b_pipes b);
  bi_rc : forall id u, nget id (b_nodes b) = Some u -> nu_rc u = listing id b;
  bi_reg : forall k p id, In (k, p) (b_pipes b) -> memN id (p_ids p) = true -> nget id (b_nodes b) <> None;
}.

Lemma binv_b0 : binv b0.
Proof. constructor; cbn; try constructor; try discriminate; tauto. Qed.

Lemma resolve_registered ids nodes objs id : resolve ids nodes = Some objs -> memN id ids = true -> nget id nodes <> None.
Proof.
  revert objs; induction ids as [|x t IH]; intros objs H Hm; cbn in *; [discriminate|].
  destruct (nget x nodes) as [u|] eqn:Ex; [|discriminate].
  destruct (resolve t nodes) as [r|] eqn:Er; [|discriminate].
  apply orb_true_iff in Hm as [Hm|Hm].
  - apply N.eqb_eq in Hm. subst. rewrite Ex. discriminate.
  - eapply IH; eauto.
Qed.

Lemma listing_unlisted id b : binv b -> nget id (b_nodes b) = None -> listing id b = 0.
Proof.
  intros Hi Hn. apply asum_zero. intros k p Hin. unfold lists.
  destruct (memN id (p_ids p)) eqn:E; [|reflexivity]. exfalso. exact (bi_reg _ Hi k p id Hin E Hn).
Qed.

Lemma unregister_all_spec ids : NoDup ids -> forall nodes closed ok,
  ukeys nodes ->
  let '(nodes', _, _) := unregister_all ids nodes closed ok in
  ukeys nodes' /\
  forall id, nget id nodes' =
    match nget id nodes with
    | Some u => if memN id ids then (if Nat.leb (nu_rc u) 1 then None else Some (set_rc u (pred (nu_rc u)))) else Some u
    | None => None
    end.
Proof.
  induction ids as [|x t IH]; intros Hnd nodes closed ok Hk; cbn [unregister_all memN].
  - split; [exact Hk|]. intros id. destruct (nget id nodes); reflexivity.
  - inversion Hnd as [|? ? Hx Ht]; subst.
    assert (Hmx : forall id, id = x -> memN id t = false).
    { intros id ->. destruct (memN x t) eqn:Em; auto. apply memN_In in Em. contradiction. }
    destruct (nget x nodes) as [ux|] eqn:Ex.
    + destruct (Nat.leb (nu_rc ux) 1) eqn:El.
      * specialize (IH Ht (adel N.eqb x nodes) (closed ++ [nu_obj ux]) ok (ukeys_adel _ _ N.eqb x nodes Hk)).
        destruct (unregister_all t (adel N.eqb x nodes) (closed ++ [nu_obj ux]) ok) as [[nodes' c'] ok'].
        destruct IH as [Hk' Hg]. split; [exact Hk'|]. intros id. rewrite Hg.
        destruct (N.eqb id x) eqn:E.
        -- apply N.eqb_eq in E. subst id. rewrite (aget_adel_same _ _ N.eqb). rewrite Ex. cbn [orb]. rewrite El. reflexivity.
        -- assert (Hne : id <> x) by (intros ->; rewrite N.eqb_refl in E; discriminate).
           rewrite (aget_adel_other _ _ N.eqb neqb_spec) by assumption. cbn [orb]. reflexivity.
      * specialize (IH Ht (aset N.eqb x (set_rc ux (pred (nu_rc ux))) nodes) closed ok
                      (ukeys_aset _ _ N.eqb neqb_spec x _ nodes Hk)).
        destruct (unregister_all t (aset N.eqb x (set_rc ux (pred (nu_rc ux))) nodes) closed ok) as [[nodes' c'] ok'].
        destruct IH as [Hk' Hg]. split; [exact Hk'|]. intros id. rewrite Hg.
        destruct (N.eqb id x) eqn:E.
        -- apply N.eqb_eq in E. subst id. rewrite (aget_aset_same _ _ N.eqb neqb_spec). rewrite Ex.
           rewrite (Hmx x eq_refl). cbn [orb]. rewrite El. reflexivity.
        -- assert (Hne : id <> x) by (intros ->; rewrite N.eqb_refl in E; discriminate).
           rewrite (aget_aset_other _ _ N.eqb neqb_spec) by assumption. cbn [orb]. reflexivity.
    + specialize (IH Ht nodes closed false Hk).
      destruct (unregister_all t nodes closed false) as [[nodes' c'] ok'].
      destruct IH as [Hk' Hg]. split; [exact Hk'|]. intros id. rewrite Hg.
      destruct (N.eqb id x) eqn:E.
      * apply N.eqb_eq in E. subst id. rewrite Ex. reflexivity.
      * cbn [orb]. reflexivity.
Qed.

Lemma binv_graphs b g th : binv b -> binv {| b_nodes := b_nodes b; b_pipes := b_pipes b; b_graphs := g; b_thr := th |}.
Proof. intros [H1 H2 H3 H4]. constructor; cbn; auto. Qed.

Theorem binv_step cf b o : binv b -> binv (fst (fst (step cf b o))).
Proof.
  intros Hi. pose proof Hi as [Hnk Hpk Hrc Hreg]. destruct o as [id obj ty pa|id|pid ety ids pa|ety pid|ety pid|ety v|ety v]; cbn [step].
  - (* RegisterNode *)
    destruct (N.eqb id 0); [exact Hi|]. destruct (pol_of pa) as [p|]; [|exact Hi].
    assert (Hcase : forall rc0, (forall u, nget id (b_nodes b) = Some u -> rc0 = nu_rc u) ->
                    (nget id (b_nodes b) = None -> rc0 = 0) ->
                    binv {| b_nodes := aset N.eqb id {| nu_obj := obj; nu_ty := ty; nu_rc := rc0; nu_pol := p |} (b_nodes b);
                            b_pipes := b_pipes b; b_graphs := b_graphs b; b_thr := b_thr b |}).
    { intros rc0 Hsome Hnone. constructor; cbn [b_nodes b_pipes].
      - apply (ukeys_aset _ _ N.eqb neqb_spec). exact Hnk.
      - exact Hpk.
      - intros id2 u2. destruct (N.eq_dec id2 id) as [->|Hne].
        + rewrite (aget_aset_same _ _ N.eqb neqb_spec). intros H; inversion H; subst u2. cbn [nu_rc].
          unfold listing. cbn [b_pipes]. fold (listing id b).
          destruct (nget id (b_nodes b)) as [u|] eqn:Eg.
          * rewrite (Hsome u eq_refl). apply Hrc. exact Eg.
          * rewrite (Hnone eq_refl). symmetry. apply listing_unlisted; assumption.
        + rewrite (aget_aset_other _ _ N.eqb neqb_spec) by assumption. intros H. apply (Hrc _ _ H).
      - intros k p0 id2 Hin Hm. destruct (N.eq_dec id2 id) as [->|Hne].
        + rewrite (aget_aset_same _ _ N.eqb neqb_spec). discriminate.
        + rewrite (aget_aset_other _ _ N.eqb neqb_spec) by assumption. eapply Hreg; eauto. }
    destruct (nget id (b_nodes b)) as [u|] eqn:Eg.
    + destruct (nu_pol u); [|exact Hi]. cbn [fst]. apply Hcase; [intros u0 H; inversion H; reflexivity|discriminate].
    + cbn [fst]. apply Hcase; [discriminate|reflexivity].
  - (* RemoveNode *)
    destruct (N.eqb id 0); [exact Hi|]. destruct (nget id (b_nodes b)) as [u|] eqn:Eg; [|exact Hi].
    destruct (Nat.ltb 0 (nu_rc u)) eqn:El; [exact Hi|]. cbn [fst].
    apply Nat.ltb_ge in El. assert (Hz : listing id b = 0) by (rewrite <- (Hrc _ _ Eg); lia).
    constructor; cbn [b_nodes b_pipes].
    + apply ukeys_adel. exact Hnk.
    + exact Hpk.
    + intros id2 u2. destruct (N.eq_dec id2 id) as [->|Hne].
      * rewrite (aget_adel_same _ _ N.eqb). discriminate.
      * rewrite (aget_adel_other _ _ N.eqb neqb_spec) by assumption. intros H. apply (Hrc _ _ H).
    + intros k p0 id2 Hin Hm. destruct (N.eq_dec id2 id) as [->|Hne].
      * exfalso. pose proof (asum_in (lists id) _ _ _ Hin) as Hle. unfold lists at 1 in Hle. rewrite Hm in Hle.
        unfold listing in Hz. cbn in Hle. lia.
      * rewrite (aget_adel_other _ _ N.eqb neqb_spec) by assumption. eapply Hreg; eauto.
  - (* RegisterPipeline *)
    destruct (N.eqb pid 0 || N.eqb ety 0 || match ids with [] => true | _ :: _ => false end || memN 0 ids); [exact Hi|].
    destruct (pol_of pa) as [p|]; [|exact Hi].
    
    destruct (match pget (ety, pid) (b_pipes b) with
              | Some old => match p_pol old with PDeny => true | PAllow => false end
              | None => false end); [apply binv_graphs; exact Hi|].
    destruct (resolve ids (b_nodes b)) as [objs|] eqn:Er; [|apply binv_graphs; exact Hi].
    destruct (negb (valid_shape objs)); [apply binv_graphs; exact Hi|]. cbn [fst].
    set (k := (ety, pid)). set (newp := {| p_ids := ids; p_objs := objs; p_pol := p |}).
    set (oldids := match pget k (b_pipes b) with Some old => distinct (p_ids old) | None => [] end).
    assert (Hnodes1 : match pget k (b_pipes b) with
                      | Some old => release (distinct (p_ids old)) (b_nodes b)
                      | None => b_nodes b end = fold_rc pred oldids (b_nodes b)).
    { unfold oldids. destruct (pget k (b_pipes b)); [apply release_is_fold|reflexivity]. }
    rewrite Hnodes1. rewrite retain_is_fold.
    assert (Hnd_old : NoDup oldids) by (unfold oldids; destruct (pget k (b_pipes b)); [apply NoDup_distinct|constructor]).
    assert (Hget : forall id, nget id (fold_rc S (distinct ids) (fold_rc pred oldids (b_nodes b))) =
                   match nget id (b_nodes b) with
                   | Some u => let u1 := if memN id oldids then set_rc u (pred (nu_rc u)) else u in
                               Some (if memN id (distinct ids) then set_rc u1 (S (nu_rc u1)) else u1)
                   | None => None end).
    { intros id. rewrite (fold_rc_get S _ (NoDup_distinct ids)). rewrite (fold_rc_get pred _ Hnd_old).
      destruct (nget id (b_nodes b)); reflexivity. }
    assert (Hold : forall id, b2n (memN id oldids) = wopt (lists id) (pget k (b_pipes b))).
    { intros id. unfold oldids. destruct (pget k (b_pipes b)) as [old|]; cbn [wopt]; [|reflexivity].
      unfold lists. rewrite memN_distinct. reflexivity. }
    constructor; cbn [b_nodes b_pipes].
    + apply fold_rc_ukeys. apply fold_rc_ukeys. exact Hnk.
    + apply (ukeys_aset _ _ pkeqb pkeqb_spec). exact Hpk.
    + intros id u'. rewrite Hget. destruct (nget id (b_nodes b)) as [u|] eqn:Eg; [|discriminate].
      intros H; inversion H; subst u'; clear H.
      pose proof (asum_aset _ _ pkeqb (lists id) k newp (b_pipes b) Hpk) as Hs.
      fold (listing id b) in Hs. rewrite <- (Hold id) in Hs.
      pose proof (Hrc _ _ Eg) as Hu.
      assert (Hge : b2n (memN id oldids) <= listing id b).
      { rewrite (Hold id). destruct (pget k (b_pipes b)) as [old|] eqn:Ep; cbn [wopt]; [|lia].
        apply (asum_in (lists id) _ k old). apply (aget_in _ pkeqb_spec). exact Ep. }
      unfold listing. cbn [b_pipes]. change (lists id newp) with (b2n (memN id ids)) in Hs. rewrite <- (memN_distinct id ids) in Hs.
      destruct (memN id oldids); destruct (memN id (distinct ids)); cbn [b2n nu_rc set_rc] in *; lia.
    + intros k2 p2 id Hin Hm. rewrite Hget.
      assert (Hsome : nget id (b_nodes b) <> None).
      { apply in_aset in Hin as [Heq|Hin].
        - inversion Heq; subst p2. cbn [newp p_ids] in Hm. eapply resolve_registered; eauto.
        - eapply Hreg; eauto. }
      destruct (nget id (b_nodes b)); [discriminate|contradiction].
  - (* RemovePipeline *)
    destruct (N.eqb ety 0 || N.eqb pid 0); [exact Hi|]. destruct (negb (memN ety (b_graphs b))); [exact Hi|].
    destruct (pget (ety, pid) (b_pipes b)) as [old|] eqn:Ep; [|exact Hi]. cbn [fst].
    set (k := (ety, pid)) in *. rewrite release_is_fold.
    constructor; cbn [b_nodes b_pipes].
    + apply fold_rc_ukeys. exact Hnk.
    + apply ukeys_adel. exact Hpk.
    + intros id u'. rewrite (fold_rc_get pred _ (NoDup_distinct _)). destruct (nget id (b_nodes b)) as [u|] eqn:Eg; [|discriminate].
      intros H; inversion H; subst u'; clear H.
      pose proof (asum_adel _ _ pkeqb pkeqb_spec (lists id) k (b_pipes b) Hpk) as Hs. rewrite Ep in Hs. cbn [wopt] in Hs.
      fold (listing id b) in Hs. pose proof (Hrc _ _ Eg) as Hu.
      unfold listing. cbn [b_pipes]. unfold lists at 2 in Hs. rewrite <- (memN_distinct id (p_ids old)) in Hs.
      destruct (memN id (distinct (p_ids old))); cbn [b2n nu_rc set_rc] in *; lia.
    + intros k2 p2 id Hin Hm. rewrite (fold_rc_get pred _ (NoDup_distinct _)).
      apply (in_adel _ pkeqb_spec) in Hin as [_ Hin].
      pose proof (Hreg _ _ _ Hin Hm) as Hs. destruct (nget id (b_nodes b)); [discriminate|contradiction].
  - (* RemovePipelineAndNodes *)
    destruct (N.eqb ety 0 || N.eqb pid 0); [exact Hi|]. destruct (negb (memN ety (b_graphs b))); [exact Hi|].
    destruct (pget (ety, pid) (b_pipes b)) as [old|] eqn:Ep; [|exact Hi].
    set (k := (ety, pid)) in *.
    pose proof (unregister_all_spec (distinct (p_ids old)) (NoDup_distinct _) (b_nodes b) [] true Hnk) as Hsp.
    destruct (unregister_all (distinct (p_ids old)) (b_nodes b) [] true) as [[nodes' closed] ok]. cbn [fst].
    destruct Hsp as [Hk' Hg].
    assert (Hsum : forall id, listing id b = asum (lists id) (adel pkeqb k (b_pipes b)) + b2n (memN id (distinct (p_ids old)))).
    { intros id. pose proof (asum_adel _ _ pkeqb pkeqb_spec (lists id) k (b_pipes b) Hpk) as Hs. rewrite Ep in Hs. cbn [wopt] in Hs.
      unfold lists at 2 in Hs. rewrite memN_distinct. unfold listing. lia. }
    constructor; cbn [b_nodes b_pipes].
    + exact Hk'.
    + apply ukeys_adel. exact Hpk.
    + intros id u'. rewrite Hg. destruct (nget id (b_nodes b)) as [u|] eqn:Eg; [|discriminate].
      pose proof (Hrc _ _ Eg) as Hu. specialize (Hsum id). unfold listing. cbn [b_pipes]. fold (listing id b) in Hsum.
      destruct (memN id (distinct (p_ids old))); cbn [b2n] in Hsum.
      * destruct (Nat.leb (nu_rc u) 1) eqn:El; [discriminate|]. intros H; inversion H; subst u'. cbn [nu_rc set_rc].
        apply Nat.leb_gt in El. lia.
      * intros H; inversion H; subst u'. lia.
    + intros k2 p2 id Hin Hm. rewrite Hg.
      pose proof (asum_in (lists id) _ _ _ Hin) as Hle. unfold lists at 1 in Hle. rewrite Hm in Hle. cbn [b2n] in Hle.
      apply (in_adel _ pkeqb_spec) in Hin as [_ Hin].
      pose proof (Hreg _ _ _ Hin Hm) as Hs. destruct (nget id (b_nodes b)) as [u|] eqn:Eg; [|contradiction].
      pose proof (Hrc _ _ Eg) as Hu. specialize (Hsum id).
      destruct (memN id (distinct (p_ids old))); cbn [b2n] in Hsum; [|discriminate].
      destruct (Nat.leb (nu_rc u) 1) eqn:El; [|discriminate]. apply Nat.leb_le in El. lia.
  - (* SetThr *) destruct (N.eqb ety 0 || Z.ltb v 0); [exact Hi|]. cbn [fst]. apply binv_graphs. exact Hi.
  - (* SetThrSinks *) destruct (N.eqb ety 0 || Z.ltb v 0); [exact Hi|]. cbn [fst]. apply binv_graphs. exact Hi.
Qed.

(* every history *)
Definition run (cf : N -> bool) (ops : list op) : broker := fold_left (fun b o => fst (fst (step cf b o))) ops b0.

Lemma binv_fold cf ops : forall b, binv b -> binv (fold_left (fun b o => fst (fst (step cf b o))) ops b).
Proof.
  induction ops as [|o t IH]; intros b Hb; cbn [fold_left]; [exact Hb|]. apply IH. apply binv_step. exact Hb.
Qed.
Lemma binv_run cf ops : binv (run cf ops).
Proof. apply binv_fold. apply binv_b0. Qed.

Theorem rc_exact cf ops id u : nget id (b_nodes (run cf ops)) = Some u -> nu_rc u = listing id (run cf ops).
Proof. intros H. apply (bi_rc _ (binv_run cf ops)). exact H. Qed.

(* C06 corollaries: a node is "in use" exactly when some registered pipeline lists it ... *)
Theorem in_use_iff cf ops id u : nget id (b_nodes (run cf ops)) = Some u ->
  (0 < nu_rc u <-> exists k p, In (k, p) (b_pipes (run cf ops)) /\ memN id (p_ids p) = true).
Proof.
  intros H. rewrite (rc_exact _ _ _ _ H). unfold listing. split.
  - intros Hpos. induction (b_pipes (run cf ops)) as [|[k p] t IH]; cbn in Hpos; [lia|].
    unfold lists at 1 in Hpos. destruct (memN id (p_ids p)) eqn:E.
    + exists k, p. split; [left; reflexivity|exact E].
    + cbn in Hpos. destruct (IH Hpos) as [k2 [p2 [Hin Hm]]]. exists k2, p2. split; [right; exact Hin|exact Hm].
  - intros [k [p [Hin Hm]]]. pose proof (asum_in (lists id) _ _ _ Hin) as Hle. unfold lists at 1 in Hle. rewrite Hm in Hle. cbn in Hle. lia.
Qed.

(* ... so nothing stays pinned: RemoveNode succeeds on every registered node no pipeline lists *)
Theorem nothing_pinned cf ops id u : id <> 0%N -> nget id (b_nodes (run cf ops)) = Some u ->
  (forall k p, In (k, p) (b_pipes (run cf ops)) -> memN id (p_ids p) = false) ->
  snd (fst (step cf (run cf ops) (RemoveNode id))) <> RInUse /\ snd (step cf (run cf ops) (RemoveNode id)) = [nu_obj u].
Proof.
  intros Hid H Hno. cbn [step]. apply N.eqb_neq in Hid. rewrite Hid, H.
  assert (Hz : nu_rc u = 0).
  { rewrite (rc_exact _ _ _ _ H). apply asum_zero. intros k p Hin. unfold lists. rewrite (Hno k p Hin). reflexivity. }
  rewrite Hz. cbn. split; [destruct (cf (nu_obj u)); discriminate|reflexivity].
Qed.

Print Assumptions rc_exact.
Print Assumptions nothing_pinned.

(* ================= C05: the acceptance predicate, and "a refused call changes nothing" ================= *)
Lemma valid_shape_spec objs :
  valid_shape objs = true <->
  exists pre p l, objs = pre ++ [p; l] /\ is_fmt (snd p) = true /\ is_sink (snd l) = true.
Proof.
  unfold valid_shape. split.
  - destruct (rev objs) as [|[lo lt] [|[po pt] rest]] eqn:Er; try discriminate.
    intros H. apply andb_prop in H as [Hs Hf].
    exists (rev rest), (po, pt), (lo, lt). split; [|split; assumption].
    rewrite <- (rev_involutive objs), Er. cbn [rev]. rewrite <- app_assoc. reflexivity.
  - intros [pre [[po pt] [[lo lt] [-> [Hf Hs]]]]]. rewrite rev_app_distr. cbn [rev app]. cbn in Hf, Hs. rewrite Hs, Hf. reflexivity.
Qed.

Definition denied_by_existing (b : broker) (ety pid : N) : Prop :=
  exists old, pget (ety, pid) (b_pipes b) = Some old /\ p_pol old = PDeny.

(* the statement of C05, transcribed: what a definition must satisfy to be registered *)
Definition wf_spec (b : broker) (pid ety : N) (ids : list N) (pa : polarg) : Prop :=
  pid <> 0%N /\ ety <> 0%N /\ ids <> [] /\ ~ In 0%N ids /\ pol_of pa <> None /\
  ~ denied_by_existing b ety pid /\
  exists objs, resolve ids (b_nodes b) = Some objs /\            (* every listed node is registered *)
    exists pre p l, objs = pre ++ [p; l] /\                     (* at least two nodes *)
      is_fmt (snd p) = true /\ is_sink (snd l) = true.          (* ... formatter(-filter) then sink at the end *)

Theorem register_pipeline_ok_iff cf b pid ety ids pa :
  snd (fst (step cf b (RegisterPipeline pid ety ids pa))) = ROk <-> wf_spec b pid ety ids pa.
Proof.
  cbn [step]. unfold wf_spec, denied_by_existing.
  destruct (N.eqb pid 0) eqn:E1; cbn [orb].
  { apply N.eqb_eq in E1. split; [discriminate|]. intros [H _]. contradiction. }
  destruct (N.eqb ety 0) eqn:E2; cbn [orb].
  { apply N.eqb_eq in E2. split; [discriminate|]. intros [_ [H _]]. contradiction. }
  destruct ids as [|i0 it]; cbn [orb].
  { split; [discriminate|]. intros [_ [_ [H _]]]. contradiction. }
  assert (E0 : i0 :: it <> []) by discriminate.
  remember (i0 :: it) as ids eqn:Eids. clear Eids.
  destruct (memN 0 ids) eqn:E3.
  { apply memN_In in E3. split; [discriminate|]. intros [_ [_ [_ [H _]]]]. contradiction. }
  apply N.eqb_neq in E1, E2.
  assert (E3' : ~ In 0%N ids) by (intros H; apply memN_In in H; congruence).
  destruct (pol_of pa) as [p|] eqn:Ep.
  2:{ cbn. split; [discriminate|]. intros [_ [_ [_ [_ [H _]]]]]. contradiction. }
  destruct (pget (ety, pid) (b_pipes b)) as [old|] eqn:Eo.
  - destruct (p_pol old) eqn:Epol.
    + (* allow *)
      destruct (resolve ids (b_nodes b)) as [objs|] eqn:Er.
      * destruct (valid_shape objs) eqn:Ev; cbn [negb fst snd].
        -- split; [intros _|reflexivity]. repeat (split; [assumption || discriminate|]).
           split; [intros [o [Ho Hp]]; inversion Ho; subst; congruence|].
           exists objs. split; [reflexivity|]. apply valid_shape_spec. exact Ev.
        -- split; [discriminate|]. intros [_ [_ [_ [_ [_ [_ [o [Ho Hs]]]]]]]]. inversion Ho; subst o.
           apply valid_shape_spec in Hs. congruence.
      * cbn. split; [discriminate|]. intros [_ [_ [_ [_ [_ [_ [o [Ho _]]]]]]]]. discriminate.
    + (* deny *) cbn. split; [discriminate|]. intros [_ [_ [_ [_ [_ [Hd _]]]]]]. exfalso. apply Hd. exists old. auto.
  - destruct (resolve ids (b_nodes b)) as [objs|] eqn:Er.
    + destruct (valid_shape objs) eqn:Ev; cbn [negb fst snd].
      * split; [intros _|reflexivity]. repeat (split; [assumption || discriminate|]).
        split; [intros [o [Ho _]]; discriminate|].
        exists objs. split; [reflexivity|]. apply valid_shape_spec. exact Ev.
      * split; [discriminate|]. intros [_ [_ [_ [_ [_ [_ [o [Ho Hs]]]]]]]]. inversion Ho; subst o.
        apply valid_shape_spec in Hs. congruence.
    + cbn. split; [discriminate|]. intros [_ [_ [_ [_ [_ [_ [o [Ho _]]]]]]]]. discriminate.
Qed.

(* a refused call leaves the registered nodes (objects, policies, counts) and the registered pipelines as they were *)
Definition refused (o : op) (r : rclass) : Prop :=
  match o with
  | RemoveNode _ | RemovePipelineAndNodes _ _ => r <> ROk /\ r <> RCloseErr   (* a close error is a completed removal *)
  | SetThr _ _ | SetThrSinks _ _ => r <> ROk
  | _ => r <> ROk
  end.

Theorem refusal_frame cf b o :
  refused o (snd (fst (step cf b o))) ->
  b_nodes (fst (fst (step cf b o))) = b_nodes b /\ b_pipes (fst (fst (step cf b o))) = b_pipes b /\
  snd (step cf b o) = [].
Proof.
  destruct o as [id obj ty pa|id|pid ety ids pa|ety pid|ety pid|ety v|ety v]; cbn [step refused].
  - destruct (N.eqb id 0); [auto|]. destruct (pol_of pa); [|auto].
    destruct (nget id (b_nodes b)) as [u|]; [destruct (nu_pol u)|]; cbn; intros H; auto; congruence.
  - destruct (N.eqb id 0); [auto|]. destruct (nget id (b_nodes b)) as [u|]; [|auto].
    destruct (Nat.ltb 0 (nu_rc u)); [auto|]. cbn. destruct (cf (nu_obj u)); intros [H1 H2]; congruence.
  - destruct (_ || _ || _ || _); [auto|]. destruct (pol_of pa); [|auto].
    destruct (match pget (ety, pid) (b_pipes b) with Some old => _ | None => false end); [cbn; auto|].
    destruct (resolve ids (b_nodes b)); [|cbn; auto]. destruct (negb (valid_shape l)); cbn; [auto|]. congruence.
  - destruct (_ || _); [auto|]. destruct (negb _); [auto|]. destruct (pget (ety, pid) (b_pipes b)); cbn; [congruence|auto].
  - destruct (_ || _); [auto|]. destruct (negb _); [auto|]. destruct (pget (ety, pid) (b_pipes b)) as [old|]; [|cbn; auto].
    destruct (unregister_all _ _ _ _) as [[n c] ok]. cbn. destruct (ok && negb (existsb cf c)); intros [H1 H2]; congruence.
  - destruct (_ || _); [auto|]. cbn. congruence.
  - destruct (_ || _); [auto|]. cbn. congruence.
Qed.

Print Assumptions register_pipeline_ok_iff.
Print Assumptions refusal_frame.

(* ================= C05: IsAnyPipelineRegistered ================= *)
Lemma pipes_of_in b ety pid p : In (pid, p) (pipes_of b ety) <-> In ((ety, pid), p) (b_pipes b).
Proof.
  unfold pipes_of. rewrite in_map_iff. split.
  - intros [[[e q] p'] [Heq Hin]]. apply filter_In in Hin as [Hin He]. cbn in *. apply N.eqb_eq in He. inversion Heq; subst. exact Hin.
  - intros Hin. exists ((ety, pid), p). split; [reflexivity|]. apply filter_In. split; [exact Hin|]. cbn. apply N.eqb_refl.
Qed.

(* every pipeline's type has a graph *)
Definition ginv (b : broker) : Prop := forall ety pid p, In ((ety, pid), p) (b_pipes b) -> memN ety (b_graphs b) = true.
Lemma memN_add_graph x ety g : memN x g = true -> memN x (add_graph ety g) = true.
Proof. unfold add_graph. destruct (memN ety g); cbn; [auto|]. intros ->. apply orb_true_r. Qed.
Lemma memN_add_graph_same ety g : memN ety (add_graph ety g) = true.
Proof. unfold add_graph. destruct (memN ety g) eqn:E; cbn; [exact E|]. rewrite N.eqb_refl. reflexivity. Qed.

Lemma ginv_step cf b o : ginv b -> ginv (fst (fst (step cf b o))).
Proof.
  intros Hg. destruct o as [id obj ty pa|id|pid ety ids pa|ety pid|ety pid|ety v|ety v]; cbn [step].
  - destruct (N.eqb id 0); [exact Hg|]. destruct (pol_of pa); [|exact Hg].
    destruct (nget id (b_nodes b)) as [u|]; [destruct (nu_pol u)|]; cbn [fst]; exact Hg.
  - destruct (N.eqb id 0); [exact Hg|]. destruct (nget id (b_nodes b)) as [u|]; [|exact Hg].
    destruct (Nat.ltb 0 (nu_rc u)); cbn [fst]; exact Hg.
  - destruct (_ || _ || _ || _); [exact Hg|]. destruct (pol_of pa) as [p|]; [|exact Hg].
    assert (H1 : ginv {| b_nodes := b_nodes b; b_pipes := b_pipes b; b_graphs := add_graph ety (b_graphs b); b_thr := b_thr b |}).
    { intros e q p0 Hin. cbn in *. apply memN_add_graph. eapply Hg; eauto. }
    destruct (match pget (ety, pid) (b_pipes b) with Some old => _ | None => false end); [exact H1|].
    destruct (resolve ids (b_nodes b)) as [objs|]; [|exact H1]. destruct (negb (valid_shape objs)); [exact H1|].
    cbn [fst]. intros e q p0 Hin. cbn [b_pipes b_graphs] in *. apply in_aset in Hin as [Heq|Hin].
    + inversion Heq; subst. apply memN_add_graph_same.
    + apply memN_add_graph. eapply Hg; eauto.
  - destruct (_ || _); [exact Hg|]. destruct (negb _); [exact Hg|]. destruct (pget (ety, pid) (b_pipes b)); [|exact Hg].
    cbn [fst]. intros e q p0 Hin. cbn [b_pipes b_graphs] in *. apply (in_adel _ pkeqb_spec) in Hin as [_ Hin]. eapply Hg; eauto.
  - destruct (_ || _); [exact Hg|]. destruct (negb _); [exact Hg|]. destruct (pget (ety, pid) (b_pipes b)) as [old|]; [|exact Hg].
    destruct (unregister_all _ _ _ _) as [[n c] ok]. cbn [fst]. intros e q p0 Hin. cbn [b_pipes b_graphs] in *.
    apply (in_adel _ pkeqb_spec) in Hin as [_ Hin]. eapply Hg; eauto.
  - destruct (_ || _); [exact Hg|]. cbn [fst]. intros e q p0 Hin. cbn in *. apply memN_add_graph. eapply Hg; eauto.
  - destruct (_ || _); [exact Hg|]. cbn [fst]. intros e q p0 Hin. cbn in *. apply memN_add_graph. eapply Hg; eauto.
Qed.
Lemma ginv_fold cf ops : forall b, ginv b -> ginv (fold_left (fun b o => fst (fst (step cf b o))) ops b).
Proof. induction ops as [|o t IH]; intros b Hb; cbn [fold_left]; [exact Hb|]. apply IH. apply ginv_step. exact Hb. Qed.
Lemma ginv_run cf ops : ginv (run cf ops).
Proof. apply ginv_fold. intros e q p0 []. Qed.

(* IsAnyPipelineRegistered is true for a type exactly when at least one pipeline is currently registered for it *)
Theorem is_any_iff cf ops ety :
  is_any (run cf ops) ety = true <-> exists pid p, In ((ety, pid), p) (b_pipes (run cf ops)).
Proof.
  unfold is_any. split.
  - intros H. apply andb_prop in H as [_ H]. destruct (pipes_of (run cf ops) ety) as [|[pid p] t] eqn:E; [discriminate|].
    exists pid, p. apply pipes_of_in. rewrite E. left. reflexivity.
  - intros [pid [p Hin]]. rewrite (ginv_run cf ops _ _ _ Hin). cbn [andb].
    apply pipes_of_in in Hin. destruct (pipes_of (run cf ops) ety); [destruct Hin|reflexivity].
Qed.

(* ================= C07: overwrite policy ================= *)
(* invalid policy values are rejected, and nothing changes *)
Theorem invalid_policy_rejected_node cf b id obj ty : step cf b (RegisterNode id obj ty ABad) = (b, RInvalid, []).
Proof. cbn. destruct (N.eqb id 0); reflexivity. Qed.
Theorem invalid_policy_rejected_pipeline cf b pid ety ids : step cf b (RegisterPipeline pid ety ids ABad) = (b, RInvalid, []).
Proof. cbn. destruct (_ || _ || _ || _); reflexivity. Qed.

(* a node registered with DenyOverwrite: every later registration under that id fails and changes nothing *)
Theorem deny_node_refuses cf b id u obj ty pa :
  nget id (b_nodes b) = Some u -> nu_pol u = PDeny ->
  fst (step cf b (RegisterNode id obj ty pa)) = (b, RInvalid) \/ fst (step cf b (RegisterNode id obj ty pa)) = (b, RDenied).
Proof.
  intros Hg Hp. cbn. destruct (N.eqb id 0); [left; reflexivity|]. destruct (pol_of pa); [|left; reflexivity].
  rewrite Hg, Hp. right. reflexivity.
Qed.
(* ... and it stays registered, same object, same policy, until a call that closes it (RemoveNode / RemovePipelineAndNodes) *)
Lemma fold_rc_keeps f ids : forall nodes id u, nget id nodes = Some u ->
  exists u', nget id (fold_rc f ids nodes) = Some u' /\ nu_obj u' = nu_obj u /\ nu_pol u' = nu_pol u /\ nu_ty u' = nu_ty u.
Proof.
  induction ids as [|x t IH]; intros nodes id u H; cbn [fold_rc]; [exists u; auto|].
  destruct (nget x nodes) as [ux|] eqn:Ex; [|apply IH; exact H].
  destruct (N.eq_dec id x) as [->|Hne].
  - rewrite H in Ex. inversion Ex; subst ux.
    destruct (IH (aset N.eqb x (set_rc u (f (nu_rc u))) nodes) x (set_rc u (f (nu_rc u)))) as [u' [H1 [H2 [H3 H4]]]].
    { apply (aget_aset_same _ _ N.eqb neqb_spec). }
    exists u'. cbn in *. auto.
  - apply IH. rewrite (aget_aset_other _ _ N.eqb neqb_spec) by assumption. exact H.
Qed.
Lemma unregister_all_keeps ids : forall nodes closed ok id u, nget id nodes = Some u ->
  let '(nodes', closed', _) := unregister_all ids nodes closed ok in
  (exists u', nget id nodes' = Some u' /\ nu_obj u' = nu_obj u /\ nu_pol u' = nu_pol u /\ nu_ty u' = nu_ty u) \/ In (nu_obj u) closed'.
Proof.
  assert (Hmono : forall ids nodes closed ok x, In x closed -> let '(_, c', _) := unregister_all ids nodes closed ok in In x c').
  { intros ids0; induction ids0 as [|y t IH]; intros nodes closed ok x Hin; cbn [unregister_all]; [exact Hin|].
    destruct (nget y nodes) as [uy|]; [destruct (Nat.leb (nu_rc uy) 1)|]; apply IH; auto. apply in_or_app. left. exact Hin. }
  induction ids as [|x t IH]; intros nodes closed ok id u H; cbn [unregister_all]; [left; exists u; auto|].
  destruct (nget x nodes) as [ux|] eqn:Ex; [|apply IH; exact H].
  destruct (N.eq_dec id x) as [->|Hne].
  - rewrite H in Ex. inversion Ex; subst ux. destruct (Nat.leb (nu_rc u) 1).
    + specialize (Hmono t (adel N.eqb x nodes) (closed ++ [nu_obj u]) ok (nu_obj u)).
      destruct (unregister_all t (adel N.eqb x nodes) (closed ++ [nu_obj u]) ok) as [[n' c'] ok']. right. apply Hmono.
      apply in_or_app. right. left. reflexivity.
    + specialize (IH (aset N.eqb x (set_rc u (pred (nu_rc u))) nodes) closed ok x (set_rc u (pred (nu_rc u)))
                     (aget_aset_same _ _ N.eqb neqb_spec x _ nodes)).
      destruct (unregister_all t _ closed ok) as [[n' c'] ok']. exact IH.
  - destruct (Nat.leb (nu_rc ux) 1).
    + apply IH. rewrite (aget_adel_other _ _ N.eqb neqb_spec) by assumption. exact H.
    + apply IH. rewrite (aget_aset_other _ _ N.eqb neqb_spec) by assumption. exact H.
Qed.

Theorem deny_node_sticky_step cf b o id u :
  nget id (b_nodes b) = Some u -> nu_pol u = PDeny ->
  (exists u', nget id (b_nodes (fst (fst (step cf b o)))) = Some u' /\ nu_obj u' = nu_obj u /\ nu_pol u' = PDeny)
  \/ In (nu_obj u) (snd (step cf b o)).
Proof.
  intros Hg Hp.
  assert (Hsame : exists u', nget id (b_nodes b) = Some u' /\ nu_obj u' = nu_obj u /\ nu_pol u' = PDeny) by (exists u; auto).
  destruct o as [id2 obj ty pa|id2|pid ety ids pa|ety pid|ety pid|ety v|ety v]; cbn [step].
  - destruct (N.eqb id2 0); [left; exact Hsame|]. destruct (pol_of pa) as [p|]; [|left; exact Hsame].
    destruct (N.eq_dec id2 id) as [->|Hne].
    + rewrite Hg, Hp. left. exact Hsame.
    + left. destruct (nget id2 (b_nodes b)) as [u2|]; [destruct (nu_pol u2)|]; cbn [fst b_nodes];
        try rewrite (aget_aset_other _ _ N.eqb neqb_spec) by (intros E; apply Hne; symmetry; exact E); exact Hsame.
  - destruct (N.eqb id2 0); [left; exact Hsame|]. destruct (N.eq_dec id2 id) as [->|Hne].
    + rewrite Hg. destruct (Nat.ltb 0 (nu_rc u)); [left; exact Hsame|]. right. cbn. left. reflexivity.
    + left. destruct (nget id2 (b_nodes b)) as [u2|]; [|exact Hsame]. destruct (Nat.ltb 0 (nu_rc u2)); [exact Hsame|].
      cbn [fst b_nodes]. rewrite (aget_adel_other _ _ N.eqb neqb_spec) by (intros E; apply Hne; symmetry; exact E). exact Hsame.
  - left. destruct (_ || _ || _ || _); [exact Hsame|]. destruct (pol_of pa) as [p|]; [|exact Hsame].
    destruct (match pget (ety, pid) (b_pipes b) with Some old => _ | None => false end); [exact Hsame|].
    destruct (resolve ids (b_nodes b)) as [objs|]; [|exact Hsame]. destruct (negb (valid_shape objs)); [exact Hsame|].
    cbn [fst b_nodes]. rewrite retain_is_fold.
    assert (H1 : exists u1, nget id (match pget (ety, pid) (b_pipes b) with
                                     | Some old => release (distinct (p_ids old)) (b_nodes b) | None => b_nodes b end) = Some u1
                            /\ nu_obj u1 = nu_obj u /\ nu_pol u1 = nu_pol u /\ nu_ty u1 = nu_ty u).
    { destruct (pget (ety, pid) (b_pipes b)); [rewrite release_is_fold; apply fold_rc_keeps; exact Hg|exists u; auto]. }
    destruct H1 as [u1 [Hg1 [Ho1 [Hp1 _]]]].
    destruct (fold_rc_keeps S (distinct ids) _ id u1 Hg1) as [u' [H1 [H2 [H3 _]]]].
    exists u'. split; [exact H1|]. split; congruence.
  - left. destruct (_ || _); [exact Hsame|]. destruct (negb _); [exact Hsame|]. destruct (pget (ety, pid) (b_pipes b)) as [old|]; [|exact Hsame].
    cbn [fst b_nodes]. rewrite release_is_fold. destruct (fold_rc_keeps pred (distinct (p_ids old)) _ id u Hg) as [u' [H1 [H2 [H3 _]]]].
    exists u'. split; [exact H1|]. split; congruence.
  - destruct (_ || _); [left; exact Hsame|]. destruct (negb _); [left; exact Hsame|].
    destruct (pget (ety, pid) (b_pipes b)) as [old|]; [|left; exact Hsame].
    pose proof (unregister_all_keeps (distinct (p_ids old)) (b_nodes b) [] true id u Hg) as Hk.
    destruct (unregister_all (distinct (p_ids old)) (b_nodes b) [] true) as [[n' c'] ok']. cbn [fst snd b_nodes].
    destruct Hk as [[u' [H1 [H2 [H3 _]]]]|Hc]; [left; exists u'; split; [exact H1|split; congruence]|right; exact Hc].
  - left. destruct (_ || _); exact Hsame.
  - left. destruct (_ || _); exact Hsame.
Qed.

(* over histories: from any state where id is registered with DenyOverwrite, after any history either the same object is
   still registered under id with DenyOverwrite, or some step of the history closed it (an explicit removal) *)
Fixpoint closed_in (cf : N -> bool) (b : broker) (ops : list op) : list N :=
  match ops with [] => [] | o :: t => snd (step cf b o) ++ closed_in cf (fst (fst (step cf b o))) t end.
Theorem deny_sticky_node cf ops : forall b id u,
  nget id (b_nodes b) = Some u -> nu_pol u = PDeny ->
  (exists u', nget id (b_nodes (fold_left (fun b o => fst (fst (step cf b o))) ops b)) = Some u' /\ nu_obj u' = nu_obj u /\ nu_pol u' = PDeny)
  \/ In (nu_obj u) (closed_in cf b ops).
Proof.
  induction ops as [|o t IH]; intros b id u Hg Hp; cbn [fold_left closed_in]; [left; exists u; auto|].
  destruct (deny_node_sticky_step cf b o id u Hg Hp) as [[u' [H1 [H2 H3]]]|Hc].
  - destruct (IH _ id u' H1 H3) as [[u'' [H4 [H5 H6]]]|Hc].
    + left. exists u''. split; [exact H4|]. split; congruence.
    + right. apply in_or_app. right. rewrite <- H2. exact Hc.
  - right. apply in_or_app. left. exact Hc.
Qed.

(* a pipeline registered with DenyOverwrite: every later registration under (type, id) is refused, nothing changes except
   that the type's graph exists *)
Theorem deny_pipeline_refuses cf b pid ety ids pa old :
  pget (ety, pid) (b_pipes b) = Some old -> p_pol old = PDeny ->
  let '(b', r, closed) := step cf b (RegisterPipeline pid ety ids pa) in
  r <> ROk /\ b_pipes b' = b_pipes b /\ b_nodes b' = b_nodes b /\ closed = [].
Proof.
  intros Hg Hp. cbn [step]. destruct (_ || _ || _ || _); [repeat split; discriminate|].
  destruct (pol_of pa); [|repeat split; discriminate]. rewrite Hg, Hp. repeat split; discriminate.
Qed.
(* ... and the very same registration (node list, linked objects, policy) stays until RemovePipeline / RemovePipelineAndNodes of it *)
Definition removes_pipeline (o : op) (ety pid : N) : Prop :=
  o = RemovePipeline ety pid \/ o = RemovePipelineAndNodes ety pid.
Theorem deny_pipeline_sticky_step cf b o ety pid old :
  pget (ety, pid) (b_pipes b) = Some old -> p_pol old = PDeny ->
  pget (ety, pid) (b_pipes (fst (fst (step cf b o)))) = Some old \/ removes_pipeline o ety pid.
Proof.
  intros Hg Hp. destruct o as [id2 obj ty pa|id2|pid2 ety2 ids pa|ety2 pid2|ety2 pid2|ety2 v|ety2 v]; cbn [step].
  - left. destruct (N.eqb id2 0); [exact Hg|]. destruct (pol_of pa); [|exact Hg].
    destruct (nget id2 (b_nodes b)) as [u2|]; [destruct (nu_pol u2)|]; exact Hg.
  - left. destruct (N.eqb id2 0); [exact Hg|]. destruct (nget id2 (b_nodes b)) as [u2|]; [|exact Hg]. destruct (Nat.ltb 0 (nu_rc u2)); exact Hg.
  - left. destruct (_ || _ || _ || _); [exact Hg|]. destruct (pol_of pa) as [p|]; [|exact Hg].
    destruct (pkeqb (ety2, pid2) (ety, pid)) eqn:Ek.
    + apply pkeqb_spec in Ek. inversion Ek; subst. rewrite Hg, Hp. exact Hg.
    + assert (Hne : (ety, pid) <> (ety2, pid2)) by (intros E; rewrite <- E in Ek; rewrite (proj2 (pkeqb_spec _ _) eq_refl) in Ek; discriminate).
      destruct (match pget (ety2, pid2) (b_pipes b) with Some old0 => _ | None => false end); [exact Hg|].
      destruct (resolve ids (b_nodes b)) as [objs|]; [|exact Hg]. destruct (negb (valid_shape objs)); [exact Hg|].
      cbn [fst b_pipes]. rewrite (aget_aset_other _ _ pkeqb pkeqb_spec) by exact Hne. exact Hg.
  - destruct (pkeqb (ety2, pid2) (ety, pid)) eqn:Ek.
    + apply pkeqb_spec in Ek. inversion Ek; subst. right. left. reflexivity.
    + left. assert (Hne : (ety, pid) <> (ety2, pid2)) by (intros E; rewrite <- E in Ek; rewrite (proj2 (pkeqb_spec _ _) eq_refl) in Ek; discriminate).
      destruct (_ || _); [exact Hg|]. destruct (negb _); [exact Hg|]. destruct (pget (ety2, pid2) (b_pipes b)); [|exact Hg].
      cbn [fst b_pipes]. rewrite (aget_adel_other _ _ pkeqb pkeqb_spec) by exact Hne. exact Hg.
  - destruct (pkeqb (ety2, pid2) (ety, pid)) eqn:Ek.
    + apply pkeqb_spec in Ek. inversion Ek; subst. right. right. reflexivity.
    + left. assert (Hne : (ety, pid) <> (ety2, pid2)) by (intros E; rewrite <- E in Ek; rewrite (proj2 (pkeqb_spec _ _) eq_refl) in Ek; discriminate).
      destruct (_ || _); [exact Hg|]. destruct (negb _); [exact Hg|]. destruct (pget (ety2, pid2) (b_pipes b)); [|exact Hg].
      destruct (unregister_all _ _ _ _) as [[n c] ok]. cbn [fst b_pipes]. rewrite (aget_adel_other _ _ pkeqb pkeqb_spec) by exact Hne. exact Hg.
  - left. destruct (_ || _); exact Hg.
  - left. destruct (_ || _); exact Hg.
Qed.
Theorem deny_sticky_pipeline cf ops : forall b ety pid old,
  pget (ety, pid) (b_pipes b) = Some old -> p_pol old = PDeny ->
  (forall o, In o ops -> ~ removes_pipeline o ety pid) ->
  pget (ety, pid) (b_pipes (fold_left (fun b o => fst (fst (step cf b o))) ops b)) = Some old.
Proof.
  induction ops as [|o t IH]; intros b ety pid old Hg Hp Hno; cbn [fold_left]; [exact Hg|].
  destruct (deny_pipeline_sticky_step cf b o ety pid old Hg Hp) as [H|H].
  - apply IH; auto. intros o' Hin. apply Hno. right. exact Hin.
  - exfalso. apply (Hno o); [left; reflexivity|exact H].
Qed.

(* AllowOverwrite (the default): re-registration succeeds when the definition is well-formed and the policy given then applies *)
Theorem allow_then_reregister cf b pid ety ids pa p :
  wf_spec b pid ety ids pa -> pol_of pa = Some p ->
  let b' := fst (fst (step cf b (RegisterPipeline pid ety ids pa))) in
  exists newp, pget (ety, pid) (b_pipes b') = Some newp /\ p_ids newp = ids /\ p_pol newp = p /\
               resolve ids (b_nodes b) = Some (p_objs newp).
Proof.
  intros Hwf Hp. pose proof (proj2 (register_pipeline_ok_iff cf b pid ety ids pa) Hwf) as Hok.
  cbn [step] in *. destruct (_ || _ || _ || _); [discriminate|]. rewrite Hp in *.
  destruct (match pget (ety, pid) (b_pipes b) with Some old => _ | None => false end); [discriminate|].
  destruct (resolve ids (b_nodes b)) as [objs|]; [|discriminate]. destruct (negb (valid_shape objs)); [discriminate|].
  cbn [fst b_pipes]. eexists. split; [apply (aget_aset_same _ _ pkeqb pkeqb_spec)|]. cbn. auto.
Qed.
Theorem allow_node_reregister cf b id u obj ty pa p :
  id <> 0%N -> nget id (b_nodes b) = Some u -> nu_pol u = PAllow -> pol_of pa = Some p ->
  let b' := fst (fst (step cf b (RegisterNode id obj ty pa))) in
  exists u', nget id (b_nodes b') = Some u' /\ nu_obj u' = obj /\ nu_pol u' = p /\ nu_rc u' = nu_rc u.
Proof.
  intros Hid Hg Ha Hp. cbn [step]. apply N.eqb_neq in Hid. rewrite Hid, Hp, Hg, Ha. cbn [fst b_nodes].
  eexists. split; [apply (aget_aset_same _ _ N.eqb neqb_spec)|]. cbn. auto.
Qed.
(* re-registering a node id affects only pipelines registered afterwards: the registered pipelines (and so what every
   Send traverses) are untouched by RegisterNode *)
Theorem node_reregistration_local cf b id obj ty pa ety :
  b_pipes (fst (fst (step cf b (RegisterNode id obj ty pa)))) = b_pipes b /\
  deliveries (fst (fst (step cf b (RegisterNode id obj ty pa)))) ety = deliveries b ety.
Proof.
  assert (H : b_pipes (fst (fst (step cf b (RegisterNode id obj ty pa)))) = b_pipes b).
  { cbn [step]. destruct (N.eqb id 0); [reflexivity|]. destruct (pol_of pa); [|reflexivity].
    destruct (nget id (b_nodes b)) as [u|]; [destruct (nu_pol u)|]; reflexivity. }
  split; [exact H|]. unfold deliveries, pipes_of. rewrite H. reflexivity.
Qed.

(* ================= C20: Reopen ================= *)
Section ReopenProofs.
  Variable fails : N -> bool.

  Lemma reopen_pipe_spec objs :
    let '(c, e) := reopen_pipe fails objs in
    filter fails c = match e with Some x => [x] | None => [] end /\
    (e = None -> c = objs) /\ (forall x, In x c -> In x objs).
  Proof.
    induction objs as [|o t IH]; cbn [reopen_pipe]; [repeat split; auto|].
    destruct (fails o) eqn:Ef.
    - cbn. rewrite Ef. repeat split; [discriminate|]. intros x [<-|[]]. left. reflexivity.
    - destruct (reopen_pipe fails t) as [c e]. destruct IH as [H1 [H2 H3]]. cbn. rewrite Ef. repeat split; [exact H1| |].
      + intros He. rewrite (H2 He). reflexivity.
      + intros x [<-|Hin]; [left; reflexivity|right; auto].
  Qed.
  Lemma reopen_graph_spec ps :
    let '(c, e) := reopen_graph fails ps in
    filter fails c = e /\ (e = [] -> c = concat ps) /\ (forall x, In x c -> In x (concat ps)).
  Proof.
    induction ps as [|p t IH]; cbn [reopen_graph]; [repeat split; auto|].
    pose proof (reopen_pipe_spec p) as Hp. destruct (reopen_pipe fails p) as [c e].
    destruct (reopen_graph fails t) as [c2 e2]. destruct Hp as [P1 [P2 P3]], IH as [H1 [H2 H3]].
    rewrite filter_app, P1, H1. cbn [concat]. repeat split.
    - destruct e; reflexivity.
    - destruct e; [discriminate|]. intros He. rewrite (P2 eq_refl), (H2 He). reflexivity.
    - intros x Hin. apply in_app_or in Hin as [Hin|Hin]; apply in_or_app; auto.
  Qed.
  Lemma reopen_graphs_spec gs :
    let '(c, e) := reopen_graphs fails gs in
    filter fails c = e /\ (e = [] -> c = concat (concat gs)) /\ (forall x, In x c -> In x (concat (concat gs))).
  Proof.
    induction gs as [|g t IH]; cbn [reopen_graphs]; [repeat split; auto|].
    pose proof (reopen_graph_spec g) as Hg. destruct (reopen_graph fails g) as [c e]. destruct Hg as [G1 [G2 G3]].
    cbn [concat]. rewrite concat_app. destruct e as [|e0 et].
    - destruct (reopen_graphs fails t) as [c2 e2]. destruct IH as [H1 [H2 H3]]. rewrite filter_app, G1, H1. repeat split.
      + intros He. rewrite (G2 eq_refl), (H2 He). reflexivity.
      + intros x Hin. apply in_app_or in Hin as [Hin|Hin]; apply in_or_app; auto.
    - repeat split; [exact G1|discriminate|]. intros x Hin. apply in_or_app. left. auto.
  Qed.

  (* the carried failures are exactly the failures returned by the Reopen calls actually made, in call order *)
  Theorem reopen_errors_are_real gs : snd (reopen_graphs fails gs) = filter fails (fst (reopen_graphs fails gs)).
  Proof. pose proof (reopen_graphs_spec gs) as H. destruct (reopen_graphs fails gs) as [c e]. cbn. symmetry. apply H. Qed.

  (* no node fails: nil error and every node of every pipeline of every graph was reopened, whatever the orders *)
  Theorem reopen_all gs :
    (forall o, In o (concat (concat gs)) -> fails o = false) ->
    snd (reopen_graphs fails gs) = [] /\ fst (reopen_graphs fails gs) = concat (concat gs).
  Proof.
    intros Hno. pose proof (reopen_graphs_spec gs) as H. destruct (reopen_graphs fails gs) as [c e]. cbn. destruct H as [H1 [H2 H3]].
    assert (He : e = []).
    { rewrite <- H1. clear H1 H2. induction c as [|x t IH]; cbn; [reflexivity|].
      rewrite (Hno x (H3 x (or_introl eq_refl))). apply IH. intros y Hy. apply H3. right. exact Hy. }
    split; [exact He|apply H2; exact He].
  Qed.
  (* some node that Reopen would reach fails: the result is an error *)
  Theorem reopen_error_carried gs :
    (exists o, In o (concat (concat gs)) /\ fails o = true) -> snd (reopen_graphs fails gs) <> [].
  Proof.
    intros [o [Hin Hf]] He. pose proof (reopen_graphs_spec gs) as H. destruct (reopen_graphs fails gs) as [c e]. cbn in He.
    destruct H as [H1 [H2 _]]. rewrite He in *. rewrite (H2 eq_refl) in H1.
    assert (Hx : In o (filter fails (concat (concat gs)))) by (apply filter_In; auto). rewrite H1 in Hx. exact Hx.
  Qed.
End ReopenProofs.

(* tie to the registry: the graphs of a reachable broker list exactly the linked objects of its registered pipelines *)
Theorem reopen_reaches_registered cf ops fails gs :
  (forall o, In o (concat (concat gs)) <-> In o (all_linked_objs (run cf ops))) ->
  (forall o, In o (all_linked_objs (run cf ops)) -> fails o = false) ->
  snd (reopen_graphs fails gs) = [] /\ forall o, In o (all_linked_objs (run cf ops)) -> In o (fst (reopen_graphs fails gs)).
Proof.
  intros Hsame Hno. destruct (reopen_all fails gs) as [H1 H2]; [intros o Hin; apply Hno, Hsame, Hin|].
  split; [exact H1|]. intros o Hin. rewrite H2. apply Hsame. exact Hin.
Qed.
Lemma all_linked_objs_spec b o :
  ginv b -> (In o (all_linked_objs b) <-> exists k p, In (k, p) (b_pipes b) /\ In o (map fst (p_objs p))).
Proof.
  intros Hg. unfold all_linked_objs, graphs_of. rewrite in_concat. split.
  - intros [l [Hl Ho]]. apply in_concat in Hl as [g [Hgm Hl]]. apply in_map_iff in Hgm as [ety [<- Hety]].
    unfold deliveries in Hl. apply in_map_iff in Hl as [[pid p] [<- Hp]]. apply pipes_of_in in Hp. exists (ety, pid), p. auto.
  - intros [[ety pid] [p [Hin Ho]]]. exists (map fst (p_objs p)). split; [|exact Ho].
    apply in_concat. exists (deliveries b ety). split.
    + apply in_map_iff. exists ety. split; [reflexivity|]. apply memN_In. eapply Hg; eauto.
    + unfold deliveries. apply in_map_iff. exists (pid, p). split; [reflexivity|]. apply pipes_of_in. exact Hin.
Qed.

(* ================= C06: RemoveNode / RemovePipelineAndNodes specifications ================= *)
Theorem remove_in_use_refused cf ops id u :
  id <> 0%N -> nget id (b_nodes (run cf ops)) = Some u ->
  (exists k p, In (k, p) (b_pipes (run cf ops)) /\ memN id (p_ids p) = true) ->
  step cf (run cf ops) (RemoveNode id) = (run cf ops, RInUse, []).
Proof.
  intros Hid Hg Hex. apply (in_use_iff cf ops id u Hg) in Hex. cbn [step]. apply N.eqb_neq in Hid. rewrite Hid, Hg.
  apply Nat.ltb_lt in Hex. rewrite Hex. reflexivity.
Qed.

Definition obj_at (nodes : list (N * nodeU)) (id : N) : N := match nget id nodes with Some u => nu_obj u | None => 0%N end.
Definition last_ref (nodes : list (N * nodeU)) (id : N) : bool :=
  match nget id nodes with Some u => Nat.leb (nu_rc u) 1 | None => false end.

Lemma unregister_all_closed ids : NoDup ids -> forall nodes closed ok,
  let '(_, closed', _) := unregister_all ids nodes closed ok in
  closed' = closed ++ map (obj_at nodes) (filter (last_ref nodes) ids).
Proof.
  induction ids as [|x t IH]; intros Hnd nodes closed ok; cbn [unregister_all filter map]; [rewrite app_nil_r; reflexivity|].
  inversion Hnd as [|? ? Hx Ht]; subst.
  assert (Hext : forall nodes2, (forall id, id <> x -> nget id nodes2 = nget id nodes) ->
                 map (obj_at nodes2) (filter (last_ref nodes2) t) = map (obj_at nodes) (filter (last_ref nodes) t)).
  { intros nodes2 Hsame.
    assert (Hf : filter (last_ref nodes2) t = filter (last_ref nodes) t).
    { apply filter_ext_in. intros id Hin. unfold last_ref. rewrite Hsame; [reflexivity|]. intros ->. contradiction. }
    rewrite Hf. apply map_ext_in. intros id Hin. apply filter_In in Hin as [Hin _]. unfold obj_at.
    rewrite Hsame; [reflexivity|]. intros ->. contradiction. }
  unfold last_ref at 1. destruct (nget x nodes) as [ux|] eqn:Ex.
  - destruct (Nat.leb (nu_rc ux) 1) eqn:El.
    + specialize (IH Ht (adel N.eqb x nodes) (closed ++ [nu_obj ux]) ok).
      destruct (unregister_all t (adel N.eqb x nodes) (closed ++ [nu_obj ux]) ok) as [[n' c'] ok'].
      rewrite IH, Hext by (intros id Hne; apply (aget_adel_other _ _ N.eqb neqb_spec); exact Hne).
      cbn [map]. unfold obj_at at 2. rewrite Ex. rewrite <- app_assoc. reflexivity.
    + specialize (IH Ht (aset N.eqb x (set_rc ux (pred (nu_rc ux))) nodes) closed ok).
      destruct (unregister_all t (aset N.eqb x (set_rc ux (pred (nu_rc ux))) nodes) closed ok) as [[n' c'] ok'].
      rewrite IH, Hext by (intros id Hne; apply (aget_aset_other _ _ N.eqb neqb_spec); exact Hne). reflexivity.
  - specialize (IH Ht nodes closed false). destruct (unregister_all t nodes closed false) as [[n' c'] ok']. exact IH.
Qed.

Theorem rpan_spec cf ops ety pid old :
  ety <> 0%N -> pid <> 0%N ->
  pget (ety, pid) (b_pipes (run cf ops)) = Some old ->
  let b := run cf ops in
  let '(b', r, closed) := step cf b (RemovePipelineAndNodes ety pid) in
  (r = ROk \/ r = RCloseErr) /\
  pget (ety, pid) (b_pipes b') = None /\
  (forall k, k <> (ety, pid) -> pget k (b_pipes b') = pget k (b_pipes b)) /\
  (forall id, nget id (b_nodes b') =
     match nget id (b_nodes b) with
     | Some u => if memN id (p_ids old)
                 then (if Nat.leb (listing id b) 1 then None else Some (set_rc u (pred (nu_rc u))))
                 else Some u
     | None => None end) /\
  closed = map (fun id => match nget id (b_nodes b) with Some u => nu_obj u | None => 0%N end)
               (filter (fun id => Nat.leb (listing id b) 1) (distinct (p_ids old))).
Proof.
  intros He Hp Hold b. pose proof (binv_run cf ops) as Hi. pose proof (ginv_run cf ops) as Hgi. fold b in Hi, Hgi, Hold.
  cbn [step]. apply N.eqb_neq in He, Hp. rewrite He, Hp. cbn [orb].
  assert (Hmem : memN ety (b_graphs b) = true) by (eapply Hgi; apply (aget_in _ pkeqb_spec); exact Hold).
  rewrite Hmem, Hold. cbn [negb].
  pose proof (unregister_all_spec (distinct (p_ids old)) (NoDup_distinct _) (b_nodes b) [] true (bi_nk _ Hi)) as Hsp.
  pose proof (unregister_all_closed (distinct (p_ids old)) (NoDup_distinct _) (b_nodes b) [] true) as Hcl.
  destruct (unregister_all (distinct (p_ids old)) (b_nodes b) [] true) as [[nodes' closed] ok].
  destruct Hsp as [_ Hget]. cbn [b_pipes b_nodes]. repeat split.
  - destruct (ok && negb (existsb cf closed)); auto.
  - apply (aget_adel_same _ _ pkeqb).
  - intros k Hk. apply (aget_adel_other _ _ pkeqb pkeqb_spec). exact Hk.
  - intros id. rewrite Hget. rewrite memN_distinct. destruct (nget id (b_nodes b)) as [u|] eqn:Eg; [|reflexivity].
    rewrite (bi_rc _ Hi id u Eg). reflexivity.
  - rewrite Hcl. cbn [app].
    assert (Hf : filter (last_ref (b_nodes b)) (distinct (p_ids old)) = filter (fun id => Nat.leb (listing id b) 1) (distinct (p_ids old))).
    { apply filter_ext_in. intros id Hin. unfold last_ref. destruct (nget id (b_nodes b)) as [u|] eqn:Eg.
      - rewrite (bi_rc _ Hi id u Eg). reflexivity.
      - exfalso. apply memN_In in Hin. rewrite memN_distinct in Hin.
        exact (bi_reg _ Hi _ _ id (aget_in _ pkeqb_spec _ _ _ Hold) Hin Eg). }
    rewrite Hf. reflexivity.
Qed.
