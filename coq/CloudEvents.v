(* CloudEvents.v — model of formatter_filters/cloudevents: FormatterFilter.validate / Process / sign.  Model only; proofs in
   CloudEventsProofs.v.

   Format names are interned as in Formatters.v: 2 = "cloudevents-json", 3 = "cloudevents-text".  The creation time, the
   String() of the source and schema URLs are input tokens.  External behaviour enters as parameters: the payload's optional
   ID() and the JSON image of its Data() (or of the payload itself) are functions of an abstract payload type; the signer,
   the predicate and the random id source are arguments.  This is the *specified* behaviour: a failing signer makes Process
   fail (the code before the F2 repair stored and forwarded the unsigned document instead). *)
From Coq Require Import List Bool NArith.
From Verif Require Import Alist Base64 Json Formatters.
Import ListNotations.
Open Scope N_scope.

Definition fmt_ce_json : N := 2.
Definition fmt_ce_text : N := 3.

Inductive cformat := FUnspec | FJson | FText | FBad.
Inductive sres := SigOk (h : bytes) | SigErr.
Inductive dimage :=
| DAbsent            (* a nil interface: the data member is omitted (omitempty) *)
| DVal (v : jv)      (* the JSON image of the data *)
| DUnenc.            (* the data cannot be encoded *)

(* cloudevents.Event *)
Record doc := {
  d_id : bytes; d_source : bytes; d_type : bytes; d_data : option jv; d_ctype : bytes; d_schema : bytes; d_time : bytes;
  d_ser : bytes; d_hmac : bytes }.

Definition s_id : bytes := [105; 100].
Definition s_source : bytes := [115; 111; 117; 114; 99; 101].
Definition s_specversion : bytes := [115; 112; 101; 99; 118; 101; 114; 115; 105; 111; 110].
Definition s_type : bytes := [116; 121; 112; 101].
Definition s_data : bytes := [100; 97; 116; 97].
Definition s_datacontenttype : bytes := [100; 97; 116; 97; 99; 111; 110; 116; 101; 110; 116; 121; 112; 101]. (* sic: datacontentype *)
Definition s_dataschema : bytes := [100; 97; 116; 97; 115; 99; 104; 101; 109; 97].
Definition s_time : bytes := [116; 105; 109; 101].
Definition s_serialized : bytes := [115; 101; 114; 105; 97; 108; 105; 122; 101; 100].
Definition s_serialized_hmac : bytes := [115; 101; 114; 105; 97; 108; 105; 122; 101; 100; 95; 104; 109; 97; 99].
Definition v_spec : bytes := [49; 46; 48].                                                                  (* 1.0 *)
Definition v_ct_json : bytes :=
  [97; 112; 112; 108; 105; 99; 97; 116; 105; 111; 110; 47; 99; 108; 111; 117; 100; 101; 118; 101; 110; 116; 115]. (* application/cloudevents *)
Definition v_ct_text : bytes := [116; 101; 120; 116; 47; 112; 108; 97; 105; 110].                          (* text/plain *)

Definition nonempty (b : bytes) : bool := match b with [] => false | _ => true end.
Definition opt_member (k v : bytes) : list (bytes * jv) := if nonempty v then [(k, JStr v)] else [].

(* the struct in field order with its omitempty rules (time.Time is a struct: never omitted) *)
Definition doc_jv (d : doc) : jv :=
  JObj ([(s_id, JStr (d_id d)); (s_source, JStr (d_source d)); (s_specversion, JStr v_spec); (s_type, JStr (d_type d))]
        ++ (match d_data d with Some v => [(s_data, v)] | None => [] end)
        ++ opt_member s_datacontenttype (d_ctype d)
        ++ opt_member s_dataschema (d_schema d)
        ++ [(s_time, JStr (d_time d))]
        ++ opt_member s_serialized (d_ser d)
        ++ opt_member s_serialized_hmac (d_hmac d)).

Definition fmt_key (f : cformat) : N := match f with FText => fmt_ce_text | _ => fmt_ce_json end.
Definition ctype (f : cformat) : bytes := match f with FText => v_ct_text | _ => v_ct_json end.
(* what json.Encoder.Encode writes: compact for the json format, SetIndent("", "  ") for the text format *)
Definition enc (f : cformat) (d : doc) : bytes :=
  match f with FText => encode_text (doc_jv d) | _ => encode_line (doc_jv d) end.
Definition with_sig (d : doc) (ser h : bytes) : doc :=
  {| d_id := d_id d; d_source := d_source d; d_type := d_type d; d_data := d_data d; d_ctype := d_ctype d;
     d_schema := d_schema d; d_time := d_time d; d_ser := ser; d_hmac := h |}.

Record cfg := {
  c_source : option bytes;              (* None: nil URL; Some s: Source.String() *)
  c_schema : option bytes;
  c_format : cformat;
  c_pred : option (doc -> pres);
  c_signer : option (bytes -> sres);
  c_sign_types : list bytes }.

Definition valid (c : cfg) : bool :=
  (match c_source c with Some s => nonempty s | None => false end)
  && (match c_format c with FBad => false | _ => true end)
  && (match c_schema c with Some s => nonempty s | None => true end).
Definition listed (c : cfg) (ty : bytes) : bool := existsb (beqb ty) (c_sign_types c).
Definition must_sign (c : cfg) (ty : bytes) : option (bytes -> sres) :=
  match c_signer c with Some sg => if listed c ty then Some sg else None | None => None end.

(* FormatterFilter.Rotate: installs a new signer; a nil signer is refused and changes nothing.  The signer is the only state
   of the node: every later Process call is judged under the signer in force at that call. *)
Definition rotate (c : cfg) (s : option (bytes -> sres)) : cfg * bool :=
  match s with
  | None => (c, false)
  | Some sg =>
      ({| c_source := c_source c; c_schema := c_schema c; c_format := c_format c; c_pred := c_pred c;
          c_signer := Some sg; c_sign_types := c_sign_types c |}, true)
  end.

Section CloudEvents.
  Variable P : Type.
  Variable p_id : P -> option bytes.      (* None: the payload does not implement ID; Some s: what ID() returns *)
  Variable p_data : P -> dimage.          (* image of Data() when implemented, of the payload itself otherwise *)

  (* does Process draw a fresh id for this event *)
  Definition needs_fresh (c : option cfg) (e : option (event P)) : bool :=
    match c, e with
    | Some c, Some ev => valid c && match p_id (ev_payload ev) with None => true | Some _ => false end
    | _, _ => false
    end.

  Definition unsigned_doc (c : cfg) (ev : event P) (id t : bytes) (dat : option jv) : doc :=
    {| d_id := id; d_source := match c_source c with Some s => s | None => [] end; d_type := ev_type ev; d_data := dat;
       d_ctype := ctype (c_format c); d_schema := match c_schema c with Some s => s | None => [] end; d_time := t;
       d_ser := []; d_hmac := [] |}.

  Definition finish (c : cfg) (ev : event P) (d : doc) (calls : list bytes) : option (event P) * outcome * list bytes :=
    (Some (formatted_as (fmt_key (c_format c)) (enc (c_format c) d) ev),
     match c_pred c with None => OFwd | Some p => by_pred (p d) end, calls).

  (* result: the event after the call (None: a nil event was handed in), the outcome, the inputs the signer was called with *)
  Definition process (c : option cfg) (e : option (event P)) (fresh : option bytes)
    : option (event P) * outcome * list bytes :=
    match c with
    | None => (e, OErr, [])
    | Some c =>
        if negb (valid c) then (e, OErr, []) else
        match e with
        | None => (None, OErr, [])
        | Some ev =>
            let fail := (Some ev, OErr, @nil bytes) in
            match (match p_id (ev_payload ev) with
                   | Some i => if nonempty i then Some i else None
                   | None => fresh
                   end) with
            | None => fail
            | Some id =>
                match ev_time ev, p_data (ev_payload ev) with
                | None, _ => fail
                | _, DUnenc => fail
                | Some t, dat =>
                    let d := unsigned_doc c ev id t (match dat with DVal v => Some v | _ => None end) in
                    match must_sign c (ev_type ev) with
                    | None => finish c ev d []
                    | Some sg =>
                        let u := enc (c_format c) d in
                        match sg u with
                        | SigErr => (Some ev, OErr, [u])
                        | SigOk h => finish c ev (with_sig d (Base64.encode u) h) [u]
                        end
                    end
                end
            end
        end
    end.

  (* a sequence of events through one node, fresh ids drawn from a stream; returns the ids that were drawn and used *)
  Fixpoint process_all (c : option cfg) (evs : list (event P)) (stream : list bytes) : list bytes :=
    match evs with
    | [] => []
    | ev :: rest =>
        if needs_fresh c (Some ev) then
          match stream with
          | i :: stream' => i :: process_all c rest stream'
          | [] => []
          end
        else process_all c rest stream
    end.
End CloudEvents.

Arguments needs_fresh {P}. Arguments unsigned_doc {P}. Arguments finish {P}. Arguments process {P}.
Arguments process_all {P}.
