(* CloudEventsProofs.v — what cloudevents.FormatterFilter.Process does, for every payload type, ID()/Data() behaviour,
   configuration, signer, predicate, format table and id source. *)
From Coq Require Import List Bool Arith NArith Lia.
From Verif Require Import Alist Base64 Json JsonProofs Formatters FormattersProofs CloudEvents.
Import ListNotations.
Open Scope N_scope.

Lemma nonempty_true b : nonempty b = true <-> b <> [].
Proof. destruct b; cbn; split; intros H; congruence. Qed.
Lemma nonempty_false b : nonempty b = false <-> b = [].
Proof. destruct b; cbn; split; intros H; congruence. Qed.

(* ---------------------------------------------------------------- the encoded document *)
Definition data_wf (dat : option jv) : Prop := match dat with Some v => wf v | None => True end.

Lemma wf_mem_app a b : wf_mem (a ++ b) <-> wf_mem a /\ wf_mem b.
Proof. induction a as [|[k x] a IH]; cbn [app wf_mem]; tauto. Qed.
Lemma wf_opt_member k v : wf_mem (opt_member k v).
Proof. unfold opt_member. destruct (nonempty v); cbn; tauto. Qed.
Lemma wf_doc_jv d : data_wf (d_data d) -> wf (doc_jv d).
Proof.
  intros H. unfold doc_jv. apply wf_obj. repeat (apply wf_mem_app; split); try apply wf_opt_member; try (cbn; tauto).
  unfold data_wf in H. destruct (d_data d); cbn; tauto.
Qed.

(* what is stored is a JSON document — compact for the json format, indented for the text format — that parses back to the
   image of the document object *)
Theorem ce_document_parses f d : data_wf (d_data d) -> parse_doc (enc f d) = Some (jimage (doc_jv d)).
Proof.
  intros H. unfold enc. destruct f; try (apply parse_doc_line; apply wf_doc_jv; exact H).
  apply parse_doc_text. apply wf_doc_jv. exact H.
Qed.
Lemma enc_bytes f d : data_wf (d_data d) -> Base64.bytes (enc f d).
Proof.
  intros H. unfold Base64.bytes, enc, encode_line, encode_text, render, render_indent.
  destruct f; apply Forall_app; (split; [apply render_g_bytes; apply wf_doc_jv; exact H|repeat constructor]).
Qed.
(* base64url-decoding the serialized member gives back exactly the encoded unsigned document *)
Theorem serialized_decodes f d : data_wf (d_data d) -> Base64.decode (Base64.encode (enc f d)) = Some (enc f d).
Proof. intros H. apply Base64.decode_encode. apply enc_bytes. exact H. Qed.

(* the members of a document, and the signed document = the unsigned one plus serialized and serialized_hmac *)
Definition members (v : jv) : list (bytes * jv) := match v with JObj l => l | _ => [] end.
Theorem signed_doc_members d ser h : d_ser d = [] -> d_hmac d = [] -> ser <> [] -> h <> [] ->
  members (doc_jv (with_sig d ser h)) = members (doc_jv d) ++ [(s_serialized, JStr ser); (s_serialized_hmac, JStr h)].
Proof.
  intros H1 H2 Hs Hh. unfold doc_jv, with_sig, members. cbn [d_id d_source d_type d_data d_ctype d_schema d_time d_ser d_hmac].
  rewrite H1, H2. unfold opt_member at 3 4 7 8. cbn [nonempty].
  destruct ser; [congruence|]. destruct h; [congruence|]. cbn [nonempty]. rewrite !app_nil_r. rewrite <- !app_assoc. reflexivity.
Qed.
Lemma encode_nonempty u : u <> [] -> Base64.encode u <> [].
Proof. destruct u as [|a [|b [|c u]]]; intros H; [congruence| | |]; cbn; discriminate. Qed.
Lemma enc_nonempty f d : enc f d <> [].
Proof. unfold enc, encode_line, encode_text. destruct f; intros H; apply app_eq_nil in H; destruct H; discriminate. Qed.

(* Rotate installs exactly the given signer and touches nothing else; Rotate(nil) is refused and changes nothing *)
Theorem rotate_installs c sg :
  let c' := fst (rotate c (Some sg)) in
  snd (rotate c (Some sg)) = true /\ c_signer c' = Some sg /\ c_sign_types c' = c_sign_types c /\ c_source c' = c_source c /\
  c_schema c' = c_schema c /\ c_format c' = c_format c /\ c_pred c' = c_pred c /\ valid c' = valid c /\
  (forall ty, listed c' ty = listed c ty).
Proof. cbn. repeat split; reflexivity. Qed.
Theorem rotate_nil_refused c : rotate c None = (c, false).
Proof. reflexivity. Qed.

Section Proofs.
  Variable P : Type.
  Variable p_id : P -> option bytes.
  Variable p_data : P -> dimage.
  Notation process := (process p_id p_data).
  Notation event := (event P).

  (* the id Process uses *)
  Definition chosen_id (ev : event) (fresh : option bytes) : option bytes :=
    match p_id (ev_payload ev) with Some i => if nonempty i then Some i else None | None => fresh end.
  Definition data_of (ev : event) : option (option jv) :=
    match p_data (ev_payload ev) with DVal v => Some (Some v) | DAbsent => Some None | DUnenc => None end.
  Definition pred_out (cf : cfg) (d : doc) : outcome :=
    match c_pred cf with None => OFwd | Some p => by_pred (p d) end.

  (* ---------------- rejections: an error, nothing stored, the signer not consulted ---------------- *)
  Theorem ce_invalid_config_rejected c (e : option event) fresh :
    (c = None \/ exists cf, c = Some cf /\ valid cf = false) -> process c e fresh = (e, OErr, []).
  Proof.
    intros [->|[cf [-> Hv]]]; unfold CloudEvents.process; [reflexivity|]. rewrite Hv. reflexivity.
  Qed.
  (* which configurations are invalid: nil or empty source, an unknown format, an empty schema *)
  Theorem valid_iff cf :
    valid cf = true <->
    (exists s, c_source cf = Some s /\ s <> []) /\ c_format cf <> FBad /\ (forall s, c_schema cf = Some s -> s <> []).
  Proof.
    unfold valid. rewrite !andb_true_iff. split.
    - intros [[Hs Hf] Hc]. repeat split.
      + destruct (c_source cf) as [s|]; [|discriminate]. exists s. split; [reflexivity|]. apply nonempty_true. exact Hs.
      + destruct (c_format cf); try discriminate; congruence.
      + intros s Es. rewrite Es in Hc. apply nonempty_true. exact Hc.
    - intros [[s [Es Hs]] [Hf Hc]]. repeat split.
      + rewrite Es. apply nonempty_true. exact Hs.
      + destruct (c_format cf); try reflexivity. congruence.
      + destruct (c_schema cf) as [s'|]; [|reflexivity]. apply nonempty_true. apply Hc. reflexivity.
  Qed.
  Theorem ce_nil_event_rejected cf fresh : process (Some cf) None fresh = (None, OErr, []).
  Proof. unfold CloudEvents.process. destruct (valid cf); reflexivity. Qed.

  Theorem ce_empty_id_rejected cf (ev : event) fresh :
    p_id (ev_payload ev) = Some [] -> process (Some cf) (Some ev) fresh = (Some ev, OErr, []).
  Proof.
    intros Hid. unfold CloudEvents.process. destruct (valid cf); cbn [negb]; [|reflexivity]. rewrite Hid. reflexivity.
  Qed.
  Theorem ce_unencodable_rejected cf (ev : event) fresh :
    (ev_time ev = None \/ p_data (ev_payload ev) = DUnenc) -> process (Some cf) (Some ev) fresh = (Some ev, OErr, []).
  Proof.
    intros H. unfold CloudEvents.process. destruct (valid cf); cbn [negb]; [|reflexivity].
    destruct (match p_id (ev_payload ev) with Some i => if nonempty i then Some i else None | None => fresh end);
      [|reflexivity].
    destruct H as [H|H]; rewrite H; [reflexivity|]. destruct (ev_time ev); reflexivity.
  Qed.

  (* ---------------- the shape of every call that gets as far as the signing decision ---------------- *)
  Lemma process_shape cf (ev : event) fresh id t dat :
    valid cf = true -> chosen_id ev fresh = Some id -> ev_time ev = Some t -> data_of ev = Some dat ->
    let d := unsigned_doc cf ev id t dat in
    let u := enc (c_format cf) d in
    process (Some cf) (Some ev) fresh =
    match must_sign cf (ev_type ev) with
    | None => finish cf ev d []
    | Some sg => match sg u with
                 | SigErr => (Some ev, OErr, [u])
                 | SigOk h => finish cf ev (with_sig d (Base64.encode u) h) [u]
                 end
    end.
  Proof.
    intros Hv Hid Ht Hd. unfold CloudEvents.process. rewrite Hv. cbn [negb].
    unfold chosen_id in Hid. rewrite Hid. rewrite Ht. unfold data_of in Hd.
    destruct (p_data (ev_payload ev)) as [|v|]; try discriminate; injection Hd as <-; reflexivity.
  Qed.

  (* conversely: if Process does not fail, all of these held *)
  Lemma process_ok_inv cf (ev : event) fresh r oc calls :
    process (Some cf) (Some ev) fresh = (r, oc, calls) -> oc <> OErr ->
    exists id t dat, valid cf = true /\ chosen_id ev fresh = Some id /\ ev_time ev = Some t /\ data_of ev = Some dat.
  Proof.
    intros H Hoc. unfold CloudEvents.process in H. destruct (valid cf) eqn:Hv; cbn [negb] in H;
      [|injection H as _ <- _; congruence].
    fold (chosen_id ev fresh) in H. destruct (chosen_id ev fresh) as [id|] eqn:Hid; [|injection H as _ <- _; congruence].
    destruct (ev_time ev) as [t|] eqn:Ht; [|injection H as _ <- _; congruence].
    unfold data_of. destruct (p_data (ev_payload ev)) as [|v|] eqn:Hd.
    - exists id, t, None. auto.
    - exists id, t, (Some v). auto.
    - injection H as _ <- _. congruence.
  Qed.

  (* ---------------- signing ---------------- *)
  (* a failing signer: an error, the event (format table included) untouched, nothing forwarded *)
  Theorem sign_failure_not_forwarded cf (ev : event) fresh id t dat sg :
    valid cf = true -> chosen_id ev fresh = Some id -> ev_time ev = Some t -> data_of ev = Some dat ->
    c_signer cf = Some sg -> listed cf (ev_type ev) = true ->
    sg (enc (c_format cf) (unsigned_doc cf ev id t dat)) = SigErr ->
    fst (process (Some cf) (Some ev) fresh) = (Some ev, OErr).
  Proof.
    intros Hv Hid Ht Hd Hs Hl Hf. rewrite (process_shape cf ev fresh id t dat Hv Hid Ht Hd). cbv zeta.
    unfold must_sign. rewrite Hs, Hl, Hf. reflexivity.
  Qed.
  (* the same read from the result: whenever the signer was consulted and Process did not fail, the signer succeeded *)
  Theorem forwarded_implies_signed cf (ev : event) fresh r oc calls sg :
    process (Some cf) (Some ev) fresh = (r, oc, calls) -> oc <> OErr ->
    c_signer cf = Some sg -> listed cf (ev_type ev) = true ->
    exists d h, d_ser d = [] /\ d_hmac d = [] /\
      sg (enc (c_format cf) d) = SigOk h /\ calls = [enc (c_format cf) d] /\
      r = Some (formatted_as (fmt_key (c_format cf))
                  (enc (c_format cf) (with_sig d (Base64.encode (enc (c_format cf) d)) h)) ev) /\
      oc = pred_out cf (with_sig d (Base64.encode (enc (c_format cf) d)) h).
  Proof.
    intros H Hoc Hs Hl. destruct (process_ok_inv cf ev fresh r oc calls H Hoc) as [id [t [dat [Hv [Hid [Ht Hd]]]]]].
    rewrite (process_shape cf ev fresh id t dat Hv Hid Ht Hd) in H. cbv zeta in H.
    unfold must_sign in H. rewrite Hs, Hl in H.
    destruct (sg (enc (c_format cf) (unsigned_doc cf ev id t dat))) as [h|] eqn:Hsg.
    - unfold finish in H. injection H as <- <- <-.
      exists (unsigned_doc cf ev id t dat), h. repeat split; try reflexivity. exact Hsg.
    - injection H as _ <- _. congruence.
  Qed.

  (* the full statement: signer configured, type listed, event not failed ==> the stored document is the unsigned document
     plus serialized and serialized_hmac, serialized base64url-decodes to exactly the encoding of the unsigned document,
     serialized_hmac is the signer's result on exactly those bytes (the one call the signer received), and both documents
     parse back *)
  Theorem signed_when_required cf (ev : event) fresh r oc calls sg :
    process (Some cf) (Some ev) fresh = (r, oc, calls) -> oc <> OErr ->
    c_signer cf = Some sg -> listed cf (ev_type ev) = true ->
    (forall v, p_data (ev_payload ev) = DVal v -> wf v) ->
    exists d h ser,
      d_ser d = [] /\ d_hmac d = [] /\
      sg (enc (c_format cf) d) = SigOk h /\ calls = [enc (c_format cf) d] /\
      r = Some (formatted_as (fmt_key (c_format cf)) (enc (c_format cf) (with_sig d ser h)) ev) /\
      ser <> [] /\ Base64.decode ser = Some (enc (c_format cf) d) /\
      (h <> [] -> members (doc_jv (with_sig d ser h)) =
                  members (doc_jv d) ++ [(s_serialized, JStr ser); (s_serialized_hmac, JStr h)]) /\
      parse_doc (enc (c_format cf) d) = Some (jimage (doc_jv d)) /\
      parse_doc (enc (c_format cf) (with_sig d ser h)) = Some (jimage (doc_jv (with_sig d ser h))).
  Proof.
    intros H Hoc Hs Hl Hwf. destruct (process_ok_inv cf ev fresh r oc calls H Hoc) as [id [t [dat [Hv [Hid [Ht Hd]]]]]].
    rewrite (process_shape cf ev fresh id t dat Hv Hid Ht Hd) in H. cbv zeta in H.
    unfold must_sign in H. rewrite Hs, Hl in H.
    set (d := unsigned_doc cf ev id t dat) in *.
    assert (Hdw : data_wf (d_data d)).
    { subst d. cbn [unsigned_doc d_data]. unfold data_of in Hd. destruct (p_data (ev_payload ev)) as [|v|] eqn:E; try discriminate;
        injection Hd as <-; cbn; [exact I|]. apply Hwf. reflexivity. }
    destruct (sg (enc (c_format cf) d)) as [h|] eqn:Hsg; [|injection H as _ <- _; congruence].
    unfold finish in H. injection H as <- <- <-.
    exists d, h, (Base64.encode (enc (c_format cf) d)).
    split; [reflexivity|]. split; [reflexivity|]. split; [exact Hsg|]. split; [reflexivity|]. split; [reflexivity|].
    split; [apply encode_nonempty; apply enc_nonempty|]. split; [apply serialized_decodes; exact Hdw|].
    split; [intros Hh; apply signed_doc_members; try reflexivity; [apply encode_nonempty; apply enc_nonempty|exact Hh]|].
    split; apply ce_document_parses; [exact Hdw|]. exact Hdw.
  Qed.

  (* after Rotate(sg) — whatever signer, or none, the node had before — a listed type is signed by sg: apply
     signed_when_required to the rotated configuration *)
  Theorem rotated_signer_in_force cf sg (ev : event) fresh r oc calls :
    process (Some (fst (rotate cf (Some sg)))) (Some ev) fresh = (r, oc, calls) -> oc <> OErr ->
    listed cf (ev_type ev) = true ->
    (forall v, p_data (ev_payload ev) = DVal v -> wf v) ->
    exists d h ser,
      d_ser d = [] /\ d_hmac d = [] /\ sg (enc (c_format cf) d) = SigOk h /\ calls = [enc (c_format cf) d] /\
      r = Some (formatted_as (fmt_key (c_format cf)) (enc (c_format cf) (with_sig d ser h)) ev) /\
      ser <> [] /\ Base64.decode ser = Some (enc (c_format cf) d).
  Proof.
    intros H Hoc Hl Hwf.
    destruct (signed_when_required (fst (rotate cf (Some sg))) ev fresh r oc calls sg H Hoc eq_refl Hl Hwf)
      as [d [h [ser [H1 [H2 [H3 [H4 [H5 [H6 [H7 _]]]]]]]]]].
    exists d, h, ser. cbn [rotate fst c_format] in *. repeat split; assumption.
  Qed.

  (* event types that are not listed (or no signer): the signer is never called and the stored document carries neither
     serialized nor serialized_hmac *)
  Theorem unlisted_never_signed cf (ev : event) fresh r oc calls :
    process (Some cf) (Some ev) fresh = (r, oc, calls) ->
    (c_signer cf = None \/ listed cf (ev_type ev) = false) ->
    calls = [] /\
    (oc <> OErr -> exists d, d_ser d = [] /\ d_hmac d = [] /\
       r = Some (formatted_as (fmt_key (c_format cf)) (enc (c_format cf) d) ev)).
  Proof.
    intros H Hn.
    assert (Hm : must_sign cf (ev_type ev) = None).
    { unfold must_sign. destruct Hn as [-> | Hl]; [reflexivity|]. rewrite Hl. destruct (c_signer cf); reflexivity. }
    split.
    - unfold CloudEvents.process in H. rewrite Hm in H.
      destruct (valid cf); cbn [negb] in H; [|injection H as _ _ <-; reflexivity].
      destruct (match p_id (ev_payload ev) with Some i => if nonempty i then Some i else None | None => fresh end);
        [|injection H as _ _ <-; reflexivity].
      destruct (ev_time ev); [|injection H as _ _ <-; reflexivity].
      destruct (p_data (ev_payload ev)); unfold finish in H; injection H as _ _ <-; reflexivity.
    - intros Hoc. destruct (process_ok_inv cf ev fresh r oc calls H Hoc) as [id [t [dat [Hv [Hid [Ht Hd]]]]]].
      rewrite (process_shape cf ev fresh id t dat Hv Hid Ht Hd) in H. cbv zeta in H. rewrite Hm in H.
      unfold finish in H. injection H as <- _ _. exists (unsigned_doc cf ev id t dat). repeat split; reflexivity.
  Qed.

  (* ---------------- the document ---------------- *)
  (* whenever Process does not fail, the value stored under the configured format's name is the encoding of a document
     with: a non-empty id (the payload's ID() if it has one, otherwise the fresh one), the configured non-empty source, the
     event's type and creation time, the data image (absent for nil data), the format's content type and the configured
     schema (absent if none) *)
  Theorem ce_fields cf (ev : event) fresh r oc calls :
    process (Some cf) (Some ev) fresh = (r, oc, calls) -> oc <> OErr ->
    (forall i, fresh = Some i -> i <> []) ->
    exists d ev', r = Some ev' /\
      format (fmt_key (c_format cf)) ev' = Some (enc (c_format cf) d) /\
      ev_type ev' = ev_type ev /\ ev_time ev' = ev_time ev /\ ev_payload ev' = ev_payload ev /\
      (forall f, f <> fmt_key (c_format cf) -> format f ev' = format f ev) /\
      d_id d <> [] /\
      (match p_id (ev_payload ev) with Some i => d_id d = i | None => fresh = Some (d_id d) end) /\
      c_source cf = Some (d_source d) /\ d_source d <> [] /\
      d_type d = ev_type ev /\ ev_time ev = Some (d_time d) /\
      (match p_data (ev_payload ev) with DVal v => d_data d = Some v | DAbsent => d_data d = None | DUnenc => False end) /\
      d_ctype d = ctype (c_format cf) /\
      (match c_schema cf with Some s => d_schema d = s /\ s <> [] | None => d_schema d = [] end) /\
      oc = pred_out cf d.
  Proof.
    intros H Hoc Hfresh. destruct (process_ok_inv cf ev fresh r oc calls H Hoc) as [id [t [dat [Hv [Hid [Ht Hd]]]]]].
    rewrite (process_shape cf ev fresh id t dat Hv Hid Ht Hd) in H. cbv zeta in H.
    pose proof (proj1 (valid_iff cf) Hv) as [[s [Es Hs]] [Hf Hc]].
    set (d0 := unsigned_doc cf ev id t dat) in *.
    assert (Hfields : forall d, d_id d = id -> d_source d = d_source d0 -> d_type d = ev_type ev -> d_data d = dat ->
              d_ctype d = d_ctype d0 -> d_schema d = d_schema d0 -> d_time d = t ->
              d_id d <> [] /\
              (match p_id (ev_payload ev) with Some i => d_id d = i | None => fresh = Some (d_id d) end) /\
              c_source cf = Some (d_source d) /\ d_source d <> [] /\
              d_type d = ev_type ev /\ ev_time ev = Some (d_time d) /\
              (match p_data (ev_payload ev) with
               | DVal v => d_data d = Some v | DAbsent => d_data d = None | DUnenc => False end) /\
              d_ctype d = ctype (c_format cf) /\
              (match c_schema cf with Some s => d_schema d = s /\ s <> [] | None => d_schema d = [] end)).
    { intros d E1 E2 E3 E4 E5 E6 E7. rewrite E1, E2, E3, E4, E5, E6, E7. subst d0. cbn [unsigned_doc d_source d_ctype d_schema].
      unfold chosen_id in Hid. unfold data_of in Hd. rewrite Es.
      repeat split.
      - destruct (p_id (ev_payload ev)) as [i|].
        + destruct (nonempty i) eqn:En; [|discriminate]. injection Hid as <-. apply nonempty_true. exact En.
        + apply Hfresh. exact Hid.
      - destruct (p_id (ev_payload ev)) as [i|].
        + destruct (nonempty i); [|discriminate]. injection Hid as <-. reflexivity.
        + exact Hid.
      - exact Hs.
      - exact Ht.
      - destruct (p_data (ev_payload ev)); try discriminate; injection Hd as <-; reflexivity.
      - destruct (c_schema cf) as [s'|]; [|reflexivity]. split; [reflexivity|]. apply Hc. reflexivity. }
    assert (Hstore : forall d, let ev' := formatted_as (fmt_key (c_format cf)) (enc (c_format cf) d) ev in
              format (fmt_key (c_format cf)) ev' = Some (enc (c_format cf) d) /\
              (ev_type ev' = ev_type ev /\ ev_time ev' = ev_time ev /\ ev_payload ev' = ev_payload ev) /\
              (forall f, f <> fmt_key (c_format cf) -> format f ev' = format f ev)).
    { intros d ev'. subst ev'. unfold format, formatted_as. cbn [ev_fmt ev_type ev_time ev_payload].
      split; [apply tget_tset_same|]. split; [repeat split|].
      intros f Hn. apply tget_tset_other. exact Hn. }
    destruct (must_sign cf (ev_type ev)) as [sg|].
    - destruct (sg (enc (c_format cf) d0)) as [h|]; [|injection H as _ <- _; congruence].
      unfold finish in H. injection H as <- <- _.
      set (d1 := with_sig d0 (Base64.encode (enc (c_format cf) d0)) h).
      exists d1, (formatted_as (fmt_key (c_format cf)) (enc (c_format cf) d1) ev).
      split; [reflexivity|]. destruct (Hstore d1) as [S1 [[S2 [S2b S2c]] S3]]. repeat (split; [assumption|]).
      destruct (Hfields d1) as [F1 [F2 [F3 [F4 [F5 [F6 [F7 [F8 F9]]]]]]]]; try reflexivity.
      repeat (split; [assumption|]). reflexivity.
    - unfold finish in H. injection H as <- <- _.
      exists d0, (formatted_as (fmt_key (c_format cf)) (enc (c_format cf) d0) ev).
      split; [reflexivity|]. destruct (Hstore d0) as [S1 [[S2 [S2b S2c]] S3]]. repeat (split; [assumption|]).
      destruct (Hfields d0) as [F1 [F2 [F3 [F4 [F5 [F6 [F7 [F8 F9]]]]]]]]; try reflexivity.
      repeat (split; [assumption|]). reflexivity.
  Qed.

  (* ---------------- fresh ids ---------------- *)
  Lemma process_all_sub c evs stream : forall i, In i (process_all p_id c evs stream) -> In i stream.
  Proof.
    revert stream. induction evs as [|ev evs IH]; intros stream i Hi; [destruct Hi|].
    cbn [process_all] in Hi. destruct (needs_fresh p_id c (Some ev)).
    - destruct stream as [|j stream]; [destruct Hi|]. destruct Hi as [<-|Hi]; [left; reflexivity|]. right. apply IH. exact Hi.
    - apply IH. exact Hi.
  Qed.
  (* under the hypothesis that the id source never repeats itself, no two events of a run get the same fresh id *)
  Theorem ce_fresh_ids_distinct_partial c evs stream : NoDup stream -> NoDup (process_all p_id c evs stream).
  Proof.
    revert stream. induction evs as [|ev evs IH]; intros stream Hnd; [constructor|].
    cbn [process_all]. destruct (needs_fresh p_id c (Some ev)).
    - destruct stream as [|j stream]; [constructor|]. inversion Hnd as [|? ? Hj Hnd']; subst. constructor.
      + intros Hin. apply Hj. apply (process_all_sub c evs stream). exact Hin.
      + apply IH. exact Hnd'.
    - apply IH. exact Hnd.
  Qed.
End Proofs.
