(* Conc.v — one Send ranging over the pipelines of its event type while registrations, overwrites and removals of
   other callers interleave with it.  Registry operations are atomic steps (that they are is the lock-discipline
   theorem over the generated program, LockSound.v); Send = Start (the graph lookup under the read lock) followed by
   one Visit per pipeline id at arbitrary later instants, each reading the mapping current at that instant (the
   sync.Map.Range contract: no key is visited twice; for each key Range reflects its mapping at some instant during
   the call).  Only definitions here; theorems in ConcProofs.v.
   Keys are pipeline ids of one event type, versions identify one successful RegisterPipeline call. *)
From Coq Require Import List Bool Arith NArith.
From Verif Require Import Alist.
Import ListNotations.

Definition pmap := N -> option N.            (* pipeline id -> registered version *)
Definition pset (m : pmap) (k : N) (v : option N) : pmap := fun x => if N.eqb x k then v else m x.
Definition pempty : pmap := fun _ => None.

Inductive label :=
| EnvStore (k v : N)       (* RegisterPipeline by some goroutine: the single sync.Map Store *)
| EnvDelete (k : N)        (* RemovePipeline / RemovePipelineAndNodes: the single Delete *)
| Start (keys : list N)    (* the Send under observation obtains the graph; keys = the universe of pipeline ids *)
| Visit (k : N).           (* the Range of that Send decides key k now *)

Record st := { pipes : pmap; pending : list N; visited : list (N * N) }.
Definition init : st := {| pipes := pempty; pending := []; visited := [] |}.

Fixpoint remove_key (k : N) (l : list N) : list N :=
  match l with [] => [] | x :: t => if N.eqb x k then remove_key k t else x :: remove_key k t end.

Definition stepf (s : st) (l : label) : st :=
  match l with
  | EnvStore k v => {| pipes := pset (pipes s) k (Some v); pending := pending s; visited := visited s |}
  | EnvDelete k => {| pipes := pset (pipes s) k None; pending := pending s; visited := visited s |}
  | Start keys => {| pipes := pipes s; pending := keys; visited := [] |}
  | Visit k =>
      if memN k (pending s) then
        {| pipes := pipes s; pending := remove_key k (pending s);
           visited := match pipes s k with Some v => visited s ++ [(k, v)] | None => visited s end |}
      else s      (* a key is decided once *)
  end.
Definition exec_from (s : st) (ls : list label) : st := fold_left stepf ls s.
Definition exec (ls : list label) : st := exec_from init ls.

Definition touches (k : N) (l : label) : Prop :=
  match l with EnvStore k' _ | EnvDelete k' => k' = k | _ => False end.
Definition touchesb (k : N) (l : label) : bool :=
  match l with EnvStore k' _ | EnvDelete k' => N.eqb k' k | _ => false end.
Definition is_env (l : label) : bool := match l with EnvStore _ _ | EnvDelete _ => true | _ => false end.

(* how often version v of key k was delivered to *)
Definition count (k v : N) (vis : list (N * N)) : nat :=
  List.length (filter (fun p => N.eqb (fst p) k && N.eqb (snd p) v) vis).

(* ---------- timed histories: every step carries the instant at which it takes effect ---------- *)
Definition thist := list (N * label).
Definition labels (H : thist) : list label := map snd H.
Definition ltT (a b : N * label) : Prop := (fst a < fst b)%N.

(* ---------- what the harness can observe of a call: the interval [inv, ret] that contains its effect ---------- *)
Record obs_op := { oo_lab : label; oo_inv : N; oo_ret : N }.   (* a successful registry call on some key *)

(* the verdict of the observation-only oracle used by the correspondence (Run_Conc.v) for version v of key k, registered
   by a call with interval [ri, rr], and a Send with interval [si, sr]; others = the other successful calls on key k.
     must1: registered before the Send started and no other call on the key can have taken effect between the
            registration and the end of the Send  -> exactly one delivery
     must0: the Send ended before the registration was requested, or another call on the key certainly took effect
            after the registration and before the Send started -> no delivery *)
Definition certainly_outside (ri sr : N) (o : obs_op) : bool := N.ltb (oo_ret o) ri || N.ltb sr (oo_inv o).
Definition must1 (ri rr si sr : N) (others : list obs_op) : bool :=
  N.ltb rr si && forallb (certainly_outside ri sr) others.
Definition must0 (ri rr si sr : N) (others : list obs_op) : bool :=
  N.ltb sr ri || existsb (fun o => N.ltb rr (oo_inv o) && N.ltb (oo_ret o) si) others.

(* must_some: registered before the Send started, and whatever else can have happened to the key before the Send ended
   was another registration (an overwrite is ONE Store): the Send delivers to exactly one version of the key *)
Definition is_store (l : label) : bool := match l with EnvStore _ _ => true | _ => false end.
Definition must_some (ri rr si sr : N) (others : list obs_op) : bool :=
  N.ltb rr si && forallb (fun o => certainly_outside ri sr o || is_store (oo_lab o)) others.
