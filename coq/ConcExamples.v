(* ConcExamples.v — concrete timed histories meeting the hypotheses of ConcProofs.send_delivery_bounds. *)
From Coq Require Import List Bool NArith Lia Sorted String.
From Verif Require Import Alist LockLang LockExamples Conc ConcProofs.
Import ListNotations.
Local Open Scope N_scope.

(* key 1 registered in version 7 at instant 5 (call interval [3,6]); key 2 registered in version 9 at 4; the Send looks the
   graph up at 10 and visits key 2 at 12 and key 1 at 15; another call removes key 1 at 30 (interval [28, 31]) *)
Definition ex_H : thist :=
  [(4, EnvStore 2 9); (5, EnvStore 1 7); (10, Start [1; 2]); (12, Visit 2); (15, Visit 1); (30, EnvDelete 1)].
Definition ex_others : list obs_op := [{| oo_lab := EnvDelete 1; oo_inv := 28; oo_ret := 31 |}].

Lemma ex_sorted : sortedT ex_H.
Proof. unfold sortedT, ex_H. repeat (constructor; [|repeat (constructor; [unfold ltT; cbn; lia|]); constructor]). constructor. Qed.

Lemma ex_send_in : send_in ex_H 10 20 [1; 2].
Proof.
  constructor.
  - exact ex_sorted.
  - cbn; auto 10.
  - intros t ks Hin. cbn in Hin. repeat (destruct Hin as [Hin|Hin]; [inversion Hin; subst; try reflexivity|]). destruct Hin.
  - intros t k Hin. cbn in Hin. repeat (destruct Hin as [Hin|Hin]; [inversion Hin; subst; lia|]). destruct Hin.
Qed.

Example ex_once : count 1 7 (visited (exec (labels ex_H))) = 1%nat.
Proof. vm_compute. reflexivity. Qed.
Example ex_must1 : must1 3 6 8 25 ex_others = true.
Proof. vm_compute. reflexivity. Qed.

(* the same registration, but key 1 is removed at instant 8 (interval [7, 9]) before the Send starts at 12 *)
Definition ex_H0 : thist :=
  [(4, EnvStore 2 9); (5, EnvStore 1 7); (8, EnvDelete 1); (10, Start [1; 2]); (12, Visit 2); (15, Visit 1)].
Definition ex_others0 : list obs_op := [{| oo_lab := EnvDelete 1; oo_inv := 7; oo_ret := 9 |}].
Lemma ex_sorted0 : sortedT ex_H0.
Proof. unfold sortedT, ex_H0. repeat (constructor; [|repeat (constructor; [unfold ltT; cbn; lia|]); constructor]). constructor. Qed.
Lemma ex_send_in0 : send_in ex_H0 10 20 [1; 2].
Proof.
  constructor.
  - exact ex_sorted0.
  - cbn; auto 10.
  - intros t ks Hin. cbn in Hin. repeat (destruct Hin as [Hin|Hin]; [inversion Hin; subst; try reflexivity|]). destruct Hin.
  - intros t k Hin. cbn in Hin. repeat (destruct Hin as [Hin|Hin]; [inversion Hin; subst; lia|]). destruct Hin.
Qed.
Example ex_never : count 1 7 (visited (exec (labels ex_H0))) = 0%nat.
Proof. vm_compute. reflexivity. Qed.
Example ex_must0 : must0 3 6 12 25 ex_others0 = true.
Proof. vm_compute. reflexivity. Qed.

(* every hypothesis of send_delivery_bounds holds for ex_H (so the theorem is not vacuous), and its conclusion is what
   the model computes *)
Example ex_bounds_apply :
  (must1 3 6 8 25 ex_others = true -> count 1 7 (visited (exec (labels ex_H))) = 1%nat).
Proof.
  refine (proj1 (send_delivery_bounds ex_H 10 20 [1; 2] 1 7 5 3 6 8 25 ex_others ex_send_in _ _ _ _ _ _ _ _ _ _)); try lia.
  - cbn; auto 10.
  - exists 15. cbn; auto 10.
  - cbn; auto 10.
  - intros t Hin. cbn in Hin. repeat (destruct Hin as [Hin|Hin]; [inversion Hin; subst; try reflexivity|]). destruct Hin.
  - intros t l Hin Ht Hne. exists {| oo_lab := EnvDelete 1; oo_inv := 28; oo_ret := 31 |}. split; [left; reflexivity|].
    cbn in Hin. repeat (destruct Hin as [Hin|Hin]; [inversion Hin; subst; cbn in *; try contradiction; try (exfalso; apply Hne; reflexivity); try lia|]).
    destruct Hin.
  - intros o [<-|[]]. exists 30. cbn. repeat split; try lia; try tauto. discriminate.
Qed.

Example conc_nonvacuous :
  (send_in ex_H 10 20 [1; 2] /\ In (5, EnvStore 1 7) ex_H /\ must1 3 6 8 25 ex_others = true /\
   count 1 7 (visited (exec (labels ex_H))) = 1%nat) /\
  (send_in ex_H0 10 20 [1; 2] /\ must0 3 6 12 25 ex_others0 = true /\ count 1 7 (visited (exec (labels ex_H0))) = 0%nat) /\
  check_program (mini mini_good) mini_good ["Send"; "RemoveNode"]%string [] [] = [].
Proof.
  split; [|split].
  - split; [exact ex_send_in|]. split; [cbn; auto 10|]. split; [exact ex_must1|exact ex_once].
  - split; [exact ex_send_in0|]. split; [exact ex_must0|exact ex_never].
  - exact good_accepted.
Qed.
