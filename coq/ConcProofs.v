(* ConcProofs.v — delivery bounds of a Send that overlaps registry operations (C04) and exactly-one-version under
   overwrite (C07), for EVERY interleaving (= every list of labels / every timed history).  Port and extension of
   notes/spikes/ConcSpike.v to the functional model of Conc.v. *)
From Coq Require Import List Bool Arith NArith Lia Sorted.
From Verif Require Import Alist Conc.
Import ListNotations.

(* ---------- small facts ---------- *)
Lemma in_remove_key k x l : In x (remove_key k l) <-> In x l /\ x <> k.
Proof.
  induction l as [|y t IH]; cbn; [tauto|]. destruct (N.eqb y k) eqn:E.
  - apply N.eqb_eq in E. subst. rewrite IH. split; [tauto|]. intros [[->|H] Hn]; [congruence|tauto].
  - apply N.eqb_neq in E. cbn. rewrite IH. split; [intros [->|[H Hn]]; tauto|intros [[->|H] Hn]; tauto].
Qed.

Lemma exec_from_app s l1 l2 : exec_from s (l1 ++ l2) = exec_from (exec_from s l1) l2.
Proof. unfold exec_from. apply fold_left_app. Qed.
Lemma exec_from_cons s l ls : exec_from s (l :: ls) = exec_from (stepf s l) ls.
Proof. reflexivity. Qed.

Lemma count_app k v a b : count k v (a ++ b) = (count k v a + count k v b)%nat.
Proof. unfold count. rewrite filter_app, app_length. reflexivity. Qed.
Lemma count_one k v : count k v [(k, v)] = 1%nat.
Proof. unfold count. cbn. rewrite !N.eqb_refl. reflexivity. Qed.
Lemma count_other k v k' v' : (k', v') <> (k, v) -> count k v [(k', v')] = 0%nat.
Proof.
  intros Hn. unfold count. cbn. destruct (N.eqb k' k) eqn:E1; destruct (N.eqb v' v) eqn:E2; cbn; try reflexivity.
  apply N.eqb_eq in E1. apply N.eqb_eq in E2. subst. congruence.
Qed.
Lemma count_zero_notin k v vis : ~ In k (map fst vis) -> count k v vis = 0%nat.
Proof.
  unfold count. induction vis as [|[k' v'] t IH]; cbn; [reflexivity|]. intros Hn.
  destruct (N.eqb k' k) eqn:E; cbn.
  - apply N.eqb_eq in E. subst. exfalso. apply Hn. left. reflexivity.
  - apply IH. intros Hx. apply Hn. right. exact Hx.
Qed.

(* ---------- invariant: a key is either still pending or already decided, never both; decided at most once ---------- *)
Definition inv (s : st) : Prop :=
  NoDup (map fst (visited s)) /\ forall k, In k (map fst (visited s)) -> ~ In k (pending s).

Lemma inv_step s l : inv s -> inv (stepf s l).
Proof.
  intros [Hnd Hdis]. destruct l as [k v|k|keys|k]; cbn [stepf]; try (split; assumption).
  - split; [constructor|intros k []].
  - destruct (memN k (pending s)) eqn:Em; [|split; assumption]. apply memN_In in Em.
    destruct (pipes s k) as [v|] eqn:Ep; unfold inv; cbn [pipes pending visited].
    + split.
      * rewrite map_app. cbn.
        assert (Hk : ~ In k (map fst (visited s))) by (intros Hx; exact (Hdis k Hx Em)).
        clear - Hnd Hk. induction (map fst (visited s)) as [|x t IH]; cbn; [constructor; [intros []|constructor]|].
        inversion Hnd; subst. constructor.
        -- intros Hx. apply in_app_or in Hx as [Hx|[Hx|[]]]; [contradiction|subst; apply Hk; left; reflexivity].
        -- apply IH; [assumption|]. intros Hx. apply Hk. right. exact Hx.
      * intros k0 Hk0 Hp. apply in_remove_key in Hp as [Hp Hne]. rewrite map_app in Hk0. apply in_app_or in Hk0 as [Hk0|[Hk0|[]]].
        -- exact (Hdis k0 Hk0 Hp).
        -- cbn in Hk0. congruence.
    + split; [exact Hnd|]. intros k0 Hk0 Hp. apply in_remove_key in Hp as [Hp _]. exact (Hdis k0 Hk0 Hp).
Qed.
Lemma inv_exec_from s ls : inv s -> inv (exec_from s ls).
Proof. revert s; induction ls as [|l ls IH]; intros s Hi; [exact Hi|]. rewrite exec_from_cons. apply IH. apply inv_step. exact Hi. Qed.
Lemma inv_init : inv init.
Proof. split; [constructor|intros k []]. Qed.

(* C04 / C07: whatever other callers do meanwhile, one Send visits a pipeline id at most once *)
Theorem at_most_once ls : NoDup (map fst (visited (exec ls))).
Proof. exact (proj1 (inv_exec_from init ls inv_init)). Qed.

Lemma nodup_key_count (vis : list (N * N)) k :
  NoDup (map fst vis) -> (List.length (filter (fun p => N.eqb (fst p) k) vis) <= 1)%nat.
Proof.
  induction vis as [|[k' v'] t IH]; cbn; intros Hnd; [lia|]. inversion Hnd as [|x l Hnot Hnd']; subst.
  destruct (N.eqb k' k) eqn:E; cbn [length]; [|auto].
  apply N.eqb_eq in E. subst k'.
  assert (Hz : filter (fun p => N.eqb (fst p) k) t = []).
  { clear - Hnot. induction t as [|[k2 v2] t IH]; cbn; [reflexivity|]. destruct (N.eqb k2 k) eqn:E.
    - apply N.eqb_eq in E. subst. exfalso. apply Hnot. left. reflexivity.
    - apply IH. intros Hx. apply Hnot. right. exact Hx. }
  rewrite Hz. cbn. lia.
Qed.
(* at most one version of a pipeline id is delivered to by one Send *)
Theorem at_most_one_version ls k : (List.length (filter (fun p => N.eqb (fst p) k) (visited (exec ls))) <= 1)%nat.
Proof. apply nodup_key_count. apply at_most_once. Qed.
Lemma count_le_key k v vis : (count k v vis <= List.length (filter (fun p => N.eqb (fst p) k) vis))%nat.
Proof.
  unfold count. induction vis as [|[k' v'] t IH]; cbn; [lia|].
  destruct (N.eqb k' k); cbn; [destruct (N.eqb v' v); cbn; lia|exact IH].
Qed.
Theorem count_at_most_one ls k v : (count k v (visited (exec ls)) <= 1)%nat.
Proof. eapply Nat.le_trans; [apply count_le_key|apply at_most_one_version]. Qed.

(* ---------- the mapping of a key only changes by steps that touch it ---------- *)
Definition no_touch (k : N) (ls : list label) : Prop := forall l, In l ls -> ~ touches k l.
Definition no_start (ls : list label) : Prop := forall l keys, In l ls -> l <> Start keys.

Lemma pipes_step_untouched s l k : ~ touches k l -> pipes (stepf s l) k = pipes s k.
Proof.
  destruct l as [k0 v|k0|keys|k0]; cbn [stepf touches]; intros Hn; cbn [pipes]; try reflexivity.
  - unfold pset. destruct (N.eqb k k0) eqn:E; [apply N.eqb_eq in E; subst; exfalso; apply Hn; reflexivity|reflexivity].
  - unfold pset. destruct (N.eqb k k0) eqn:E; [apply N.eqb_eq in E; subst; exfalso; apply Hn; reflexivity|reflexivity].
  - destruct (memN k0 (pending s)); reflexivity.
Qed.
Lemma pipes_untouched s ls k : no_touch k ls -> pipes (exec_from s ls) k = pipes s k.
Proof.
  revert s; induction ls as [|l ls IH]; intros s Hu; [reflexivity|]. rewrite exec_from_cons.
  rewrite IH by (intros l0 Hl0; apply Hu; right; exact Hl0).
  apply pipes_step_untouched. apply Hu. left. reflexivity.
Qed.

(* a version is only ever visible after its Store ran: without one the mapping never becomes Some v *)
Definition no_store (k v : N) (ls : list label) : Prop := ~ In (EnvStore k v) ls.
Lemma not_v_step s l k v : l <> EnvStore k v -> pipes s k <> Some v -> pipes (stepf s l) k <> Some v.
Proof.
  destruct l as [k0 v0|k0|keys|k0]; cbn [stepf]; intros Hl Hp; cbn [pipes]; try exact Hp.
  - unfold pset. destruct (N.eqb k k0) eqn:E; [|exact Hp]. apply N.eqb_eq in E. subst. intros Hx. inversion Hx; subst. congruence.
  - unfold pset. destruct (N.eqb k k0); [discriminate|exact Hp].
  - destruct (memN k0 (pending s)); exact Hp.
Qed.

(* entries for (k, v) only appear at a Visit of k that finds version v; a Start clears the record *)
Lemma count_step_no_v s l k v : pipes s k <> Some v -> (count k v (visited (stepf s l)) <= count k v (visited s))%nat.
Proof.
  intros Hp. destruct l as [k0 v0|k0|keys|k0]; cbn [stepf]; cbn [visited]; try lia.
  - unfold count. cbn. lia.
  - destruct (memN k0 (pending s)); [|lia]. cbn [visited]. destruct (pipes s k0) as [v0|] eqn:Ep; [|lia].
    rewrite count_app. rewrite count_other; [lia|]. intros Hx. inversion Hx; subst. congruence.
Qed.
Lemma count_no_store s ls k v :
  no_store k v ls -> pipes s k <> Some v -> (count k v (visited (exec_from s ls)) <= count k v (visited s))%nat.
Proof.
  revert s; induction ls as [|l ls IH]; intros s Hns Hp; [cbn; lia|]. rewrite exec_from_cons.
  assert (Hl : l <> EnvStore k v) by (intros ->; apply Hns; left; reflexivity).
  eapply Nat.le_trans; [apply IH|apply count_step_no_v; exact Hp].
  - intros Hx. apply Hns. right. exact Hx.
  - apply not_v_step; assumption.
Qed.

(* without visits nothing is delivered *)
Definition no_visit (ls : list label) : Prop := forall l k, In l ls -> l <> Visit k.
Lemma count_no_visit s ls k v : no_visit ls -> (count k v (visited (exec_from s ls)) <= count k v (visited s))%nat.
Proof.
  revert s; induction ls as [|l ls IH]; intros s Hnv; [cbn; lia|]. rewrite exec_from_cons.
  eapply Nat.le_trans; [apply IH; intros l0 k0 Hl0; apply Hnv; right; exact Hl0|].
  destruct l as [k0 v0|k0|keys|k0]; cbn [stepf visited]; try lia.
  - unfold count; cbn; lia.
  - exfalso. eapply Hnv; [left; reflexivity|reflexivity].
Qed.

(* a key that is not pending stays undecided-for-ever as long as no new Send starts *)
Lemma count_not_pending s ls k v :
  no_start ls -> ~ In k (pending s) -> count k v (visited (exec_from s ls)) = count k v (visited s).
Proof.
  revert s; induction ls as [|l ls IH]; intros s Hns Hnp; [reflexivity|]. rewrite exec_from_cons.
  assert (Hns' : no_start ls) by (intros l0 ks Hl0; apply Hns; right; exact Hl0).
  destruct l as [k0 v0|k0|keys|k0]; cbn [stepf].
  - rewrite IH; auto.
  - rewrite IH; auto.
  - exfalso. eapply Hns; [left; reflexivity|reflexivity].
  - destruct (memN k0 (pending s)) eqn:Em; [|rewrite IH; auto]. apply memN_In in Em.
    assert (Hne : k0 <> k) by (intros ->; contradiction).
    rewrite IH; auto; cbn [pending visited].
    + destruct (pipes s k0) as [v0|]; [|reflexivity]. rewrite count_app, count_other; [lia|]. intros Hx. inversion Hx. congruence.
    + intros Hx. apply in_remove_key in Hx as [Hx _]. contradiction.
Qed.

(* ---------- the untimed core: a Send whose key is stable while it ranges ---------- *)
Definition is_visit (k : N) (l : label) : bool := match l with Visit k' => N.eqb k' k | _ => false end.

(* before the first Visit of k: k stays pending, its mapping stays put, nothing is recorded for it *)
Lemma before_first_visit s ls k :
  no_touch k ls -> no_start ls -> (forall l, In l ls -> is_visit k l = false) -> In k (pending s) ->
  pipes (exec_from s ls) k = pipes s k /\ In k (pending (exec_from s ls)) /\
  forall v, count k v (visited (exec_from s ls)) = count k v (visited s).
Proof.
  revert s; induction ls as [|l ls IH]; intros s Hu Hns Hnv Hp; [cbn; auto|]. rewrite exec_from_cons.
  assert (Hl : ~ touches k l) by (apply Hu; left; reflexivity).
  assert (Hv : is_visit k l = false) by (apply Hnv; left; reflexivity).
  assert (Hp' : In k (pending (stepf s l))).
  { destruct l as [k0 v0|k0|keys|k0]; cbn [stepf pending]; try exact Hp.
    - exfalso. eapply Hns; [left; reflexivity|reflexivity].
    - destruct (memN k0 (pending s)); [|exact Hp]. cbn [pending]. apply in_remove_key. split; [exact Hp|].
      cbn in Hv. apply N.eqb_neq in Hv. congruence. }
  assert (Hc : forall v, count k v (visited (stepf s l)) = count k v (visited s)).
  { intros v. destruct l as [k0 v0|k0|keys|k0]; cbn [stepf visited]; try reflexivity.
    - exfalso. eapply Hns; [left; reflexivity|reflexivity].
    - destruct (memN k0 (pending s)); [|reflexivity]. cbn [visited]. destruct (pipes s k0) as [v0|]; [|reflexivity].
      rewrite count_app, count_other; [lia|]. cbn in Hv. apply N.eqb_neq in Hv. intros Hx. inversion Hx. congruence. }
  destruct (IH (stepf s l)) as [I1 [I2 I3]].
  - intros l0 Hl0. apply Hu. right. exact Hl0.
  - intros l0 ks Hl0. apply Hns. right. exact Hl0.
  - intros l0 Hl0. apply Hnv. right. exact Hl0.
  - exact Hp'.
  - split; [rewrite I1; apply pipes_step_untouched; exact Hl|]. split; [exact I2|].
    intros v. rewrite I3. apply Hc.
Qed.

Lemma first_split {A} (P : A -> bool) (l : list A) :
  (exists x, In x l /\ P x = true) ->
  exists l1 y l2, l = l1 ++ y :: l2 /\ P y = true /\ forall z, In z l1 -> P z = false.
Proof.
  induction l as [|a t IH]; intros [x [Hin Hp]]; [destruct Hin|].
  destruct (P a) eqn:Ea.
  - exists [], a, t. repeat split; auto. intros z [].
  - destruct Hin as [->|Hin]; [congruence|].
    destruct (IH (ex_intro _ x (conj Hin Hp))) as [l1 [y [l2 [-> [Hy Hz]]]]].
    exists (a :: l1), y, l2. repeat split; auto. intros z [->|Hz']; auto.
Qed.

(* the mapping of k is Some v when the Send starts and nobody touches k until k has been decided: delivered exactly once *)
Theorem stable_present_exactly_once s l1 l2 k v :
  pipes s k = Some v -> In k (pending s) -> ~ In k (map fst (visited s)) ->
  no_touch k l1 -> no_start (l1 ++ Visit k :: l2) -> (forall l, In l l1 -> is_visit k l = false) ->
  count k v (visited (exec_from s (l1 ++ Visit k :: l2))) = 1%nat.
Proof.
  intros Hm Hp Hnv Hu Hns Hfirst.
  assert (Hns1 : no_start l1) by (intros l0 ks Hl0; apply Hns; apply in_or_app; left; exact Hl0).
  assert (Hns2 : no_start l2) by (intros l0 ks Hl0; apply Hns; apply in_or_app; right; right; exact Hl0).
  destruct (before_first_visit s l1 k Hu Hns1 Hfirst Hp) as [B1 [B2 B3]].
  rewrite exec_from_app, exec_from_cons.
  set (s1 := exec_from s l1) in *.
  assert (Hs2 : stepf s1 (Visit k) = {| pipes := pipes s1; pending := remove_key k (pending s1); visited := visited s1 ++ [(k, v)] |}).
  { cbn [stepf]. apply memN_In in B2. rewrite B2, B1, Hm. reflexivity. }
  rewrite Hs2. rewrite count_not_pending; [|exact Hns2|].
  - cbn [visited]. rewrite count_app, count_one, B3, count_zero_notin by exact Hnv. reflexivity.
  - cbn [pending]. intros Hx. apply in_remove_key in Hx as [_ Hx]. congruence.
Qed.

(* ... and it is delivered in version v, not in another one *)
(* absent when the Send starts and not (re-)registered until it ended: never visited *)
Theorem stable_absent_not_visited s ls k v :
  pipes s k <> Some v -> no_store k v ls -> count k v (visited s) = 0%nat -> count k v (visited (exec_from s ls)) = 0%nat.
Proof. intros Hm Hns Hz. pose proof (count_no_store s ls k v Hns Hm). lia. Qed.

(* C07: a pipeline that is only ever overwritten (never deleted) while the Send ranges is delivered to in exactly one of
   its versions *)
Definition never_deleted (k : N) (ls : list label) : Prop := ~ In (EnvDelete k) ls.
Lemma some_step_no_delete s l k : l <> EnvDelete k -> (exists v, pipes s k = Some v) -> exists v, pipes (stepf s l) k = Some v.
Proof.
  intros Hl [v Hv]. destruct l as [k0 v0|k0|keys|k0]; cbn [stepf pipes]; eauto.
  - unfold pset. destruct (N.eqb k k0); eauto.
  - unfold pset. destruct (N.eqb k k0) eqn:E; eauto. apply N.eqb_eq in E. subst. congruence.
  - destruct (memN k0 (pending s)); eauto.
Qed.
Lemma count_two_le k v v' vis : v <> v' ->
  (count k v vis + count k v' vis <= List.length (filter (fun p => N.eqb (fst p) k) vis))%nat.
Proof.
  intros Hne. unfold count. induction vis as [|[k0 v0] t IH]; cbn; [lia|].
  destruct (N.eqb k0 k); cbn; [|exact IH].
  destruct (N.eqb v0 v) eqn:E1; destruct (N.eqb v0 v') eqn:E2; cbn; try lia.
  apply N.eqb_eq in E1. apply N.eqb_eq in E2. congruence.
Qed.

Theorem overwritten_exactly_one_version s l1 l2 k :
  inv s -> (exists v0, pipes s k = Some v0) -> In k (pending s) ->
  never_deleted k l1 -> no_start (l1 ++ Visit k :: l2) -> (forall l, In l l1 -> is_visit k l = false) ->
  exists v, count k v (visited (exec_from s (l1 ++ Visit k :: l2))) = 1%nat /\
            forall v', v' <> v -> count k v' (visited (exec_from s (l1 ++ Visit k :: l2))) = 0%nat.
Proof.
  intros Hinv Hm Hp Hnd Hns Hfirst.
  assert (Hnv : ~ In k (map fst (visited s))) by (intros Hx; exact (proj2 Hinv k Hx Hp)).
  assert (Hns1 : no_start l1) by (intros l0 ks Hl0; apply Hns; apply in_or_app; left; exact Hl0).
  assert (Hns2 : no_start l2) by (intros l0 ks Hl0; apply Hns; apply in_or_app; right; right; exact Hl0).
  (* over l1: k stays pending, stays mapped to some version, nothing is recorded for k *)
  assert (Hgen : forall l1 s, (exists v0, pipes s k = Some v0) -> In k (pending s) -> never_deleted k l1 -> no_start l1 ->
            (forall l, In l l1 -> is_visit k l = false) ->
            (exists v0, pipes (exec_from s l1) k = Some v0) /\ In k (pending (exec_from s l1)) /\
            forall v, count k v (visited (exec_from s l1)) = count k v (visited s)).
  { clear. induction l1 as [|l ls IH]; intros s Hm Hp Hnd Hns Hfv; [cbn; auto|]. rewrite exec_from_cons.
    assert (Hl : l <> EnvDelete k) by (intros ->; apply Hnd; left; reflexivity).
    assert (Hv : is_visit k l = false) by (apply Hfv; left; reflexivity).
    destruct (IH (stepf s l)) as [I1 [I2 I3]].
    - apply some_step_no_delete; assumption.
    - destruct l as [k0 v0|k0|keys|k0]; cbn [stepf pending]; try exact Hp.
      + exfalso. eapply Hns; [left; reflexivity|reflexivity].
      + destruct (memN k0 (pending s)); [|exact Hp]. cbn [pending]. apply in_remove_key. split; [exact Hp|].
        cbn in Hv. apply N.eqb_neq in Hv. congruence.
    - intros Hx. apply Hnd. right. exact Hx.
    - intros l0 ks Hl0. apply Hns. right. exact Hl0.
    - intros l0 Hl0. apply Hfv. right. exact Hl0.
    - split; [exact I1|]. split; [exact I2|]. intros v. rewrite I3.
      destruct l as [k0 v0|k0|keys|k0]; cbn [stepf visited]; try reflexivity.
      + exfalso. eapply Hns; [left; reflexivity|reflexivity].
      + destruct (memN k0 (pending s)); [|reflexivity]. cbn [visited]. destruct (pipes s k0) as [v0|]; [|reflexivity].
        rewrite count_app, count_other; [lia|]. cbn in Hv. apply N.eqb_neq in Hv. intros Hx. inversion Hx. congruence. }
  destruct (Hgen l1 s Hm Hp Hnd Hns1 Hfirst) as [[v Hv] [Hpend Hrec]].
  exists v.
  assert (Hone : count k v (visited (exec_from s (l1 ++ Visit k :: l2))) = 1%nat).
  { rewrite exec_from_app, exec_from_cons. set (s1 := exec_from s l1) in *.
    assert (Hs2 : stepf s1 (Visit k) = {| pipes := pipes s1; pending := remove_key k (pending s1); visited := visited s1 ++ [(k, v)] |}).
    { cbn [stepf]. apply memN_In in Hpend. rewrite Hpend, Hv. reflexivity. }
    rewrite Hs2. rewrite count_not_pending; [|exact Hns2|cbn [pending]; intros Hx; apply in_remove_key in Hx as [_ Hx]; congruence].
    cbn [visited]. rewrite count_app, count_one, Hrec, count_zero_notin by exact Hnv. reflexivity. }
  split; [exact Hone|]. intros v' Hne.
  pose proof (inv_exec_from s (l1 ++ Visit k :: l2) Hinv) as [Hnd' _].
  pose proof (nodup_key_count _ k Hnd') as Hle.
  pose proof (count_two_le k v v' (visited (exec_from s (l1 ++ Visit k :: l2))) (fun E => Hne (eq_sym E))) as H2.
  lia.
Qed.

(* ================= timed histories: from the real-time order the harness observes to the delivery bounds ================= *)
Definition sortedT (H : thist) : Prop := StronglySorted ltT H.

Lemma labels_app A B : labels (A ++ B) = labels A ++ labels B.
Proof. apply map_app. Qed.

Lemma sorted_app A B : sortedT (A ++ B) -> sortedT A /\ sortedT B.
Proof.
  induction A as [|a A IH]; cbn; intros Hs; [split; [constructor|exact Hs]|].
  inversion Hs as [|? ? Hst Hall]; subst. destruct (IH Hst) as [HA HB]. split; [|exact HB].
  constructor; [exact HA|]. rewrite Forall_forall in *. intros x Hx. apply Hall. apply in_or_app. left. exact Hx.
Qed.

Lemma sorted_split H x : sortedT H -> In x H ->
  exists A B, H = A ++ x :: B /\ (forall a, In a A -> (fst a < fst x)%N) /\ (forall b, In b B -> (fst x < fst b)%N).
Proof.
  induction H as [|y t IH]; intros Hs Hin; [destruct Hin|].
  inversion Hs as [|? ? Hst Hall]; subst. rewrite Forall_forall in Hall.
  destruct Hin as [->|Hin].
  - exists [], t. split; [reflexivity|]. split; [intros a []|]. intros b Hb. exact (Hall b Hb).
  - destruct (IH Hst Hin) as [A [B [-> [HA HB]]]]. exists (y :: A), B. split; [reflexivity|]. split; [|exact HB].
    intros a [->|Ha]; [|auto]. apply (Hall x). apply in_or_app. right. left. reflexivity.
Qed.

(* everything up to instant T, then everything after *)
Lemma sorted_split_at H T : sortedT H ->
  exists P Q, H = P ++ Q /\ (forall p, In p P -> (fst p <= T)%N) /\ (forall q, In q Q -> (T < fst q)%N).
Proof.
  induction H as [|y t IH]; intros Hs.
  - exists [], []. split; [reflexivity|]. split; intros ? [].
  - inversion Hs as [|? ? Hst Hall]; subst. rewrite Forall_forall in Hall.
    destruct (N.leb (fst y) T) eqn:E.
    + apply N.leb_le in E. destruct (IH Hst) as [P [Q [-> [HP HQ]]]]. exists (y :: P), Q. split; [reflexivity|]. split; [|exact HQ].
      intros p [->|Hp]; auto.
    + apply N.leb_gt in E. exists [], (y :: t). split; [reflexivity|]. split; [intros ? []|].
      intros q [->|Hq]; [exact E|]. specialize (Hall q Hq). unfold ltT in Hall. lia.
Qed.

(* a Send inside a timed history: one Start at T0, all its Visits in (T0, T1] *)
Record send_in (H : thist) (T0 T1 : N) (keys : list N) : Prop := {
  si_sorted : sortedT H;
  si_start : In (T0, Start keys) H;
  si_start_unique : forall t ks, In (t, Start ks) H -> t = T0;
  si_visits : forall t k, In (t, Visit k) H -> (T0 < t /\ t <= T1)%N;
}.

Lemma exec_split A x B : exec (labels (A ++ x :: B)) = exec_from (stepf (exec (labels A)) (snd x)) (labels B).
Proof. unfold exec. rewrite labels_app. cbn [labels map]. rewrite exec_from_app, exec_from_cons. reflexivity. Qed.

Lemma not_v_exec s ls k v : no_store k v ls -> pipes s k <> Some v -> pipes (exec_from s ls) k <> Some v.
Proof.
  revert s; induction ls as [|l ls IH]; intros s Hns Hp; [exact Hp|]. rewrite exec_from_cons. apply IH.
  - intros Hx. apply Hns. right. exact Hx.
  - apply not_v_step; [|exact Hp]. intros ->. apply Hns. left. reflexivity.
Qed.

(* registered before the Send started, nothing else happened to the key until the Send had ended: exactly once *)
Theorem timed_exactly_once H T0 T1 keys k v te tv :
  send_in H T0 T1 keys -> In k keys -> In (tv, Visit k) H ->
  In (te, EnvStore k v) H -> (te < T0)%N ->
  (forall t l, In (t, l) H -> touches k l -> (t <= te \/ T1 < t)%N) ->
  count k v (visited (exec (labels H))) = 1%nat.
Proof.
  intros [Hs Hst Hsu Hvis] Hk Hv Hreg Hte Hoth.
  destruct (Hvis _ _ Hv) as [Htv0 Htv1].
  destruct (sorted_split H _ Hs Hst) as [A [B [HH [HA HB]]]]. cbn [fst] in HA, HB.
  rewrite HH in Hs. destruct (sorted_app _ _ Hs) as [HsA HsB']. inversion HsB' as [|? ? HsB _]; subst.
  rewrite exec_split. cbn [snd].
  (* the registration lies in A and is the last step on k there *)
  assert (HregA : In (te, EnvStore k v) A).
  { apply in_app_or in Hreg as [Hr|[Hr|Hr]]; [exact Hr|inversion Hr|]. specialize (HB _ Hr). cbn in HB. lia. }
  destruct (sorted_split A _ HsA HregA) as [A1 [A2 [HAeq [_ HA2]]]]. cbn [fst] in HA2.
  assert (HpA : pipes (exec (labels A)) k = Some v).
  { rewrite HAeq. rewrite exec_split. cbn [snd]. rewrite pipes_untouched.
    - cbn [stepf pipes]. unfold pset. rewrite N.eqb_refl. reflexivity.
    - intros l Hl Ht. apply in_map_iff in Hl as [[t l0] [El Hin]]. cbn in El. subst l0.
      assert (HinH : In (t, l) (A ++ (T0, Start keys) :: B)) by (apply in_or_app; left; rewrite HAeq; apply in_or_app; right; right; exact Hin).
      destruct (Hoth _ _ HinH Ht) as [Hle|Hgt].
      + specialize (HA2 _ Hin). cbn in HA2. lia.
      + assert (HinA : In (t, l) A) by (rewrite HAeq; apply in_or_app; right; right; exact Hin).
        specialize (HA _ HinA). cbn in HA. lia. }
  (* in B: up to the first Visit of k nothing touches k *)
  assert (HvB : In (tv, Visit k) B).
  { apply in_app_or in Hv as [Hr|[Hr|Hr]]; [specialize (HA _ Hr); cbn in HA; lia|inversion Hr|exact Hr]. }
  destruct (first_split (fun x => is_visit k (snd x)) B) as [B1 [[tf y] [B2 [HBeq [Hy HB1]]]]].
  { exists (tv, Visit k). split; [exact HvB|]. cbn. apply N.eqb_refl. }
  cbn [snd] in Hy. destruct y as [| |?|k0]; try discriminate. cbn in Hy. apply N.eqb_eq in Hy. subst k0.
  assert (HinHf : In (tf, Visit k) (A ++ (T0, Start keys) :: B)).
  { apply in_or_app. right. right. rewrite HBeq. apply in_or_app. right. left. reflexivity. }
  destruct (Hvis _ _ HinHf) as [Htf0 Htf1].
  rewrite HBeq in HsB. destruct (sorted_app _ _ HsB) as [_ HsB2']. 
  assert (HB1t : forall b, In b B1 -> (fst b < tf)%N).
  { rewrite HBeq in *. clear - HsB. intros b Hb. 
    assert (Hx := HsB). clear HsB. induction B1 as [|c B1 IH]; [destruct Hb|]. cbn in Hx. inversion Hx as [|? ? Hst Hall]; subst.
    destruct Hb as [->|Hb]; [|auto]. rewrite Forall_forall in Hall. specialize (Hall (tf, Visit k)). cbn in Hall. apply Hall.
    apply in_or_app. right. left. reflexivity. }
  rewrite HBeq, labels_app. cbn [labels map snd].
  apply stable_present_exactly_once.
  - cbn [stepf pipes]. exact HpA.
  - cbn [stepf pending]. exact Hk.
  - cbn [stepf visited map]. intros [].
  - intros l Hl Ht. apply in_map_iff in Hl as [[t l0] [El Hin]]. cbn in El. subst l0.
    assert (HinB : In (t, l) B) by (rewrite HBeq; apply in_or_app; left; exact Hin).
    assert (HinH : In (t, l) (A ++ (T0, Start keys) :: B)) by (apply in_or_app; right; right; exact HinB).
    specialize (HB _ HinB). cbn in HB. specialize (HB1t _ Hin). cbn in HB1t.
    destruct (Hoth _ _ HinH Ht); lia.
  - intros l ks Hl ->. 
    assert (Hin : exists t, In (t, Start ks) B).
    { apply in_app_or in Hl as [Hl|[Hl|Hl]].
      - apply in_map_iff in Hl as [[t l0] [El Hin]]. cbn in El. subst l0. exists t. rewrite HBeq. apply in_or_app. left. exact Hin.
      - discriminate.
      - apply in_map_iff in Hl as [[t l0] [El Hin]]. cbn in El. subst l0. exists t. rewrite HBeq. apply in_or_app. right. right. exact Hin. }
    destruct Hin as [t Hin]. assert (t = T0) by (apply (Hsu t ks); apply in_or_app; right; right; exact Hin).
    specialize (HB _ Hin). cbn in HB. lia.
  - intros l Hl. apply in_map_iff in Hl as [[t l0] [El Hin]]. cbn in El. subst l0. exact (HB1 _ Hin).
Qed.

(* the version's Store happens only after the Send has ended (or never): no delivery *)
Theorem timed_never_after H T0 T1 keys k v :
  send_in H T0 T1 keys -> (forall t, In (t, EnvStore k v) H -> (T1 < t)%N) ->
  count k v (visited (exec (labels H))) = 0%nat.
Proof.
  intros [Hs Hst Hsu Hvis] Hafter.
  destruct (sorted_split_at H T1 Hs) as [P [Q [HH [HP HQ]]]].
  unfold exec. rewrite HH, labels_app, exec_from_app.
  assert (H1 : (count k v (visited (exec_from init (labels P))) <= 0)%nat).
  { apply (count_no_store init (labels P) k v).
    - intros Hx. apply in_map_iff in Hx as [[t l] [El Hin]]. cbn in El. subst l.
      assert (HinH : In (t, EnvStore k v) H) by (rewrite HH; apply in_or_app; left; exact Hin).
      specialize (Hafter _ HinH). specialize (HP _ Hin). cbn in HP. lia.
    - cbn. discriminate. }
  assert (H2 := count_no_visit (exec_from init (labels P)) (labels Q) k v).
  assert (Hnv : no_visit (labels Q)).
  { intros l k0 Hl ->. apply in_map_iff in Hl as [[t l0] [El Hin]]. cbn in El. subst l0.
    assert (HinH : In (t, Visit k0) H) by (rewrite HH; apply in_or_app; right; exact Hin).
    destruct (Hvis _ _ HinH) as [_ Hle]. specialize (HQ _ Hin). cbn in HQ. lia. }
  specialize (H2 Hnv). lia.
Qed.

(* another call on the key took effect after the registration and before the Send started: no delivery *)
Theorem timed_never_replaced H T0 T1 keys k v te t' l' :
  send_in H T0 T1 keys -> In (te, EnvStore k v) H -> (forall t, In (t, EnvStore k v) H -> t = te) ->
  In (t', l') H -> touches k l' -> (te < t')%N -> (t' < T0)%N ->
  count k v (visited (exec (labels H))) = 0%nat.
Proof.
  intros [Hs Hst Hsu Hvis] Hreg Huniq Hin' Htouch Hlt1 Hlt2.
  destruct (sorted_split H _ Hs Hin') as [A [B [HH [HA HB]]]]. cbn [fst] in HA, HB.
  assert (Hl' : l' <> EnvStore k v) by (intros ->; specialize (Huniq _ Hin'); lia).
  assert (HnsB : no_store k v (labels B)).
  { intros Hx. apply in_map_iff in Hx as [[t l] [El Hin]]. cbn in El. subst l.
    assert (HinH : In (t, EnvStore k v) H) by (rewrite HH; apply in_or_app; right; right; exact Hin).
    specialize (Huniq _ HinH). specialize (HB _ Hin). cbn in HB. lia. }
  assert (HstB : In (T0, Start keys) B).
  { rewrite HH in Hst. apply in_app_or in Hst as [Hr|[Hr|Hr]]; [specialize (HA _ Hr); cbn in HA; lia| |exact Hr].
    inversion Hr; subst. lia. }
  rewrite HH in Hs. destruct (sorted_app _ _ Hs) as [_ HsB']. inversion HsB' as [|? ? HsB _]; subst.
  destruct (sorted_split B _ HsB HstB) as [B1 [B2 [HBeq [_ _]]]].
  rewrite exec_split. cbn [snd]. set (s1 := stepf (exec (labels A)) l').
  assert (Hp1 : pipes s1 k <> Some v).
  { unfold s1. destruct l' as [k0 v0|k0|ks|k0]; cbn [touches] in Htouch; try contradiction; subst k0; cbn [stepf pipes]; unfold pset; rewrite N.eqb_refl.
    - intros Hx. inversion Hx; subst. congruence.
    - discriminate. }
  rewrite HBeq, labels_app. cbn [labels map snd]. rewrite exec_from_app, exec_from_cons.
  assert (HnsB1 : no_store k v (labels B1)) by (intros Hx; apply HnsB; rewrite HBeq, labels_app; apply in_or_app; left; exact Hx).
  assert (HnsB2 : no_store k v (labels B2)) by (intros Hx; apply HnsB; rewrite HBeq, labels_app; apply in_or_app; right; right; exact Hx).
  pose proof (not_v_exec s1 (labels B1) k v HnsB1 Hp1) as Hp2.
  pose proof (count_no_store (stepf (exec_from s1 (labels B1)) (Start keys)) (labels B2) k v HnsB2) as Hc.
  cbn [stepf pipes visited] in Hc. specialize (Hc Hp2). unfold count in Hc at 2. cbn in Hc.
  cbn [stepf]. unfold labels in *. lia.
Qed.

(* C04, delivery part.  H ranges over EVERY timed history -- every interleaving of the Send's lookup and visits with the
   single Store / Delete of the other calls -- that is consistent with what the harness observed: each call's effect
   lies strictly inside its [invocation, return] interval.  Then the verdict of the executable oracle (Conc.must1 /
   must0, evaluated by the correspondence on the observed intervals) is what the model does:
     * a Send that starts after a pipeline's registration returned and ends before any other call on that pipeline id
       is requested delivers to it exactly once;
     * a Send that ends before the registration is requested, or starts after a later call on the id returned, never;
     * otherwise zero or one time. *)
Theorem send_delivery_bounds H T0 T1 keys k v te ri rr si sr (others : list obs_op) :
  send_in H T0 T1 keys -> In k keys -> (exists tv, In (tv, Visit k) H) ->
  (si < T0)%N -> (T1 < sr)%N ->
  In (te, EnvStore k v) H -> (ri < te)%N -> (te < rr)%N ->
  (forall t, In (t, EnvStore k v) H -> t = te) ->
  (forall t l, In (t, l) H -> touches k l -> (t, l) <> (te, EnvStore k v) ->
     exists o, In o others /\ (oo_inv o < t)%N /\ (t < oo_ret o)%N) ->
  (forall o, In o others -> exists t, In (t, oo_lab o) H /\ touches k (oo_lab o) /\ (t, oo_lab o) <> (te, EnvStore k v) /\
                                      (oo_inv o < t)%N /\ (t < oo_ret o)%N) ->
  (must1 ri rr si sr others = true -> count k v (visited (exec (labels H))) = 1%nat) /\
  (must0 ri rr si sr others = true -> count k v (visited (exec (labels H))) = 0%nat) /\
  (count k v (visited (exec (labels H))) <= 1)%nat.
Proof.
  intros Hsend Hk [tv Hv] Hsi Hsr Hreg Hri Hrr Huniq Hcover Heff.
  split; [|split; [|apply count_at_most_one]].
  - unfold must1. intros Hm. apply andb_prop in Hm as [M1 M2]. apply N.ltb_lt in M1. rewrite forallb_forall in M2.
    eapply timed_exactly_once; eauto; [lia|].
    intros t l Hin Ht. destruct (N.eq_dec t te) as [->|Hne]; [left; lia|].
    destruct (Hcover t l Hin Ht) as [o [Ho [O1 O2]]]; [intros Hx; inversion Hx; congruence|].
    specialize (M2 o Ho). unfold certainly_outside in M2. apply orb_prop in M2 as [M2|M2]; apply N.ltb_lt in M2; [left|right]; lia.
  - unfold must0. intros Hm. apply orb_prop in Hm as [M|M].
    + apply N.ltb_lt in M. eapply timed_never_after; eauto. intros t Ht. specialize (Huniq _ Ht). lia.
    + apply existsb_exists in M as [o [Ho M]]. apply andb_prop in M as [M1 M2]. apply N.ltb_lt in M1. apply N.ltb_lt in M2.
      destruct (Heff o Ho) as [t [Hin [Ht [_ [O1 O2]]]]].
      eapply timed_never_replaced with (t' := t); eauto; lia.
Qed.

(* a registration that failed (or was never made) stores nothing: never delivered to *)
Corollary never_stored_never_delivered H T0 T1 keys k v :
  send_in H T0 T1 keys -> (forall t, ~ In (t, EnvStore k v) H) -> count k v (visited (exec (labels H))) = 0%nat.
Proof. intros Hs Hn. eapply timed_never_after; eauto. intros t Ht. exfalso. exact (Hn t Ht). Qed.

(* C04, quiescence part: registry operations are atomic (each runs entirely under Broker.lock in write mode -- that is the
   content of LockSound.program_no_data_race over the generated program), so the registry after any set of concurrent
   calls is the sequential model folded over them in lock-acquisition order.  Stated over the model: a timed history of
   atomic operations yields exactly the fold over its labels in time order, whatever the interleaving was. *)
Theorem quiescent_sequential (H1 H2 : thist) :
  sortedT H1 -> sortedT H2 -> (forall x, In x H1 <-> In x H2) -> exec (labels H1) = exec (labels H2).
Proof.
  intros S1 S2 Hperm. assert (H1 = H2); [|subst; reflexivity].
  revert H2 S2 Hperm. induction H1 as [|a t IH]; intros H2 S2 Hperm.
  - destruct H2 as [|b t2]; [reflexivity|]. exfalso. apply (proj2 (Hperm b)). left. reflexivity.
  - destruct H2 as [|b t2]; [exfalso; apply (proj1 (Hperm a)); left; reflexivity|].
    inversion S1 as [|? ? Sa Fa]; subst. inversion S2 as [|? ? Sb Fb]; subst. rewrite Forall_forall in Fa, Fb.
    assert (a = b).
    { destruct (proj1 (Hperm a) (or_introl eq_refl)) as [E|Ina]; [congruence|].
      destruct (proj2 (Hperm b) (or_introl eq_refl)) as [E|Inb]; [congruence|].
      specialize (Fb _ Ina). specialize (Fa _ Inb). unfold ltT in *. lia. }
    subst b. f_equal. apply IH; auto.
    intros x. split; intros Hx.
    + destruct (proj1 (Hperm x) (or_intror Hx)) as [E|Hin]; [|exact Hin]. subst x. specialize (Fa _ Hx). unfold ltT in Fa. lia.
    + destruct (proj2 (Hperm x) (or_intror Hx)) as [E|Hin]; [|exact Hin]. subst x. specialize (Fb _ Hx). unfold ltT in Fb. lia.
Qed.

(* ---------- overwrites only: some version is delivered to, exactly once ---------- *)
Lemma some_exec_no_delete s ls k : never_deleted k ls -> (exists v, pipes s k = Some v) -> exists v, pipes (exec_from s ls) k = Some v.
Proof.
  revert s; induction ls as [|l ls IH]; intros s Hnd Hv; [exact Hv|]. rewrite exec_from_cons. apply IH.
  - intros Hx. apply Hnd. right. exact Hx.
  - apply some_step_no_delete; [|exact Hv]. intros ->. apply Hnd. left. reflexivity.
Qed.

Theorem timed_overwritten_some H T0 T1 keys k v te tv :
  send_in H T0 T1 keys -> In k keys -> In (tv, Visit k) H ->
  In (te, EnvStore k v) H -> (te < T0)%N ->
  (forall t l, In (t, l) H -> touches k l -> (t <= te)%N \/ (T1 < t)%N \/ is_store l = true) ->
  exists v', count k v' (visited (exec (labels H))) = 1%nat /\
             forall v'', v'' <> v' -> count k v'' (visited (exec (labels H))) = 0%nat.
Proof.
  intros [Hs Hst Hsu Hvis] Hk Hv Hreg Hte Hoth.
  destruct (Hvis _ _ Hv) as [Htv0 Htv1].
  destruct (sorted_split H _ Hs Hst) as [A [B [HH [HA HB]]]]. cbn [fst] in HA, HB.
  rewrite HH in Hs. destruct (sorted_app _ _ Hs) as [HsA HsB']. inversion HsB' as [|? ? HsB _]; subst.
  rewrite exec_split. cbn [snd].
  assert (HregA : In (te, EnvStore k v) A).
  { apply in_app_or in Hreg as [Hr|[Hr|Hr]]; [exact Hr|inversion Hr|]. specialize (HB _ Hr). cbn in HB. lia. }
  destruct (sorted_split A _ HsA HregA) as [A1 [A2 [HAeq [_ HA2]]]]. cbn [fst] in HA2.
  assert (HpA : exists v0, pipes (exec (labels A)) k = Some v0).
  { rewrite HAeq. rewrite exec_split. cbn [snd]. apply some_exec_no_delete.
    - intros Hx. apply in_map_iff in Hx as [[t l] [El Hin]]. cbn in El. subst l.
      assert (HinA : In (t, EnvDelete k) A) by (rewrite HAeq; apply in_or_app; right; right; exact Hin).
      assert (HinH : In (t, EnvDelete k) (A ++ (T0, Start keys) :: B)) by (apply in_or_app; left; exact HinA).
      specialize (HA2 _ Hin). specialize (HA _ HinA). cbn in HA2, HA.
      destruct (Hoth _ _ HinH eq_refl) as [Hx|[Hx|Hx]]; [lia|lia|discriminate].
    - exists v. cbn [stepf pipes]. unfold pset. rewrite N.eqb_refl. reflexivity. }
  assert (HvB : In (tv, Visit k) B).
  { apply in_app_or in Hv as [Hr|[Hr|Hr]]; [specialize (HA _ Hr); cbn in HA; lia|inversion Hr|exact Hr]. }
  destruct (first_split (fun x => is_visit k (snd x)) B) as [B1 [[tf y] [B2 [HBeq [Hy HB1]]]]].
  { exists (tv, Visit k). split; [exact HvB|]. cbn. apply N.eqb_refl. }
  cbn [snd] in Hy. destruct y as [| |?|k0]; try discriminate. cbn in Hy. apply N.eqb_eq in Hy. subst k0.
  assert (HinHf : In (tf, Visit k) (A ++ (T0, Start keys) :: B)).
  { apply in_or_app. right. right. rewrite HBeq. apply in_or_app. right. left. reflexivity. }
  destruct (Hvis _ _ HinHf) as [Htf0 Htf1].
  rewrite HBeq in HsB.
  assert (HB1t : forall b, In b B1 -> (fst b < tf)%N).
  { clear - HsB. intros b Hb.
    assert (Hx := HsB). clear HsB. induction B1 as [|c B1 IH]; [destruct Hb|]. cbn in Hx. inversion Hx as [|? ? Hst Hall]; subst.
    destruct Hb as [->|Hb]; [|auto]. rewrite Forall_forall in Hall. specialize (Hall (tf, Visit k)). cbn in Hall. apply Hall.
    apply in_or_app. right. left. reflexivity. }
  rewrite HBeq, labels_app. cbn [labels map snd].
  apply overwritten_exactly_one_version.
  - split; cbn [stepf visited map]; [constructor|intros k0 []].
  - cbn [stepf pipes]. exact HpA.
  - cbn [stepf pending]. exact Hk.
  - intros Hx. apply in_map_iff in Hx as [[t l] [El Hin]]. cbn in El. subst l.
    assert (HinB : In (t, EnvDelete k) B) by (rewrite HBeq; apply in_or_app; left; exact Hin).
    assert (HinH : In (t, EnvDelete k) (A ++ (T0, Start keys) :: B)) by (apply in_or_app; right; right; exact HinB).
    specialize (HB _ HinB). cbn in HB. specialize (HB1t _ Hin). cbn in HB1t.
    destruct (Hoth _ _ HinH eq_refl) as [Hx|[Hx|Hx]]; [lia|lia|discriminate].
  - intros l ks Hl ->.
    assert (Hin : exists t, In (t, Start ks) B).
    { apply in_app_or in Hl as [Hl|[Hl|Hl]].
      - apply in_map_iff in Hl as [[t l0] [El Hin]]. cbn in El. subst l0. exists t. rewrite HBeq. apply in_or_app. left. exact Hin.
      - discriminate.
      - apply in_map_iff in Hl as [[t l0] [El Hin]]. cbn in El. subst l0. exists t. rewrite HBeq. apply in_or_app. right. right. exact Hin. }
    destruct Hin as [t Hin]. assert (t = T0) by (apply (Hsu t ks); apply in_or_app; right; right; exact Hin).
    specialize (HB _ Hin). cbn in HB. lia.
  - intros l Hl. apply in_map_iff in Hl as [[t l0] [El Hin]]. cbn in El. subst l0. exact (HB1 _ Hin).
Qed.

(* interval form: the verdict must_some of the executable oracle *)
Theorem send_delivery_some H T0 T1 keys k v te ri rr si sr (others : list obs_op) :
  send_in H T0 T1 keys -> In k keys -> (exists tv, In (tv, Visit k) H) ->
  (si < T0)%N -> (T1 < sr)%N ->
  In (te, EnvStore k v) H -> (ri < te)%N -> (te < rr)%N ->
  (forall t l, In (t, l) H -> touches k l -> (t, l) <> (te, EnvStore k v) ->
     exists o, In o others /\ oo_lab o = l /\ (oo_inv o < t)%N /\ (t < oo_ret o)%N) ->
  must_some ri rr si sr others = true ->
  exists v', count k v' (visited (exec (labels H))) = 1%nat /\
             forall v'', v'' <> v' -> count k v'' (visited (exec (labels H))) = 0%nat.
Proof.
  intros Hsend Hk [tv Hv] Hsi Hsr Hreg Hri Hrr Hcover Hm.
  unfold must_some in Hm. apply andb_prop in Hm as [M1 M2]. apply N.ltb_lt in M1. rewrite forallb_forall in M2.
  eapply timed_overwritten_some; eauto; [lia|].
  intros t l Hin Ht. destruct (N.eq_dec t te) as [->|Hne]; [left; lia|].
  destruct (Hcover t l Hin Ht) as [o [Ho [Hl [O1 O2]]]]; [intros Hx; inversion Hx; congruence|].
  specialize (M2 o Ho). apply orb_prop in M2 as [M2|M2].
  - unfold certainly_outside in M2. apply orb_prop in M2 as [M2|M2]; apply N.ltb_lt in M2; [left|right; left]; lia.
  - right. right. rewrite <- Hl. exact M2.
Qed.
