(* Contracts.v — the hand-written lock discipline of go-eventlogger (the SPEC the generated program is checked against):
   for every tracked field its guard, for every helper function the locks its callers must hold, for every callback
   kind the locks a callback may take, the constructor list, and the waivers that mirror recorded known findings.
   The [acquires] table is inferred from the generated call graph (untrusted: the checker validates the table). *)
From Coq Require Import List String Bool.
From Verif Require Import LockLang.
Import ListNotations.
Local Open Scope string_scope.

Definition starts (p s : string) : bool := String.prefix p s.

Definition L_broker := "eventlogger.Broker.lock".
Definition L_thr := "eventlogger.graph.thresholdLock".

(* fields that make up the Broker's own registry state (C04); everything else belongs to the stock nodes / Event (C19) *)
Definition broker_field (f : string) : bool :=
  starts "eventlogger.Broker." f || starts "eventlogger.nodeUsage." f || starts "eventlogger.graph." f ||
  starts "eventlogger.graphMap." f || starts "eventlogger.registeredPipeline." f || starts "eventlogger.linkedNode." f ||
  starts "eventlogger.clock." f.

Definition guard_tbl (f : string) : guard :=
  (* --- Broker registry --- *)
  if mem f ["eventlogger.graph.successThreshold"; "eventlogger.graph.successThresholdSinks"]
  then GLocks [L_broker; L_thr]     (* written under both; the getters read under the first, graph.process under the second *)
  else if mem f ["eventlogger.graph.roots"; "eventlogger.graphMap.m"] then GFree     (* sync.Map: internally synchronised *)
  else if String.eqb f "eventlogger.Broker.clock" then GImmutable                   (* only the test helper StopTimeAt writes it *)
  else if String.eqb f "eventlogger.graph.roots!" then GLock L_broker                 (* Store / Delete on a graph's roots: registry mutations *)
  else if starts "eventlogger.Broker." f then GLock L_broker
  else if starts "eventlogger.nodeUsage." f then GLock L_broker
  else if starts "eventlogger.graph." f then GLock L_broker
  else if starts "eventlogger.registeredPipeline." f then GImmutable
  else if starts "eventlogger.linkedNode." f then GImmutable
  else if starts "eventlogger.clock." f then GImmutable
  (* --- the event shared by all pipelines of a Send --- *)
  else if String.eqb f "eventlogger.Event.Formatted" then GLock "eventlogger.Event.l"
  else if starts "eventlogger.Event." f then GImmutable
  (* --- stock nodes --- *)
  else if mem f ["eventlogger.FileSink.f"; "eventlogger.FileSink.BytesWritten"; "eventlogger.FileSink.LastCreated";
                 "eventlogger.FileSink.clock!"]     (* clock!: the sink reads the wall clock (file stamps, age check) under its lock only *)
  then GLock "eventlogger.FileSink.l"
  else if starts "eventlogger.FileSink." f then GImmutable
  else if starts "eventlogger.Filter." f then GImmutable
  else if starts "eventlogger.JSONFormatterFilter." f then GImmutable
  else if starts "eventlogger.JSONFormatter." f then GImmutable
  else if starts "eventlogger.NodeController." f then GImmutable
  else if mem f ["gated.Filter.gated"; "gated.Filter.orderedGated"; "gated.Filter.composeFrom"; "gated.Filter.Expiration"]
  then GLock "gated.Filter.l"
  else if starts "gated.gatedEvent." f then GLock "gated.Filter.l"
  else if starts "gated.Filter." f then GImmutable
  else if mem f ["encrypt.Filter.Wrapper"; "encrypt.Filter.HmacSalt"; "encrypt.Filter.HmacInfo"] then GLock "encrypt.Filter.l"
  else if starts "encrypt.Filter." f then GImmutable
  else if String.eqb f "cloudevents.FormatterFilter.Signer" then GLock "cloudevents.FormatterFilter.l"
  else if starts "cloudevents.FormatterFilter." f then GImmutable
  else if String.eqb f "writer.Sink.Writer*" then GLock "writer.Sink.l"     (* the content of the sink's io.Writer: one Write at a time *)
  else if starts "writer.Sink." f then GImmutable
  else if starts "channel.ChannelSink." f then GImmutable
  (* the payload graph is mutated (reflectively) only after copystructure.Copy made a private copy *)
  else if String.eqb f "payload-graph" then GLock "COPY"
  else GFree.

Definition requires_tbl (f : string) : held :=
  if mem f ["eventlogger.Broker.removeNode"; "eventlogger.Broker.unregisterNode"; "eventlogger.Broker.releaseNodes"]
  then [(L_broker, MW)]
  else if mem f ["eventlogger.FileSink.reopen"; "eventlogger.FileSink.open"; "eventlogger.FileSink.rotate"; "eventlogger.FileSink.pruneFiles"]
  then [("eventlogger.FileSink.l", MW)]
  else if String.eqb f "gated.Filter.openGate" then [("gated.Filter.l", MW)]
  else if mem f ["encrypt.Filter.filterField"; "encrypt.Filter.filterSlice"; "encrypt.Filter.filterValue"; "encrypt.Filter.filterTaggable";
                 "encrypt.setValue"; "encrypt.trackedMaps.processUnfiltered"]
  then [("COPY", MW)]
  else [].

(* C12's hypothesis: a node's Process, Close or Reopen, and the Sender a gated filter flushes through, may call
   Broker.Send, which takes Broker.lock in read mode (a recursive read lock deadlocks as soon as a writer is queued) *)
(* a blocking wait that is not a mutex operation (WaitGroup.Wait, Cond.Wait, channel send / receive, select without default;
   callback kinds "wait:...", emitted by the translator) may depend on another goroutine that needs the registry locks --
   e.g. on an in-flight Send whose node calls Send again: it must not happen while Broker.lock or a threshold lock is held *)
Definition is_wait (k : string) : bool := starts "wait:" k.
Definition wait_acq (k : string) : list string := if is_wait k then [L_broker; L_thr] else [].
Definition user_acq (k : string) : list string :=
  if mem k ["Node.Process"; "Closer.Close"; "Node.Reopen"; "Sender.Send"] then [L_broker]
  else wait_acq k.
Definition no_user_acq (_ : string) : list string := [].

Definition ctors : list string :=
  ["eventlogger.linkNodes"; "eventlogger.linkNodesAndSinks"; "eventlogger.Broker.StopTimeAt"; "eventlogger.NewBroker"].

(* KF-C19-copy-vs-formattedas (finding F9): encrypt.Filter.Process deep-copies the shared event with copystructure.Copy,
   which reads Event.Formatted reflectively without Event.l *)
Definition known_waivers : list (string * string) :=
  [("encrypt.Filter.Process", "eventlogger.Event.Formatted")].

(* lock order: a lock is only acquired (and a callback that may take it only runs) while every held lock ranks lower.
   COPY (pseudo lock of the private event copy) < gated.Filter.l (held across Sender.Send) < encrypt.Filter.l (taken under COPY)
   < Broker.lock < graph.thresholdLock (taken under Broker.lock by the setters); the remaining locks are never nested *)
Definition rank_tbl (l : string) : nat :=
  if String.eqb l "COPY" then 1
  else if String.eqb l "gated.Filter.l" then 2
  else if String.eqb l "encrypt.Filter.l" then 3
  else if String.eqb l L_broker then 5
  else if String.eqb l L_thr then 6
  else 7.

Definition infer_fuel := 12%nat.   (* call-graph depth; too small a value only produces complaints *)
Definition mk (g : string -> guard) (ua : string -> list string) (w : list (string * string)) (pr : program) : contracts :=
  let tbl := infer infer_fuel ua pr [] in
  {| guard_of := g; requires := requires_tbl; acquires := fun f => assocd f tbl [];
     user_acquires := ua; constructors := ctors; waived := w; rank := rank_tbl |}.

(* C12: lock protocol and callbacks only *)
Definition contracts_C12 (pr : program) : contracts := mk (fun _ => GFree) user_acq [] pr.
(* C12, the waits alone: the named obligation no_blocking_wait_under_registry_lock *)
Definition contracts_C12_waits (pr : program) : contracts := mk (fun _ => GFree) wait_acq [] pr.
(* C15's side condition: only the FileSink's clock reads (pseudo field clock!, see translate/) are constrained *)
Definition contracts_clock (pr : program) : contracts :=
  mk (fun f => if String.eqb f "eventlogger.FileSink.clock!" then GLock "eventlogger.FileSink.l" else GFree) no_user_acq [] pr.

(* C04's atomicity side condition: the three maps that make up the registry (b.nodes, b.graphs, every graph's roots -- the latter
   through the pseudo field roots!, written by the translator at every Store / Delete) are mutated only while Broker.lock is held
   in write mode: a registry call's effect on them falls into ONE critical section as far as the maps go *)
Definition registry_maps : list string := ["eventlogger.Broker.nodes"; "eventlogger.Broker.graphs"; "eventlogger.graph.roots!"].
Definition contracts_registry (pr : program) : contracts :=
  mk (fun f => if mem f registry_maps then GLock L_broker else GFree) no_user_acq [] pr.

(* the audited concurrency constructs of the library: goroutine starts and blocking waits that are not mutex operations.
   The dispatch protocol of graph.process / doProcess (C03's subject) and the channel sink's select; nothing else. *)
Definition audited_concurrency : list (string * string) :=
  [("eventlogger.graph.process", "go"); ("eventlogger.graph.process", "wait:WaitGroup.Wait"); ("eventlogger.graph.process", "wait:select");
   ("eventlogger.graph.doProcess", "go"); ("eventlogger.graph.doProcess", "wait:select"); ("eventlogger.graph.doProcess", "wait:chan-send");
   ("channel.ChannelSink.Process", "wait:select")].

(* C04: the Broker's registry fields *)
Definition contracts_C04 (pr : program) : contracts :=
  mk (fun f => if broker_field f then guard_tbl f else GFree) no_user_acq [] pr.
(* C19: everything else (Event, stock nodes), once with the waiver of the known finding and once without (for reporting) *)
Definition contracts_C19 (pr : program) : contracts :=
  mk (fun f => if broker_field f then GFree else guard_tbl f) no_user_acq known_waivers pr.
Definition contracts_C19_unwaived (pr : program) : contracts :=
  mk (fun f => if broker_field f then GFree else guard_tbl f) no_user_acq [] pr.
