(* CryptoProofs.v — proofs about Crypto.v (C16). *)
From Coq Require Import List Bool Arith NArith Lia.
From Verif Require Import Base64 Crypto.
Import ListNotations.
Open Scope nat_scope.
Open Scope list_scope.

(* ---------- framing ---------- *)
Lemma strip_prefix_app p s : strip_prefix p (p ++ s) = Some s.
Proof. induction p as [|a p IH]; [reflexivity|]. cbn [app strip_prefix]. rewrite N.eqb_refl. exact IH. Qed.

Theorem b64url_roundtrip bs : bytes bs -> decode (encode bs) = Some bs.
Proof. exact (decode_encode bs). Qed.

Theorem unframe_frame blob : bytes blob -> unframe_enc (frame_enc blob) = Some blob.
Proof. intros H. unfold unframe_enc, frame_enc. rewrite strip_prefix_app. apply decode_encode. exact H. Qed.

(* the framing is unambiguous: two byte strings with one encoding / one frame are equal, and an "hmac-sha256:" value is
   never read back as an "encrypted:" one *)
Theorem b64url_injective a b : bytes a -> bytes b -> encode a = encode b -> a = b.
Proof.
  intros Ha Hb E. pose proof (decode_encode a Ha) as Da. rewrite E, (decode_encode b Hb) in Da.
  injection Da as Da. symmetry. exact Da.
Qed.

Theorem frame_enc_injective a b : bytes a -> bytes b -> frame_enc a = frame_enc b -> a = b.
Proof.
  intros Ha Hb E. pose proof (unframe_frame a Ha) as Da. rewrite E, (unframe_frame b Hb) in Da.
  injection Da as Da. symmetry. exact Da.
Qed.

Theorem frame_hmac_injective a b : bytes a -> bytes b -> frame_hmac a = frame_hmac b -> a = b.
Proof. intros Ha Hb E. unfold frame_hmac in E. apply app_inv_head in E. exact (b64url_injective a b Ha Hb E). Qed.

Theorem hmac_frame_is_not_enc mac : unframe_enc (frame_hmac mac) = None.
Proof. reflexivity. Qed.

Theorem enc_frame_is_not_hmac blob : strip_prefix prefix_hmac (frame_enc blob) = None.
Proof. reflexivity. Qed.

(* the two prefixes are what the code writes *)
Lemma prefixes :
  prefix_enc = [101; 110; 99; 114; 121; 112; 116; 101; 100; 58]%N /\
  prefix_hmac = [104; 109; 97; 99; 45; 115; 104; 97; 50; 53; 54; 58]%N.
Proof. split; reflexivity. Qed.

Section CryptoProofs.
  Variable K : Type.
  Variable enc : K -> bstr -> bstr -> bstr.
  Variable derive : K -> bstr -> K.
  Variable hkdf : K -> bstr -> bstr -> bstr.
  Variable hmac : bstr -> bstr -> bstr.

  Notation fstate := (fstate K).
  Notation evopts := (evopts K).
  Notation value_out := (value_out K enc hkdf hmac).
  Notation value_under := (value_under K enc hkdf hmac).
  Notation event_opts := (event_opts K derive).
  Notation key_in_force := (key_in_force K derive).
  Notation step := (step K enc derive hkdf hmac).
  Notation run := (run K enc derive hkdf hmac).
  Notation cstep := (cstep K enc derive hkdf hmac).
  Notation crun := (crun K enc derive hkdf hmac).

  (* ---------- the operational selection of wrapper / salt / info is the declarative key in force ---------- *)
  Theorem opts_key_in_force st ewi :
    match event_opts st ewi, key_in_force st ewi with
    | Some o, Some t => forall c m, value_out st o c m = Some (value_under t c m)
    | None, None => True
    | _, _ => False
    end.
  Proof.
    unfold Crypto.event_opts, Crypto.key_in_force. destruct st as [[w|] fs fi]; cbn [f_wrap f_salt f_info].
    - destruct ewi as [[[id s] i]|].
      + destruct id as [|b id']; [exact I|]. intros c m. unfold Crypto.value_out, sel_wrap, sel_salt, sel_info. cbn. destruct c; reflexivity.
      + intros c m. unfold Crypto.value_out, sel_wrap, sel_salt, sel_info. cbn. destruct c; reflexivity.
    - destruct ewi as [[[id s] i]|]; exact I.
  Qed.

  Corollary value_uses_key_in_force st ewi o c m :
    event_opts st ewi = Some o -> exists t, key_in_force st ewi = Some t /\ value_out st o c m = Some (value_under t c m).
  Proof.
    intros H. pose proof (opts_key_in_force st ewi) as P. rewrite H in P.
    destruct (key_in_force st ewi) as [t|]; [|contradiction]. exists t. split; [reflexivity|apply P].
  Qed.

  Section AEAD.
  Variable dec : K -> bstr -> option bstr.
  (* what is assumed of the AEAD: decryption under the same key inverts encryption whatever the randomness, and the
     marshalled blob is a byte string *)
  Hypothesis dec_enc : forall k rnd m, dec k (enc k rnd m) = Some m.
  Hypothesis enc_bytes : forall k rnd m, bytes (enc k rnd m).

  (* decrypt_roundtrip: any value the filter encrypts — every byte string, empty and non-UTF-8 included — unframes and
     decrypts, under the wrapper in force for that event, to exactly the original bytes *)
  Theorem decrypt_roundtrip st ewi o rnd m out :
    event_opts st ewi = Some o -> value_out st o (CEnc rnd) m = Some out ->
    exists w s i, key_in_force st ewi = Some (w, s, i) /\ decrypt_value K dec w out = Some m.
  Proof.
    intros Ho Hv. destruct (value_uses_key_in_force st ewi o (CEnc rnd) m Ho) as [[[w s] i] [Hk Hv']].
    rewrite Hv in Hv'. injection Hv' as ->. exists w, s, i. split; [exact Hk|].
    unfold decrypt_value. cbn [Crypto.value_under]. rewrite unframe_frame by apply enc_bytes. apply dec_enc.
  Qed.
  End AEAD.

  (* hmac_value: an HMAC-ed value is the framed HMAC of the original under HKDF(wrapper in force, salt in force, info in force) *)
  Theorem hmac_value st ewi o m :
    event_opts st ewi = Some o ->
    exists w s i, key_in_force st ewi = Some (w, s, i) /\ value_out st o CHmac m = Some (frame_hmac (hmac (hkdf w s i) m)).
  Proof.
    intros Ho. destruct (value_uses_key_in_force st ewi o CHmac m Ho) as [[[w s] i] [Hk Hv]].
    exists w, s, i. split; [exact Hk|exact Hv].
  Qed.

  (* per-event values take precedence over the filter's; nil falls back to the filter's, nil there means empty *)
  Theorem key_in_force_precedence st w id s i :
    f_wrap st = Some w -> id <> [] ->
    key_in_force st (Some (id, s, i)) =
      Some (derive w id, match s with Some x => x | None => nonnil (f_salt st) end, match i with Some x => x | None => nonnil (f_info st) end).
  Proof.
    intros Hw Hid. unfold Crypto.key_in_force. rewrite Hw. destruct id as [|b r]; [contradiction|]. destruct s, i; reflexivity.
  Qed.

  (* hmac_deterministic: equal inputs under equal keys in force give equal digests, across events and filter states *)
  Theorem hmac_deterministic st1 ewi1 o1 st2 ewi2 o2 m :
    event_opts st1 ewi1 = Some o1 -> event_opts st2 ewi2 = Some o2 -> key_in_force st1 ewi1 = key_in_force st2 ewi2 ->
    value_out st1 o1 CHmac m = value_out st2 o2 CHmac m.
  Proof.
    intros H1 H2 Hk. destruct (value_uses_key_in_force _ _ _ CHmac m H1) as [t1 [K1 V1]].
    destruct (value_uses_key_in_force _ _ _ CHmac m H2) as [t2 [K2 V2]]. rewrite V1, V2. congruence.
  Qed.

  (* ---------- rotation over all histories ---------- *)
  Definition rot_w (o : op K) : option K := match o with ORotate _ w _ _ | ORotPayload _ w _ _ => w | OEvent _ _ _ => None end.
  Definition rot_s (o : op K) : option bstr := match o with ORotate _ _ s _ | ORotPayload _ _ s _ => s | OEvent _ _ _ => None end.
  Definition rot_i (o : op K) : option bstr := match o with ORotate _ _ _ i | ORotPayload _ _ _ i => i | OEvent _ _ _ => None end.
  Definition last_set {A} (l : list (option A)) (init : option A) : option A := fold_left (fun acc x => orelse x acc) l init.

  Lemma run_state : forall ops st,
    fst (run st ops) = {| f_wrap := last_set (map rot_w ops) (f_wrap st); f_salt := last_set (map rot_s ops) (f_salt st);
                          f_info := last_set (map rot_i ops) (f_info st) |}.
  Proof.
    induction ops as [|o r IH]; intros st; cbn [Crypto.run map last_set fold_left].
    - destruct st; reflexivity.
    - destruct (step st o) as [st1 out] eqn:Es. specialize (IH st1). destruct (run st1 r) as [st2 outs]. cbn [fst] in *.
      rewrite IH. unfold last_set. destruct o as [w s i|w s i|ewi vals]; cbn in Es; injection Es as <- _; reflexivity.
  Qed.

  Lemma run_app : forall ops1 ops2 st,
    run st (ops1 ++ ops2) = (fst (run (fst (run st ops1)) ops2), snd (run st ops1) ++ snd (run (fst (run st ops1)) ops2)).
  Proof.
    induction ops1 as [|o r IH]; intros ops2 st; cbn [app Crypto.run].
    - cbn [fst snd app]. destruct (run st ops2); reflexivity.
    - destruct (step st o) as [st1 out]. rewrite (IH ops2 st1). destruct (run st1 r) as [st2 outs]. cbn [fst snd app]. reflexivity.
  Qed.

  Definition is_event (o : op K) : Prop := match o with OEvent _ _ _ => True | _ => False end.

  Lemma events_keep_state : forall ops st, Forall is_event ops -> fst (run st ops) = st.
  Proof.
    induction ops as [|o r IH]; intros st H; [reflexivity|]. inversion H as [|? ? Ho Hr]; subst.
    cbn [Crypto.run]. destruct o as [w s i|w s i|ewi vals]; try contradiction. cbn [Crypto.step].
    specialize (IH st Hr). destruct (run st r) as [st2 outs]. exact IH.
  Qed.

  (* rotation_takes_effect: in every history, an event processed after a Rotate or after a rotation payload — with any
     number of other events in between — is processed exactly as in the state in which every non-nil component of that
     rotation has replaced the filter's (later rotations excluded by the hypothesis on ops2) *)
  Theorem rotation_takes_effect st ops1 rot ops2 ewi vals :
    (exists w s i, rot = ORotate K w s i \/ rot = ORotPayload K w s i) -> Forall is_event ops2 ->
    let st1 := fst (run st ops1) in
    let st2 := rotate K st1 (rot_w rot) (rot_s rot) (rot_i rot) in
    nth_error (snd (run st (ops1 ++ rot :: ops2 ++ [OEvent K ewi vals]))) (List.length ops1 + 1 + List.length ops2)
      = Some (snd (step st2 (OEvent K ewi vals))).
  Proof.
    intros (w & s & i & Hrot) Hev st1 st2.
    rewrite run_app. cbn [snd]. fold st1.
    assert (Hl : List.length (snd (run st ops1)) = List.length ops1).
    { clear. revert st. induction ops1 as [|o r IH]; intros st; [reflexivity|]. cbn [Crypto.run].
      destruct (step st o) as [sx out]. specialize (IH sx). destruct (run sx r). cbn [snd List.length] in *. rewrite IH. reflexivity. }
    rewrite nth_error_app2 by lia. rewrite Hl. replace (List.length ops1 + 1 + List.length ops2 - List.length ops1) with (S (List.length ops2)) by lia.
    cbn [Crypto.run]. assert (Hs : step st1 rot = (st2, snd (step st1 rot))).
    { unfold st2. destruct Hrot as [-> | ->]; reflexivity. }
    rewrite Hs. destruct (run st2 (ops2 ++ [OEvent K ewi vals])) as [st3 outs] eqn:Er. cbn [snd nth_error].
    assert (Ho : outs = snd (run st2 (ops2 ++ [OEvent K ewi vals]))) by (rewrite Er; reflexivity). rewrite Ho.
    rewrite run_app. cbn [snd]. rewrite (events_keep_state ops2 st2 Hev).
    assert (Hl2 : List.length (snd (run st2 ops2)) = List.length ops2).
    { clear. generalize st2. induction ops2 as [|o r IH]; intros sx0; [reflexivity|]. cbn [Crypto.run].
      destruct (step sx0 o) as [sx out]. specialize (IH sx). destruct (run sx r). cbn [snd List.length] in *. rewrite IH. reflexivity. }
    rewrite nth_error_app2 by lia. rewrite Hl2, Nat.sub_diag. cbn [Crypto.run].
    destruct (step st2 (OEvent K ewi vals)) as [sx out]. reflexivity.
  Qed.

  (* the components the rotation set are the ones in force afterwards *)
  Theorem rotate_sets st w s i :
    (forall x, w = Some x -> f_wrap (rotate K st w s i) = Some x) /\
    (forall x, s = Some x -> f_salt (rotate K st w s i) = Some x) /\
    (forall x, i = Some x -> f_info (rotate K st w s i) = Some x) /\
    (w = None -> f_wrap (rotate K st w s i) = f_wrap st) /\ (s = None -> f_salt (rotate K st w s i) = f_salt st) /\
    (i = None -> f_info (rotate K st w s i) = f_info st).
  Proof. repeat split; intros; subst; reflexivity. Qed.

  (* ---------- interleavings ---------- *)
  Definition rot_step (st : fstate) (a : action K) : fstate :=
    match a with ARot _ w s i => rotate K st w s i | _ => st end.
  Definition fstate_after (st : fstate) (sched : list (action K)) : fstate := fold_left rot_step sched st.

  Lemma crun_app : forall s1 s2 cs,
    crun cs (s1 ++ s2) = (fst (crun (fst (crun cs s1)) s2), snd (crun cs s1) ++ snd (crun (fst (crun cs s1)) s2)).
  Proof.
    induction s1 as [|a r IH]; intros s2 cs; cbn [app Crypto.crun].
    - cbn [fst snd app]. destruct (crun cs s2); reflexivity.
    - destruct (cstep cs a) as [cs1 out]. rewrite (IH s2 cs1). destruct (crun cs1 r) as [cs2 outs]. reflexivity.
  Qed.

  Lemma crun_length : forall sched cs, List.length (snd (crun cs sched)) = List.length sched.
  Proof.
    induction sched as [|a r IH]; intros cs; [reflexivity|]. cbn [Crypto.crun]. destruct (cstep cs a) as [cs1 out].
    specialize (IH cs1). destruct (crun cs1 r). cbn [snd List.length] in *. rewrite IH. reflexivity.
  Qed.

  (* the filter state at any point of a schedule is the fold of the rotations scheduled before it *)
  Lemma crun_fstate : forall sched cs, cs_f (fst (crun cs sched)) = fstate_after (cs_f cs) sched.
  Proof.
    induction sched as [|a r IH]; intros cs; [reflexivity|]. cbn [Crypto.crun]. destruct (cstep cs a) as [cs1 out] eqn:Ec.
    specialize (IH cs1). destruct (crun cs1 r) as [cs2 outs]. cbn [fst] in *. rewrite IH. unfold fstate_after. cbn [fold_left]. f_equal.
    destruct a; cbn in Ec; injection Ec as <- _; reflexivity.
  Qed.

  (* value_atomic: under ANY interleaving of rotations, event starts and per-value steps, the value produced by a step of
     an event is the value under the options that event fixed when it started and the filter state reached by exactly
     the rotations scheduled before this step *)
  Theorem value_atomic cs pre tid c m post eo :
    lookup tid (cs_thr (fst (crun cs pre))) = Some eo ->
    nth_error (snd (crun cs (pre ++ AVal K tid c m :: post))) (List.length pre)
      = Some (match eo with Some o => value_out (fstate_after (cs_f cs) pre) o c m | None => None end).
  Proof.
    intros Hl. rewrite crun_app. cbn [snd]. rewrite nth_error_app2 by (rewrite crun_length; lia).
    rewrite crun_length, Nat.sub_diag. cbn [Crypto.crun Crypto.cstep]. rewrite Hl, crun_fstate.
    destruct (crun (fst (crun cs pre)) post). destruct eo as [o|]; reflexivity.
  Qed.

  (* ... hence, for an event without per-event wrapper info, wrapper, salt and info all come from ONE filter state: the
     triple before or after each concurrent rotation, never a mixture *)
  Corollary value_atomic_plain cs pre tid c m post :
    lookup tid (cs_thr (fst (crun cs pre))) = Some (Some (no_opts K)) ->
    nth_error (snd (crun cs (pre ++ AVal K tid c m :: post))) (List.length pre)
      = Some (match key_in_force (fstate_after (cs_f cs) pre) None with Some t => Some (value_under t c m) | None => None end).
  Proof.
    intros Hl. rewrite (value_atomic cs pre tid c m post _ Hl). f_equal.
    unfold Crypto.value_out, Crypto.key_in_force, sel_wrap, sel_salt, sel_info. cbn [no_opts o_wrap o_salt o_info orelse].
    destruct (f_wrap (fstate_after (cs_f cs) pre)); [|reflexivity]. destruct c; reflexivity.
  Qed.

  (* ... and an event WITH per-event wrapper info fixes its whole triple at the head of Process: wrapper derived from the
     filter's wrapper of that moment, salt / info its own or else the filter's of that moment *)
  Lemma event_opts_fixed st e o :
    event_opts st (Some e) = Some o ->
    exists t, key_in_force st (Some e) = Some t /\ forall st' c m, value_out st' o c m = Some (value_under t c m).
  Proof.
    destruct e as [[id s] i]. unfold Crypto.event_opts, Crypto.key_in_force. destruct (f_wrap st) as [w|]; [|discriminate].
    destruct id as [|b r]; [discriminate|]. intros H. injection H as <-. eexists. split; [reflexivity|].
    intros st' c m. unfold Crypto.value_out, sel_wrap, sel_salt, sel_info. cbn [o_wrap o_salt o_info orelse nonnil]. destruct c; reflexivity.
  Qed.

  Definition not_start (tid : N) (a : action K) : Prop := match a with AStart _ t _ => t <> tid | _ => True end.

  Lemma lookup_stable tid : forall sched cs, Forall (not_start tid) sched ->
    lookup tid (cs_thr (fst (crun cs sched))) = lookup tid (cs_thr cs).
  Proof.
    induction sched as [|a r IH]; intros cs H; [reflexivity|]. inversion H as [|? ? Ha Hr]; subst.
    cbn [Crypto.crun]. destruct (cstep cs a) as [cs1 out] eqn:Ec. specialize (IH cs1 Hr). destruct (crun cs1 r) as [cs2 outs]. cbn [fst] in *.
    rewrite IH. destruct a as [w s i|t ewi|t c m]; cbn in Ec; injection Ec as <- _; try reflexivity.
    cbn [cs_thr Crypto.lookup]. cbn [not_start] in Ha. destruct (N.eqb tid t) eqn:E; [apply N.eqb_eq in E; congruence|reflexivity].
  Qed.

  (* value_atomic for events with per-event wrapper info, over all schedules: whatever is rotated between the head of
     Process and a value, and whatever other events do, the value is produced under the key in force when the event started *)
  Theorem value_atomic_event cs pre1 tid e pre2 c m post :
    Forall (not_start tid) pre2 ->
    nth_error (snd (crun cs (pre1 ++ AStart K tid (Some e) :: pre2 ++ AVal K tid c m :: post))) (List.length pre1 + 1 + List.length pre2)
      = Some (match key_in_force (fstate_after (cs_f cs) pre1) (Some e) with Some t => Some (value_under t c m) | None => None end).
  Proof.
    intros Hns.
    replace (pre1 ++ AStart K tid (Some e) :: pre2 ++ AVal K tid c m :: post)
      with ((pre1 ++ AStart K tid (Some e) :: pre2) ++ AVal K tid c m :: post) by (rewrite <- app_assoc; reflexivity).
    replace (List.length pre1 + 1 + List.length pre2) with (List.length (pre1 ++ AStart K tid (Some e) :: pre2))
      by (rewrite app_length; cbn [List.length]; lia).
    assert (Hl : lookup tid (cs_thr (fst (crun cs (pre1 ++ AStart K tid (Some e) :: pre2))))
                 = Some (event_opts (fstate_after (cs_f cs) pre1) (Some e))).
    { rewrite crun_app. cbn [fst]. cbn [Crypto.crun Crypto.cstep].
      destruct (crun {| cs_f := cs_f (fst (crun cs pre1)); cs_thr := (tid, event_opts (cs_f (fst (crun cs pre1))) (Some e)) :: cs_thr (fst (crun cs pre1)) |} pre2) as [cs2 outs] eqn:Er.
      cbn [fst]. replace cs2 with (fst (crun {| cs_f := cs_f (fst (crun cs pre1)); cs_thr := (tid, event_opts (cs_f (fst (crun cs pre1))) (Some e)) :: cs_thr (fst (crun cs pre1)) |} pre2)) by (rewrite Er; reflexivity).
      rewrite (lookup_stable tid pre2 _ Hns). cbn [cs_thr Crypto.lookup]. rewrite N.eqb_refl, crun_fstate. reflexivity. }
    rewrite (value_atomic cs _ tid c m post _ Hl). f_equal.
    destruct (event_opts (fstate_after (cs_f cs) pre1) (Some e)) as [o|] eqn:Eo.
    - destruct (event_opts_fixed _ _ _ Eo) as [t [Hk Hv]]. rewrite Hk. apply Hv.
    - pose proof (opts_key_in_force (fstate_after (cs_f cs) pre1) (Some e)) as P. rewrite Eo in P.
      destruct (key_in_force (fstate_after (cs_f cs) pre1) (Some e)); [contradiction|reflexivity].
  Qed.

  (* ---------- one event rotated part way through (from its own Tags() callback, or by any rotation scheduled there) ----------
     schedule: the head of Process, the values [pre], ONE rotation, the values [post] of the same event.  Every value is the one
     selected under the options the event fixed at its start; [pre] in the filter state the event started in, [post] in the
     rotated state. *)
  Definition vals_of (tid : N) (vals : list (cop * bstr)) : list (action K) := map (fun v => AVal K tid (fst v) (snd v)) vals.

  Lemma crun_vals tid eo : forall vals cs, lookup tid (cs_thr cs) = Some eo ->
    crun cs (vals_of tid vals) = (cs, map (fun v => match eo with Some o => value_out (cs_f cs) o (fst v) (snd v) | None => None end) vals).
  Proof.
    induction vals as [|[c m] r IH]; intros cs Hl; [reflexivity|].
    cbn [vals_of map Crypto.crun Crypto.cstep fst snd]. rewrite Hl. fold (vals_of tid r). rewrite (IH cs Hl). destruct eo; reflexivity.
  Qed.

  Theorem callback_schedule st tid ewi pre w s i post :
    snd (crun {| cs_f := st; cs_thr := [] |} (AStart K tid ewi :: vals_of tid pre ++ ARot K w s i :: vals_of tid post)) =
      None :: map (fun v => match event_opts st ewi with Some o => value_out st o (fst v) (snd v) | None => None end) pre
      ++ None :: map (fun v => match event_opts st ewi with Some o => value_out (rotate K st w s i) o (fst v) (snd v) | None => None end) post.
  Proof.
    cbn [Crypto.crun Crypto.cstep cs_f cs_thr].
    set (cs1 := {| cs_f := st; cs_thr := [(tid, event_opts st ewi)] |}).
    assert (Hl : forall f, lookup tid (cs_thr {| cs_f := f; cs_thr := [(tid, event_opts st ewi)] |}) = Some (event_opts st ewi)).
    { intros f. cbn [cs_thr Crypto.lookup]. rewrite N.eqb_refl. reflexivity. }
    rewrite crun_app, (crun_vals tid _ pre cs1 (Hl st)). cbn [fst snd Crypto.crun Crypto.cstep cs_f cs_thr].
    subst cs1. cbn [cs_f cs_thr]. rewrite (crun_vals tid _ post _ (Hl (rotate K st w s i))). cbn [fst snd cs_f]. reflexivity.
  Qed.

  (* an event WITH wrapper info selects, in every later filter state, the key in force at its start *)
  Lemma started_event_triple st e o st' :
    event_opts st (Some e) = Some o ->
    match sel_wrap K st' o with Some w' => Some (w', sel_salt K st' o, sel_info K st' o) | None => None end = key_in_force st (Some e).
  Proof.
    destruct e as [[id s] i]. unfold Crypto.event_opts, Crypto.key_in_force. destruct (f_wrap st) as [w|]; [|discriminate].
    destruct id as [|b r]; [discriminate|]. intros H. injection H as <-. unfold sel_wrap, sel_salt, sel_info. cbn [o_wrap o_salt o_info orelse nonnil]. reflexivity.
  Qed.
  (* an event without selects the triple of the filter state the value is produced in *)
  Lemma plain_event_triple st' :
    match sel_wrap K st' (no_opts K) with Some w' => Some (w', sel_salt K st' (no_opts K), sel_info K st' (no_opts K)) | None => None end = key_in_force st' None.
  Proof. unfold sel_wrap, sel_salt, sel_info, Crypto.key_in_force. cbn [no_opts o_wrap o_salt o_info orelse]. destruct (f_wrap st'); reflexivity. Qed.
  (* and the value produced is the value under the selected triple *)
  Lemma selected_value st o c m :
    value_out st o c m = match sel_wrap K st o with Some w => Some (value_under (w, sel_salt K st o, sel_info K st o) c m) | None => None end.
  Proof. unfold Crypto.value_out, Crypto.value_under. destruct (sel_wrap K st o); [destruct c|]; reflexivity. Qed.
End CryptoProofs.

(* ---------- a concrete instance: non-vacuity, and the one mixture the interleaving model allows ---------- *)
Close Scope nat_scope.
Open Scope N_scope.
Definition tK := N.
Definition t_enc (k : tK) (rnd m : bstr) : bstr := (k mod 256)%N :: rnd ++ m.
Definition t_dec (k : tK) (blob : bstr) : option bstr :=
  match blob with b :: r => if N.eqb b (k mod 256) then Some (skipn 2 r) else None | [] => None end.
Definition t_derive (k : tK) (id : bstr) : tK := (k * 1000 + fold_left N.add id 0%N)%N.
Definition t_hkdf (k : tK) (s i : bstr) : bstr := (k mod 256)%N :: s ++ 0%N :: i.
Definition t_hmac (key data : bstr) : bstr := key ++ data.

Definition st0 : fstate tK := {| f_wrap := Some 1%N; f_salt := Some [7]%N; f_info := None |}.
Definition hist : list (op tK) :=
  [OEvent tK None [(CEnc [9; 9]%N, [0; 255; 128]%N); (CHmac, []%N)];
   ORotate tK (Some 2%N) None (Some [5]%N);
   OEvent tK (Some ([3]%N, None, Some [4]%N)) [(CHmac, [1]%N)];
   ORotPayload tK None (Some [8]%N) None;
   OEvent tK None [(CHmac, [1]%N)];
   OEvent tK (Some ([]%N, None, None)) [(CHmac, [1]%N)]].

Example hist_outcomes :
  snd (run tK t_enc t_derive t_hkdf t_hmac st0 hist) =
    [OutValues [frame_enc (t_enc 1 [9; 9] [0; 255; 128])%N; frame_hmac (t_hmac (t_hkdf 1 [7] []) [])%N];
     OutNone;
     OutValues [frame_hmac (t_hmac (t_hkdf (t_derive 2 [3]) [7] [4]) [1])%N];
     OutConsumed;
     OutValues [frame_hmac (t_hmac (t_hkdf 2 [8] [5]) [1])%N];
     OutErr].
Proof. vm_compute. reflexivity. Qed.

Example roundtrip_instance :
  decrypt_value tK t_dec 1%N (frame_enc (t_enc 1 [9; 9] [0; 255; 128])%N) = Some [0; 255; 128]%N.
Proof. vm_compute. reflexivity. Qed.

(* The schedule that used to mix (old derived wrapper, new salt) — an event with per-event wrapper info and no salt of its own,
   a rotation of wrapper and salt between its start and its value — now gives the value under the key in force at its start
   (the as-was model and its refutation are kept in notes/redgreen/C16_event_fallback_as_was.v). *)
Example ewi_fallback_fixed :
  nth_error (snd (crun tK t_enc t_derive t_hkdf t_hmac {| cs_f := st0; cs_thr := [] |}
                    [AStart tK 1%N (Some ([3]%N, None, None)); ARot tK (Some 2%N) (Some [8]%N) None; AVal tK 1%N CHmac [1]%N])) 2%nat
    = Some (Some (value_under tK t_enc t_hkdf t_hmac (t_derive 1 [3]%N, [7]%N, []%N) CHmac [1]%N)) /\
  key_in_force tK t_derive st0 (Some ([3]%N, None, None)) = Some (t_derive 1 [3]%N, [7]%N, []%N).
Proof. split; vm_compute; reflexivity. Qed.
