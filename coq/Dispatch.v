(* Dispatch.v — model of one Broker.Send: graph.process / graph.doProcess (graph.go), Status.getError (broker.go).
   The dispatch protocol is a labelled transition system whose atomic steps are the channel, wait-group, context
   and node-call operations of the code, at the granularity of the verif hook points:

     range goroutine : root.start (wg.Add(1); doProcess(root) runs ON this goroutine), wg.wait, chan.close
     doProcess       : node.call, node.ret, send.delivered | send.aborted, (spawn child), task.exit (then wg.Done)
     collector       : collector.ctxdone | collector.recv(closed), return (reads ctx.Err())
     environment     : cancel, and what a node returns ([beh], an arbitrary oracle)

   One [task] is one invocation of doProcess.  Ghost fields ([tall], [tcalls], [clog], [skipped]) record what was
   called; they influence no step.  This file only defines; proofs are in DispatchProofs.v. *)
From Coq Require Import List Bool Arith NArith ZArith.
From Verif Require Import Alist Broker.
Import ListNotations.

(* what Process returned: a non-nil event (identity [e]), nil event and nil error, an error (identity [err]) *)
Inductive outcome := OPass (e : N) | ODrop | OErr (err : N).
(* a linked node: its id, the identity of the registered Node object, and whether Type() = NodeTypeSink *)
Record node := { nid : N; nobj : N; nsink : bool }.

(* the Status a traversal hands to the collector *)
Inductive msg := MWarn (err : N) | MComplete (n : N) (sink : bool).
(* how an invocation of doProcess ended its body *)
Inductive fin := FSent (m : msg) | FAborted | FSpawned.
Inductive stage :=
| SNew                (* goroutine exists, Process not yet called *)
| SRun                (* inside node.Process *)
| SSend (m : msg)     (* at the status select *)
| SFin (f : fin)      (* body finished, deferred wg.Done not yet run *)
| SDone (f : fin).    (* returned *)

Definition call := (node * N)%type.      (* (linked node, identity of the event passed to Process) *)
Record task := {
  tpipe : N; tpos : N;            (* pipeline id, index of this node in the pipeline *)
  tnodes : list node;             (* this node and its successors *)
  tev : N;                        (* the event this invocation was given *)
  tstage : stage;
  troot : bool;                   (* runs on the range goroutine (first node of a pipeline) *)
  tall : list node;               (* ghost: the whole pipeline *)
  tcalls : list call;             (* ghost: Process calls of this traversal up to and including this invocation *)
}.

Definition root := (N * list node)%type.   (* (pipeline id, linked nodes) *)
Inductive ranger := RRange (rem : list root) | RInRoot (rem : list root) | RWait | RClosed.
Inductive collector := CCollect (acc : list msg) | CExit (acc : list msg) | CRet.

Record st := {
  ctx : bool;                              (* the context is done *)
  coll : collector;
  result : option (list msg * bool);       (* what process returned: merged statuses, ctx.Err() <> nil *)
  rng : ranger;                            (* RClosed = the status channel is closed *)
  tasks : list task;
  wg : nat;
  clog : list call;                        (* ghost: every Process call made, in order *)
  skipped : list root;                     (* ghost: roots the Range loop never started *)
}.

Fixpoint upd_nth {A} (n : nat) (x : A) (l : list A) : list A :=
  match l, n with
  | [], _ => []
  | _ :: t, O => x :: t
  | y :: t, S k => y :: upd_nth k x t
  end.
Fixpoint del_nth {A} (n : nat) (l : list A) : list A :=
  match l, n with
  | [], _ => []
  | _ :: t, O => t
  | y :: t, S k => y :: del_nth k t
  end.

Definition resume (r : ranger) : ranger := match r with RInRoot rest => RRange rest | r => r end.
Definition with_stage (t : task) (sg : stage) : task :=
  {| tpipe := tpipe t; tpos := tpos t; tnodes := tnodes t; tev := tev t; tstage := sg; troot := troot t;
     tall := tall t; tcalls := tcalls t |}.
Definition opt_list {A} (o : option A) : list A := match o with Some x => [x] | None => [] end.

Section Dispatch.
  (* environment: what the node at position [pos] of pipeline [pipe] returns when given event [e] *)
  Variable beh : N -> N -> N -> outcome.
  (* identity of the Event the first node of pipeline [p] is given (the code hands the same Event to every pipeline;
     the properties do not depend on that, so the model does not either) *)
  Variable e0 : N -> N.

  Definition new_root (p : N) (ns : list node) : task :=
    {| tpipe := p; tpos := 0%N; tnodes := ns; tev := e0 p; tstage := SNew; troot := true; tall := ns; tcalls := [] |}.

  Definition called (t : task) (n : node) : task :=
    {| tpipe := tpipe t; tpos := tpos t; tnodes := tnodes t; tev := tev t; tstage := SRun; troot := troot t;
       tall := tall t; tcalls := tcalls t ++ [(n, tev t)] |}.

  Definition child_of (t : task) (rest : list node) (e' : N) : task :=
    {| tpipe := tpipe t; tpos := N.succ (tpos t); tnodes := rest; tev := e'; tstage := SNew; troot := false;
       tall := tall t; tcalls := tcalls t |}.

  (* doProcess after node.Process returned: the invocation's next stage and the child goroutine it starts, if any *)
  Definition node_return (t : task) (n : node) (rest : list node) : task * option task :=
    match beh (tpipe t) (tpos t) (tev t) with
    | OErr e => (with_stage t (SSend (MWarn e)), None)
    | ODrop => (with_stage t (SSend (MComplete (nid n) (nsink n))), None)
    | OPass e' =>
        match rest with
        | [] => (with_stage t (SSend (MComplete (nid n) (nsink n))), None)
        | _ => (with_stage t (SFin FSpawned), Some (child_of t rest e'))
        end
    end.

  Definition set_tasks (s : st) (ts : list task) : st :=
    {| ctx := ctx s; coll := coll s; result := result s; rng := rng s; tasks := ts; wg := wg s; clog := clog s; skipped := skipped s |}.

  Inductive step : st -> st -> Prop :=
  | StCancel s : ctx s = false ->
      step s {| ctx := true; coll := coll s; result := result s; rng := rng s; tasks := tasks s; wg := wg s; clog := clog s; skipped := skipped s |}
  (* Range callback: wg.Add(1); doProcess(root).  The ctx check that precedes it is not atomic with the start, so
     the model does not require the context to be live here (a superset of the code's behaviours). *)
  | StStart s rem j p ns : rng s = RRange rem -> nth_error rem j = Some (p, ns) ->
      step s {| ctx := ctx s; coll := coll s; result := result s; rng := RInRoot (del_nth j rem);
                tasks := tasks s ++ [new_root p ns]; wg := S (wg s); clog := clog s; skipped := skipped s |}
  (* Range is over (all roots visited) or was stopped because the context is done; next is wg.Wait *)
  | StWait s rem : rng s = RRange rem -> (rem = [] \/ ctx s = true) ->
      step s {| ctx := ctx s; coll := coll s; result := result s; rng := RWait; tasks := tasks s; wg := wg s;
                clog := clog s; skipped := rem |}
  | StCall s i t n rest : nth_error (tasks s) i = Some t -> tstage t = SNew -> tnodes t = n :: rest ->
      step s {| ctx := ctx s; coll := coll s; result := result s; rng := rng s;
                tasks := upd_nth i (called t n) (tasks s); wg := wg s; clog := clog s ++ [(n, tev t)]; skipped := skipped s |}
  | StRet s i t n rest : nth_error (tasks s) i = Some t -> tstage t = SRun -> tnodes t = n :: rest ->
      step s {| ctx := ctx s; coll := coll s; result := result s; rng := rng s;
                tasks := upd_nth i (fst (node_return t n rest)) (tasks s) ++ opt_list (snd (node_return t n rest));
                wg := length (opt_list (snd (node_return t n rest))) + wg s; clog := clog s; skipped := skipped s |}
  | StHandoff s i t m acc : nth_error (tasks s) i = Some t -> tstage t = SSend m -> coll s = CCollect acc ->
      step s {| ctx := ctx s; coll := CCollect (acc ++ [m]); result := result s; rng := rng s;
                tasks := upd_nth i (with_stage t (SFin (FSent m))) (tasks s); wg := wg s; clog := clog s; skipped := skipped s |}
  | StAbort s i t m : nth_error (tasks s) i = Some t -> tstage t = SSend m -> ctx s = true ->
      step s {| ctx := ctx s; coll := coll s; result := result s; rng := rng s;
                tasks := upd_nth i (with_stage t (SFin FAborted)) (tasks s); wg := wg s; clog := clog s; skipped := skipped s |}
  (* doProcess returns: deferred wg.Done; if it ran on the range goroutine, Range continues *)
  | StExit s i t f : nth_error (tasks s) i = Some t -> tstage t = SFin f ->
      step s {| ctx := ctx s; coll := coll s; result := result s;
                rng := if troot t then resume (rng s) else rng s;
                tasks := upd_nth i (with_stage t (SDone f)) (tasks s); wg := pred (wg s); clog := clog s; skipped := skipped s |}
  | StClose s : rng s = RWait -> wg s = 0 ->
      step s {| ctx := ctx s; coll := coll s; result := result s; rng := RClosed; tasks := tasks s; wg := wg s;
                clog := clog s; skipped := skipped s |}
  | StCollCancel s acc : coll s = CCollect acc -> ctx s = true ->
      step s {| ctx := ctx s; coll := CExit acc; result := result s; rng := rng s; tasks := tasks s; wg := wg s;
                clog := clog s; skipped := skipped s |}
  | StCollClosed s acc : coll s = CCollect acc -> rng s = RClosed ->
      step s {| ctx := ctx s; coll := CExit acc; result := result s; rng := rng s; tasks := tasks s; wg := wg s;
                clog := clog s; skipped := skipped s |}
  (* return status, status.getError(ctx.Err(), ...) *)
  | StReturn s acc : coll s = CExit acc ->
      step s {| ctx := ctx s; coll := CRet; result := Some (acc, ctx s); rng := rng s; tasks := tasks s; wg := wg s;
                clog := clog s; skipped := skipped s |}.

  Definition init (roots : list root) (cancelled : bool) : st :=
    {| ctx := cancelled; coll := CCollect []; result := None; rng := RRange roots; tasks := []; wg := 0; clog := []; skipped := [] |}.

  Inductive reach (roots : list root) (c0 : bool) : st -> Prop :=
  | ReachInit : reach roots c0 (init roots c0)
  | ReachStep s s' : reach roots c0 s -> step s s' -> reach roots c0 s'.

  Inductive steps : nat -> st -> st -> Prop :=
  | Steps0 s : steps 0 s s
  | StepsS n s s' s'' : step s s' -> steps n s' s'' -> steps (S n) s s''.

  Definition terminal (s : st) : Prop := coll s = CRet /\ rng s = RClosed.

  (* ---------- the same transitions as a function of a label (used by the trace acceptor) ---------- *)
  Inductive label :=
  | LCancel | LStart (j : nat) | LWait | LCall (i : nat) | LRet (i : nat) | LHandoff (i : nat) | LAbort (i : nat)
  | LExit (i : nat) | LClose | LCollCancel | LCollClosed | LReturn.

  Definition exec (l : label) (s : st) : option st :=
    match l with
    | LCancel => if ctx s then None else
        Some {| ctx := true; coll := coll s; result := result s; rng := rng s; tasks := tasks s; wg := wg s; clog := clog s; skipped := skipped s |}
    | LStart j =>
        match rng s with
        | RRange rem =>
            match nth_error rem j with
            | Some (p, ns) =>
                Some {| ctx := ctx s; coll := coll s; result := result s; rng := RInRoot (del_nth j rem);
                        tasks := tasks s ++ [new_root p ns]; wg := S (wg s); clog := clog s; skipped := skipped s |}
            | None => None
            end
        | _ => None
        end
    | LWait =>
        match rng s with
        | RRange rem =>
            if match rem with [] => true | _ => ctx s end then
              Some {| ctx := ctx s; coll := coll s; result := result s; rng := RWait; tasks := tasks s; wg := wg s;
                      clog := clog s; skipped := rem |}
            else None
        | _ => None
        end
    | LCall i =>
        match nth_error (tasks s) i with
        | Some t =>
            match tstage t, tnodes t with
            | SNew, n :: _ =>
                Some {| ctx := ctx s; coll := coll s; result := result s; rng := rng s;
                        tasks := upd_nth i (called t n) (tasks s); wg := wg s; clog := clog s ++ [(n, tev t)]; skipped := skipped s |}
            | _, _ => None
            end
        | None => None
        end
    | LRet i =>
        match nth_error (tasks s) i with
        | Some t =>
            match tstage t, tnodes t with
            | SRun, n :: rest =>
                Some {| ctx := ctx s; coll := coll s; result := result s; rng := rng s;
                        tasks := upd_nth i (fst (node_return t n rest)) (tasks s) ++ opt_list (snd (node_return t n rest));
                        wg := length (opt_list (snd (node_return t n rest))) + wg s; clog := clog s; skipped := skipped s |}
            | _, _ => None
            end
        | None => None
        end
    | LHandoff i =>
        match nth_error (tasks s) i, coll s with
        | Some t, CCollect acc =>
            match tstage t with
            | SSend m =>
                Some {| ctx := ctx s; coll := CCollect (acc ++ [m]); result := result s; rng := rng s;
                        tasks := upd_nth i (with_stage t (SFin (FSent m))) (tasks s); wg := wg s; clog := clog s; skipped := skipped s |}
            | _ => None
            end
        | _, _ => None
        end
    | LAbort i =>
        match nth_error (tasks s) i with
        | Some t =>
            match tstage t with
            | SSend m =>
                if ctx s then
                  Some {| ctx := ctx s; coll := coll s; result := result s; rng := rng s;
                          tasks := upd_nth i (with_stage t (SFin FAborted)) (tasks s); wg := wg s; clog := clog s; skipped := skipped s |}
                else None
            | _ => None
            end
        | None => None
        end
    | LExit i =>
        match nth_error (tasks s) i with
        | Some t =>
            match tstage t with
            | SFin f =>
                Some {| ctx := ctx s; coll := coll s; result := result s;
                        rng := if troot t then resume (rng s) else rng s;
                        tasks := upd_nth i (with_stage t (SDone f)) (tasks s); wg := pred (wg s); clog := clog s; skipped := skipped s |}
            | _ => None
            end
        | None => None
        end
    | LClose =>
        match rng s, wg s with
        | RWait, O => Some {| ctx := ctx s; coll := coll s; result := result s; rng := RClosed; tasks := tasks s; wg := wg s;
                              clog := clog s; skipped := skipped s |}
        | _, _ => None
        end
    | LCollCancel =>
        match coll s with
        | CCollect acc => if ctx s then
            Some {| ctx := ctx s; coll := CExit acc; result := result s; rng := rng s; tasks := tasks s; wg := wg s;
                    clog := clog s; skipped := skipped s |} else None
        | _ => None
        end
    | LCollClosed =>
        match coll s, rng s with
        | CCollect acc, RClosed =>
            Some {| ctx := ctx s; coll := CExit acc; result := result s; rng := rng s; tasks := tasks s; wg := wg s;
                    clog := clog s; skipped := skipped s |}
        | _, _ => None
        end
    | LReturn =>
        match coll s with
        | CExit acc => Some {| ctx := ctx s; coll := CRet; result := Some (acc, ctx s); rng := rng s; tasks := tasks s; wg := wg s;
                               clog := clog s; skipped := skipped s |}
        | _ => None
        end
    end.

  (* ---------- the sequential meaning of one pipeline traversal ---------- *)
  (* the Process calls made and the status the traversal ends with, for pipeline [p] from position [k] on *)
  Fixpoint traverse (p k : N) (ns : list node) (e : N) : list call * option msg :=
    match ns with
    | [] => ([], None)
    | n :: rest =>
        match beh p k e with
        | OErr x => ([(n, e)], Some (MWarn x))
        | ODrop => ([(n, e)], Some (MComplete (nid n) (nsink n)))
        | OPass e' =>
            match rest with
            | [] => ([(n, e)], Some (MComplete (nid n) (nsink n)))
            | _ => let r := traverse p (N.succ k) rest e' in ((n, e) :: fst r, snd r)
            end
        end
    end.
  Definition calls_of (r : root) : list call := fst (traverse (fst r) 0%N (snd r) (e0 (fst r))).
  Definition final_of (r : root) : list msg := opt_list (snd (traverse (fst r) 0%N (snd r) (e0 (fst r)))).
End Dispatch.

(* ---------- Status and getError ---------- *)
Definition completes (acc : list msg) : list N := flat_map (fun m => match m with MComplete n _ => [n] | _ => [] end) acc.
Definition complete_sinks (acc : list msg) : list N := flat_map (fun m => match m with MComplete n true => [n] | _ => [] end) acc.
Definition warnings (acc : list msg) : list N := flat_map (fun m => match m with MWarn e => [e] | _ => [] end) acc.

Inductive errkind := ENotEnough | ENotEnoughSinks.
(* Status.getError(ctxErr, threshold, thresholdSinks): None = nil; Some (k, c) = errors.Join(k, ctxErr), c: ctxErr <> nil *)
Definition get_error (ctx_err : bool) (thr thr_sinks : Z) (acc : list msg) : option (errkind * bool) :=
  if Z.ltb (Z.of_nat (length (completes acc))) thr then Some (ENotEnough, ctx_err)
  else if Z.ltb (Z.of_nat (length (complete_sinks acc))) thr_sinks then Some (ENotEnoughSinks, ctx_err)
  else None.

(* ---------- tie to the registry model ---------- *)
Definition node_of (id : N) (ot : N * ntype) : node := {| nid := id; nobj := fst ot; nsink := is_sink (snd ot) |}.
Fixpoint zip_nodes (ids : list N) (objs : list (N * ntype)) : list node :=
  match ids, objs with
  | id :: ids', ot :: objs' => node_of id ot :: zip_nodes ids' objs'
  | _, _ => []
  end.
(* what Send finds for an event type: None = no graph; Some roots = the pipelines registered for the type *)
Definition roots_of_broker (b : broker) (ety : N) : option (list root) :=
  if memN ety (b_graphs b) then
    Some (map (fun ip => (fst ip, zip_nodes (p_ids (snd ip)) (p_objs (snd ip)))) (pipes_of b ety))
  else None.
Definition thresholds_of (b : broker) (ety : N) : Z * Z := thr_of b ety.
