(* DispatchAcceptProofs.v — the trace acceptor of Run_Dispatch.v is sound w.r.t. the step relation of Dispatch.v:
   whenever it accepts a recorded trace, the states it went through form an execution of the protocol model (so every
   theorem of DispatchProofs.v about reachable states applies to what was observed on the implementation). *)
From Coq Require Import List Bool Arith NArith ZArith Lia.
From Verif Require Import Alist Broker Dispatch DispatchProofs Run_Dispatch.
Import ListNotations.

Section Sound.
  Variable beh : N -> N -> N -> outcome.
  Variable e0 : N -> N.
  Variable want : option bool.
  Variable roots : list root.
  Variable c0 : bool.

  Notation reach := (reach beh e0 roots c0).

  Lemma ex_sound l a k a' : ex beh e0 l a k = inl a' -> reach (a_st a) -> reach (a_st a') /\ a_recv a' = a_recv a /\ a_pend a' = a_pend a.
  Proof.
    unfold ex. destruct (exec beh e0 l (a_st a)) as [s'|] eqn:E; [|discriminate].
    intros H Hr. inversion H; subst. cbn. split; [|auto]. eapply ReachStep; [exact Hr|]. eapply exec_sound; eauto.
  Qed.

  Lemma place_return_sound a a' : place_return beh e0 want a = inl a' -> reach (a_st a) -> reach (a_st a').
  Proof.
    unfold place_return. intros H Hr. destruct want as [w|].
    - destruct (Bool.eqb w (ctx (a_st a))).
      + apply ex_sound in H; tauto.
      + destruct w; [|discriminate]. inversion H; subst. exact Hr.
    - apply ex_sound in H; tauto.
  Qed.

  Lemma with_task_sound p k a bad f a' :
    with_task p k a bad f = inl a' -> exists i t, nth_error (tasks (a_st a)) i = Some t /\ f i t = inl a'.
  Proof.
    unfold with_task. destruct (find_task p k (tasks (a_st a))) as [i|]; [|discriminate].
    destruct (nth_error (tasks (a_st a)) i) as [t|] eqn:E; [|discriminate]. intros H. eauto.
  Qed.

  Lemma feed_sound a e a' : feed beh e0 want a e = inl a' -> reach (a_st a) -> reach (a_st a').
  Proof.
    intros H Hr. destruct e as [|p|p k obj ein|p k o|p k|p k|p k| | | | |cs sk ws|]; cbn [feed] in H.
    - destruct (ex beh e0 LCancel a KProto) as [a1|] eqn:E; [|discriminate].
      destruct (ex_sound _ _ _ _ E Hr) as [Hr1 _].
      destruct (a_pend a1); [|inversion H; subst; exact Hr1].
      apply ex_sound in H; [tauto|exact Hr1].
    - destruct (rng (a_st a)) as [rem| | |]; try discriminate. destruct (find_root p rem); [|discriminate].
      apply ex_sound in H; tauto.
    - apply with_task_sound in H as [i [t [_ H]]]. destruct (tnodes t) as [|n rest]; [discriminate|].
      destruct (negb (N.eqb (nobj n) obj)); [discriminate|]. destruct (negb (N.eqb (tev t) ein)); [discriminate|].
      apply ex_sound in H; tauto.
    - apply with_task_sound in H as [i [t [_ H]]]. destruct (outcome_eqb o (beh p k (tev t))); [|discriminate].
      destruct (tnodes t) as [|n rest]; [discriminate|]. apply ex_sound in H; [|exact Hr]. tauto.
    - apply with_task_sound in H as [i [t [_ H]]]. apply ex_sound in H; tauto.
    - apply with_task_sound in H as [i [t [_ H]]]. destruct (tstage t); try discriminate.
      destruct (ctx (a_st a)); [|discriminate]. apply ex_sound in H; tauto.
    - apply with_task_sound in H as [i [t [_ H]]]. apply ex_sound in H; tauto.
    - destruct (rng (a_st a)) as [[|r rem]| | |]; try (apply ex_sound in H; tauto).
      destruct (ctx (a_st a)); [|discriminate]. apply ex_sound in H; tauto.
    - apply ex_sound in H; tauto.
    - destruct (ex beh e0 LCollCancel a KProto) as [a1|] eqn:E; [|discriminate].
      destruct (ex_sound _ _ _ _ E Hr) as [Hr1 _]. eapply place_return_sound; eauto.
    - destruct (ex beh e0 LCollClosed a KProto) as [a1|] eqn:E; [|discriminate].
      destruct (ex_sound _ _ _ _ E Hr) as [Hr1 _]. eapply place_return_sound; eauto.
    - destruct (coll (a_st a)) as [acc| |]; try discriminate. destruct (nth_error acc (a_recv a)); [|discriminate].
      destruct (eq_obs _ _); [|discriminate]. inversion H; subst. exact Hr.
    - destruct (a_pend a); [discriminate|]. destruct (coll (a_st a)); try discriminate. inversion H; subst. exact Hr.
  Qed.

  (* accepts => the recorded trace is an execution of the model *)
  Theorem run_trace_sound tr : forall a i a', run_trace beh e0 want a i tr = (a', None) -> reach (a_st a) -> reach (a_st a').
  Proof.
    induction tr as [|e t IH]; intros a i a' H Hr; cbn [run_trace] in H.
    - inversion H; subst. exact Hr.
    - destruct (feed beh e0 want a e) as [a1|k] eqn:E; [|discriminate].
      eapply IH; [exact H|]. eapply feed_sound; eauto.
  Qed.

  Theorem accepted_trace_is_execution tr a :
    run_trace beh e0 want {| a_st := init roots c0; a_recv := 0; a_pend := false; a_rets := [] |} 0%N tr = (a, None) -> reach (a_st a).
  Proof. intros H. eapply run_trace_sound; [exact H|]. cbn. constructor. Qed.

  Lemma is_terminal_spec s : is_terminal s = true -> terminal s.
  Proof. unfold is_terminal, terminal. destruct (coll s); try discriminate. destruct (rng s); try discriminate. auto. Qed.

  (* consequently, for an accepted complete trace over well-formed roots everything proved about terminal reachable
     states holds of the observed run: no invocation is left, the wait group is balanced *)
  Corollary accepted_complete_no_goroutine tr a : roots_ok roots ->
    run_trace beh e0 want {| a_st := init roots c0; a_recv := 0; a_pend := false; a_rets := [] |} 0%N tr = (a, None) ->
    is_terminal (a_st a) = true ->
    wg (a_st a) = 0 /\ forall t, In t (tasks (a_st a)) -> exists f, tstage t = SDone f.
  Proof.
    intros Hok H Ht. apply terminal_no_goroutine; [|apply is_terminal_spec; exact Ht].
    eapply inv_reach; [exact Hok|]. eapply accepted_trace_is_execution; eauto.
  Qed.
End Sound.
