(* DispatchExamples.v — concrete executions showing that the hypotheses of the C01–C03 theorems are met by non-trivial
   states: a Send over three pipelines (shared nodes, a drop, an error, a replaced event) run to completion by a
   deterministic scheduler, and the same Send cancelled while statuses are pending. *)
From Coq Require Import List Bool Arith NArith ZArith Lia Permutation.
From Verif Require Import Alist Broker Dispatch DispatchProofs.
Import ListNotations.

Definition n_f1 := {| nid := 1; nobj := 1; nsink := false |}.
Definition n_f2 := {| nid := 2; nobj := 2; nsink := false |}.
Definition n_fm := {| nid := 3; nobj := 3; nsink := false |}.
Definition n_s := {| nid := 5; nobj := 5; nsink := true |}.
Definition ex_roots : list root := [(1%N, [n_f1; n_fm; n_s]); (2%N, [n_f2; n_fm; n_s]); (3%N, [n_fm; n_s])].
(* pipeline 1 passes everything (the formatter replaces the event), pipeline 2's filter drops, pipeline 3's sink fails *)
Definition ex_beh (p k e : N) : outcome :=
  match p, k with
  | 1, 1 => OPass 7 | 1, _ => OPass e
  | 2, 0 => ODrop | 2, _ => OPass e
  | 3, 1 => OErr 9 | _, _ => OPass e
  end%N.
Definition ex_e0 : N -> N := fun _ => 1%N.

Fixpoint first_enabled (ls : list label) (s : st) : option st :=
  match ls with
  | [] => None
  | l :: t => match exec ex_beh ex_e0 l s with Some s' => Some s' | None => first_enabled t s end
  end.
Definition cands (cancel_when : st -> bool) (s : st) : list label :=
  (if cancel_when s then [LCancel] else []) ++
  (if ctx s then [LCollCancel; LReturn; LWait] else []) ++   (* once cancelled: the collector leaves and the range loop stops first *)
  flat_map (fun i => [LCall i; LRet i; LHandoff i; LAbort i; LExit i]) (seq 0 (length (tasks s))) ++
  [LStart 0; LWait; LClose; LCollCancel; LCollClosed; LReturn].
Fixpoint drive (fuel : nat) (cw : st -> bool) (s : st) : st :=
  match fuel with
  | O => s
  | S f => match first_enabled (cands cw s) s with Some s' => drive f cw s' | None => s end
  end.

Lemma first_enabled_step ls s s' : first_enabled ls s = Some s' -> step ex_beh ex_e0 s s'.
Proof.
  induction ls as [|l t IH]; cbn; [discriminate|].
  destruct (exec ex_beh ex_e0 l s) eqn:E; [|exact IH]. intros H; inversion H; subst. eapply exec_sound; eauto.
Qed.
Lemma drive_reach roots c0 fuel cw : forall s, reach ex_beh ex_e0 roots c0 s -> reach ex_beh ex_e0 roots c0 (drive fuel cw s).
Proof.
  induction fuel as [|f IH]; intros s Hr; cbn [drive]; [exact Hr|].
  destruct (first_enabled (cands cw s) s) eqn:E; [|exact Hr]. apply IH. eapply ReachStep; [exact Hr|]. eapply first_enabled_step; eauto.
Qed.

Lemma ex_roots_ok : roots_ok ex_roots.
Proof. intros r [<-|[<-|[<-|[]]]]; discriminate. Qed.

(* ---- an uncancelled Send run to the end ---- *)
Definition ex_final : st := drive 200 (fun _ => false) (init ex_roots false).

Example ex_final_reach : reach ex_beh ex_e0 ex_roots false ex_final.
Proof. apply drive_reach. constructor. Qed.
Example ex_final_terminal : terminal ex_final /\ ctx ex_final = false.
Proof. vm_compute. auto. Qed.
Example ex_final_result :
  result ex_final = Some ([MComplete 5 true; MComplete 2 false; MWarn 9], false) /\ length (clog ex_final) = 6.
Proof. vm_compute. auto. Qed.

(* the hypotheses of the uncancelled theorems hold together for a state with three pipelines, six calls, three statuses *)
Example uncancelled_nonvacuous :
  roots_ok ex_roots /\ reach ex_beh ex_e0 ex_roots false ex_final /\ terminal ex_final /\ ctx ex_final = false /\
  length (collected ex_final) = 3 /\ length (tasks ex_final) = 6.
Proof.
  split; [exact ex_roots_ok|]. split; [exact ex_final_reach|]. split; [exact (proj1 ex_final_terminal)|].
  split; [exact (proj2 ex_final_terminal)|]. vm_compute. auto.
Qed.

(* ---- the same Send cancelled once two invocations exist: statuses are pending, nodes are mid-traversal ---- *)
Definition ex_mid : st := drive 40 (fun s => Nat.leb 2 (length (tasks s))) (init ex_roots false).
Example ex_mid_reach : reach ex_beh ex_e0 ex_roots false ex_mid.
Proof. apply drive_reach. constructor. Qed.

Definition ex_cancelled : st := drive 200 (fun s => Nat.leb 2 (length (tasks s))) (init ex_roots false).
Example cancelled_nonvacuous :
  reach ex_beh ex_e0 ex_roots false ex_cancelled /\ terminal ex_cancelled /\ ctx ex_cancelled = true /\
  skipped ex_cancelled <> [] /\ (exists t, In t (tasks ex_cancelled) /\ fin_of t = Some FAborted).
Proof.
  split; [apply drive_reach; constructor|]. split; [vm_compute; auto|]. split; [reflexivity|].
  split; [vm_compute; discriminate|]. vm_compute. eexists. split; [right; right; left; reflexivity|reflexivity].
Qed.

(* a reachable state in which the context is done while the collector is still collecting and a node is still running *)
Definition ex_pending : st :=
  match exec ex_beh ex_e0 LCancel (drive 2 (fun _ => false) (init ex_roots false)) with Some s => s | None => init ex_roots false end.
Example pending_nonvacuous :
  reach ex_beh ex_e0 ex_roots false ex_pending /\ coll ex_pending = CCollect [] /\ ctx ex_pending = true /\
  exists t, In t (tasks ex_pending) /\ tstage t = SRun.
Proof.
  split.
  - unfold ex_pending. destruct (exec ex_beh ex_e0 LCancel (drive 2 (fun _ => false) (init ex_roots false))) eqn:E; [|constructor].
    eapply ReachStep; [apply drive_reach; constructor|]. eapply exec_sound; eauto.
  - vm_compute. split; [reflexivity|]. split; [reflexivity|]. eexists. split; [left; reflexivity|reflexivity].
Qed.

(* ---- registry tie: a history whose Send dispatches to two pipelines of the type sent, not to the third ---- *)
Definition ex_hist : list op :=
  [RegisterNode 1 1 TFilter ANone; RegisterNode 3 3 TFormatter ANone; RegisterNode 5 5 TSink ANone;
   RegisterPipeline 1 1 [1; 3; 5] ANone; RegisterPipeline 2 1 [3; 5] ANone; RegisterPipeline 1 2 [3; 5] ANone;
   SetThr 1 2; SetThrSinks 1 1]%N%Z.
Example broker_tie_nonvacuous :
  roots_of_broker (Broker.run (fun _ => false) ex_hist) 1%N =
    Some [(1%N, [{| nid := 1; nobj := 1; nsink := false |}; {| nid := 3; nobj := 3; nsink := false |}; {| nid := 5; nobj := 5; nsink := true |}]);
          (2%N, [{| nid := 3; nobj := 3; nsink := false |}; {| nid := 5; nobj := 5; nsink := true |}])] /\
  thresholds_of (Broker.run (fun _ => false) ex_hist) 1%N = (2, 1)%Z.
Proof. vm_compute. auto. Qed.

Example get_error_nonvacuous :
  get_error true 2 1 [MComplete 5 true; MWarn 9] = Some (ENotEnough, true) /\
  get_error false 1 2 [MComplete 5 true; MWarn 9] = Some (ENotEnoughSinks, false) /\
  get_error true 1 1 [MComplete 5 true; MWarn 9] = None.
Proof. vm_compute. auto. Qed.
