(* DispatchProofs.v — proofs about the dispatch protocol of Dispatch.v, for any number of pipelines and nodes, any
   node behaviour and any schedule (= any finite sequence of enabled steps):
     C03: step_measure / executions_bounded, inv_reach, progress, can_terminate, collector_returns_on_cancel,
          terminal_no_goroutine, no_send_after_close, reaches_terminal
     C02: status_sound, status_never_invented, status_complete_uncancelled, get_error_*, threshold_*
     C01: traverse_*, calls_are_traversal, call_log_sound, send_traverses_exactly
   and exec_sound (the executable step function used by the trace acceptor only takes steps of the relation). *)
From Coq Require Import List Bool Arith NArith ZArith Lia Permutation.
From Verif Require Import Alist Broker BrokerProofs Dispatch.
Import ListNotations.

Ltac step_cases H :=
  destruct H as [s Hc|s rem j p ns Hr Hn|s rem Hr Hw|s i t n rest Hn Hs Ht|s i t n rest Hn Hs Ht|s i t m acc Hn Hs Hc
                |s i t m Hn Hs Hc|s i t f Hn Hs|s Hr Hw|s acc Hc Hx|s acc Hc Hr|s acc Hc].

(* ---------- list helpers ---------- *)
Lemma In_upd {A} (l : list A) i x y : In y (upd_nth i x l) -> y = x \/ In y l.
Proof.
  revert i; induction l as [|z l IH]; intros [|i]; cbn; intros H; auto.
  - destruct H as [<-|H]; auto.
  - destruct H as [<-|H]; auto. destruct (IH _ H); auto.
Qed.

Lemma nth_del_perm {A} (l : list A) j x : nth_error l j = Some x -> Permutation (x :: del_nth j l) l.
Proof.
  revert j; induction l as [|y l IH]; intros [|j] H; cbn in *; try discriminate.
  - inversion H; subst. apply Permutation_refl.
  - eapply Permutation_trans; [apply perm_swap|]. apply perm_skip. apply IH. exact H.
Qed.

Lemma In_del {A} (l : list A) j y : In y (del_nth j l) -> In y l.
Proof.
  revert j; induction l as [|z l IH]; intros [|j]; cbn; intros H; auto.
  destruct H as [<-|H]; auto. right. eapply IH; eauto.
Qed.

Section Proofs.
  Variable beh : N -> N -> N -> outcome.
  Variable e0 : N -> N.

  Notation step := (step beh e0).
  Notation reach := (reach beh e0).
  Notation steps := (steps beh e0).
  Notation node_return := (node_return beh).
  Notation traverse := (traverse beh).

  Lemma node_return_cases t n rest :
    (exists m, node_return t n rest = (with_stage t (SSend m), None)) \/
    (exists e', rest <> [] /\ node_return t n rest = (with_stage t (SFin FSpawned), Some (child_of t rest e'))).
  Proof.
    unfold Dispatch.node_return. destruct (beh (tpipe t) (tpos t) (tev t)) as [e'| |x].
    - destruct rest as [|n2 rest]; [left; eexists; reflexivity|]. right. exists e'. split; [discriminate|reflexivity].
    - left; eexists; reflexivity.
    - left; eexists; reflexivity.
  Qed.

  (* ---------- measure ---------- *)
  Definition tweight (t : task) : nat :=
    match tstage t with
    | SNew => 3 * length (tnodes t) + 1
    | SRun => 3 * length (tnodes t)
    | SSend _ => 2
    | SFin _ => 1
    | SDone _ => 0
    end.
  Definition sumw (l : list task) : nat := fold_right (fun t a => tweight t + a) 0 l.
  Definition rootsw (roots : list root) : nat := fold_right (fun r a => 3 * length (snd r) + 2 + a) 0 roots.
  Definition rweight (r : ranger) : nat :=
    match r with
    | RRange roots | RInRoot roots => rootsw roots + 2
    | RWait => 1
    | RClosed => 0
    end.
  Definition cweight (c : collector) : nat := match c with CCollect _ => 2 | CExit _ => 1 | CRet => 0 end.
  Definition bw (b : bool) : nat := if b then 0 else 1.
  Definition measure (s : st) : nat :=
    bw (ctx s) + cweight (coll s) + rweight (rng s) + sumw (tasks s).

  Lemma sumw_app l1 l2 : sumw (l1 ++ l2) = sumw l1 + sumw l2.
  Proof. induction l1 as [|t l1 IH]; cbn; [reflexivity|]. unfold sumw in *. cbn. rewrite IH. lia. Qed.

  Lemma sumw_upd l i t t' : nth_error l i = Some t -> sumw (upd_nth i t' l) + tweight t = sumw l + tweight t'.
  Proof.
    revert i; induction l as [|x l IH]; intros [|i] H; cbn in *; try discriminate.
    - inversion H; subst. unfold sumw; cbn. lia.
    - specialize (IH _ H). unfold sumw in *; cbn. lia.
  Qed.

  Lemma rootsw_cons r l : rootsw (r :: l) = 3 * length (snd r) + 2 + rootsw l.
  Proof. reflexivity. Qed.

  Lemma rootsw_del (rem : list root) j p ns : nth_error rem j = Some (p, ns) -> rootsw (del_nth j rem) + (3 * length ns + 2) = rootsw rem.
  Proof.
    revert j; induction rem as [|x l IH]; intros [|j] H; cbn [nth_error del_nth] in *; try discriminate.
    - inversion H; subst. rewrite rootsw_cons. cbn [snd]. lia.
    - specialize (IH _ H). rewrite !rootsw_cons. lia.
  Qed.

  Lemma rweight_resume r : rweight (resume r) = rweight r.
  Proof. destruct r; reflexivity. Qed.

  Theorem step_measure s s' : step s s' -> measure s' < measure s.
  Proof.
    intros H. step_cases H; unfold measure; cbn [ctx coll result rng tasks wg].
    - rewrite Hc. cbn [bw]. lia.
    - rewrite Hr. rewrite sumw_app. cbn [rweight]. pose proof (rootsw_del _ _ _ _ Hn) as Hd.
      cbn [sumw fold_right tweight new_root tstage tnodes]. lia.
    - rewrite Hr. cbn [rweight]. lia.
    - pose proof (sumw_upd _ _ _ (called t n) Hn) as Hu.
      assert (Hw1 : tweight (called t n) + 1 = tweight t) by (unfold tweight; cbn [called tstage tnodes]; rewrite Hs; lia).
      lia.
    - rewrite sumw_app.
      pose proof (sumw_upd _ _ _ (fst (node_return t n rest)) Hn) as Hu.
      assert (Hw : tweight (fst (node_return t n rest)) + sumw (opt_list (snd (node_return t n rest))) < tweight t).
      { destruct (node_return_cases t n rest) as [[m0 E]|[e' [Hne E]]]; rewrite E; cbn [fst snd opt_list sumw fold_right].
        - unfold tweight. cbn [with_stage tstage]. rewrite Hs, Ht. cbn [length]. lia.
        - unfold tweight. cbn [with_stage child_of tstage tnodes]. rewrite Hs, Ht. cbn [length]. lia. }
      lia.
    - pose proof (sumw_upd _ _ _ (with_stage t (SFin (FSent m))) Hn) as Hu.
      assert (Hw1 : tweight (with_stage t (SFin (FSent m))) = 1) by reflexivity.
      assert (Hw2 : tweight t = 2) by (unfold tweight; rewrite Hs; reflexivity).
      rewrite Hc. cbn [cweight]. lia.
    - pose proof (sumw_upd _ _ _ (with_stage t (SFin FAborted)) Hn) as Hu.
      assert (Hw1 : tweight (with_stage t (SFin FAborted)) = 1) by reflexivity.
      assert (Hw2 : tweight t = 2) by (unfold tweight; rewrite Hs; reflexivity).
      lia.
    - pose proof (sumw_upd _ _ _ (with_stage t (SDone f)) Hn) as Hu.
      assert (Hw1 : tweight (with_stage t (SDone f)) = 0) by reflexivity.
      assert (Hw2 : tweight t = 1) by (unfold tweight; rewrite Hs; reflexivity).
      assert (Hrw : rweight (if troot t then resume (rng s) else rng s) = rweight (rng s))
        by (destruct (troot t); [apply rweight_resume|reflexivity]).
      rewrite Hrw. lia.
    - rewrite Hr. cbn [rweight]. lia.
    - rewrite Hc. cbn [cweight]. lia.
    - rewrite Hc. cbn [cweight]. lia.
    - rewrite Hc. cbn [cweight]. lia.
  Qed.

  (* every execution is finite: it has at most [measure] steps *)
  Theorem executions_bounded n s s' : steps n s s' -> n + measure s' <= measure s.
  Proof.
    induction 1 as [|n s s' s'' H1 H2 IH]; [lia|].
    pose proof (step_measure _ _ H1). lia.
  Qed.

  (* ---------- invariants ---------- *)
  Definition live (t : task) : bool := match tstage t with SDone _ => false | _ => true end.
  Definition liveroot (t : task) : bool := live t && troot t.
  Definition b2n (b : bool) : nat := if b then 1 else 0.
  Fixpoint count (f : task -> bool) (l : list task) : nat :=
    match l with [] => 0 | t :: r => b2n (f t) + count f r end.

  Lemma count_app f l1 l2 : count f (l1 ++ l2) = count f l1 + count f l2.
  Proof. induction l1 as [|t l1 IH]; cbn; [reflexivity|]. rewrite IH. lia. Qed.

  Lemma count_upd f l i t t' : nth_error l i = Some t ->
    count f (upd_nth i t' l) + b2n (f t) = count f l + b2n (f t').
  Proof.
    revert i; induction l as [|x l IH]; intros [|i] H; cbn in *; try discriminate.
    - inversion H; subst. lia.
    - specialize (IH _ H). lia.
  Qed.

  Lemma count_zero f l : count f l = 0 -> forall t, In t l -> f t = false.
  Proof.
    induction l as [|x l IH]; cbn; intros Hc t Hin; [contradiction|].
    destruct Hin as [->|Hin].
    - destruct (f t); cbn in Hc; [lia|reflexivity].
    - apply IH; [lia|assumption].
  Qed.

  Lemma count_all_false f l : (forall t, In t l -> f t = false) -> count f l = 0.
  Proof.
    induction l as [|x l IH]; intros H; cbn; [reflexivity|].
    rewrite (H x (or_introl eq_refl)). rewrite IH; [reflexivity|]. intros t Ht. apply H. right. exact Ht.
  Qed.

  Definition roots_of (r : ranger) : list root := match r with RRange l | RInRoot l => l | _ => [] end.

  Record inv (s : st) : Prop := {
    inv_wg : wg s = count live (tasks s);
    inv_root : count liveroot (tasks s) = match rng s with RInRoot _ => 1 | _ => 0 end;
    inv_coll : match coll s with CCollect _ => True | _ => ctx s = true \/ (rng s = RClosed /\ count live (tasks s) = 0) end;
    inv_closed : rng s = RClosed -> count live (tasks s) = 0;
    inv_nodes : forall t, In t (tasks s) -> tnodes t <> [];
    inv_roots : forall r, In r (roots_of (rng s)) -> snd r <> [];
  }.

  Definition roots_ok (roots : list root) : Prop := forall r, In r roots -> snd r <> [].

  Lemma inv_init roots c0 : roots_ok roots -> inv (init roots c0).
  Proof. intros Hr. constructor; cbn; auto; try discriminate; try contradiction. Qed.

  Lemma resume_roots r x : In x (roots_of (resume r)) -> In x (roots_of r).
  Proof. destruct r; cbn; auto. Qed.

  (* a task that changes stage without finishing *)
  Lemma inv_restage s i t sg :
    inv s -> nth_error (tasks s) i = Some t -> live t = true -> live (with_stage t sg) = true ->
    forall c cl sk, (match c with CCollect _ => True | _ => match coll s with CCollect _ => ctx s = true | _ => True end end) ->
    inv {| ctx := ctx s; coll := c; result := result s; rng := rng s;
           tasks := upd_nth i (with_stage t sg) (tasks s); wg := wg s; clog := cl; skipped := sk |}.
  Proof.
    intros [Hwg Hroot Hcoll Hclosed Hnodes Hroots] Hn Hl Hl' c cl sk Hcc.
    pose proof (count_upd live _ _ _ (with_stage t sg) Hn) as Hcl. rewrite Hl, Hl' in Hcl.
    pose proof (count_upd liveroot _ _ _ (with_stage t sg) Hn) as Hcr.
    assert (E : liveroot (with_stage t sg) = liveroot t) by (unfold liveroot; rewrite Hl, Hl'; reflexivity).
    rewrite E in Hcr.
    constructor; cbn [ctx coll result rng tasks wg].
    - lia.
    - lia.
    - destruct c; auto; destruct (coll s); auto;
        destruct Hcoll as [?|[Hx Hz]]; auto; exfalso; pose proof (count_zero _ _ Hz t (nth_error_In _ _ Hn)); congruence.
    - intros Hx. exfalso. pose proof (count_zero _ _ (Hclosed Hx) t (nth_error_In _ _ Hn)). congruence.
    - intros t0 Hin. apply In_upd in Hin as [->|Hin]; auto. cbn. apply Hnodes. eapply nth_error_In; eauto.
    - exact Hroots.
  Qed.

  Theorem inv_step s s' : inv s -> step s s' -> inv s'.
  Proof.
    intros Hinv H. pose proof Hinv as [Hwg Hroot Hcoll Hclosed Hnodes Hroots]. step_cases H.
    - (* cancel *) constructor; cbn; auto. destruct (coll s); auto.
    - (* start *) constructor; cbn [ctx coll result rng tasks wg].
      + rewrite count_app. cbn. lia.
      + rewrite count_app. rewrite Hr in Hroot. cbn. lia.
      + destruct (coll s); auto; (destruct Hcoll as [?|[Hx _]]; auto; rewrite Hr in Hx; discriminate).
      + discriminate.
      + intros t Hin. apply in_app_or in Hin as [Hin|[<-|[]]]; auto. cbn.
        apply (Hroots (p, ns)). rewrite Hr. cbn. eapply nth_error_In; eauto.
      + intros r Hin. apply Hroots. rewrite Hr. cbn in *. eapply In_del; eauto.
    - (* wait *) constructor; cbn [ctx coll result rng tasks wg].
      + exact Hwg.
      + rewrite Hr in Hroot. exact Hroot.
      + destruct (coll s); auto; (destruct Hcoll as [?|[Hx _]]; auto; rewrite Hr in Hx; discriminate).
      + discriminate.
      + exact Hnodes.
      + intros r [].
    - (* call *)
      assert (Hl : live t = true) by (unfold live; rewrite Hs; reflexivity).
      pose proof (count_upd live _ _ _ (called t n) Hn) as Hcl. rewrite Hl in Hcl.
      assert (Hl' : live (called t n) = true) by reflexivity. rewrite Hl' in Hcl.
      pose proof (count_upd liveroot _ _ _ (called t n) Hn) as Hcr.
      assert (E2 : liveroot (called t n) = liveroot t) by (unfold liveroot; rewrite Hl, Hl'; reflexivity).
      rewrite E2 in Hcr.
      constructor; cbn [ctx coll result rng tasks wg].
      + lia.
      + lia.
      + destruct (coll s); auto; destruct Hcoll as [?|[Hx Hz]]; auto; exfalso;
          pose proof (count_zero _ _ Hz t (nth_error_In _ _ Hn)); congruence.
      + intros Hx. exfalso. pose proof (count_zero _ _ (Hclosed Hx) t (nth_error_In _ _ Hn)). congruence.
      + intros t0 Hin. apply In_upd in Hin as [->|Hin]; auto. cbn. apply Hnodes. eapply nth_error_In; eauto.
      + exact Hroots.
    - (* node returned *)
      assert (Hl : live t = true) by (unfold live; rewrite Hs; reflexivity).
      destruct (node_return_cases t n rest) as [[m0 E]|[e' [Hne E]]]; rewrite E; cbn [fst snd opt_list length].
      + rewrite app_nil_r. cbn [plus]. apply inv_restage; auto. destruct (coll s); auto.
      + pose proof (count_upd live _ _ _ (with_stage t (SFin FSpawned)) Hn) as Hcl. rewrite Hl in Hcl.
        assert (Hl' : live (with_stage t (SFin FSpawned)) = true) by reflexivity. rewrite Hl' in Hcl.
        pose proof (count_upd liveroot _ _ _ (with_stage t (SFin FSpawned)) Hn) as Hcr.
        assert (E2 : liveroot (with_stage t (SFin FSpawned)) = liveroot t) by (unfold liveroot; rewrite Hl, Hl'; reflexivity).
        rewrite E2 in Hcr.
        constructor; cbn [ctx coll result rng tasks wg].
        * rewrite count_app. cbn. lia.
        * rewrite count_app. cbn. lia.
        * destruct (coll s); auto; destruct Hcoll as [?|[Hx Hz]]; auto; exfalso;
            pose proof (count_zero _ _ Hz t (nth_error_In _ _ Hn)); congruence.
        * intros Hx. exfalso. pose proof (count_zero _ _ (Hclosed Hx) t (nth_error_In _ _ Hn)). congruence.
        * intros t0 Hin. apply in_app_or in Hin as [Hin|[<-|[]]].
          -- apply In_upd in Hin as [->|Hin]; auto. cbn. apply Hnodes. eapply nth_error_In; eauto.
          -- cbn. exact Hne.
        * exact Hroots.
    - (* handoff *)
      assert (Hl : live t = true) by (unfold live; rewrite Hs; reflexivity).
      apply (inv_restage s i t (SFin (FSent m)) Hinv Hn Hl eq_refl (CCollect (acc ++ [m])) (clog s) (skipped s)). exact I.
    - (* abort *)
      assert (Hl : live t = true) by (unfold live; rewrite Hs; reflexivity).
      apply (inv_restage s i t (SFin FAborted) Hinv Hn Hl eq_refl (coll s) (clog s) (skipped s)). destruct (coll s); auto.
    - (* exit *)
      assert (Hl : live t = true) by (unfold live; rewrite Hs; reflexivity).
      set (t' := with_stage t (SDone f)).
      pose proof (count_upd live _ _ _ t' Hn) as Hcl. rewrite Hl in Hcl.
      assert (E0 : live t' = false) by reflexivity. rewrite E0 in Hcl. cbn [b2n] in Hcl.
      pose proof (count_upd liveroot _ _ _ t' Hn) as Hcr.
      assert (E1 : liveroot t = troot t) by (unfold liveroot; rewrite Hl; reflexivity).
      assert (E2 : liveroot t' = false) by reflexivity.
      rewrite E1, E2 in Hcr. cbn [b2n] in Hcr.
      constructor; cbn [ctx coll result rng tasks wg].
      + lia.
      + destruct (troot t) eqn:Et; cbn [b2n] in Hcr.
        * destruct (rng s) eqn:Er; cbn [resume]; lia.
        * lia.
      + destruct (coll s); auto; (destruct Hcoll as [?|[Hx Hz]]; auto; exfalso;
        pose proof (count_zero _ _ Hz t (nth_error_In _ _ Hn)); congruence).
      + intros Hx. exfalso.
        assert (Hrc : rng s = RClosed).
        { destruct (troot t); auto. destruct (rng s); cbn in Hx; congruence. }
        pose proof (count_zero _ _ (Hclosed Hrc) t (nth_error_In _ _ Hn)). congruence.
      + intros t0 Hin. apply In_upd in Hin as [->|Hin]; auto. cbn. apply Hnodes. eapply nth_error_In; eauto.
      + intros r Hin. apply Hroots. destruct (troot t); auto. apply resume_roots. exact Hin.
    - (* close *) constructor; cbn [ctx coll result rng tasks wg].
      + exact Hwg.
      + rewrite Hr in Hroot. exact Hroot.
      + destruct (coll s); auto; (destruct Hcoll as [Hc1|[Hx Hz]]; [left; exact Hc1|right; split; [reflexivity|exact Hz]]).
      + intros _. lia.
      + exact Hnodes.
      + intros r [].
    - (* collector: ctx done *) constructor; cbn; auto.
    - (* collector: channel closed *) constructor; cbn; auto.
    - (* return *) constructor; cbn; auto. rewrite Hc in Hcoll. exact Hcoll.
  Qed.

  Theorem inv_reach roots c0 s : roots_ok roots -> reach roots c0 s -> inv s.
  Proof.
    intros Hr H. induction H as [|s s' _ IH Hs]; [apply inv_init; assumption|].
    eapply inv_step; eauto.
  Qed.

  (* ---------- progress: no deadlock, no lost wake-up ---------- *)
  Lemma find_task (P : task -> bool) (l : list task) :
    (exists i t, nth_error l i = Some t /\ P t = true) \/ (forall t, In t l -> P t = false).
  Proof.
    induction l as [|x l IH].
    - right. intros t [].
    - destruct (P x) eqn:E.
      + left. exists 0, x. split; [reflexivity|assumption].
      + destruct IH as [[i [t [Hn Hp]]]|Hall].
        * left. exists (S i), t. split; assumption.
        * right. intros t [<-|Hin]; auto.
  Qed.

  (* a step that does not wait for the environment: anything but a node returning from Process *)
  Inductive internal_step : st -> st -> Prop :=
  | IStep s s' : step s s' -> (forall i t, nth_error (tasks s) i = Some t -> tstage t = SRun ->
                               nth_error (tasks s') i = Some t) -> internal_step s s'.

  Definition in_process (s : st) : Prop := exists t, In t (tasks s) /\ tstage t = SRun.

  Lemma nth_upd_other {A} (l : list A) i j x : i <> j -> nth_error (upd_nth i x l) j = nth_error l j.
  Proof.
    revert i j; induction l as [|y l IH]; intros [|i] [|j] H; cbn; auto; try congruence.
  Qed.
  Lemma nth_upd_same {A} (l : list A) i x y : nth_error l i = Some y -> nth_error (upd_nth i x l) i = Some x.
  Proof. revert i; induction l as [|z l IH]; intros [|i] H; cbn in *; try discriminate; auto. Qed.

  Lemma keeps_running (ts : list task) i t t' : nth_error ts i = Some t -> tstage t <> SRun ->
    forall j u, nth_error ts j = Some u -> tstage u = SRun -> nth_error (upd_nth i t' ts) j = Some u.
  Proof.
    intros Hn Hs j u Hj Hu. destruct (Nat.eq_dec i j) as [->|Hne].
    - exfalso. rewrite Hn in Hj. inversion Hj; subst. contradiction.
    - rewrite nth_upd_other; auto.
  Qed.

  (* Every reachable state is terminal, or can take a step.  More precisely: unless some node is still inside
     Process (the only thing the protocol ever waits for), a step that involves no node return is enabled. *)
  Theorem progress s : inv s -> terminal s \/ in_process s \/ exists s', internal_step s s'.
  Proof.
    intros [Hwg Hroot Hcoll Hclosed Hnodes Hroots].
    destruct (find_task (fun t => match tstage t with SRun => true | _ => false end) (tasks s)) as [[i [t [Hn Hp]]]|Hnorun].
    { right. left. exists t. split; [eapply nth_error_In; eauto|]. destruct (tstage t); try discriminate. reflexivity. }
    destruct (find_task (fun t => match tstage t with SNew => true | _ => false end) (tasks s)) as [[i [t [Hn Hp]]]|Hnonew].
    { right. right. destruct (tstage t) eqn:Es; try discriminate.
      destruct (tnodes t) as [|n rest] eqn:En; [exfalso; apply (Hnodes t (nth_error_In _ _ Hn)); exact En|].
      eexists. constructor; [eapply StCall; eauto|]. cbn [tasks]. apply (keeps_running _ _ _ _ Hn). congruence. }
    destruct (find_task (fun t => match tstage t with SSend _ => true | _ => false end) (tasks s)) as [[i [t [Hn Hp]]]|Hnosend].
    { right. right. destruct (tstage t) as [| |m| |] eqn:Es; try discriminate.
      destruct (coll s) as [acc|acc|] eqn:Ec.
      - eexists. constructor; [eapply StHandoff; eauto|]. cbn [tasks]. apply (keeps_running _ _ _ _ Hn). congruence.
      - destruct Hcoll as [Hctx|[Hrc Hz]].
        + eexists. constructor; [eapply StAbort; eauto|]. cbn [tasks]. apply (keeps_running _ _ _ _ Hn). congruence.
        + exfalso. pose proof (count_zero _ _ Hz t (nth_error_In _ _ Hn)) as Hl. unfold live in Hl. rewrite Es in Hl. discriminate.
      - destruct Hcoll as [Hctx|[Hrc Hz]].
        + eexists. constructor; [eapply StAbort; eauto|]. cbn [tasks]. apply (keeps_running _ _ _ _ Hn). congruence.
        + exfalso. pose proof (count_zero _ _ Hz t (nth_error_In _ _ Hn)) as Hl. unfold live in Hl. rewrite Es in Hl. discriminate. }
    destruct (find_task (fun t => match tstage t with SFin _ => true | _ => false end) (tasks s)) as [[i [t [Hn Hp]]]|Hnofin].
    { right. right. destruct (tstage t) as [| | |f|] eqn:Es; try discriminate.
      eexists. constructor; [eapply StExit; eauto|]. cbn [tasks]. apply (keeps_running _ _ _ _ Hn). congruence. }
    (* all tasks have returned *)
    assert (Hlive : count live (tasks s) = 0).
    { apply count_all_false. intros t Hin. specialize (Hnorun t Hin). specialize (Hnonew t Hin).
      specialize (Hnosend t Hin). specialize (Hnofin t Hin). unfold live. destruct (tstage t); congruence. }
    assert (Hlr : count liveroot (tasks s) = 0).
    { apply count_all_false. intros t Hin. unfold liveroot. rewrite (count_zero _ _ Hlive t Hin). reflexivity. }
    destruct (rng s) as [[|[p ns] rest]|rest| |] eqn:Er.
    - right. right. eexists. constructor; [eapply StWait; eauto|]. cbn [tasks]. auto.
    - right. right. eexists. constructor; [eapply (StStart _ _ s _ 0 p ns); eauto; reflexivity|]. cbn [tasks].
      intros i t Hn Hs. rewrite nth_error_app1; auto. apply nth_error_Some. congruence.
    - exfalso. rewrite Hlr in Hroot. discriminate.
    - right. right. eexists. constructor; [apply StClose; [exact Er|]; rewrite Hwg; exact Hlive|]. cbn [tasks]. auto.
    - destruct (coll s) as [acc|acc|] eqn:Ec.
      + right. right. eexists. constructor; [eapply StCollClosed; eauto|]. cbn [tasks]. auto.
      + right. right. eexists. constructor; [eapply StReturn; eauto|]. cbn [tasks]. auto.
      + left. split; assumption.
  Qed.

  (* the node returns are always enabled too: a state is stuck only if it is terminal *)
  Corollary progress_any s : inv s -> terminal s \/ exists s', step s s'.
  Proof.
    intros Hi. destruct (progress s Hi) as [Ht|[[t [Hin Hs]]|[s' Hs]]]; auto.
    - right. destruct (In_nth_error _ _ Hin) as [i Hn].
      destruct (tnodes t) as [|n rest] eqn:En; [exfalso; apply (inv_nodes _ Hi t Hin); exact En|].
      eexists. eapply StRet; eauto.
    - right. destruct Hs as [s s' Hs _]. eauto.
  Qed.

  (* C03: once the context is done the collector can leave its loop and return at once, whatever the nodes are doing *)
  Theorem collector_returns_on_cancel s acc :
    coll s = CCollect acc -> ctx s = true ->
    exists s1 s2, step s s1 /\ step s1 s2 /\ coll s2 = CRet /\ result s2 = Some (acc, true) /\ tasks s2 = tasks s.
  Proof.
    intros Hc Hx. eexists. eexists. split; [eapply StCollCancel; eauto|]. split; [eapply StReturn; reflexivity|].
    cbn. rewrite Hx. auto.
  Qed.

  (* C03: the collector also returns when everything has finished *)
  Theorem collector_returns_when_done s acc :
    coll s = CCollect acc -> rng s = RClosed ->
    exists s1 s2, step s s1 /\ step s1 s2 /\ coll s2 = CRet /\ result s2 = Some (acc, ctx s).
  Proof.
    intros Hc Hx. eexists. eexists. split; [eapply StCollClosed; eauto|]. split; [eapply StReturn; reflexivity|].
    cbn. auto.
  Qed.

  (* C03: in a terminal state nothing is left running and the wait group is balanced *)
  Theorem terminal_no_goroutine s : inv s -> terminal s ->
    wg s = 0 /\ forall t, In t (tasks s) -> exists f, tstage t = SDone f.
  Proof.
    intros [Hwg _ _ Hclosed _ _] [_ Hr]. specialize (Hclosed Hr). split; [lia|].
    intros t Hin. pose proof (count_zero _ _ Hclosed t Hin) as Hl. unfold live in Hl.
    destruct (tstage t); try discriminate. eauto.
  Qed.

  (* the two ways the real code could panic are excluded: no status is pending once the channel is closed
     (send on closed channel), and the wait group equals the number of live invocations (never negative) *)
  Theorem no_send_after_close s t m : inv s -> rng s = RClosed -> In t (tasks s) -> tstage t <> SSend m.
  Proof.
    intros [_ _ _ Hclosed _ _] Hr Hin Hs. pose proof (count_zero _ _ (Hclosed Hr) t Hin) as Hl.
    unfold live in Hl. rewrite Hs in Hl. discriminate.
  Qed.

  Theorem wg_counts_live roots c0 s : roots_ok roots -> reach roots c0 s -> wg s = count live (tasks s).
  Proof. intros Hr H. exact (inv_wg _ (inv_reach _ _ _ Hr H)). Qed.

  (* every maximal execution ends in a terminal state *)
  Theorem reaches_terminal roots c0 s :
    roots_ok roots -> reach roots c0 s -> (forall s', ~ step s s') -> terminal s.
  Proof.
    intros Hr Hreach Hstuck. destruct (progress_any s (inv_reach _ _ _ Hr Hreach)) as [Ht|[s' Hs]]; auto.
    exfalso. exact (Hstuck s' Hs).
  Qed.

  (* from every reachable state a terminal state can be reached (and by executions_bounded no execution is infinite) *)
  Theorem can_terminate s : inv s -> exists n s', steps n s s' /\ terminal s'.
  Proof.
    remember (measure s) as k eqn:Hk. revert s Hk.
    induction k as [k IH] using lt_wf_ind. intros s Hk Hi.
    destruct (progress_any s Hi) as [Ht|[s' Hs]].
    - exists 0, s. split; [constructor|exact Ht].
    - pose proof (step_measure _ _ Hs) as Hm.
      destruct (IH (measure s') ltac:(lia) s' eq_refl (inv_step _ _ Hi Hs)) as [n [s'' [Hss Ht]]].
      exists (S n), s''. split; [econstructor; eauto|exact Ht].
  Qed.

  (* ================= the executable step function only takes steps of the relation ================= *)
  Theorem exec_sound l s s' : exec beh e0 l s = Some s' -> step s s'.
  Proof.
    destruct l as [|j| |i|i|i|i|i| | | |]; cbn [exec]; intros H.
    - destruct (ctx s) eqn:E; [discriminate|]. inversion H; subst. apply StCancel. exact E.
    - destruct (rng s) as [rem| | |] eqn:Er; try discriminate.
      destruct (nth_error rem j) as [[p ns]|] eqn:En; try discriminate. inversion H; subst. eapply StStart; eauto.
    - destruct (rng s) as [rem| | |] eqn:Er; try discriminate.
      destruct rem as [|r rem].
      + inversion H; subst. eapply StWait; eauto.
      + destruct (ctx s) eqn:Ec; try discriminate. inversion H; subst. rewrite <- Ec. eapply StWait; eauto.
    - destruct (nth_error (tasks s) i) as [t|] eqn:En; try discriminate.
      destruct (tstage t) eqn:Es; try discriminate. destruct (tnodes t) as [|n rest] eqn:Et; try discriminate.
      inversion H; subst. eapply StCall; eauto.
    - destruct (nth_error (tasks s) i) as [t|] eqn:En; try discriminate.
      destruct (tstage t) eqn:Es; try discriminate. destruct (tnodes t) as [|n rest] eqn:Et; try discriminate.
      inversion H; subst. eapply StRet; eauto.
    - destruct (nth_error (tasks s) i) as [t|] eqn:En; try discriminate.
      destruct (coll s) as [acc|acc|] eqn:Ec; try discriminate.
      destruct (tstage t) eqn:Es; try discriminate. inversion H; subst. eapply StHandoff; eauto.
    - destruct (nth_error (tasks s) i) as [t|] eqn:En; try discriminate.
      destruct (tstage t) eqn:Es; try discriminate. destruct (ctx s) eqn:Ec; try discriminate.
      inversion H; subst. rewrite <- Ec. eapply StAbort; eauto.
    - destruct (nth_error (tasks s) i) as [t|] eqn:En; try discriminate.
      destruct (tstage t) eqn:Es; try discriminate. inversion H; subst. eapply StExit; eauto.
    - destruct (rng s) eqn:Er; try discriminate. destruct (wg s) eqn:Ew; try discriminate.
      inversion H; subst. rewrite <- Ew. apply StClose; auto.
    - destruct (coll s) as [acc|acc|] eqn:Ec; try discriminate. destruct (ctx s) eqn:Ex; try discriminate.
      inversion H; subst. rewrite <- Ex. eapply StCollCancel; eauto.
    - destruct (coll s) as [acc|acc|] eqn:Ec; try discriminate. destruct (rng s) eqn:Er; try discriminate.
      inversion H; subst. rewrite <- Er. eapply StCollClosed; eauto.
    - destruct (coll s) as [acc|acc|] eqn:Ec; try discriminate. inversion H; subst. eapply StReturn; eauto.
  Qed.

  (* and every step of the relation is one the function can take *)
  Theorem exec_complete s s' : step s s' -> exists l, exec beh e0 l s = Some s'.
  Proof.
    intros H. step_cases H.
    - exists LCancel. cbn. rewrite Hc. reflexivity.
    - exists (LStart j). cbn. rewrite Hr, Hn. reflexivity.
    - exists LWait. cbn. rewrite Hr. destruct Hw as [->|Hw]; [reflexivity|]. rewrite Hw. destruct rem; reflexivity.
    - exists (LCall i). cbn. rewrite Hn, Hs, Ht. reflexivity.
    - exists (LRet i). cbn. rewrite Hn, Hs, Ht. reflexivity.
    - exists (LHandoff i). cbn. rewrite Hn, Hc, Hs. reflexivity.
    - exists (LAbort i). cbn. rewrite Hn, Hs, Hc. reflexivity.
    - exists (LExit i). cbn. rewrite Hn, Hs. reflexivity.
    - exists LClose. cbn. rewrite Hr, Hw. reflexivity.
    - exists LCollCancel. cbn. rewrite Hc, Hx. reflexivity.
    - exists LCollClosed. cbn. rewrite Hc, Hr. reflexivity.
    - exists LReturn. cbn. rewrite Hc. reflexivity.
  Qed.

  (* ================= C01: what one traversal calls ================= *)
  Fixpoint is_prefix {A} (eqb : A -> A -> bool) (p l : list A) : bool :=
    match p, l with
    | [], _ => true
    | x :: p', y :: l' => eqb x y && is_prefix eqb p' l'
    | _, [] => false
    end.
  Definition node_eqb (a b : node) : bool := N.eqb (nid a) (nid b) && N.eqb (nobj a) (nobj b) && Bool.eqb (nsink a) (nsink b).
  Lemma node_eqb_refl a : node_eqb a a = true.
  Proof. unfold node_eqb. rewrite !N.eqb_refl, eqb_reflx. reflexivity. Qed.

  (* the nodes called are the first nodes of the pipeline, in registration order, each position once *)
  Lemma traverse_prefix p k ns e : is_prefix node_eqb (map fst (fst (traverse p k ns e))) ns = true.
  Proof.
    revert k e; induction ns as [|n rest IH]; intros k e; cbn [Dispatch.traverse]; [reflexivity|].
    destruct (beh p k e) as [e'| |x]; cbn [fst map is_prefix]; rewrite ?node_eqb_refl; try reflexivity.
    destruct rest as [|n2 rest]; cbn [fst map is_prefix]; rewrite ?node_eqb_refl; [reflexivity|].
    cbn [andb]. apply IH.
  Qed.

  Lemma traverse_length p k ns e : length (fst (traverse p k ns e)) <= length ns.
  Proof.
    revert k e; induction ns as [|n rest IH]; intros k e; cbn [Dispatch.traverse]; [cbn; lia|].
    destruct (beh p k e) as [e'| |x]; cbn [fst length]; try lia.
    destruct rest as [|n2 rest]; cbn [fst length]; [lia|]. specialize (IH (N.succ k) e'). cbn [length] in IH. lia.
  Qed.

  (* node k+1 is called iff node k returned an event and no error, and it is called with exactly that event *)
  Lemma traverse_chain p k n n2 rest e :
    traverse p k (n :: n2 :: rest) e =
    match beh p k e with
    | OPass e' => ((n, e) :: fst (traverse p (N.succ k) (n2 :: rest) e'), snd (traverse p (N.succ k) (n2 :: rest) e'))
    | ODrop => ([(n, e)], Some (MComplete (nid n) (nsink n)))
    | OErr x => ([(n, e)], Some (MWarn x))
    end.
  Proof. cbn [Dispatch.traverse]. destruct (beh p k e); reflexivity. Qed.

  (* the first node is called with the event the traversal was started with *)
  Lemma traverse_first p k n rest e : exists cs, fst (traverse p k (n :: rest) e) = (n, e) :: cs.
  Proof. cbn [Dispatch.traverse]. destruct (beh p k e); try (eexists; reflexivity). destruct rest; eexists; reflexivity. Qed.

  Lemma traverse_some p k ns e : ns <> [] -> exists m, snd (traverse p k ns e) = Some m.
  Proof.
    revert k e; induction ns as [|n rest IH]; intros k e Hne; [congruence|]. cbn [Dispatch.traverse].
    destruct (beh p k e) as [e'| |x]; try (eexists; reflexivity).
    destruct rest as [|n2 rest]; [eexists; reflexivity|]. cbn [snd]. apply IH. discriminate.
  Qed.

  (* what the final status of a traversal means: a warning is an error some called node really returned; a complete
     entry names the last node called, which dropped the event or was the last node of the pipeline and returned
     without error; its sink flag is that node's *)
  Lemma traverse_final_spec p k ns e m : snd (traverse p k ns e) = Some m ->
    exists pre n ev j, fst (traverse p k ns e) = pre ++ [(n, ev)] /\ In n ns /\
      match m with
      | MWarn x => beh p j ev = OErr x
      | MComplete id sk => id = nid n /\ sk = nsink n /\ (beh p j ev = ODrop \/ exists e', beh p j ev = OPass e' /\ exists pre', ns = pre' ++ [n])
      end.
  Proof.
    revert k e; induction ns as [|n rest IH]; intros k e H; cbn [Dispatch.traverse] in *; [discriminate|].
    destruct (beh p k e) as [e'| |x] eqn:Eb.
    - destruct rest as [|n2 rest].
      + cbn in H. inversion H; subst. exists [], n, e, k. cbn. split; [reflexivity|]. split; [auto|].
        split; [reflexivity|]. split; [reflexivity|]. right. exists e'. split; [exact Eb|]. exists []. reflexivity.
      + cbn [snd fst] in *. destruct (IH _ _ H) as [pre [n' [ev [j [Hf [Hin Hm]]]]]].
        exists ((n, e) :: pre), n', ev, j. rewrite Hf. split; [reflexivity|]. split; [right; exact Hin|].
        destruct m as [x|id sk]; [exact Hm|]. destruct Hm as [H1 [H2 H3]]. split; [exact H1|]. split; [exact H2|].
        destruct H3 as [H3|[e2 [H3 [pre' H4]]]]; [left; exact H3|]. right. exists e2. split; [exact H3|].
        exists (n :: pre'). rewrite H4. reflexivity.
    - cbn in H. inversion H; subst. exists [], n, e, k. cbn. split; [reflexivity|]. split; [auto|]. auto.
    - cbn in H. inversion H; subst. exists [], n, e, k. cbn. split; [reflexivity|]. split; [auto|]. exact Eb.
  Qed.

  (* ================= ghost invariants: every invocation is a prefix of its pipeline's traversal ================= *)
  Definition fin_of (t : task) : option fin := match tstage t with SFin f | SDone f => Some f | _ => None end.
  Definition is_head (t : task) : bool := match fin_of t with Some FSpawned => false | _ => true end.
  Definition heads (l : list task) : list task := filter is_head l.
  Definition key (t : task) : root := (tpipe t, tall t).
  Definition whole (t : task) : list call * option msg := traverse (tpipe t) 0%N (tall t) (e0 (tpipe t)).
  Definition here (t : task) : list call * option msg := traverse (tpipe t) (tpos t) (tnodes t) (tev t).

  Definition tinv (t : task) : Prop :=
    match tstage t with
    | SNew => whole t = (tcalls t ++ fst (here t), snd (here t))
    | SRun => exists n rest cs, tnodes t = n :: rest /\ tcalls t = cs ++ [(n, tev t)] /\ whole t = (cs ++ fst (here t), snd (here t))
    | SSend m | SFin (FSent m) | SDone (FSent m) => whole t = (tcalls t, Some m)
    | SFin FAborted | SDone FAborted => exists m, whole t = (tcalls t, Some m)
    | SFin FSpawned | SDone FSpawned => exists rest, fst (whole t) = tcalls t ++ rest
    end.
  Definition all_tinv (s : st) : Prop := forall t, In t (tasks s) -> tinv t.

  Lemma tinv_node_return t n rest : tstage t = SRun -> tnodes t = n :: rest -> tinv t ->
    tinv (fst (node_return t n rest)) /\ forall c, snd (node_return t n rest) = Some c -> tinv c.
  Proof.
    intros Hs Hn Hi. unfold tinv in Hi. rewrite Hs in Hi. destruct Hi as [n' [rest' [cs [Hn' [Hc Hw]]]]].
    rewrite Hn in Hn'. inversion Hn'; subst n' rest'. clear Hn'.
    unfold here in Hw. rewrite Hn in Hw. cbn [Dispatch.traverse] in Hw.
    unfold Dispatch.node_return. destruct (beh (tpipe t) (tpos t) (tev t)) as [e'| |x].
    - destruct rest as [|n2 rest].
      + cbn [fst snd] in *. split; [|discriminate]. unfold tinv. cbn [with_stage tstage]. unfold whole in *. cbn [with_stage tpipe tall tcalls].
        rewrite Hw, Hc. reflexivity.
      + cbn [fst snd] in *. split.
        * unfold tinv. cbn [with_stage tstage]. unfold whole in *. cbn [with_stage tpipe tall tcalls]. rewrite Hw. cbn [fst].
          eexists. rewrite Hc. rewrite <- app_assoc. reflexivity.
        * intros c Hcc. inversion Hcc; subst c. unfold tinv. cbn [child_of tstage]. unfold whole, here in *.
          cbn [child_of tpipe tall tcalls tpos tnodes tev]. rewrite Hw, Hc. rewrite <- app_assoc. reflexivity.
    - cbn [fst snd] in *. split; [|discriminate]. unfold tinv. cbn [with_stage tstage]. unfold whole in *. cbn [with_stage tpipe tall tcalls].
      rewrite Hw, Hc. reflexivity.
    - cbn [fst snd] in *. split; [|discriminate]. unfold tinv. cbn [with_stage tstage]. unfold whole in *. cbn [with_stage tpipe tall tcalls].
      rewrite Hw, Hc. reflexivity.
  Qed.

  Lemma all_tinv_step s s' : all_tinv s -> step s s' -> all_tinv s'.
  Proof.
    intros Ha H. step_cases H; unfold all_tinv in *; cbn [tasks]; auto.
    - intros t Hin. apply in_app_or in Hin as [Hin|[<-|[]]]; auto.
      unfold tinv. cbn [new_root tstage]. unfold whole, here. cbn [new_root tpipe tall tcalls tpos tnodes tev app]. apply surjective_pairing.
    - intros t0 Hin. apply In_upd in Hin as [->|Hin]; auto.
      pose proof (Ha t (nth_error_In _ _ Hn)) as Hi. unfold tinv in *. rewrite Hs in Hi. cbn [called tstage].
      exists n, rest, (tcalls t). cbn [called tnodes tcalls tev]. split; [exact Ht|]. split; [reflexivity|]. exact Hi.
    - pose proof (tinv_node_return t n rest Hs Ht (Ha t (nth_error_In _ _ Hn))) as [H1 H2].
      intros t0 Hin. apply in_app_or in Hin as [Hin|Hin].
      + apply In_upd in Hin as [->|Hin]; auto.
      + destruct (snd (node_return t n rest)) as [c|]; cbn in Hin; [|contradiction]. destruct Hin as [<-|[]]. apply H2. reflexivity.
    - intros t0 Hin. apply In_upd in Hin as [->|Hin]; auto.
      pose proof (Ha t (nth_error_In _ _ Hn)) as Hi. unfold tinv in *. rewrite Hs in Hi. cbn. exact Hi.
    - intros t0 Hin. apply In_upd in Hin as [->|Hin]; auto.
      pose proof (Ha t (nth_error_In _ _ Hn)) as Hi. unfold tinv in *. rewrite Hs in Hi. cbn. eauto.
    - intros t0 Hin. apply In_upd in Hin as [->|Hin]; auto.
      pose proof (Ha t (nth_error_In _ _ Hn)) as Hi. unfold tinv in *. rewrite Hs in Hi. cbn. exact Hi.
  Qed.

  (* ---------- what the collector holds is exactly what finished invocations handed over ---------- *)
  Definition collected (s : st) : list msg :=
    match coll s with
    | CCollect acc | CExit acc => acc
    | CRet => match result s with Some (acc, _) => acc | None => [] end
    end.
  Definition sent_of (t : task) : list msg := match fin_of t with Some (FSent m) => [m] | _ => [] end.
  Definition sent_msgs (l : list task) : list msg := flat_map sent_of l.

  Lemma sent_msgs_upd l i t t' m : nth_error l i = Some t -> sent_of t = [] -> sent_of t' = [m] ->
    Permutation (sent_msgs (upd_nth i t' l)) (m :: sent_msgs l).
  Proof.
    revert i; induction l as [|x l IH]; intros [|i] H H1 H2; cbn [nth_error upd_nth] in *; try discriminate.
    - inversion H; subst. unfold sent_msgs. cbn [flat_map]. rewrite H1, H2. cbn. apply Permutation_refl.
    - unfold sent_msgs in *. cbn [flat_map]. specialize (IH _ H H1 H2).
      eapply Permutation_trans; [apply Permutation_app_head; exact IH|].
      apply Permutation_sym. apply Permutation_middle.
  Qed.
  Lemma sent_msgs_upd_same l i t t' : nth_error l i = Some t -> sent_of t = sent_of t' ->
    sent_msgs (upd_nth i t' l) = sent_msgs l.
  Proof.
    revert i; induction l as [|x l IH]; intros [|i] H H1; cbn [nth_error upd_nth] in *; try discriminate.
    - inversion H; subst. unfold sent_msgs. cbn [flat_map]. rewrite H1. reflexivity.
    - unfold sent_msgs in *. cbn [flat_map]. rewrite (IH _ H H1). reflexivity.
  Qed.

  Definition cinv (s : st) : Prop :=
    Permutation (collected s) (sent_msgs (tasks s)) /\ (coll s = CRet -> result s <> None).

  Lemma cinv_step s s' : cinv s -> step s s' -> cinv s'.
  Proof.
    intros [Hp Hres] H. step_cases H; unfold cinv, collected in *; cbn [coll result tasks] in *.
    - split; assumption.
    - split; [|assumption]. unfold sent_msgs in *. rewrite flat_map_app. cbn. rewrite app_nil_r. exact Hp.
    - split; assumption.
    - split; [|assumption]. rewrite (sent_msgs_upd_same _ _ t); auto. unfold sent_of, fin_of. cbn [called tstage]. rewrite Hs. reflexivity.
    - split; [|assumption]. unfold sent_msgs in *. rewrite flat_map_app. fold (sent_msgs (upd_nth i (fst (node_return t n rest)) (tasks s))).
      rewrite (sent_msgs_upd_same _ _ t); auto.
      + destruct (node_return_cases t n rest) as [[m0 E]|[e' [Hne E]]]; rewrite E; cbn; rewrite app_nil_r; exact Hp.
      + unfold sent_of at 1, fin_of. rewrite Hs.
        destruct (node_return_cases t n rest) as [[m0 E]|[e' [Hne E]]]; rewrite E; reflexivity.
    - split; [|discriminate]. rewrite Hc in Hp.
      eapply Permutation_trans; [|apply Permutation_sym; eapply (sent_msgs_upd _ _ t _ m); eauto].
      + eapply Permutation_trans; [apply Permutation_sym; apply Permutation_cons_append|].
        apply perm_skip. exact Hp.
      + unfold sent_of, fin_of. rewrite Hs. reflexivity.
    - split; [|assumption].
      rewrite (sent_msgs_upd_same _ _ t); auto. unfold sent_of, fin_of. cbn [with_stage tstage]. rewrite Hs. reflexivity.
    - split; [|assumption].
      rewrite (sent_msgs_upd_same _ _ t); auto. unfold sent_of, fin_of. cbn [with_stage tstage]. rewrite Hs. reflexivity.
    - split; assumption.
    - split; [|discriminate]. rewrite Hc in Hp. exact Hp.
    - split; [|discriminate]. rewrite Hc in Hp. exact Hp.
    - split; [|discriminate]. rewrite Hc in Hp. exact Hp.
  Qed.

  (* ---------- heads: the invocation that currently carries each started traversal ---------- *)
  Section FlatHeads.
    Context {A : Type} (g : task -> list A).
    Definition fm (l : list task) : list A := flat_map g (heads l).

    Lemma fm_cons t l : fm (t :: l) = (if is_head t then g t else []) ++ fm l.
    Proof. unfold fm, heads. cbn [filter]. destruct (is_head t); reflexivity. Qed.
    Lemma fm_app l1 l2 : fm (l1 ++ l2) = fm l1 ++ fm l2.
    Proof. unfold fm, heads. rewrite filter_app, flat_map_app. reflexivity. Qed.

    (* the invocation keeps its role and its contribution *)
    Lemma fm_upd_same l i t t' : nth_error l i = Some t -> is_head t' = is_head t -> (is_head t = true -> g t' = g t) ->
      fm (upd_nth i t' l) = fm l.
    Proof.
      revert i; induction l as [|x l IH]; intros [|i] H H1 H2; cbn [nth_error upd_nth] in *; try discriminate.
      - inversion H; subst. rewrite !fm_cons. rewrite H1. destruct (is_head t); [rewrite H2; reflexivity|reflexivity].
      - rewrite !fm_cons. rewrite (IH _ H H1 H2). reflexivity.
    Qed.
    (* a head extends its contribution *)
    Lemma fm_upd_ext l i t t' x : nth_error l i = Some t -> is_head t = true -> is_head t' = true -> g t' = g t ++ x ->
      Permutation (fm (upd_nth i t' l)) (fm l ++ x).
    Proof.
      revert i; induction l as [|y l IH]; intros [|i] H H1 H2 H3; cbn [nth_error upd_nth] in *; try discriminate.
      - inversion H; subst. rewrite !fm_cons. rewrite H1, H2, H3. rewrite <- !app_assoc. apply Permutation_app_head.
        apply Permutation_app_comm.
      - rewrite !fm_cons. rewrite <- app_assoc. apply Permutation_app_head. apply (IH _ H H1 H2 H3).
    Qed.
    (* a head stops being one *)
    Lemma fm_upd_drop l i t t' : nth_error l i = Some t -> is_head t = true -> is_head t' = false ->
      Permutation (fm (upd_nth i t' l) ++ g t) (fm l).
    Proof.
      revert i; induction l as [|y l IH]; intros [|i] H H1 H2; cbn [nth_error upd_nth] in *; try discriminate.
      - inversion H; subst. rewrite !fm_cons. rewrite H1, H2. cbn [app]. apply Permutation_app_comm.
      - rewrite !fm_cons. rewrite <- app_assoc. apply Permutation_app_head. apply (IH _ H H1 H2).
    Qed.
  End FlatHeads.

  Definition hkeys (l : list task) : list root := fm (fun t => [key t]) l.
  Definition hcalls (l : list task) : list call := fm tcalls l.

  (* started pipelines + pipelines still to start + pipelines skipped = the registered pipelines;
     while the context is live nothing is skipped and no status is dropped *)
  Record hinv (roots : list root) (s : st) : Prop := {
    h_perm : Permutation (hkeys (tasks s) ++ roots_of (rng s) ++ skipped s) roots;
    h_skip : match rng s with RRange _ | RInRoot _ => skipped s = [] | _ => True end;
    h_live : ctx s = false -> skipped s = [] /\ forall t, In t (tasks s) -> fin_of t <> Some FAborted;
    h_log : Permutation (clog s) (hcalls (tasks s));
  }.

  Lemma roots_of_resume r : roots_of (resume r) = roots_of r.
  Proof. destruct r; reflexivity. Qed.

  Lemma is_head_stage t sg : is_head (with_stage t sg) = match sg with SFin FSpawned | SDone FSpawned => false | _ => true end.
  Proof. unfold is_head, fin_of. cbn [with_stage tstage]. destruct sg as [| | |[| |]|[| |]]; reflexivity. Qed.

  Lemma hinv_step roots s s' : hinv roots s -> step s s' -> hinv roots s'.
  Proof.
    intros [Hp Hsk Hlv Hlog] H. step_cases H.
    - (* cancel *) constructor; cbn [ctx rng tasks skipped clog]; auto; try discriminate.
    - (* start *)
      assert (Hh : is_head (new_root e0 p ns) = true) by reflexivity.
      constructor; cbn [ctx rng tasks skipped clog roots_of].
      + unfold hkeys in *. rewrite fm_app. rewrite Hr in Hp. cbn [roots_of] in Hp.
        unfold fm at 2. unfold heads. cbn [filter]. rewrite Hh. cbn [flat_map app key new_root tpipe tall].
        eapply Permutation_trans; [|exact Hp]. rewrite <- app_assoc. apply Permutation_app_head. cbn [app].
        rewrite Hr in Hsk. rewrite Hsk. rewrite !app_nil_r. apply nth_del_perm. exact Hn.
      + rewrite Hr in Hsk. exact Hsk.
      + intros Hc. destruct (Hlv Hc) as [H1 H2]. split; [exact H1|].
        intros t Hin. apply in_app_or in Hin as [Hin|[<-|[]]]; auto. cbn. discriminate.
      + unfold hcalls in *. rewrite fm_app. unfold fm at 2. unfold heads. cbn [filter]. rewrite Hh. cbn. rewrite app_nil_r. exact Hlog.
    - (* wait *) constructor; cbn [ctx rng tasks skipped clog roots_of].
      + rewrite Hr in Hp, Hsk. cbn [roots_of] in Hp. rewrite Hsk in Hp. rewrite app_nil_r in Hp. cbn [app]. exact Hp.
      + exact I.
      + intros Hc. destruct (Hlv Hc) as [H1 H2]. split; [|exact H2].
        destruct Hw as [Hw|Hw]; [exact Hw|congruence].
      + exact Hlog.
    - (* call *)
      assert (Hh : is_head t = true) by (unfold is_head, fin_of; rewrite Hs; reflexivity).
      assert (Hh' : is_head (called t n) = true) by reflexivity.
      constructor; cbn [ctx rng tasks skipped clog].
      + unfold hkeys in *. rewrite (fm_upd_same _ _ _ t); auto; try (rewrite Hh, Hh'; reflexivity).
      + exact Hsk.
      + intros Hc. destruct (Hlv Hc) as [H1 H2]. split; [exact H1|].
        intros t0 Hin. apply In_upd in Hin as [->|Hin]; auto. cbn. discriminate.
      + unfold hcalls in *. eapply Permutation_trans; [|apply Permutation_sym; apply (fm_upd_ext tcalls _ _ t _ [(n, tev t)] Hn Hh Hh' eq_refl)].
        apply Permutation_app_tail. exact Hlog.
    - (* node returned *)
      assert (Hh : is_head t = true) by (unfold is_head, fin_of; rewrite Hs; reflexivity).
      destruct (node_return_cases t n rest) as [[m0 E]|[e' [Hne E]]]; rewrite E; cbn [fst snd opt_list]; rewrite ?app_nil_r.
      + constructor; cbn [ctx rng tasks skipped clog].
        * unfold hkeys in *. rewrite (fm_upd_same _ _ _ t); auto; try (rewrite is_head_stage, Hh; reflexivity).
        * exact Hsk.
        * intros Hc. destruct (Hlv Hc) as [H1 H2]. split; [exact H1|].
          intros t0 Hin. apply In_upd in Hin as [->|Hin]; auto. cbn. discriminate.
        * unfold hcalls in *. rewrite (fm_upd_same _ _ _ t); auto; try (rewrite is_head_stage, Hh; reflexivity).
      + assert (Hh' : is_head (with_stage t (SFin FSpawned)) = false) by reflexivity.
        assert (Hhc : is_head (child_of t rest e') = true) by reflexivity.
        constructor; cbn [ctx rng tasks skipped clog].
        * unfold hkeys in *. rewrite fm_app. unfold fm at 2. unfold heads. cbn [filter]. rewrite Hhc. cbn [flat_map app].
          eapply Permutation_trans; [|exact Hp]. apply Permutation_app_tail.
          change [key (child_of t rest e')] with ((fun t => [key t]) t).
          apply (fm_upd_drop (fun t => [key t]) _ _ t _ Hn Hh Hh').
        * exact Hsk.
        * intros Hc. destruct (Hlv Hc) as [H1 H2]. split; [exact H1|].
          intros t0 Hin. apply in_app_or in Hin as [Hin|[<-|[]]]; [|cbn; discriminate].
          apply In_upd in Hin as [->|Hin]; auto. cbn. discriminate.
        * unfold hcalls in *. rewrite fm_app. unfold fm at 2. unfold heads. cbn [filter]. rewrite Hhc. cbn [flat_map app].
          rewrite app_nil_r. cbn [child_of tcalls].
          eapply Permutation_trans; [exact Hlog|]. apply Permutation_sym. apply (fm_upd_drop tcalls _ _ t _ Hn Hh Hh').
    - (* handoff *)
      assert (Hh : is_head t = true) by (unfold is_head, fin_of; rewrite Hs; reflexivity).
      constructor; cbn [ctx rng tasks skipped clog].
      + unfold hkeys in *. rewrite (fm_upd_same _ _ _ t); auto.
      + exact Hsk.
      + intros Hx. destruct (Hlv Hx) as [H1 H2]. split; [exact H1|].
        intros t0 Hin. apply In_upd in Hin as [->|Hin]; auto. cbn. discriminate.
      + unfold hcalls in *. rewrite (fm_upd_same _ _ _ t); auto.
    - (* abort *)
      assert (Hh : is_head t = true) by (unfold is_head, fin_of; rewrite Hs; reflexivity).
      constructor; cbn [ctx rng tasks skipped clog].
      + unfold hkeys in *. rewrite (fm_upd_same _ _ _ t); auto.
      + exact Hsk.
      + intros Hx. congruence.
      + unfold hcalls in *. rewrite (fm_upd_same _ _ _ t); auto.
    - (* exit *)
      assert (Hh : is_head (with_stage t (SDone f)) = is_head t).
      { rewrite is_head_stage. unfold is_head, fin_of. rewrite Hs. destruct f; reflexivity. }
      assert (Hro : roots_of (if troot t then resume (rng s) else rng s) = roots_of (rng s))
        by (destruct (troot t); [apply roots_of_resume|reflexivity]).
      constructor; cbn [ctx rng tasks skipped clog].
      + rewrite Hro. unfold hkeys in *. rewrite (fm_upd_same _ _ _ t); auto.
      + destruct (troot t); [|exact Hsk]. destruct (rng s); cbn [resume]; auto.
      + intros Hx. destruct (Hlv Hx) as [H1 H2]. split; [exact H1|].
        intros t0 Hin. apply In_upd in Hin as [->|Hin]; auto.
        specialize (H2 t (nth_error_In _ _ Hn)). unfold fin_of in *. rewrite Hs in H2. cbn. exact H2.
      + unfold hcalls in *. rewrite (fm_upd_same _ _ _ t); auto.
    - (* close *) constructor; cbn [ctx rng tasks skipped clog roots_of]; auto.
      rewrite Hr in Hp. cbn [roots_of] in Hp. exact Hp.
    - constructor; cbn [ctx rng tasks skipped clog]; auto.
    - constructor; cbn [ctx rng tasks skipped clog]; auto.
    - constructor; cbn [ctx rng tasks skipped clog]; auto.
  Qed.

  (* ---------- all invariants over reachable states ---------- *)
  Record full_inv (roots : list root) (s : st) : Prop := {
    fi_inv : inv s; fi_tinv : all_tinv s; fi_cinv : cinv s; fi_hinv : hinv roots s }.

  Theorem full_inv_reach roots c0 s : roots_ok roots -> reach roots c0 s -> full_inv roots s.
  Proof.
    intros Hr H. induction H as [|s s' _ IH Hs].
    - constructor.
      + apply inv_init; assumption.
      + intros t [].
      + split; [apply Permutation_refl|discriminate].
      + constructor; cbn; auto; try (rewrite app_nil_r; apply Permutation_refl);
          try (intros _; split; [reflexivity|intros t []]).
    - destruct IH as [I1 I2 I3 I4]. constructor.
      + eapply inv_step; eauto.
      + eapply all_tinv_step; eauto.
      + eapply cinv_step; eauto.
      + eapply hinv_step; eauto.
  Qed.

  (* ================= C02: the reported status ================= *)
  Notation final_of := (final_of beh e0).
  Notation calls_of := (calls_of beh e0).

  Lemma flat_map_single {A B} (f : A -> B) l : flat_map (fun x => [f x]) l = map f l.
  Proof. induction l as [|x l IH]; cbn; [reflexivity|]. rewrite IH. reflexivity. Qed.

  Lemma flat_map_map {A B C} (g : B -> list C) (f : A -> B) l : flat_map g (map f l) = flat_map (fun x => g (f x)) l.
  Proof. induction l as [|x l IH]; cbn; [reflexivity|]. rewrite IH. reflexivity. Qed.

  Lemma hkeys_map l : hkeys l = map key (heads l).
  Proof. unfold hkeys, fm. apply flat_map_single. Qed.

  Lemma sent_msgs_heads l : sent_msgs l = flat_map sent_of (heads l).
  Proof.
    unfold sent_msgs, heads. induction l as [|t l IH]; cbn [flat_map filter]; [reflexivity|].
    destruct (is_head t) eqn:E; cbn [flat_map]; rewrite IH; [reflexivity|].
    unfold is_head in E. unfold sent_of. destruct (fin_of t) as [[| |]|]; try discriminate. reflexivity.
  Qed.

  Lemma head_sent_final t m : tinv t -> fin_of t = Some (FSent m) -> final_of (key t) = [m] /\ calls_of (key t) = tcalls t.
  Proof.
    intros Hi Hf. unfold tinv in Hi. unfold fin_of in Hf. unfold Dispatch.final_of, Dispatch.calls_of, key. cbn [fst snd].
    fold (whole t). destruct (tstage t) as [| | |f|f]; try discriminate; inversion Hf; subst f; rewrite Hi; split; reflexivity.
  Qed.

  Definition has_sent (t : task) : bool := match sent_of t with [] => false | _ => true end.

  Lemma filter_partition_perm {A} (f : A -> bool) l : Permutation (filter f l ++ filter (fun x => negb (f x)) l) l.
  Proof.
    induction l as [|x l IH]; cbn [filter]; [apply Permutation_refl|].
    destruct (f x); cbn [negb app].
    - apply perm_skip. exact IH.
    - eapply Permutation_trans; [apply Permutation_sym; apply Permutation_middle|]. apply perm_skip. exact IH.
  Qed.

  (* C02 "never invented", on the protocol state: the report is a permutation of the statuses handed over by distinct
     finished invocations, each the final status of the sequential traversal of its own pipeline *)
  Theorem status_sound roots c0 s : roots_ok roots -> reach roots c0 s ->
    Permutation (collected s) (sent_msgs (tasks s)) /\
    forall t m, In t (tasks s) -> fin_of t = Some (FSent m) -> snd (traverse (tpipe t) 0%N (tall t) (e0 (tpipe t))) = Some m.
  Proof.
    intros Hr H. destruct (full_inv_reach _ _ _ Hr H) as [_ I2 [I3 _] _]. split; [exact I3|].
    intros t m Hin Hf. specialize (I2 t Hin). unfold tinv in I2. unfold fin_of in Hf. fold (whole t).
    destruct (tstage t) as [| | |f|f]; try discriminate; inversion Hf; subst f; rewrite I2; reflexivity.
  Qed.

  (* C02 "never invented", declaratively: in every reachable state (any schedule, any cancel point) the registered
     pipelines split into [reported] and [others] such that what the collector holds is exactly one final status per
     reported pipeline — the status its sequential traversal ends with.  No entry without a pipeline, no pipeline twice. *)
  Theorem status_never_invented roots c0 s : roots_ok roots -> reach roots c0 s ->
    exists reported others, Permutation (reported ++ others) roots /\
                            Permutation (collected s) (flat_map final_of reported).
  Proof.
    intros Hr H. destruct (full_inv_reach _ _ _ Hr H) as [_ I2 [I3 _] [Hp _ _ _]].
    rewrite hkeys_map in Hp. rewrite sent_msgs_heads in I3.
    assert (Hh : forall t, In t (heads (tasks s)) -> tinv t).
    { intros t Hin. apply I2. unfold heads in Hin. apply filter_In in Hin. tauto. }
    exists (map key (filter has_sent (heads (tasks s)))),
           (map key (filter (fun t => negb (has_sent t)) (heads (tasks s))) ++ roots_of (rng s) ++ skipped s).
    split.
    - eapply Permutation_trans; [|exact Hp]. rewrite app_assoc. apply Permutation_app_tail.
      rewrite <- map_app. apply Permutation_map. apply filter_partition_perm.
    - eapply Permutation_trans; [exact I3|]. clear I3 Hp.
      induction (heads (tasks s)) as [|t l IH]; [apply Permutation_refl|].
      cbn [flat_map filter]. unfold has_sent at 1.
      destruct (sent_of t) as [|m ms] eqn:Es.
      + cbn [app]. apply IH. intros t0 Hin. apply Hh. right. exact Hin.
      + unfold sent_of in Es. destruct (fin_of t) as [[m'| |]|] eqn:Ef; try discriminate. inversion Es; subst m' ms.
        destruct (head_sent_final t m (Hh t (or_introl eq_refl)) Ef) as [Hfin _].
        cbn [map flat_map]. rewrite Hfin. apply Permutation_app_head. apply IH. intros t0 Hin. apply Hh. right. exact Hin.
  Qed.

  Lemma terminal_heads roots s : full_inv roots s -> terminal s -> ctx s = false ->
    Permutation (map key (heads (tasks s))) roots /\
    forall t, In t (heads (tasks s)) -> exists m, fin_of t = Some (FSent m) /\ sent_of t = [m].
  Proof.
    intros [I1 I2 _ [Hp _ Hlv _]] [_ Hrng] Hctx. rewrite hkeys_map in Hp. destruct (Hlv Hctx) as [Hsk Hab].
    rewrite Hrng, Hsk in Hp. cbn in Hp. rewrite app_nil_r in Hp. split; [exact Hp|].
    intros t Hin. unfold heads in Hin. apply filter_In in Hin as [Hin Hh].
    pose proof (count_zero _ _ (inv_closed _ I1 Hrng) t Hin) as Hl. specialize (Hab t Hin).
    unfold live in Hl. unfold is_head in Hh. unfold sent_of. unfold fin_of in *.
    destruct (tstage t) as [| | |f|[m| |]]; try discriminate; try congruence. exists m. split; reflexivity.
  Qed.

  (* C02 "exactly one entry per registered pipeline" when the context is never cancelled *)
  Theorem status_complete_uncancelled roots s :
    roots_ok roots -> reach roots false s -> terminal s -> ctx s = false ->
    Permutation (collected s) (flat_map final_of roots).
  Proof.
    intros Hr H Ht Hctx. pose proof (full_inv_reach _ _ _ Hr H) as Hfi.
    destruct (terminal_heads _ _ Hfi Ht Hctx) as [Hp Hall]. destruct Hfi as [_ I2 [I3 _] _].
    rewrite sent_msgs_heads in I3. eapply Permutation_trans; [exact I3|].
    eapply Permutation_trans; [|apply Permutation_flat_map; exact Hp]. rewrite flat_map_map.
    assert (Hh : forall t, In t (heads (tasks s)) -> sent_of t = final_of (key t)).
    { intros t Hin. destruct (Hall t Hin) as [m [Hf Hs]]. rewrite Hs.
      assert (Hti : tinv t) by (apply I2; unfold heads in Hin; apply filter_In in Hin; tauto).
      destruct (head_sent_final t m Hti Hf) as [Hfin _]. rewrite Hfin. reflexivity. }
    clear - Hh. induction (heads (tasks s)) as [|t l IH]; [apply Permutation_refl|].
    cbn [flat_map]. rewrite (Hh t (or_introl eq_refl)). apply Permutation_app_head. apply IH. intros t0 Hin. apply Hh. right. exact Hin.
  Qed.

  Lemma final_of_length r : snd r <> [] -> length (final_of r) = 1.
  Proof. intros Hne. unfold Dispatch.final_of. destruct (traverse_some (fst r) 0%N (snd r) (e0 (fst r)) Hne) as [m Hm]. rewrite Hm. reflexivity. Qed.

  Lemma length_msgs acc : length (completes acc) + length (warnings acc) = length acc.
  Proof. unfold completes, warnings. induction acc as [|[e|n sk] acc IH]; cbn [flat_map app length] in *; lia. Qed.

  (* completes + warnings = pipelines *)
  Corollary status_count_uncancelled roots s :
    roots_ok roots -> reach roots false s -> terminal s -> ctx s = false ->
    length (completes (collected s)) + length (warnings (collected s)) = length roots.
  Proof.
    intros Hr H Ht Hctx. rewrite length_msgs. rewrite (Permutation_length (status_complete_uncancelled _ _ Hr H Ht Hctx)).
    clear - Hr. induction roots as [|r l IH]; [reflexivity|]. cbn [flat_map]. rewrite app_length.
    rewrite final_of_length; [|apply Hr; left; reflexivity]. rewrite IH; [reflexivity|]. intros x Hx. apply Hr. right. exact Hx.
  Qed.

  (* under cancellation entries may be missing, never more than pipelines *)
  Corollary status_count_bound roots c0 s : roots_ok roots -> reach roots c0 s -> length (collected s) <= length roots.
  Proof.
    intros Hr H. destruct (status_never_invented _ _ _ Hr H) as [rep [oth [Hp Hc]]].
    rewrite (Permutation_length Hc). rewrite <- (Permutation_length Hp), app_length.
    assert (Hok : forall r, In r rep -> snd r <> []).
    { intros r Hin. apply Hr. eapply Permutation_in; [exact Hp|]. apply in_or_app. left. exact Hin. }
    clear - Hok. induction rep as [|r l IH]; [cbn; lia|]. cbn [flat_map length]. rewrite app_length.
    rewrite final_of_length; [|apply Hok; left; reflexivity]. specialize (IH (fun x Hx => Hok x (or_intror Hx))). cbn. lia.
  Qed.

  (* ================= C01: what is called ================= *)
  (* every invocation's call log is a prefix of the sequential traversal of its pipeline, in any state, cancelled or not;
     once a status has been produced it is the whole traversal *)
  Theorem calls_are_traversal roots c0 s t : roots_ok roots -> reach roots c0 s -> In t (tasks s) ->
    exists rest, calls_of (key t) = tcalls t ++ rest /\
                 (forall m, tstage t = SSend m \/ fin_of t = Some (FSent m) -> rest = []).
  Proof.
    intros Hr H Hin. destruct (full_inv_reach _ _ _ Hr H) as [_ I2 _ _]. specialize (I2 t Hin).
    unfold tinv in I2. unfold Dispatch.calls_of, key. cbn [fst snd]. fold (whole t). unfold fin_of.
    destruct (tstage t) as [| |m|[m| |]|[m| |]].
    - rewrite I2. eexists. split; [reflexivity|]. intros m [Hx|Hx]; discriminate.
    - destruct I2 as [n [rest [cs [Hn [Hc Hw]]]]]. rewrite Hw. cbn [fst]. unfold here. rewrite Hn.
      destruct (traverse_first (tpipe t) (tpos t) n rest (tev t)) as [cs' Hcs]. rewrite Hcs, Hc.
      exists cs'. split; [rewrite <- app_assoc; reflexivity|]. intros m [Hx|Hx]; discriminate.
    - rewrite I2. exists []. rewrite app_nil_r. auto.
    - rewrite I2. exists []. rewrite app_nil_r. auto.
    - destruct I2 as [m I2]. rewrite I2. exists []. rewrite app_nil_r. auto.
    - destruct I2 as [rest I2]. rewrite I2. exists rest. split; [reflexivity|]. intros m [Hx|Hx]; discriminate.
    - rewrite I2. exists []. rewrite app_nil_r. auto.
    - destruct I2 as [m I2]. rewrite I2. exists []. rewrite app_nil_r. auto.
    - destruct I2 as [rest I2]. rewrite I2. exists rest. split; [reflexivity|]. intros m [Hx|Hx]; discriminate.
  Qed.

  (* with or without cancellation: the Process calls made so far are, up to interleaving, one prefix of the sequential
     traversal per started pipeline; the started pipelines are a sub-multiset of the registered ones (the rest was not yet
     started, or skipped by the Range loop, which only happens once the context is done) *)
  Theorem call_log_sound roots c0 s : roots_ok roots -> reach roots c0 s ->
    exists started : list (root * list call),
      Permutation (clog s) (flat_map snd started) /\
      Permutation (map fst started ++ roots_of (rng s) ++ skipped s) roots /\
      (forall r cs, In (r, cs) started -> exists rest, calls_of r = cs ++ rest) /\
      (ctx s = false -> skipped s = []).
  Proof.
    intros Hr H. pose proof (full_inv_reach _ _ _ Hr H) as [_ I2 _ [Hp _ Hlv Hlog]].
    exists (map (fun t => (key t, tcalls t)) (heads (tasks s))). split; [|split; [|split]].
    - unfold hcalls, fm in Hlog. rewrite flat_map_map. cbn [snd]. exact Hlog.
    - rewrite map_map. cbn [fst]. rewrite hkeys_map in Hp. exact Hp.
    - intros r cs Hin. apply in_map_iff in Hin as [t [Heq Hin]]. inversion Heq; subst r cs.
      unfold heads in Hin. apply filter_In in Hin as [Hin _].
      destruct (calls_are_traversal roots c0 s t Hr H Hin) as [rest [Hc _]]. eauto.
    - intros Hc. apply Hlv. exact Hc.
  Qed.

  (* C01: with an uncancelled context, at the end every registered pipeline has been traversed exactly once and nothing
     else has been called *)
  Theorem send_traverses_exactly roots s :
    roots_ok roots -> reach roots false s -> terminal s -> ctx s = false ->
    Permutation (clog s) (flat_map calls_of roots).
  Proof.
    intros Hr H Ht Hctx. pose proof (full_inv_reach _ _ _ Hr H) as Hfi.
    destruct (terminal_heads _ _ Hfi Ht Hctx) as [Hp Hall]. destruct Hfi as [_ I2 _ [_ _ _ Hlog]].
    eapply Permutation_trans; [exact Hlog|]. unfold hcalls, fm.
    eapply Permutation_trans; [|apply Permutation_flat_map; exact Hp]. rewrite flat_map_map.
    assert (Hh : forall t, In t (heads (tasks s)) -> tcalls t = calls_of (key t)).
    { intros t Hin. destruct (Hall t Hin) as [m [Hf _]].
      assert (Hti : tinv t) by (apply I2; unfold heads in Hin; apply filter_In in Hin; tauto).
      destruct (head_sent_final t m Hti Hf) as [_ Hc]. rewrite Hc. reflexivity. }
    clear - Hh. induction (heads (tasks s)) as [|t l IH]; [apply Permutation_refl|].
    cbn [flat_map]. rewrite (Hh t (or_introl eq_refl)). apply Permutation_app_head. apply IH. intros t0 Hin. apply Hh. right. exact Hin.
  Qed.

  (* a Send whose context is done before it starts may or may not start pipelines, but a Send whose context stays live
     skips none: every pipeline left unstarted at wg.Wait was skipped after a cancellation *)
  Theorem nothing_skipped_while_live roots s : roots_ok roots -> reach roots false s -> ctx s = false -> skipped s = [].
  Proof. intros Hr H Hc. destruct (full_inv_reach _ _ _ Hr H) as [_ _ _ [_ _ Hlv _]]. apply Hlv. exact Hc. Qed.
End Proofs.

(* ================= Status.getError ================= *)
Theorem get_error_iff c thr thrS acc :
  get_error c thr thrS acc <> None <->
  (Z.of_nat (length (completes acc)) < thr \/ Z.of_nat (length (complete_sinks acc)) < thrS)%Z.
Proof.
  unfold get_error.
  destruct (Z.ltb_spec (Z.of_nat (length (completes acc))) thr) as [H1|H1].
  - split; [intros _; left; exact H1|discriminate].
  - destruct (Z.ltb_spec (Z.of_nat (length (complete_sinks acc))) thrS) as [H2|H2].
    + split; [intros _; right; exact H2|discriminate].
    + split; [congruence|]. intros [H|H]; lia.
Qed.

(* the returned error carries the context's error exactly when the context was done *)
Theorem get_error_wraps_ctx c thr thrS acc k c' : get_error c thr thrS acc = Some (k, c') -> c' = c.
Proof.
  unfold get_error. destruct (Z.ltb _ thr); [intros H; inversion H; reflexivity|].
  destruct (Z.ltb _ thrS); [intros H; inversion H; reflexivity|discriminate].
Qed.

(* complete-sinks is the sub-list of the complete ids whose node is a sink *)
Theorem complete_sinks_spec acc :
  complete_sinks acc = completes (filter (fun m => match m with MComplete _ true => true | _ => false end) acc).
Proof.
  unfold complete_sinks, completes. induction acc as [|[e|n [|]] acc IH]; cbn [flat_map filter app]; rewrite ?IH; reflexivity.
Qed.

(* zero thresholds (the default of a new graph) never produce an error *)
Theorem get_error_default c acc : get_error c 0 0 acc = None.
Proof. unfold get_error. destruct (Z.ltb_spec (Z.of_nat (length (completes acc))) 0); [lia|].
       destruct (Z.ltb_spec (Z.of_nat (length (complete_sinks acc))) 0); [lia|reflexivity]. Qed.

(* ================= thresholds (registry model Broker.v) ================= *)
Section Thresholds.
  Variable cf : N -> bool.
  Notation bstep := (Broker.step cf).

  Lemma memN_add_graph ety g : memN ety (add_graph ety g) = true.
  Proof. unfold add_graph. destruct (memN ety g) eqn:E; [exact E|]. cbn. rewrite N.eqb_refl. reflexivity. Qed.

  (* a non-negative threshold is accepted and read back *)
  Theorem threshold_set_get b ety v : ety <> 0%N -> (0 <= v)%Z ->
    snd (fst (bstep b (SetThr ety v))) = ROk /\ get_thr (fst (fst (bstep b (SetThr ety v)))) ety = (v, true) /\
    get_thr_sinks (fst (fst (bstep b (SetThr ety v)))) ety = (snd (thr_of b ety), true).
  Proof.
    intros Hne Hv. cbn [Broker.step]. apply N.eqb_neq in Hne. rewrite Hne. destruct (Z.ltb_spec v 0) as [?|_]; [lia|].
    cbn [orb fst snd]. unfold get_thr, get_thr_sinks, thr_of. cbn [b_graphs b_thr]. rewrite memN_add_graph.
    rewrite (aget_aset_same _ _ _ neqb_spec). auto.
  Qed.
  Theorem threshold_sinks_set_get b ety v : ety <> 0%N -> (0 <= v)%Z ->
    snd (fst (bstep b (SetThrSinks ety v))) = ROk /\ get_thr_sinks (fst (fst (bstep b (SetThrSinks ety v)))) ety = (v, true) /\
    get_thr (fst (fst (bstep b (SetThrSinks ety v)))) ety = (fst (thr_of b ety), true).
  Proof.
    intros Hne Hv. cbn [Broker.step]. apply N.eqb_neq in Hne. rewrite Hne. destruct (Z.ltb_spec v 0) as [?|_]; [lia|].
    cbn [orb fst snd]. unfold get_thr, get_thr_sinks, thr_of. cbn [b_graphs b_thr]. rewrite memN_add_graph.
    rewrite (aget_aset_same _ _ _ neqb_spec). auto.
  Qed.

  (* negative values are rejected and change nothing *)
  Theorem threshold_rejects_negative b ety v : (v < 0)%Z ->
    bstep b (SetThr ety v) = (b, RInvalid, []) /\ bstep b (SetThrSinks ety v) = (b, RInvalid, []).
  Proof.
    intros Hv. cbn [Broker.step]. destruct (Z.ltb_spec v 0) as [_|?]; [|lia]. rewrite orb_true_r. auto.
  Qed.

  (* setting a threshold of one type touches no other type's thresholds, no pipeline and no node *)
  Theorem threshold_frame b ety v o : o = SetThr ety v \/ o = SetThrSinks ety v ->
    b_nodes (fst (fst (bstep b o))) = b_nodes b /\ b_pipes (fst (fst (bstep b o))) = b_pipes b /\
    forall ety', ety' <> ety -> thr_of (fst (fst (bstep b o))) ety' = thr_of b ety'.
  Proof.
    intros [->| ->]; cbn [Broker.step]; destruct (N.eqb ety 0 || Z.ltb v 0); cbn [fst b_nodes b_pipes]; auto;
      (split; [reflexivity|split; [reflexivity|]]); intros ety' Hne; unfold thr_of; cbn [b_thr];
      rewrite (aget_aset_other _ _ _ neqb_spec); auto.
  Qed.

  Definition sets_thr_of (ety : N) (o : op) : bool :=
    match o with SetThr e _ | SetThrSinks e _ => N.eqb e ety | _ => false end.

  (* no other operation changes a type's thresholds *)
  Lemma threshold_kept b o ety : sets_thr_of ety o = false -> thr_of (fst (fst (bstep b o))) ety = thr_of b ety.
  Proof.
    intros Hs. destruct o as [id obj ty pa|id|pid e ids pa|e pid|e pid|e v|e v]; cbn [Broker.step sets_thr_of] in *.
    - destruct (N.eqb id 0); [reflexivity|]. destruct (pol_of pa); [|reflexivity].
      destruct (aget N.eqb id (b_nodes b)) as [u|]; [destruct (nu_pol u)|]; reflexivity.
    - destruct (N.eqb id 0); [reflexivity|]. destruct (aget N.eqb id (b_nodes b)) as [u|]; [|reflexivity].
      destruct (Nat.ltb 0 (nu_rc u)); reflexivity.
    - destruct (N.eqb pid 0 || N.eqb e 0 || match ids with [] => true | _ => false end || memN 0 ids); [reflexivity|].
      destruct (pol_of pa); [|reflexivity].
      destruct (match aget pkeqb (e, pid) (b_pipes b) with Some old => match p_pol old with PDeny => true | PAllow => false end | None => false end); [reflexivity|].
      destruct (resolve ids (b_nodes b)); [|reflexivity]. destruct (negb (valid_shape l)); reflexivity.
    - destruct (N.eqb e 0 || N.eqb pid 0); [reflexivity|]. destruct (negb (memN e (b_graphs b))); [reflexivity|].
      destruct (aget pkeqb (e, pid) (b_pipes b)); reflexivity.
    - destruct (N.eqb e 0 || N.eqb pid 0); [reflexivity|]. destruct (negb (memN e (b_graphs b))); [reflexivity|].
      destruct (aget pkeqb (e, pid) (b_pipes b)) as [old|]; [|reflexivity].
      destruct (unregister_all (distinct (p_ids old)) (b_nodes b) [] true) as [[nodes' closed] ok]. reflexivity.
    - destruct (N.eqb e 0 || Z.ltb v 0); [reflexivity|]. unfold thr_of. cbn [fst b_thr].
      rewrite (aget_aset_other _ _ _ neqb_spec); auto. intros ->. rewrite N.eqb_refl in Hs. discriminate.
    - destruct (N.eqb e 0 || Z.ltb v 0); [reflexivity|]. unfold thr_of. cbn [fst b_thr].
      rewrite (aget_aset_other _ _ _ neqb_spec); auto. intros ->. rewrite N.eqb_refl in Hs. discriminate.
  Qed.

  Lemma thr_run_app ops2 : forall b ety, forallb (fun o => negb (sets_thr_of ety o)) ops2 = true ->
    thr_of (fold_left (fun b o => fst (fst (bstep b o))) ops2 b) ety = thr_of b ety.
  Proof.
    induction ops2 as [|o ops IH]; intros b ety H; cbn [fold_left forallb] in *; [reflexivity|].
    apply andb_true_iff in H as [H1 H2]. rewrite IH; [|exact H2]. apply threshold_kept. apply negb_true_iff. exact H1.
  Qed.

  (* read back as last set, over all histories: whatever happened before, and whatever other operations follow *)
  Theorem threshold_last_set ops1 ops2 ety v : ety <> 0%N -> (0 <= v)%Z ->
    forallb (fun o => negb (sets_thr_of ety o)) ops2 = true ->
    get_thr (run cf (ops1 ++ SetThr ety v :: ops2)) ety = (v, true).
  Proof.
    intros Hne Hv Hrest. unfold run. rewrite fold_left_app. cbn [fold_left].
    set (b1 := fold_left (fun b o => fst (fst (bstep b o))) ops1 b0).
    destruct (threshold_set_get b1 ety v Hne Hv) as [_ [Hg _]].
    set (b2 := fst (fst (bstep b1 (SetThr ety v)))) in *.
    unfold get_thr in *.
    assert (Hmem : forall ops b, memN ety (b_graphs b) = true ->
                   memN ety (b_graphs (fold_left (fun b o => fst (fst (bstep b o))) ops b)) = true).
    { induction ops as [|o ops IH]; intros b Hb; cbn [fold_left]; [exact Hb|]. apply IH.
      destruct o as [id obj ty pa|id|pid e ids pa|e pid|e pid|e v'|e v']; cbn [Broker.step].
      - destruct (N.eqb id 0); [exact Hb|]. destruct (pol_of pa); [|exact Hb].
        destruct (aget N.eqb id (b_nodes b)) as [u|]; [destruct (nu_pol u)|]; exact Hb.
      - destruct (N.eqb id 0); [exact Hb|]. destruct (aget N.eqb id (b_nodes b)) as [u|]; [|exact Hb].
        destruct (Nat.ltb 0 (nu_rc u)); exact Hb.
      - assert (Hadd : memN ety (add_graph e (b_graphs b)) = true).
        { unfold add_graph. destruct (memN e (b_graphs b)); [exact Hb|]. cbn. rewrite Hb. apply orb_true_r. }
        destruct (N.eqb pid 0 || N.eqb e 0 || match ids with [] => true | _ => false end || memN 0 ids); [exact Hb|].
        destruct (pol_of pa); [|exact Hb].
        destruct (match aget pkeqb (e, pid) (b_pipes b) with Some old => match p_pol old with PDeny => true | PAllow => false end | None => false end); [exact Hadd|].
        destruct (resolve ids (b_nodes b)); [|exact Hadd]. destruct (negb (valid_shape l)); exact Hadd.
      - destruct (N.eqb e 0 || N.eqb pid 0); [exact Hb|]. destruct (negb (memN e (b_graphs b))); [exact Hb|].
        destruct (aget pkeqb (e, pid) (b_pipes b)); exact Hb.
      - destruct (N.eqb e 0 || N.eqb pid 0); [exact Hb|]. destruct (negb (memN e (b_graphs b))); [exact Hb|].
        destruct (aget pkeqb (e, pid) (b_pipes b)) as [old|]; [|exact Hb].
        destruct (unregister_all (distinct (p_ids old)) (b_nodes b) [] true) as [[nodes' closed] ok]. exact Hb.
      - destruct (N.eqb e 0 || Z.ltb v' 0); [exact Hb|]. cbn [fst b_graphs]. unfold add_graph.
        destruct (memN e (b_graphs b)); [exact Hb|]. cbn. rewrite Hb. apply orb_true_r.
      - destruct (N.eqb e 0 || Z.ltb v' 0); [exact Hb|]. cbn [fst b_graphs]. unfold add_graph.
        destruct (memN e (b_graphs b)); [exact Hb|]. cbn. rewrite Hb. apply orb_true_r. }
    destruct (memN ety (b_graphs b2)) eqn:Eg; [|inversion Hg].
    rewrite (Hmem ops2 b2 Eg). rewrite (thr_run_app ops2 b2 ety Hrest). exact Hg.
  Qed.
End Thresholds.

(* ================= tie to the registry model: which pipelines a Send dispatches to ================= *)
Section BrokerTie.
  Variable cf : N -> bool.

  Lemma resolve_length ids : forall nodes objs, resolve ids nodes = Some objs -> length objs = length ids.
  Proof.
    induction ids as [|id t IH]; intros nodes objs H; cbn [resolve] in H.
    - inversion H. reflexivity.
    - destruct (aget N.eqb id nodes) as [u|]; [|discriminate]. destruct (resolve t nodes) as [r|] eqn:Er; [|discriminate].
      inversion H; subst. cbn [length]. rewrite (IH _ _ Er). reflexivity.
  Qed.

  (* every registered pipeline was linked with as many objects as it lists ids, and with at least one *)
  Definition pinv (b : broker) : Prop :=
    forall k p, In (k, p) (b_pipes b) -> length (p_objs p) = length (p_ids p) /\ p_objs p <> [].

  Lemma pinv_step b o : pinv b -> pinv (fst (fst (Broker.step cf b o))).
  Proof.
    intros Hi. destruct o as [id obj ty pa|id|pid e ids pa|e pid|e pid|e v|e v]; cbn [Broker.step].
    - destruct (N.eqb id 0); [exact Hi|]. destruct (pol_of pa); [|exact Hi].
      destruct (aget N.eqb id (b_nodes b)) as [u|]; [destruct (nu_pol u)|]; exact Hi.
    - destruct (N.eqb id 0); [exact Hi|]. destruct (aget N.eqb id (b_nodes b)) as [u|]; [|exact Hi].
      destruct (Nat.ltb 0 (nu_rc u)); exact Hi.
    - destruct (N.eqb pid 0 || N.eqb e 0 || match ids with [] => true | _ => false end || memN 0 ids); [exact Hi|].
      destruct (pol_of pa) as [pl|]; [|exact Hi].
      destruct (match aget pkeqb (e, pid) (b_pipes b) with Some old => match p_pol old with PDeny => true | PAllow => false end | None => false end); [exact Hi|].
      destruct (resolve ids (b_nodes b)) as [objs|] eqn:Er; [|exact Hi].
      destruct (valid_shape objs) eqn:Ev; cbn [negb]; [|exact Hi].
      intros k q Hin. cbn [fst b_pipes] in Hin. apply in_aset in Hin as [Heq|Hin]; [|exact (Hi k q Hin)].
      inversion Heq; subst. cbn [p_objs p_ids]. split; [exact (resolve_length _ _ _ Er)|].
      apply valid_shape_spec in Ev as [pre [x [y [-> _]]]]. destruct pre; discriminate.
    - destruct (N.eqb e 0 || N.eqb pid 0); [exact Hi|]. destruct (negb (memN e (b_graphs b))); [exact Hi|].
      destruct (aget pkeqb (e, pid) (b_pipes b)); [|exact Hi].
      intros k q Hin. cbn [fst b_pipes] in Hin. apply (in_adel _ pkeqb_spec) in Hin as [_ Hin]. exact (Hi k q Hin).
    - destruct (N.eqb e 0 || N.eqb pid 0); [exact Hi|]. destruct (negb (memN e (b_graphs b))); [exact Hi|].
      destruct (aget pkeqb (e, pid) (b_pipes b)) as [old|]; [|exact Hi].
      destruct (unregister_all (distinct (p_ids old)) (b_nodes b) [] true) as [[nodes' closed] ok].
      intros k q Hin. cbn [fst b_pipes] in Hin. apply (in_adel _ pkeqb_spec) in Hin as [_ Hin]. exact (Hi k q Hin).
    - destruct (N.eqb e 0 || Z.ltb v 0); exact Hi.
    - destruct (N.eqb e 0 || Z.ltb v 0); exact Hi.
  Qed.

  Lemma pinv_run ops : pinv (Broker.run cf ops).
  Proof.
    unfold Broker.run. assert (H : pinv b0) by (intros k p []).
    revert H. generalize b0. induction ops as [|o ops IH]; intros b Hb; cbn [fold_left]; [exact Hb|].
    apply IH. apply pinv_step. exact Hb.
  Qed.

  Lemma zip_nodes_nonempty ids objs : length objs = length ids -> objs <> [] -> zip_nodes ids objs <> [].
  Proof. destruct ids, objs; cbn; try discriminate; congruence. Qed.

  Lemma zip_nodes_ids ids : forall objs, length objs = length ids -> map nid (zip_nodes ids objs) = ids.
  Proof.
    induction ids as [|i t IH]; intros [|o objs] H; cbn in *; try discriminate; [reflexivity|].
    rewrite IH; [reflexivity|lia].
  Qed.

  (* after every registration history: Send dispatches to exactly the pipelines registered for the type at that moment
     (and to no pipeline of another type), each with its node ids in registration order, and none of them is empty *)
  Theorem roots_of_broker_spec ops ety rs : roots_of_broker (Broker.run cf ops) ety = Some rs ->
    (forall pid ns, In (pid, ns) rs <->
       exists p, In ((ety, pid), p) (b_pipes (Broker.run cf ops)) /\ ns = zip_nodes (p_ids p) (p_objs p)) /\
    (forall pid ns, In (pid, ns) rs -> map nid ns = match aget pkeqb (ety, pid) (b_pipes (Broker.run cf ops)) with
                                                   | Some p => p_ids p | None => [] end) /\
    roots_ok rs.
  Proof.
    unfold roots_of_broker. destruct (memN ety (b_graphs (Broker.run cf ops))); [|discriminate].
    intros H. inversion H; subst rs. clear H.
    assert (Hspec : forall pid ns, In (pid, ns) (map (fun ip => (fst ip, zip_nodes (p_ids (snd ip)) (p_objs (snd ip)))) (pipes_of (Broker.run cf ops) ety)) <->
                    exists p, In ((ety, pid), p) (b_pipes (Broker.run cf ops)) /\ ns = zip_nodes (p_ids p) (p_objs p)).
    { intros pid ns. rewrite in_map_iff. split.
      - intros [[pid' p] [Heq Hin]]. cbn [fst snd] in Heq. inversion Heq; subst. exists p. split; [|reflexivity]. apply pipes_of_in. exact Hin.
      - intros [p [Hin ->]]. exists (pid, p). split; [reflexivity|]. apply pipes_of_in. exact Hin. }
    split; [exact Hspec|]. split.
    - intros pid ns Hin. apply Hspec in Hin as [p [Hin ->]].
      pose proof (bi_pk _ (binv_run cf ops)) as Hk. change (BrokerProofs.run cf ops) with (Broker.run cf ops) in Hk.
      rewrite (in_aget _ pkeqb_spec _ _ _ Hk Hin).
      apply zip_nodes_ids. apply (pinv_run ops _ _ Hin).
    - intros r Hin. destruct r as [pid ns]. apply Hspec in Hin as [p [Hin ->]]. cbn [snd].
      destruct (pinv_run ops _ _ Hin) as [Hl Hne]. apply zip_nodes_nonempty; assumption.
  Qed.

  (* a type without graph: Send has nothing to dispatch to *)
  Theorem no_graph_no_roots b ety : memN ety (b_graphs b) = false -> roots_of_broker b ety = None.
  Proof. unfold roots_of_broker. intros ->. reflexivity. Qed.
End BrokerTie.

(* ================= the C03 statements over reachable states ================= *)
Section ReachForms.
  Variable beh : N -> N -> N -> outcome.
  Variable e0 : N -> N.
  Theorem progress_reach roots c0 s : roots_ok roots -> reach beh e0 roots c0 s ->
    terminal s \/ in_process s \/ exists s', internal_step beh e0 s s'.
  Proof. intros Hr H. exact (progress beh e0 s (inv_reach beh e0 roots c0 s Hr H)). Qed.
  Theorem can_terminate_reach roots c0 s : roots_ok roots -> reach beh e0 roots c0 s ->
    exists n s', steps beh e0 n s s' /\ terminal s'.
  Proof. intros Hr H. exact (can_terminate beh e0 s (inv_reach beh e0 roots c0 s Hr H)). Qed.
  Theorem terminal_no_goroutine_reach roots c0 s : roots_ok roots -> reach beh e0 roots c0 s -> terminal s ->
    wg s = 0 /\ forall t, In t (tasks s) -> exists f, tstage t = SDone f.
  Proof. intros Hr H. exact (terminal_no_goroutine s (inv_reach beh e0 roots c0 s Hr H)). Qed.
  Theorem no_send_after_close_reach roots c0 s t m : roots_ok roots -> reach beh e0 roots c0 s ->
    rng s = RClosed -> In t (tasks s) -> tstage t <> SSend m.
  Proof. intros Hr H. exact (no_send_after_close s t m (inv_reach beh e0 roots c0 s Hr H)). Qed.
End ReachForms.
