(* DispatchProofs.v — proofs about the dispatch protocol of Dispatch.v, for any number of pipelines and nodes, any
   node behaviour and any schedule (= any finite sequence of enabled steps):
     C03: step_measure / executions_bounded, inv_reach, progress, can_terminate, collector_returns_on_cancel,
          terminal_no_goroutine, no_send_after_close, reaches_terminal
     C02: status_sound, status_never_invented, status_complete_uncancelled, get_error_*, threshold_*
     C01: traverse_*, calls_are_traversal, call_log_sound, send_traverses_exactly
   and exec_sound (the executable step function used by the trace acceptor only takes steps of the relation). *)
From Coq Require Import List Bool Arith NArith ZArith Lia Permutation.
From Verif Require Import Alist Broker BrokerProofs Dispatch.
Import ListNotations.

Ltac step_cases H :=
  destruct H as [s Hc|s rem j p ns Hr Hn|s rem Hr Hw|s i t n rest Hn Hs Ht|s i t n rest Hn Hs Ht|s i t m acc Hn Hs Hc
                |s i t m Hn Hs Hc|s i t f Hn Hs|s Hr Hw|s acc Hc Hx|s acc Hc Hr|s acc Hc].

(* ---------- list helpers ---------- *)
Lemma In_upd {A} (l : list A) i x y : In y (upd_nth i x l) -> y = x \/ In y l.
Proof.
  revert i; induction l as [|z l IH]; intros [|i]; cbn; intros H; auto.
  - destruct H as [<-|H]; auto.
  - destruct H as [<-|H]; auto. destruct (IH _ H); auto.
Qed.

Lemma nth_del_perm {A} (l : list A) j x : nth_error l j = Some x -> Permutation (x :: del_nth j l) l.
Proof.
  revert j; induction l as [|y l IH]; intros [|j] H; cbn in *; try discriminate.
  - inversion H; subst. apply Permutation_refl.
  - eapply Permutation_trans; [apply perm_swap|]. apply perm_skip. apply IH. exact H.
Qed.

Lemma In_del {A} (l : list A) j y : In y (del_nth j l) -> In y l.
Proof.
  revert j; induction l as [|z l IH]; intros [|j]; cbn; intros H; auto.
  destruct H as [<-|H]; auto. right. eapply IH; eauto.
Qed.

Section Proofs.
  Variable beh : N -> N -> N -> outcome.
  Variable e0 : N.

  Notation step := (step beh e0).
  Notation reach := (reach beh e0).
  Notation steps := (steps beh e0).
  Notation node_return := (node_return beh).
  Notation traverse := (traverse beh).

  Lemma node_return_cases t n rest :
    (exists m, node_return t n rest = (with_stage t (SSend m), None)) \/
    (exists e', rest <> [] /\ node_return t n rest = (with_stage t (SFin FSpawned), Some (child_of t rest e'))).
  Proof.
    unfold Dispatch.node_return. destruct (beh (tpipe t) (tpos t) (tev t)) as [e'| |x].
    - destruct rest as [|n2 rest]; [left; eexists; reflexivity|]. right. exists e'. split; [discriminate|reflexivity].
    - left; eexists; reflexivity.
    - left; eexists; reflexivity.
  Qed.

  (* ---------- measure ---------- *)
  Definition tweight (t : task) : nat :=
    match tstage t with
    | SNew => 3 * length (tnodes t) + 1
    | SRun => 3 * length (tnodes t)
    | SSend _ => 2
    | SFin _ => 1
    | SDone _ => 0
    end.
  Definition sumw (l : list task) : nat := fold_right (fun t a => tweight t + a) 0 l.
  Definition rootsw (roots : list root) : nat := fold_right (fun r a => 3 * length (snd r) + 2 + a) 0 roots.
  Definition rweight (r : ranger) : nat :=
    match r with
    | RRange roots | RInRoot roots => rootsw roots + 2
    | RWait => 1
    | RClosed => 0
    end.
  Definition cweight (c : collector) : nat := match c with CCollect _ => 2 | CExit _ => 1 | CRet => 0 end.
  Definition bw (b : bool) : nat := if b then 0 else 1.
  Definition measure (s : st) : nat :=
    bw (ctx s) + cweight (coll s) + rweight (rng s) + sumw (tasks s).

  Lemma sumw_app l1 l2 : sumw (l1 ++ l2) = sumw l1 + sumw l2.
  Proof. induction l1 as [|t l1 IH]; cbn; [reflexivity|]. unfold sumw in *. cbn. rewrite IH. lia. Qed.

  Lemma sumw_upd l i t t' : nth_error l i = Some t -> sumw (upd_nth i t' l) + tweight t = sumw l + tweight t'.
  Proof.
    revert i; induction l as [|x l IH]; intros [|i] H; cbn in *; try discriminate.
    - inversion H; subst. unfold sumw; cbn. lia.
    - specialize (IH _ H). unfold sumw in *; cbn. lia.
  Qed.

  Lemma rootsw_cons r l : rootsw (r :: l) = 3 * length (snd r) + 2 + rootsw l.
  Proof. reflexivity. Qed.

  Lemma rootsw_del (rem : list root) j p ns : nth_error rem j = Some (p, ns) -> rootsw (del_nth j rem) + (3 * length ns + 2) = rootsw rem.
  Proof.
    revert j; induction rem as [|x l IH]; intros [|j] H; cbn [nth_error del_nth] in *; try discriminate.
    - inversion H; subst. rewrite rootsw_cons. cbn [snd]. lia.
    - specialize (IH _ H). rewrite !rootsw_cons. lia.
  Qed.

  Lemma rweight_resume r : rweight (resume r) = rweight r.
  Proof. destruct r; reflexivity. Qed.

  Theorem step_measure s s' : step s s' -> measure s' < measure s.
  Proof.
    intros H. step_cases H; unfold measure; cbn [ctx coll result rng tasks wg].
    - rewrite Hc. cbn [bw]. lia.
    - rewrite Hr. rewrite sumw_app. cbn [rweight]. pose proof (rootsw_del _ _ _ _ Hn) as Hd.
      cbn [sumw fold_right tweight new_root tstage tnodes]. lia.
    - rewrite Hr. cbn [rweight]. lia.
    - pose proof (sumw_upd _ _ _ (called t n) Hn) as Hu.
      assert (Hw1 : tweight (called t n) + 1 = tweight t) by (unfold tweight; cbn [called tstage tnodes]; rewrite Hs; lia).
      lia.
    - rewrite sumw_app.
      pose proof (sumw_upd _ _ _ (fst (node_return t n rest)) Hn) as Hu.
      assert (Hw : tweight (fst (node_return t n rest)) + sumw (opt_list (snd (node_return t n rest))) < tweight t).
      { destruct (node_return_cases t n rest) as [[m0 E]|[e' [Hne E]]]; rewrite E; cbn [fst snd opt_list sumw fold_right].
        - unfold tweight. cbn [with_stage tstage]. rewrite Hs, Ht. cbn [length]. lia.
        - unfold tweight. cbn [with_stage child_of tstage tnodes]. rewrite Hs, Ht. cbn [length]. lia. }
      lia.
    - pose proof (sumw_upd _ _ _ (with_stage t (SFin (FSent m))) Hn) as Hu.
      assert (Hw1 : tweight (with_stage t (SFin (FSent m))) = 1) by reflexivity.
      assert (Hw2 : tweight t = 2) by (unfold tweight; rewrite Hs; reflexivity).
      rewrite Hc. cbn [cweight]. lia.
    - pose proof (sumw_upd _ _ _ (with_stage t (SFin FAborted)) Hn) as Hu.
      assert (Hw1 : tweight (with_stage t (SFin FAborted)) = 1) by reflexivity.
      assert (Hw2 : tweight t = 2) by (unfold tweight; rewrite Hs; reflexivity).
      lia.
    - pose proof (sumw_upd _ _ _ (with_stage t (SDone f)) Hn) as Hu.
      assert (Hw1 : tweight (with_stage t (SDone f)) = 0) by reflexivity.
      assert (Hw2 : tweight t = 1) by (unfold tweight; rewrite Hs; reflexivity).
      assert (Hrw : rweight (if troot t then resume (rng s) else rng s) = rweight (rng s))
        by (destruct (troot t); [apply rweight_resume|reflexivity]).
      rewrite Hrw. lia.
    - rewrite Hr. cbn [rweight]. lia.
    - rewrite Hc. cbn [cweight]. lia.
    - rewrite Hc. cbn [cweight]. lia.
    - rewrite Hc. cbn [cweight]. lia.
  Qed.

  (* every execution is finite: it has at most [measure] steps *)
  Theorem executions_bounded n s s' : steps n s s' -> n + measure s' <= measure s.
  Proof.
    induction 1 as [|n s s' s'' H1 H2 IH]; [lia|].
    pose proof (step_measure _ _ H1). lia.
  Qed.

  (* ---------- invariants ---------- *)
  Definition live (t : task) : bool := match tstage t with SDone _ => false | _ => true end.
  Definition liveroot (t : task) : bool := live t && troot t.
  Definition b2n (b : bool) : nat := if b then 1 else 0.
  Fixpoint count (f : task -> bool) (l : list task) : nat :=
    match l with [] => 0 | t :: r => b2n (f t) + count f r end.

  Lemma count_app f l1 l2 : count f (l1 ++ l2) = count f l1 + count f l2.
  Proof. induction l1 as [|t l1 IH]; cbn; [reflexivity|]. rewrite IH. lia. Qed.

  Lemma count_upd f l i t t' : nth_error l i = Some t ->
    count f (upd_nth i t' l) + b2n (f t) = count f l + b2n (f t').
  Proof.
    revert i; induction l as [|x l IH]; intros [|i] H; cbn in *; try discriminate.
    - inversion H; subst. lia.
    - specialize (IH _ H). lia.
  Qed.

  Lemma count_zero f l : count f l = 0 -> forall t, In t l -> f t = false.
  Proof.
    induction l as [|x l IH]; cbn; intros Hc t Hin; [contradiction|].
    destruct Hin as [->|Hin].
    - destruct (f t); cbn in Hc; [lia|reflexivity].
    - apply IH; [lia|assumption].
  Qed.

  Lemma count_all_false f l : (forall t, In t l -> f t = false) -> count f l = 0.
  Proof.
    induction l as [|x l IH]; intros H; cbn; [reflexivity|].
    rewrite (H x (or_introl eq_refl)). rewrite IH; [reflexivity|]. intros t Ht. apply H. right. exact Ht.
  Qed.

  Definition roots_of (r : ranger) : list root := match r with RRange l | RInRoot l => l | _ => [] end.

  Record inv (s : st) : Prop := {
    inv_wg : wg s = count live (tasks s);
    inv_root : count liveroot (tasks s) = match rng s with RInRoot _ => 1 | _ => 0 end;
    inv_coll : match coll s with CCollect _ => True | _ => ctx s = true \/ (rng s = RClosed /\ count live (tasks s) = 0) end;
    inv_closed : rng s = RClosed -> count live (tasks s) = 0;
    inv_nodes : forall t, In t (tasks s) -> tnodes t <> [];
    inv_roots : forall r, In r (roots_of (rng s)) -> snd r <> [];
  }.

  Definition roots_ok (roots : list root) : Prop := forall r, In r roots -> snd r <> [].

  Lemma inv_init roots c0 : roots_ok roots -> inv (init roots c0).
  Proof. intros Hr. constructor; cbn; auto; try discriminate; try contradiction. Qed.

  Lemma resume_roots r x : In x (roots_of (resume r)) -> In x (roots_of r).
  Proof. destruct r; cbn; auto. Qed.

  (* a task that changes stage without finishing *)
  Lemma inv_restage s i t sg :
    inv s -> nth_error (tasks s) i = Some t -> live t = true -> live (with_stage t sg) = true ->
    forall c cl sk, (match c with CCollect _ => True | _ => match coll s with CCollect _ => ctx s = true | _ => True end end) ->
    inv {| ctx := ctx s; coll := c; result := result s; rng := rng s;
           tasks := upd_nth i (with_stage t sg) (tasks s); wg := wg s; clog := cl; skipped := sk |}.
  Proof.
    intros [Hwg Hroot Hcoll Hclosed Hnodes Hroots] Hn Hl Hl' c cl sk Hcc.
    pose proof (count_upd live _ _ _ (with_stage t sg) Hn) as Hcl. rewrite Hl, Hl' in Hcl.
    pose proof (count_upd liveroot _ _ _ (with_stage t sg) Hn) as Hcr.
    assert (E : liveroot (with_stage t sg) = liveroot t) by (unfold liveroot; rewrite Hl, Hl'; reflexivity).
    rewrite E in Hcr.
    constructor; cbn [ctx coll result rng tasks wg].
    - lia.
    - lia.
    - destruct c; auto; destruct (coll s); auto;
        destruct Hcoll as [?|[Hx Hz]]; auto; exfalso; pose proof (count_zero _ _ Hz t (nth_error_In _ _ Hn)); congruence.
    - intros Hx. exfalso. pose proof (count_zero _ _ (Hclosed Hx) t (nth_error_In _ _ Hn)). congruence.
    - intros t0 Hin. apply In_upd in Hin as [->|Hin]; auto. cbn. apply Hnodes. eapply nth_error_In; eauto.
    - exact Hroots.
  Qed.

  Theorem inv_step s s' : inv s -> step s s' -> inv s'.
  Proof.
    intros Hinv H. pose proof Hinv as [Hwg Hroot Hcoll Hclosed Hnodes Hroots]. step_cases H.
    - (* cancel *) constructor; cbn; auto. destruct (coll s); auto.
    - (* start *) constructor; cbn [ctx coll result rng tasks wg].
      + rewrite count_app. cbn. lia.
      + rewrite count_app. rewrite Hr in Hroot. cbn. lia.
      + destruct (coll s); auto; (destruct Hcoll as [?|[Hx _]]; auto; rewrite Hr in Hx; discriminate).
      + discriminate.
      + intros t Hin. apply in_app_or in Hin as [Hin|[<-|[]]]; auto. cbn.
        apply (Hroots (p, ns)). rewrite Hr. cbn. eapply nth_error_In; eauto.
      + intros r Hin. apply Hroots. rewrite Hr. cbn in *. eapply In_del; eauto.
    - (* wait *) constructor; cbn [ctx coll result rng tasks wg].
      + exact Hwg.
      + rewrite Hr in Hroot. exact Hroot.
      + destruct (coll s); auto; (destruct Hcoll as [?|[Hx _]]; auto; rewrite Hr in Hx; discriminate).
      + discriminate.
      + exact Hnodes.
      + intros r [].
    - (* call *)
      assert (Hl : live t = true) by (unfold live; rewrite Hs; reflexivity).
      pose proof (count_upd live _ _ _ (called t n) Hn) as Hcl. rewrite Hl in Hcl.
      assert (Hl' : live (called t n) = true) by reflexivity. rewrite Hl' in Hcl.
      pose proof (count_upd liveroot _ _ _ (called t n) Hn) as Hcr.
      assert (E2 : liveroot (called t n) = liveroot t) by (unfold liveroot; rewrite Hl, Hl'; reflexivity).
      rewrite E2 in Hcr.
      constructor; cbn [ctx coll result rng tasks wg].
      + lia.
      + lia.
      + destruct (coll s); auto; destruct Hcoll as [?|[Hx Hz]]; auto; exfalso;
          pose proof (count_zero _ _ Hz t (nth_error_In _ _ Hn)); congruence.
      + intros Hx. exfalso. pose proof (count_zero _ _ (Hclosed Hx) t (nth_error_In _ _ Hn)). congruence.
      + intros t0 Hin. apply In_upd in Hin as [->|Hin]; auto. cbn. apply Hnodes. eapply nth_error_In; eauto.
      + exact Hroots.
    - (* node returned *)
      assert (Hl : live t = true) by (unfold live; rewrite Hs; reflexivity).
      destruct (node_return_cases t n rest) as [[m0 E]|[e' [Hne E]]]; rewrite E; cbn [fst snd opt_list length].
      + rewrite app_nil_r. cbn [plus]. apply inv_restage; auto. destruct (coll s); auto.
      + pose proof (count_upd live _ _ _ (with_stage t (SFin FSpawned)) Hn) as Hcl. rewrite Hl in Hcl.
        assert (Hl' : live (with_stage t (SFin FSpawned)) = true) by reflexivity. rewrite Hl' in Hcl.
        pose proof (count_upd liveroot _ _ _ (with_stage t (SFin FSpawned)) Hn) as Hcr.
        assert (E2 : liveroot (with_stage t (SFin FSpawned)) = liveroot t) by (unfold liveroot; rewrite Hl, Hl'; reflexivity).
        rewrite E2 in Hcr.
        constructor; cbn [ctx coll result rng tasks wg].
        * rewrite count_app. cbn. lia.
        * rewrite count_app. cbn. lia.
        * destruct (coll s); auto; destruct Hcoll as [?|[Hx Hz]]; auto; exfalso;
            pose proof (count_zero _ _ Hz t (nth_error_In _ _ Hn)); congruence.
        * intros Hx. exfalso. pose proof (count_zero _ _ (Hclosed Hx) t (nth_error_In _ _ Hn)). congruence.
        * intros t0 Hin. apply in_app_or in Hin as [Hin|[<-|[]]].
          -- apply In_upd in Hin as [->|Hin]; auto. cbn. apply Hnodes. eapply nth_error_In; eauto.
          -- cbn. exact Hne.
        * exact Hroots.
    - (* handoff *)
      assert (Hl : live t = true) by (unfold live; rewrite Hs; reflexivity).
      apply (inv_restage s i t (SFin (FSent m)) Hinv Hn Hl eq_refl (CCollect (acc ++ [m])) (clog s) (skipped s)). exact I.
    - (* abort *)
      assert (Hl : live t = true) by (unfold live; rewrite Hs; reflexivity).
      apply (inv_restage s i t (SFin FAborted) Hinv Hn Hl eq_refl (coll s) (clog s) (skipped s)). destruct (coll s); auto.
    - (* exit *)
      assert (Hl : live t = true) by (unfold live; rewrite Hs; reflexivity).
      set (t' := with_stage t (SDone f)).
      pose proof (count_upd live _ _ _ t' Hn) as Hcl. rewrite Hl in Hcl.
      assert (E0 : live t' = false) by reflexivity. rewrite E0 in Hcl. cbn [b2n] in Hcl.
      pose proof (count_upd liveroot _ _ _ t' Hn) as Hcr.
      assert (E1 : liveroot t = troot t) by (unfold liveroot; rewrite Hl; reflexivity).
      assert (E2 : liveroot t' = false) by reflexivity.
      rewrite E1, E2 in Hcr. cbn [b2n] in Hcr.
      constructor; cbn [ctx coll result rng tasks wg].
      + lia.
      + destruct (troot t) eqn:Et; cbn [b2n] in Hcr.
        * destruct (rng s) eqn:Er; cbn [resume]; lia.
        * lia.
      + destruct (coll s); auto; (destruct Hcoll as [?|[Hx Hz]]; auto; exfalso;
        pose proof (count_zero _ _ Hz t (nth_error_In _ _ Hn)); congruence).
      + intros Hx. exfalso.
        assert (Hrc : rng s = RClosed).
        { destruct (troot t); auto. destruct (rng s); cbn in Hx; congruence. }
        pose proof (count_zero _ _ (Hclosed Hrc) t (nth_error_In _ _ Hn)). congruence.
      + intros t0 Hin. apply In_upd in Hin as [->|Hin]; auto. cbn. apply Hnodes. eapply nth_error_In; eauto.
      + intros r Hin. apply Hroots. destruct (troot t); auto. apply resume_roots. exact Hin.
    - (* close *) constructor; cbn [ctx coll result rng tasks wg].
      + exact Hwg.
      + rewrite Hr in Hroot. exact Hroot.
      + destruct (coll s); auto; (destruct Hcoll as [Hc1|[Hx Hz]]; [left; exact Hc1|right; split; [reflexivity|exact Hz]]).
      + intros _. lia.
      + exact Hnodes.
      + intros r [].
    - (* collector: ctx done *) constructor; cbn; auto.
    - (* collector: channel closed *) constructor; cbn; auto.
    - (* return *) constructor; cbn; auto. rewrite Hc in Hcoll. exact Hcoll.
  Qed.

  Theorem inv_reach roots c0 s : roots_ok roots -> reach roots c0 s -> inv s.
  Proof.
    intros Hr H. induction H as [|s s' _ IH Hs]; [apply inv_init; assumption|].
    eapply inv_step; eauto.
  Qed.

  (* ---------- progress: no deadlock, no lost wake-up ---------- *)
  Lemma find_task (P : task -> bool) (l : list task) :
    (exists i t, nth_error l i = Some t /\ P t = true) \/ (forall t, In t l -> P t = false).
  Proof.
    induction l as [|x l IH].
    - right. intros t [].
    - destruct (P x) eqn:E.
      + left. exists 0, x. split; [reflexivity|assumption].
      + destruct IH as [[i [t [Hn Hp]]]|Hall].
        * left. exists (S i), t. split; assumption.
        * right. intros t [<-|Hin]; auto.
  Qed.

  (* a step that does not wait for the environment: anything but a node returning from Process *)
  Inductive internal_step : st -> st -> Prop :=
  | IStep s s' : step s s' -> (forall i t, nth_error (tasks s) i = Some t -> tstage t = SRun ->
                               nth_error (tasks s') i = Some t) -> internal_step s s'.

  Definition in_process (s : st) : Prop := exists t, In t (tasks s) /\ tstage t = SRun.

  Lemma nth_upd_other {A} (l : list A) i j x : i <> j -> nth_error (upd_nth i x l) j = nth_error l j.
  Proof.
    revert i j; induction l as [|y l IH]; intros [|i] [|j] H; cbn; auto; try congruence.
  Qed.
  Lemma nth_upd_same {A} (l : list A) i x y : nth_error l i = Some y -> nth_error (upd_nth i x l) i = Some x.
  Proof. revert i; induction l as [|z l IH]; intros [|i] H; cbn in *; try discriminate; auto. Qed.

  Lemma keeps_running (ts : list task) i t t' : nth_error ts i = Some t -> tstage t <> SRun ->
    forall j u, nth_error ts j = Some u -> tstage u = SRun -> nth_error (upd_nth i t' ts) j = Some u.
  Proof.
    intros Hn Hs j u Hj Hu. destruct (Nat.eq_dec i j) as [->|Hne].
    - exfalso. rewrite Hn in Hj. inversion Hj; subst. contradiction.
    - rewrite nth_upd_other; auto.
  Qed.

  (* Every reachable state is terminal, or can take a step.  More precisely: unless some node is still inside
     Process (the only thing the protocol ever waits for), a step that involves no node return is enabled. *)
  Theorem progress s : inv s -> terminal s \/ in_process s \/ exists s', internal_step s s'.
  Proof.
    intros [Hwg Hroot Hcoll Hclosed Hnodes Hroots].
    destruct (find_task (fun t => match tstage t with SRun => true | _ => false end) (tasks s)) as [[i [t [Hn Hp]]]|Hnorun].
    { right. left. exists t. split; [eapply nth_error_In; eauto|]. destruct (tstage t); try discriminate. reflexivity. }
    destruct (find_task (fun t => match tstage t with SNew => true | _ => false end) (tasks s)) as [[i [t [Hn Hp]]]|Hnonew].
    { right. right. destruct (tstage t) eqn:Es; try discriminate.
      destruct (tnodes t) as [|n rest] eqn:En; [exfalso; apply (Hnodes t (nth_error_In _ _ Hn)); exact En|].
      eexists. constructor; [eapply StCall; eauto|]. cbn [tasks]. apply (keeps_running _ _ _ _ Hn). congruence. }
    destruct (find_task (fun t => match tstage t with SSend _ => true | _ => false end) (tasks s)) as [[i [t [Hn Hp]]]|Hnosend].
    { right. right. destruct (tstage t) as [| |m| |] eqn:Es; try discriminate.
      destruct (coll s) as [acc|acc|] eqn:Ec.
      - eexists. constructor; [eapply StHandoff; eauto|]. cbn [tasks]. apply (keeps_running _ _ _ _ Hn). congruence.
      - destruct Hcoll as [Hctx|[Hrc Hz]].
        + eexists. constructor; [eapply StAbort; eauto|]. cbn [tasks]. apply (keeps_running _ _ _ _ Hn). congruence.
        + exfalso. pose proof (count_zero _ _ Hz t (nth_error_In _ _ Hn)) as Hl. unfold live in Hl. rewrite Es in Hl. discriminate.
      - destruct Hcoll as [Hctx|[Hrc Hz]].
        + eexists. constructor; [eapply StAbort; eauto|]. cbn [tasks]. apply (keeps_running _ _ _ _ Hn). congruence.
        + exfalso. pose proof (count_zero _ _ Hz t (nth_error_In _ _ Hn)) as Hl. unfold live in Hl. rewrite Es in Hl. discriminate. }
    destruct (find_task (fun t => match tstage t with SFin _ => true | _ => false end) (tasks s)) as [[i [t [Hn Hp]]]|Hnofin].
    { right. right. destruct (tstage t) as [| | |f|] eqn:Es; try discriminate.
      eexists. constructor; [eapply StExit; eauto|]. cbn [tasks]. apply (keeps_running _ _ _ _ Hn). congruence. }
    (* all tasks have returned *)
    assert (Hlive : count live (tasks s) = 0).
    { apply count_all_false. intros t Hin. specialize (Hnorun t Hin). specialize (Hnonew t Hin).
      specialize (Hnosend t Hin). specialize (Hnofin t Hin). unfold live. destruct (tstage t); congruence. }
    assert (Hlr : count liveroot (tasks s) = 0).
    { apply count_all_false. intros t Hin. unfold liveroot. rewrite (count_zero _ _ Hlive t Hin). reflexivity. }
    destruct (rng s) as [[|[p ns] rest]|rest| |] eqn:Er.
    - right. right. eexists. constructor; [eapply StWait; eauto|]. cbn [tasks]. auto.
    - right. right. eexists. constructor; [eapply (StStart _ _ s _ 0 p ns); eauto; reflexivity|]. cbn [tasks].
      intros i t Hn Hs. rewrite nth_error_app1; auto. apply nth_error_Some. congruence.
    - exfalso. rewrite Hlr in Hroot. discriminate.
    - right. right. eexists. constructor; [apply StClose; [exact Er|]; rewrite Hwg; exact Hlive|]. cbn [tasks]. auto.
    - destruct (coll s) as [acc|acc|] eqn:Ec.
      + right. right. eexists. constructor; [eapply StCollClosed; eauto|]. cbn [tasks]. auto.
      + right. right. eexists. constructor; [eapply StReturn; eauto|]. cbn [tasks]. auto.
      + left. split; assumption.
  Qed.

  (* the node returns are always enabled too: a state is stuck only if it is terminal *)
  Corollary progress_any s : inv s -> terminal s \/ exists s', step s s'.
  Proof.
    intros Hi. destruct (progress s Hi) as [Ht|[[t [Hin Hs]]|[s' Hs]]]; auto.
    - right. destruct (In_nth_error _ _ Hin) as [i Hn].
      destruct (tnodes t) as [|n rest] eqn:En; [exfalso; apply (inv_nodes _ Hi t Hin); exact En|].
      eexists. eapply StRet; eauto.
    - right. destruct Hs as [s s' Hs _]. eauto.
  Qed.

  (* C03: once the context is done the collector can leave its loop and return at once, whatever the nodes are doing *)
  Theorem collector_returns_on_cancel s acc :
    coll s = CCollect acc -> ctx s = true ->
    exists s1 s2, step s s1 /\ step s1 s2 /\ coll s2 = CRet /\ result s2 = Some (acc, true) /\ tasks s2 = tasks s.
  Proof.
    intros Hc Hx. eexists. eexists. split; [eapply StCollCancel; eauto|]. split; [eapply StReturn; reflexivity|].
    cbn. rewrite Hx. auto.
  Qed.

  (* C03: the collector also returns when everything has finished *)
  Theorem collector_returns_when_done s acc :
    coll s = CCollect acc -> rng s = RClosed ->
    exists s1 s2, step s s1 /\ step s1 s2 /\ coll s2 = CRet /\ result s2 = Some (acc, ctx s).
  Proof.
    intros Hc Hx. eexists. eexists. split; [eapply StCollClosed; eauto|]. split; [eapply StReturn; reflexivity|].
    cbn. auto.
  Qed.

  (* C03: in a terminal state nothing is left running and the wait group is balanced *)
  Theorem terminal_no_goroutine s : inv s -> terminal s ->
    wg s = 0 /\ forall t, In t (tasks s) -> exists f, tstage t = SDone f.
  Proof.
    intros [Hwg _ _ Hclosed _ _] [_ Hr]. specialize (Hclosed Hr). split; [lia|].
    intros t Hin. pose proof (count_zero _ _ Hclosed t Hin) as Hl. unfold live in Hl.
    destruct (tstage t); try discriminate. eauto.
  Qed.

  (* the two ways the real code could panic are excluded: no status is pending once the channel is closed
     (send on closed channel), and the wait group equals the number of live invocations (never negative) *)
  Theorem no_send_after_close s t m : inv s -> rng s = RClosed -> In t (tasks s) -> tstage t <> SSend m.
  Proof.
    intros [_ _ _ Hclosed _ _] Hr Hin Hs. pose proof (count_zero _ _ (Hclosed Hr) t Hin) as Hl.
    unfold live in Hl. rewrite Hs in Hl. discriminate.
  Qed.

  Theorem wg_counts_live roots c0 s : roots_ok roots -> reach roots c0 s -> wg s = count live (tasks s).
  Proof. intros Hr H. exact (inv_wg _ (inv_reach _ _ _ Hr H)). Qed.

  (* every maximal execution ends in a terminal state *)
  Theorem reaches_terminal roots c0 s :
    roots_ok roots -> reach roots c0 s -> (forall s', ~ step s s') -> terminal s.
  Proof.
    intros Hr Hreach Hstuck. destruct (progress_any s (inv_reach _ _ _ Hr Hreach)) as [Ht|[s' Hs]]; auto.
    exfalso. exact (Hstuck s' Hs).
  Qed.

  (* from every reachable state a terminal state can be reached (and by executions_bounded no execution is infinite) *)
  Theorem can_terminate s : inv s -> exists n s', steps n s s' /\ terminal s'.
  Proof.
    remember (measure s) as k eqn:Hk. revert s Hk.
    induction k as [k IH] using lt_wf_ind. intros s Hk Hi.
    destruct (progress_any s Hi) as [Ht|[s' Hs]].
    - exists 0, s. split; [constructor|exact Ht].
    - pose proof (step_measure _ _ Hs) as Hm.
      destruct (IH (measure s') ltac:(lia) s' eq_refl (inv_step _ _ Hi Hs)) as [n [s'' [Hss Ht]]].
      exists (S n), s''. split; [econstructor; eauto|exact Ht].
  Qed.
End Proofs.
