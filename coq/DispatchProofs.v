(* DispatchProofs.v — proofs about the dispatch protocol of Dispatch.v, for any number of pipelines and nodes, any
   node behaviour and any schedule (= any finite sequence of enabled steps):
     C03: step_measure / executions_bounded, inv_reach, progress, can_terminate, collector_returns_on_cancel,
          terminal_no_goroutine, no_send_after_close, reaches_terminal
     C02: status_sound, status_never_invented, status_complete_uncancelled, get_error_*, threshold_*
     C01: traverse_*, calls_are_traversal, call_log_sound, send_traverses_exactly
   and exec_sound (the executable step function used by the trace acceptor only takes steps of the relation). *)
From Coq Require Import List Bool Arith NArith ZArith Lia Permutation.
From Verif Require Import Alist Broker BrokerProofs Dispatch.
Import ListNotations.

Ltac step_cases H :=
  destruct H as [s Hc|s rem j p ns Hr Hn|s rem Hr Hw|s i t n rest Hn Hs Ht|s i t n rest Hn Hs Ht|s i t m acc Hn Hs Hc
                |s i t m Hn Hs Hc|s i t f Hn Hs|s Hr Hw|s acc Hc Hx|s acc Hc Hr|s acc Hc].

(* ---------- list helpers ---------- *)
Lemma In_upd {A} (l : list A) i x y : In y (upd_nth i x l) -> y = x \/ In y l.
Proof.
  revert i; induction l as [|z l IH]; intros [|i]; cbn; intros H; auto.
  - destruct H as [<-|H]; auto.
  - destruct H as [<-|H]; auto. destruct (IH _ H); auto.
Qed.

Lemma nth_del_perm {A} (l : list A) j x : nth_error l j = Some x -> Permutation (x :: del_nth j l) l.
Proof.
  revert j; induction l as [|y l IH]; intros [|j] H; cbn in *; try discriminate.
  - inversion H; subst. apply Permutation_refl.
  - eapply Permutation_trans; [apply perm_swap|]. apply perm_skip. apply IH. exact H.
Qed.

Lemma In_del {A} (l : list A) j y : In y (del_nth j l) -> In y l.
Proof.
  revert j; induction l as [|z l IH]; intros [|j]; cbn; intros H; auto.
  destruct H as [<-|H]; auto. right. eapply IH; eauto.
Qed.

Section Proofs.
  Variable beh : N -> N -> N -> outcome.
  Variable e0 : N.

  Notation step := (step beh e0).
  Notation reach := (reach beh e0).
  Notation steps := (steps beh e0).
  Notation node_return := (node_return beh).
  Notation traverse := (traverse beh).

  Lemma node_return_cases t n rest :
    (exists m, node_return t n rest = (with_stage t (SSend m), None)) \/
    (exists e', rest <> [] /\ node_return t n rest = (with_stage t (SFin FSpawned), Some (child_of t rest e'))).
  Proof.
    unfold Dispatch.node_return. destruct (beh (tpipe t) (tpos t) (tev t)) as [e'| |x].
    - destruct rest as [|n2 rest]; [left; eexists; reflexivity|]. right. exists e'. split; [discriminate|reflexivity].
    - left; eexists; reflexivity.
    - left; eexists; reflexivity.
  Qed.

  (* ---------- measure ---------- *)
  Definition tweight (t : task) : nat :=
    match tstage t with
    | SNew => 3 * length (tnodes t) + 1
    | SRun => 3 * length (tnodes t)
    | SSend _ => 2
    | SFin _ => 1
    | SDone _ => 0
    end.
  Definition sumw (l : list task) : nat := fold_right (fun t a => tweight t + a) 0 l.
  Definition rootsw (roots : list root) : nat := fold_right (fun r a => 3 * length (snd r) + 2 + a) 0 roots.
  Definition rweight (r : ranger) : nat :=
    match r with
    | RRange roots | RInRoot roots => rootsw roots + 2
    | RWait => 1
    | RClosed => 0
    end.
  Definition cweight (c : collector) : nat := match c with CCollect _ => 2 | CExit _ => 1 | CRet => 0 end.
  Definition bw (b : bool) : nat := if b then 0 else 1.
  Definition measure (s : st) : nat :=
    bw (ctx s) + cweight (coll s) + rweight (rng s) + sumw (tasks s).

  Lemma sumw_app l1 l2 : sumw (l1 ++ l2) = sumw l1 + sumw l2.
  Proof. induction l1 as [|t l1 IH]; cbn; [reflexivity|]. unfold sumw in *. cbn. rewrite IH. lia. Qed.

  Lemma sumw_upd l i t t' : nth_error l i = Some t -> sumw (upd_nth i t' l) + tweight t = sumw l + tweight t'.
  Proof.
    revert i; induction l as [|x l IH]; intros [|i] H; cbn in *; try discriminate.
    - inversion H; subst. unfold sumw; cbn. lia.
    - specialize (IH _ H). unfold sumw in *; cbn. lia.
  Qed.

  Lemma rootsw_cons r l : rootsw (r :: l) = 3 * length (snd r) + 2 + rootsw l.
  Proof. reflexivity. Qed.

  Lemma rootsw_del (rem : list root) j p ns : nth_error rem j = Some (p, ns) -> rootsw (del_nth j rem) + (3 * length ns + 2) = rootsw rem.
  Proof.
    revert j; induction rem as [|x l IH]; intros [|j] H; cbn [nth_error del_nth] in *; try discriminate.
    - inversion H; subst. rewrite rootsw_cons. cbn [snd]. lia.
    - specialize (IH _ H). rewrite !rootsw_cons. lia.
  Qed.

  Lemma rweight_resume r : rweight (resume r) = rweight r.
  Proof. destruct r; reflexivity. Qed.

  Theorem step_measure s s' : step s s' -> measure s' < measure s.
  Proof.
    intros H. step_cases H; unfold measure; cbn [ctx coll result rng tasks wg].
    - rewrite Hc. cbn [bw]. lia.
    - rewrite Hr. rewrite sumw_app. cbn [rweight]. pose proof (rootsw_del _ _ _ _ Hn) as Hd.
      cbn [sumw fold_right tweight new_root tstage tnodes]. lia.
    - rewrite Hr. cbn [rweight]. lia.
    - pose proof (sumw_upd _ _ _ (called t n) Hn) as Hu.
      assert (Hw1 : tweight (called t n) + 1 = tweight t) by (unfold tweight; cbn [called tstage tnodes]; rewrite Hs; lia).
      lia.
    - rewrite sumw_app.
      pose proof (sumw_upd _ _ _ (fst (node_return t n rest)) Hn) as Hu.
      assert (Hw : tweight (fst (node_return t n rest)) + sumw (opt_list (snd (node_return t n rest))) < tweight t).
      { destruct (node_return_cases t n rest) as [[m0 E]|[e' [Hne E]]]; rewrite E; cbn [fst snd opt_list sumw fold_right].
        - unfold tweight. cbn [with_stage tstage]. rewrite Hs, Ht. cbn [length]. lia.
        - unfold tweight. cbn [with_stage child_of tstage tnodes]. rewrite Hs, Ht. cbn [length]. lia. }
      lia.
    - pose proof (sumw_upd _ _ _ (with_stage t (SFin (FSent m))) Hn) as Hu.
      assert (Hw1 : tweight (with_stage t (SFin (FSent m))) = 1) by reflexivity.
      assert (Hw2 : tweight t = 2) by (unfold tweight; rewrite Hs; reflexivity).
      rewrite Hc. cbn [cweight]. lia.
    - pose proof (sumw_upd _ _ _ (with_stage t (SFin FAborted)) Hn) as Hu.
      assert (Hw1 : tweight (with_stage t (SFin FAborted)) = 1) by reflexivity.
      assert (Hw2 : tweight t = 2) by (unfold tweight; rewrite Hs; reflexivity).
      lia.
    - pose proof (sumw_upd _ _ _ (with_stage t (SDone f)) Hn) as Hu.
      assert (Hw1 : tweight (with_stage t (SDone f)) = 0) by reflexivity.
      assert (Hw2 : tweight t = 1) by (unfold tweight; rewrite Hs; reflexivity).
      assert (Hrw : rweight (if troot t then resume (rng s) else rng s) = rweight (rng s))
        by (destruct (troot t); [apply rweight_resume|reflexivity]).
      rewrite Hrw. lia.
    - rewrite Hr. cbn [rweight]. lia.
    - rewrite Hc. cbn [cweight]. lia.
    - rewrite Hc. cbn [cweight]. lia.
    - rewrite Hc. cbn [cweight]. lia.
  Qed.

  (* every execution is finite: it has at most [measure] steps *)
  Theorem executions_bounded n s s' : steps n s s' -> n + measure s' <= measure s.
  Proof.
    induction 1 as [|n s s' s'' H1 H2 IH]; [lia|].
    pose proof (step_measure _ _ H1). lia.
  Qed.

  (* ---------- invariants ---------- *)
  Definition live (t : task) : bool := match tstage t with SDone _ => false | _ => true end.
  Definition liveroot (t : task) : bool := live t && troot t.
  Definition b2n (b : bool) : nat := if b then 1 else 0.
  Fixpoint count (f : task -> bool) (l : list task) : nat :=
    match l with [] => 0 | t :: r => b2n (f t) + count f r end.

  Lemma count_app f l1 l2 : count f (l1 ++ l2) = count f l1 + count f l2.
  Proof. induction l1 as [|t l1 IH]; cbn; [reflexivity|]. rewrite IH. lia. Qed.

  Lemma count_upd f l i t t' : nth_error l i = Some t ->
    count f (upd_nth i t' l) + b2n (f t) = count f l + b2n (f t').
  Proof.
    revert i; induction l as [|x l IH]; intros [|i] H; cbn in *; try discriminate.
    - inversion H; subst. lia.
    - specialize (IH _ H). lia.
  Qed.

  Lemma count_zero f l : count f l = 0 -> forall t, In t l -> f t = false.
  Proof.
    induction l as [|x l IH]; cbn; intros Hc t Hin; [contradiction|].
    destruct Hin as [->|Hin].
    - destruct (f t); cbn in Hc; [lia|reflexivity].
    - apply IH; [lia|assumption].
  Qed.

  Lemma count_all_false f l : (forall t, In t l -> f t = false) -> count f l = 0.
  Proof.
    induction l as [|x l IH]; intros H; cbn; [reflexivity|].
    rewrite (H x (or_introl eq_refl)). rewrite IH; [reflexivity|]. intros t Ht. apply H. right. exact Ht.
  Qed.

  Definition roots_of (r : ranger) : list root := match r with RRange l | RInRoot l => l | _ => [] end.

  Record inv (s : st) : Prop := {
    inv_wg : wg s = count live (tasks s);
    inv_root : count liveroot (tasks s) = match rng s with RInRoot _ => 1 | _ => 0 end;
    inv_coll : match coll s with CCollect _ => True | _ => ctx s = true \/ (rng s = RClosed /\ count live (tasks s) = 0) end;
    inv_closed : rng s = RClosed -> count live (tasks s) = 0;
    inv_nodes : forall t, In t (tasks s) -> tnodes t <> [];
    inv_roots : forall r, In r (roots_of (rng s)) -> snd r <> [];
  }.

  Definition roots_ok (roots : list root) : Prop := forall r, In r roots -> snd r <> [].

  Lemma inv_init roots c0 : roots_ok roots -> inv (init roots c0).
  Proof. intros Hr. constructor; cbn; auto; try discriminate; try contradiction. Qed.

  Lemma resume_roots r x : In x (roots_of (resume r)) -> In x (roots_of r).
  Proof. destruct r; cbn; auto. Qed.

  (* a task that changes stage without finishing *)
  Lemma inv_restage s i t sg :
    inv s -> nth_error (tasks s) i = Some t -> live t = true -> live (with_stage t sg) = true ->
    forall c cl sk, (match c with CCollect _ => True | _ => match coll s with CCollect _ => ctx s = true | _ => True end end) ->
    inv {| ctx := ctx s; coll := c; result := result s; rng := rng s;
           tasks := upd_nth i (with_stage t sg) (tasks s); wg := wg s; clog := cl; skipped := sk |}.
  Proof.
    intros [Hwg Hroot Hcoll Hclosed Hnodes Hroots] Hn Hl Hl' c cl sk Hcc.
    pose proof (count_upd live _ _ _ (with_stage t sg) Hn) as Hcl. rewrite Hl, Hl' in Hcl.
    pose proof (count_upd liveroot _ _ _ (with_stage t sg) Hn) as Hcr.
    assert (E : liveroot (with_stage t sg) = liveroot t) by (unfold liveroot; rewrite Hl, Hl'; reflexivity).
    rewrite E in Hcr.
    constructor; cbn [ctx coll result rng tasks wg].
    - lia.
    - lia.
    - destruct c; auto; destruct (coll s); auto;
        destruct Hcoll as [?|[Hx Hz]]; auto; exfalso; pose proof (count_zero _ _ Hz t (nth_error_In _ _ Hn)); congruence.
    - intros Hx. exfalso. pose proof (count_zero _ _ (Hclosed Hx) t (nth_error_In _ _ Hn)). congruence.
    - intros t0 Hin. apply In_upd in Hin as [->|Hin]; auto. cbn. apply Hnodes. eapply nth_error_In; eauto.
    - exact Hroots.
  Qed.

  Theorem inv_step s s' : inv s -> step s s' -> inv s'.
  Proof.
    intros Hinv H. pose proof Hinv as [Hwg Hroot Hcoll Hclosed Hnodes Hroots]. step_cases H.
    - (* cancel *) constructor; cbn; auto. destruct (coll s); auto.
    - (* start *) constructor; cbn [ctx coll result rng tasks wg].
      + rewrite count_app. cbn. lia.
      + rewrite count_app. rewrite Hr in Hroot. cbn. lia.
      + destruct (coll s); auto; (destruct Hcoll as [?|[Hx _]]; auto; rewrite Hr in Hx; discriminate).
      + discriminate.
      + intros t Hin. apply in_app_or in Hin as [Hin|[<-|[]]]; auto. cbn.
        apply (Hroots (p, ns)). rewrite Hr. cbn. eapply nth_error_In; eauto.
      + intros r Hin. apply Hroots. rewrite Hr. cbn in *. eapply In_del; eauto.
    - (* wait *) constructor; cbn [ctx coll result rng tasks wg].
      + exact Hwg.
      + rewrite Hr in Hroot. exact Hroot.
      + destruct (coll s); auto; (destruct Hcoll as [?|[Hx _]]; auto; rewrite Hr in Hx; discriminate).
      + discriminate.
      + exact Hnodes.
      + intros r [].
    - (* call *)
      assert (Hl : live t = true) by (unfold live; rewrite Hs; reflexivity).
      pose proof (count_upd live _ _ _ (called t n) Hn) as Hcl. rewrite Hl in Hcl.
      assert (Hl' : live (called t n) = true) by reflexivity. rewrite Hl' in Hcl.
      pose proof (count_upd liveroot _ _ _ (called t n) Hn) as Hcr.
      assert (E2 : liveroot (called t n) = liveroot t) by (unfold liveroot; rewrite Hl, Hl'; reflexivity).
      rewrite E2 in Hcr.
      constructor; cbn [ctx coll result rng tasks wg].
      + lia.
      + lia.
      + destruct (coll s); auto; destruct Hcoll as [?|[Hx Hz]]; auto; exfalso;
          pose proof (count_zero _ _ Hz t (nth_error_In _ _ Hn)); congruence.
      + intros Hx. exfalso. pose proof (count_zero _ _ (Hclosed Hx) t (nth_error_In _ _ Hn)). congruence.
      + intros t0 Hin. apply In_upd in Hin as [->|Hin]; auto. cbn. apply Hnodes. eapply nth_error_In; eauto.
      + exact Hroots.
    - (* node returned *)
      assert (Hl : live t = true) by (unfold live; rewrite Hs; reflexivity).
      destruct (node_return_cases t n rest) as [[m0 E]|[e' [Hne E]]]; rewrite E; cbn [fst snd opt_list length].
      + rewrite app_nil_r. cbn [plus]. apply inv_restage; auto. destruct (coll s); auto.
      + pose proof (count_upd live _ _ _ (with_stage t (SFin FSpawned)) Hn) as Hcl. rewrite Hl in Hcl.
        assert (Hl' : live (with_stage t (SFin FSpawned)) = true) by reflexivity. rewrite Hl' in Hcl.
        pose proof (count_upd liveroot _ _ _ (with_stage t (SFin FSpawned)) Hn) as Hcr.
        assert (E2 : liveroot (with_stage t (SFin FSpawned)) = liveroot t) by (unfold liveroot; rewrite Hl, Hl'; reflexivity).
        rewrite E2 in Hcr.
        constructor; cbn [ctx coll result rng tasks wg].
        * rewrite count_app. cbn. lia.
        * rewrite count_app. cbn. lia.
        * destruct (coll s); auto; destruct Hcoll as [?|[Hx Hz]]; auto; exfalso;
            pose proof (count_zero _ _ Hz t (nth_error_In _ _ Hn)); congruence.
        * intros Hx. exfalso. pose proof (count_zero _ _ (Hclosed Hx) t (nth_error_In _ _ Hn)). congruence.
        * intros t0 Hin. apply in_app_or in Hin as [Hin|[<-|[]]].
          -- apply In_upd in Hin as [->|Hin]; auto. cbn. apply Hnodes. eapply nth_error_In; eauto.
          -- cbn. exact Hne.
        * exact Hroots.
    - (* handoff *)
      assert (Hl : live t = true) by (unfold live; rewrite Hs; reflexivity).
      apply (inv_restage s i t (SFin (FSent m)) Hinv Hn Hl eq_refl (CCollect (acc ++ [m])) (clog s) (skipped s)). exact I.
    - (* abort *)
      assert (Hl : live t = true) by (unfold live; rewrite Hs; reflexivity).
      apply (inv_restage s i t (SFin FAborted) Hinv Hn Hl eq_refl (coll s) (clog s) (skipped s)). destruct (coll s); auto.
    - (* exit *)
      assert (Hl : live t = true) by (unfold live; rewrite Hs; reflexivity).
      set (t' := with_stage t (SDone f)).
      pose proof (count_upd live _ _ _ t' Hn) as Hcl. rewrite Hl in Hcl.
      assert (E0 : live t' = false) by reflexivity. rewrite E0 in Hcl. cbn [b2n] in Hcl.
      pose proof (count_upd liveroot _ _ _ t' Hn) as Hcr.
      assert (E1 : liveroot t = troot t) by (unfold liveroot; rewrite Hl; reflexivity).
      assert (E2 : liveroot t' = false) by reflexivity.
      rewrite E1, E2 in Hcr. cbn [b2n] in Hcr.
      constructor; cbn [ctx coll result rng tasks wg].
      + lia.
      + destruct (troot t) eqn:Et; cbn [b2n] in Hcr.
        * destruct (rng s) eqn:Er; cbn [resume]; lia.
        * lia.
      + destruct (coll s); auto; (destruct Hcoll as [?|[Hx Hz]]; auto; exfalso;
        pose proof (count_zero _ _ Hz t (nth_error_In _ _ Hn)); congruence).
      + intros Hx. exfalso.
        assert (Hrc : rng s = RClosed).
        { destruct (troot t); auto. destruct (rng s); cbn in Hx; congruence. }
        pose proof (count_zero _ _ (Hclosed Hrc) t (nth_error_In _ _ Hn)). congruence.
      + intros t0 Hin. apply In_upd in Hin as [->|Hin]; auto. cbn. apply Hnodes. eapply nth_error_In; eauto.
      + intros r Hin. apply Hroots. destruct (troot t); auto. apply resume_roots. exact Hin.
    - (* close *) constructor; cbn [ctx coll result rng tasks wg].
      + exact Hwg.
      + rewrite Hr in Hroot. exact Hroot.
      + destruct (coll s); auto; (destruct Hcoll as [Hc1|[Hx Hz]]; [left; exact Hc1|right; split; [reflexivity|exact Hz]]).
      + intros _. lia.
      + exact Hnodes.
      + intros r [].
    - (* collector: ctx done *) constructor; cbn; auto.
    - (* collector: channel closed *) constructor; cbn; auto.
    - (* return *) constructor; cbn; auto. rewrite Hc in Hcoll. exact Hcoll.
  Qed.

  Theorem inv_reach roots c0 s : roots_ok roots -> reach roots c0 s -> inv s.
  Proof.
    intros Hr H. induction H as [|s s' _ IH Hs]; [apply inv_init; assumption|].
    eapply inv_step; eauto.
  Qed.

  (* ---------- progress: no deadlock, no lost wake-up ---------- *)
  Lemma find_task (P : task -> bool) (l : list task) :
    (exists i t, nth_error l i = Some t /\ P t = true) \/ (forall t, In t l -> P t = false).
  Proof.
    induction l as [|x l IH].
    - right. intros t [].
    - destruct (P x) eqn:E.
      + left. exists 0, x. split; [reflexivity|assumption].
      + destruct IH as [[i [t [Hn Hp]]]|Hall].
        * left. exists (S i), t. split; assumption.
        * right. intros t [<-|Hin]; auto.
  Qed.

  (* a step that does not wait for the environment: anything but a node returning from Process *)
  Inductive internal_step : st -> st -> Prop :=
  | IStep s s' : step s s' -> (forall i t, nth_error (tasks s) i = Some t -> tstage t = SRun ->
                               nth_error (tasks s') i = Some t) -> internal_step s s'.

  Definition in_process (s : st) : Prop := exists t, In t (tasks s) /\ tstage t = SRun.

  Lemma nth_upd_other {A} (l : list A) i j x : i <> j -> nth_error (upd_nth i x l) j = nth_error l j.
  Proof.
    revert i j; induction l as [|y l IH]; intros [|i] [|j] H; cbn; auto; try congruence.
  Qed.
  Lemma nth_upd_same {A} (l : list A) i x y : nth_error l i = Some y -> nth_error (upd_nth i x l) i = Some x.
  Proof. revert i; induction l as [|z l IH]; intros [|i] H; cbn in *; try discriminate; auto. Qed.

  Lemma keeps_running (ts : list task) i t t' : nth_error ts i = Some t -> tstage t <> SRun ->
    forall j u, nth_error ts j = Some u -> tstage u = SRun -> nth_error (upd_nth i t' ts) j = Some u.
  Proof.
    intros Hn Hs j u Hj Hu. destruct (Nat.eq_dec i j) as [->|Hne].
    - exfalso. rewrite Hn in Hj. inversion Hj; subst. contradiction.
    - rewrite nth_upd_other; auto.
  Qed.

  (* Every reachable state is terminal, or can take a step.  More precisely: unless some node is still inside
     Process (the only thing the protocol ever waits for), a step that involves no node return is enabled. *)
  Theorem progress s : inv s -> terminal s \/ in_process s \/ exists s', internal_step s s'.
  Proof.
    intros [Hwg Hroot Hcoll Hclosed Hnodes Hroots].
    destruct (find_task (fun t => match tstage t with SRun => true | _ => false end) (tasks s)) as [[i [t [Hn Hp]]]|Hnorun].
    { right. left. exists t. split; [eapply nth_error_In; eauto|]. destruct (tstage t); try discriminate. reflexivity. }
    destruct (find_task (fun t => match tstage t with SNew => true | _ => false end) (tasks s)) as [[i [t [Hn Hp]]]|Hnonew].
    { right. right. destruct (tstage t) eqn:Es; try discriminate.
      destruct (tnodes t) as [|n rest] eqn:En; [exfalso; apply (Hnodes t (nth_error_In _ _ Hn)); exact En|].
      eexists. constructor; [eapply StCall; eauto|]. cbn [tasks]. apply (keeps_running _ _ _ _ Hn). congruence. }
    destruct (find_task (fun t => match tstage t with SSend _ => true | _ => false end) (tasks s)) as [[i [t [Hn Hp]]]|Hnosend].
    { right. right. destruct (tstage t) as [| |m| |] eqn:Es; try discriminate.
      destruct (coll s) as [acc|acc|] eqn:Ec.
      - eexists. constructor; [eapply StHandoff; eauto|]. cbn [tasks]. apply (keeps_running _ _ _ _ Hn). congruence.
      - destruct Hcoll as [Hctx|[Hrc Hz]].
        + eexists. constructor; [eapply StAbort; eauto|]. cbn [tasks]. apply (keeps_running _ _ _ _ Hn). congruence.
        + exfalso. pose proof (count_zero _ _ Hz t (nth_error_In _ _ Hn)) as Hl. unfold live in Hl. rewrite Es in Hl. discriminate.
      - destruct Hcoll as [Hctx|[Hrc Hz]].
        + eexists. constructor; [eapply StAbort; eauto|]. cbn [tasks]. apply (keeps_running _ _ _ _ Hn). congruence.
        + exfalso. pose proof (count_zero _ _ Hz t (nth_error_In _ _ Hn)) as Hl. unfold live in Hl. rewrite Es in Hl. discriminate. }
    destruct (find_task (fun t => match tstage t with SFin _ => true | _ => false end) (tasks s)) as [[i [t [Hn Hp]]]|Hnofin].
    { right. right. destruct (tstage t) as [| | |f|] eqn:Es; try discriminate.
      eexists. constructor; [eapply StExit; eauto|]. cbn [tasks]. apply (keeps_running _ _ _ _ Hn). congruence. }
    (* all tasks have returned *)
    assert (Hlive : count live (tasks s) = 0).
    { apply count_all_false. intros t Hin. specialize (Hnorun t Hin). specialize (Hnonew t Hin).
      specialize (Hnosend t Hin). specialize (Hnofin t Hin). unfold live. destruct (tstage t); congruence. }
    assert (Hlr : count liveroot (tasks s) = 0).
    { apply count_all_false. intros t Hin. unfold liveroot. rewrite (count_zero _ _ Hlive t Hin). reflexivity. }
    destruct (rng s) as [[|[p ns] rest]|rest| |] eqn:Er.
    - right. right. eexists. constructor; [eapply StWait; eauto|]. cbn [tasks]. auto.
    - right. right. eexists. constructor; [eapply (StStart _ _ s _ 0 p ns); eauto; reflexivity|]. cbn [tasks].
      intros i t Hn Hs. rewrite nth_error_app1; auto. apply nth_error_Some. congruence.
    - exfalso. rewrite Hlr in Hroot. discriminate.
    - right. right. eexists. constructor; [apply StClose; [exact Er|]; rewrite Hwg; exact Hlive|]. cbn [tasks]. auto.
    - destruct (coll s) as [acc|acc|] eqn:Ec.
      + right. right. eexists. constructor; [eapply StCollClosed; eauto|]. cbn [tasks]. auto.
      + right. right. eexists. constructor; [eapply StReturn; eauto|]. cbn [tasks]. auto.
      + left. split; assumption.
  Qed.

  (* the node returns are always enabled too: a state is stuck only if it is terminal *)
  Corollary progress_any s : inv s -> terminal s \/ exists s', step s s'.
  Proof.
    intros Hi. destruct (progress s Hi) as [Ht|[[t [Hin Hs]]|[s' Hs]]]; auto.
    - right. destruct (In_nth_error _ _ Hin) as [i Hn].
      destruct (tnodes t) as [|n rest] eqn:En; [exfalso; apply (inv_nodes _ Hi t Hin); exact En|].
      eexists. eapply StRet; eauto.
    - right. destruct Hs as [s s' Hs _]. eauto.
  Qed.

  (* C03: once the context is done the collector can leave its loop and return at once, whatever the nodes are doing *)
  Theorem collector_returns_on_cancel s acc :
    coll s = CCollect acc -> ctx s = true ->
    exists s1 s2, step s s1 /\ step s1 s2 /\ coll s2 = CRet /\ result s2 = Some (acc, true) /\ tasks s2 = tasks s.
  Proof.
    intros Hc Hx. eexists. eexists. split; [eapply StCollCancel; eauto|]. split; [eapply StReturn; reflexivity|].
    cbn. rewrite Hx. auto.
  Qed.

  (* C03: the collector also returns when everything has finished *)
  Theorem collector_returns_when_done s acc :
    coll s = CCollect acc -> rng s = RClosed ->
    exists s1 s2, step s s1 /\ step s1 s2 /\ coll s2 = CRet /\ result s2 = Some (acc, ctx s).
  Proof.
    intros Hc Hx. eexists. eexists. split; [eapply StCollClosed; eauto|]. split; [eapply StReturn; reflexivity|].
    cbn. auto.
  Qed.

  (* C03: in a terminal state nothing is left running and the wait group is balanced *)
  Theorem terminal_no_goroutine s : inv s -> terminal s ->
    wg s = 0 /\ forall t, In t (tasks s) -> exists f, tstage t = SDone f.
  Proof.
    intros [Hwg _ _ Hclosed _ _] [_ Hr]. specialize (Hclosed Hr). split; [lia|].
    intros t Hin. pose proof (count_zero _ _ Hclosed t Hin) as Hl. unfold live in Hl.
    destruct (tstage t); try discriminate. eauto.
  Qed.

  (* the two ways the real code could panic are excluded: no status is pending once the channel is closed
     (send on closed channel), and the wait group equals the number of live invocations (never negative) *)
  Theorem no_send_after_close s t m : inv s -> rng s = RClosed -> In t (tasks s) -> tstage t <> SSend m.
  Proof.
    intros [_ _ _ Hclosed _ _] Hr Hin Hs. pose proof (count_zero _ _ (Hclosed Hr) t Hin) as Hl.
    unfold live in Hl. rewrite Hs in Hl. discriminate.
  Qed.

  Theorem wg_counts_live roots c0 s : roots_ok roots -> reach roots c0 s -> wg s = count live (tasks s).
  Proof. intros Hr H. exact (inv_wg _ (inv_reach _ _ _ Hr H)). Qed.

  (* every maximal execution ends in a terminal state *)
  Theorem reaches_terminal roots c0 s :
    roots_ok roots -> reach roots c0 s -> (forall s', ~ step s s') -> terminal s.
  Proof.
    intros Hr Hreach Hstuck. destruct (progress_any s (inv_reach _ _ _ Hr Hreach)) as [Ht|[s' Hs]]; auto.
    exfalso. exact (Hstuck s' Hs).
  Qed.

  (* from every reachable state a terminal state can be reached (and by executions_bounded no execution is infinite) *)
  Theorem can_terminate s : inv s -> exists n s', steps n s s' /\ terminal s'.
  Proof.
    remember (measure s) as k eqn:Hk. revert s Hk.
    induction k as [k IH] using lt_wf_ind. intros s Hk Hi.
    destruct (progress_any s Hi) as [Ht|[s' Hs]].
    - exists 0, s. split; [constructor|exact Ht].
    - pose proof (step_measure _ _ Hs) as Hm.
      destruct (IH (measure s') ltac:(lia) s' eq_refl (inv_step _ _ Hi Hs)) as [n [s'' [Hss Ht]]].
      exists (S n), s''. split; [econstructor; eauto|exact Ht].
  Qed.

  (* ================= the executable step function only takes steps of the relation ================= *)
  Theorem exec_sound l s s' : exec beh e0 l s = Some s' -> step s s'.
  Proof.
    destruct l as [|j| |i|i|i|i|i| | | |]; cbn [exec]; intros H.
    - destruct (ctx s) eqn:E; [discriminate|]. inversion H; subst. apply StCancel. exact E.
    - destruct (rng s) as [rem| | |] eqn:Er; try discriminate.
      destruct (nth_error rem j) as [[p ns]|] eqn:En; try discriminate. inversion H; subst. eapply StStart; eauto.
    - destruct (rng s) as [rem| | |] eqn:Er; try discriminate.
      destruct rem as [|r rem].
      + inversion H; subst. eapply StWait; eauto.
      + destruct (ctx s) eqn:Ec; try discriminate. inversion H; subst. rewrite <- Ec. eapply StWait; eauto.
    - destruct (nth_error (tasks s) i) as [t|] eqn:En; try discriminate.
      destruct (tstage t) eqn:Es; try discriminate. destruct (tnodes t) as [|n rest] eqn:Et; try discriminate.
      inversion H; subst. eapply StCall; eauto.
    - destruct (nth_error (tasks s) i) as [t|] eqn:En; try discriminate.
      destruct (tstage t) eqn:Es; try discriminate. destruct (tnodes t) as [|n rest] eqn:Et; try discriminate.
      inversion H; subst. eapply StRet; eauto.
    - destruct (nth_error (tasks s) i) as [t|] eqn:En; try discriminate.
      destruct (coll s) as [acc|acc|] eqn:Ec; try discriminate.
      destruct (tstage t) eqn:Es; try discriminate. inversion H; subst. eapply StHandoff; eauto.
    - destruct (nth_error (tasks s) i) as [t|] eqn:En; try discriminate.
      destruct (tstage t) eqn:Es; try discriminate. destruct (ctx s) eqn:Ec; try discriminate.
      inversion H; subst. rewrite <- Ec. eapply StAbort; eauto.
    - destruct (nth_error (tasks s) i) as [t|] eqn:En; try discriminate.
      destruct (tstage t) eqn:Es; try discriminate. inversion H; subst. eapply StExit; eauto.
    - destruct (rng s) eqn:Er; try discriminate. destruct (wg s) eqn:Ew; try discriminate.
      inversion H; subst. rewrite <- Ew. apply StClose; auto.
    - destruct (coll s) as [acc|acc|] eqn:Ec; try discriminate. destruct (ctx s) eqn:Ex; try discriminate.
      inversion H; subst. rewrite <- Ex. eapply StCollCancel; eauto.
    - destruct (coll s) as [acc|acc|] eqn:Ec; try discriminate. destruct (rng s) eqn:Er; try discriminate.
      inversion H; subst. rewrite <- Er. eapply StCollClosed; eauto.
    - destruct (coll s) as [acc|acc|] eqn:Ec; try discriminate. inversion H; subst. eapply StReturn; eauto.
  Qed.

  (* and every step of the relation is one the function can take *)
  Theorem exec_complete s s' : step s s' -> exists l, exec beh e0 l s = Some s'.
  Proof.
    intros H. step_cases H.
    - exists LCancel. cbn. rewrite Hc. reflexivity.
    - exists (LStart j). cbn. rewrite Hr, Hn. reflexivity.
    - exists LWait. cbn. rewrite Hr. destruct Hw as [->|Hw]; [reflexivity|]. rewrite Hw. destruct rem; reflexivity.
    - exists (LCall i). cbn. rewrite Hn, Hs, Ht. reflexivity.
    - exists (LRet i). cbn. rewrite Hn, Hs, Ht. reflexivity.
    - exists (LHandoff i). cbn. rewrite Hn, Hc, Hs. reflexivity.
    - exists (LAbort i). cbn. rewrite Hn, Hs, Hc. reflexivity.
    - exists (LExit i). cbn. rewrite Hn, Hs. reflexivity.
    - exists LClose. cbn. rewrite Hr, Hw. reflexivity.
    - exists LCollCancel. cbn. rewrite Hc, Hx. reflexivity.
    - exists LCollClosed. cbn. rewrite Hc, Hr. reflexivity.
    - exists LReturn. cbn. rewrite Hc. reflexivity.
  Qed.

  (* ================= C01: what one traversal calls ================= *)
  Fixpoint is_prefix {A} (eqb : A -> A -> bool) (p l : list A) : bool :=
    match p, l with
    | [], _ => true
    | x :: p', y :: l' => eqb x y && is_prefix eqb p' l'
    | _, [] => false
    end.
  Definition node_eqb (a b : node) : bool := N.eqb (nid a) (nid b) && N.eqb (nobj a) (nobj b) && Bool.eqb (nsink a) (nsink b).
  Lemma node_eqb_refl a : node_eqb a a = true.
  Proof. unfold node_eqb. rewrite !N.eqb_refl, eqb_reflx. reflexivity. Qed.

  (* the nodes called are the first nodes of the pipeline, in registration order, each position once *)
  Lemma traverse_prefix p k ns e : is_prefix node_eqb (map fst (fst (traverse p k ns e))) ns = true.
  Proof.
    revert k e; induction ns as [|n rest IH]; intros k e; cbn [Dispatch.traverse]; [reflexivity|].
    destruct (beh p k e) as [e'| |x]; cbn [fst map is_prefix]; rewrite ?node_eqb_refl; try reflexivity.
    destruct rest as [|n2 rest]; cbn [fst map is_prefix]; rewrite ?node_eqb_refl; [reflexivity|].
    cbn [andb]. apply IH.
  Qed.

  Lemma traverse_length p k ns e : length (fst (traverse p k ns e)) <= length ns.
  Proof.
    revert k e; induction ns as [|n rest IH]; intros k e; cbn [Dispatch.traverse]; [cbn; lia|].
    destruct (beh p k e) as [e'| |x]; cbn [fst length]; try lia.
    destruct rest as [|n2 rest]; cbn [fst length]; [lia|]. specialize (IH (N.succ k) e'). cbn [length] in IH. lia.
  Qed.

  (* node k+1 is called iff node k returned an event and no error, and it is called with exactly that event *)
  Lemma traverse_chain p k n n2 rest e :
    traverse p k (n :: n2 :: rest) e =
    match beh p k e with
    | OPass e' => ((n, e) :: fst (traverse p (N.succ k) (n2 :: rest) e'), snd (traverse p (N.succ k) (n2 :: rest) e'))
    | ODrop => ([(n, e)], Some (MComplete (nid n) (nsink n)))
    | OErr x => ([(n, e)], Some (MWarn x))
    end.
  Proof. cbn [Dispatch.traverse]. destruct (beh p k e); reflexivity. Qed.

  (* the first node is called with the event the traversal was started with *)
  Lemma traverse_first p k n rest e : exists cs, fst (traverse p k (n :: rest) e) = (n, e) :: cs.
  Proof. cbn [Dispatch.traverse]. destruct (beh p k e); try (eexists; reflexivity). destruct rest; eexists; reflexivity. Qed.

  Lemma traverse_some p k ns e : ns <> [] -> exists m, snd (traverse p k ns e) = Some m.
  Proof.
    revert k e; induction ns as [|n rest IH]; intros k e Hne; [congruence|]. cbn [Dispatch.traverse].
    destruct (beh p k e) as [e'| |x]; try (eexists; reflexivity).
    destruct rest as [|n2 rest]; [eexists; reflexivity|]. cbn [snd]. apply IH. discriminate.
  Qed.

  (* what the final status of a traversal means: a warning is an error some called node really returned; a complete
     entry names the last node called, which dropped the event or was the last node of the pipeline and returned
     without error; its sink flag is that node's *)
  Lemma traverse_final_spec p k ns e m : snd (traverse p k ns e) = Some m ->
    exists pre n ev j, fst (traverse p k ns e) = pre ++ [(n, ev)] /\ In n ns /\
      match m with
      | MWarn x => beh p j ev = OErr x
      | MComplete id sk => id = nid n /\ sk = nsink n /\ (beh p j ev = ODrop \/ exists e', beh p j ev = OPass e' /\ exists pre', ns = pre' ++ [n])
      end.
  Proof.
    revert k e; induction ns as [|n rest IH]; intros k e H; cbn [Dispatch.traverse] in *; [discriminate|].
    destruct (beh p k e) as [e'| |x] eqn:Eb.
    - destruct rest as [|n2 rest].
      + cbn in H. inversion H; subst. exists [], n, e, k. cbn. split; [reflexivity|]. split; [auto|].
        split; [reflexivity|]. split; [reflexivity|]. right. exists e'. split; [exact Eb|]. exists []. reflexivity.
      + cbn [snd fst] in *. destruct (IH _ _ H) as [pre [n' [ev [j [Hf [Hin Hm]]]]]].
        exists ((n, e) :: pre), n', ev, j. rewrite Hf. split; [reflexivity|]. split; [right; exact Hin|].
        destruct m as [x|id sk]; [exact Hm|]. destruct Hm as [H1 [H2 H3]]. split; [exact H1|]. split; [exact H2|].
        destruct H3 as [H3|[e2 [H3 [pre' H4]]]]; [left; exact H3|]. right. exists e2. split; [exact H3|].
        exists (n :: pre'). rewrite H4. reflexivity.
    - cbn in H. inversion H; subst. exists [], n, e, k. cbn. split; [reflexivity|]. split; [auto|]. auto.
    - cbn in H. inversion H; subst. exists [], n, e, k. cbn. split; [reflexivity|]. split; [auto|]. exact Eb.
  Qed.

  (* ================= ghost invariants: every invocation is a prefix of its pipeline's traversal ================= *)
  Definition fin_of (t : task) : option fin := match tstage t with SFin f | SDone f => Some f | _ => None end.
  Definition is_head (t : task) : bool := match fin_of t with Some FSpawned => false | _ => true end.
  Definition heads (l : list task) : list task := filter is_head l.
  Definition key (t : task) : root := (tpipe t, tall t).
  Definition whole (t : task) : list call * option msg := traverse (tpipe t) 0%N (tall t) e0.
  Definition here (t : task) : list call * option msg := traverse (tpipe t) (tpos t) (tnodes t) (tev t).

  Definition tinv (t : task) : Prop :=
    match tstage t with
    | SNew => whole t = (tcalls t ++ fst (here t), snd (here t))
    | SRun => exists n rest cs, tnodes t = n :: rest /\ tcalls t = cs ++ [(n, tev t)] /\ whole t = (cs ++ fst (here t), snd (here t))
    | SSend m | SFin (FSent m) | SDone (FSent m) => whole t = (tcalls t, Some m)
    | SFin FAborted | SDone FAborted => exists m, whole t = (tcalls t, Some m)
    | SFin FSpawned | SDone FSpawned => exists rest, fst (whole t) = tcalls t ++ rest
    end.
  Definition all_tinv (s : st) : Prop := forall t, In t (tasks s) -> tinv t.

  Lemma tinv_node_return t n rest : tstage t = SRun -> tnodes t = n :: rest -> tinv t ->
    tinv (fst (node_return t n rest)) /\ forall c, snd (node_return t n rest) = Some c -> tinv c.
  Proof.
    intros Hs Hn Hi. unfold tinv in Hi. rewrite Hs in Hi. destruct Hi as [n' [rest' [cs [Hn' [Hc Hw]]]]].
    rewrite Hn in Hn'. inversion Hn'; subst n' rest'. clear Hn'.
    unfold here in Hw. rewrite Hn in Hw. cbn [Dispatch.traverse] in Hw.
    unfold Dispatch.node_return. destruct (beh (tpipe t) (tpos t) (tev t)) as [e'| |x].
    - destruct rest as [|n2 rest].
      + cbn [fst snd] in *. split; [|discriminate]. unfold tinv. cbn [with_stage tstage]. unfold whole in *. cbn [with_stage tpipe tall tcalls].
        rewrite Hw, Hc. reflexivity.
      + cbn [fst snd] in *. split.
        * unfold tinv. cbn [with_stage tstage]. unfold whole in *. cbn [with_stage tpipe tall tcalls]. rewrite Hw. cbn [fst].
          eexists. rewrite Hc. rewrite <- app_assoc. reflexivity.
        * intros c Hcc. inversion Hcc; subst c. unfold tinv. cbn [child_of tstage]. unfold whole, here in *.
          cbn [child_of tpipe tall tcalls tpos tnodes tev]. rewrite Hw, Hc. rewrite <- app_assoc. reflexivity.
    - cbn [fst snd] in *. split; [|discriminate]. unfold tinv. cbn [with_stage tstage]. unfold whole in *. cbn [with_stage tpipe tall tcalls].
      rewrite Hw, Hc. reflexivity.
    - cbn [fst snd] in *. split; [|discriminate]. unfold tinv. cbn [with_stage tstage]. unfold whole in *. cbn [with_stage tpipe tall tcalls].
      rewrite Hw, Hc. reflexivity.
  Qed.

  Lemma all_tinv_step s s' : all_tinv s -> step s s' -> all_tinv s'.
  Proof.
    intros Ha H. step_cases H; unfold all_tinv in *; cbn [tasks]; auto.
    - intros t Hin. apply in_app_or in Hin as [Hin|[<-|[]]]; auto.
      unfold tinv. cbn [new_root tstage]. unfold whole, here. cbn [new_root tpipe tall tcalls tpos tnodes tev app]. apply surjective_pairing.
    - intros t0 Hin. apply In_upd in Hin as [->|Hin]; auto.
      pose proof (Ha t (nth_error_In _ _ Hn)) as Hi. unfold tinv in *. rewrite Hs in Hi. cbn [called tstage].
      exists n, rest, (tcalls t). cbn [called tnodes tcalls tev]. split; [exact Ht|]. split; [reflexivity|]. exact Hi.
    - pose proof (tinv_node_return t n rest Hs Ht (Ha t (nth_error_In _ _ Hn))) as [H1 H2].
      intros t0 Hin. apply in_app_or in Hin as [Hin|Hin].
      + apply In_upd in Hin as [->|Hin]; auto.
      + destruct (snd (node_return t n rest)) as [c|]; cbn in Hin; [|contradiction]. destruct Hin as [<-|[]]. apply H2. reflexivity.
    - intros t0 Hin. apply In_upd in Hin as [->|Hin]; auto.
      pose proof (Ha t (nth_error_In _ _ Hn)) as Hi. unfold tinv in *. rewrite Hs in Hi. cbn. exact Hi.
    - intros t0 Hin. apply In_upd in Hin as [->|Hin]; auto.
      pose proof (Ha t (nth_error_In _ _ Hn)) as Hi. unfold tinv in *. rewrite Hs in Hi. cbn. eauto.
    - intros t0 Hin. apply In_upd in Hin as [->|Hin]; auto.
      pose proof (Ha t (nth_error_In _ _ Hn)) as Hi. unfold tinv in *. rewrite Hs in Hi. cbn. exact Hi.
  Qed.

  (* ---------- what the collector holds is exactly what finished invocations handed over ---------- *)
  Definition collected (s : st) : list msg :=
    match coll s with
    | CCollect acc | CExit acc => acc
    | CRet => match result s with Some (acc, _) => acc | None => [] end
    end.
  Definition sent_of (t : task) : list msg := match fin_of t with Some (FSent m) => [m] | _ => [] end.
  Definition sent_msgs (l : list task) : list msg := flat_map sent_of l.

  Lemma sent_msgs_upd l i t t' m : nth_error l i = Some t -> sent_of t = [] -> sent_of t' = [m] ->
    Permutation (sent_msgs (upd_nth i t' l)) (m :: sent_msgs l).
  Proof.
    revert i; induction l as [|x l IH]; intros [|i] H H1 H2; cbn [nth_error upd_nth] in *; try discriminate.
    - inversion H; subst. unfold sent_msgs. cbn [flat_map]. rewrite H1, H2. cbn. apply Permutation_refl.
    - unfold sent_msgs in *. cbn [flat_map]. specialize (IH _ H H1 H2).
      eapply Permutation_trans; [apply Permutation_app_head; exact IH|].
      apply Permutation_sym. apply Permutation_middle.
  Qed.
  Lemma sent_msgs_upd_same l i t t' : nth_error l i = Some t -> sent_of t = sent_of t' ->
    sent_msgs (upd_nth i t' l) = sent_msgs l.
  Proof.
    revert i; induction l as [|x l IH]; intros [|i] H H1; cbn [nth_error upd_nth] in *; try discriminate.
    - inversion H; subst. unfold sent_msgs. cbn [flat_map]. rewrite H1. reflexivity.
    - unfold sent_msgs in *. cbn [flat_map]. rewrite (IH _ H H1). reflexivity.
  Qed.

  Definition cinv (s : st) : Prop :=
    Permutation (collected s) (sent_msgs (tasks s)) /\ (coll s = CRet -> result s <> None).

  Lemma cinv_step s s' : cinv s -> step s s' -> cinv s'.
  Proof.
    intros [Hp Hres] H. step_cases H; unfold cinv, collected in *; cbn [coll result tasks] in *.
    - split; assumption.
    - split; [|assumption]. unfold sent_msgs in *. rewrite flat_map_app. cbn. rewrite app_nil_r. exact Hp.
    - split; assumption.
    - split; [|assumption]. rewrite (sent_msgs_upd_same _ _ t); auto. unfold sent_of, fin_of. cbn [called tstage]. rewrite Hs. reflexivity.
    - split; [|assumption]. unfold sent_msgs in *. rewrite flat_map_app. fold (sent_msgs (upd_nth i (fst (node_return t n rest)) (tasks s))).
      rewrite (sent_msgs_upd_same _ _ t); auto.
      + destruct (node_return_cases t n rest) as [[m0 E]|[e' [Hne E]]]; rewrite E; cbn; rewrite app_nil_r; exact Hp.
      + unfold sent_of at 1, fin_of. rewrite Hs.
        destruct (node_return_cases t n rest) as [[m0 E]|[e' [Hne E]]]; rewrite E; reflexivity.
    - split; [|discriminate]. rewrite Hc in Hp.
      eapply Permutation_trans; [|apply Permutation_sym; eapply (sent_msgs_upd _ _ t _ m); eauto].
      + eapply Permutation_trans; [apply Permutation_sym; apply Permutation_cons_append|].
        apply perm_skip. exact Hp.
      + unfold sent_of, fin_of. rewrite Hs. reflexivity.
    - split; [|assumption].
      rewrite (sent_msgs_upd_same _ _ t); auto. unfold sent_of, fin_of. cbn [with_stage tstage]. rewrite Hs. reflexivity.
    - split; [|assumption].
      rewrite (sent_msgs_upd_same _ _ t); auto. unfold sent_of, fin_of. cbn [with_stage tstage]. rewrite Hs. reflexivity.
    - split; assumption.
    - split; [|discriminate]. rewrite Hc in Hp. exact Hp.
    - split; [|discriminate]. rewrite Hc in Hp. exact Hp.
    - split; [|discriminate]. rewrite Hc in Hp. exact Hp.
  Qed.

  (* ---------- heads: the invocation that currently carries each started traversal ---------- *)
  Section FlatHeads.
    Context {A : Type} (g : task -> list A).
    Definition fm (l : list task) : list A := flat_map g (heads l).

    Lemma fm_cons t l : fm (t :: l) = (if is_head t then g t else []) ++ fm l.
    Proof. unfold fm, heads. cbn [filter]. destruct (is_head t); reflexivity. Qed.
    Lemma fm_app l1 l2 : fm (l1 ++ l2) = fm l1 ++ fm l2.
    Proof. unfold fm, heads. rewrite filter_app, flat_map_app. reflexivity. Qed.

    (* the invocation keeps its role and its contribution *)
    Lemma fm_upd_same l i t t' : nth_error l i = Some t -> is_head t' = is_head t -> (is_head t = true -> g t' = g t) ->
      fm (upd_nth i t' l) = fm l.
    Proof.
      revert i; induction l as [|x l IH]; intros [|i] H H1 H2; cbn [nth_error upd_nth] in *; try discriminate.
      - inversion H; subst. rewrite !fm_cons. rewrite H1. destruct (is_head t); [rewrite H2; reflexivity|reflexivity].
      - rewrite !fm_cons. rewrite (IH _ H H1 H2). reflexivity.
    Qed.
    (* a head extends its contribution *)
    Lemma fm_upd_ext l i t t' x : nth_error l i = Some t -> is_head t = true -> is_head t' = true -> g t' = g t ++ x ->
      Permutation (fm (upd_nth i t' l)) (fm l ++ x).
    Proof.
      revert i; induction l as [|y l IH]; intros [|i] H H1 H2 H3; cbn [nth_error upd_nth] in *; try discriminate.
      - inversion H; subst. rewrite !fm_cons. rewrite H1, H2, H3. rewrite <- !app_assoc. apply Permutation_app_head.
        apply Permutation_app_comm.
      - rewrite !fm_cons. rewrite <- app_assoc. apply Permutation_app_head. apply (IH _ H H1 H2 H3).
    Qed.
    (* a head stops being one *)
    Lemma fm_upd_drop l i t t' : nth_error l i = Some t -> is_head t = true -> is_head t' = false ->
      Permutation (fm (upd_nth i t' l) ++ g t) (fm l).
    Proof.
      revert i; induction l as [|y l IH]; intros [|i] H H1 H2; cbn [nth_error upd_nth] in *; try discriminate.
      - inversion H; subst. rewrite !fm_cons. rewrite H1, H2. cbn [app]. apply Permutation_app_comm.
      - rewrite !fm_cons. rewrite <- app_assoc. apply Permutation_app_head. apply (IH _ H H1 H2).
    Qed.
  End FlatHeads.

  Definition hkeys (l : list task) : list root := fm (fun t => [key t]) l.
  Definition hcalls (l : list task) : list call := fm tcalls l.

  (* started pipelines + pipelines still to start + pipelines skipped = the registered pipelines;
     while the context is live nothing is skipped and no status is dropped *)
  Record hinv (roots : list root) (s : st) : Prop := {
    h_perm : Permutation (hkeys (tasks s) ++ roots_of (rng s) ++ skipped s) roots;
    h_skip : match rng s with RRange _ | RInRoot _ => skipped s = [] | _ => True end;
    h_live : ctx s = false -> skipped s = [] /\ forall t, In t (tasks s) -> fin_of t <> Some FAborted;
    h_log : Permutation (clog s) (hcalls (tasks s));
  }.

  Lemma roots_of_resume r : roots_of (resume r) = roots_of r.
  Proof. destruct r; reflexivity. Qed.

  Lemma is_head_stage t sg : is_head (with_stage t sg) = match sg with SFin FSpawned | SDone FSpawned => false | _ => true end.
  Proof. unfold is_head, fin_of. cbn [with_stage tstage]. destruct sg as [| | |[| |]|[| |]]; reflexivity. Qed.

  Lemma hinv_step roots s s' : hinv roots s -> step s s' -> hinv roots s'.
  Proof.
    intros [Hp Hsk Hlv Hlog] H. step_cases H.
    - (* cancel *) constructor; cbn [ctx rng tasks skipped clog]; auto; try discriminate.
    - (* start *)
      assert (Hh : is_head (new_root e0 p ns) = true) by reflexivity.
      constructor; cbn [ctx rng tasks skipped clog roots_of].
      + unfold hkeys in *. rewrite fm_app. rewrite Hr in Hp. cbn [roots_of] in Hp.
        unfold fm at 2. unfold heads. cbn [filter]. rewrite Hh. cbn [flat_map app key new_root tpipe tall].
        eapply Permutation_trans; [|exact Hp]. rewrite <- app_assoc. apply Permutation_app_head. cbn [app].
        rewrite Hr in Hsk. rewrite Hsk. rewrite !app_nil_r. apply nth_del_perm. exact Hn.
      + rewrite Hr in Hsk. exact Hsk.
      + intros Hc. destruct (Hlv Hc) as [H1 H2]. split; [exact H1|].
        intros t Hin. apply in_app_or in Hin as [Hin|[<-|[]]]; auto. cbn. discriminate.
      + unfold hcalls in *. rewrite fm_app. unfold fm at 2. unfold heads. cbn [filter]. rewrite Hh. cbn. rewrite app_nil_r. exact Hlog.
    - (* wait *) constructor; cbn [ctx rng tasks skipped clog roots_of].
      + rewrite Hr in Hp, Hsk. cbn [roots_of] in Hp. rewrite Hsk in Hp. rewrite app_nil_r in Hp. cbn [app]. exact Hp.
      + exact I.
      + intros Hc. destruct (Hlv Hc) as [H1 H2]. split; [|exact H2].
        destruct Hw as [Hw|Hw]; [exact Hw|congruence].
      + exact Hlog.
    - (* call *)
      assert (Hh : is_head t = true) by (unfold is_head, fin_of; rewrite Hs; reflexivity).
      assert (Hh' : is_head (called t n) = true) by reflexivity.
      constructor; cbn [ctx rng tasks skipped clog].
      + unfold hkeys in *. rewrite (fm_upd_same _ _ _ t); auto; try (rewrite Hh, Hh'; reflexivity).
      + exact Hsk.
      + intros Hc. destruct (Hlv Hc) as [H1 H2]. split; [exact H1|].
        intros t0 Hin. apply In_upd in Hin as [->|Hin]; auto. cbn. discriminate.
      + unfold hcalls in *. eapply Permutation_trans; [|apply Permutation_sym; apply (fm_upd_ext tcalls _ _ t _ [(n, tev t)] Hn Hh Hh' eq_refl)].
        apply Permutation_app_tail. exact Hlog.
    - (* node returned *)
      assert (Hh : is_head t = true) by (unfold is_head, fin_of; rewrite Hs; reflexivity).
      destruct (node_return_cases t n rest) as [[m0 E]|[e' [Hne E]]]; rewrite E; cbn [fst snd opt_list]; rewrite ?app_nil_r.
      + constructor; cbn [ctx rng tasks skipped clog].
        * unfold hkeys in *. rewrite (fm_upd_same _ _ _ t); auto; try (rewrite is_head_stage, Hh; reflexivity).
        * exact Hsk.
        * intros Hc. destruct (Hlv Hc) as [H1 H2]. split; [exact H1|].
          intros t0 Hin. apply In_upd in Hin as [->|Hin]; auto. cbn. discriminate.
        * unfold hcalls in *. rewrite (fm_upd_same _ _ _ t); auto; try (rewrite is_head_stage, Hh; reflexivity).
      + assert (Hh' : is_head (with_stage t (SFin FSpawned)) = false) by reflexivity.
        assert (Hhc : is_head (child_of t rest e') = true) by reflexivity.
        constructor; cbn [ctx rng tasks skipped clog].
        * unfold hkeys in *. rewrite fm_app. unfold fm at 2. unfold heads. cbn [filter]. rewrite Hhc. cbn [flat_map app].
          eapply Permutation_trans; [|exact Hp]. apply Permutation_app_tail.
          change [key (child_of t rest e')] with ((fun t => [key t]) t).
          apply (fm_upd_drop (fun t => [key t]) _ _ t _ Hn Hh Hh').
        * exact Hsk.
        * intros Hc. destruct (Hlv Hc) as [H1 H2]. split; [exact H1|].
          intros t0 Hin. apply in_app_or in Hin as [Hin|[<-|[]]]; [|cbn; discriminate].
          apply In_upd in Hin as [->|Hin]; auto. cbn. discriminate.
        * unfold hcalls in *. rewrite fm_app. unfold fm at 2. unfold heads. cbn [filter]. rewrite Hhc. cbn [flat_map app].
          rewrite app_nil_r. cbn [child_of tcalls].
          eapply Permutation_trans; [exact Hlog|]. apply Permutation_sym. apply (fm_upd_drop tcalls _ _ t _ Hn Hh Hh').
    - (* handoff *)
      assert (Hh : is_head t = true) by (unfold is_head, fin_of; rewrite Hs; reflexivity).
      constructor; cbn [ctx rng tasks skipped clog].
      + unfold hkeys in *. rewrite (fm_upd_same _ _ _ t); auto.
      + exact Hsk.
      + intros Hx. destruct (Hlv Hx) as [H1 H2]. split; [exact H1|].
        intros t0 Hin. apply In_upd in Hin as [->|Hin]; auto. cbn. discriminate.
      + unfold hcalls in *. rewrite (fm_upd_same _ _ _ t); auto.
    - (* abort *)
      assert (Hh : is_head t = true) by (unfold is_head, fin_of; rewrite Hs; reflexivity).
      constructor; cbn [ctx rng tasks skipped clog].
      + unfold hkeys in *. rewrite (fm_upd_same _ _ _ t); auto.
      + exact Hsk.
      + intros Hx. congruence.
      + unfold hcalls in *. rewrite (fm_upd_same _ _ _ t); auto.
    - (* exit *)
      assert (Hh : is_head (with_stage t (SDone f)) = is_head t).
      { rewrite is_head_stage. unfold is_head, fin_of. rewrite Hs. destruct f; reflexivity. }
      assert (Hro : roots_of (if troot t then resume (rng s) else rng s) = roots_of (rng s))
        by (destruct (troot t); [apply roots_of_resume|reflexivity]).
      constructor; cbn [ctx rng tasks skipped clog].
      + rewrite Hro. unfold hkeys in *. rewrite (fm_upd_same _ _ _ t); auto.
      + destruct (troot t); [|exact Hsk]. destruct (rng s); cbn [resume]; auto.
      + intros Hx. destruct (Hlv Hx) as [H1 H2]. split; [exact H1|].
        intros t0 Hin. apply In_upd in Hin as [->|Hin]; auto.
        specialize (H2 t (nth_error_In _ _ Hn)). unfold fin_of in *. rewrite Hs in H2. cbn. exact H2.
      + unfold hcalls in *. rewrite (fm_upd_same _ _ _ t); auto.
    - (* close *) constructor; cbn [ctx rng tasks skipped clog roots_of]; auto.
      rewrite Hr in Hp. cbn [roots_of] in Hp. exact Hp.
    - constructor; cbn [ctx rng tasks skipped clog]; auto.
    - constructor; cbn [ctx rng tasks skipped clog]; auto.
    - constructor; cbn [ctx rng tasks skipped clog]; auto.
  Qed.

  (* ---------- all invariants over reachable states ---------- *)
  Record full_inv (roots : list root) (s : st) : Prop := {
    fi_inv : inv s; fi_tinv : all_tinv s; fi_cinv : cinv s; fi_hinv : hinv roots s }.

  Theorem full_inv_reach roots c0 s : roots_ok roots -> reach roots c0 s -> full_inv roots s.
  Proof.
    intros Hr H. induction H as [|s s' _ IH Hs].
    - constructor.
      + apply inv_init; assumption.
      + intros t [].
      + split; [apply Permutation_refl|discriminate].
      + constructor; cbn; auto; try (rewrite app_nil_r; apply Permutation_refl);
          try (intros _; split; [reflexivity|intros t []]).
    - destruct IH as [I1 I2 I3 I4]. constructor.
      + eapply inv_step; eauto.
      + eapply all_tinv_step; eauto.
      + eapply cinv_step; eauto.
      + eapply hinv_step; eauto.
  Qed.
End Proofs.
