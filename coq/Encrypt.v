(* Encrypt.v — executable model of encrypt.Filter.Process (filters/encrypt/filter.go, map.go) on payload trees.

   A payload is a tree of the shape grammar G (DESIGN 5.C09); string-like leaves carry a SYMBOLIC content:
   [Plain c] (the original text, canary c), [Redacted] ("[REDACTED]"), [Enc k l] ("encrypted:" ++ b64(AEAD_k(l))),
   [Hmac k l] ("hmac-sha256:" ++ b64(HMAC_k(l))).  The walker mirrors Process / filterField / filterSlice /
   filterTaggable / filterValue / processUnfiltered:
     * reflect's addressability rules are one boolean [addr] (true below a pointer or a slice element, inherited by
       struct fields, false for a struct handed over by value);
     * the deferred sweep of tracked maps (processUnfiltered) is performed where the map is met — tracked maps are
       disjoint sub-trees, so only the order of AEAD/HMAC calls differs, and the outcome does not depend on it;
     * every failure is the single result [None] (Process returns (nil, err)): nothing partial can be forwarded;
     * the i-th Encrypt / HMAC call asks the oracles [c_encfail] / [c_hmacfail] whether the wrapper fails.
   Semantics are those of the tree with defects F8a-c repaired (a struct stored by value in a map is filtered through
   a settable copy; a non-Taggable map payload is swept; a Taggable map is always swept).  No proofs here. *)
From Coq Require Import List Bool NArith ZArith String.
From Verif Require Import Tag.
Import ListNotations.
Open Scope list_scope.

Inductive leaf := Plain (c : N) | Redacted | Enc (k : N) (l : leaf) | Hmac (k : N) (l : leaf) | Opaque.
Inductive lkind := LStr | LBytes | LWStr | LWBytes.       (* string, []byte, wrapperspb.StringValue, wrapperspb.BytesValue *)
Definition tagT := option string.                         (* text of the `class` struct tag; None = no tag *)
Inductive tkey := TPath (p : list N).                     (* PointerTag.Pointer of a taggable map: "/k", "/k1/k2", "/k1/k2/k3", ... *)
Definition TKey (k : N) : tkey := TPath [k].
Definition mtag := (option tkey * string)%type.           (* (pointer; None = does not parse, "classification,filter") *)
Definition stag := (option (N * N) * string)%type.        (* taggable struct: pointer "/Field/key" *)

Inductive v :=
| VLeaf (lk : lkind) (l : leaf)
| VNilBytes                                               (* []byte(nil) *)
| VLeaves (lk : lkind) (ls : list leaf)                   (* []string / [][]byte *)
| VOther (z : Z)                                          (* any non-string value (int, bool, time) *)
| VStruct (tg : option (list stag)) (fs : list (N * bool * tagT * v))   (* (name, exported, class tag, value); tg = Some: implements Taggable *)
| VPtr (o : option v)
| VSlice (l : list v)                                     (* []S, []*S, []map, []TaggableMap *)
| VMap (tg : option (list mtag)) (l : list (N * v)).      (* tg = Some: implements Taggable *)

Definition field := (N * bool * tagT * v)%type.

Record cfg := {
  c_ov : overrides;           (* Filter.FilterOperationOverrides *)
  c_wrap : bool;              (* a wrapper is available (the filter's or the per-event one) *)
  c_key : N;                  (* identity of the key in force for this event *)
  c_encfail : N -> bool;      (* the i-th wrapper.Encrypt call of this Process fails *)
  c_hmacfail : N -> bool;     (* the i-th HMAC key derivation fails *)
}.

Definition st := (N * N)%type.   (* Encrypt calls made, HMAC calls made *)

(* contexts a value is met in *)
Inductive ctx :=
| CTop (addr : bool)                                     (* the payload (addr: already behind the payload pointer) *)
| CField (addr ign : bool) (t : tagT) (mt : list mtag)   (* struct field: struct addressable, withIgnoreTaggable, class tag,
                                                            tags a Taggable parent struct holds for this (map) field *)
| CElem (tg : bool)                                      (* element of a slice of structs / maps; tg: Taggable honoured *)
| CMapVal.                                               (* value of a key swept by processUnfiltered *)

Fixpoint assoc {A} (k : N) (l : list (N * A)) : option A :=
  match l with [] => None | (k', a) :: r => if N.eqb k k' then Some a else assoc k r end.

Definition leaf_of (x : v) : leaf := match x with VLeaf _ l => l | _ => Opaque end.
Definition deref (x : v) : v := match x with VPtr (Some y) => y | _ => x end.

Definition key_tags (k : N) (mt : list mtag) : list string :=
  flat_map (fun t => match fst t with Some (TPath [k']) => if N.eqb k k' then [snd t] else [] | _ => [] end) mt.
(* the pointers that go THROUGH key k, with what remains of them below k *)
Definition nested_tags (k : N) (mt : list mtag) : list mtag :=
  flat_map (fun t => match fst t with Some (TPath (k1 :: k2 :: r)) => if N.eqb k k1 then [(Some (TPath (k2 :: r)), snd t)] else [] | _ => [] end) mt.
Definition malformed {A} (ts : list (option A * string)) : bool :=
  existsb (fun t => match fst t with None => true | Some _ => false end) ts.
Definition field_mtags (nm : N) (ts : list stag) : list mtag :=
  flat_map (fun t => match fst t with Some (f, k) => if N.eqb f nm then [(Some (TKey k), snd t)] else [] | None => [] end) ts.

(* ---------- the context calculus (shared by the walker, its specification and the cleanliness predicate) ---------- *)
Section MapM.
  Context {A B S : Type} (f : A -> S -> option (B * S)).
  Fixpoint mapM (l : list A) (s : S) : option (list B * S) :=
    match l with
    | [] => Some ([], s)
    | a :: r => match f a s with
                | Some (b, s1) => match mapM r s1 with Some (r', s2) => Some (b :: r', s2) | None => None end
                | None => None end
    end.
End MapM.

(* what filterValue is asked to do with a string-like leaf met in a context: fail, or action + settability *)
Inductive leaf_disp := LFail | LAct (a : act) (settable : bool).
Definition leaf_act (ov : overrides) (cx : ctx) (lk : lkind) : leaf_disp :=
  match cx with
  | CTop a =>
      match lk with
      | LStr | LBytes => if a then LAct (action (resolve_string ov "secret")) true else LFail
      | _ => LAct ARedact a          (* a wrapperspb message as payload: a struct whose untagged field Value is filtered *)
      end
  | CField a _ t _ => LAct (action (resolve_tag ov t)) a
  | CMapVal => LAct ARedact true      (* processUnfiltered filters a settable copy and stores it back *)
  | CElem _ => match lk with LStr | LBytes => LAct ASkip true (* nothing reasonable yet *) | _ => LAct ARedact true end
  end.
(* the tag filterSlice is called with for a []string / [][]byte; None: not filtered *)
Definition leaves_tag (ov : overrides) (cx : ctx) : option (class * oper) :=
  match cx with
  | CTop _ => Some (resolve_string ov "secret")
  | CField _ _ t _ => Some (resolve_tag ov t)
  | CMapVal => Some (CUnknown, OOther)
  | CElem _ => None
  end.
(* context of the target of a pointer; None: not dereferenced *)
Definition ctx_ptr (cx : ctx) : option ctx :=
  match cx with
  | CTop true => None
  | CTop false => Some (CTop true)
  | CField _ ig t mt => Some (CField true ig t mt)
  | _ => Some cx
  end.
(* are the elements of a slice of structs / maps walked, and is Taggable honoured for them *)
Definition ctx_slice (cx : ctx) : option bool :=
  match cx with CTop _ => Some true | CField _ ig _ _ => Some (negb ig) | CMapVal => Some false | CElem _ => None end.
(* is the Taggable interface of a map / struct met here honoured *)
Definition honoured (cx : ctx) : bool :=
  match cx with CTop _ => true | CField a ig _ _ => a && negb ig | CElem t => t | CMapVal => false end.
Definition struct_addr (cx : ctx) : bool := match cx with CTop a => a | CField a _ _ _ => a | _ => true end.
Definition struct_tags (cx : ctx) (tg : option (list stag)) : list stag :=
  match tg with Some ts => if honoured cx then ts else [] | None => [] end.
(* withIgnoreTaggable for the fields of a struct: only right after its own filterTaggable, and not for slice elements *)
Definition struct_ign (cx : ctx) (tg : option (list stag)) : bool :=
  match tg, cx with Some _, CTop _ => true | Some _, CField _ _ _ _ => honoured cx | _, _ => false end.
(* a key of a swept map that no tag names: its value is filtered as unclassified data; when pointer tags "/k/k2" go
   through it (it is then a nested map, tracked on its own by trackTaggable) those tags govern ITS keys *)
Definition entry_ctx (k : N) (mt : list mtag) : ctx :=
  match nested_tags k mt with
  | [] => CMapVal
  | nt => CField true true None nt
  end.
(* pointerstructure cannot walk through a value that is no container: "invalid value kind" *)
Definition nested_bad (k : N) (mt : list mtag) (y : v) : bool :=
  match nested_tags k mt with
  | [] => false
  | _ => match deref y with VMap _ _ | VStruct _ _ | VSlice _ => false | _ => true end
  end.
Definition map_tags (cx : ctx) (tg : option (list mtag)) : list mtag :=
  (match tg with Some ts => if honoured cx then ts else [] | None => [] end)
  ++ (match cx with CField _ _ _ m => m | _ => [] end).

Section Walk.
  Variable c : cfg.
  Let ov := c_ov c.

  (* encrypt() / hmacSha256() / RedactedData on the current content of a value *)
  Definition crypt (a : act) (s : st) (l : leaf) : option (leaf * st) :=
    match a with
    | ASkip => Some (l, s)
    | ARedact => Some (Redacted, s)
    | AEncrypt => if c_wrap c && negb (c_encfail c (fst s)) then Some (Enc (c_key c) l, (N.succ (fst s), snd s)) else None
    | AHmac => if c_wrap c && negb (c_hmacfail c (snd s)) then Some (Hmac (c_key c) l, (fst s, N.succ (snd s))) else None
    | AErr => None
    end.

  (* filterValue on a string / []byte reflect.Value: public / no operation: nothing; not settable: silently nothing *)
  Definition fval (a : act) (settable : bool) (s : st) (l : leaf) : option (leaf * st) :=
    match a with ASkip => Some (l, s) | _ => if settable then crypt a s l else Some (l, s) end.

  Fixpoint crypt_list (a : act) (s : st) (ls : list leaf) : option (list leaf * st) :=
    match ls with
    | [] => Some ([], s)
    | l :: r => match crypt a s l with
                | Some (l', s1) => match crypt_list a s1 r with Some (r', s2) => Some (l' :: r', s2) | None => None end
                | None => None end
    end.

  (* filterSlice: public: nothing; else filterValue on every element (slice elements are always settable) *)
  Definition fslice (ti : class * oper) (s : st) (ls : list leaf) : option (list leaf * st) :=
    match fst ti with CPublic => Some (ls, s) | _ => crypt_list (action ti) s ls end.

  (* filterTaggable, one PointerTag whose pointer resolved to the value y of a map key: the value is replaced by the
     filtered STRING (pointerstructure.Set); an unknown classification ends in setValue on an unsettable value *)
  Definition apply_tag (ti : class * oper) (y : v) (s : st) : option (v * st) :=
    match action ti with
    | ASkip => Some (y, s)
    | a => match y with
           | VPtr None | VNilBytes => Some (y, s)
           | _ => match fst ti with
                  | CUnknown => None
                  | _ => match crypt a s (leaf_of y) with Some (l', s') => Some (VLeaf LStr l', s') | None => None end
                  end
           end
    end.
  Fixpoint apply_tags (ts : list string) (y : v) (s : st) : option (v * st) :=
    match ts with
    | [] => Some (y, s)
    | t :: r => match apply_tag (resolve_string ov t) y s with Some (y', s') => apply_tags r y' s' | None => None end
    end.

  Fixpoint walk (cx : ctx) (x : v) (s : st) {struct x} : option (v * st) :=
    match x with
    | VLeaf lk l =>
        match leaf_act ov cx lk with
        | LFail => None                                    (* string payload by value: not settable *)
        | LAct a settable => match fval a settable s l with Some (l', s') => Some (VLeaf lk l', s') | None => None end
        end
    | VNilBytes => Some (x, s)
    | VLeaves lk ls =>
        match leaves_tag ov cx with
        | Some ti => match fslice ti s ls with Some (ls', s') => Some (VLeaves lk ls', s') | None => None end
        | None => Some (x, s)
        end
    | VOther _ => Some (x, s)
    | VPtr None => Some (x, s)
    | VPtr (Some y) =>
        match ctx_ptr cx with
        | Some cx' => match walk cx' y s with Some (y', s') => Some (VPtr (Some y'), s') | None => None end
        | None => Some (x, s)                              (* pointer to pointer: no case of the switch *)
        end
    | VSlice l =>
        match ctx_slice cx with
        | Some tg => match mapM (fun y s => walk (CElem tg) y s) l s with Some (l', s') => Some (VSlice l', s') | None => None end
        | None => Some (x, s)
        end
    | VStruct tg fs =>
        let tags := struct_tags cx tg in
        if malformed tags then None else
        match mapM (fun (f : field) s =>
                      match f with (nm, ex, t, y) =>
                        if ex then match walk (CField (struct_addr cx) (struct_ign cx tg) t (field_mtags nm tags)) y s with
                                   | Some (y', s1) => Some ((nm, ex, t, y'), s1) | None => None end
                        else Some (f, s)
                      end) fs s with
        | Some (fs', s') => Some (VStruct tg fs', s') | None => None end
    | VMap tg l =>
        let mt := map_tags cx tg in
        if malformed mt then None else
        match mapM (fun (ky : N * v) s =>
                      match (match key_tags (fst ky) mt with
                             | [] => if nested_bad (fst ky) mt (snd ky) then None else walk (entry_ctx (fst ky) mt) (snd ky) s
                             | ts => apply_tags ts (snd ky) s
                             end) with
                      | Some (y', s1) => Some ((fst ky, y'), s1) | None => None end) l s with
        | Some (l', s') => Some (VMap tg l', s') | None => None end
    end.
End Walk.

(* ---------- copystructure.Copy: a deep copy in which unexported struct fields are zero ---------- *)
Fixpoint zero_of (x : v) : v :=
  match x with
  | VLeaf LBytes _ => VNilBytes
  | VLeaf lk _ => VLeaf lk (Plain 0)
  | VNilBytes => VNilBytes
  | VLeaves lk _ => VLeaves lk []
  | VOther _ => VOther 0
  | VStruct tg fs => VStruct tg (map (fun f : field => match f with (nm, ex, t, y) => (nm, ex, t, zero_of y) end) fs)
  | VPtr _ => VPtr None
  | VSlice _ => VSlice []
  | VMap tg _ => VMap tg []
  end.

Fixpoint copyz (x : v) : v :=
  match x with
  | VStruct tg fs => VStruct tg (map (fun f : field => match f with (nm, ex, t, y) => (nm, ex, t, if ex then copyz y else zero_of y) end) fs)
  | VPtr (Some y) => VPtr (Some (copyz y))
  | VSlice l => VSlice (map copyz l)
  | VMap tg l => VMap tg (map (fun ky => (fst ky, copyz (snd ky))) l)
  | _ => x
  end.

(* ---------- Process ---------- *)
Inductive payload :=
| PNil                              (* Event.Payload == nil *)
| PRotate                           (* the payload implements RotateWrapper *)
| PVal (ewi : option N) (x : v).    (* data; ewi = Some id: it implements EventWrapperInfo with EventId() = id (0 = "") *)

Inductive result :=
| RSame                             (* the event it was given is returned *)
| RConsumed                         (* (nil, nil) *)
| RErr                              (* (nil, err) *)
| ROut (x : v).                     (* a new event with this payload *)

(* reflect.ValueOf(payload).IsZero() for the payload shapes of the grammar (slices and maps of a tree are non-nil) *)
Fixpoint zero_field (x : v) : bool :=
  match x with
  | VPtr None | VNilBytes => true
  | VLeaf (LStr | LWStr) (Plain 0) => true
  | VOther 0%Z => true
  | VStruct _ fs => forallb (fun f : field => zero_field (snd f)) fs
  | _ => false
  end.
Definition is_zero (x : v) : bool :=
  match x with
  | VLeaf LWStr _ => false           (* a wrapperspb message handed over by value is outside the grammar *)
  | _ => zero_field x
  end.

(* [c_wrap c]: the FILTER has a wrapper; [c_key c]: its key; [ekey]: the key of the wrapper derived for this event *)
Definition process (c : cfg) (ekey : N) (p : payload) : result :=
  match p with
  | PNil => RSame
  | PRotate => if all_none (c_ov c) then RSame else RConsumed
  | PVal ewi x =>
      if all_none (c_ov c) then RSame else
      match ewi with
      | Some id => if negb (c_wrap c) || N.eqb id 0 then RErr else
          if is_zero x then RSame else
          match walk {| c_ov := c_ov c; c_wrap := true; c_key := ekey; c_encfail := c_encfail c; c_hmacfail := c_hmacfail c |}
                     (CTop false) (copyz x) (0%N, 0%N) with
          | Some (y, _) => ROut y | None => RErr end
      | None =>
          if negb (c_wrap c) && needs_wrapper (c_ov c) then RErr else
          if is_zero x then RSame else
          match walk c (CTop false) (copyz x) (0%N, 0%N) with Some (y, _) => ROut y | None => RErr end
      end
  end.
