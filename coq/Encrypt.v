(* Encrypt.v — executable model of encrypt.Filter.Process (filters/encrypt/filter.go, map.go) on payload trees.

   A payload is a tree of the shape grammar G (DESIGN 5.C09); string-like leaves carry a SYMBOLIC content:
   [Plain c] (the original text, canary c), [Redacted] ("[REDACTED]"), [Enc k l] ("encrypted:" ++ b64(AEAD_k(l))),
   [Hmac k l] ("hmac-sha256:" ++ b64(HMAC_k(l))).  The walker mirrors Process / filterField / filterSlice /
   filterTaggable / filterValue / processUnfiltered:
     * reflect's addressability rules are one boolean [addr] (true below a pointer or a slice element, inherited by
       struct fields, false for a struct handed over by value);
     * the deferred sweep of tracked maps (processUnfiltered) is performed where the map is met — tracked maps are
       disjoint sub-trees, so only the order of AEAD/HMAC calls differs, and the outcome does not depend on it;
     * every failure is the single result [None] (Process returns (nil, err)): nothing partial can be forwarded;
     * the i-th Encrypt / HMAC call asks the oracles [c_encfail] / [c_hmacfail] whether the wrapper fails.
   Semantics are those of the tree with defects F8a-c repaired (a struct stored by value in a map is filtered through
   a settable copy; a non-Taggable map payload is swept; a Taggable map is always swept).  No proofs here. *)
From Coq Require Import List Bool NArith ZArith String.
From Verif Require Import Tag.
Import ListNotations.
Open Scope list_scope.

Inductive leaf := Plain (c : N) | Redacted | Enc (k : N) (l : leaf) | Hmac (k : N) (l : leaf) | Opaque.
Inductive lkind := LStr | LBytes | LWStr | LWBytes.       (* string, []byte, wrapperspb.StringValue, wrapperspb.BytesValue *)
Definition tagT := option string.                         (* text of the `class` struct tag; None = no tag *)
Inductive tkey := TKey (k : N) | TNested (k1 k2 : N).     (* PointerTag.Pointer of a taggable map: "/k" | "/k1/k2" *)
Definition mtag := (option tkey * string)%type.           (* (pointer; None = does not parse, "classification,filter") *)
Definition stag := (option (N * N) * string)%type.        (* taggable struct: pointer "/Field/key" *)

Inductive v :=
| VLeaf (lk : lkind) (l : leaf)
| VNilBytes                                               (* []byte(nil) *)
| VLeaves (lk : lkind) (ls : list leaf)                   (* []string / [][]byte *)
| VOther (z : Z)                                          (* any non-string value (int, bool, time) *)
| VStruct (tg : option (list stag)) (fs : list (N * bool * tagT * v))   (* (name, exported, class tag, value); tg = Some: implements Taggable *)
| VPtr (o : option v)
| VSlice (l : list v)                                     (* []S, []*S, []map, []TaggableMap *)
| VMap (tg : option (list mtag)) (l : list (N * v)).      (* tg = Some: implements Taggable *)

Definition field := (N * bool * tagT * v)%type.

Record cfg := {
  c_ov : overrides;           (* Filter.FilterOperationOverrides *)
  c_wrap : bool;              (* a wrapper is available (the filter's or the per-event one) *)
  c_key : N;                  (* identity of the key in force for this event *)
  c_encfail : N -> bool;      (* the i-th wrapper.Encrypt call of this Process fails *)
  c_hmacfail : N -> bool;     (* the i-th HMAC key derivation fails *)
}.

Definition st := (N * N)%type.   (* Encrypt calls made, HMAC calls made *)

(* contexts a value is met in *)
Inductive ctx :=
| CTop (addr : bool)                                     (* the payload (addr: already behind the payload pointer) *)
| CField (addr ign : bool) (t : tagT) (mt : list mtag)   (* struct field: struct addressable, withIgnoreTaggable, class tag,
                                                            tags a Taggable parent struct holds for this (map) field *)
| CElem (tg : bool)                                      (* element of a slice of structs / maps; tg: Taggable honoured *)
| CMapVal.                                               (* value of a key swept by processUnfiltered *)

Fixpoint assoc {A} (k : N) (l : list (N * A)) : option A :=
  match l with [] => None | (k', a) :: r => if N.eqb k k' then Some a else assoc k r end.

Definition leaf_of (x : v) : leaf := match x with VLeaf _ l => l | _ => Opaque end.
Definition deref (x : v) : v := match x with VPtr (Some y) => y | _ => x end.

Definition key_tags (k : N) (mt : list mtag) : list string :=
  flat_map (fun t => match fst t with Some (TKey k') => if N.eqb k k' then [snd t] else [] | _ => [] end) mt.
Definition nested_tags (k : N) (mt : list mtag) : list (N * string) :=
  flat_map (fun t => match fst t with Some (TNested k1 k2) => if N.eqb k k1 then [(k2, snd t)] else [] | _ => [] end) mt.
Definition malformed {A} (ts : list (option A * string)) : bool :=
  existsb (fun t => match fst t with None => true | Some _ => false end) ts.
Definition field_mtags (nm : N) (ts : list stag) : list mtag :=
  flat_map (fun t => match fst t with Some (f, k) => if N.eqb f nm then [(Some (TKey k), snd t)] else [] | None => [] end) ts.

Section Walk.
  Variable c : cfg.
  Let ov := c_ov c.

  (* encrypt() / hmacSha256() / RedactedData on the current content of a value *)
  Definition crypt (a : act) (s : st) (l : leaf) : option (leaf * st) :=
    match a with
    | ASkip => Some (l, s)
    | ARedact => Some (Redacted, s)
    | AEncrypt => if c_wrap c && negb (c_encfail c (fst s)) then Some (Enc (c_key c) l, (N.succ (fst s), snd s)) else None
    | AHmac => if c_wrap c && negb (c_hmacfail c (snd s)) then Some (Hmac (c_key c) l, (fst s, N.succ (snd s))) else None
    | AErr => None
    end.

  (* filterValue on a string / []byte reflect.Value: public / no operation: nothing; not settable: silently nothing *)
  Definition fval (a : act) (settable : bool) (s : st) (l : leaf) : option (leaf * st) :=
    match a with ASkip => Some (l, s) | _ => if settable then crypt a s l else Some (l, s) end.

  Fixpoint crypt_list (a : act) (s : st) (ls : list leaf) : option (list leaf * st) :=
    match ls with
    | [] => Some ([], s)
    | l :: r => match crypt a s l with
                | Some (l', s1) => match crypt_list a s1 r with Some (r', s2) => Some (l' :: r', s2) | None => None end
                | None => None end
    end.

  (* filterSlice: public: nothing; else filterValue on every element (slice elements are always settable) *)
  Definition fslice (ti : class * oper) (s : st) (ls : list leaf) : option (list leaf * st) :=
    match fst ti with CPublic => Some (ls, s) | _ => crypt_list (action ti) s ls end.

  (* filterTaggable, one PointerTag whose pointer resolved to the value y of a map key: the value is replaced by the
     filtered STRING (pointerstructure.Set); an unknown classification ends in setValue on an unsettable value *)
  Definition apply_tag (ti : class * oper) (y : v) (s : st) : option (v * st) :=
    match action ti with
    | ASkip => Some (y, s)
    | a => match y with
           | VPtr None | VNilBytes => Some (y, s)
           | _ => match fst ti with
                  | CUnknown => None
                  | _ => match crypt a s (leaf_of y) with Some (l', s') => Some (VLeaf LStr l', s') | None => None end
                  end
           end
    end.
  Fixpoint apply_tags (ts : list string) (y : v) (s : st) : option (v * st) :=
    match ts with
    | [] => Some (y, s)
    | t :: r => match apply_tag (resolve_string ov t) y s with Some (y', s') => apply_tags r y' s' | None => None end
    end.

  (* tags "/k/k2" of a taggable map whose key k is itself swept afterwards: what they wrote is overwritten by the sweep
     of k's map, only their failures and their AEAD/HMAC calls remain *)
  Fixpoint nested_fx (nt : list (N * string)) (y : v) (s : st) : option st :=
    match nt with
    | [] => Some s
    | (k2, t) :: r =>
        match deref y with
        | VMap _ l2 =>
            match assoc k2 l2 with
            | Some y2 => match apply_tag (resolve_string ov t) y2 s with Some (_, s') => nested_fx r y s' | None => None end
            | None => nested_fx r y s
            end
        | VStruct _ _ | VSlice _ => nested_fx r y s
        | _ => None                                      (* pointerstructure: invalid value kind *)
        end
    end.

  Fixpoint walk (cx : ctx) (x : v) (s : st) {struct x} : option (v * st) :=
    match x with
    | VLeaf lk l =>
        match cx with
        | CTop a =>
            match lk with
            | LStr | LBytes =>
                if a then match fval (action (resolve_string ov "secret")) true s l with
                          | Some (l', s') => Some (VLeaf lk l', s') | None => None end
                else None                                  (* string payload by value: not settable *)
            | _ => Some (VLeaf lk (if a then Redacted else l), s)   (* a wrapperspb message as payload: struct with the untagged field Value *)
            end
        | CField a _ t _ =>
            match fval (action (resolve_tag ov t)) a s l with Some (l', s') => Some (VLeaf lk l', s') | None => None end
        | CMapVal => Some (VLeaf lk Redacted, s)
        | CElem _ => match lk with LStr | LBytes => Some (x, s) | _ => Some (VLeaf lk Redacted, s) end
        end
    | VNilBytes => Some (x, s)
    | VLeaves lk ls =>
        match cx with
        | CTop _ => match fslice (resolve_string ov "secret") s ls with Some (ls', s') => Some (VLeaves lk ls', s') | None => None end
        | CField _ _ t _ => match fslice (resolve_tag ov t) s ls with Some (ls', s') => Some (VLeaves lk ls', s') | None => None end
        | CMapVal => match fslice (CUnknown, OOther) s ls with Some (ls', s') => Some (VLeaves lk ls', s') | None => None end
        | CElem _ => Some (x, s)
        end
    | VOther _ => Some (x, s)
    | VPtr None => Some (x, s)
    | VPtr (Some y) =>
        match cx with
        | CTop true => Some (x, s)                          (* pointer to pointer: no case of the switch *)
        | _ =>
            let cx' := match cx with CTop _ => CTop true | CField _ ig t mt => CField true ig t mt | _ => cx end in
            match walk cx' y s with Some (y', s') => Some (VPtr (Some y'), s') | None => None end
        end
    | VSlice l =>
        match (match cx with
               | CTop _ => Some true | CField _ ig _ _ => Some (negb ig) | CMapVal => Some false | CElem _ => None end) with
        | None => Some (x, s)
        | Some tg =>
            match (fix go (l : list v) (s : st) : option (list v * st) :=
                     match l with
                     | [] => Some ([], s)
                     | y :: r => match walk (CElem tg) y s with
                                 | Some (y', s1) => match go r s1 with Some (r', s2) => Some (y' :: r', s2) | None => None end
                                 | None => None end
                     end) l s with
            | Some (l', s') => Some (VSlice l', s') | None => None end
        end
    | VStruct tg fs =>
        let addr := match cx with CTop a => a | CField a _ _ _ => a | _ => true end in
        let honoured := match cx with CTop _ => true | CField a ig _ _ => a && negb ig | CElem t => t | CMapVal => false end in
        let tags := match tg with Some ts => if honoured then ts else [] | None => [] end in
        let ign := match tg, cx with Some _, CTop _ => true | Some _, CField _ _ _ _ => honoured | _, _ => false end in
        if malformed tags then None else
        match (fix go (fs : list field) (s : st) : option (list field * st) :=
                 match fs with
                 | [] => Some ([], s)
                 | (nm, ex, t, y) :: r =>
                     match (if ex then walk (CField addr ign t (field_mtags nm tags)) y s else Some (y, s)) with
                     | Some (y', s1) => match go r s1 with Some (r', s2) => Some ((nm, ex, t, y') :: r', s2) | None => None end
                     | None => None end
                 end) fs s with
        | Some (fs', s') => Some (VStruct tg fs', s') | None => None end
    | VMap tg l =>
        let honoured := match cx with CTop _ => true | CField a ig _ _ => a && negb ig | CElem t => t | CMapVal => false end in
        let mt := ((match tg with Some ts => if honoured then ts else [] | None => [] end)
                   ++ (match cx with CField _ _ _ m => m | _ => [] end))%list in
        if malformed mt then None else
        match (fix go (l : list (N * v)) (s : st) : option (list (N * v) * st) :=
                 match l with
                 | [] => Some ([], s)
                 | (k, y) :: r =>
                     match (match key_tags k mt with
                            | [] => match nested_fx (nested_tags k mt) y s with Some s0 => walk CMapVal y s0 | None => None end
                            | ts => apply_tags ts y s
                            end) with
                     | Some (y', s1) => match go r s1 with Some (r', s2) => Some ((k, y') :: r', s2) | None => None end
                     | None => None end
                 end) l s with
        | Some (l', s') => Some (VMap tg l', s') | None => None end
    end.
End Walk.

(* ---------- copystructure.Copy: a deep copy in which unexported struct fields are zero ---------- *)
Fixpoint zero_of (x : v) : v :=
  match x with
  | VLeaf LBytes _ => VNilBytes
  | VLeaf lk _ => VLeaf lk (Plain 0)
  | VNilBytes => VNilBytes
  | VLeaves lk _ => VLeaves lk []
  | VOther _ => VOther 0
  | VStruct tg fs => VStruct tg (map (fun f : field => match f with (nm, ex, t, y) => (nm, ex, t, zero_of y) end) fs)
  | VPtr _ => VPtr None
  | VSlice _ => VSlice []
  | VMap tg _ => VMap tg []
  end.

Fixpoint copyz (x : v) : v :=
  match x with
  | VStruct tg fs => VStruct tg (map (fun f : field => match f with (nm, ex, t, y) => (nm, ex, t, if ex then copyz y else zero_of y) end) fs)
  | VPtr (Some y) => VPtr (Some (copyz y))
  | VSlice l => VSlice (map copyz l)
  | VMap tg l => VMap tg (map (fun ky => (fst ky, copyz (snd ky))) l)
  | _ => x
  end.

(* ---------- Process ---------- *)
Inductive payload :=
| PNil                              (* Event.Payload == nil *)
| PRotate                           (* the payload implements RotateWrapper *)
| PVal (ewi : option N) (x : v).    (* data; ewi = Some id: it implements EventWrapperInfo with EventId() = id (0 = "") *)

Inductive result :=
| RSame                             (* the event it was given is returned *)
| RConsumed                         (* (nil, nil) *)
| RErr                              (* (nil, err) *)
| ROut (x : v).                     (* a new event with this payload *)

(* reflect.ValueOf(payload).IsZero() for the payload shapes of the grammar *)
Definition is_zero (x : v) : bool :=
  match x with
  | VPtr None | VNilBytes => true
  | VLeaf LStr (Plain 0) => true
  | VOther 0%Z => true
  | _ => false
  end.

(* [c_wrap c]: the FILTER has a wrapper; [c_key c]: its key; [ekey]: the key of the wrapper derived for this event *)
Definition process (c : cfg) (ekey : N) (p : payload) : result :=
  match p with
  | PNil => RSame
  | PRotate => if all_none (c_ov c) then RSame else RConsumed
  | PVal ewi x =>
      if all_none (c_ov c) then RSame else
      match ewi with
      | Some id => if negb (c_wrap c) || N.eqb id 0 then RErr else
          if is_zero x then RSame else
          match walk {| c_ov := c_ov c; c_wrap := true; c_key := ekey; c_encfail := c_encfail c; c_hmacfail := c_hmacfail c |}
                     (CTop false) (copyz x) (0%N, 0%N) with
          | Some (y, _) => ROut y | None => RErr end
      | None =>
          if negb (c_wrap c) && needs_wrapper (c_ov c) then RErr else
          if is_zero x then RSame else
          match walk c (CTop false) (copyz x) (0%N, 0%N) with Some (y, _) => ROut y | None => RErr end
      end
  end.
