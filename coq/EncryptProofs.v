(* EncryptProofs.v — proofs about Tag.v and Encrypt.v (C09, C10). *)
From Coq Require Import List Bool NArith ZArith String Lia.
From Verif Require Import Tag Encrypt.
Import ListNotations.
Open Scope list_scope.

(* ---------- tag resolution ---------- *)
Lemma resolve_unknown_class ov s :
  class_of_text (hd EmptyString (split_comma s)) = CUnknown -> resolve_string ov s = (CUnknown, OOther).
Proof. intros H. unfold resolve_string. rewrite H. reflexivity. Qed.

(* secure default: no tag, or a classification text that is not exactly public / sensitive / secret, is redacted *)
Theorem secure_default ov t :
  (t = None \/ exists s, t = Some s /\ class_of_text (hd EmptyString (split_comma s)) = CUnknown) ->
  action (resolve_tag ov t) = ARedact.
Proof.
  intros [->|[s [-> H]]]; [reflexivity|]. cbn [resolve_tag]. rewrite (resolve_unknown_class ov s H). reflexivity.
Qed.
