(* EncryptProofs.v — proofs about Tag.v, Encrypt.v and EncryptSpec.v (C09, C10). *)
From Coq Require Import List Bool NArith ZArith String Lia.
From Verif Require Import Tag Encrypt EncryptSpec.
Import ListNotations.
Open Scope list_scope.

(* ---------- tag resolution ---------- *)
Lemma resolve_unknown_class ov s :
  class_of_text (hd EmptyString (split_comma s)) = CUnknown -> resolve_string ov s = (CUnknown, OOther).
Proof. intros H. unfold resolve_string. rewrite H. reflexivity. Qed.

(* secure default: no tag, or a classification text that is not exactly public / sensitive / secret, is redacted *)
Theorem secure_default ov t :
  (t = None \/ exists s, t = Some s /\ class_of_text (hd EmptyString (split_comma s)) = CUnknown) ->
  action (resolve_tag ov t) = ARedact.
Proof.
  intros [->|[s [-> H]]]; [reflexivity|]. cbn [resolve_tag]. rewrite (resolve_unknown_class ov s H). reflexivity.
Qed.

(* the classification that comes out of tag resolution is the one written in the tag *)
Lemma resolve_class ov s : fst (resolve_string ov s) = class_of_text (hd EmptyString (split_comma s)).
Proof.
  unfold resolve_string. destruct (class_of_text (hd EmptyString (split_comma s))) eqn:E; cbn [override_of];
    try (destruct (ov_public ov)); try (destruct (ov_sensitive ov)); try (destruct (ov_secret ov)); reflexivity.
Qed.

(* a value is left alone only if it is classified public or the operation in force for it is "none" *)
Lemma action_skip ti : action ti = ASkip <-> fst ti = CPublic \/ snd ti = ONone.
Proof. destruct ti as [[] []]; cbn; intuition discriminate. Qed.

(* without overrides: sensitive is encrypted, secret is redacted unless the tag names another valid operation *)
Lemma defaults_no_overrides :
  action (resolve_string no_overrides "sensitive") = AEncrypt /\ action (resolve_string no_overrides "secret") = ARedact /\
  action (resolve_string no_overrides "public") = ASkip /\ action (resolve_tag no_overrides None) = ARedact.
Proof. repeat split; reflexivity. Qed.

(* an override decides alone, whatever operation the tag names *)
Lemma override_wins ov s c o :
  class_of_text (hd EmptyString (split_comma s)) = c -> override_of ov c = Some o -> resolve_string ov s = (c, o).
Proof. intros Hc Ho. unfold resolve_string. rewrite Hc, Ho. reflexivity. Qed.

(* ---------- induction over payload trees ---------- *)
Section VInd.
  Variable P : v -> Prop.
  Hypothesis Hleaf : forall lk l, P (VLeaf lk l).
  Hypothesis Hnb : P VNilBytes.
  Hypothesis Hls : forall lk ls, P (VLeaves lk ls).
  Hypothesis Ho : forall z, P (VOther z).
  Hypothesis Hst : forall tg fs, Forall (fun f : field => P (snd f)) fs -> P (VStruct tg fs).
  Hypothesis Hpn : P (VPtr None).
  Hypothesis Hps : forall y, P y -> P (VPtr (Some y)).
  Hypothesis Hsl : forall l, Forall P l -> P (VSlice l).
  Hypothesis Hmp : forall tg l, Forall (fun ky : N * v => P (snd ky)) l -> P (VMap tg l).
  Fixpoint v_ind' (x : v) : P x :=
    match x with
    | VLeaf lk l => Hleaf lk l
    | VNilBytes => Hnb
    | VLeaves lk ls => Hls lk ls
    | VOther z => Ho z
    | VStruct tg fs =>
        Hst tg fs ((fix go (fs : list field) : Forall (fun f : field => P (snd f)) fs :=
                      match fs with [] => Forall_nil _ | f :: r => Forall_cons f (v_ind' (snd f)) (go r) end) fs)
    | VPtr None => Hpn
    | VPtr (Some y) => Hps y (v_ind' y)
    | VSlice l =>
        Hsl l ((fix go (l : list v) : Forall P l :=
                  match l with [] => Forall_nil _ | y :: r => Forall_cons y (v_ind' y) (go r) end) l)
    | VMap tg l =>
        Hmp tg l ((fix go (l : list (N * v)) : Forall (fun ky : N * v => P (snd ky)) l :=
                     match l with [] => Forall_nil _ | ky :: r => Forall_cons ky (v_ind' (snd ky)) (go r) end) l)
    end.
End VInd.

(* ---------- the state: counters of AEAD / HMAC calls; what a successful run has asked the oracles ---------- *)
Definition stq (c : cfg) (s s' : st) : Prop :=
  (fst s <= fst s')%N /\ (snd s <= snd s')%N /\
  (forall i, (fst s <= i < fst s')%N -> c_encfail c i = false) /\
  (forall i, (snd s <= i < snd s')%N -> c_hmacfail c i = false) /\
  (s <> s' -> c_wrap c = true).

Lemma stq_refl c s : stq c s s.
Proof.
  unfold stq. split; [lia|]. split; [lia|]. split; [intros i Hi; lia|]. split; [intros i Hi; lia|]. intros H; congruence.
Qed.

Lemma stq_trans c s1 s2 s3 : stq c s1 s2 -> stq c s2 s3 -> stq c s1 s3.
Proof.
  intros (A1 & A2 & A3 & A4 & A5) (B1 & B2 & B3 & B4 & B5). unfold stq.
  split; [lia|]. split; [lia|]. split; [|split].
  - intros i Hi. destruct (N.ltb i (fst s2)) eqn:E; [apply A3; apply N.ltb_lt in E; lia|apply B3; apply N.ltb_ge in E; lia].
  - intros i Hi. destruct (N.ltb i (snd s2)) eqn:E; [apply A4; apply N.ltb_lt in E; lia|apply B4; apply N.ltb_ge in E; lia].
  - intros Hne. destruct s1 as [a1 b1], s2 as [a2 b2], s3 as [a3 b3]. cbn [fst snd] in *.
    destruct (N.eq_dec a1 a2) as [->|Ha]; [destruct (N.eq_dec b1 b2) as [->|Hb]|].
    + apply B5. exact Hne.
    + apply A5. congruence.
    + apply A5. congruence.
Qed.

Lemma mapM_Forall2 {A B S} (f : A -> S -> option (B * S)) (R : A -> B -> Prop) (Q : S -> S -> Prop) :
  (forall s, Q s s) -> (forall a b c, Q a b -> Q b c -> Q a c) ->
  forall l, Forall (fun a => forall s b s', f a s = Some (b, s') -> R a b /\ Q s s') l ->
  forall s l' s', mapM f l s = Some (l', s') -> Forall2 R l l' /\ Q s s'.
Proof.
  intros Qr Qt l Hall. induction Hall as [|a r Ha _ IH]; intros s l' s' H; cbn [mapM] in H.
  - injection H as <- <-. split; [constructor|apply Qr].
  - destruct (f a s) as [[b s1]|] eqn:Ef; [|discriminate].
    destruct (mapM f r s1) as [[r' s2]|] eqn:Er; [|discriminate].
    injection H as <- <-. destruct (Ha _ _ _ Ef) as [Hr Hq]. destruct (IH _ _ _ Er) as [Hrs Hqs].
    split; [constructor; assumption|eapply Qt; eassumption].
Qed.

Lemma Forall2_eq_map {A B} (g : A -> B) l l' : Forall2 (fun a b => b = g a) l l' -> l' = map g l.
Proof. induction 1 as [|a b r r' Hab _ IH]; [reflexivity|]. cbn [map]. rewrite Hab, IH. reflexivity. Qed.

(* ---------- the walker refines its specification ---------- *)
Section Refine.
  Variable c : cfg.
  Let ov := c_ov c.
  Let key := c_key c.

  Lemma crypt_spec a s l l' s' : crypt c a s l = Some (l', s') -> l' = act_leaf key a l /\ stq c s s'.
  Proof.
    unfold crypt. destruct a; intros H.
    - injection H as <- <-. split; [reflexivity|apply stq_refl].
    - injection H as <- <-. split; [reflexivity|apply stq_refl].
    - destruct (c_wrap c) eqn:Ew; cbn [andb] in H; [|discriminate].
      destruct (c_encfail c (fst s)) eqn:Ef; cbn [negb] in H; [discriminate|]. injection H as <- <-.
      split; [reflexivity|]. destruct s as [a b]. unfold stq. cbn [fst snd] in *.
      split; [lia|]. split; [lia|]. split; [|split].
      + intros i Hi. assert (i = a) as -> by lia. exact Ef.
      + intros i Hi. lia.
      + intros _. exact Ew.
    - destruct (c_wrap c) eqn:Ew; cbn [andb] in H; [|discriminate].
      destruct (c_hmacfail c (snd s)) eqn:Ef; cbn [negb] in H; [discriminate|]. injection H as <- <-.
      split; [reflexivity|]. destruct s as [a b]. unfold stq. cbn [fst snd] in *.
      split; [lia|]. split; [lia|]. split; [|split].
      + intros i Hi. lia.
      + intros i Hi. assert (i = b) as -> by lia. exact Ef.
      + intros _. exact Ew.
    - discriminate.
  Qed.

  Lemma fval_spec a settable s l l' s' :
    fval c a settable s l = Some (l', s') -> l' = spec_leaf key (LAct a settable) l /\ stq c s s'.
  Proof.
    unfold fval, spec_leaf. destruct a; destruct settable; intros H; try (apply crypt_spec; exact H); injection H as <- <-;
      (split; [reflexivity|apply stq_refl]).
  Qed.

  Lemma crypt_list_spec a : forall ls s ls' s',
    crypt_list c a s ls = Some (ls', s') -> ls' = map (act_leaf key a) ls /\ stq c s s'.
  Proof.
    induction ls as [|l r IH]; intros s ls' s' H; cbn [crypt_list] in H.
    - injection H as <- <-. split; [reflexivity|apply stq_refl].
    - destruct (crypt c a s l) as [[l1 s1]|] eqn:E1; [|discriminate].
      destruct (crypt_list c a s1 r) as [[r1 s2]|] eqn:E2; [|discriminate]. injection H as <- <-.
      destruct (crypt_spec _ _ _ _ _ E1) as [-> Q1]. destruct (IH _ _ _ E2) as [-> Q2].
      split; [reflexivity|eapply stq_trans; eassumption].
  Qed.

  Lemma fslice_spec ti s ls ls' s' : fslice c ti s ls = Some (ls', s') -> ls' = spec_slice key ti ls /\ stq c s s'.
  Proof.
    unfold fslice, spec_slice. destruct (fst ti); try apply crypt_list_spec.
    intros H. injection H as <- <-. split; [reflexivity|apply stq_refl].
  Qed.

  Lemma apply_tag_spec ti y s y' s' : apply_tag c ti y s = Some (y', s') -> y' = spec_tag key ti y /\ stq c s s'.
  Proof.
    unfold apply_tag, spec_tag. intros H.
    assert (Hn : forall a, a <> ASkip ->
      match y with
      | VPtr None | VNilBytes => Some (y, s)
      | _ => match fst ti with
             | CUnknown => None
             | _ => match crypt c a s (leaf_of y) with Some (l', s'0) => Some (VLeaf LStr l', s'0) | None => None end
             end
      end = Some (y', s') ->
      y' = match y with VPtr None | VNilBytes => y | _ => VLeaf LStr (act_leaf key a (leaf_of y)) end /\ stq c s s').
    { intros a Ha H0.
      assert (Hc : match fst ti with
                   | CUnknown => None
                   | _ => match crypt c a s (leaf_of y) with Some (l', s'0) => Some (VLeaf LStr l', s'0) | None => None end
                   end = Some (y', s') -> y' = VLeaf LStr (act_leaf key a (leaf_of y)) /\ stq c s s').
      { intros H1. destruct (fst ti); try discriminate;
          (destruct (crypt c a s (leaf_of y)) as [[l1 s1]|] eqn:E; [|discriminate]; injection H1 as <- <-;
           destruct (crypt_spec _ _ _ _ _ E) as [-> Q]; split; [reflexivity|exact Q]). }
      destruct y as [lk l| |lk ls|z|tg fs|[y0|]|l|tg l]; try (apply Hc; exact H0);
        (injection H0 as <- <-; split; [reflexivity|apply stq_refl]). }
    destruct (action ti) eqn:Ea.
    - injection H as <- <-. split; [reflexivity|apply stq_refl].
    - apply Hn; [discriminate|exact H].
    - apply Hn; [discriminate|exact H].
    - apply Hn; [discriminate|exact H].
    - apply Hn; [discriminate|exact H].
  Qed.

  Lemma apply_tags_spec : forall ts y s y' s',
    apply_tags c ts y s = Some (y', s') -> y' = spec_tags ov key ts y /\ stq c s s'.
  Proof.
    induction ts as [|t r IH]; intros y s y' s' H; cbn [apply_tags] in H.
    - injection H as <- <-. split; [reflexivity|apply stq_refl].
    - destruct (apply_tag c (resolve_string (c_ov c) t) y s) as [[y1 s1]|] eqn:E; [|discriminate].
      destruct (apply_tag_spec _ _ _ _ _ E) as [-> Q1]. destruct (IH _ _ _ _ H) as [-> Q2].
      split; [reflexivity|eapply stq_trans; eassumption].
  Qed.

  Theorem walk_spec : forall x cx s y s', walk c cx x s = Some (y, s') -> y = spec ov key cx x /\ stq c s s'.
  Proof.
    induction x as [lk l| |lk ls|z|tg fs IH| |y0 IH|l IH|tg l IH] using v_ind'; intros cx s y s' H; cbn [walk] in H; cbn [spec].
    - destruct (leaf_act (c_ov c) cx lk) as [|a settable] eqn:Ed; [discriminate|].
      destruct (fval c a settable s l) as [[l1 s1]|] eqn:E; [|discriminate]. injection H as <- <-.
      destruct (fval_spec _ _ _ _ _ _ E) as [-> Q]. unfold ov. rewrite Ed. split; [reflexivity|exact Q].
    - injection H as <- <-. split; [reflexivity|apply stq_refl].
    - unfold ov. destruct (leaves_tag (c_ov c) cx) as [ti|].
      + destruct (fslice c ti s ls) as [[ls1 s1]|] eqn:E; [|discriminate]. injection H as <- <-.
        destruct (fslice_spec _ _ _ _ _ E) as [-> Q]. split; [reflexivity|exact Q].
      + injection H as <- <-. split; [reflexivity|apply stq_refl].
    - injection H as <- <-. split; [reflexivity|apply stq_refl].
    - (* struct *)
      destruct (malformed (struct_tags cx tg)); [discriminate|].
      match type of H with match ?m with _ => _ end = _ => destruct m as [[fs1 s1]|] eqn:Em; [|discriminate] end.
      injection H as <- <-.
      eapply (mapM_Forall2 _ (fun (f f' : field) =>
                f' = match f with (nm, ex, t, y) =>
                       if ex then (nm, ex, t, spec ov key (CField (struct_addr cx) (struct_ign cx tg) t (field_mtags nm (struct_tags cx tg))) y) else f end)
                (stq c) (stq_refl c) (stq_trans c)) in Em.
      + destruct Em as [F2 Q]. split; [|exact Q]. f_equal. apply Forall2_eq_map in F2. exact F2.
      + eapply Forall_impl; [|exact IH]. intros [[[nm ex] t] y] IHy s0 b s2 Hf. cbn [snd] in IHy.
        destruct ex.
        * destruct (walk c (CField (struct_addr cx) (struct_ign cx tg) t (field_mtags nm (struct_tags cx tg))) y s0) as [[y1 s3]|] eqn:Ew; [|discriminate].
          injection Hf as <- <-. destruct (IHy _ _ _ _ Ew) as [-> Q]. split; [reflexivity|exact Q].
        * injection Hf as <- <-. split; [reflexivity|apply stq_refl].
    - injection H as <- <-. split; [reflexivity|apply stq_refl].
    - destruct (ctx_ptr cx) as [cx'|].
      + destruct (walk c cx' y0 s) as [[y1 s1]|] eqn:Ew; [|discriminate]. injection H as <- <-.
        destruct (IH _ _ _ _ Ew) as [-> Q]. split; [reflexivity|exact Q].
      + injection H as <- <-. split; [reflexivity|apply stq_refl].
    - (* slice *)
      destruct (ctx_slice cx) as [tgb|].
      + match type of H with match ?m with _ => _ end = _ => destruct m as [[l1 s1]|] eqn:Em; [|discriminate] end.
        injection H as <- <-.
        eapply (mapM_Forall2 _ (fun a b => b = spec ov key (CElem tgb) a) (stq c) (stq_refl c) (stq_trans c)) in Em.
        * destruct Em as [F2 Q]. split; [|exact Q]. f_equal. apply Forall2_eq_map in F2. exact F2.
        * eapply Forall_impl; [|exact IH]. intros a IHa s0 b s2 Hf. apply (IHa _ _ _ _ Hf).
      + injection H as <- <-. split; [reflexivity|apply stq_refl].
    - (* map *)
      destruct (malformed (map_tags cx tg)); [discriminate|].
      match type of H with match ?m with _ => _ end = _ => destruct m as [[l1 s1]|] eqn:Em; [|discriminate] end.
      injection H as <- <-.
      eapply (mapM_Forall2 _ (fun (ky ky' : N * v) =>
                ky' = (fst ky, match key_tags (fst ky) (map_tags cx tg) with
                               | [] => spec ov key (entry_ctx (fst ky) (map_tags cx tg)) (snd ky)
                               | ts => spec_tags ov key ts (snd ky) end))
                (stq c) (stq_refl c) (stq_trans c)) in Em.
      + destruct Em as [F2 Q]. split; [|exact Q]. f_equal. apply Forall2_eq_map in F2. exact F2.
      + eapply Forall_impl; [|exact IH]. intros [k y] IHy s0 b s2 Hf. cbn [fst snd] in *.
        destruct (key_tags k (map_tags cx tg)) as [|t0 ts] eqn:Ek.
        * destruct (nested_bad k (map_tags cx tg) y); [discriminate|].
          destruct (walk c (entry_ctx k (map_tags cx tg)) y s0) as [[y1 s4]|] eqn:Ew; [|discriminate]. injection Hf as <- <-.
          destruct (IHy _ _ _ _ Ew) as [-> Q]. split; [reflexivity|exact Q].
        * destruct (apply_tags c (t0 :: ts) y s0) as [[y1 s3]|] eqn:Ea; [|discriminate]. injection Hf as <- <-.
          destruct (apply_tags_spec _ _ _ _ _ Ea) as [-> Q]. split; [reflexivity|exact Q].
  Qed.
End Refine.

(* ---------- properties of the specification ---------- *)
Lemma forallb_Forall {A} (p : A -> bool) l : forallb p l = true <-> Forall (fun a => p a = true) l.
Proof. rewrite forallb_forall, Forall_forall. reflexivity. Qed.

Section SpecProps.
  Variable ov : overrides.
  Variable key : N.

  (* C10: the specification changes nothing but the contents of string-like leaves *)
  Lemma erase_spec_tag ti y : strb y = true -> erase (spec_tag key ti y) = erase y /\ strb (spec_tag key ti y) = true.
  Proof.
    intros Hs. unfold spec_tag. destruct (action ti); try (split; [reflexivity|exact Hs]);
      (destruct y as [[] l| |lk ls|z|tg fs|[y0|]|l|tg l]; try discriminate; split; reflexivity).
  Qed.

  Lemma erase_spec_tags : forall ts y, strb y = true -> erase (spec_tags ov key ts y) = erase y.
  Proof.
    unfold spec_tags. induction ts as [|t r IH]; intros y Hs; cbn [fold_left]; [reflexivity|].
    destruct (erase_spec_tag (resolve_string ov t) y Hs) as [He Hs']. rewrite (IH _ Hs'). exact He.
  Qed.

  Theorem spec_erase : forall x cx, tosb cx x = true -> erase (spec ov key cx x) = erase x.
  Proof.
    induction x as [lk l| |lk ls|z|tg fs IH| |y0 IH|l IH|tg l IH] using v_ind'; intros cx HT; cbn [spec erase tosb] in *; try reflexivity.
    - destruct (leaves_tag ov cx) as [ti|]; [|reflexivity]. cbn [erase]. f_equal.
      unfold spec_slice. destruct (fst ti); try reflexivity; rewrite map_map; reflexivity.
    - f_equal. rewrite map_map. apply map_ext_Forall. apply forallb_Forall in HT.
      rewrite Forall_forall in *. intros [[[nm ex] t] y] Hin. specialize (IH _ Hin). specialize (HT _ Hin). cbn [snd] in IH.
      destruct ex; [|reflexivity]. rewrite (IH _ HT). reflexivity.
    - destruct (ctx_ptr cx) as [cx'|]; [|reflexivity]. cbn [erase]. rewrite (IH _ HT). reflexivity.
    - destruct (ctx_slice cx) as [tgb|]; [|reflexivity]. cbn [erase]. f_equal. rewrite map_map. apply map_ext_Forall.
      apply forallb_Forall in HT. rewrite Forall_forall in *. intros a Hin. apply (IH _ Hin). apply (HT _ Hin).
    - f_equal. rewrite map_map. apply map_ext_Forall. apply forallb_Forall in HT.
      rewrite Forall_forall in *. intros [k y] Hin. specialize (IH _ Hin). specialize (HT _ Hin). cbn [fst snd] in *.
      destruct (key_tags k (map_tags cx tg)) as [|t0 ts]; [rewrite (IH _ HT); reflexivity|].
      rewrite (erase_spec_tags _ _ HT). reflexivity.
  Qed.

  (* C09: the specification leaves nothing readable that is not public / no operation *)
  Lemma leaf_okb_act a l : leaf_okb key a (act_leaf key a l) = true.
  Proof. destruct a; cbn; try reflexivity; apply N.eqb_refl. Qed.

  Definition ok_acc (acc : act) (y : v) : Prop :=
    match acc with
    | ASkip => True
    | a => match y with VLeaf _ l => leaf_okb key a l = true | VPtr None | VNilBytes => True | _ => False end
    end.

  Lemma spec_tags_ok : forall ts y acc, scalarb y = true -> ok_acc acc y ->
    ok_acc (fold_left (fun acc t => match action (resolve_string ov t) with ASkip => acc | a => a end) ts acc) (spec_tags ov key ts y).
  Proof.
    unfold spec_tags. induction ts as [|t r IH]; intros y acc Hs Hacc; cbn [fold_left]; [exact Hacc|].
    apply IH.
    - unfold spec_tag. destruct (action (resolve_string ov t)); try exact Hs;
        (destruct y as [lk l| |lk ls|z|tg fs|[y0|]|l|tg l]; try discriminate; reflexivity).
    - unfold spec_tag. destruct (action (resolve_string ov t)); try exact Hacc;
        (destruct y as [lk l| |lk ls|z|tg fs|[y0|]|l|tg l]; try discriminate; cbn [ok_acc leaf_of]; try exact I;
         apply leaf_okb_act).
  Qed.

  Lemma tagged_ok_spec ts y : scalarb y = true -> tagged_okb ov key ts (spec_tags ov key ts y) = true.
  Proof.
    intros Hs. pose proof (spec_tags_ok ts y ASkip Hs I) as H. unfold tagged_okb, tags_act.
    set (a := fold_left _ ts ASkip) in *. unfold ok_acc in H.
    destruct a; try reflexivity; (destruct (spec_tags ov key ts y) as [lk l| |lk ls|z|tg fs|[y0|]|l|tg l]; try contradiction; try reflexivity; exact H).
  Qed.

  Theorem spec_clean : forall x cx, inGb ov cx x = true -> unexp_zero x = true -> cleanb ov key cx (spec ov key cx x) = true.
  Proof.
    induction x as [lk l| |lk ls|z|tg fs IH| |y0 IH|l IH|tg l IH] using v_ind'; intros cx HG HU; cbn [spec cleanb inGb unexp_zero] in *; try reflexivity.
    - destruct (leaf_act ov cx lk) as [|a settable]; [reflexivity|]. destruct settable; [|reflexivity].
      cbn [spec_leaf]. apply leaf_okb_act.
    - destruct (leaves_tag ov cx) as [ti|] eqn:Et; [|discriminate]. cbn [cleanb]. rewrite Et.
      unfold spec_slice. destruct (fst ti); try reflexivity;
        (apply forallb_forall; intros b Hb; apply in_map_iff in Hb as [a0 [<- _]]; apply leaf_okb_act).
    - apply forallb_forall. intros f' Hf'. apply in_map_iff in Hf' as [[[[nm ex] t] y] [<- Hin]].
      apply forallb_Forall in HG. apply forallb_Forall in HU. rewrite Forall_forall in *.
      specialize (IH _ Hin). specialize (HG _ Hin). specialize (HU _ Hin). cbn [snd] in IH.
      destruct ex; [apply (IH _ HG HU)|exact HU].
    - destruct (ctx_ptr cx) as [cx'|] eqn:E; [|discriminate]. cbn [cleanb]. rewrite E. apply (IH _ HG HU).
    - destruct (ctx_slice cx) as [tgb|] eqn:Es; [|discriminate]. cbn [cleanb]. rewrite Es.
      apply forallb_forall. intros b Hb. apply in_map_iff in Hb as [a [<- Hin]].
      apply forallb_Forall in HG. apply forallb_Forall in HU. rewrite Forall_forall in *.
      apply (IH _ Hin); [apply (HG _ Hin)|apply (HU _ Hin)].
    - apply forallb_forall. intros ky' Hk. apply in_map_iff in Hk as [[k y] [<- Hin]]. cbn [fst snd].
      apply forallb_Forall in HG. apply forallb_Forall in HU. rewrite Forall_forall in *.
      specialize (IH _ Hin). specialize (HG _ Hin). specialize (HU _ Hin). cbn [fst snd] in *.
      destruct (key_tags k (map_tags cx tg)) as [|t0 ts]; [apply (IH _ HG HU)|apply tagged_ok_spec; exact HG].
  Qed.
End SpecProps.

(* ---------- copystructure's copy ---------- *)
Lemma zeroish_zero_of : forall y, zeroishb (zero_of y) = true.
Proof.
  induction y as [lk l| |lk ls|z|tg fs IH| |y0 IH|l IH|tg l IH] using v_ind'; cbn [zero_of zeroishb]; try reflexivity.
  - destruct lk; reflexivity.
  - apply forallb_forall. intros f' Hf'. apply in_map_iff in Hf' as [[[[nm ex] t] y] [<- Hin]]. cbn [snd].
    rewrite Forall_forall in IH. apply (IH _ Hin).
Qed.

Lemma unexp_zero_copyz : forall x, unexp_zero (copyz x) = true.
Proof.
  induction x as [lk l| |lk ls|z|tg fs IH| |y0 IH|l IH|tg l IH] using v_ind'; cbn [copyz unexp_zero]; try reflexivity.
  - apply forallb_forall. intros f' Hf'. apply in_map_iff in Hf' as [[[[nm ex] t] y] [<- Hin]].
    rewrite Forall_forall in IH. specialize (IH _ Hin). cbn [snd] in IH. destruct ex; [exact IH|apply zeroish_zero_of].
  - exact IH.
  - apply forallb_forall. intros b Hb. apply in_map_iff in Hb as [a [<- Hin]]. rewrite Forall_forall in IH. apply (IH _ Hin).
  - apply forallb_forall. intros b Hb. apply in_map_iff in Hb as [[k y] [<- Hin]]. rewrite Forall_forall in IH. apply (IH _ Hin).
Qed.

Lemma copyz_exported : forall x, all_exported x = true -> copyz x = x.
Proof.
  induction x as [lk l| |lk ls|z|tg fs IH| |y0 IH|l IH|tg l IH] using v_ind'; intros H; cbn [copyz all_exported] in *; try reflexivity.
  - f_equal. rewrite <- (map_id fs) at 2. apply map_ext_Forall. apply forallb_Forall in H. rewrite Forall_forall in *.
    intros [[[nm ex] t] y] Hin. specialize (IH _ Hin). specialize (H _ Hin). cbn [snd] in *.
    apply andb_true_iff in H as [-> Hy]. rewrite (IH Hy). reflexivity.
  - rewrite (IH H). reflexivity.
  - f_equal. rewrite <- (map_id l) at 2. apply map_ext_Forall. apply forallb_Forall in H. rewrite Forall_forall in *.
    intros a Hin. apply (IH _ Hin (H _ Hin)).
  - f_equal. rewrite <- (map_id l) at 2. apply map_ext_Forall. apply forallb_Forall in H. rewrite Forall_forall in *.
    intros [k y] Hin. specialize (IH _ Hin (H _ Hin)). cbn [fst snd] in *. rewrite IH. reflexivity.
Qed.

Lemma forallb_map {A B} (p : B -> bool) (g : A -> B) l : forallb p (map g l) = forallb (fun a => p (g a)) l.
Proof. induction l as [|a r IH]; [reflexivity|]. cbn [map forallb]. rewrite IH. reflexivity. Qed.

Lemma forallb_ext_Forall {A} (p q : A -> bool) l : Forall (fun a => p a = q a) l -> forallb p l = forallb q l.
Proof. induction 1 as [|a r Ha _ IH]; [reflexivity|]. cbn [forallb]. rewrite Ha, IH. reflexivity. Qed.

Lemma scalarb_copyz y : scalarb (copyz y) = scalarb y.
Proof. destruct y as [lk l| |lk ls|z|tg fs|[y0|]|l|tg l]; reflexivity. Qed.
Lemma strb_copyz y : strb (copyz y) = strb y.
Proof. destruct y as [lk l| |lk ls|z|tg fs|[y0|]|l|tg l]; reflexivity. Qed.

(* the grammar and the tag discipline do not look below unexported fields, which is all the copy changes *)
Lemma inGb_copyz ov : forall x cx, inGb ov cx (copyz x) = inGb ov cx x.
Proof.
  induction x as [lk l| |lk ls|z|tg fs IH| |y0 IH|l IH|tg l IH] using v_ind'; intros cx; cbn [copyz inGb]; try reflexivity.
  - rewrite forallb_map. apply forallb_ext_Forall. rewrite Forall_forall in *. intros [[[nm ex] t] y] Hin.
    specialize (IH _ Hin). cbn [snd] in IH. destruct ex; [apply IH|reflexivity].
  - destruct (ctx_ptr cx); [apply IH|reflexivity].
  - destruct (ctx_slice cx); [|reflexivity]. rewrite forallb_map. apply forallb_ext_Forall. rewrite Forall_forall in *.
    intros a Hin. apply (IH _ Hin).
  - rewrite forallb_map. apply forallb_ext_Forall. rewrite Forall_forall in *. intros [k y] Hin. cbn [fst snd].
    destruct (key_tags k (map_tags cx tg)); [apply (IH _ Hin)|apply scalarb_copyz].
Qed.

Lemma tosb_copyz : forall x cx, tosb cx (copyz x) = tosb cx x.
Proof.
  induction x as [lk l| |lk ls|z|tg fs IH| |y0 IH|l IH|tg l IH] using v_ind'; intros cx; cbn [copyz tosb]; try reflexivity.
  - rewrite forallb_map. apply forallb_ext_Forall. rewrite Forall_forall in *. intros [[[nm ex] t] y] Hin.
    specialize (IH _ Hin). cbn [snd] in IH. destruct ex; [apply IH|reflexivity].
  - destruct (ctx_ptr cx); [apply IH|reflexivity].
  - destruct (ctx_slice cx); [|reflexivity]. rewrite forallb_map. apply forallb_ext_Forall. rewrite Forall_forall in *.
    intros a Hin. apply (IH _ Hin).
  - rewrite forallb_map. apply forallb_ext_Forall. rewrite Forall_forall in *. intros [k y] Hin. cbn [fst snd].
    destruct (key_tags k (map_tags cx tg)); [apply (IH _ Hin)|apply strb_copyz].
Qed.

(* ---------- Process ---------- *)
(* the configuration the walker runs under: with EventWrapperInfo the wrapper derived for the event *)
Definition run_cfg (c : cfg) (ekey : N) (ewi : option N) : cfg :=
  match ewi with
  | Some _ => {| c_ov := c_ov c; c_wrap := true; c_key := ekey; c_encfail := c_encfail c; c_hmacfail := c_hmacfail c |}
  | None => c
  end.
(* the AEAD / HMAC calls a run makes: final counters of the walk *)
Definition calls (c : cfg) (ekey : N) (ewi : option N) (x : v) : option st :=
  match walk (run_cfg c ekey ewi) (CTop false) (copyz x) (0%N, 0%N) with Some (_, s) => Some s | None => None end.

Lemma process_out c ek ewi x y :
  process c ek (PVal ewi x) = ROut y ->
  exists s', walk (run_cfg c ek ewi) (CTop false) (copyz x) (0%N, 0%N) = Some (y, s') /\
             all_none (c_ov c) = false /\ is_zero x = false /\
             (ewi = None -> c_wrap c = false -> needs_wrapper (c_ov c) = false) /\
             (forall id, ewi = Some id -> c_wrap c = true /\ id <> 0%N).
Proof.
  unfold process. destruct (all_none (c_ov c)); [discriminate|]. destruct ewi as [id|].
  - destruct (c_wrap c) eqn:Ew; cbn [negb orb]; [|discriminate]. destruct (N.eqb id 0) eqn:Eid; [discriminate|].
    destruct (is_zero x); [discriminate|]. cbn [run_cfg].
    match goal with |- match ?w with _ => _ end = _ -> _ => destruct w as [[y1 s1]|]; [|discriminate] end.
    intros H. injection H as <-. exists s1.
    split; [reflexivity|]. split; [reflexivity|]. split; [reflexivity|]. split; [intros H0; discriminate|].
    intros id0 H0. injection H0 as <-. split; [reflexivity|apply N.eqb_neq; exact Eid].
  - destruct (negb (c_wrap c) && needs_wrapper (c_ov c)) eqn:Ep; [discriminate|]. destruct (is_zero x); [discriminate|]. cbn [run_cfg].
    destruct (walk c (CTop false) (copyz x) (0%N, 0%N)) as [[y1 s1]|]; [|discriminate].
    intros H. injection H as <-. exists s1.
    split; [reflexivity|]. split; [reflexivity|]. split; [reflexivity|]. split; [|intros id0 H0; discriminate].
    intros _ Hw. rewrite Hw in Ep. exact Ep.
Qed.

Lemma run_cfg_ov c ek ewi : c_ov (run_cfg c ek ewi) = c_ov c.
Proof. destruct ewi; reflexivity. Qed.
Lemma run_cfg_key c ek ewi : c_key (run_cfg c ek ewi) = key_of c ek ewi.
Proof. destruct ewi; reflexivity. Qed.

(* C09/C10: a forwarded payload is exactly what the tags, the defaults and the overrides dictate for the copy *)
Theorem as_dictated c ek ewi x y :
  process c ek (PVal ewi x) = ROut y -> y = spec (c_ov c) (key_of c ek ewi) (CTop false) (copyz x).
Proof.
  intros H. destruct (process_out _ _ _ _ _ H) as (s' & Hw & _). apply walk_spec in Hw as [-> _].
  rewrite run_cfg_ov, run_cfg_key. reflexivity.
Qed.

(* C09 no_leak: every forwarded payload of the grammar is clean *)
Theorem no_leak c ek ewi x y :
  process c ek (PVal ewi x) = ROut y -> inGb (c_ov c) (CTop false) x = true ->
  cleanb (c_ov c) (key_of c ek ewi) (CTop false) y = true.
Proof.
  intros H HG. rewrite (as_dictated _ _ _ _ _ H). apply spec_clean; [rewrite inGb_copyz; exact HG|apply unexp_zero_copyz].
Qed.

(* reading [cleanb] at one leaf: a value whose dictated action is not "leave alone" cannot be read without the key *)
Lemma leaf_ok_not_exposed key a l : leaf_okb key a l = true -> a <> ASkip -> exposed l = false.
Proof. destruct a, l; cbn; intros H Ha; try reflexivity; try discriminate; contradiction. Qed.

(* C09 secure default at a struct field: no class tag, or an unknown / mis-spelt classification => "[REDACTED]" *)
Theorem secure_default_field c s lk l t ig mt :
  (t = None \/ exists tx, t = Some tx /\ class_of_text (hd EmptyString (split_comma tx)) = CUnknown) ->
  walk c (CField true ig t mt) (VLeaf lk l) s = Some (VLeaf lk Redacted, s).
Proof.
  intros Ht. cbn [walk leaf_act]. rewrite (secure_default (c_ov c) t Ht). reflexivity.
Qed.

(* C09 secure default in a map: a key no tag names is redacted *)
Theorem secure_default_map_key c s lk l : walk c CMapVal (VLeaf lk l) s = Some (VLeaf lk Redacted, s).
Proof. reflexivity. Qed.

(* C09 fails_closed: when an event is forwarded every AEAD / HMAC call the run made succeeded, and calls were made
   only with a wrapper at hand; i.e. a failing call, at whatever position, means no event *)
Theorem fails_closed_calls c ek ewi x y :
  process c ek (PVal ewi x) = ROut y ->
  exists ne nh, calls c ek ewi x = Some (ne, nh) /\
    (forall i, (i < ne)%N -> c_encfail c i = false) /\ (forall i, (i < nh)%N -> c_hmacfail c i = false) /\
    ((ne, nh) <> (0%N, 0%N) -> c_wrap c = true).
Proof.
  intros H. destruct (process_out _ _ _ _ _ H) as (s' & Hw & _ & _ & _ & Hid). unfold calls. rewrite Hw.
  apply walk_spec in Hw as [_ (Q1 & Q2 & Q3 & Q4 & Q5)]. destruct s' as [ne nh]. exists ne, nh. cbn [fst snd] in *.
  split; [reflexivity|]. split; [|split].
  - intros i Hi. specialize (Q3 i ltac:(lia)). destruct ewi; exact Q3.
  - intros i Hi. specialize (Q4 i ltac:(lia)). destruct ewi; exact Q4.
  - intros Hne. destruct ewi as [id|]; [apply (Hid id eq_refl)|]. apply Q5. congruence.
Qed.

Lemma needs_wrapper_not_all_none ov : needs_wrapper ov = true -> all_none ov = false.
Proof.
  unfold needs_wrapper, all_none. destruct (filter_op ov CPublic), (filter_op ov CSensitive), (filter_op ov CSecret); cbn; intros H; try reflexivity; discriminate.
Qed.

(* missing wrapper while the configuration encrypts or HMACs: error, whatever the payload *)
Theorem fails_closed_missing_wrapper c ek x :
  c_wrap c = false -> needs_wrapper (c_ov c) = true -> process c ek (PVal None x) = RErr.
Proof.
  intros Hw Hn. unfold process. rewrite (needs_wrapper_not_all_none _ Hn), Hw, Hn. reflexivity.
Qed.

(* per-event wrapper info with an empty event id, or without a filter wrapper to derive from: error *)
Theorem fails_closed_event_wrapper c ek id x :
  all_none (c_ov c) = false -> c_wrap c = false \/ id = 0%N -> process c ek (PVal (Some id) x) = RErr.
Proof.
  intros Ha Hc. unfold process. rewrite Ha. destruct Hc as [->| ->]; [reflexivity|]. rewrite N.eqb_refl, orb_true_r. reflexivity.
Qed.

(* a string or []byte handed over by value cannot be set: never forwarded filtered *)
Theorem fails_closed_unsettable c ek ewi lk l y :
  lk = LStr \/ lk = LBytes -> process c ek (PVal ewi (VLeaf lk l)) <> ROut y.
Proof.
  intros Hk H. destruct (process_out _ _ _ _ _ H) as (s' & Hw & _). cbn [copyz walk leaf_act] in Hw.
  destruct Hk as [-> | ->]; discriminate.
Qed.

(* a Taggable whose tag pointer does not parse: error (payload itself, or behind the payload pointer) *)
Theorem fails_closed_bad_pointer c ek ewi ts l y :
  malformed ts = true ->
  process c ek (PVal ewi (VMap (Some ts) l)) <> ROut y /\ process c ek (PVal ewi (VPtr (Some (VMap (Some ts) l)))) <> ROut y.
Proof.
  intros Hm. split; intros H; destruct (process_out _ _ _ _ _ H) as (s' & Hw & _);
    cbn [copyz walk ctx_ptr map_tags honoured app] in Hw; rewrite app_nil_r in Hw; rewrite Hm in Hw; discriminate.
Qed.
Theorem fails_closed_bad_pointer_struct c ek ewi ts fs y :
  malformed ts = true -> process c ek (PVal ewi (VPtr (Some (VStruct (Some ts) fs)))) <> ROut y.
Proof.
  intros Hm H. destruct (process_out _ _ _ _ _ H) as (s' & Hw & _).
  cbn [copyz walk ctx_ptr struct_tags honoured] in Hw. rewrite Hm in Hw. discriminate.
Qed.

(* C09 rotation payloads are consumed (unless every operation is "none": then Process returns at once, see noop_identity) *)
Theorem rotation_payload_consumed c ek : all_none (c_ov c) = false -> process c ek PRotate = RConsumed.
Proof. intros H. unfold process. rewrite H. reflexivity. Qed.
Theorem rotation_payload_never_filtered c ek y : process c ek PRotate <> ROut y.
Proof. unfold process. destruct (all_none (c_ov c)); discriminate. Qed.

(* ---------- C10 ---------- *)
Theorem shape_preserved c ek ewi x y :
  process c ek (PVal ewi x) = ROut y -> tosb (CTop false) x = true -> erase y = erase (copyz x).
Proof.
  intros H HT. rewrite (as_dictated _ _ _ _ _ H). apply spec_erase. rewrite tosb_copyz. exact HT.
Qed.
Corollary shape_preserved_exported c ek ewi x y :
  process c ek (PVal ewi x) = ROut y -> tosb (CTop false) x = true -> all_exported x = true -> erase y = erase x.
Proof. intros H HT HE. rewrite (shape_preserved _ _ _ _ _ H HT), (copyz_exported _ HE). reflexivity. Qed.

(* public / no-operation values are forwarded as they are *)
Lemma map_act_skip key ls : map (act_leaf key ASkip) ls = ls.
Proof. induction ls as [|l r IH]; [reflexivity|]. cbn [map act_leaf]. rewrite IH. reflexivity. Qed.

Theorem public_kept ov key a ig t mt :
  action (resolve_tag ov t) = ASkip ->
  (forall lk l, spec ov key (CField a ig t mt) (VLeaf lk l) = VLeaf lk l) /\
  (forall lk ls, spec ov key (CField a ig t mt) (VLeaves lk ls) = VLeaves lk ls).
Proof.
  intros Ha. split; intros; cbn [spec leaf_act leaves_tag].
  - rewrite Ha. destruct a; reflexivity.
  - unfold spec_slice. rewrite Ha. destruct (fst (resolve_tag ov t)); try reflexivity; rewrite map_act_skip; reflexivity.
Qed.

Theorem public_key_kept ov key : forall ts y,
  Forall (fun t => action (resolve_string ov t) = ASkip) ts -> spec_tags ov key ts y = y.
Proof.
  unfold spec_tags. induction ts as [|t r IH]; intros y H; [reflexivity|]. inversion H as [|? ? Ht Hr]; subst.
  cbn [fold_left]. unfold spec_tag at 2. rewrite Ht. apply (IH _ Hr).
Qed.

Theorem noop_identity c ek :
  process c ek PNil = RSame /\
  (forall p, all_none (c_ov c) = true -> process c ek p = RSame) /\
  (forall x, is_zero x = true -> (c_wrap c = true \/ needs_wrapper (c_ov c) = false) -> process c ek (PVal None x) = RSame) /\
  (forall id x, is_zero x = true -> c_wrap c = true -> id <> 0%N -> process c ek (PVal (Some id) x) = RSame).
Proof.
  split; [reflexivity|]. split; [|split].
  - intros [| |ewi x] Ha; unfold process; try rewrite Ha; reflexivity.
  - intros x Hz Hw. unfold process. destruct (all_none (c_ov c)); [reflexivity|]. rewrite Hz.
    destruct Hw as [-> | ->]; [reflexivity|]. rewrite andb_false_r. reflexivity.
  - intros id x Hz Hw Hid. unfold process. destruct (all_none (c_ov c)); [reflexivity|]. rewrite Hw, Hz.
    apply N.eqb_neq in Hid. rewrite Hid. reflexivity.
Qed.

(* F10: the forwarded copy does not preserve the non-string value of an unexported field *)
Definition cfg0 : cfg := {| c_ov := no_overrides; c_wrap := true; c_key := 1%N; c_encfail := fun _ => false; c_hmacfail := fun _ => false |}.
Definition f10_payload : v :=
  VPtr (Some (VStruct None [(1%N, false, None, VOther 7); (2%N, true, Some "secret"%string, VLeaf LStr (Plain 1))])).
Theorem unexported_zeroed_refuted :
  exists c ek x y, process c ek (PVal None x) = ROut y /\ tosb (CTop false) x = true /\ inGb (c_ov c) (CTop false) x = true /\ erase y <> erase x.
Proof.
  exists cfg0, 2%N, f10_payload. eexists. split; [vm_compute; reflexivity|]. split; [reflexivity|]. split; [reflexivity|].
  vm_compute. discriminate.
Qed.

(* ---------- non-vacuity: a payload of the grammar with every kind of position, forwarded and clean ---------- *)
Definition ex_payload : v :=
  VPtr (Some (VStruct None
    [(1%N, true, Some "public"%string, VLeaf LStr (Plain 1));
     (2%N, true, Some "sensitive"%string, VLeaf LBytes (Plain 2));
     (3%N, true, None, VLeaf LStr (Plain 3));
     (4%N, true, Some "secret,hmac-sha256"%string, VLeaves LStr [Plain 4; Plain 5]);
     (5%N, true, Some "sensitive,HMAC-SHA256"%string, VPtr (Some (VLeaf LWStr (Plain 6))));
     (6%N, true, None, VMap None [(1%N, VLeaf LStr (Plain 7)); (2%N, VStruct None [(1%N, true, Some "secret,encrypt"%string, VLeaf LStr (Plain 8))]);
                                  (3%N, VOther 9)]);
     (7%N, true, None, VMap (Some [(Some (TKey 1%N), "public,"%string); (Some (TKey 2%N), "sensitive,redact"%string); (Some (TKey 9%N), "secret,"%string)])
                            [(1%N, VLeaf LStr (Plain 10)); (2%N, VLeaf LStr (Plain 11)); (3%N, VLeaf LStr (Plain 12))]);
     (8%N, true, None, VSlice [VPtr (Some (VStruct None [(1%N, true, Some "Secret"%string, VLeaf LStr (Plain 13)); (2%N, true, None, VOther 5)]))]);
     (9%N, false, None, VLeaf LStr (Plain 14));
     (10%N, true, None, VStruct (Some [(Some (11%N, 1%N), "public,"%string)]) [(11%N, true, None, VMap None [(1%N, VLeaf LStr (Plain 15)); (2%N, VLeaf LStr (Plain 16))])])])).

Example ex_forwarded_clean :
  inGb (c_ov cfg0) (CTop false) ex_payload = true /\ tosb (CTop false) ex_payload = true /\
  exists y, process cfg0 2%N (PVal None ex_payload) = ROut y /\ cleanb (c_ov cfg0) 1%N (CTop false) y = true /\
            erase y = erase (copyz ex_payload) /\ calls cfg0 2%N None ex_payload = Some (2%N, 3%N) /\
            cleanb (c_ov cfg0) 1%N (CTop false) ex_payload = false.
Proof.
  split; [reflexivity|]. split; [reflexivity|]. eexists. split; [vm_compute; reflexivity|]. repeat split; vm_compute; reflexivity.
Qed.

(* the same run with the second HMAC call failing forwards nothing; so does a missing wrapper *)
Example ex_fails_closed :
  process {| c_ov := no_overrides; c_wrap := true; c_key := 1%N; c_encfail := fun _ => false; c_hmacfail := fun i => N.eqb i 1 |} 2%N (PVal None ex_payload) = RErr /\
  process {| c_ov := no_overrides; c_wrap := false; c_key := 1%N; c_encfail := fun _ => false; c_hmacfail := fun _ => false |} 2%N (PVal None ex_payload) = RErr /\
  process cfg0 2%N PRotate = RConsumed /\ process cfg0 2%N PNil = RSame.
Proof. repeat split; vm_compute; reflexivity. Qed.
