(* EncryptSpec.v — the specification side of C09 / C10 (definitions only, all computable):
   [spec]    what the forwarded payload must be, position by position (no state, no failure);
   [cleanb]  the no-leak predicate on a forwarded payload ALONE: at every position the value is what its own tag, the
             defaults and the overrides dictate — in particular not readable unless public / no operation;
   [erase]   a payload with the contents of its string-like leaves forgotten (what "same shape" means);
   [inGb]    the positions of the shape grammar G at which the filter looks (strings directly inside slices of
             structs, pointers to pointers, struct payloads handed over by value are outside);
   [tosb]    tags of Taggable maps / structs name string values (DESIGN 5.C09: "tags point at string values"). *)
From Coq Require Import List Bool NArith ZArith String.
From Verif Require Import Tag Encrypt.
Import ListNotations.
Open Scope list_scope.

Section Spec.
  Variable ov : overrides.
  Variable key : N.

  Definition act_leaf (a : act) (l : leaf) : leaf :=
    match a with ASkip => l | ARedact | AErr => Redacted | AEncrypt => Enc key l | AHmac => Hmac key l end.
  Definition spec_leaf (d : leaf_disp) (l : leaf) : leaf :=
    match d with LFail => l | LAct a settable => if settable then act_leaf a l else l end.
  Definition spec_slice (ti : class * oper) (ls : list leaf) : list leaf :=
    match fst ti with CPublic => ls | _ => map (act_leaf (action ti)) ls end.
  Definition spec_tag (ti : class * oper) (y : v) : v :=
    match action ti with
    | ASkip => y
    | a => match y with VPtr None | VNilBytes => y | _ => VLeaf LStr (act_leaf a (leaf_of y)) end
    end.
  Definition spec_tags (ts : list string) (y : v) : v := fold_left (fun y t => spec_tag (resolve_string ov t) y) ts y.

  Fixpoint spec (cx : ctx) (x : v) {struct x} : v :=
    match x with
    | VLeaf lk l => VLeaf lk (spec_leaf (leaf_act ov cx lk) l)
    | VLeaves lk ls => match leaves_tag ov cx with Some ti => VLeaves lk (spec_slice ti ls) | None => x end
    | VPtr (Some y) => match ctx_ptr cx with Some cx' => VPtr (Some (spec cx' y)) | None => x end
    | VSlice l => match ctx_slice cx with Some tg => VSlice (map (spec (CElem tg)) l) | None => x end
    | VStruct tg fs =>
        VStruct tg (map (fun f : field =>
                           match f with (nm, ex, t, y) =>
                             if ex then (nm, ex, t, spec (CField (struct_addr cx) (struct_ign cx tg) t (field_mtags nm (struct_tags cx tg))) y) else f
                           end) fs)
    | VMap tg l =>
        VMap tg (map (fun ky : N * v =>
                        (fst ky, match key_tags (fst ky) (map_tags cx tg) with
                                 | [] => spec (entry_ctx (fst ky) (map_tags cx tg)) (snd ky)
                                 | ts => spec_tags ts (snd ky)
                                 end)) l)
    | _ => x
    end.

  (* ---------- no leak, on the output alone ---------- *)
  Definition leaf_okb (a : act) (l : leaf) : bool :=
    match a with
    | ASkip => true
    | ARedact | AErr => match l with Redacted => true | _ => false end
    | AEncrypt => match l with Enc k _ => N.eqb k key | _ => false end
    | AHmac => match l with Hmac k _ => N.eqb k key | _ => false end
    end.
  (* the ordered tags of one key: the last one that is not public / no operation decides *)
  Definition tags_act (ts : list string) : act :=
    fold_left (fun acc t => match action (resolve_string ov t) with ASkip => acc | a => a end) ts ASkip.
  Definition tagged_okb (ts : list string) (y : v) : bool :=
    match tags_act ts with
    | ASkip => true
    | a => match y with VLeaf _ l => leaf_okb a l | VPtr None | VNilBytes => true | _ => false end
    end.
  (* nothing readable: what an unexported field of the forwarded copy must look like *)
  Fixpoint zeroishb (y : v) : bool :=
    match y with
    | VLeaf _ l => match l with Plain 0 => true | Plain _ => false | _ => true end
    | VLeaves _ ls => forallb (fun l => match l with Plain 0 => true | Plain _ => false | _ => true end) ls
    | VStruct _ fs => forallb (fun f : field => zeroishb (snd f)) fs
    | VPtr (Some z) => zeroishb z
    | VSlice l => forallb zeroishb l
    | VMap _ l => forallb (fun ky : N * v => zeroishb (snd ky)) l
    | _ => true
    end.

  Fixpoint cleanb (cx : ctx) (y : v) {struct y} : bool :=
    match y with
    | VLeaf lk l => match leaf_act ov cx lk with LFail => true | LAct a settable => if settable then leaf_okb a l else true end
    | VLeaves _ ls =>
        match leaves_tag ov cx with
        | Some ti => match fst ti with CPublic => true | _ => forallb (leaf_okb (action ti)) ls end
        | None => true
        end
    | VPtr (Some z) => match ctx_ptr cx with Some cx' => cleanb cx' z | None => true end
    | VSlice l => match ctx_slice cx with Some tg => forallb (cleanb (CElem tg)) l | None => true end
    | VStruct tg fs =>
        forallb (fun f : field =>
                   match f with (nm, ex, t, z) =>
                     if ex then cleanb (CField (struct_addr cx) (struct_ign cx tg) t (field_mtags nm (struct_tags cx tg))) z else zeroishb z
                   end) fs
    | VMap tg l =>
        forallb (fun ky : N * v =>
                   match key_tags (fst ky) (map_tags cx tg) with
                   | [] => cleanb (entry_ctx (fst ky) (map_tags cx tg)) (snd ky)
                   | ts => tagged_okb ts (snd ky)
                   end) l
    | _ => true
    end.

  (* ---------- the grammar: positions the filter looks at ---------- *)
  Definition scalarb (y : v) : bool := match y with VLeaf _ _ | VNilBytes | VOther _ | VPtr None => true | _ => false end.
  Fixpoint inGb (cx : ctx) (x : v) {struct x} : bool :=
    match x with
    | VLeaf lk _ =>
        match cx, lk with
        | CElem _, (LStr | LBytes) => false
        | _, _ => match leaf_act ov cx lk with LFail => false | LAct _ settable => settable end
        end
    | VLeaves _ _ => match leaves_tag ov cx with Some _ => true | None => false end
    | VPtr (Some y) => match ctx_ptr cx with Some cx' => inGb cx' y | None => false end
    | VSlice l => match ctx_slice cx with Some tg => forallb (inGb (CElem tg)) l | None => false end
    | VStruct tg fs =>
        forallb (fun f : field =>
                   match f with (nm, ex, t, y) =>
                     if ex then inGb (CField (struct_addr cx) (struct_ign cx tg) t (field_mtags nm (struct_tags cx tg))) y else true
                   end) fs
    | VMap tg l =>
        forallb (fun ky : N * v =>
                   match key_tags (fst ky) (map_tags cx tg) with
                   | [] => inGb (entry_ctx (fst ky) (map_tags cx tg)) (snd ky)
                   | _ => scalarb (snd ky)
                   end) l
    | _ => true
    end.

  (* unexported fields hold nothing readable (true of every copystructure copy, see [copyz]) *)
  Fixpoint unexp_zero (x : v) : bool :=
    match x with
    | VStruct _ fs => forallb (fun f : field => match f with (_, ex, _, y) => if ex then unexp_zero y else zeroishb y end) fs
    | VPtr (Some y) => unexp_zero y
    | VSlice l => forallb unexp_zero l
    | VMap _ l => forallb (fun ky : N * v => unexp_zero (snd ky)) l
    | _ => true
    end.

  (* tags name strings *)
  Definition strb (y : v) : bool := match y with VLeaf LStr _ | VNilBytes | VPtr None => true | _ => false end.
  Fixpoint tosb (cx : ctx) (x : v) {struct x} : bool :=
    match x with
    | VPtr (Some y) => match ctx_ptr cx with Some cx' => tosb cx' y | None => true end
    | VSlice l => match ctx_slice cx with Some tg => forallb (tosb (CElem tg)) l | None => true end
    | VStruct tg fs =>
        forallb (fun f : field =>
                   match f with (nm, ex, t, y) =>
                     if ex then tosb (CField (struct_addr cx) (struct_ign cx tg) t (field_mtags nm (struct_tags cx tg))) y else true
                   end) fs
    | VMap tg l =>
        forallb (fun ky : N * v =>
                   match key_tags (fst ky) (map_tags cx tg) with
                   | [] => tosb (entry_ctx (fst ky) (map_tags cx tg)) (snd ky)
                   | _ => strb (snd ky)
                   end) l
    | _ => true
    end.
End Spec.

(* ---------- shape ---------- *)
Fixpoint erase (x : v) : v :=
  match x with
  | VLeaf lk _ => VLeaf lk Opaque
  | VLeaves lk ls => VLeaves lk (map (fun _ => Opaque) ls)
  | VStruct tg fs => VStruct tg (map (fun f : field => match f with (nm, ex, t, y) => (nm, ex, t, erase y) end) fs)
  | VPtr (Some y) => VPtr (Some (erase y))
  | VSlice l => VSlice (map erase l)
  | VMap tg l => VMap tg (map (fun ky : N * v => (fst ky, erase (snd ky))) l)
  | _ => x
  end.

Fixpoint all_exported (x : v) : bool :=
  match x with
  | VStruct _ fs => forallb (fun f : field => match f with (_, ex, _, y) => ex && all_exported y end) fs
  | VPtr (Some y) => all_exported y
  | VSlice l => forallb all_exported l
  | VMap _ l => forallb (fun ky : N * v => all_exported (snd ky)) l
  | _ => true
  end.

(* "cannot be read without the key" *)
Definition exposed (l : leaf) : bool := match l with Plain _ => true | _ => false end.

(* the key in force and the configuration Process hands to the walker *)
Definition key_of (c : cfg) (ekey : N) (ewi : option N) : N := match ewi with Some _ => ekey | None => c_key c end.
