(* FileSink.v — executable model of file_sink.go (FileSink.Process / Reopen and the private open, rotate, reopen,
   pruneFiles, newFileName) over a small file-system model.  No proofs here (FileSinkProofs.v).

   Conventions
   * A directory is a list of files in creation order; a file has a name, an inode number, a mode and its data as
     the list of chunks appended to it.  A chunk is the id (N, non-zero) of one event's formatted bytes: one
     [Write] = one write(2) of one whole chunk on an O_APPEND descriptor.  The chunk 0 stands for "bytes that are
     not a whole event" (what a failed first attempt of the write-retry branch may leave behind; on the
     implementation side the harness' tokenizer emits it for any bytes that do not parse as whole events).
   * Names: [NPlain] is FileName itself, [NStamp ts] is  base-<ts>.ext  (what fileNamePattern produces and what the
     glob of pruneFiles matches), [NForeign k] is any name outside  base.ext / base-*.ext.
   * Time is an INPUT: every time.Now()/time.Since() of the code is one reading carried by the operation
     (t1: open() before rotate; t2: time.Since in rotate; t3: rotateTime; t4: open() after rotate; t5: open() of the
     retry branch).  The theorems assume the readings strictly increase ([clock_ok]); the model itself is total.
   * Faults: only the write-retry branch is driven by a fault oracle ([wfault]); it is [nofault] throughout the
     quantifiers of C08/C15.  All other file-system primitives are fault free. *)
From Coq Require Import List Bool Arith NArith ZArith.
Import ListNotations.
Open Scope Z_scope.

(* ------------------------------------------------------------------ names and files *)
Inductive name := NForeign (k : N) | NStamp (ts : Z) | NPlain.

Definition name_eqb (a b : name) : bool :=
  match a, b with
  | NPlain, NPlain => true
  | NStamp x, NStamp y => x =? y
  | NForeign x, NForeign y => N.eqb x y
  | _, _ => false
  end.
Definition is_stamp (n : name) : bool := match n with NStamp _ => true | _ => false end.
Definition is_plain (n : name) : bool := match n with NPlain => true | _ => false end.
Definition is_foreign (n : name) : bool := match n with NForeign _ => true | _ => false end.

Record file := { f_name : name; f_ino : N; f_mode : N; f_data : list N }.
Definition set_name (f : file) (n : name) : file := {| f_name := n; f_ino := f_ino f; f_mode := f_mode f; f_data := f_data f |}.
Definition set_mode (f : file) (m : N) : file := {| f_name := f_name f; f_ino := f_ino f; f_mode := m; f_data := f_data f |}.
Definition add_data (f : file) (x : N) : file := {| f_name := f_name f; f_ino := f_ino f; f_mode := f_mode f; f_data := f_data f ++ [x] |}.

Definition has_name (n : name) (fs : list file) : bool := existsb (fun f => name_eqb (f_name f) n) fs.
Fixpoint lookup_name (n : name) (fs : list file) : option file :=
  match fs with [] => None | f :: t => if name_eqb (f_name f) n then Some f else lookup_name n t end.
Fixpoint lookup_ino (i : N) (fs : list file) : option file :=
  match fs with [] => None | f :: t => if N.eqb (f_ino f) i then Some f else lookup_ino i t end.

(* os.Remove *)
Definition fs_remove (n : name) (fs : list file) : list file := filter (fun f => negb (name_eqb (f_name f) n)) fs.
(* os.Rename: fails when the source is missing; replaces an existing destination; renaming onto itself is a no-op.
   The renamed file keeps its inode, mode, data and its position in the list. *)
Definition fs_rename (old new : name) (fs : list file) : option (list file) :=
  if has_name old fs then
    if name_eqb old new then Some fs
    else Some (map (fun f => if name_eqb (f_name f) old then set_name f new else f) (fs_remove new fs))
  else None.
(* write(2) on a descriptor: appends to the file with that inode wherever it is linked now (nothing visible if unlinked) *)
Definition fs_append (i : N) (x : N) (fs : list file) : list file :=
  map (fun f => if N.eqb (f_ino f) i then add_data f x else f) fs.
Definition fs_chmod (n : name) (m : N) (fs : list file) : list file :=
  map (fun f => if name_eqb (f_name f) n then set_mode f m else f) fs.

(* ------------------------------------------------------------------ configuration and state *)
Inductive pathkind := PDir | PDevNull | PStdout | PStderr.
Record cfg := {
  path : pathkind;
  maxBytes : Z;        (* MaxBytes  (int) *)
  maxFiles : N;        (* MaxFiles  (int; the model covers MaxFiles >= 0 — a negative value makes pruneFiles index out of range) *)
  maxDur : Z;          (* MaxDuration in ns *)
  tsOnly : bool;       (* TimestampOnlyOnRotate *)
  cmode : N;           (* Mode; 0 = unset *)
}.
Definition defaultMode : N := 384%N.   (* 0600 *)
Definition dirMode : N := 448%N.       (* 0700 *)
Definition rotateEnabled (c : cfg) : bool := (0 <? maxBytes c) || negb (maxDur c =? 0).
Definition eff_mode (c : cfg) : N := if N.eqb (cmode c) 0 then defaultMode else cmode c.
Definition special (c : cfg) : bool := match path c with PDir => false | _ => true end.

Record world := {
  files : list file;           (* the directory fs.Path, in creation order *)
  dirmode : option N;          (* None: the directory does not exist yet *)
  fopen : option (N * name);   (* fs.f: inode of the descriptor and the name it was opened under (f.Name()) *)
  bw : Z;                      (* BytesWritten *)
  lc : Z;                      (* LastCreated *)
  clock : Z;                   (* the latest clock reading consumed *)
  next_ino : N;
  acked : list N;              (* ghost: chunks whose Process returned nil, in order *)
  pruned : list N;             (* ghost: data of the files removed by pruneFiles, in removal order *)
  since_open : Z;              (* ghost: bytes appended through the current descriptor since it was opened *)
  sout : list N; serr : list N (* what went to os.Stdout / os.Stderr *)
}.

Definition set_files (w : world) (fs : list file) : world :=
  {| files := fs; dirmode := dirmode w; fopen := fopen w; bw := bw w; lc := lc w; clock := clock w; next_ino := next_ino w;
     acked := acked w; pruned := pruned w; since_open := since_open w; sout := sout w; serr := serr w |}.
Definition set_fopen (w : world) (o : option (N * name)) : world :=
  {| files := files w; dirmode := dirmode w; fopen := o; bw := bw w; lc := lc w; clock := clock w; next_ino := next_ino w;
     acked := acked w; pruned := pruned w; since_open := since_open w; sout := sout w; serr := serr w |}.
Definition set_clock (w : world) (k : Z) : world :=
  {| files := files w; dirmode := dirmode w; fopen := fopen w; bw := bw w; lc := lc w; clock := k; next_ino := next_ino w;
     acked := acked w; pruned := pruned w; since_open := since_open w; sout := sout w; serr := serr w |}.
Definition set_pruned (w : world) (fs : list file) (p : list N) : world :=
  {| files := fs; dirmode := dirmode w; fopen := fopen w; bw := bw w; lc := lc w; clock := clock w; next_ino := next_ino w;
     acked := acked w; pruned := p; since_open := since_open w; sout := sout w; serr := serr w |}.

(* ------------------------------------------------------------------ newFileName / open *)
Definition newFileName (c : cfg) (t : Z) : name :=
  if tsOnly c then NPlain else if rotateEnabled c then NStamp t else NPlain.

(* open(): no-op when a file is open; MkdirAll(dirMode); OpenFile(O_APPEND|O_CREATE, mode); Chmod when Mode is set;
   LastCreated := createTime; BytesWritten := 0 *)
Definition do_open (c : cfg) (w : world) (t : Z) : world :=
  match fopen w with
  | Some _ => w
  | None =>
      let nm := newFileName c t in
      let dm := match dirmode w with None => Some dirMode | d => d end in
      match lookup_name nm (files w) with
      | Some f =>
          let fs' := if N.eqb (cmode c) 0 then files w else fs_chmod nm (cmode c) (files w) in
          {| files := fs'; dirmode := dm; fopen := Some (f_ino f, nm); bw := 0; lc := t; clock := t; next_ino := next_ino w;
             acked := acked w; pruned := pruned w; since_open := 0; sout := sout w; serr := serr w |}
      | None =>
          let f := {| f_name := nm; f_ino := next_ino w; f_mode := eff_mode c; f_data := [] |} in
          {| files := files w ++ [f]; dirmode := dm; fopen := Some (next_ino w, nm); bw := 0; lc := t; clock := t;
             next_ino := N.succ (next_ino w);
             acked := acked w; pruned := pruned w; since_open := 0; sout := sout w; serr := serr w |}
      end
  end.

(* ------------------------------------------------------------------ pruneFiles *)
Fixpoint ins (x : Z) (l : list Z) : list Z :=
  match l with [] => [x] | y :: t => if x <=? y then x :: l else y :: ins x t end.
Fixpoint isort (l : list Z) : list Z := match l with [] => [] | x :: t => ins x (isort t) end.
Fixpoint stamps_of (fs : list file) : list Z :=
  match fs with [] => [] | f :: t => match f_name f with NStamp ts => ts :: stamps_of t | _ => stamps_of t end end.
(* filepath.Glob(base-*.ext) followed by sort.Strings: the stamped names in ascending order (decimal stamps of
   equal length: string order = numeric order) *)
Definition glob_sorted (fs : list file) : list Z := isort (stamps_of fs).
Definition data_of (n : name) (fs : list file) : list N :=
  match lookup_name n fs with Some f => f_data f | None => [] end.
(* the removal loop: os.Remove(matches[i]) for i < stale; [prune_n j] is the state after j iterations *)
Fixpoint remove_all (victims : list Z) (w : world) : world :=
  match victims with
  | [] => w
  | v :: r => remove_all r (set_pruned w (fs_remove (NStamp v) (files w)) (pruned w ++ data_of (NStamp v) (files w)))
  end.
Definition stale_count (c : cfg) (w : world) : nat := (length (glob_sorted (files w)) - N.to_nat (maxFiles c))%nat.
Definition prune_n (j : nat) (c : cfg) (w : world) : world :=
  if special c || N.eqb (maxFiles c) 0 then w
  else remove_all (firstn (Nat.min j (stale_count c w)) (glob_sorted (files w))) w.
Definition prune (c : cfg) (w : world) : world := prune_n (stale_count c w) c w.

(* ------------------------------------------------------------------ rotate *)
Definition rotate_due (c : cfg) (w : world) (t2 : Z) : bool :=
  ((maxBytes c <=? bw w) && (0 <? maxBytes c)) || ((maxDur c <? t2 - lc w) && (0 <? maxDur c)).

(* rotate(): (state, ok, rotated?) — f is open when it is called *)
Definition do_rotate (c : cfg) (w : world) (t2 t3 t4 : Z) : world * bool * bool :=
  let w1 := set_clock w t2 in
  if rotate_due c w t2 then
    let w2 := set_fopen w1 None in                                  (* fs.f.Close(); fs.f = nil *)
    if tsOnly c then
      let w3 := set_clock w2 t3 in
      match fs_rename NPlain (NStamp t3) (files w3) with
      | Some fs' => (do_open c (prune c (set_files w3 fs')) t4, true, true)
      | None => (w3, false, true)                                   (* "failed to rotate log file" *)
      end
    else (do_open c (prune c w2) t4, true, true)
  else (w1, true, false).

(* reopen(): Stat(f.Name()); missing -> forget the descriptor; then close (if still held) and open() *)
Definition do_reopen (c : cfg) (w : world) (t : Z) : world :=
  let w1 := match fopen w with
            | Some (_, nm) => if has_name nm (files w) then w else set_fopen w None   (* os.IsNotExist: fs.f = nil *)
            | None => w
            end in
  match fopen w1 with
  | None => do_open c w1 t
  | Some _ => do_open c (set_fopen w1 None) t                                         (* Close; fs.f = nil; open() *)
  end.

(* ------------------------------------------------------------------ operations *)
Record wfault := { first_fails : bool; leaves_partial : bool; second_fails : bool }.
Definition nofault : wfault := {| first_fails := false; leaves_partial := false; second_fails := false |}.

Inductive op :=
| Write (id : N) (size : Z) (t1 t2 t3 t4 t5 : Z) (flt : wfault)
| Reopen (t : Z)
| ExtRename (t : Z)      (* somebody renames the file the sink has open to base-<t>.ext *)
| Pause (t : Z).         (* time passes: the clock reads t afterwards *)

Definition op_last (o : op) : Z :=
  match o with Write _ _ _ _ _ _ t5 _ => t5 | Reopen t => t | ExtRename t => t | Pause t => t end.

Definition ack (w : world) (id : N) : world :=
  {| files := files w; dirmode := dirmode w; fopen := fopen w; bw := bw w; lc := lc w; clock := clock w; next_ino := next_ino w;
     acked := acked w ++ [id]; pruned := pruned w; since_open := since_open w; sout := sout w; serr := serr w |}.
(* one successful WriteTo on the descriptor: the whole chunk lands in the file; [counted]: BytesWritten += n *)
Definition append_chunk (w : world) (x : N) (size : Z) (counted : bool) : world :=
  match fopen w with
  | Some (i, _) =>
      {| files := fs_append i x (files w); dirmode := dirmode w; fopen := fopen w;
         bw := if counted then bw w + size else bw w; lc := lc w; clock := clock w; next_ino := next_ino w;
         acked := acked w; pruned := pruned w; since_open := since_open w + size; sout := sout w; serr := serr w |}
  | None => w
  end.

(* Process on a directory path *)
Definition do_write (c : cfg) (w : world) (id : N) (size : Z) (t1 t2 t3 t4 t5 : Z) (flt : wfault) : world * bool * bool :=
  let w1 := do_open c w t1 in
  let '(w2, ok, rot) := do_rotate c w1 t2 t3 t4 in
  if negb ok then (w2, false, rot) else
  if negb (first_fails flt) then (ack (append_chunk w2 id size true) id, true, rot)
  else
    (* the first WriteTo failed, possibly after some bytes reached the file; retry once after reopen() *)
    let w3 := if leaves_partial flt then append_chunk w2 0%N 0 false else w2 in
    let w4 := do_reopen c w3 t5 in
    if second_fails flt then (w4, false, rot)
    else (ack (append_chunk w4 id size false) id, true, rot).

(* the write is counted in BytesWritten for stdout/stderr; /dev/null returns before anything happens *)
Definition std_write (c : cfg) (w : world) (id : N) (size : Z) : world :=
  match path c with
  | PStdout =>
      {| files := files w; dirmode := dirmode w; fopen := fopen w; bw := bw w + size; lc := lc w; clock := clock w; next_ino := next_ino w;
         acked := acked w ++ [id]; pruned := pruned w; since_open := since_open w; sout := sout w ++ [id]; serr := serr w |}
  | PStderr =>
      {| files := files w; dirmode := dirmode w; fopen := fopen w; bw := bw w + size; lc := lc w; clock := clock w; next_ino := next_ino w;
         acked := acked w ++ [id]; pruned := pruned w; since_open := since_open w; sout := sout w; serr := serr w ++ [id] |}
  | _ => ack w id          (* /dev/null: success, nothing happens *)
  end.

(* the file the descriptor refers to, under whatever name it has now *)
Definition active_file (w : world) : option file :=
  match fopen w with Some (i, _) => lookup_ino i (files w) | None => None end.

(* step: (state, call succeeded, a rotation was started) *)
Definition step3 (c : cfg) (w : world) (o : op) : world * bool * bool :=
  match o with
  | Write id size t1 t2 t3 t4 t5 flt =>
      if special c then
        (set_clock (std_write c w id size) t5, true, false)
      else let '(w', ok, rot) := do_write c w id size t1 t2 t3 t4 t5 flt in (set_clock w' t5, ok, rot)
  | Reopen t => if special c then (set_clock w t, true, false) else (do_reopen c w t, true, false)
  | ExtRename t =>
      match active_file w with
      | Some f =>
          match fs_rename (f_name f) (NStamp t) (files w) with
          | Some fs' => (set_clock (set_files w fs') t, true, false)
          | None => (set_clock w t, true, false)
          end
      | None => (set_clock w t, true, false)
      end
  | Pause t => (set_clock w t, true, false)
  end.
Definition step (c : cfg) (w : world) (o : op) : world := fst (fst (step3 c w o)).
Definition step_ok (c : cfg) (w : world) (o : op) : bool := snd (fst (step3 c w o)).
Definition step_rot (c : cfg) (w : world) (o : op) : bool := snd (step3 c w o).

(* the initial state: a directory that may not exist yet and holds only files outside the sink's name space *)
(* [fids]: names of the foreign files, [dm]: mode of the directory if it exists already, [k0]: the clock before the history *)
Fixpoint mk_foreign (i : N) (fids : list N) : list file :=
  match fids with
  | [] => []
  | k :: r => {| f_name := NForeign k; f_ino := i; f_mode := 420%N; f_data := [] |} :: mk_foreign (N.succ i) r
  end.
Definition w_init (fids : list N) (dm : option N) (k0 : Z) : world :=
  {| files := mk_foreign 1%N fids; dirmode := dm;
     fopen := None; bw := 0; lc := 0; clock := k0;
     next_ino := (1 + N.of_nat (length fids))%N;
     acked := []; pruned := []; since_open := 0; sout := []; serr := [] |}.
Definition run_from (c : cfg) (w : world) (ops : list op) : world := fold_left (step c) ops w.
Definition run (c : cfg) (fids : list N) (dm : option N) (k0 : Z) (ops : list op) : world := run_from c (w_init fids dm k0) ops.

(* ------------------------------------------------------------------ the clock hypothesis *)
Definition op_incr (k : Z) (o : op) : Prop :=
  match o with
  | Write _ _ t1 t2 t3 t4 t5 _ => k < t1 /\ t1 < t2 /\ t2 < t3 /\ t3 < t4 /\ t4 < t5
  | Reopen t | ExtRename t | Pause t => k < t
  end.
Fixpoint clock_ok (k : Z) (ops : list op) : Prop :=
  match ops with [] => True | o :: r => op_incr k o /\ clock_ok (op_last o) r end.
Definition op_incrb (k : Z) (o : op) : bool :=
  match o with
  | Write _ _ t1 t2 t3 t4 t5 _ => (k <? t1) && (t1 <? t2) && (t2 <? t3) && (t3 <? t4) && (t4 <? t5)
  | Reopen t | ExtRename t | Pause t => k <? t
  end.
Fixpoint clock_okb (k : Z) (ops : list op) : bool :=
  match ops with [] => true | o :: r => op_incrb k o && clock_okb (op_last o) r end.
Definition fault_free_op (o : op) : Prop := match o with Write _ _ _ _ _ _ _ flt => flt = nofault | _ => True end.
Definition fault_free (ops : list op) : Prop := Forall fault_free_op ops.

(* ------------------------------------------------------------------ reading the sink's files, oldest to newest *)
Fixpoint ins_file (f : file) (ts : Z) (l : list (Z * file)) : list (Z * file) :=
  match l with [] => [(ts, f)] | (y, g) :: t => if ts <=? y then (ts, f) :: l else (y, g) :: ins_file f ts t end.
Fixpoint stamped_sorted (fs : list file) : list (Z * file) :=
  match fs with
  | [] => []
  | f :: t => match f_name f with NStamp ts => ins_file f ts (stamped_sorted t) | _ => stamped_sorted t end
  end.
Definition plain_files (fs : list file) : list file := filter (fun f => is_plain (f_name f)) fs.
(* files of the sink's name space: rotated/stamped ones by ascending stamp, then the plain-named one *)
Definition reading_files (fs : list file) : list file := map snd (stamped_sorted fs) ++ plain_files fs.
Definition reading (fs : list file) : list N := concat (map f_data (reading_files fs)).
Definition foreign_files (fs : list file) : list file := filter (fun f => is_foreign (f_name f)) fs.

(* ------------------------------------------------------------------ atomic file-system steps of one call (crash points) *)
(* the states a SIGKILL can leave behind during [o]: after each atomic file-system step of the call, in order;
   the last one is the state in which the call returns (FileSinkProofs.crash_points_last) *)
Definition prune_points (c : cfg) (w : world) : list world :=
  map (fun j => prune_n j c w) (seq 1 (stale_count c w)).
Definition rotate_points (c : cfg) (w : world) (t2 t3 t4 : Z) : list world :=
  let w1 := set_clock w t2 in
  if rotate_due c w t2 then
    let w2 := set_fopen w1 None in
    if tsOnly c then
      let w3 := set_clock w2 t3 in
      match fs_rename NPlain (NStamp t3) (files w3) with
      | Some fs' => [w2; set_files w3 fs'] ++ prune_points c (set_files w3 fs') ++ [do_open c (prune c (set_files w3 fs')) t4]
      | None => [w2; w3]
      end
    else [w2] ++ prune_points c w2 ++ [do_open c (prune c w2) t4]
  else [w1].
Definition crash_points (c : cfg) (w : world) (o : op) : list world :=
  match o with
  | Write id size t1 t2 t3 t4 t5 flt =>
      if special c || first_fails flt then [step c w o]
      else
        let w1 := do_open c w t1 in
        let '(w2, ok, _) := do_rotate c w1 t2 t3 t4 in
        [w1] ++ rotate_points c w1 t2 t3 t4 ++
        (if ok then [append_chunk w2 id size true; step c w o] else [step c w o])
  | _ => [step c w o]
  end.

(* ------------------------------------------------------------------ deletions from outside *)
(* Somebody removes the whole log directory, or only the file the sink has open, behind the sink's back.  These are NOT
   (nor the [XAppend] of foreign bytes to one of the sink's files) operations of the histories C08 quantifies over (its statement lists external RENAME followed by Reopen only: after a
   deletion acknowledged events are simply gone), which is why they live in a separate type: every theorem about [list op]
   histories is a theorem about histories without deletions.  They exist for C15's clause "in a directory created on
   demand": the next open() re-creates the directory (0700) and a new file (configured mode). *)
Inductive xop := XOp (o : op) | XRmDir (t : Z) | XRmActive (t : Z)
  | XAppend (pos : N) (x : N) (t : Z).   (* somebody appends the bytes of chunk x to the pos-th (0 = oldest) file of the sink *)
Definition fs_append_name (n : name) (x : N) (fs : list file) : list file :=
  map (fun f => if name_eqb (f_name f) n then add_data f x else f) fs.
Definition fs_remove_ino (i : N) (fs : list file) : list file := filter (fun f => negb (N.eqb (f_ino f) i)) fs.
Definition set_dir (w : world) (fs : list file) (dm : option N) : world :=
  {| files := fs; dirmode := dm; fopen := fopen w; bw := bw w; lc := lc w; clock := clock w; next_ino := next_ino w;
     acked := acked w; pruned := pruned w; since_open := since_open w; sout := sout w; serr := serr w |}.
Definition xstep3 (c : cfg) (w : world) (x : xop) : world * bool * bool :=
  match x with
  | XOp o => step3 c w o
  | XRmDir t => (set_clock (set_dir w [] None) t, true, false)            (* rm -rf Path: the descriptor stays, unlinked *)
  | XRmActive t =>
      match fopen w with
      | Some (i, _) => (set_clock (set_files w (fs_remove_ino i (files w))) t, true, false)
      | None => (set_clock w t, true, false)
      end
  | XAppend pos x t =>
      match nth_error (reading_files (files w)) (N.to_nat pos) with
      | Some f => (set_clock (set_files w (fs_append_name (f_name f) x (files w))) t, true, false)
      | None => (set_clock w t, true, false)
      end
  end.
Definition xstep (c : cfg) (w : world) (x : xop) : world := fst (fst (xstep3 c w x)).
Definition xop_clock (x : xop) : op := match x with XOp o => o | XRmDir t | XRmActive t | XAppend _ _ t => Pause t end.
