(* FileSinkExamples.v — non-vacuity: a concrete history that meets the hypotheses of the FileSink theorems and exercises
   rotation, retention, an external rename, Reopen and the failing-rename branch. *)
From Coq Require Import List Bool Arith NArith ZArith Lia.
From Verif Require Import FileSink FileSinkProofs.
Import ListNotations.
Open Scope Z_scope.

Definition ex_cfg : cfg := {| path := PDir; maxBytes := 10; maxFiles := 1%N; maxDur := 0; tsOnly := true; cmode := 0%N |}.
Definition wr (id : N) (size t : Z) : op := Write id size (t + 1) (t + 2) (t + 3) (t + 4) (t + 5) nofault.
Definition ex_ops : list op :=
  [wr 1 6 0; wr 2 6 10; wr 3 6 20; wr 4 6 30; wr 5 6 40; ExtRename 50; wr 6 6 60; wr 7 6 70; wr 8 6 80; Reopen 90; wr 9 3 100; Pause 200].
Definition ex_w : world := run ex_cfg [7%N] (Some 488%N) 0 ex_ops.

Example ex_special : special ex_cfg = false.
Proof. reflexivity. Qed.
Example ex_fault_free : fault_free ex_ops.
Proof. repeat constructor. Qed.
Example ex_clock_ok : clock_ok 0 ex_ops.
Proof. cbn. lia. Qed.
(* events 1,2 were removed by retention (MaxFiles = 1); write 7 hit the failing rename after the external rename and was
   not acknowledged; everything else reads back in order *)
Example ex_result :
  acked ex_w = [1; 2; 3; 4; 5; 6; 8; 9]%N /\ pruned ex_w = [1; 2]%N /\ reading (files ex_w) = [3; 4; 5; 6; 8; 9]%N /\
  map f_name (files ex_w) = [NForeign 7; NStamp 43; NStamp 50; NPlain].
Proof. vm_compute. repeat split; reflexivity. Qed.
Example ex_nonvacuous :
  special ex_cfg = false /\ fault_free ex_ops /\ clock_ok 0 ex_ops /\
  acked ex_w = [1; 2; 3; 4; 5; 6; 8; 9]%N /\ pruned ex_w = [1; 2]%N /\ reading (files ex_w) = [3; 4; 5; 6; 8; 9]%N.
Proof.
  split; [exact ex_special|]. split; [exact ex_fault_free|]. split; [exact ex_clock_ok|].
  destruct ex_result as [A [B [C0 _]]]. auto.
Qed.
