(* FileSinkExamples.v — non-vacuity: a concrete history that meets the hypotheses of the FileSink theorems and exercises
   rotation, retention, an external rename, Reopen and the failing-rename branch. *)
From Coq Require Import List Bool Arith NArith ZArith Lia.
From Verif Require Import FileSink FileSinkProofs.
Import ListNotations.
Open Scope Z_scope.

Definition ex_cfg : cfg := {| path := PDir; maxBytes := 10; maxFiles := 1%N; maxDur := 0; tsOnly := true; cmode := 0%N |}.
Definition wr (id : N) (size t : Z) : op := Write id size (t + 1) (t + 2) (t + 3) (t + 4) (t + 5) nofault.
Definition ex_ops : list op :=
  [wr 1 6 0; wr 2 6 10; wr 3 6 20; wr 4 6 30; wr 5 6 40; ExtRename 50; wr 6 6 60; wr 7 6 70; wr 8 6 80; Reopen 90; wr 9 3 100; Pause 200].
Definition ex_w : world := run ex_cfg [7%N] (Some 488%N) 0 ex_ops.

Example ex_special : special ex_cfg = false.
Proof. reflexivity. Qed.
Example ex_fault_free : fault_free ex_ops.
Proof. repeat constructor. Qed.
Example ex_clock_ok : clock_ok 0 ex_ops.
Proof. cbn. lia. Qed.
(* events 1,2 were removed by retention (MaxFiles = 1); write 7 hit the failing rename after the external rename and was
   not acknowledged; everything else reads back in order *)
Example ex_result :
  acked ex_w = [1; 2; 3; 4; 5; 6; 8; 9]%N /\ pruned ex_w = [1; 2]%N /\ reading (files ex_w) = [3; 4; 5; 6; 8; 9]%N /\
  map f_name (files ex_w) = [NForeign 7; NStamp 43; NStamp 50; NPlain].
Proof. vm_compute. repeat split; reflexivity. Qed.
Example ex_nonvacuous :
  special ex_cfg = false /\ fault_free ex_ops /\ clock_ok 0 ex_ops /\
  acked ex_w = [1; 2; 3; 4; 5; 6; 8; 9]%N /\ pruned ex_w = [1; 2]%N /\ reading (files ex_w) = [3; 4; 5; 6; 8; 9]%N.
Proof.
  split; [exact ex_special|]. split; [exact ex_fault_free|]. split; [exact ex_clock_ok|].
  destruct ex_result as [A [B [C0 _]]]. auto.
Qed.

(* ---- C15: a rotating write in that history (the fifth write): MaxFiles = 1 keeps the newest rotated file only ---- *)
Definition ex_w4 : world := run ex_cfg [7%N] (Some 488%N) 0 (firstn 4 ex_ops).
Example ex_rotation :
  fault_free (firstn 4 ex_ops) /\ clock_ok 0 (firstn 4 ex_ops ++ [wr 5 6 40]) /\
  step_rot ex_cfg ex_w4 (wr 5 6 40) = true /\ step_ok ex_cfg ex_w4 (wr 5 6 40) = true /\
  stamps_of (files ex_w4) = [23] /\ stamps_of (files (step ex_cfg ex_w4 (wr 5 6 40))) = [43] /\ bw ex_w4 = 12.
Proof. split; [repeat constructor|]. split; [cbn; lia|]. vm_compute. repeat split; reflexivity. Qed.

(* ---- outside the quantifiers of C08/C15: the write-retry branch (needs a failing write(2)) ---- *)
Definition retry_ok : wfault := {| first_fails := true; leaves_partial := false; second_fails := false |}.
Definition retry_partial : wfault := {| first_fails := true; leaves_partial := true; second_fails := false |}.
Definition ex_retry (f : wfault) : world := run ex_cfg [] None 0 [Write 1 5 1 2 3 4 5 f].
(* the retried write is acknowledged but not counted in BytesWritten *)
Example retry_not_counted : acked (ex_retry retry_ok) = [1%N] /\ reading (files (ex_retry retry_ok)) = [1%N] /\
  bw (ex_retry retry_ok) = 0 /\ since_open (ex_retry retry_ok) = 5.
Proof. vm_compute. repeat split; reflexivity. Qed.
(* a first attempt that wrote part of the event leaves those bytes in the file, in front of the whole event *)
Example retry_leaves_partial : acked (ex_retry retry_partial) = [1%N] /\ reading (files (ex_retry retry_partial)) = [0%N; 1%N].
Proof. vm_compute. repeat split; reflexivity. Qed.
