(* FileSinkProofs.v — invariants of the FileSink model and the theorems of C08 / C15.
   Everything is proved for every history (list of operations), every configuration and every initial set of
   foreign files; the hypotheses are [clock_ok] (clock readings strictly increase) and, where the write-retry
   branch matters, [fault_free]. *)
From Coq Require Import List Bool Arith NArith ZArith Lia Sorted ZifyBool.
From Verif Require Import FileSink.
Import ListNotations.
Open Scope Z_scope.

(* ================================================================== names *)
(* the reading order: foreign names first (they are not read), stamps ascending, the plain name last *)
Definition nlt (a b : name) : Prop :=
  match a, b with
  | NForeign _, _ => True
  | NStamp x, NStamp y => x < y
  | NStamp _, NPlain => True
  | _, _ => False
  end.
Definition names (fs : list file) : list name := map f_name fs.
Definition inos (fs : list file) : list N := map f_ino fs.
Definition contents (fs : list file) : list N := concat (map f_data fs).
Definition below (k : Z) (fs : list file) : Prop := forall t, In (NStamp t) (names fs) -> t <= k.
Definition modeA (c : cfg) : bool := negb (tsOnly c) && rotateEnabled c.   (* every file of the sink carries a stamp *)

Lemma name_eqb_eq a b : name_eqb a b = true <-> a = b.
Proof.
  destruct a, b; cbn; split; intros H; try discriminate; try reflexivity.
  - apply N.eqb_eq in H. subst. reflexivity.
  - inversion H. apply N.eqb_refl.
  - apply Z.eqb_eq in H. subst. reflexivity.
  - inversion H. apply Z.eqb_refl.
Qed.
Lemma name_eqb_refl a : name_eqb a a = true.
Proof. apply name_eqb_eq. reflexivity. Qed.
Lemma name_eqb_neq a b : a <> b -> name_eqb a b = false.
Proof. intros H. destruct (name_eqb a b) eqn:E; [apply name_eqb_eq in E; contradiction|reflexivity]. Qed.
Lemma nlt_irrefl_sink a : is_foreign a = false -> ~ nlt a a.
Proof. destruct a; cbn; intros; try discriminate; lia. Qed.
Lemma nlt_plain_false x : ~ nlt NPlain x.
Proof. destruct x; cbn; tauto. Qed.

Lemma names_app a b : names (a ++ b) = names a ++ names b.
Proof. apply map_app. Qed.
Lemma inos_app a b : inos (a ++ b) = inos a ++ inos b.
Proof. apply map_app. Qed.
Lemma contents_app a b : contents (a ++ b) = contents a ++ contents b.
Proof. unfold contents. rewrite map_app, concat_app. reflexivity. Qed.
Lemma contents_cons f t : contents (f :: t) = f_data f ++ contents t.
Proof. reflexivity. Qed.

(* ---------- sorted lists ---------- *)
Lemma sorted_snoc {A} (R : A -> A -> Prop) l n :
  StronglySorted R l -> (forall x, In x l -> R x n) -> StronglySorted R (l ++ [n]).
Proof.
  induction l as [|a t IH]; cbn; intros Hs Hall; [repeat constructor|].
  inversion Hs as [|? ? Ht Ha]; subst. constructor.
  - apply IH; [exact Ht|]. intros x Hx. apply Hall. right. exact Hx.
  - apply Forall_app. split; [exact Ha|]. constructor; [|constructor]. apply Hall. left. reflexivity.
Qed.
Lemma sorted_app_inv {A} (R : A -> A -> Prop) l1 l2 :
  StronglySorted R (l1 ++ l2) -> StronglySorted R l1 /\ StronglySorted R l2 /\ (forall x y, In x l1 -> In y l2 -> R x y).
Proof.
  induction l1 as [|a t IH]; cbn; intros Hs.
  - split; [constructor|]. split; [exact Hs|]. intros x y [].
  - inversion Hs as [|? ? Ht Ha]; subst. destruct (IH Ht) as [H1 [H2 H3]]. split; [|split].
    + constructor; [exact H1|]. apply Forall_app in Ha. tauto.
    + exact H2.
    + intros x y [<-|Hx] Hy.
      * apply Forall_app in Ha. destruct Ha as [_ Ha]. rewrite Forall_forall in Ha. apply Ha. exact Hy.
      * apply H3; assumption.
Qed.
Lemma sorted_filter {A B} (R : B -> B -> Prop) (g : A -> B) (p : A -> bool) l :
  StronglySorted R (map g l) -> StronglySorted R (map g (filter p l)).
Proof.
  induction l as [|a t IH]; cbn; intros Hs; [constructor|].
  inversion Hs as [|? ? Ht Ha]; subst. destruct (p a); cbn; [|apply IH; exact Ht].
  constructor; [apply IH; exact Ht|]. rewrite Forall_forall in *. intros x Hx. apply Ha.
  apply in_map_iff in Hx as [y [<- Hy]]. apply filter_In in Hy. apply in_map. tauto.
Qed.

(* in a name-sorted directory the plain name can only be the last entry *)
Lemma sorted_plain_last fs : StronglySorted nlt (names fs) -> In NPlain (names fs) ->
  exists fs' p, fs = fs' ++ [p] /\ f_name p = NPlain /\ ~ In NPlain (names fs').
Proof.
  induction fs as [|f t IH]; cbn; intros Hs Hin; [contradiction|].
  inversion Hs as [|? ? Ht Ha]; subst. destruct (f_name f) eqn:En.
  - destruct Hin as [Hin|Hin]; [discriminate|]. destruct (IH Ht Hin) as [fs' [p [E [Hp Hn]]]].
    exists (f :: fs'), p. subst t. split; [reflexivity|]. split; [exact Hp|]. cbn. rewrite En. intros [H|H]; [discriminate|contradiction].
  - destruct Hin as [Hin|Hin]; [discriminate|]. destruct (IH Ht Hin) as [fs' [p [E [Hp Hn]]]].
    exists (f :: fs'), p. subst t. split; [reflexivity|]. split; [exact Hp|]. cbn. rewrite En. intros [H|H]; [discriminate|contradiction].
  - destruct t as [|g t'].
    + exists [], f. split; [reflexivity|]. split; [exact En|]. intros [].
    + inversion Ha as [|? ? Hfg _]; subst. exfalso. exact (nlt_plain_false _ Hfg).
Qed.

(* ================================================================== file-system primitives *)
Lemma lookup_name_none n fs : lookup_name n fs = None <-> ~ In n (names fs).
Proof.
  induction fs as [|f t IH]; cbn; [tauto|]. destruct (name_eqb (f_name f) n) eqn:E.
  - apply name_eqb_eq in E. split; [discriminate|]. intros H. exfalso. apply H. left. exact E.
  - rewrite IH. split; [intros H [H1|H1]; [subst; rewrite name_eqb_refl in E; discriminate|contradiction]|tauto].
Qed.
Lemma lookup_name_some n fs f : lookup_name n fs = Some f -> In f fs /\ f_name f = n.
Proof.
  induction fs as [|g t IH]; cbn; [discriminate|]. destruct (name_eqb (f_name g) n) eqn:E.
  - intros H. inversion H; subst. apply name_eqb_eq in E. tauto.
  - intros H. destruct (IH H). tauto.
Qed.
Lemma lookup_name_last n fs p : ~ In n (names fs) -> f_name p = n -> lookup_name n (fs ++ [p]) = Some p.
Proof.
  induction fs as [|g t IH]; cbn; intros Hn Hp.
  - rewrite Hp, name_eqb_refl. reflexivity.
  - rewrite name_eqb_neq by (intros E; apply Hn; left; exact E). apply IH; [tauto|exact Hp].
Qed.
Lemma has_name_in n fs : has_name n fs = true <-> In n (names fs).
Proof.
  unfold has_name, names. rewrite existsb_exists. split.
  - intros [f [Hf He]]. apply name_eqb_eq in He. subst. apply in_map. exact Hf.
  - intros Hin. apply in_map_iff in Hin as [f [Hf Hin]]. exists f. split; [exact Hin|]. rewrite Hf. apply name_eqb_refl.
Qed.
Lemma fs_remove_notin n fs : ~ In n (names fs) -> fs_remove n fs = fs.
Proof.
  unfold fs_remove. induction fs as [|g t IH]; cbn [filter names map]; intros Hn; [reflexivity|].
  rewrite name_eqb_neq by (intros E; apply Hn; left; exact E). cbn [negb]. rewrite IH; [reflexivity|]. intros H. apply Hn. right. exact H.
Qed.
Lemma in_fs_remove n fs f : In f (fs_remove n fs) -> In f fs /\ f_name f <> n.
Proof.
  unfold fs_remove. rewrite filter_In. intros [H1 H2]. split; [exact H1|]. intros E. rewrite E, name_eqb_refl in H2. discriminate.
Qed.

(* a map that keeps inode and data (rename, chmod) *)
Definition keeps (g : file -> file) : Prop := forall f, f_ino (g f) = f_ino f /\ f_data (g f) = f_data f.
Lemma inos_keeps g fs : keeps g -> inos (map g fs) = inos fs.
Proof. intros Hg. unfold inos. rewrite map_map. apply map_ext. intros f. apply Hg. Qed.
Lemma contents_keeps g fs : keeps g -> contents (map g fs) = contents fs.
Proof. intros Hg. unfold contents. rewrite map_map. f_equal. apply map_ext. intros f. apply Hg. Qed.
Lemma keeps_chmod n m : keeps (fun f => if name_eqb (f_name f) n then set_mode f m else f).
Proof. intros f. destruct (name_eqb (f_name f) n); split; reflexivity. Qed.
Lemma keeps_rename o n : keeps (fun f => if name_eqb (f_name f) o then set_name f n else f).
Proof. intros f. destruct (name_eqb (f_name f) o); split; reflexivity. Qed.
Lemma names_chmod n m fs : names (fs_chmod n m fs) = names fs.
Proof. unfold names, fs_chmod. rewrite map_map. apply map_ext. intros f. destruct (name_eqb (f_name f) n); reflexivity. Qed.
Lemma fs_chmod_data n m fs f : In f (fs_chmod n m fs) -> exists g, In g fs /\ f_name f = f_name g /\ f_data f = f_data g.
Proof.
  unfold fs_chmod. intros H. apply in_map_iff in H as [g [E Hg]]. exists g. split; [exact Hg|].
  subst f. destruct (name_eqb (f_name g) n); split; reflexivity.
Qed.

(* renaming the last file of the directory, whose name occurs nowhere else, to a name that does not exist *)
Lemma rename_map_notin o n fs : ~ In o (names fs) ->
  map (fun f => if name_eqb (f_name f) o then set_name f n else f) fs = fs.
Proof.
  induction fs as [|g t IH]; cbn; intros Hn; [reflexivity|].
  rewrite name_eqb_neq by (intros E; apply Hn; left; exact E). rewrite IH; [reflexivity|tauto].
Qed.
Lemma fs_rename_last fs' p n : ~ In (f_name p) (names fs') -> ~ In n (names (fs' ++ [p])) ->
  fs_rename (f_name p) n (fs' ++ [p]) = Some (fs' ++ [set_name p n]).
Proof.
  intros Ho Hn. unfold fs_rename.
  assert (Hh : has_name (f_name p) (fs' ++ [p]) = true).
  { apply has_name_in. rewrite names_app. apply in_or_app. right. left. reflexivity. }
  rewrite Hh. rewrite name_eqb_neq.
  - rewrite fs_remove_notin by exact Hn. rewrite map_app. rewrite rename_map_notin by exact Ho.
    cbn [map]. rewrite name_eqb_refl. reflexivity.
  - intros E. apply Hn. rewrite names_app. apply in_or_app. right. left. exact E.
Qed.
Lemma fs_rename_none o n fs : fs_rename o n fs = None <-> ~ In o (names fs).
Proof.
  unfold fs_rename. destruct (has_name o fs) eqn:E.
  - apply has_name_in in E. destruct (name_eqb o n); split; try discriminate; tauto.
  - split; [|reflexivity]. intros _ H. apply has_name_in in H. congruence.
Qed.

(* write(2) on the descriptor of the last file *)
Lemma fs_append_notin i x fs : ~ In i (inos fs) -> fs_append i x fs = fs.
Proof.
  induction fs as [|g t IH]; cbn; intros Hn; [reflexivity|].
  destruct (N.eqb (f_ino g) i) eqn:E; [apply N.eqb_eq in E; exfalso; apply Hn; left; exact E|].
  unfold fs_append in IH. rewrite IH; [reflexivity|tauto].
Qed.
Lemma fs_append_last fs' p x : ~ In (f_ino p) (inos fs') -> fs_append (f_ino p) x (fs' ++ [p]) = fs' ++ [add_data p x].
Proof.
  intros Hn. unfold fs_append. rewrite map_app. fold (fs_append (f_ino p) x fs'). rewrite fs_append_notin by exact Hn.
  cbn [map]. rewrite N.eqb_refl. reflexivity.
Qed.
Lemma sorted_inos_last fs' p : StronglySorted N.lt (inos (fs' ++ [p])) -> ~ In (f_ino p) (inos fs').
Proof.
  rewrite inos_app. intros Hs Hin. apply sorted_app_inv in Hs as [_ [_ H]].
  specialize (H (f_ino p) (f_ino p) Hin (or_introl eq_refl)). lia.
Qed.

(* ================================================================== the structural invariant *)
Record sinv (c : cfg) (w : world) : Prop := {
  i_sorted : StronglySorted nlt (names (files w));       (* list order = reading order; sink names pairwise distinct *)
  i_below : below (clock w) (files w);                   (* every stamp is a past clock reading *)
  i_open : forall i nm, fopen w = Some (i, nm) ->        (* the descriptor is the last file of the directory *)
           exists fs' p, files w = fs' ++ [p] /\ f_ino p = i /\ is_foreign (f_name p) = false;
  i_mode : modeA c = true -> ~ In NPlain (names (files w));
  i_foreign : forall f, In f (files w) -> is_foreign (f_name f) = true -> f_data f = [];
  i_inos : StronglySorted N.lt (inos (files w));         (* creation order; inodes distinct *)
  i_next : forall i, In i (inos (files w)) -> (i < next_ino w)%N;
}.
(* what a reader of the directory plus the retention ghost sees *)
Definition D (w : world) : list N := pruned w ++ contents (files w).

Ltac conj := repeat match goal with |- _ /\ _ => split end.
Ltac projs := cbn [files dirmode fopen bw lc clock next_ino acked pruned since_open sout serr
                   set_files set_fopen set_clock set_pruned ack] in *.

Lemma sinv_set_clock c w k : sinv c w -> clock w <= k -> sinv c (set_clock w k).
Proof.
  intros [H1 H2 H3 H4 H5 H6 H7] Hk. constructor; projs; auto. intros t Hin. specialize (H2 t Hin). lia.
Qed.
Lemma sinv_close c w : sinv c w -> sinv c (set_fopen w None).
Proof. intros [H1 H2 H3 H4 H5 H6 H7]. constructor; projs; auto. discriminate. Qed.

Lemma newFileName_cases c t : (modeA c = true /\ newFileName c t = NStamp t) \/ (modeA c = false /\ newFileName c t = NPlain).
Proof. unfold newFileName, modeA. destruct (tsOnly c); cbn; [right; tauto|]. destruct (rotateEnabled c); [left|right]; tauto. Qed.

Lemma do_open_open c w t x : fopen w = Some x -> do_open c w t = w.
Proof. unfold do_open. intros ->. reflexivity. Qed.

Lemma sinv_open c w t : sinv c w -> clock w < t -> sinv c (do_open c w t).
Proof.
  intros Hi Ht. pose proof Hi as [H1 H2 H3 H4 H5 H6 H7]. unfold do_open.
  destruct (fopen w) as [x|] eqn:Eo; [exact Hi|].
  destruct (lookup_name (newFileName c t) (files w)) as [f|] eqn:El.
  - (* the file exists: it is the plain-named last file *)
    apply lookup_name_some in El as [Hf Hn].
    assert (Hpl : newFileName c t = NPlain).
    { destruct (newFileName_cases c t) as [[_ E]|[_ E]]; [|exact E]. exfalso. rewrite E in Hn.
      assert (Hin : In (NStamp t) (names (files w))) by (rewrite <- Hn; apply in_map; exact Hf).
      specialize (H2 t Hin). lia. }
    rewrite Hpl in *.
    assert (Hin : In NPlain (names (files w))) by (rewrite <- Hn; apply in_map; exact Hf).
    destruct (sorted_plain_last _ H1 Hin) as [fs' [p [E [Hp Hnp]]]].
    assert (Hfp : f = p).
    { rewrite E in Hf. apply in_app_or in Hf as [Hf|[Hf|[]]]; [|auto]. exfalso. apply Hnp. rewrite <- Hn. apply in_map. exact Hf. }
    subst f.
    assert (Hfiles : exists fs2 p2, (if N.eqb (cmode c) 0 then files w else fs_chmod NPlain (cmode c) (files w)) = fs2 ++ [p2] /\
                     f_ino p2 = f_ino p /\ f_name p2 = NPlain /\ names (fs2 ++ [p2]) = names (files w) /\ inos (fs2 ++ [p2]) = inos (files w) /\
                     (forall g, In g (fs2 ++ [p2]) -> exists g0, In g0 (files w) /\ f_name g = f_name g0 /\ f_data g = f_data g0)).
    { destruct (N.eqb (cmode c) 0).
      - exists fs', p. rewrite E. repeat split; auto. intros g Hg. exists g. auto.
      - set (g := fun f => if name_eqb (f_name f) NPlain then set_mode f (cmode c) else f).
        assert (Hgi : f_ino (g p) = f_ino p) by (unfold g; rewrite Hp; reflexivity).
        assert (Hgn : f_name (g p) = NPlain) by (unfold g; rewrite Hp; cbn; exact Hp).
        assert (Hm : fs_chmod NPlain (cmode c) (files w) = map g fs' ++ [g p]).
        { rewrite E. unfold fs_chmod. rewrite map_app. reflexivity. }
        exists (map g fs'), (g p). split; [exact Hm|]. split; [exact Hgi|]. split; [exact Hgn|]. rewrite <- Hm.
        split; [apply names_chmod|]. split; [apply inos_keeps; apply keeps_chmod|]. apply fs_chmod_data. }
    destruct Hfiles as [fs2 [p2 [Ef [Hi2 [Hn2 [Hnm [Hin2 Hd]]]]]]].
    constructor; projs; rewrite Ef.
    + rewrite Hnm. exact H1.
    + intros t0 Ht0. rewrite Hnm in Ht0. specialize (H2 t0 Ht0). lia.
    + intros i nm Hs. inversion Hs; subst. exists fs2, p2. split; [reflexivity|]. split; [exact Hi2|]. rewrite Hn2. reflexivity.
    + rewrite Hnm. exact H4.
    + intros g Hg Hfo. destruct (Hd g Hg) as [g0 [Hg0 [En Ed]]]. rewrite Ed. apply H5; [exact Hg0|]. rewrite <- En. exact Hfo.
    + rewrite Hin2. exact H6.
    + rewrite Hin2. exact H7.
  - (* a new file is created at the end of the directory *)
    apply lookup_name_none in El.
    constructor; projs.
    + rewrite names_app. cbn [names map f_name]. apply sorted_snoc; [exact H1|]. intros x Hx.
      destruct x as [k|tx|]; [exact I| |].
      * specialize (H2 tx Hx). destruct (newFileName_cases c t) as [[_ E]|[_ E]]; rewrite E; cbn; [lia|exact I].
      * exfalso. destruct (newFileName_cases c t) as [[Hm E]|[_ E]]; [exact (H4 Hm Hx)|]. rewrite E in El. contradiction.
    + intros t0 Hin. rewrite names_app in Hin. apply in_app_or in Hin as [Hin|[Hin|[]]].
      * specialize (H2 t0 Hin). lia.
      * cbn [f_name] in Hin. destruct (newFileName_cases c t) as [[_ E]|[_ E]]; rewrite E in Hin; inversion Hin. lia.
    + intros i nm Hs. inversion Hs; subst. eexists _, _. split; [reflexivity|]. split; [reflexivity|]. cbn [f_name].
      destruct (newFileName_cases c t) as [[_ E]|[_ E]]; rewrite E; reflexivity.
    + intros Hm Hin. rewrite names_app in Hin. apply in_app_or in Hin as [Hin|[Hin|[]]]; [exact (H4 Hm Hin)|].
      cbn [f_name] in Hin. destruct (newFileName_cases c t) as [[_ E]|[Hm2 _]]; [rewrite E in Hin; discriminate|congruence].
    + intros g Hg Hfo. apply in_app_or in Hg as [Hg|[Hg|[]]]; [exact (H5 g Hg Hfo)|]. subst g. reflexivity.
    + rewrite inos_app. cbn [inos map f_ino]. apply sorted_snoc; [exact H6|]. intros x Hx. exact (H7 x Hx).
    + intros i Hin. rewrite inos_app in Hin. apply in_app_or in Hin as [Hin|[Hin|[]]].
      * specialize (H7 i Hin). lia.
      * cbn [f_ino] in Hin. lia.
Qed.

Lemma D_open c w t : sinv c w -> D (do_open c w t) = D w.
Proof.
  intros Hi. unfold do_open. destruct (fopen w); [reflexivity|].
  destruct (lookup_name (newFileName c t) (files w)) eqn:El; unfold D; projs.
  - destruct (N.eqb (cmode c) 0); [reflexivity|]. unfold fs_chmod. rewrite contents_keeps by apply keeps_chmod. reflexivity.
  - rewrite contents_app. unfold contents at 2. cbn. rewrite app_nil_r. reflexivity.
Qed.
Lemma do_open_fopen c w t : exists x, fopen (do_open c w t) = Some x.
Proof.
  unfold do_open. destruct (fopen w) eqn:E; [eexists; exact E|]. destruct (lookup_name _ _); eexists; reflexivity.
Qed.
Lemma do_open_clock c w t : clock (do_open c w t) = match fopen w with Some _ => clock w | None => t end.
Proof. unfold do_open. destruct (fopen w); [reflexivity|]. destruct (lookup_name _ _); reflexivity. Qed.
Lemma do_open_acked c w t : acked (do_open c w t) = acked w.
Proof. unfold do_open. destruct (fopen w); [reflexivity|]. destruct (lookup_name _ _); reflexivity. Qed.

(* ---------- renaming the last file to a fresh stamp (rotation in TimestampOnlyOnRotate mode; external rename) ---------- *)
Lemma last_name_unique c w fs' p : sinv c w -> files w = fs' ++ [p] -> is_foreign (f_name p) = false -> ~ In (f_name p) (names fs').
Proof.
  intros Hi E Hnf Hin. pose proof (i_sorted _ _ Hi) as Hs. rewrite E, names_app in Hs.
  apply sorted_app_inv in Hs as [_ [_ H]]. specialize (H _ (f_name p) Hin (or_introl eq_refl)).
  exact (nlt_irrefl_sink _ Hnf H).
Qed.
Lemma fresh_stamp_notin c w t : sinv c w -> clock w < t -> ~ In (NStamp t) (names (files w)).
Proof. intros Hi Ht Hin. pose proof (i_below _ _ Hi t Hin). lia. Qed.

Lemma sinv_rename_last c w fs' p t :
  sinv c w -> files w = fs' ++ [p] -> is_foreign (f_name p) = false -> clock w < t ->
  (forall i nm, fopen w = Some (i, nm) -> i = f_ino p) ->
  fs_rename (f_name p) (NStamp t) (files w) = Some (fs' ++ [set_name p (NStamp t)]) /\
  sinv c (set_clock (set_files w (fs' ++ [set_name p (NStamp t)])) t) /\
  contents (fs' ++ [set_name p (NStamp t)]) = contents (files w).
Proof.
  intros Hi E Hnf Ht Hop. pose proof Hi as [H1 H2 H3 H4 H5 H6 H7].
  pose proof (last_name_unique _ _ _ _ Hi E Hnf) as Hu.
  pose proof (fresh_stamp_notin _ _ _ Hi Ht) as Hfr.
  split; [|split].
  - rewrite E. apply fs_rename_last; [exact Hu|]. rewrite <- E. exact Hfr.
  - rewrite E, names_app in H1. apply sorted_app_inv in H1 as [Hs1 [_ Hlt]].
    constructor; projs.
    + rewrite names_app. cbn [names map set_name f_name]. apply sorted_snoc; [exact Hs1|]. intros x Hx.
      destruct x as [k|tx|]; [exact I| |].
      * cbn. assert (Hin : In (NStamp tx) (names (files w))) by (rewrite E, names_app; apply in_or_app; left; exact Hx).
        specialize (H2 tx Hin). lia.
      * exfalso. exact (nlt_plain_false _ (Hlt NPlain (f_name p) Hx (or_introl eq_refl))).
    + intros t0 Hin. rewrite names_app in Hin. apply in_app_or in Hin as [Hin|[Hin|[]]].
      * assert (Hin2 : In (NStamp t0) (names (files w))) by (rewrite E, names_app; apply in_or_app; left; exact Hin).
        specialize (H2 t0 Hin2). lia.
      * cbn in Hin. inversion Hin. lia.
    + intros i nm Hs. exists fs', (set_name p (NStamp t)). split; [reflexivity|]. split; [cbn; symmetry; exact (Hop i nm Hs)|reflexivity].
    + intros Hm Hin. rewrite names_app in Hin. apply in_app_or in Hin as [Hin|[Hin|[]]]; [|discriminate].
      apply (H4 Hm). rewrite E, names_app. apply in_or_app. left. exact Hin.
    + intros g Hg Hfo. apply in_app_or in Hg as [Hg|[Hg|[]]]; [|subst g; discriminate].
      apply H5; [rewrite E; apply in_or_app; left; exact Hg|exact Hfo].
    + rewrite E, inos_app in H6. rewrite inos_app. exact H6.
    + intros i Hin. apply H7. rewrite E, inos_app. rewrite inos_app in Hin. exact Hin.
  - rewrite E, !contents_app. reflexivity.
Qed.

(* ---------- pruneFiles ---------- *)
Lemma isort_sorted l : StronglySorted Z.lt l -> isort l = l.
Proof.
  induction l as [|a t IH]; intros Hs; [reflexivity|]. inversion Hs as [|? ? Ht Ha]; subst. cbn [isort]. rewrite IH by exact Ht.
  destruct t as [|b t']; [reflexivity|]. cbn [ins]. inversion Ha; subst. replace (a <=? b) with true by lia. reflexivity.
Qed.
Lemma stamps_of_in fs t : In t (stamps_of fs) <-> In (NStamp t) (names fs).
Proof.
  induction fs as [|f r IH]; cbn [stamps_of names map]; [tauto|]. destruct (f_name f) eqn:En; cbn [In]; rewrite IH.
  - split; [tauto|]. intros [H|H]; [discriminate|exact H].
  - split; (intros [H|H]; [left; congruence|right; exact H]).
  - split; [tauto|]. intros [H|H]; [discriminate|exact H].
Qed.
Lemma stamps_of_sorted fs : StronglySorted nlt (names fs) -> StronglySorted Z.lt (stamps_of fs).
Proof.
  induction fs as [|f r IH]; cbn [stamps_of names map]; intros Hs; [constructor|]. inversion Hs as [|? ? Ht Ha]; subst.
  destruct (f_name f) eqn:En; try (apply IH; exact Ht). constructor; [apply IH; exact Ht|].
  rewrite Forall_forall in *. intros x Hx. apply stamps_of_in in Hx. exact (Ha _ Hx).
Qed.

(* removing the oldest stamped file *)
Lemma remove_first_stamp fs v rest :
  StronglySorted nlt (names fs) -> (forall f, In f fs -> is_foreign (f_name f) = true -> f_data f = []) ->
  stamps_of fs = v :: rest ->
  stamps_of (fs_remove (NStamp v) fs) = rest /\ contents fs = data_of (NStamp v) fs ++ contents (fs_remove (NStamp v) fs).
Proof.
  unfold data_of, fs_remove. induction fs as [|f r IH]; cbn [stamps_of names map filter lookup_name]; intros Hs Hfo Hst; [discriminate|].
  inversion Hs as [|? ? Ht Ha]; subst. destruct (f_name f) eqn:En.
  - cbn [name_eqb negb]. cbn [stamps_of]. rewrite En.
    destruct (IH Ht (fun g Hg => Hfo g (or_intror Hg)) Hst) as [I1 I2]. split; [exact I1|].
    rewrite !contents_cons. rewrite (Hfo f (or_introl eq_refl)) by (rewrite En; reflexivity). cbn [app]. exact I2.
  - inversion Hst; subst. cbn [name_eqb]. rewrite Z.eqb_refl. cbn [negb].
    assert (Hnot : ~ In (NStamp v) (names r)).
    { intros Hin. rewrite Forall_forall in Ha. specialize (Ha _ Hin). cbn in Ha. lia. }
    fold (fs_remove (NStamp v) r). rewrite fs_remove_notin by exact Hnot. split; reflexivity.
  - destruct r as [|g r']; [discriminate|]. inversion Ha as [|? ? Hfg _]; subst. exfalso. exact (nlt_plain_false _ Hfg).
Qed.

Lemma sinv_removed c w n p2 : sinv c w -> fopen w = None -> sinv c (set_pruned w (fs_remove n (files w)) p2).
Proof.
  intros [H1 H2 H3 H4 H5 H6 H7] Ho. constructor; projs.
  - apply sorted_filter. exact H1.
  - intros t Hin. apply in_map_iff in Hin as [f [Ef Hf]]. apply in_fs_remove in Hf as [Hf _]. apply H2. rewrite <- Ef. apply in_map. exact Hf.
  - rewrite Ho. discriminate.
  - intros Hm Hin. apply in_map_iff in Hin as [f [Ef Hf]]. apply in_fs_remove in Hf as [Hf _]. apply (H4 Hm). rewrite <- Ef. apply in_map. exact Hf.
  - intros f Hf. apply in_fs_remove in Hf as [Hf _]. exact (H5 f Hf).
  - apply sorted_filter. exact H6.
  - intros i Hin. apply in_map_iff in Hin as [f [Ef Hf]]. apply in_fs_remove in Hf as [Hf _]. apply H7. rewrite <- Ef. apply in_map. exact Hf.
Qed.

Lemma remove_all_spec c j : forall w, sinv c w -> fopen w = None ->
  let w' := remove_all (firstn j (stamps_of (files w))) w in
  sinv c w' /\ fopen w' = None /\ D w' = D w /\ acked w' = acked w /\ clock w' = clock w /\
  stamps_of (files w') = skipn j (stamps_of (files w)) /\
  (forall f, In f (files w') -> In f (files w)) /\
  (forall f, In f (files w) -> is_stamp (f_name f) = false -> In f (files w')).
Proof.
  induction j as [|j IH]; intros w Hi Ho; cbn [firstn remove_all].
  - cbn [skipn]. conj; auto.
  - destruct (stamps_of (files w)) as [|v rest] eqn:Est; cbn [remove_all skipn].
    + cbn [firstn remove_all]. rewrite Est. conj; auto.
    + destruct (remove_first_stamp _ _ _ (i_sorted _ _ Hi) (i_foreign _ _ Hi) Est) as [R1 R2].
      set (w1 := set_pruned w (fs_remove (NStamp v) (files w)) (pruned w ++ data_of (NStamp v) (files w))).
      assert (Hi1 : sinv c w1) by (apply sinv_removed; assumption).
      assert (Ho1 : fopen w1 = None) by exact Ho.
      assert (Est1 : stamps_of (files w1) = rest) by exact R1.
      specialize (IH w1 Hi1 Ho1). rewrite Est1 in IH. cbn zeta in IH |- *.
      destruct IH as [A1 [A2 [A3 [A4 [A5 [A6 [A7 A8]]]]]]]. conj; auto.
      * rewrite A3. unfold D, w1. projs. rewrite <- app_assoc, <- R2. reflexivity.
      * intros f Hf. apply A7 in Hf. unfold w1 in Hf. projs. apply in_fs_remove in Hf. tauto.
      * intros f Hf Hns. apply A8; [|exact Hns]. unfold w1. projs. unfold fs_remove. apply filter_In. split; [exact Hf|].
        destruct (f_name f); cbn in *; try reflexivity. discriminate.
Qed.

Lemma glob_sorted_eq c w : sinv c w -> glob_sorted (files w) = stamps_of (files w).
Proof. intros Hi. unfold glob_sorted. apply isort_sorted. apply stamps_of_sorted. exact (i_sorted _ _ Hi). Qed.

Lemma prune_n_spec c w j : sinv c w -> fopen w = None ->
  let w' := prune_n j c w in
  sinv c w' /\ fopen w' = None /\ D w' = D w /\ acked w' = acked w /\ clock w' = clock w /\
  (forall f, In f (files w') -> In f (files w)) /\
  (forall f, In f (files w) -> is_stamp (f_name f) = false -> In f (files w')).
Proof.
  intros Hi Ho. unfold prune_n. destruct (special c || N.eqb (maxFiles c) 0); [cbn zeta; conj; auto|].
  rewrite (glob_sorted_eq _ _ Hi).
  destruct (remove_all_spec c (Nat.min j (stale_count c w)) w Hi Ho) as [A1 [A2 [A3 [A4 [A5 [A6 [A7 A8]]]]]]].
  cbn zeta. conj; auto.
Qed.
Lemma prune_spec c w : sinv c w -> fopen w = None ->
  sinv c (prune c w) /\ fopen (prune c w) = None /\ D (prune c w) = D w /\ acked (prune c w) = acked w /\ clock (prune c w) = clock w.
Proof. intros Hi Ho. destruct (prune_n_spec c w (stale_count c w) Hi Ho) as [A1 [A2 [A3 [A4 [A5 _]]]]]. unfold prune. auto. Qed.

(* ---------- write(2) ---------- *)
Lemma append_spec c w x size cnt : sinv c w ->
  sinv c (append_chunk w x size cnt) /\
  ((exists o, fopen w = Some o) -> D (append_chunk w x size cnt) = D w ++ [x]) /\
  acked (append_chunk w x size cnt) = acked w /\ clock (append_chunk w x size cnt) = clock w /\
  fopen (append_chunk w x size cnt) = fopen w.
Proof.
  intros Hi. unfold append_chunk. destruct (fopen w) as [[i nm]|] eqn:Eo.
  2:{ conj; auto. intros [o Ho]. discriminate. }
  pose proof Hi as [H1 H2 H3 H4 H5 H6 H7]. destruct (H3 i nm Eo) as [fs' [p [E [Hp Hnf]]]].
  assert (Ea : fs_append i x (files w) = fs' ++ [add_data p x]).
  { rewrite E, <- Hp. apply fs_append_last. apply sorted_inos_last. rewrite <- E. exact H6. }
  conj; projs; auto.
  - constructor; projs; rewrite Ea.
    + rewrite E, names_app in H1. rewrite names_app. exact H1.
    + intros t Hin. apply H2. rewrite E, names_app. rewrite names_app in Hin. exact Hin.
    + intros i0 nm0 Hs. inversion Hs; subst i0 nm0. exists fs', (add_data p x). auto.
    + intros Hm Hin. apply (H4 Hm). rewrite E, names_app. rewrite names_app in Hin. exact Hin.
    + intros g Hg Hfo. apply in_app_or in Hg as [Hg|[Hg|[]]].
      * apply H5; [rewrite E; apply in_or_app; left; exact Hg|exact Hfo].
      * subst g. cbn in Hfo. congruence.
    + rewrite E, inos_app in H6. rewrite inos_app. exact H6.
    + intros i0 Hin. apply H7. rewrite E, inos_app. rewrite inos_app in Hin. exact Hin.
  - intros _. unfold D. projs. rewrite Ea, E, !contents_app. unfold contents at 2 4. cbn [map concat add_data f_data].
    rewrite !app_nil_r, !app_assoc. reflexivity.
Qed.

(* ---------- rotate ---------- *)
Definition good (c : cfg) (w0 : world) (k : Z) (w' : world) : Prop :=
  sinv c w' /\ D w' = D w0 /\ acked w' = acked w0 /\ clock w' <= k.

Lemma prune_points_good c w k : sinv c w -> fopen w = None -> clock w <= k -> Forall (good c w k) (prune_points c w).
Proof.
  intros Hi Ho Hk. unfold prune_points. apply Forall_forall. intros w' Hin. apply in_map_iff in Hin as [j [<- _]].
  destruct (prune_n_spec c w j Hi Ho) as [A1 [A2 [A3 [A4 [A5 _]]]]]. cbn zeta in *. unfold good. conj; auto. lia.
Qed.

Lemma good_trans c w0 w1 k w' : D w1 = D w0 -> acked w1 = acked w0 -> good c w1 k w' -> good c w0 k w'.
Proof. intros E1 E2 [A [B [C0 E]]]. unfold good. conj; auto; congruence. Qed.

Lemma rotate_points_good c w t2 t3 t4 : sinv c w -> clock w < t2 -> t2 < t3 -> t3 < t4 ->
  Forall (good c w t4) (rotate_points c w t2 t3 t4).
Proof.
  intros Hi H2 H3 H4. unfold rotate_points.
  assert (Hi1 : sinv c (set_clock w t2)) by (apply sinv_set_clock; [exact Hi|lia]).
  destruct (rotate_due c w t2).
  2:{ constructor; [|constructor]. unfold good. projs. conj; auto. lia. }
  set (w2 := set_fopen (set_clock w t2) None).
  assert (Hi2 : sinv c w2) by (apply sinv_close; exact Hi1).
  assert (G2 : good c w t4 w2) by (unfold good, w2; projs; conj; auto; lia).
  destruct (tsOnly c).
  - set (w3 := set_clock w2 t3).
    assert (Hi3 : sinv c w3) by (apply sinv_set_clock; [exact Hi2|unfold w2; projs; lia]).
    assert (G3 : good c w t4 w3) by (unfold good, w3, w2; projs; conj; auto; lia).
    destruct (fs_rename NPlain (NStamp t3) (files w3)) as [fs'|] eqn:Er.
    2:{ constructor; [exact G2|]. constructor; [exact G3|constructor]. }
    assert (Hin : In NPlain (names (files w2))).
    { destruct (has_name NPlain (files w2)) eqn:Eh; [apply has_name_in; exact Eh|].
      unfold fs_rename, w3 in Er. projs. rewrite Eh in Er. discriminate. }
    destruct (sorted_plain_last _ (i_sorted _ _ Hi2) Hin) as [fs0 [p [E [Hp Hnp]]]].
    assert (Hnf : is_foreign (f_name p) = false) by (rewrite Hp; reflexivity).
    destruct (sinv_rename_last c w2 fs0 p t3 Hi2 E Hnf) as [R1 [R2 R3]]; [unfold w2; projs; lia|unfold w2; projs; discriminate|].
    rewrite Hp in R1. unfold w3 in Er. projs. rewrite R1 in Er. inversion Er; subst fs'. clear Er.
    set (w4 := set_files w3 (fs0 ++ [set_name p (NStamp t3)])).
    assert (Hi4 : sinv c w4) by exact R2.
    assert (G4 : good c w t4 w4).
    { unfold good. split; [exact Hi4|]. unfold w4, D. projs. rewrite R3. unfold w3, w2. projs. conj; auto. lia. }
    assert (Ho4 : fopen w4 = None) by reflexivity.
    constructor; [exact G2|]. constructor; [exact G4|]. apply Forall_app. split.
    + eapply Forall_impl; [|apply (prune_points_good c w4 t4 Hi4 Ho4)]; [|unfold w4, w3; projs; lia].
      intros a Ha. destruct G4 as [_ [B [C0 _]]]. exact (good_trans _ _ _ _ _ B C0 Ha).
    + destruct (prune_spec c w4 Hi4 Ho4) as [P1 [P2 [P3 [P4 P5]]]].
      constructor; [|constructor]. unfold good.
      split; [apply sinv_open; [exact P1|rewrite P5; unfold w4, w3; projs; lia]|].
      rewrite D_open by exact P1. rewrite do_open_acked, do_open_clock, P2, P3, P4.
      destruct G4 as [_ [B [C0 _]]]. conj; auto. lia.
  - assert (Ho2 : fopen w2 = None) by reflexivity.
    constructor; [exact G2|]. apply Forall_app. split.
    + eapply Forall_impl; [|apply (prune_points_good c w2 t4 Hi2 Ho2)]; [|unfold w2; projs; lia].
      intros a Ha. destruct G2 as [_ [B [C0 _]]]. exact (good_trans _ _ _ _ _ B C0 Ha).
    + destruct (prune_spec c w2 Hi2 Ho2) as [P1 [P2 [P3 [P4 P5]]]].
      constructor; [|constructor]. unfold good.
      split; [apply sinv_open; [exact P1|rewrite P5; unfold w2; projs; lia]|].
      rewrite D_open by exact P1. rewrite do_open_acked, do_open_clock, P2, P3, P4.
      destruct G2 as [_ [B [C0 _]]]. conj; auto. lia.
Qed.

Lemma last_app_single {A} (l : list A) x d : last (l ++ [x]) d = x.
Proof. induction l as [|a t IH]; [reflexivity|]. destruct t as [|b t']; [reflexivity|]. exact IH. Qed.
Lemma rotate_points_last c w t2 t3 t4 : last (rotate_points c w t2 t3 t4) w = fst (fst (do_rotate c w t2 t3 t4)).
Proof.
  unfold rotate_points, do_rotate. destruct (rotate_due c w t2); [|reflexivity]. destruct (tsOnly c).
  - destruct (fs_rename _ _ _); [|reflexivity].
    rewrite app_assoc. rewrite last_app_single. reflexivity.
  - rewrite app_assoc. rewrite last_app_single. reflexivity.
Qed.
Lemma rotate_points_nonempty c w t2 t3 t4 : rotate_points c w t2 t3 t4 <> [].
Proof.
  unfold rotate_points. destruct (rotate_due c w t2); [|discriminate]. destruct (tsOnly c); [destruct (fs_rename _ _ _)|]; discriminate.
Qed.
Lemma last_in {A} (l : list A) d : l <> [] -> In (last l d) l.
Proof.
  induction l as [|a t IH]; [congruence|]. intros _. destruct t as [|b t']; [left; reflexivity|].
  right. apply IH. discriminate.
Qed.
Lemma rotate_spec c w t2 t3 t4 : sinv c w -> clock w < t2 -> t2 < t3 -> t3 < t4 ->
  good c w t4 (fst (fst (do_rotate c w t2 t3 t4))).
Proof.
  intros Hi H2 H3 H4. rewrite <- rotate_points_last.
  pose proof (rotate_points_good c w t2 t3 t4 Hi H2 H3 H4) as Hf. rewrite Forall_forall in Hf. apply Hf.
  apply last_in. apply rotate_points_nonempty.
Qed.
Lemma rotate_ok_open c w t2 t3 t4 o : fopen w = Some o ->
  snd (fst (do_rotate c w t2 t3 t4)) = true -> exists x, fopen (fst (fst (do_rotate c w t2 t3 t4))) = Some x.
Proof.
  intros Ho. unfold do_rotate. destruct (rotate_due c w t2); [|cbn; intros _; eexists; exact Ho]. destruct (tsOnly c).
  - destruct (fs_rename _ _ _); cbn [fst snd]; [intros _; apply do_open_fopen|discriminate].
  - cbn [fst snd]. intros _. apply do_open_fopen.
Qed.

(* ---------- one call ---------- *)
Lemma do_reopen_eq c w t : do_reopen c w t = do_open c (set_fopen w None) t.
Proof.
  unfold do_reopen. destruct (fopen w) as [[i nm]|] eqn:Eo.
  - destruct (has_name nm (files w)); [rewrite Eo|]; reflexivity.
  - rewrite Eo. destruct w; cbn in *; subst; reflexivity.
Qed.
Lemma sinv_ack c w id : sinv c w -> sinv c (ack w id).
Proof. intros [H1 H2 H3 H4 H5 H6 H7]. constructor; projs; auto. Qed.
Lemma reopen_spec c w t : sinv c w -> clock w < t ->
  sinv c (do_reopen c w t) /\ D (do_reopen c w t) = D w /\ acked (do_reopen c w t) = acked w /\ clock (do_reopen c w t) = t /\
  exists x, fopen (do_reopen c w t) = Some x.
Proof.
  intros Hi Ht. rewrite do_reopen_eq. pose proof (sinv_close _ _ Hi) as Hc. conj.
  - apply sinv_open; [exact Hc|exact Ht].
  - rewrite D_open by exact Hc. reflexivity.
  - rewrite do_open_acked. reflexivity.
  - rewrite do_open_clock. reflexivity.
  - apply do_open_fopen.
Qed.

Definition ackl (ok : bool) (id : N) : list N := if ok then [id] else [].

Lemma write_spec c w id size t1 t2 t3 t4 t5 flt :
  sinv c w -> clock w < t1 -> t1 < t2 -> t2 < t3 -> t3 < t4 -> t4 < t5 ->
  let r := do_write c w id size t1 t2 t3 t4 t5 flt in
  sinv c (fst (fst r)) /\ clock (fst (fst r)) <= t5 /\
  (flt = nofault -> D (fst (fst r)) = D w ++ ackl (snd (fst r)) id /\ acked (fst (fst r)) = acked w ++ ackl (snd (fst r)) id).
Proof.
  intros Hi H1 H2 H3 H4 H5. unfold do_write.
  assert (Hi1 : sinv c (do_open c w t1)) by (apply sinv_open; assumption).
  assert (Hc1 : clock (do_open c w t1) < t2) by (rewrite do_open_clock; destruct (fopen w); lia).
  pose proof (rotate_spec c _ t2 t3 t4 Hi1 Hc1 H3 H4) as [G1 [G2 [G3 G4]]].
  destruct (do_open_fopen c w t1) as [o1 Ho1].
  pose proof (rotate_ok_open c _ t2 t3 t4 o1 Ho1) as Hok.
  rewrite D_open in G2 by exact Hi. rewrite do_open_acked in G3.
  destruct (do_rotate c (do_open c w t1) t2 t3 t4) as [[w2 ok] rot]. cbn [fst snd] in *.
  destruct ok; cbn [negb].
  2:{ cbn [fst snd ackl]. rewrite !app_nil_r. conj; auto. lia. }
  specialize (Hok eq_refl).
  destruct (first_fails flt) eqn:Ef; cbn [negb].
  - (* the retry branch *)
    set (w3 := if leaves_partial flt then append_chunk w2 0%N 0 false else w2).
    assert (Hi3 : sinv c w3 /\ clock w3 = clock w2).
    { unfold w3. destruct (leaves_partial flt); [|auto]. destruct (append_spec c w2 0%N 0 false G1) as [A1 [_ [_ [A4 _]]]]. auto. }
    destruct Hi3 as [Hi3 Hc3].
    destruct (reopen_spec c w3 t5 Hi3) as [R1 [_ [_ [R4 _]]]]; [lia|].
    destruct (second_fails flt); cbn [fst snd].
    + conj; [exact R1|lia|]. intros ->. discriminate.
    + destruct (append_spec c _ id size false R1) as [A1 [_ [_ [A4 _]]]]. conj.
      * apply sinv_ack. exact A1.
      * projs. rewrite A4. lia.
      * intros ->. discriminate.
  - destruct (append_spec c w2 id size true G1) as [A1 [A2 [A3 [A4 _]]]]. cbn [fst snd ackl]. conj.
    + apply sinv_ack. exact A1.
    + projs. rewrite A4. lia.
    + intros _. unfold D in *. projs. rewrite (A2 Hok), A3, G2, G3. split; reflexivity.
Qed.

Lemma lookup_ino_last fs' p : ~ In (f_ino p) (inos fs') -> lookup_ino (f_ino p) (fs' ++ [p]) = Some p.
Proof.
  induction fs' as [|g t IH]; cbn [app lookup_ino inos map]; intros Hn.
  - rewrite N.eqb_refl. reflexivity.
  - destruct (N.eqb (f_ino g) (f_ino p)) eqn:E; [apply N.eqb_eq in E; exfalso; apply Hn; left; exact E|].
    apply IH. intros H. apply Hn. right. exact H.
Qed.

Definition op_ack (c : cfg) (w : world) (o : op) : list N :=
  match o with Write id _ _ _ _ _ _ _ => ackl (step_ok c w o) id | _ => [] end.

Theorem step_spec c w o : special c = false -> sinv c w -> op_incr (clock w) o ->
  sinv c (step c w o) /\ clock (step c w o) = op_last o /\
  (fault_free_op o -> D (step c w o) = D w ++ op_ack c w o /\ acked (step c w o) = acked w ++ op_ack c w o).
Proof.
  intros Hsp Hi Hinc. unfold step, op_ack, step_ok. destruct o as [id size t1 t2 t3 t4 t5 flt|t|t|t]; cbn [step3 op_last]; rewrite ?Hsp.
  - cbn [op_incr] in Hinc. destruct Hinc as [H1 [H2 [H3 [H4 H5]]]].
    pose proof (write_spec c w id size t1 t2 t3 t4 t5 flt Hi H1 H2 H3 H4 H5) as W. cbn zeta in W.
    destruct (do_write c w id size t1 t2 t3 t4 t5 flt) as [[w' ok] rot]. cbn [fst snd] in *.
    destruct W as [W1 [W2 W3]]. conj.
    + apply sinv_set_clock; assumption.
    + reflexivity.
    + intros Hff. cbn [fault_free_op] in Hff. destruct (W3 Hff) as [W4 W5]. unfold D in *. projs. auto.
  - cbn [op_incr] in Hinc. destruct (reopen_spec c w t Hi Hinc) as [R1 [R2 [R3 [R4 _]]]]. cbn [fst snd]. rewrite !app_nil_r. auto.
  - cbn [op_incr] in Hinc. unfold active_file.
    destruct (fopen w) as [[i nm]|] eqn:Eo.
    2:{ cbn [fst snd]. rewrite !app_nil_r. conj; auto. apply sinv_set_clock; [exact Hi|lia]. }
    destruct (i_open _ _ Hi i nm Eo) as [fs' [p [E [Hp Hnf]]]].
    assert (Hl : lookup_ino i (files w) = Some p).
    { rewrite E, <- Hp. apply lookup_ino_last. apply sorted_inos_last. rewrite <- E. exact (i_inos _ _ Hi). }
    rewrite Hl.
    destruct (sinv_rename_last c w fs' p t Hi E Hnf Hinc) as [R1 [R2 R3]].
    { intros i0 nm0 Hs. rewrite Eo in Hs. inversion Hs. congruence. }
    rewrite R1. cbn [fst snd]. rewrite !app_nil_r. conj; auto. intros _. unfold D. projs. rewrite R3. auto.
  - cbn [op_incr] in Hinc. cbn [fst snd]. rewrite !app_nil_r. conj; auto. apply sinv_set_clock; [exact Hi|lia].
Qed.

(* ---------- histories ---------- *)
Lemma mk_foreign_props i fids :
  Forall (fun n => is_foreign n = true) (names (mk_foreign i fids)) /\
  StronglySorted N.lt (inos (mk_foreign i fids)) /\
  (forall j, In j (inos (mk_foreign i fids)) -> (i <= j < i + N.of_nat (length fids))%N) /\
  (forall f, In f (mk_foreign i fids) -> f_data f = []).
Proof.
  revert i. induction fids as [|k r IH]; intros i; cbn [mk_foreign names inos map length].
  - conj; [constructor|constructor|intros ? []|intros ? []].
  - destruct (IH (N.succ i)) as [A1 [A2 [A3 A4]]]. conj.
    + constructor; [reflexivity|exact A1].
    + constructor; [exact A2|]. apply Forall_forall. intros j Hj. specialize (A3 j Hj). cbn [f_ino]. lia.
    + intros j [Hj|Hj]; [cbn [f_ino] in Hj; lia|]. specialize (A3 j Hj). lia.
    + intros f [<-|Hf]; [reflexivity|exact (A4 f Hf)].
Qed.
Lemma all_foreign_sorted l : Forall (fun n => is_foreign n = true) l -> StronglySorted nlt l.
Proof.
  induction l as [|a t IH]; intros Hf; [constructor|]. inversion Hf; subst. constructor; [apply IH; assumption|].
  apply Forall_forall. intros x _. destruct a; try discriminate. exact I.
Qed.
Lemma sinv_init c fids dm k0 : sinv c (w_init fids dm k0).
Proof.
  destruct (mk_foreign_props 1%N fids) as [A1 [A2 [A3 A4]]]. unfold w_init. constructor; projs.
  - apply all_foreign_sorted. exact A1.
  - intros t Hin. rewrite Forall_forall in A1. specialize (A1 _ Hin). discriminate.
  - discriminate.
  - intros _ Hin. rewrite Forall_forall in A1. specialize (A1 _ Hin). discriminate.
  - intros f Hf _. exact (A4 f Hf).
  - exact A2.
  - intros i Hi. specialize (A3 i Hi). lia.
Qed.
Lemma D_init fids dm k0 : D (w_init fids dm k0) = [].
Proof.
  unfold D, w_init. projs. cbn [app]. destruct (mk_foreign_props 1%N fids) as [_ [_ [_ A4]]].
  induction (mk_foreign 1%N fids) as [|f t IH]; [reflexivity|]. rewrite contents_cons, (A4 f (or_introl eq_refl)). cbn [app].
  apply IH. intros g Hg. apply A4. right. exact Hg.
Qed.

Lemma run_from_spec c ops : special c = false -> fault_free ops -> forall w,
  sinv c w -> acked w = D w -> clock_ok (clock w) ops ->
  sinv c (run_from c w ops) /\ acked (run_from c w ops) = D (run_from c w ops).
Proof.
  intros Hsp Hff. induction Hff as [|o r Ho Hr IH]; intros w Hi Ha Hc; cbn [run_from fold_left]; [auto|].
  cbn [clock_ok] in Hc. destruct Hc as [Hc1 Hc2].
  destruct (step_spec c w o Hsp Hi Hc1) as [S1 [S2 S3]]. destruct (S3 Ho) as [S4 S5].
  apply IH; [exact S1|congruence|rewrite S2; exact Hc2].
Qed.
Lemma run_spec c fids dm k0 ops : special c = false -> fault_free ops -> clock_ok k0 ops ->
  sinv c (run c fids dm k0 ops) /\ acked (run c fids dm k0 ops) = D (run c fids dm k0 ops).
Proof.
  intros Hsp Hff Hc. apply run_from_spec; auto; [apply sinv_init|rewrite D_init; reflexivity].
Qed.

(* ================================================================== C08 *)
(* ---------- the list order of the directory IS the reading order ---------- *)
Definition stamp_of (f : file) : Z := match f_name f with NStamp t => t | _ => 0 end.
Definition sink_files (fs : list file) : list file := filter (fun f => negb (is_foreign (f_name f))) fs.

Lemma stamped_sorted_eq fs : StronglySorted nlt (names fs) ->
  stamped_sorted fs = map (fun f => (stamp_of f, f)) (filter (fun f => is_stamp (f_name f)) fs).
Proof.
  induction fs as [|f t IH]; cbn [stamped_sorted filter names map]; intros Hs; [reflexivity|].
  inversion Hs as [|? ? Ht Ha]; subst. destruct (f_name f) eqn:En; cbn [is_stamp]; try (apply IH; exact Ht).
  rewrite IH by exact Ht. cbn [map]. assert (Est : stamp_of f = ts) by (unfold stamp_of; rewrite En; reflexivity). rewrite Est.
  destruct (filter (fun f0 => is_stamp (f_name f0)) t) as [|g l] eqn:Ef; [reflexivity|]. cbn [map ins_file].
  assert (Hg : In g t /\ is_stamp (f_name g) = true).
  { apply (proj1 (filter_In (fun f0 => is_stamp (f_name f0)) g t)). rewrite Ef. left. reflexivity. }
  destruct Hg as [Hg1 Hg2]. rewrite Forall_forall in Ha. specialize (Ha (f_name g) (in_map _ _ _ Hg1)).
  unfold stamp_of. destruct (f_name g); try discriminate. cbn in Ha. replace (ts <=? ts0) with true by lia. reflexivity.
Qed.

Lemma reading_files_eq fs : StronglySorted nlt (names fs) -> reading_files fs = sink_files fs.
Proof.
  intros Hs. unfold reading_files. rewrite stamped_sorted_eq by exact Hs. rewrite map_map. cbn [snd]. rewrite map_id.
  unfold plain_files, sink_files. induction fs as [|f t IH]; [reflexivity|]. cbn [filter names map] in *.
  inversion Hs as [|? ? Ht Ha]; subst. destruct (f_name f) eqn:En; cbn [is_stamp is_plain is_foreign negb].
  - apply IH. exact Ht.
  - cbn [app]. f_equal. apply IH. exact Ht.
  - destruct t as [|g t']; [reflexivity|]. inversion Ha as [|? ? Hfg _]; subst. exfalso. exact (nlt_plain_false _ Hfg).
Qed.

Lemma contents_sink_files fs : (forall f, In f fs -> is_foreign (f_name f) = true -> f_data f = []) ->
  contents (sink_files fs) = contents fs.
Proof.
  induction fs as [|f t IH]; intros Hf; [reflexivity|]. unfold sink_files in *. cbn [filter].
  destruct (is_foreign (f_name f)) eqn:E; cbn [negb].
  - rewrite contents_cons, (Hf f (or_introl eq_refl) E). cbn [app]. apply IH. intros g Hg. apply Hf. right. exact Hg.
  - rewrite !contents_cons. f_equal. apply IH. intros g Hg. apply Hf. right. exact Hg.
Qed.

Lemma reading_eq_contents c w : sinv c w -> reading (files w) = contents (files w).
Proof.
  intros Hi. unfold reading. rewrite reading_files_eq by exact (i_sorted _ _ Hi).
  apply contents_sink_files. exact (i_foreign _ _ Hi).
Qed.

Section History.
  Variables (c : cfg) (fids : list N) (dm : option N) (k0 : Z) (ops : list op).
  Hypothesis Hdir : special c = false.           (* a directory path: not /dev/null, /dev/stdout, /dev/stderr *)
  Hypothesis Hff : fault_free ops.               (* no write(2) failure *)
  Hypothesis Hclk : clock_ok k0 ops.             (* clock readings strictly increase *)
  Let w := run c fids dm k0 ops.

  (* Reading the sink's files oldest to newest (ascending stamps, the plain name last) yields exactly the acknowledged
     sequence minus a prefix, and that prefix is what pruneFiles removed: nothing lost, duplicated, reordered or torn. *)
  Theorem acked_is_pruned_plus_reading : acked w = pruned w ++ reading (files w).
  Proof.
    destruct (run_spec c fids dm k0 ops Hdir Hff Hclk) as [Hi Ha]. fold w in Hi, Ha.
    rewrite (reading_eq_contents c w Hi). exact Ha.
  Qed.
  Theorem acked_suffix : exists k, reading (files w) = skipn k (acked w).
  Proof.
    exists (length (pruned w)). rewrite acked_is_pruned_plus_reading. rewrite skipn_app, skipn_all, Nat.sub_diag. reflexivity.
  Qed.
  Theorem pruned_is_prefix : pruned w = firstn (length (pruned w)) (acked w).
  Proof.
    rewrite acked_is_pruned_plus_reading. rewrite firstn_app, firstn_all, Nat.sub_diag. cbn [firstn]. rewrite app_nil_r. reflexivity.
  Qed.
  Theorem nothing_pruned_nothing_lost : pruned w = [] -> reading (files w) = acked w.
  Proof. intros Hp. rewrite acked_is_pruned_plus_reading, Hp. reflexivity. Qed.
  (* the files, in the order in which they were created, are in reading order: stamps strictly ascending, plain name last *)
  Theorem reading_order : StronglySorted nlt (names (files w)) /\ reading_files (files w) = sink_files (files w).
  Proof.
    destruct (run_spec c fids dm k0 ops Hdir Hff Hclk) as [Hi _]. fold w in Hi.
    split; [exact (i_sorted _ _ Hi)|apply reading_files_eq; exact (i_sorted _ _ Hi)].
  Qed.
  Theorem reachable_sinv : sinv c w.
  Proof. exact (proj1 (run_spec c fids dm k0 ops Hdir Hff Hclk)). Qed.
End History.

(* ---------- without a retention limit nothing is ever removed ---------- *)
Lemma do_open_pruned c w t : pruned (do_open c w t) = pruned w.
Proof. unfold do_open. destruct (fopen w); [reflexivity|]. destruct (lookup_name _ _); reflexivity. Qed.
Lemma prune_n_nolimit c w j : maxFiles c = 0%N -> prune_n j c w = w.
Proof. intros H. unfold prune_n. rewrite H. rewrite orb_true_r. reflexivity. Qed.
Lemma append_pruned w x s b : pruned (append_chunk w x s b) = pruned w.
Proof. unfold append_chunk. destruct (fopen w) as [[? ?]|]; reflexivity. Qed.
Lemma rotate_pruned_nolimit c w t2 t3 t4 : maxFiles c = 0%N -> pruned (fst (fst (do_rotate c w t2 t3 t4))) = pruned w.
Proof.
  intros H. unfold do_rotate, prune. destruct (rotate_due c w t2); [|reflexivity]. destruct (tsOnly c).
  - destruct (fs_rename _ _ _); cbn [fst]; [|reflexivity]. rewrite do_open_pruned, prune_n_nolimit by exact H. reflexivity.
  - cbn [fst]. rewrite do_open_pruned, prune_n_nolimit by exact H. reflexivity.
Qed.
Lemma step_pruned_nolimit c w o : maxFiles c = 0%N -> pruned (step c w o) = pruned w.
Proof.
  intros H. unfold step. destruct o as [id size t1 t2 t3 t4 t5 flt|t|t|t]; cbn [step3].
  - destruct (special c).
    + cbn [fst]. unfold std_write. destruct (path c); reflexivity.
    + unfold do_write. pose proof (rotate_pruned_nolimit c (do_open c w t1) t2 t3 t4 H) as Hr.
      destruct (do_rotate c (do_open c w t1) t2 t3 t4) as [[w2 ok] rot]. cbn [fst] in Hr. rewrite do_open_pruned in Hr.
      destruct ok; cbn [negb fst]; [|exact Hr].
      destruct (first_fails flt); cbn [negb fst].
      * destruct (second_fails flt); cbn [fst pruned set_clock ack]; rewrite ?append_pruned, do_reopen_eq, do_open_pruned; cbn [pruned set_fopen];
          destruct (leaves_partial flt); rewrite ?append_pruned; exact Hr.
      * cbn [pruned set_clock ack]. rewrite append_pruned. exact Hr.
  - destruct (special c); cbn [fst]; [reflexivity|]. rewrite do_reopen_eq, do_open_pruned. reflexivity.
  - destruct (active_file w); [destruct (fs_rename _ _ _)|]; reflexivity.
  - reflexivity.
Qed.
Lemma run_pruned_nolimit c fids dm k0 ops : maxFiles c = 0%N -> pruned (run c fids dm k0 ops) = [].
Proof.
  intros H. unfold run, run_from. assert (H0 : pruned (w_init fids dm k0) = []) by reflexivity. revert H0. generalize (w_init fids dm k0).
  induction ops as [|o r IH]; intros w Hw; cbn [fold_left]; [exact Hw|]. apply IH. rewrite step_pruned_nolimit by exact H. exact Hw.
Qed.
Theorem no_prune_no_loss c fids dm k0 ops : special c = false -> fault_free ops -> clock_ok k0 ops ->
  maxFiles c = 0%N -> reading (files (run c fids dm k0 ops)) = acked (run c fids dm k0 ops).
Proof.
  intros Hd Hf Hc Hm. apply nothing_pruned_nothing_lost; auto. apply run_pruned_nolimit. exact Hm.
Qed.

(* ---------- a crash at any boundary between atomic file-system steps leaves only whole events ---------- *)
Definition in_flight (o : op) : option N := match o with Write id _ _ _ _ _ _ _ => Some id | _ => None end.
(* what a reader finds after the crash: all acknowledged events (minus what retention removed), plus at most the whole in-flight one *)
Definition crash_ok (c : cfg) (w : world) (o : op) (w' : world) : Prop :=
  sinv c w' /\
  (pruned w' ++ reading (files w') = acked w \/
   exists id, in_flight o = Some id /\ pruned w' ++ reading (files w') = acked w ++ [id]).

Lemma crash_points_last c w o : last (crash_points c w o) w = step c w o.
Proof.
  destruct o as [id size t1 t2 t3 t4 t5 flt|t|t|t]; try reflexivity. cbn [crash_points].
  destruct (special c || first_fails flt); [reflexivity|].
  destruct (do_rotate c (do_open c w t1) t2 t3 t4) as [[w2 ok] rot].
  destruct ok.
  - rewrite app_assoc. change [append_chunk w2 id size true; step c w (Write id size t1 t2 t3 t4 t5 flt)]
      with ([append_chunk w2 id size true] ++ [step c w (Write id size t1 t2 t3 t4 t5 flt)]).
    rewrite app_assoc. apply last_app_single.
  - rewrite app_assoc. apply last_app_single.
Qed.

Theorem crash_points_ok c w o : special c = false -> sinv c w -> acked w = D w -> op_incr (clock w) o -> fault_free_op o ->
  Forall (crash_ok c w o) (crash_points c w o).
Proof.
  intros Hsp Hi Ha Hinc Hff.
  assert (Hstep : crash_ok c w o (step c w o)).
  { destruct (step_spec c w o Hsp Hi Hinc) as [S1 [_ S3]]. destruct (S3 Hff) as [S4 _]. split; [exact S1|].
    rewrite (reading_eq_contents c _ S1). fold (D (step c w o)). rewrite S4, <- Ha.
    unfold op_ack. destruct o as [id size t1 t2 t3 t4 t5 flt|t|t|t]; try (left; apply app_nil_r).
    unfold ackl. destruct (step_ok c w _); [right; exists id; split; reflexivity|left; apply app_nil_r]. }
  destruct o as [id size t1 t2 t3 t4 t5 flt|t|t|t]; try (constructor; [exact Hstep|constructor]).
  cbn [crash_points]. cbn [fault_free_op] in Hff. subst flt. rewrite Hsp. cbn [orb nofault first_fails].
  cbn [op_incr] in Hinc. destruct Hinc as [H1 [H2 [H3 [H4 H5]]]].
  assert (Hi1 : sinv c (do_open c w t1)) by (apply sinv_open; assumption).
  assert (Hc1 : clock (do_open c w t1) < t2) by (rewrite do_open_clock; destruct (fopen w); lia).
  pose proof (rotate_points_good c _ t2 t3 t4 Hi1 Hc1 H3 H4) as Hpts.
  pose proof (rotate_spec c _ t2 t3 t4 Hi1 Hc1 H3 H4) as [G1 [G2 _]].
  destruct (do_open_fopen c w t1) as [o1 Ho1].
  pose proof (rotate_ok_open c _ t2 t3 t4 o1 Ho1) as Hok.
  assert (Hgood : forall w', good c (do_open c w t1) t4 w' -> crash_ok c w (Write id size t1 t2 t3 t4 t5 nofault) w').
  { intros w' [A [B _]]. split; [exact A|]. left. rewrite (reading_eq_contents c _ A). fold (D w'). rewrite B, D_open by exact Hi. congruence. }
  destruct (do_rotate c (do_open c w t1) t2 t3 t4) as [[w2 ok] rot]. cbn [fst snd] in *.
  constructor.
  - apply Hgood. unfold good. conj; auto. lia.
  - apply Forall_app. split; [eapply Forall_impl; [exact Hgood|exact Hpts]|].
    destruct ok; [|constructor; [exact Hstep|constructor]].
    constructor; [|constructor; [exact Hstep|constructor]].
    destruct (append_spec c w2 id size true G1) as [A1 [A2 _]]. split; [exact A1|]. right. exists id. split; [reflexivity|].
    rewrite (reading_eq_contents c _ A1). fold (D (append_chunk w2 id size true)). rewrite (A2 (Hok eq_refl)), G2, D_open by exact Hi. congruence.
Qed.

Lemma clock_ok_app c ops o : special c = false -> forall w0, sinv c w0 -> clock_ok (clock w0) (ops ++ [o]) ->
  clock_ok (clock w0) ops /\ op_incr (clock (run_from c w0 ops)) o.
Proof.
  intros Hsp. induction ops as [|a r IH]; intros w0 Hi0 Hclk; cbn [app clock_ok run_from fold_left] in *; [tauto|].
  destruct Hclk as [Hc1 Hc2]. destruct (step_spec c w0 a Hsp Hi0 Hc1) as [S1 [S2 _]].
  rewrite <- S2 in Hc2. destruct (IH (step c w0 a) S1 Hc2) as [I1 I2]. rewrite S2 in I1. tauto.
Qed.

Theorem crash_whole_events c fids dm k0 ops o :
  special c = false -> fault_free (ops ++ [o]) -> clock_ok k0 (ops ++ [o]) ->
  let w := run c fids dm k0 ops in
  Forall (crash_ok c w o) (crash_points c w o) /\ last (crash_points c w o) w = step c w o.
Proof.
  intros Hsp Hff Hclk w. split; [|apply crash_points_last].
  apply Forall_app in Hff as [Hff1 Hff2]. inversion Hff2 as [|? ? Hfo _]; subst.
  destruct (clock_ok_app c ops o Hsp (w_init fids dm k0) (sinv_init c fids dm k0) Hclk) as [Hc1 Hc2].
  destruct (run_spec c fids dm k0 ops Hsp Hff1 Hc1) as [Hi Ha]. fold w in Hi, Ha.
  apply crash_points_ok; assumption.
Qed.

(* ---------- several writers: each call is atomic under FileSink.l, so an execution is the list of the calls in the
   order in which they acquired the mutex, each tagged with the writer that made it ---------- *)
Fixpoint ack_log (c : cfg) (w : world) (s : list (N * op)) : list (N * N) :=
  match s with
  | [] => []
  | (i, o) :: r => map (pair i) (op_ack c w o) ++ ack_log c (step c w o) r
  end.
Lemma ack_log_app c s1 : forall w s2, ack_log c w (s1 ++ s2) = ack_log c w s1 ++ ack_log c (run_from c w (map snd s1)) s2.
Proof.
  induction s1 as [|[i o] r IH]; intros w s2; cbn [app ack_log map snd run_from fold_left]; [reflexivity|].
  rewrite IH, app_assoc. reflexivity.
Qed.
Lemma acked_run_log c s : special c = false -> fault_free (map snd s) -> forall w, sinv c w -> clock_ok (clock w) (map snd s) ->
  acked (run_from c w (map snd s)) = acked w ++ map snd (ack_log c w s).
Proof.
  intros Hsp. induction s as [|[i o] r IH]; intros Hff w Hi Hc; cbn [map snd run_from fold_left ack_log] in *; [rewrite app_nil_r; reflexivity|].
  inversion Hff as [|? ? Hfo Hfr]; subst. destruct Hc as [Hc1 Hc2].
  destruct (step_spec c w o Hsp Hi Hc1) as [S1 [S2 S3]]. destruct (S3 Hfo) as [_ S5].
  unfold run_from in IH. rewrite IH; [|exact Hfr|exact S1|rewrite S2; exact Hc2].
  rewrite S5, map_app, map_map. cbn [snd]. rewrite map_id, app_assoc. reflexivity.
Qed.
(* the files hold, oldest to newest, exactly the events of the calls that returned nil, in the order of mutex acquisition
   (minus the prefix removed by retention): a merge of whole events that keeps every writer's program order *)
Theorem serialised_writers c fids dm k0 (s : list (N * op)) :
  special c = false -> fault_free (map snd s) -> clock_ok k0 (map snd s) ->
  let w := run c fids dm k0 (map snd s) in
  pruned w ++ reading (files w) = map snd (ack_log c (w_init fids dm k0) s).
Proof.
  intros Hsp Hff Hc w. unfold w. rewrite <- (acked_is_pruned_plus_reading c fids dm k0 (map snd s) Hsp Hff Hc).
  unfold run. rewrite acked_run_log; auto. apply sinv_init.
Qed.

(* ================================================================== C15 *)
(* ---------- when does a write rotate ---------- *)
Lemma rotate_rot c w t2 t3 t4 : snd (do_rotate c w t2 t3 t4) = rotate_due c w t2.
Proof. unfold do_rotate. destruct (rotate_due c w t2); [|reflexivity]. destruct (tsOnly c); [destruct (fs_rename _ _ _)|]; reflexivity. Qed.
Lemma write_rot c w id size t1 t2 t3 t4 t5 flt : snd (do_write c w id size t1 t2 t3 t4 t5 flt) = rotate_due c (do_open c w t1) t2.
Proof.
  unfold do_write. rewrite <- (rotate_rot c (do_open c w t1) t2 t3 t4).
  destruct (do_rotate c (do_open c w t1) t2 t3 t4) as [[w2 ok] rot]. cbn [snd].
  destruct ok; cbn [negb]; [|reflexivity]. destruct (first_fails flt); cbn [negb]; [destruct (second_fails flt)|]; reflexivity.
Qed.
Lemma rotate_due_iff c w t2 :
  rotate_due c w t2 = true <-> (0 < maxBytes c /\ maxBytes c <= bw w) \/ (0 < maxDur c /\ maxDur c < t2 - lc w).
Proof. unfold rotate_due. lia. Qed.
Lemma do_open_bw_lc c w t :
  bw (do_open c w t) = match fopen w with Some _ => bw w | None => 0 end /\
  lc (do_open c w t) = match fopen w with Some _ => lc w | None => t end /\
  since_open (do_open c w t) = match fopen w with Some _ => since_open w | None => 0 end.
Proof. unfold do_open. destruct (fopen w); [auto|]. destruct (lookup_name _ _); auto. Qed.

(* a Process call first rotates exactly when the file the sink has open (after opening one if none was) already holds
   MaxBytes (MaxBytes > 0) or is older than MaxDuration (MaxDuration > 0) *)
Theorem rotate_iff c w id size t1 t2 t3 t4 t5 flt : special c = false ->
  let b := match fopen w with Some _ => bw w | None => 0 end in       (* BytesWritten when rotate() looks at it *)
  let l := match fopen w with Some _ => lc w | None => t1 end in      (* LastCreated when rotate() looks at it *)
  step_rot c w (Write id size t1 t2 t3 t4 t5 flt) = true <->
  (0 < maxBytes c /\ maxBytes c <= b) \/ (0 < maxDur c /\ maxDur c < t2 - l).
Proof.
  intros Hsp b l. unfold step_rot. cbn [step3]. rewrite Hsp.
  pose proof (write_rot c w id size t1 t2 t3 t4 t5 flt) as Hr.
  destruct (do_write c w id size t1 t2 t3 t4 t5 flt) as [[w' ok] rot]. cbn [snd] in *. rewrite Hr, rotate_due_iff.
  destruct (do_open_bw_lc c w t1) as [E1 [E2 _]]. rewrite E1, E2. reflexivity.
Qed.
Theorem no_limits_never_rotates c w o : maxBytes c <= 0 -> maxDur c <= 0 -> step_rot c w o = false.
Proof.
  intros Hb Hd. unfold step_rot. destruct o as [id size t1 t2 t3 t4 t5 flt|t|t|t]; cbn [step3].
  - destruct (special c); [reflexivity|]. pose proof (write_rot c w id size t1 t2 t3 t4 t5 flt) as Hr.
    destruct (do_write c w id size t1 t2 t3 t4 t5 flt) as [[w' ok] rot]. cbn [snd] in *. rewrite Hr. unfold rotate_due. lia.
  - destruct (special c); reflexivity.
  - destruct (active_file w); [destruct (fs_rename _ _ _)|]; reflexivity.
  - reflexivity.
Qed.

(* ---------- BytesWritten = bytes appended through the current descriptor since it was opened ---------- *)
Lemma remove_all_fields v : forall w, let w' := remove_all v w in
  bw w' = bw w /\ lc w' = lc w /\ since_open w' = since_open w /\ fopen w' = fopen w /\ dirmode w' = dirmode w /\ next_ino w' = next_ino w.
Proof.
  induction v as [|a r IH]; intros w; cbn [remove_all]; [cbn zeta; auto 10|].
  specialize (IH (set_pruned w (fs_remove (NStamp a) (files w)) (pruned w ++ data_of (NStamp a) (files w)))). cbn zeta in *. projs. exact IH.
Qed.
Lemma prune_n_fields j c w : let w' := prune_n j c w in
  bw w' = bw w /\ lc w' = lc w /\ since_open w' = since_open w /\ fopen w' = fopen w /\ dirmode w' = dirmode w /\ next_ino w' = next_ino w.
Proof. unfold prune_n. destruct (special c || N.eqb (maxFiles c) 0); [cbn zeta; auto 10|]. apply remove_all_fields. Qed.

Definition bw_ok (w : world) : Prop := bw w = since_open w.
Lemma bw_ok_open c w t : bw_ok w -> bw_ok (do_open c w t).
Proof. unfold bw_ok. intros H. destruct (do_open_bw_lc c w t) as [E1 [_ E3]]. rewrite E1, E3. destruct (fopen w); auto. Qed.
Lemma bw_ok_rotate c w t2 t3 t4 : bw_ok w -> bw_ok (fst (fst (do_rotate c w t2 t3 t4))).
Proof.
  intros H. unfold do_rotate. destruct (rotate_due c w t2); [|exact H]. destruct (tsOnly c).
  - destruct (fs_rename _ _ _); cbn [fst]; [|exact H]. apply bw_ok_open. unfold bw_ok, prune.
    destruct (prune_n_fields (stale_count c (set_files (set_clock (set_fopen (set_clock w t2) None) t3) l)) c (set_files (set_clock (set_fopen (set_clock w t2) None) t3) l)) as [E1 [_ [E3 _]]].
    cbn zeta in *. rewrite E1, E3. exact H.
  - cbn [fst]. apply bw_ok_open. unfold bw_ok, prune.
    destruct (prune_n_fields (stale_count c (set_fopen (set_clock w t2) None)) c (set_fopen (set_clock w t2) None)) as [E1 [_ [E3 _]]].
    cbn zeta in *. rewrite E1, E3. exact H.
Qed.
Lemma bw_ok_step c w o : special c = false -> fault_free_op o -> bw_ok w -> bw_ok (step c w o).
Proof.
  intros Hsp Hff H. unfold step. destruct o as [id size t1 t2 t3 t4 t5 flt|t|t|t]; cbn [step3]; rewrite ?Hsp.
  - cbn [fault_free_op] in Hff. subst flt. unfold do_write.
    pose proof (bw_ok_rotate c _ t2 t3 t4 (bw_ok_open c w t1 H)) as Hr.
    destruct (do_rotate c (do_open c w t1) t2 t3 t4) as [[w2 ok] rot]. cbn [fst] in *.
    destruct ok; cbn [negb nofault first_fails fst]; [|exact Hr].
    unfold bw_ok, append_chunk in *. destruct (fopen w2) as [[i nm]|]; projs; [lia|exact Hr].
  - cbn [fst]. rewrite do_reopen_eq. apply bw_ok_open. exact H.
  - destruct (active_file w); [destruct (fs_rename _ _ _)|]; exact H.
  - exact H.
Qed.
Theorem bytes_written_is_since_open c fids dm k0 ops : special c = false -> fault_free ops ->
  bw (run c fids dm k0 ops) = since_open (run c fids dm k0 ops).
Proof.
  intros Hsp Hff. unfold run, run_from. assert (H0 : bw_ok (w_init fids dm k0)) by reflexivity. revert H0. generalize (w_init fids dm k0).
  induction Hff as [|o r Ho Hr IH]; intros w Hw; cbn [fold_left]; [exact Hw|]. apply IH. apply bw_ok_step; assumption.
Qed.

(* ---------- stamps increase with the order of creation ---------- *)
Lemma sorted2_cases {A B1 B2} (R1 : B1 -> B1 -> Prop) (R2 : B2 -> B2 -> Prop) (g1 : A -> B1) (g2 : A -> B2) l x y :
  StronglySorted R1 (map g1 l) -> StronglySorted R2 (map g2 l) -> In x l -> In y l ->
  x = y \/ (R1 (g1 x) (g1 y) /\ R2 (g2 x) (g2 y)) \/ (R1 (g1 y) (g1 x) /\ R2 (g2 y) (g2 x)).
Proof.
  induction l as [|a t IH]; cbn [map]; intros S1 S2 Hx Hy; [contradiction|].
  inversion S1 as [|? ? T1 A1]; inversion S2 as [|? ? T2 A2]; subst. rewrite Forall_forall in A1, A2.
  destruct Hx as [<-|Hx], Hy as [<-|Hy].
  - left. reflexivity.
  - right. left. split; [apply A1|apply A2]; apply in_map; exact Hy.
  - right. right. split; [apply A1|apply A2]; apply in_map; exact Hx.
  - apply IH; assumption.
Qed.
(* of two stamped files the one created later (larger inode number) carries the larger stamp *)
Theorem stamps_increase_with_creation c w f g a b : sinv c w ->
  In f (files w) -> In g (files w) -> (f_ino f < f_ino g)%N -> f_name f = NStamp a -> f_name g = NStamp b -> a < b.
Proof.
  intros Hi Hf Hg Hlt Ea Eb.
  destruct (sorted2_cases N.lt nlt f_ino f_name (files w) f g (i_inos _ _ Hi) (i_sorted _ _ Hi) Hf Hg) as [E|[[H1 H2]|[H1 H2]]].
  - subst g. lia.
  - rewrite Ea, Eb in H2. exact H2.
  - lia.
Qed.

(* ---------- modes, directory, the name the sink opened, foreign files ---------- *)
Definition modes_ok (c : cfg) (fs : list file) : Prop := forall f, In f fs -> is_foreign (f_name f) = false -> f_mode f = eff_mode c.
Definition dir_expected (dm : option N) : N := match dm with Some m => m | None => dirMode end.
Definition dir_ok (dm : option N) (w : world) : Prop :=
  match dirmode w with
  | None => dm = None /\ fopen w = None /\ sink_files (files w) = []
  | Some m => m = dir_expected dm
  end.
Definition name_ok (c : cfg) (w : world) : Prop := forall i nm, fopen w = Some (i, nm) -> nm = newFileName c (lc w).
Record ginv (c : cfg) (dm : option N) (F0 : list file) (w : world) : Prop := {
  g_modes : modes_ok c (files w);
  g_dir : dir_ok dm w;
  g_name : name_ok c w;
  g_foreign : foreign_files (files w) = F0;
}.

Lemma foreign_files_app a b : foreign_files (a ++ b) = foreign_files a ++ foreign_files b.
Proof. apply filter_app. Qed.
Lemma sink_files_app a b : sink_files (a ++ b) = sink_files a ++ sink_files b.
Proof. apply filter_app. Qed.
Lemma foreign_map g fs : (forall f, is_foreign (f_name f) = true -> g f = f) -> (forall f, is_foreign (f_name (g f)) = is_foreign (f_name f)) ->
  foreign_files (map g fs) = foreign_files fs.
Proof.
  intros H1 H2. unfold foreign_files. induction fs as [|f t IH]; [reflexivity|]. cbn [map filter]. rewrite H2.
  destruct (is_foreign (f_name f)) eqn:E; [rewrite (H1 f E), IH; reflexivity|exact IH].
Qed.
Lemma foreign_remove n fs : is_foreign n = false -> foreign_files (fs_remove n fs) = foreign_files fs.
Proof.
  intros Hn. unfold foreign_files, fs_remove. induction fs as [|f t IH]; [reflexivity|]. cbn [filter].
  destruct (name_eqb (f_name f) n) eqn:E; cbn [negb].
  - apply name_eqb_eq in E. rewrite E, Hn. exact IH.
  - cbn [filter]. destruct (is_foreign (f_name f)); [rewrite IH; reflexivity|exact IH].
Qed.
Lemma newFileName_not_foreign c t : is_foreign (newFileName c t) = false.
Proof. destruct (newFileName_cases c t) as [[_ E]|[_ E]]; rewrite E; reflexivity. Qed.

Lemma fs_rename_props o n fs fs' : fs_rename o n fs = Some fs' -> is_foreign o = false -> is_foreign n = false ->
  foreign_files fs' = foreign_files fs /\
  (forall g, In g fs' -> exists f, In f fs /\ f_mode g = f_mode f /\ (g = f \/ (f_name f = o /\ f_name g = n))) /\
  (sink_files fs = [] -> sink_files fs' = []).
Proof.
  unfold fs_rename. intros H Ho Hn. destruct (has_name o fs); [|discriminate]. destruct (name_eqb o n).
  { inversion H; subst. conj; auto. intros g Hg. exists g. auto. }
  inversion H; subst fs'. clear H. conj.
  - rewrite foreign_map; [apply foreign_remove; exact Hn| |].
    + intros f Hf. destruct (name_eqb (f_name f) o) eqn:E; [|reflexivity]. apply name_eqb_eq in E. rewrite E in Hf. congruence.
    + intros f. destruct (name_eqb (f_name f) o) eqn:E; [|reflexivity]. apply name_eqb_eq in E. cbn. rewrite E, Ho, Hn. reflexivity.
  - intros g Hg. apply in_map_iff in Hg as [f [E Hf]]. apply in_fs_remove in Hf as [Hf _]. exists f. split; [exact Hf|].
    destruct (name_eqb (f_name f) o) eqn:En; subst g; [|auto]. apply name_eqb_eq in En. cbn. auto.
  - intros Hs. unfold sink_files in *. induction fs as [|f t IH]; [reflexivity|]. cbn [filter] in Hs. unfold fs_remove. cbn [filter].
    destruct (is_foreign (f_name f)) eqn:Ef; cbn [negb] in Hs; [|discriminate].
    assert (E1 : name_eqb (f_name f) n = false) by (apply name_eqb_neq; intros E; rewrite E in Ef; congruence).
    assert (E2 : name_eqb (f_name f) o = false) by (apply name_eqb_neq; intros E; rewrite E in Ef; congruence).
    rewrite E1. cbn [negb map filter]. rewrite E2, Ef. cbn [negb]. apply IH. exact Hs.
Qed.

Ltac ginv_fields := cbn [files dirmode fopen bw lc clock next_ino acked pruned since_open sout serr
                         set_files set_fopen set_clock set_pruned ack] in *.

Lemma ginv_clock c dm F0 w k : ginv c dm F0 w -> ginv c dm F0 (set_clock w k).
Proof. intros [A B C0 E]. constructor; auto. Qed.
Lemma ginv_ack c dm F0 w id : ginv c dm F0 w -> ginv c dm F0 (ack w id).
Proof. intros [A B C0 E]. constructor; auto. Qed.
Lemma ginv_close c dm F0 w : ginv c dm F0 w -> ginv c dm F0 (set_fopen w None).
Proof.
  intros [A B C0 E]. constructor; auto.
  - unfold dir_ok in *. ginv_fields. destruct (dirmode w); [exact B|tauto].
  - intros i nm H. discriminate.
Qed.
Lemma ginv_open c dm F0 w t : ginv c dm F0 w -> ginv c dm F0 (do_open c w t).
Proof.
  intros Hg. pose proof Hg as [A B C0 E]. unfold do_open. destruct (fopen w) eqn:Eo; [exact Hg|].
  assert (Hd : match dirmode w with Some m => Some m | None => Some dirMode end = Some (dir_expected dm)).
  { unfold dir_ok in B. destruct (dirmode w); [congruence|]. destruct B as [-> _]. reflexivity. }
  destruct (lookup_name (newFileName c t) (files w)) eqn:El; constructor; ginv_fields.
  - destruct (N.eqb (cmode c) 0) eqn:Em; [exact A|]. intros g Hg0 Hnf. unfold fs_chmod in Hg0. apply in_map_iff in Hg0 as [f0 [E0 Hf0]].
    destruct (name_eqb (f_name f0) (newFileName c t)); subst g; [|exact (A f0 Hf0 Hnf)].
    cbn. unfold eff_mode. rewrite Em. reflexivity.
  - unfold dir_ok. ginv_fields. rewrite Hd. reflexivity.
  - intros i nm H. inversion H. reflexivity.
  - destruct (N.eqb (cmode c) 0); [exact E|]. unfold fs_chmod. rewrite foreign_map; [exact E| |].
    + intros g Hgf. destruct (name_eqb (f_name g) (newFileName c t)) eqn:En; [|reflexivity]. apply name_eqb_eq in En.
      rewrite En, newFileName_not_foreign in Hgf. discriminate.
    + intros g. destruct (name_eqb (f_name g) (newFileName c t)); reflexivity.
  - intros g Hg0 Hnf. apply in_app_or in Hg0 as [Hg0|[<-|[]]]; [exact (A g Hg0 Hnf)|reflexivity].
  - unfold dir_ok. ginv_fields. rewrite Hd. reflexivity.
  - intros i nm H. inversion H. reflexivity.
  - rewrite foreign_files_app. unfold foreign_files at 2. cbn [filter f_name]. rewrite newFileName_not_foreign, app_nil_r. exact E.
Qed.
Lemma ginv_rename c dm F0 w o n fs' : ginv c dm F0 w -> fs_rename o n (files w) = Some fs' -> is_foreign o = false -> is_foreign n = false ->
  ginv c dm F0 (set_files w fs').
Proof.
  intros [A B C0 E] Hr Ho Hn. destruct (fs_rename_props _ _ _ _ Hr Ho Hn) as [P1 [P2 P3]]. constructor; ginv_fields.
  - intros g Hg Hnf. destruct (P2 g Hg) as [f [Hf [Em [->|[E1 E2]]]]]; [exact (A f Hf Hnf)|].
    rewrite Em. apply A; [exact Hf|]. rewrite E1. exact Ho.
  - unfold dir_ok in *. ginv_fields. destruct (dirmode w); [exact B|]. destruct B as [B1 [B2 B3]]. auto.
  - exact C0.
  - congruence.
Qed.
Lemma ginv_remove_all c dm F0 v : forall w, ginv c dm F0 w -> ginv c dm F0 (remove_all v w).
Proof.
  induction v as [|a r IH]; intros w Hg; cbn [remove_all]; [exact Hg|]. apply IH. destruct Hg as [A B C0 E]. constructor; ginv_fields.
  - intros g Hg Hnf. apply in_fs_remove in Hg as [Hg _]. exact (A g Hg Hnf).
  - unfold dir_ok in *. ginv_fields. destruct (dirmode w); [exact B|]. destruct B as [B1 [B2 B3]]. conj; auto.
    unfold sink_files, fs_remove in *. clear - B3. induction (files w) as [|f t IH]; [reflexivity|]. cbn [filter] in *.
    destruct (is_foreign (f_name f)) eqn:Ef; cbn [negb] in *; [|discriminate].
    destruct (name_eqb (f_name f) (NStamp a)); cbn [negb filter]; [auto|]. rewrite Ef. cbn [negb]. auto.
  - exact C0.
  - rewrite foreign_remove by reflexivity. exact E.
Qed.
Lemma ginv_prune c dm F0 w j : ginv c dm F0 w -> ginv c dm F0 (prune_n j c w).
Proof. intros Hg. unfold prune_n. destruct (special c || N.eqb (maxFiles c) 0); [exact Hg|]. apply ginv_remove_all. exact Hg. Qed.
Lemma ginv_append c dm F0 w x s b : sinv c w -> ginv c dm F0 w -> ginv c dm F0 (append_chunk w x s b).
Proof.
  intros Hi Hg. pose proof Hg as [A B C0 E]. unfold append_chunk. destruct (fopen w) as [[i nm]|] eqn:Eo; [|exact Hg].
  destruct (i_open _ _ Hi i nm Eo) as [fs' [p [Ef [Hp Hnf]]]].
  assert (Ea : fs_append i x (files w) = fs' ++ [add_data p x]).
  { rewrite Ef, <- Hp. apply fs_append_last. apply sorted_inos_last. rewrite <- Ef. exact (i_inos _ _ Hi). }
  constructor; ginv_fields; rewrite ?Ea.
  - intros g Hg0 Hn. apply in_app_or in Hg0 as [Hg0|[<-|[]]].
    + apply A; [rewrite Ef; apply in_or_app; left; exact Hg0|exact Hn].
    + cbn. apply A; [rewrite Ef; apply in_or_app; right; left; reflexivity|exact Hnf].
  - unfold dir_ok in *. ginv_fields. destruct (dirmode w); [exact B|]. destruct B as [_ [B2 _]]. congruence.
  - intros i0 nm0 H0. ginv_fields. apply (C0 i0 nm0). congruence.
  - rewrite <- E, Ef, !foreign_files_app. unfold foreign_files at 2 4. cbn [filter add_data f_name]. rewrite Hnf. reflexivity.
Qed.
Lemma ginv_rotate c dm F0 w t2 t3 t4 : ginv c dm F0 w -> ginv c dm F0 (fst (fst (do_rotate c w t2 t3 t4))).
Proof.
  intros Hg. unfold do_rotate. destruct (rotate_due c w t2); [|apply ginv_clock; exact Hg]. destruct (tsOnly c).
  - destruct (fs_rename NPlain (NStamp t3) _) as [fs'|] eqn:Er; cbn [fst].
    + apply ginv_open. apply ginv_prune.
      apply (ginv_rename c dm F0 (set_clock (set_fopen (set_clock w t2) None) t3) NPlain (NStamp t3) fs'); auto.
      apply ginv_clock, ginv_close, ginv_clock. exact Hg.
    + apply ginv_clock, ginv_close, ginv_clock. exact Hg.
  - cbn [fst]. apply ginv_open, ginv_prune, ginv_close, ginv_clock. exact Hg.
Qed.
Lemma ginv_reopen c dm F0 w t : ginv c dm F0 w -> ginv c dm F0 (do_reopen c w t).
Proof. intros Hg. rewrite do_reopen_eq. apply ginv_open, ginv_close. exact Hg. Qed.

Lemma ginv_step c dm F0 w o : sinv c w -> op_incr (clock w) o -> ginv c dm F0 w -> ginv c dm F0 (step c w o).
Proof.
  intros Hi Hinc Hg. unfold step. destruct o as [id size t1 t2 t3 t4 t5 flt|t|t|t]; cbn [step3].
  - destruct (special c) eqn:Hsp; cbn [fst].
    + apply ginv_clock. unfold std_write. destruct Hg as [A B C0 E]. destruct (path c); constructor; auto.
    + cbn [op_incr] in Hinc. destruct Hinc as [H1 [H2 [H3 [H4 H5]]]]. unfold do_write.
      assert (Hi1 : sinv c (do_open c w t1)) by (apply sinv_open; assumption).
      assert (Hc1 : clock (do_open c w t1) < t2) by (rewrite do_open_clock; destruct (fopen w); lia).
      pose proof (rotate_spec c _ t2 t3 t4 Hi1 Hc1 H3 H4) as [G1 [_ [_ G4]]].
      pose proof (ginv_rotate c dm F0 _ t2 t3 t4 (ginv_open c dm F0 w t1 Hg)) as Gr.
      destruct (do_rotate c (do_open c w t1) t2 t3 t4) as [[w2 ok] rot]. cbn [fst] in *.
      destruct ok; cbn [negb fst]; [|apply ginv_clock; exact Gr].
      destruct (first_fails flt); cbn [negb fst].
      * assert (H3' : sinv c (if leaves_partial flt then append_chunk w2 0%N 0 false else w2) /\
                      ginv c dm F0 (if leaves_partial flt then append_chunk w2 0%N 0 false else w2) /\
                      clock (if leaves_partial flt then append_chunk w2 0%N 0 false else w2) = clock w2).
        { destruct (leaves_partial flt); [|auto]. destruct (append_spec c w2 0%N 0 false G1) as [A1 [_ [_ [A4 _]]]].
          conj; auto. apply ginv_append; assumption. }
        destruct H3' as [S3 [G3 C3]]. destruct (reopen_spec c _ t5 S3) as [R1 _]; [lia|].
        destruct (second_fails flt); cbn [fst]; apply ginv_clock; [apply ginv_reopen; exact G3|].
        apply ginv_ack. apply ginv_append; [exact R1|apply ginv_reopen; exact G3].
      * apply ginv_clock, ginv_ack, ginv_append; assumption.
  - destruct (special c); cbn [fst]; [apply ginv_clock; exact Hg|apply ginv_reopen; exact Hg].
  - unfold active_file. destruct (fopen w) as [[i nm]|] eqn:Eo; [|apply ginv_clock; exact Hg].
    destruct (i_open _ _ Hi i nm Eo) as [fs' [p [E [Hp Hnf]]]].
    assert (Hl : lookup_ino i (files w) = Some p).
    { rewrite E, <- Hp. apply lookup_ino_last. apply sorted_inos_last. rewrite <- E. exact (i_inos _ _ Hi). }
    rewrite Hl. destruct (fs_rename (f_name p) (NStamp t) (files w)) as [fs2|] eqn:Er; cbn [fst]; [|apply ginv_clock; exact Hg].
    apply ginv_clock. apply (ginv_rename c dm F0 w (f_name p) (NStamp t) fs2); auto.
  - apply ginv_clock. exact Hg.
Qed.

Lemma ginv_init c fids dm k0 : ginv c dm (mk_foreign 1%N fids) (w_init fids dm k0).
Proof.
  destruct (mk_foreign_props 1%N fids) as [A1 _]. unfold w_init.
  assert (Hall : forall f, In f (mk_foreign 1%N fids) -> is_foreign (f_name f) = true).
  { intros f Hf. rewrite Forall_forall in A1. apply A1. apply in_map. exact Hf. }
  clear A1. constructor; ginv_fields.
  - intros f Hf Hn. rewrite (Hall f Hf) in Hn. discriminate.
  - unfold dir_ok. ginv_fields. destruct dm; [reflexivity|]. conj; auto.
    unfold sink_files. induction (mk_foreign 1%N fids) as [|f t IH]; [reflexivity|]. cbn [filter]. rewrite (Hall f (or_introl eq_refl)). cbn [negb].
    apply IH. intros g Hg. apply Hall. right. exact Hg.
  - intros i nm H. discriminate.
  - unfold foreign_files. induction (mk_foreign 1%N fids) as [|f t IH]; [reflexivity|]. cbn [filter]. rewrite (Hall f (or_introl eq_refl)).
    f_equal. apply IH. intros g Hg. apply Hall. right. exact Hg.
Qed.

Lemma run_from_ginv c dm F0 ops : special c = false -> forall w, sinv c w -> ginv c dm F0 w -> clock_ok (clock w) ops ->
  ginv c dm F0 (run_from c w ops).
Proof.
  intros Hsp. induction ops as [|o r IH]; intros w Hi Hg Hc; cbn [run_from fold_left]; [exact Hg|].
  cbn [clock_ok] in Hc. destruct Hc as [Hc1 Hc2]. destruct (step_spec c w o Hsp Hi Hc1) as [S1 [S2 _]].
  apply IH; [exact S1|apply ginv_step; assumption|rewrite S2; exact Hc2].
Qed.

(* ---------- the shape of open() and of a rotation ---------- *)
Lemma stamps_of_app a b : stamps_of (a ++ b) = stamps_of a ++ stamps_of b.
Proof. induction a as [|f t IH]; [reflexivity|]. cbn [app stamps_of]. destruct (f_name f); rewrite IH; reflexivity. Qed.
Lemma stamps_of_names a b : names a = names b -> stamps_of a = stamps_of b.
Proof.
  revert b. induction a as [|f t IH]; intros [|g u] H; try discriminate; [reflexivity|]. cbn [names map] in H. inversion H as [[H1 H2]].
  cbn [stamps_of]. rewrite H1. rewrite (IH u H2). reflexivity.
Qed.
Lemma names_fs_append i x fs : names (fs_append i x fs) = names fs.
Proof. unfold names, fs_append. rewrite map_map. apply map_ext. intros f. destruct (N.eqb (f_ino f) i); reflexivity. Qed.

Definition new_file (c : cfg) (w : world) (t : Z) : file :=
  {| f_name := newFileName c t; f_ino := next_ino w; f_mode := eff_mode c; f_data := [] |}.
Lemma do_open_absent c w t : fopen w = None -> ~ In (newFileName c t) (names (files w)) ->
  files (do_open c w t) = files w ++ [new_file c w t] /\ fopen (do_open c w t) = Some (next_ino w, newFileName c t).
Proof. intros Ho Hn. unfold do_open. rewrite Ho. apply lookup_name_none in Hn. rewrite Hn. split; reflexivity. Qed.
Lemma do_open_present c w t : sinv c w -> clock w < t -> fopen w = None -> In (newFileName c t) (names (files w)) ->
  exists fs' p, files (do_open c w t) = fs' ++ [p] /\ f_name p = newFileName c t /\ fopen (do_open c w t) = Some (f_ino p, newFileName c t) /\
                names (files (do_open c w t)) = names (files w).
Proof.
  intros Hi Ht Ho Hin.
  assert (Hpl : newFileName c t = NPlain).
  { destruct (newFileName_cases c t) as [[_ E]|[_ E]]; [|exact E]. exfalso. rewrite E in Hin. pose proof (i_below _ _ Hi t Hin). lia. }
  rewrite Hpl in *. destruct (sorted_plain_last _ (i_sorted _ _ Hi) Hin) as [fs0 [p0 [E [Hp Hnp]]]].
  assert (El : lookup_name NPlain (files w) = Some p0) by (rewrite E; apply lookup_name_last; assumption).
  unfold do_open. rewrite Ho, Hpl, El.
  destruct (N.eqb (cmode c) 0); ginv_fields.
  - exists fs0, p0. rewrite E. auto.
  - set (g := fun f => if name_eqb (f_name f) NPlain then set_mode f (cmode c) else f).
    exists (map g fs0), (g p0). rewrite E at 1. unfold fs_chmod. rewrite map_app. fold g. cbn [map].
    assert (Hgi : f_ino (g p0) = f_ino p0) by (unfold g; rewrite Hp; reflexivity).
    assert (Hgn : f_name (g p0) = NPlain) by (unfold g; rewrite Hp; cbn; exact Hp).
    conj; auto; [congruence|]. apply (names_chmod NPlain (cmode c) (files w)).
Qed.

Lemma prune_stamps c w : sinv c w -> fopen w = None ->
  stamps_of (files (prune c w)) =
  if special c || N.eqb (maxFiles c) 0 then stamps_of (files w)
  else skipn (length (stamps_of (files w)) - N.to_nat (maxFiles c)) (stamps_of (files w)).
Proof.
  intros Hi Ho. unfold prune, prune_n, stale_count. destruct (special c || N.eqb (maxFiles c) 0); [reflexivity|].
  rewrite (glob_sorted_eq _ _ Hi). rewrite Nat.min_id.
  destruct (remove_all_spec c (length (stamps_of (files w)) - N.to_nat (maxFiles c)) w Hi Ho) as [_ [_ [_ [_ [_ [A6 _]]]]]]. exact A6.
Qed.
Lemma prune_names_subset c w j n : In n (names (files (prune_n j c w))) -> In n (names (files w)).
Proof.
  unfold prune_n. destruct (special c || N.eqb (maxFiles c) 0); [tauto|].
  generalize (firstn (Nat.min j (stale_count c w)) (glob_sorted (files w))). intros v. revert w.
  induction v as [|a r IH]; intros w; cbn [remove_all]; [tauto|]. intros H. apply IH in H. ginv_fields.
  apply in_map_iff in H as [f [E Hf]]. apply in_fs_remove in Hf as [Hf _]. rewrite <- E. apply in_map. exact Hf.
Qed.

(* a rotation that is due either fails at the rename (TimestampOnlyOnRotate and the plain file is gone) or: close; rename
   (TimestampOnlyOnRotate); prune; open a NEW file *)
Lemma rotate_shape c w t2 t3 t4 : sinv c w -> clock w < t2 -> t2 < t3 -> t3 < t4 -> rotate_due c w t2 = true ->
  (exists wp, sinv c wp /\ fopen wp = None /\ clock wp < t4 /\
      do_rotate c w t2 t3 t4 = (do_open c (prune c wp) t4, true, true) /\
      ~ In (newFileName c t4) (names (files wp)) /\
      stamps_of (files wp) = stamps_of (files w) ++ (if tsOnly c then [t3] else []) /\
      next_ino wp = next_ino w)
  \/ (tsOnly c = true /\ ~ In NPlain (names (files w)) /\
      do_rotate c w t2 t3 t4 = (set_clock (set_fopen (set_clock w t2) None) t3, false, true)).
Proof.
  intros Hi H2 H3 H4 Hdue. unfold do_rotate. rewrite Hdue.
  assert (Hi1 : sinv c (set_clock w t2)) by (apply sinv_set_clock; [exact Hi|lia]).
  set (w2 := set_fopen (set_clock w t2) None).
  assert (Hi2 : sinv c w2) by (apply sinv_close; exact Hi1).
  destruct (tsOnly c) eqn:Ets.
  - set (w3 := set_clock w2 t3).
    destruct (fs_rename NPlain (NStamp t3) (files w3)) as [fs'|] eqn:Er.
    2:{ right. conj; auto. apply fs_rename_none in Er. exact Er. }
    left.
    assert (Hin : In NPlain (names (files w2))).
    { destruct (has_name NPlain (files w2)) eqn:Eh; [apply has_name_in; exact Eh|].
      unfold fs_rename, w3 in Er. projs. rewrite Eh in Er. discriminate. }
    destruct (sorted_plain_last _ (i_sorted _ _ Hi2) Hin) as [fs0 [p [E [Hp Hnp]]]].
    assert (Hnf : is_foreign (f_name p) = false) by (rewrite Hp; reflexivity).
    destruct (sinv_rename_last c w2 fs0 p t3 Hi2 E Hnf) as [R1 [R2 R3]]; [unfold w2; projs; lia|unfold w2; projs; discriminate|].
    rewrite Hp in R1. unfold w3 in Er. projs. rewrite R1 in Er. inversion Er; subst fs'. clear Er.
    exists (set_files w3 (fs0 ++ [set_name p (NStamp t3)])). conj; auto.
    + projs. unfold newFileName. rewrite Ets. rewrite names_app. intros H. apply in_app_or in H as [H|[H|[]]]; [contradiction|discriminate].
    + projs. unfold w2 in E. projs. rewrite E, !stamps_of_app. cbn [stamps_of set_name f_name]. rewrite Hp, app_nil_r. reflexivity.
  - left. exists w2. conj; auto.
    + unfold w2. projs. lia.
    + destruct (newFileName_cases c t4) as [[_ E]|[Hm E]]; rewrite E.
      * apply (fresh_stamp_notin c w2 t4 Hi2). unfold w2. projs. lia.
      * exfalso. unfold modeA in Hm. rewrite Ets in Hm. cbn [negb andb] in Hm. unfold rotate_due in Hdue. unfold rotateEnabled in Hm. lia.
    + unfold w2. projs. rewrite app_nil_r. reflexivity.
Qed.

(* ---------- the name of the active file ---------- *)
Definition active_named (w : world) : Prop :=
  forall i nm, fopen w = Some (i, nm) -> exists fs' p, files w = fs' ++ [p] /\ f_ino p = i /\ f_name p = nm.
Lemma active_named_open c w t : sinv c w -> clock w < t -> active_named w -> active_named (do_open c w t).
Proof.
  intros Hi Ht Ha. destruct (fopen w) as [x|] eqn:Eo; [rewrite (do_open_open c w t x Eo); exact Ha|].
  destruct (has_name (newFileName c t) (files w)) eqn:Eh.
  - apply has_name_in in Eh. destruct (do_open_present c w t Hi Ht Eo Eh) as [fs' [p [E1 [E2 [E3 _]]]]].
    intros i nm H. rewrite E3 in H. inversion H; subst. exists fs', p. auto.
  - assert (Hn : ~ In (newFileName c t) (names (files w))) by (intros H; apply has_name_in in H; congruence).
    destruct (do_open_absent c w t Eo Hn) as [E1 E2]. intros i nm H. rewrite E2 in H. inversion H; subst.
    exists (files w), (new_file c w t). auto.
Qed.
Lemma active_named_append c w x s b : sinv c w -> active_named w -> active_named (append_chunk w x s b).
Proof.
  intros Hi Ha. unfold append_chunk. destruct (fopen w) as [[i nm]|] eqn:Eo; [|exact Ha].
  destruct (Ha i nm Eo) as [fs' [p [E [Hp Hn]]]].
  assert (Ea : fs_append i x (files w) = fs' ++ [add_data p x]).
  { rewrite E, <- Hp. apply fs_append_last. apply sorted_inos_last. rewrite <- E. exact (i_inos _ _ Hi). }
  intros i0 nm0 H. ginv_fields. inversion H; subst i0 nm0. exists fs', (add_data p x). rewrite Ea. auto.
Qed.
Lemma active_named_closed w : fopen w = None -> active_named w.
Proof. intros H i nm E. congruence. Qed.

Definition no_extrename (o : op) : Prop := match o with ExtRename _ => False | _ => True end.
Lemma active_named_step c w o : special c = false -> sinv c w -> op_incr (clock w) o -> no_extrename o ->
  active_named w -> active_named (step c w o).
Proof.
  intros Hsp Hi Hinc Hne Ha. unfold step. destruct o as [id size t1 t2 t3 t4 t5 flt|t|t|t]; cbn [step3]; rewrite ?Hsp.
  - cbn [op_incr] in Hinc. destruct Hinc as [H1 [H2 [H3 [H4 H5]]]]. unfold do_write.
    assert (Hi1 : sinv c (do_open c w t1)) by (apply sinv_open; assumption).
    assert (Hc1 : clock (do_open c w t1) < t2) by (rewrite do_open_clock; destruct (fopen w); lia).
    pose proof (active_named_open c w t1 Hi H1 Ha) as Ha1.
    pose proof (rotate_spec c _ t2 t3 t4 Hi1 Hc1 H3 H4) as [G1 [_ [_ G4]]].
    assert (Ha2 : active_named (fst (fst (do_rotate c (do_open c w t1) t2 t3 t4)))).
    { destruct (rotate_due c (do_open c w t1) t2) eqn:Edue.
      - destruct (rotate_shape c _ t2 t3 t4 Hi1 Hc1 H3 H4 Edue) as [[wp [P1 [P2 [P3 [P4 _]]]]]|[_ [_ P4]]]; rewrite P4; cbn [fst].
        + destruct (prune_spec c wp P1 P2) as [Q1 [Q2 [_ [_ Q5]]]]. apply active_named_open; [exact Q1|lia|apply active_named_closed; exact Q2].
        + apply active_named_closed. reflexivity.
      - unfold do_rotate. rewrite Edue. cbn [fst]. exact Ha1. }
    destruct (do_rotate c (do_open c w t1) t2 t3 t4) as [[w2 ok] rot]. cbn [fst] in *.
    destruct ok; cbn [negb fst]; [|exact Ha2].
    destruct (first_fails flt); cbn [negb fst].
    + assert (H3' : sinv c (if leaves_partial flt then append_chunk w2 0%N 0 false else w2) /\
                    clock (if leaves_partial flt then append_chunk w2 0%N 0 false else w2) = clock w2).
      { destruct (leaves_partial flt); [|auto]. destruct (append_spec c w2 0%N 0 false G1) as [A1 [_ [_ [A4 _]]]]. auto. }
      destruct H3' as [S3 C3]. destruct (reopen_spec c _ t5 S3) as [R1 _]; [lia|].
      assert (Ha4 : active_named (do_reopen c (if leaves_partial flt then append_chunk w2 0%N 0 false else w2) t5)).
      { rewrite do_reopen_eq. apply active_named_open; [apply sinv_close; exact S3|ginv_fields; lia|apply active_named_closed; reflexivity]. }
      destruct (second_fails flt); cbn [fst]; [exact Ha4|]. apply (active_named_append c _ id size false R1 Ha4).
    + apply (active_named_append c w2 id size true G1 Ha2).
  - cbn [fst]. rewrite do_reopen_eq. cbn [op_incr] in Hinc.
    apply active_named_open; [apply sinv_close; exact Hi|exact Hinc|apply active_named_closed; reflexivity].
  - contradiction.
  - exact Ha.
Qed.

(* ---------- a rotating write: retention and the new file ---------- *)
Definition kept_stamps (c : cfg) (S : list Z) : list Z :=
  if N.eqb (maxFiles c) 0 then S else skipn (length S - N.to_nat (maxFiles c)) S.
Lemma kept_stamps_length c S : maxFiles c <> 0%N -> (length (kept_stamps c S) <= N.to_nat (maxFiles c))%nat.
Proof.
  intros H. unfold kept_stamps. destruct (N.eqb (maxFiles c) 0) eqn:E; [apply N.eqb_eq in E; contradiction|].
  rewrite skipn_length. lia.
Qed.

Theorem rotating_write_spec c w id size t1 t2 t3 t4 t5 : special c = false -> sinv c w ->
  op_incr (clock w) (Write id size t1 t2 t3 t4 t5 nofault) ->
  step_rot c w (Write id size t1 t2 t3 t4 t5 nofault) = true -> step_ok c w (Write id size t1 t2 t3 t4 t5 nofault) = true ->
  let w1 := do_open c w t1 in
  let w' := step c w (Write id size t1 t2 t3 t4 t5 nofault) in
  let S := stamps_of (files w1) ++ (if tsOnly c then [t3] else []) in     (* the rotated files right before pruneFiles, oldest first *)
  StronglySorted Z.lt S /\
  stamps_of (files w') = kept_stamps c S ++ (if modeA c then [t4] else []) /\
  exists fs' p, files w' = fs' ++ [p] /\ f_data p = [id] /\ f_name p = newFileName c t4 /\ f_mode p = eff_mode c /\
                f_ino p = next_ino w1 /\ fopen w' = Some (f_ino p, newFileName c t4) /\ ~ In (f_ino p) (inos (files w1)).
Proof.
  intros Hsp Hi Hinc Hrot Hok. cbn zeta. unfold step_rot, step_ok, step in *. cbn [step3] in *. rewrite Hsp in *.
  cbn [op_incr] in Hinc. destruct Hinc as [H1 [H2 [H3 [H4 H5]]]].
  pose proof (write_rot c w id size t1 t2 t3 t4 t5 nofault) as Hr. unfold do_write in *.
  assert (Hi1 : sinv c (do_open c w t1)) by (apply sinv_open; assumption).
  assert (Hc1 : clock (do_open c w t1) < t2) by (rewrite do_open_clock; destruct (fopen w); lia).
  destruct (rotate_due c (do_open c w t1) t2) eqn:Edue.
  2:{ destruct (do_rotate c (do_open c w t1) t2 t3 t4) as [[w2 ok] rot]. destruct ok; cbn [negb nofault first_fails fst snd] in *; congruence. }
  destruct (rotate_shape c _ t2 t3 t4 Hi1 Hc1 H3 H4 Edue) as [[wp [P1 [P2 [P3 [P4 [P5 [P6 P7]]]]]]]|[_ [_ P4]]]; rewrite P4 in *; cbn [negb nofault first_fails fst snd] in *; [|discriminate].
  destruct (prune_spec c wp P1 P2) as [Q1 [Q2 [_ [_ Q5]]]].
  assert (Hn : ~ In (newFileName c t4) (names (files (prune c wp)))) by (intros H; apply P5; exact (prune_names_subset c wp _ _ H)).
  destruct (do_open_absent c (prune c wp) t4 Q2 Hn) as [E1 E2].
  assert (Hni : next_ino (prune c wp) = next_ino (do_open c w t1)).
  { destruct (prune_n_fields (stale_count c wp) c wp) as [_ [_ [_ [_ [_ F]]]]]. cbn zeta in F. unfold prune. rewrite F. exact P7. }
  assert (Hi2 : sinv c (do_open c (prune c wp) t4)) by (apply sinv_open; [exact Q1|lia]).
  assert (Hfresh : ~ In (next_ino (prune c wp)) (inos (files (prune c wp)))).
  { intros H. pose proof (i_next _ _ Q1 _ H). lia. }
  assert (Ea : fs_append (next_ino (prune c wp)) id (files (do_open c (prune c wp) t4)) = files (prune c wp) ++ [add_data (new_file c (prune c wp) t4) id]).
  { rewrite E1. apply (fs_append_last (files (prune c wp)) (new_file c (prune c wp) t4) id). exact Hfresh. }
  unfold append_chunk. rewrite E2. ginv_fields. rewrite Ea.
  assert (HS : StronglySorted Z.lt (stamps_of (files (do_open c w t1)) ++ (if tsOnly c then [t3] else []))).
  { rewrite <- P6. apply stamps_of_sorted. exact (i_sorted _ _ P1). }
  split; [exact HS|]. split.
  - rewrite stamps_of_app, (prune_stamps c wp P1 P2), Hsp, P6. cbn [orb]. unfold kept_stamps. f_equal.
    cbn [stamps_of add_data new_file f_name]. destruct (newFileName_cases c t4) as [[Hm E]|[Hm E]]; rewrite E, Hm; reflexivity.
  - exists (files (prune c wp)), (add_data (new_file c (prune c wp) t4) id). cbn [add_data new_file f_data f_name f_mode f_ino app].
    conj; auto. rewrite Hni. intros H. pose proof (i_next _ _ Hi1 _ H). lia.
Qed.

(* a write that does not rotate goes to the file that was already open (or to the one open() has just opened) *)
Theorem non_rotating_write_same_file c w id size t1 t2 t3 t4 t5 : special c = false ->
  step_rot c w (Write id size t1 t2 t3 t4 t5 nofault) = false ->
  step_ok c w (Write id size t1 t2 t3 t4 t5 nofault) = true /\
  fopen (step c w (Write id size t1 t2 t3 t4 t5 nofault)) = fopen (do_open c w t1) /\
  names (files (step c w (Write id size t1 t2 t3 t4 t5 nofault))) = names (files (do_open c w t1)).
Proof.
  intros Hsp Hrot. unfold step_rot, step_ok, step in *. cbn [step3] in *. rewrite Hsp in *.
  pose proof (write_rot c w id size t1 t2 t3 t4 t5 nofault) as Hr. unfold do_write in *. unfold do_rotate in *.
  destruct (rotate_due c (do_open c w t1) t2); cbn [negb nofault first_fails fst snd] in *.
  - destruct (tsOnly c); [destruct (fs_rename _ _ _)|]; cbn [negb fst snd] in *; discriminate.
  - destruct (do_open_fopen c w t1) as [[i nm] Ho]. unfold append_chunk. ginv_fields. rewrite Ho. ginv_fields.
    conj; auto. apply names_fs_append.
Qed.

(* ---------- reachable states ---------- *)
Fixpoint no_extrenames (ops : list op) : Prop := match ops with [] => True | o :: r => no_extrename o /\ no_extrenames r end.
Lemma run_from_active_named c ops : special c = false -> forall w, sinv c w -> active_named w -> clock_ok (clock w) ops -> no_extrenames ops ->
  active_named (run_from c w ops).
Proof.
  intros Hsp. induction ops as [|o r IH]; intros w Hi Ha Hc Hn; cbn [run_from fold_left]; [exact Ha|].
  cbn [clock_ok no_extrenames] in *. destruct Hc as [Hc1 Hc2]. destruct Hn as [Hn1 Hn2]. destruct (step_spec c w o Hsp Hi Hc1) as [S1 [S2 _]].
  apply IH; [exact S1|apply active_named_step; assumption|rewrite S2; exact Hc2|exact Hn2].
Qed.

Section Reachable.
  Variables (c : cfg) (fids : list N) (dm : option N) (k0 : Z) (ops : list op).
  Hypothesis Hdir : special c = false.
  Hypothesis Hff : fault_free ops.
  Hypothesis Hclk : clock_ok k0 ops.
  Let w := run c fids dm k0 ops.

  Lemma reach_sinv : sinv c w.
  Proof. exact (reachable_sinv c fids dm k0 ops Hdir Hff Hclk). Qed.
  Lemma reach_ginv : ginv c dm (mk_foreign 1%N fids) w.
  Proof. apply run_from_ginv; auto; [apply sinv_init|apply ginv_init]. Qed.

  (* rotated files carry strictly increasing stamps: of two stamped files the later created one has the larger stamp *)
  Theorem stamps_strictly_increase : forall f g a b,
    In f (files w) -> In g (files w) -> (f_ino f < f_ino g)%N -> f_name f = NStamp a -> f_name g = NStamp b -> a < b.
  Proof. intros f g a b. apply (stamps_increase_with_creation c w f g a b reach_sinv). Qed.

  (* files of the sink carry the configured mode (0600 when unset); the directory, once anything was opened, exists with
     0700 if the sink had to create it (otherwise it keeps the mode it had) *)
  Theorem mode_and_dir :
    (forall f, In f (files w) -> is_foreign (f_name f) = false -> f_mode f = eff_mode c) /\
    match dirmode w with
    | None => dm = None /\ fopen w = None /\ sink_files (files w) = []
    | Some m => m = match dm with Some m0 => m0 | None => dirMode end
    end.
  Proof. destruct reach_ginv as [A B _ _]. split; [exact A|exact B]. Qed.

  (* the name under which the sink holds its file open is the one newFileName dictates for LastCreated: the plain
     configured name with TimestampOnlyOnRotate (or without any limit), base-<LastCreated> otherwise *)
  Theorem opened_name : forall i nm, fopen w = Some (i, nm) ->
    nm = newFileName c (lc w) /\ (tsOnly c = true -> nm = NPlain) /\ (modeA c = true -> nm = NStamp (lc w)).
  Proof.
    intros i nm H. destruct reach_ginv as [_ _ C0 _]. specialize (C0 i nm H). subst nm. split; [reflexivity|].
    unfold newFileName, modeA. split; intros E; [rewrite E; reflexivity|]. destruct (tsOnly c); [discriminate|]. cbn in E. rewrite E. reflexivity.
  Qed.
  (* … and unless somebody renamed it away, that is the name the active file has *)
  Theorem active_file_name : no_extrenames ops -> forall i nm, fopen w = Some (i, nm) ->
    exists p, active_file w = Some p /\ f_name p = newFileName c (lc w).
  Proof.
    intros Hn i nm H.
    assert (Ha : active_named w).
    { apply run_from_active_named; auto; [apply sinv_init|apply active_named_closed; reflexivity]. }
    destruct (Ha i nm H) as [fs' [p [E [Hp Hnm]]]]. exists p. split.
    - unfold active_file. rewrite H, E, <- Hp. apply lookup_ino_last. apply sorted_inos_last. rewrite <- E. exact (i_inos _ _ reach_sinv).
    - destruct (opened_name i nm H) as [E1 _]. congruence.
  Qed.
  (* Reopen always re-establishes the configured name, whatever happened to the directory before *)
  Theorem reopen_restores_name : forall t, clock w < t ->
    exists p, active_file (step c w (Reopen t)) = Some p /\ f_name p = newFileName c t /\ lc (step c w (Reopen t)) = t.
  Proof.
    intros t Ht. unfold step. cbn [step3]. rewrite Hdir. cbn [fst]. rewrite do_reopen_eq.
    pose proof (sinv_close _ _ reach_sinv) as Hc.
    assert (Ha : active_named (do_open c (set_fopen w None) t)) by (apply active_named_open; [exact Hc|exact Ht|apply active_named_closed; reflexivity]).
    pose proof (sinv_open c _ t Hc Ht) as Hi2.
    destruct (do_open_fopen c (set_fopen w None) t) as [[i nm] Ho]. destruct (Ha i nm Ho) as [fs' [p [E [Hp Hnm]]]].
    exists p. conj.
    - unfold active_file. rewrite Ho, E, <- Hp. apply lookup_ino_last. apply sorted_inos_last. rewrite <- E. exact (i_inos _ _ Hi2).
    - assert (Hg : ginv c dm (mk_foreign 1%N fids) (do_open c (set_fopen w None) t)) by (apply ginv_open, ginv_close; exact reach_ginv).
      destruct Hg as [_ _ C0 _]. specialize (C0 i nm Ho). destruct (do_open_bw_lc c (set_fopen w None) t) as [_ [L _]]. ginv_fields. rewrite L in C0. congruence.
    - destruct (do_open_bw_lc c (set_fopen w None) t) as [_ [L _]]. exact L.
  Qed.

  (* files outside the sink's name space are never removed or changed; the file the sink has open is in the directory *)
  Theorem active_and_foreign_never_removed :
    foreign_files (files w) = mk_foreign 1%N fids /\
    (forall i nm, fopen w = Some (i, nm) -> exists p, In p (files w) /\ f_ino p = i /\ is_foreign (f_name p) = false).
  Proof.
    split; [exact (g_foreign _ _ _ _ reach_ginv)|]. intros i nm H. destruct (i_open _ _ reach_sinv i nm H) as [fs' [p [E [Hp Hnf]]]].
    exists p. conj; auto. rewrite E. apply in_or_app. right. left. reflexivity.
  Qed.
End Reachable.

(* … also at every crash point of the next call *)
Theorem foreign_untouched_by_step c fids dm k0 ops o : special c = false -> fault_free ops -> clock_ok k0 (ops ++ [o]) ->
  foreign_files (files (step c (run c fids dm k0 ops) o)) = mk_foreign 1%N fids.
Proof.
  intros Hsp Hff Hclk.
  destruct (clock_ok_app c ops o Hsp (w_init fids dm k0) (sinv_init c fids dm k0) Hclk) as [Hc1 Hc2].
  pose proof (reach_sinv c fids dm k0 ops Hsp Hff Hc1) as Hi. pose proof (reach_ginv c fids dm k0 ops Hsp Hc1) as Hg.
  exact (g_foreign _ _ _ _ (ginv_step c dm _ _ o Hi Hc2 Hg)).
Qed.

(* retention right after a rotation, over every history *)
Theorem retention_after_rotation c fids dm k0 ops id size t1 t2 t3 t4 t5 :
  special c = false -> fault_free ops -> clock_ok k0 (ops ++ [Write id size t1 t2 t3 t4 t5 nofault]) ->
  let w := run c fids dm k0 ops in
  let o := Write id size t1 t2 t3 t4 t5 nofault in
  step_rot c w o = true -> step_ok c w o = true ->
  let S := stamps_of (files (do_open c w t1)) ++ (if tsOnly c then [t3] else []) in
  StronglySorted Z.lt S /\
  stamps_of (files (step c w o)) = kept_stamps c S ++ (if modeA c then [t4] else []) /\
  (maxFiles c <> 0%N -> (length (kept_stamps c S) <= N.to_nat (maxFiles c))%nat) /\
  exists fs' p, files (step c w o) = fs' ++ [p] /\ f_data p = [id] /\ f_name p = newFileName c t4 /\ f_mode p = eff_mode c /\
                f_ino p = next_ino (do_open c w t1) /\ fopen (step c w o) = Some (f_ino p, newFileName c t4) /\
                ~ In (f_ino p) (inos (files (do_open c w t1))).
Proof.
  intros Hsp Hff Hclk w o Hrot Hok S.
  destruct (clock_ok_app c ops o Hsp (w_init fids dm k0) (sinv_init c fids dm k0) Hclk) as [Hc1 Hc2].
  pose proof (reach_sinv c fids dm k0 ops Hsp Hff Hc1) as Hi.
  destruct (rotating_write_spec c w id size t1 t2 t3 t4 t5 Hsp Hi Hc2 Hrot Hok) as [A [B C0]].
  conj; auto. apply kept_stamps_length.
Qed.

(* ---------- constants ---------- *)
Lemma mode_constants : defaultMode = 384%N /\ dirMode = 448%N /\ (forall c, cmode c = 0%N -> eff_mode c = 384%N) /\
  (forall c, cmode c <> 0%N -> eff_mode c = cmode c).
Proof.
  conj; try reflexivity; intros c H; unfold eff_mode.
  - rewrite H. reflexivity.
  - destruct (N.eqb (cmode c) 0) eqn:E; [apply N.eqb_eq in E; contradiction|reflexivity].
Qed.

(* ---------- sort.Strings on decimal stamps of equal length is the numeric order (what glob_sorted assumes) ---------- *)
Fixpoint lex_lt (a b : list N) : Prop :=      (* strings.Compare on the digit characters, given as digit values *)
  match a, b with
  | [], [] => False
  | [], _ :: _ => True
  | _ :: _, [] => False
  | x :: s, y :: t => (x < y)%N \/ (x = y /\ lex_lt s t)
  end.
Fixpoint digits_val (l : list N) : N :=       (* the number a decimal digit string denotes *)
  match l with [] => 0%N | x :: s => (x * 10 ^ N.of_nat (length s) + digits_val s)%N end.
Lemma digits_val_bound l : Forall (fun d => (d < 10)%N) l -> (digits_val l < 10 ^ N.of_nat (length l))%N.
Proof.
  induction l as [|x s IH]; intros H; [cbn; lia|]. inversion H as [|? ? Hx Hs]; subst. specialize (IH Hs).
  cbn [digits_val length]. rewrite Nat2N.inj_succ, N.pow_succ_r'. nia.
Qed.
Theorem stamp_order_is_string_order : forall a b : list N, length a = length b ->
  Forall (fun d => (d < 10)%N) a -> Forall (fun d => (d < 10)%N) b ->
  (lex_lt a b <-> (digits_val a < digits_val b)%N).
Proof.
  induction a as [|x s IH]; intros [|y t] Hl Ha Hb; try discriminate; [cbn; lia|].
  inversion Ha as [|? ? Hx Hs]; inversion Hb as [|? ? Hy Ht]; subst. cbn [length] in Hl. injection Hl as Hl.
  specialize (IH t Hl Hs Ht). pose proof (digits_val_bound s Hs) as Bs. pose proof (digits_val_bound t Ht) as Bt.
  cbn [lex_lt digits_val]. rewrite Hl in *. set (P := (10 ^ N.of_nat (length t))%N) in *.
  split.
  - intros [H|[-> H]]; [nia|]. apply IH in H. lia.
  - intros H. destruct (N.lt_trichotomy x y) as [L|[E|G]]; [left; exact L| |exfalso; nia].
    right. split; [exact E|]. apply IH. subst y. lia.
Qed.

(* ---------- the acknowledged chunks are ids of Write operations: no chunk 0 ("not a whole event") without a fault ---------- *)
Definition write_id_nonzero (o : op) : Prop := match o with Write id _ _ _ _ _ _ _ => id <> 0%N | _ => True end.
Lemma no_torn_from c ops : special c = false -> fault_free ops -> Forall write_id_nonzero ops -> forall w,
  sinv c w -> clock_ok (clock w) ops -> ~ In 0%N (acked w) -> ~ In 0%N (acked (run_from c w ops)).
Proof.
  intros Hsp Hff. induction Hff as [|o r Ho Hr IH]; intros Hnz w Hi Hc H0; cbn [run_from fold_left]; [exact H0|].
  inversion Hnz as [|? ? Hn1 Hn2]; subst. cbn [clock_ok] in Hc. destruct Hc as [Hc1 Hc2].
  destruct (step_spec c w o Hsp Hi Hc1) as [S1 [S2 S3]]. destruct (S3 Ho) as [_ S5].
  apply IH; [exact Hn2|exact S1|rewrite S2; exact Hc2|]. rewrite S5. intros H. apply in_app_or in H as [H|H]; [contradiction|].
  unfold op_ack in H. destruct o as [id size t1 t2 t3 t4 t5 flt|t|t|t]; try contradiction.
  unfold ackl in H. destruct (step_ok c w _); [|contradiction]. destruct H as [H|[]]. cbn in Hn1. congruence.
Qed.
Theorem no_torn_chunk c fids dm k0 ops : special c = false -> fault_free ops -> clock_ok k0 ops -> Forall write_id_nonzero ops ->
  ~ In 0%N (pruned (run c fids dm k0 ops) ++ reading (files (run c fids dm k0 ops))).
Proof.
  intros Hsp Hff Hc Hnz. rewrite <- (acked_is_pruned_plus_reading c fids dm k0 ops Hsp Hff Hc).
  apply no_torn_from; auto; try apply sinv_init.
Qed.

(* ---------- special paths: /dev/null, /dev/stdout, /dev/stderr never touch the directory or a descriptor ---------- *)
Theorem special_paths_bypass c w o : special c = true -> fopen w = None ->
  files (step c w o) = files w /\ fopen (step c w o) = None /\ dirmode (step c w o) = dirmode w /\
  step_ok c w o = true /\ step_rot c w o = false /\
  acked (step c w o) = acked w ++ match o with Write id _ _ _ _ _ _ _ => [id] | _ => [] end.
Proof.
  intros Hsp Ho. unfold step, step_ok, step_rot. destruct o as [id size t1 t2 t3 t4 t5 flt|t|t|t]; cbn [step3]; rewrite ?Hsp; cbn [fst snd].
  - unfold std_write. destruct (path c); ginv_fields; rewrite ?app_nil_r; auto 10.
  - ginv_fields. rewrite app_nil_r. auto 10.
  - unfold active_file. rewrite Ho. cbn [fst snd]. ginv_fields. rewrite app_nil_r. auto 10.
  - ginv_fields. rewrite app_nil_r. auto 10.
Qed.

(* ---------- the directory is created on demand — also again, after it was removed from outside ---------- *)
(* whatever the state: after  rm -rf Path  the next Reopen re-creates the directory with 0700 and opens a new, empty file
   with the configured name and mode *)
Theorem reopen_recreates_dir c w t t' : special c = false ->
  let w' := step c (xstep c w (XRmDir t)) (Reopen t') in
  dirmode w' = Some dirMode /\ files w' = [new_file c w t'] /\ fopen w' = Some (next_ino w, newFileName c t') /\
  lc w' = t' /\ bw w' = 0 /\ step_ok c (xstep c w (XRmDir t)) (Reopen t') = true.
Proof.
  intros Hsp. cbn zeta. unfold step, step_ok, xstep. cbn [xstep3 step3 fst snd]. rewrite Hsp. cbn [fst snd].
  rewrite do_reopen_eq. unfold do_open. ginv_fields. cbn [set_dir fopen files dirmode lookup_name app next_ino]. auto 10.
Qed.
(* … and so does a write that rotates in the all-stamped naming mode: the event lands, alone, in a new file of a new directory *)
Theorem rotating_write_recreates_dir c w t id size t1 t2 t3 t4 t5 o : special c = false -> tsOnly c = false ->
  fopen w = Some o -> rotate_due c w t2 = true ->
  let w1 := xstep c w (XRmDir t) in
  let w' := step c w1 (Write id size t1 t2 t3 t4 t5 nofault) in
  dirmode w' = Some dirMode /\ files w' = [add_data (new_file c w t4) id] /\
  fopen w' = Some (next_ino w, newFileName c t4) /\ step_ok c w1 (Write id size t1 t2 t3 t4 t5 nofault) = true.
Proof.
  intros Hsp Hts Ho Hdue. cbn zeta. unfold step, step_ok, xstep. cbn [xstep3 step3 fst snd]. rewrite Hsp.
  unfold do_write. rewrite (do_open_open c _ t1 o) by exact Ho.
  unfold do_rotate.
  assert (Hd : rotate_due c (set_clock (set_dir w [] None) t) t2 = true) by exact Hdue.
  rewrite Hd, Hts.
  assert (Hp : forall w0, files w0 = [] -> prune c w0 = w0).
  { intros w0 E. unfold prune, prune_n, stale_count, glob_sorted. rewrite E. cbn [stamps_of isort length Nat.sub].
    destruct (special c || N.eqb (maxFiles c) 0); reflexivity. }
  rewrite Hp by reflexivity.
  unfold do_open, append_chunk. ginv_fields. cbn [set_dir fopen files dirmode lookup_name app next_ino negb nofault first_fails fst snd].
  unfold fs_append. cbn [map f_ino new_file]. rewrite N.eqb_refl. auto 10.
Qed.

(* ---------- acknowledged implies present, whatever write(2) does (beyond C08's fault-free quantifier) ---------- *)
(* For EVERY outcome of the fault oracle: a Process call that returns nil has put the whole event at the end of what the files
   read (after at most the bytes of a failed first attempt, chunk 0), and a call that returns an error acknowledges nothing. *)
Theorem write_ack_present c w id size t1 t2 t3 t4 t5 flt :
  sinv c w -> clock w < t1 -> t1 < t2 -> t2 < t3 -> t3 < t4 -> t4 < t5 ->
  let r := do_write c w id size t1 t2 t3 t4 t5 flt in
  if snd (fst r)
  then D (fst (fst r)) = D w ++ (if first_fails flt && leaves_partial flt then [0%N] else []) ++ [id] /\ acked (fst (fst r)) = acked w ++ [id]
  else acked (fst (fst r)) = acked w.
Proof.
  intros Hi H1 H2 H3 H4 H5. unfold do_write.
  assert (Hi1 : sinv c (do_open c w t1)) by (apply sinv_open; assumption).
  assert (Hc1 : clock (do_open c w t1) < t2) by (rewrite do_open_clock; destruct (fopen w); lia).
  pose proof (rotate_spec c _ t2 t3 t4 Hi1 Hc1 H3 H4) as [G1 [G2 [G3 G4]]].
  destruct (do_open_fopen c w t1) as [o1 Ho1].
  pose proof (rotate_ok_open c _ t2 t3 t4 o1 Ho1) as Hok.
  rewrite D_open in G2 by exact Hi. rewrite do_open_acked in G3.
  destruct (do_rotate c (do_open c w t1) t2 t3 t4) as [[w2 ok] rot]. cbn [fst snd] in *.
  destruct ok; cbn [negb fst snd]; [|exact G3].
  specialize (Hok eq_refl).
  destruct (first_fails flt); cbn [negb andb fst snd].
  - assert (H3' : sinv c (if leaves_partial flt then append_chunk w2 0%N 0 false else w2) /\
                  clock (if leaves_partial flt then append_chunk w2 0%N 0 false else w2) = clock w2 /\
                  acked (if leaves_partial flt then append_chunk w2 0%N 0 false else w2) = acked w /\
                  D (if leaves_partial flt then append_chunk w2 0%N 0 false else w2) = D w ++ (if leaves_partial flt then [0%N] else [])).
    { destruct (leaves_partial flt).
      - destruct (append_spec c w2 0%N 0 false G1) as [A1 [A2 [A3 [A4 _]]]]. conj; auto; [congruence|rewrite (A2 Hok); congruence].
      - rewrite app_nil_r. auto. }
    destruct H3' as [S3 [C3 [K3 D3]]].
    destruct (reopen_spec c _ t5 S3) as [R1 [R2 [R3 [_ R5]]]]; [lia|].
    destruct (second_fails flt); cbn [fst snd]; [congruence|].
    destruct (append_spec c _ id size false R1) as [_ [A2 [A3 _]]]. unfold D in *. projs.
    rewrite (A2 R5), A3, R2, R3, D3, K3, <- app_assoc. split; reflexivity.
  - destruct (append_spec c w2 id size true G1) as [_ [A2 [A3 _]]]. unfold D in *. projs.
    rewrite (A2 Hok), A3, G2, G3. split; reflexivity.
Qed.
