(* FileSinkProofs.v — invariants of the FileSink model and the theorems of C08 / C15.
   Everything is proved for every history (list of operations), every configuration and every initial set of
   foreign files; the hypotheses are [clock_ok] (clock readings strictly increase) and, where the write-retry
   branch matters, [fault_free]. *)
From Coq Require Import List Bool Arith NArith ZArith Lia Sorted ZifyBool.
From Verif Require Import FileSink.
Import ListNotations.
Open Scope Z_scope.

(* ================================================================== names *)
(* the reading order: foreign names first (they are not read), stamps ascending, the plain name last *)
Definition nlt (a b : name) : Prop :=
  match a, b with
  | NForeign _, _ => True
  | NStamp x, NStamp y => x < y
  | NStamp _, NPlain => True
  | _, _ => False
  end.
Definition names (fs : list file) : list name := map f_name fs.
Definition inos (fs : list file) : list N := map f_ino fs.
Definition contents (fs : list file) : list N := concat (map f_data fs).
Definition below (k : Z) (fs : list file) : Prop := forall t, In (NStamp t) (names fs) -> t <= k.
Definition modeA (c : cfg) : bool := negb (tsOnly c) && rotateEnabled c.   (* every file of the sink carries a stamp *)

Lemma name_eqb_eq a b : name_eqb a b = true <-> a = b.
Proof.
  destruct a, b; cbn; split; intros H; try discriminate; try reflexivity.
  - apply N.eqb_eq in H. subst. reflexivity.
  - inversion H. apply N.eqb_refl.
  - apply Z.eqb_eq in H. subst. reflexivity.
  - inversion H. apply Z.eqb_refl.
Qed.
Lemma name_eqb_refl a : name_eqb a a = true.
Proof. apply name_eqb_eq. reflexivity. Qed.
Lemma name_eqb_neq a b : a <> b -> name_eqb a b = false.
Proof. intros H. destruct (name_eqb a b) eqn:E; [apply name_eqb_eq in E; contradiction|reflexivity]. Qed.
Lemma nlt_irrefl_sink a : is_foreign a = false -> ~ nlt a a.
Proof. destruct a; cbn; intros; try discriminate; lia. Qed.
Lemma nlt_plain_false x : ~ nlt NPlain x.
Proof. destruct x; cbn; tauto. Qed.

Lemma names_app a b : names (a ++ b) = names a ++ names b.
Proof. apply map_app. Qed.
Lemma inos_app a b : inos (a ++ b) = inos a ++ inos b.
Proof. apply map_app. Qed.
Lemma contents_app a b : contents (a ++ b) = contents a ++ contents b.
Proof. unfold contents. rewrite map_app, concat_app. reflexivity. Qed.
Lemma contents_cons f t : contents (f :: t) = f_data f ++ contents t.
Proof. reflexivity. Qed.

(* ---------- sorted lists ---------- *)
Lemma sorted_snoc {A} (R : A -> A -> Prop) l n :
  StronglySorted R l -> (forall x, In x l -> R x n) -> StronglySorted R (l ++ [n]).
Proof.
  induction l as [|a t IH]; cbn; intros Hs Hall; [repeat constructor|].
  inversion Hs as [|? ? Ht Ha]; subst. constructor.
  - apply IH; [exact Ht|]. intros x Hx. apply Hall. right. exact Hx.
  - apply Forall_app. split; [exact Ha|]. constructor; [|constructor]. apply Hall. left. reflexivity.
Qed.
Lemma sorted_app_inv {A} (R : A -> A -> Prop) l1 l2 :
  StronglySorted R (l1 ++ l2) -> StronglySorted R l1 /\ StronglySorted R l2 /\ (forall x y, In x l1 -> In y l2 -> R x y).
Proof.
  induction l1 as [|a t IH]; cbn; intros Hs.
  - split; [constructor|]. split; [exact Hs|]. intros x y [].
  - inversion Hs as [|? ? Ht Ha]; subst. destruct (IH Ht) as [H1 [H2 H3]]. split; [|split].
    + constructor; [exact H1|]. apply Forall_app in Ha. tauto.
    + exact H2.
    + intros x y [<-|Hx] Hy.
      * apply Forall_app in Ha. destruct Ha as [_ Ha]. rewrite Forall_forall in Ha. apply Ha. exact Hy.
      * apply H3; assumption.
Qed.
Lemma sorted_filter {A B} (R : B -> B -> Prop) (g : A -> B) (p : A -> bool) l :
  StronglySorted R (map g l) -> StronglySorted R (map g (filter p l)).
Proof.
  induction l as [|a t IH]; cbn; intros Hs; [constructor|].
  inversion Hs as [|? ? Ht Ha]; subst. destruct (p a); cbn; [|apply IH; exact Ht].
  constructor; [apply IH; exact Ht|]. rewrite Forall_forall in *. intros x Hx. apply Ha.
  apply in_map_iff in Hx as [y [<- Hy]]. apply filter_In in Hy. apply in_map. tauto.
Qed.

(* in a name-sorted directory the plain name can only be the last entry *)
Lemma sorted_plain_last fs : StronglySorted nlt (names fs) -> In NPlain (names fs) ->
  exists fs' p, fs = fs' ++ [p] /\ f_name p = NPlain /\ ~ In NPlain (names fs').
Proof.
  induction fs as [|f t IH]; cbn; intros Hs Hin; [contradiction|].
  inversion Hs as [|? ? Ht Ha]; subst. destruct (f_name f) eqn:En.
  - destruct Hin as [Hin|Hin]; [discriminate|]. destruct (IH Ht Hin) as [fs' [p [E [Hp Hn]]]].
    exists (f :: fs'), p. subst t. split; [reflexivity|]. split; [exact Hp|]. cbn. rewrite En. intros [H|H]; [discriminate|contradiction].
  - destruct Hin as [Hin|Hin]; [discriminate|]. destruct (IH Ht Hin) as [fs' [p [E [Hp Hn]]]].
    exists (f :: fs'), p. subst t. split; [reflexivity|]. split; [exact Hp|]. cbn. rewrite En. intros [H|H]; [discriminate|contradiction].
  - destruct t as [|g t'].
    + exists [], f. split; [reflexivity|]. split; [exact En|]. intros [].
    + inversion Ha as [|? ? Hfg _]; subst. exfalso. exact (nlt_plain_false _ Hfg).
Qed.
