(* FormatsExamples.v — non-vacuity: concrete events, payloads and configurations that meet the hypotheses of the C14 and C18
   theorems, evaluated by vm_compute. *)
From Coq Require Import List Bool Arith NArith.
From Verif Require Import Alist Base64 Json JsonProofs Formatters FormattersProofs CloudEvents CloudEventsProofs.
Import ListNotations.
Open Scope N_scope.

(* a nested payload with a control character, an HTML character, U+2028, a valid 2-byte sequence and an invalid byte:
   {"a":[12,"<\n",U+2028,"e-acute",0xFF],"b":-7.5e+2,"":null} *)
Definition ex_payload : jv :=
  JObj [([97], JArr [JNum [49; 50]; JStr [60; 10]; JStr [226; 128; 168]; JStr [195; 169]; JStr [255]]);
        ([98], JNum [45; 55; 46; 53; 101; 43; 50]); ([], JNull)].
Definition ex_time : bytes := [50; 48; 50; 51; 45; 49; 49; 45; 49; 52; 84; 50; 50; 58; 49; 51; 58; 50; 48; 90].   (* 2023-11-14T22:13:20Z *)
Definition ex_event : event jv := {| ev_type := [116; 38]; ev_time := Some ex_time; ev_payload := ex_payload; ev_fmt := [(4, [84])] |}.

Example ex_payload_wf : wf ex_payload.
Proof. apply wfb_wf. vm_compute. reflexivity. Qed.
Example ex_follow : follow_ok [10].
Proof. reflexivity. Qed.
(* the image differs from the value exactly in the invalid byte *)
Example ex_image :
  jimage ex_payload =
  JObj [([97], JArr [JNum [49; 50]; JStr [60; 10]; JStr [226; 128; 168]; JStr [195; 169]; JStr [239; 191; 189]]);
        ([98], JNum [45; 55; 46; 53; 101; 43; 50]); ([], JNull)].
Proof. vm_compute. reflexivity. Qed.
(* the event is encodable: JSONFormatter stores the line and forwards; the stored line parses to the three members *)
Example ex_formatter_forwards : snd (json_formatter Some ex_event) = OFwd.
Proof. vm_compute. reflexivity. Qed.
Example ex_line_parses :
  match format fmt_json (fst (json_formatter Some ex_event)) with
  | Some b => parse_doc b
  | None => None
  end = Some (JObj [(k_created_at, JStr ex_time); (k_event_type, JStr [116; 38]); (k_payload, jimage ex_payload)]).
Proof. vm_compute. reflexivity. Qed.
Example ex_nonvacuous_c14 :
  wf ex_payload /\ follow_ok [10] /\ json_line Some ex_event = Some (envelope ex_time [116; 38] ex_payload) /\
  snd (json_formatter_filter Some (Some (fun _ => PFalse)) ex_event) = ODrop /\
  snd (json_formatter (fun _ : jv => @None jv) ex_event) = OErr.
Proof. split; [exact ex_payload_wf|]. split; [reflexivity|]. repeat split; vm_compute; reflexivity. Qed.

(* ---- C18: a valid configuration with a signer, a listed type, a payload without ID(), a fresh id ---- *)
Definition ex_signer (b : bytes) : sres := SigOk (83 :: firstn 3 (rev b)).     (* some function of exactly the bytes signed *)
Definition ex_cfg : cfg :=
  {| c_source := Some [117; 114; 110; 58; 120]; c_schema := None; c_format := FText; c_pred := Some (fun _ => PTrue);
     c_signer := Some ex_signer; c_sign_types := [[111]; [116; 38]] |}.
Definition ex_pid (_ : jv) : option bytes := None.
Definition ex_pdata (v : jv) : dimage := DVal v.
Definition ex_fresh : bytes := [105; 100; 49].

Example ex_ce_valid : valid ex_cfg = true.
Proof. reflexivity. Qed.
Example ex_ce_forwards : snd (fst (process ex_pid ex_pdata (Some ex_cfg) (Some ex_event) (Some ex_fresh))) = OFwd.
Proof. vm_compute. reflexivity. Qed.
Example ex_nonvacuous_c18 :
  exists r calls,
    process ex_pid ex_pdata (Some ex_cfg) (Some ex_event) (Some ex_fresh) = (r, OFwd, calls) /\
    c_signer ex_cfg = Some ex_signer /\ listed ex_cfg (ev_type ex_event) = true /\
    (forall v, ex_pdata (ev_payload ex_event) = DVal v -> wf v) /\ length calls = 1%nat.
Proof.
  eexists. eexists. split; [vm_compute; reflexivity|]. split; [reflexivity|]. split; [reflexivity|]. split; [|reflexivity].
  intros v H. injection H as <-. exact ex_payload_wf.
Qed.
(* with a failing signer the same event is failed and nothing is stored *)
Example ex_sign_failure :
  process ex_pid ex_pdata
    (Some {| c_source := c_source ex_cfg; c_schema := None; c_format := FText; c_pred := None;
             c_signer := Some (fun _ => SigErr); c_sign_types := [[116; 38]] |}) (Some ex_event) (Some ex_fresh)
  = (Some ex_event, OErr,
     [enc FText (unsigned_doc ex_cfg ex_event ex_fresh ex_time (Some ex_payload))]).
Proof. vm_compute. reflexivity. Qed.
