(* Formatters.v — model of JSONFormatter, JSONFormatterFilter, Filter and of the Event format table
   (formatter.go, formatter_filter.go, filter.go, event.go).  Model only; proofs in FormattersProofs.v.

   A Go node mutates the *Event it is handed and returns (event | nil, error); the model returns the event's state after
   the call together with the outcome class.  Format names are interned: 1 = "json" (2 and 3 are the cloudevents
   formats, anything else is some other format).  The creation time is an input: [ev_time] is the RFC3339Nano text
   time.Time.MarshalJSON produces for it, None when MarshalJSON rejects the time (year outside 0..9999). *)
From Coq Require Import List Bool NArith.
From Verif Require Import Alist Json.
Import ListNotations.
Open Scope N_scope.

Definition fmt_json : N := 1.
Definition k_created_at : bytes := [99; 114; 101; 97; 116; 101; 100; 95; 97; 116].          (* created_at *)
Definition k_event_type : bytes := [101; 118; 101; 110; 116; 95; 116; 121; 112; 101].      (* event_type *)
Definition k_payload : bytes := [112; 97; 121; 108; 111; 97; 100].                          (* payload *)

Definition table := list (N * bytes).
Definition tget (f : N) (t : table) : option bytes := aget N.eqb f t.
Definition tset (f : N) (v : bytes) (t : table) : table := aset N.eqb f v t.

(* the three-member object both JSON formatters encode, and the line json.Encoder.Encode writes for it *)
Definition envelope_jv (t ty : bytes) (v : jv) : jv :=
  JObj [(k_created_at, JStr t); (k_event_type, JStr ty); (k_payload, v)].
Definition envelope (t ty : bytes) (v : jv) : bytes := encode_line (envelope_jv t ty v).

Inductive outcome := OFwd    (* (e, nil): the very event is passed on *)
                   | ODrop   (* (nil, nil) *)
                   | OErr.   (* (nil, err) *)
Inductive pres := PTrue | PFalse | PErr.
Definition by_pred (r : pres) : outcome := match r with PTrue => OFwd | PFalse => ODrop | PErr => OErr end.

Section Formatters.
  Variable P : Type.                      (* payloads *)
  Variable image : P -> option jv.        (* the JSON image encoding/json gives a payload; None: it cannot be encoded *)

  Record event := { ev_type : bytes; ev_time : option bytes; ev_payload : P; ev_fmt : table }.

  (* Event.FormattedAs / Event.Format *)
  Definition formatted_as (f : N) (v : bytes) (e : event) : event :=
    {| ev_type := ev_type e; ev_time := ev_time e; ev_payload := ev_payload e; ev_fmt := tset f v (ev_fmt e) |}.
  Definition format (f : N) (e : event) : option bytes := tget f (ev_fmt e).

  Definition json_line (e : event) : option bytes :=
    match ev_time e, image (ev_payload e) with
    | Some t, Some v => Some (envelope t (ev_type e) v)
    | _, _ => None
    end.

  Definition json_formatter (e : event) : event * outcome :=
    match json_line e with
    | Some b => (formatted_as fmt_json b e, OFwd)
    | None => (e, OErr)
    end.

  (* the predicate is handed the event after the format has been stored *)
  Definition json_formatter_filter (pred : option (event -> pres)) (e : event) : event * outcome :=
    match json_line e with
    | Some b =>
        let e' := formatted_as fmt_json b e in
        (e', match pred with None => OFwd | Some p => by_pred (p e') end)
    | None => (e, OErr)
    end.

  Definition filter (pred : event -> pres) (e : event) : event * outcome := (e, by_pred (pred e)).

  (* ---- the format table under concurrent use: FormattedAs and Format are critical sections of Event.l, so an
     execution is a sequence of these atomic steps, each tagged with the goroutine that performs it ---- *)
  Inductive top := TSet (f : N) (v : bytes) | TGet (f : N).
  Definition tstep (t : table) (o : top) : table * option (option bytes) :=
    match o with
    | TSet f v => (tset f v t, None)
    | TGet f => (t, Some (tget f t))
    end.
  Fixpoint trun (t : table) (ops : list top) : table * list (option (option bytes)) :=
    match ops with
    | [] => (t, [])
    | o :: rest => let '(t1, r) := tstep t o in let '(t2, rs) := trun t1 rest in (t2, r :: rs)
    end.
  (* the declarative last-writer-wins reading: the value of the last TSet of [f] in [ops], else the initial one *)
  Fixpoint last_write (f : N) (init : option bytes) (ops : list top) : option bytes :=
    match ops with
    | [] => init
    | TSet g v :: rest => last_write f (if g =? f then Some v else init) rest
    | TGet _ :: rest => last_write f init rest
    end.
  (* every way of merging the goroutines' programs into one sequence of atomic steps *)
  Inductive interleave : list (list top) -> list top -> Prop :=
  | il_done : forall ts, Forall (fun p => p = []) ts -> interleave ts []
  | il_step : forall pre o p post sched,
      interleave (pre ++ p :: post) sched -> interleave (pre ++ (o :: p) :: post) (o :: sched).
End Formatters.

Arguments ev_type {P}. Arguments ev_time {P}. Arguments ev_payload {P}. Arguments ev_fmt {P}.
Arguments formatted_as {P}. Arguments format {P}. Arguments json_line {P}. Arguments json_formatter {P}.
Arguments json_formatter_filter {P}. Arguments filter {P}.
