(* FormattersProofs.v — what the JSON formatters, the Filter and the format table do, for every payload type, every image
   function, every predicate, every format table and every schedule of table operations. *)
From Coq Require Import List Bool Arith NArith Lia.
From Verif Require Import Alist Json JsonProofs Formatters.
Import ListNotations.
Open Scope N_scope.

Lemma tget_tset_same f v t : tget f (tset f v t) = Some v.
Proof. unfold tget, tset. apply aget_aset_same. exact neqb_spec. Qed.
Lemma tget_tset_other f g v t : g <> f -> tget g (tset f v t) = tget g t.
Proof. unfold tget, tset. intros H. apply aget_aset_other; [exact neqb_spec|exact H]. Qed.

(* ---------------------------------------------------------------- the stored line *)
Lemma wf_envelope t ty v : wf v -> wf (envelope_jv t ty v).
Proof. intros H. cbn. tauto. Qed.

(* parsing the stored line gives an object with exactly the three members created_at, event_type and payload, holding the
   time text, the event type and the payload's JSON image (strings as a JSON reader sees them: invalid UTF-8 bytes replaced
   by U+FFFD; valid UTF-8, ASCII in particular, unchanged — sanitize_valid) *)
Theorem envelope_members t ty v : wf v ->
  parse_doc (envelope t ty v) =
  Some (JObj [(k_created_at, JStr (sanitize t)); (k_event_type, JStr (sanitize ty)); (k_payload, jimage v)]).
Proof.
  intros Hw. unfold envelope. rewrite (parse_doc_line _ (wf_envelope t ty v Hw)). reflexivity.
Qed.
(* when the time text, the type and every string of the payload are valid UTF-8 the members are the very values *)
Corollary envelope_members_valid t ty v : wf v -> utf8_valid t = true -> utf8_valid ty = true -> jvalid v ->
  parse_doc (envelope t ty v) = Some (JObj [(k_created_at, JStr t); (k_event_type, JStr ty); (k_payload, v)]).
Proof.
  intros Hw Ht Hty Hv. rewrite (envelope_members t ty v Hw).
  rewrite (sanitize_valid t Ht), (sanitize_valid ty Hty), (jimage_valid v Hv). reflexivity.
Qed.
(* it is one line: the only newline is the terminating one *)
Theorem envelope_single_line t ty v : wf v -> exists body, envelope t ty v = body ++ [10] /\ ~ In 10 body.
Proof. intros Hw. apply encode_line_single. apply wf_envelope. exact Hw. Qed.
(* the RFC3339 time text is ASCII, hence its own image *)
Theorem envelope_time_ascii t : ascii t -> sanitize t = t.
Proof. apply sanitize_ascii. Qed.

Section Proofs.
  Variable P : Type.
  Variable image : P -> option jv.
  Notation event := (event P).

  Definition frame (e e' : event) : Prop :=
    ev_type e' = ev_type e /\ ev_time e' = ev_time e /\ ev_payload e' = ev_payload e /\
    forall f, f <> fmt_json -> format f e' = format f e.

  Lemma frame_refl e : frame e e.
  Proof. repeat split; reflexivity. Qed.
  Lemma frame_formatted_as b e : frame e (formatted_as fmt_json b e).
  Proof.
    repeat split; try reflexivity. intros f Hf. unfold format, formatted_as. cbn [ev_fmt].
    apply tget_tset_other. exact Hf.
  Qed.

  (* payload, type, time and every other format are unchanged; only "json" is ever written *)
  Theorem formatter_frame e : frame e (fst (json_formatter image e)).
  Proof.
    unfold json_formatter. destruct (json_line image e) as [b|]; cbn [fst].
    - apply frame_formatted_as.
    - apply frame_refl.
  Qed.
  Theorem jff_frame pred e : frame e (fst (json_formatter_filter image pred e)).
  Proof.
    unfold json_formatter_filter. destruct (json_line image e) as [b|]; cbn [fst].
    - apply frame_formatted_as.
    - apply frame_refl.
  Qed.

  Lemma json_line_none e : json_line image e = None <-> (ev_time e = None \/ image (ev_payload e) = None).
  Proof.
    unfold json_line. destruct (ev_time e) as [t|]; destruct (image (ev_payload e)) as [v|];
      intuition congruence.
  Qed.
  Lemma json_line_some e b : json_line image e = Some b <->
    exists t v, ev_time e = Some t /\ image (ev_payload e) = Some v /\ b = envelope t (ev_type e) v.
  Proof.
    unfold json_line. destruct (ev_time e) as [t|]; destruct (image (ev_payload e)) as [v|]; split; intros H.
    - injection H as <-. exists t, v. auto.
    - destruct H as [t' [v' [H1 [H2 H3]]]]. injection H1 as <-. injection H2 as <-. subst. reflexivity.
    - discriminate.
    - destruct H as [t' [v' [H1 [H2 H3]]]]. discriminate.
    - discriminate.
    - destruct H as [t' [v' [H1 [H2 H3]]]]. discriminate.
    - discriminate.
    - destruct H as [t' [v' [H1 [H2 H3]]]]. discriminate.
  Qed.

  (* an encodable event: the line is stored under json and the very event is passed on *)
  Theorem formatter_stores e b : json_line image e = Some b ->
    format fmt_json (fst (json_formatter image e)) = Some b /\ snd (json_formatter image e) = OFwd.
  Proof.
    intros H. unfold json_formatter. rewrite H. cbn [fst snd]. split; [|reflexivity].
    unfold format, formatted_as. cbn [ev_fmt]. apply tget_tset_same.
  Qed.
  Theorem jff_stores pred e b : json_line image e = Some b ->
    format fmt_json (fst (json_formatter_filter image pred e)) = Some b.
  Proof.
    intros H. unfold json_formatter_filter. rewrite H. cbn [fst].
    unfold format, formatted_as. cbn [ev_fmt]. apply tget_tset_same.
  Qed.

  (* an event that cannot be encoded: an error, nothing forwarded, the event (format table included) exactly as before *)
  Theorem formatter_error_forwards_nothing e :
    (ev_time e = None \/ image (ev_payload e) = None) ->
    json_formatter image e = (e, OErr) /\ forall pred, json_formatter_filter image pred e = (e, OErr).
  Proof.
    intros H. apply json_line_none in H. unfold json_formatter, json_formatter_filter. rewrite H. split; [reflexivity|].
    intros pred. reflexivity.
  Qed.
  (* and conversely an error of the plain formatter means the event could not be encoded *)
  Theorem formatter_error_iff e :
    snd (json_formatter image e) = OErr <-> (ev_time e = None \/ image (ev_payload e) = None).
  Proof.
    rewrite <- json_line_none. unfold json_formatter. destruct (json_line image e); cbn [snd]; split; intros H;
      try discriminate; reflexivity.
  Qed.
  Theorem formatter_never_drops e : snd (json_formatter image e) <> ODrop.
  Proof. unfold json_formatter. destruct (json_line image e); cbn [snd]; discriminate. Qed.

  (* JSONFormatterFilter forwards exactly when the event is encodable and the predicate is absent or returns true *)
  Theorem jff_forward_iff pred e :
    snd (json_formatter_filter image pred e) = OFwd <->
    exists b, json_line image e = Some b /\
              (pred = None \/ exists p, pred = Some p /\ p (formatted_as fmt_json b e) = PTrue).
  Proof.
    unfold json_formatter_filter. destruct (json_line image e) as [b|]; cbn [snd].
    - destruct pred as [p|].
      + split.
        * intros H. exists b. split; [reflexivity|]. right. exists p. split; [reflexivity|].
          destruct (p (formatted_as fmt_json b e)); cbn in H; try discriminate. reflexivity.
        * intros [b' [Hb [Hn|[p' [Hp Ht]]]]]; [discriminate|]. injection Hb as <-. injection Hp as <-.
          rewrite Ht. reflexivity.
      + split; [|reflexivity]. intros _. exists b. split; [reflexivity|]. left. reflexivity.
    - split; [discriminate|]. intros [b [Hb _]]. discriminate.
  Qed.
  (* an error from the predicate is an error; false drops the event; in both cases nothing is forwarded *)
  Theorem jff_pred_error p e b : json_line image e = Some b -> p (formatted_as fmt_json b e) = PErr ->
    snd (json_formatter_filter image (Some p) e) = OErr.
  Proof. intros H Hp. unfold json_formatter_filter. rewrite H. cbn [snd]. rewrite Hp. reflexivity. Qed.
  Theorem jff_pred_false p e b : json_line image e = Some b -> p (formatted_as fmt_json b e) = PFalse ->
    snd (json_formatter_filter image (Some p) e) = ODrop.
  Proof. intros H Hp. unfold json_formatter_filter. rewrite H. cbn [snd]. rewrite Hp. reflexivity. Qed.
  Theorem jff_error_iff pred e :
    snd (json_formatter_filter image pred e) = OErr <->
    (json_line image e = None \/
     exists b p, json_line image e = Some b /\ pred = Some p /\ p (formatted_as fmt_json b e) = PErr).
  Proof.
    unfold json_formatter_filter. destruct (json_line image e) as [b|]; cbn [snd].
    - destruct pred as [p|].
      + split.
        * intros H. right. exists b, p. repeat split.
          destruct (p (formatted_as fmt_json b e)); cbn in H; try discriminate. reflexivity.
        * intros [H|[b' [p' [Hb [Hp He]]]]]; [discriminate|]. injection Hb as <-. injection Hp as <-.
          rewrite He. reflexivity.
      + split; [discriminate|]. intros [H|[b' [p' [_ [Hp _]]]]]; discriminate.
    - split; [intros _; left; reflexivity|reflexivity].
  Qed.

  (* Filter: forwards exactly when the predicate returns true, an error is an error, and it never touches the event *)
  Theorem filter_forward_iff pred (e : event) : snd (filter pred e) = OFwd <-> pred e = PTrue.
  Proof. unfold filter. cbn [snd]. destruct (pred e); cbn; split; intros H; try discriminate; reflexivity. Qed.
  Theorem filter_error_iff pred (e : event) : snd (filter pred e) = OErr <-> pred e = PErr.
  Proof. unfold filter. cbn [snd]. destruct (pred e); cbn; split; intros H; try discriminate; reflexivity. Qed.
  Theorem filter_untouched pred (e : event) : fst (filter pred e) = e.
  Proof. reflexivity. Qed.
End Proofs.

(* ---------------------------------------------------------------- the format table is last-writer-wins *)
Lemma trun_app t a b :
  trun t (a ++ b) = (fst (trun (fst (trun t a)) b), snd (trun t a) ++ snd (trun (fst (trun t a)) b)).
Proof.
  revert t. induction a as [|o a IH]; intros t.
  - cbn [app trun fst snd]. destruct (trun t b); reflexivity.
  - cbn [app trun]. destruct (tstep t o) as [t1 r] eqn:E. rewrite IH.
    destruct (trun t1 a) as [t2 rs] eqn:E2. cbn [fst snd]. reflexivity.
Qed.

Lemma tget_trun f t ops : tget f (fst (trun t ops)) = last_write f (tget f t) ops.
Proof.
  revert t. induction ops as [|o ops IH]; intros t.
  - reflexivity.
  - cbn [trun]. destruct o as [g v|g]; cbn [tstep last_write].
    + destruct (trun (tset g v t) ops) as [t2 rs] eqn:E. cbn [fst].
      replace t2 with (fst (trun (tset g v t) ops)) by (rewrite E; reflexivity). rewrite IH.
      destruct (g =? f) eqn:Eg.
      * apply N.eqb_eq in Eg. subst. rewrite tget_tset_same. reflexivity.
      * apply N.eqb_neq in Eg. rewrite tget_tset_other by congruence. reflexivity.
    + destruct (trun t ops) as [t2 rs] eqn:E. cbn [fst].
      replace t2 with (fst (trun t ops)) by (rewrite E; reflexivity). apply IH.
Qed.

Lemma length_trun t ops : length (snd (trun t ops)) = length ops.
Proof.
  revert t. induction ops as [|o ops IH]; intros t; [reflexivity|].
  cbn [trun]. destruct (tstep t o) as [t1 r]. specialize (IH t1). destruct (trun t1 ops) as [t2 rs].
  cbn [snd length] in *. rewrite IH. reflexivity.
Qed.

(* in every sequence of atomic steps each Format returns the value of the latest preceding FormattedAs for that name (the
   initial entry if there is none), and the final table holds for each name the last value written *)
Definition lww (t : table) (sched : list top) : Prop :=
  (forall pre f post, sched = pre ++ TGet f :: post ->
     nth (length pre) (snd (trun t sched)) None = Some (last_write f (tget f t) pre)) /\
  (forall f, tget f (fst (trun t sched)) = last_write f (tget f t) sched).

Lemma lww_all t sched : lww t sched.
Proof.
  split.
  - intros pre f post ->. rewrite trun_app. cbn [snd].
    rewrite app_nth2 by (rewrite length_trun; lia). rewrite length_trun, Nat.sub_diag.
    cbn [trun tstep]. destruct (trun (fst (trun t pre)) post) as [t2 rs]. cbn [snd nth].
    rewrite tget_trun. reflexivity.
  - intros f. apply tget_trun.
Qed.

(* a schedule is a merge of the goroutines' programs: it contains exactly their operations, each program in its order *)
Lemma interleave_length progs sched : interleave progs sched -> length sched = length (concat progs).
Proof.
  induction 1 as [ts Hts|pre o p post sched Hi IH].
  - induction Hts as [|p ts Hp _ IH]; [reflexivity|]. subst. cbn [concat app]. exact IH.
  - cbn [length]. rewrite IH. rewrite !concat_app. cbn [concat]. rewrite !app_length. cbn [length]. lia.
Qed.

Theorem format_table_lww progs sched : interleave progs sched -> forall t, lww t sched.
Proof. intros _ t. apply lww_all. Qed.

(* non-vacuity: two goroutines, a concrete merge, and what the reader sees *)
Example interleave_ex :
  interleave [[TSet 1 [65]; TGet 1]; [TSet 1 [66]]] [TSet 1 [65]; TSet 1 [66]; TGet 1].
Proof.
  apply (il_step [] (TSet 1 [65]) [TGet 1] [[TSet 1 [66]]]).
  apply (il_step [[TGet 1]] (TSet 1 [66]) [] []).
  apply (il_step [] (TGet 1) [] [[]]).
  apply il_done. repeat constructor.
Qed.
Example lww_ex : snd (trun [] [TSet 1 [65]; TSet 1 [66]; TGet 1]) = [None; None; Some (Some [66])].
Proof. reflexivity. Qed.
