(* Gated.v — model of filters/gated/gated.go (gated.Filter) AFTER repair F1 (both loops visit every group).

   State: the groups in arrival order (id, events, expiry) plus ghost history:
     log      — every arrival of a Gateable event into a group and every removal of a group from the gate
                (newest entry first), with the destination of the removed group;
     nsend    — number of Broker.Send calls made so far (the send-fault oracle is indexed by it);
     accepted — the Gateable events for which Process returned no error.
   External behaviour enters through [env]: whether a Broker is configured, the configured Expiration, the
   outcome of ComposeFrom as a function of its argument, and which Send call fails.  Time is an input: every
   reading of Filter.Now() is an argument of the operation (processExpiredEvents reads the clock once per group
   it examines: reading number i is [rd i]).

   Process has three critical sections (initialisation, processExpiredEvents, add/flush).  The first one has no
   effect on this abstract state, the other two are the atoms [AExpire] and [AAdd]; concurrent senders interleave
   between them, so theorems are stated over arbitrary atom lists as well as over whole operations.  *)
From Coq Require Import List Bool Arith NArith ZArith.
Import ListNotations.
Open Scope Z_scope.

Record ev := { eid : N; en : N }.              (* Gateable.GetID() (0 = ""), identity of the *Event (harness number) *)
Definition ev_eqb (a b : ev) : bool := N.eqb (eid a) (eid b) && N.eqb (en a) (en b).

Record grp := { gid : N; gevs : list ev; gexp : Z }.

(* what ComposeFrom does with a given argument list *)
Inductive cres := COk | CFail | CGateable.

(* where a group went when it left the gate *)
Inductive dest :=
  | DReturned      (* flush event: the composite is returned by Process and continues down the pipeline *)
  | DSent          (* expiry / FlushAll: composite sent through the Broker *)
  | DNoBroker      (* expiry without a Broker: composed, then dropped *)
  | DFlushDrop     (* FlushAll without a Broker: dropped without composition *)
  | DCompose       (* ComposeFrom reported an error *)
  | DGateable      (* ComposeFrom returned a Gateable payload on the Broker path: refused *)
  | DSendErr.      (* Broker.Send reported an error *)

Inductive entry := LArr (e : ev) | LOut (d : dest) (id : N) (evs : list ev).

Record env := { broker_set : bool; expiration_cfg : Z; compose : list ev -> cres; send_fails : N -> bool }.

Definition default_expiration : Z := 10000000000.      (* DefaultEventTimeout = 10 s, in ns *)
Definition expiration (E : env) : Z := if expiration_cfg E =? 0 then default_expiration else expiration_cfg E.

Record outs := { olog : list entry; osend : N }.
Record gst := { groups : list grp; out : outs; accepted : list ev }.
Definition log (s : gst) : list entry := olog (out s).
Definition nsend (s : gst) : N := osend (out s).

Definition push (o : outs) (d : dest) (g : grp) (sent : bool) : outs :=
  {| olog := LOut d (gid g) (gevs g) :: olog o; osend := if sent then N.succ (osend o) else osend o |}.

(* openGate: the group leaves the gate whatever happens; result = (history, no error) *)
Definition open_gate (E : env) (o : outs) (g : grp) : outs * bool :=
  match compose E (gevs g) with
  | CFail => (push o DCompose g false, false)
  | CGateable => (push o DGateable g false, false)
  | COk =>
      if broker_set E then
        if send_fails E (osend o) then (push o DSendErr g true, false) else (push o DSent g true, true)
      else (push o DNoBroker g false, true)
  end.

(* The walk shared by processExpiredEvents and FlushAll (after repair F1 both visit every group): the groups are examined in
   list order, [sel i g] says whether the i-th group examined is to be opened; the walk stops at the first error, leaving the
   groups not yet examined in place. *)
Fixpoint walk (E : env) (sel : nat -> grp -> bool) (o : outs) (gs : list grp) : list grp * outs * bool :=
  match gs with
  | [] => ([], o, true)
  | g :: t =>
      if sel O g then
        let '(o', ok) := open_gate E o g in
        if ok then walk E (fun i => sel (S i)) o' t else (t, o', false)
      else
        let '(k, o', ok) := walk E (fun i => sel (S i)) o t in (g :: k, o', ok)
  end.

(* processExpiredEvents: the i-th group examined is compared with the i-th clock reading: w.Now().After(ge.exp) *)
Definition expired (rd : nat -> Z) (i : nat) (g : grp) : bool := gexp g <? rd i.
Definition expire_list (E : env) (rd : nat -> Z) : outs -> list grp -> list grp * outs * bool := walk E (expired rd).

(* FlushAll with a Broker: every group is opened *)
Definition flush_list (E : env) : outs -> list grp -> list grp * outs * bool := walk E (fun _ _ => true).

(* FlushAll without a Broker *)
Fixpoint drop_all (o : outs) (gs : list grp) : outs :=
  match gs with [] => o | g :: t => drop_all (push o DFlushDrop g false) t end.

Fixpoint add_ev (e : ev) (exp_new : Z) (gs : list grp) : list grp :=
  match gs with
  | [] => [ {| gid := eid e; gevs := [e]; gexp := exp_new |} ]
  | g :: t => if N.eqb (gid g) (eid e) then {| gid := gid g; gevs := gevs g ++ [e]; gexp := gexp g |} :: t
              else g :: add_ev e exp_new t
  end.
Fixpoint take_group (id : N) (gs : list grp) : option grp * list grp :=
  match gs with
  | [] => (None, [])
  | g :: t => if N.eqb (gid g) id then (Some g, t) else let '(r, k) := take_group id t in (r, g :: k)
  end.

Inductive res := RPass | RWithheld | RComposite (evs : list ev) | RErr | RNil.
Definition is_err (r : res) : bool := match r with RErr => true | _ => false end.

(* ---------- atomic steps (critical sections) ---------- *)
Inductive atom :=
  | AExpire (rd : nat -> Z)                                  (* processExpiredEvents *)
  | AAdd (id : N) (flush : bool) (n : N) (tadd : Z)          (* third critical section of Process *)
  | AFlushAll.                                               (* FlushAll / Close (one critical section) *)

Definition with_out (s : gst) (gs : list grp) (o : outs) : gst := {| groups := gs; out := o; accepted := accepted s |}.

Definition astep (E : env) (s : gst) (a : atom) : gst * res :=
  match a with
  | AExpire rd =>
      let '(k, o', ok) := expire_list E rd (out s) (groups s) in
      (with_out s k o', if ok then RNil else RErr)
  | AAdd id flush n tadd =>
      if N.eqb id 0 then (s, RErr) else
      let e := {| eid := id; en := n |} in
      let gs' := add_ev e (tadd + expiration E) (groups s) in
      let o1 := {| olog := LArr e :: log s; osend := nsend s |} in
      if flush then
        match take_group id gs' with
        | (Some g, rest) =>
            match compose E (gevs g) with
            | CFail => ({| groups := rest; out := push o1 DCompose g false; accepted := accepted s |}, RErr)
            | _ => ({| groups := rest; out := push o1 DReturned g false; accepted := accepted s ++ [e] |}, RComposite (gevs g))
            end
        | (None, _) => (s, RErr)       (* unreachable: the event was just added *)
        end
      else ({| groups := gs'; out := o1; accepted := accepted s ++ [e] |}, RWithheld)
  | AFlushAll =>
      match groups s with
      | [] => (s, RNil)
      | gs =>
          if broker_set E then
            let '(k, o', ok) := flush_list E (out s) gs in (with_out s k o', if ok then RNil else RErr)
          else (with_out s [] (drop_all (out s) gs), RNil)
      end
  end.

(* ---------- whole operations ---------- *)
Inductive op :=
  | Proc (id : N) (flush : bool) (n : N) (rd : nat -> Z) (tadd : Z)   (* Process of a Gateable event *)
  | NonGateable                                                      (* Process of any other event *)
  | FlushAll
  | Close
  | Other.                                                           (* any other exported method: Reopen, Type, Now — no-ops for the gate *)

Definition step (E : env) (s : gst) (o : op) : gst * res :=
  match o with
  | NonGateable => (s, RPass)
  | Proc id flush n rd tadd =>
      if N.eqb id 0 then (s, RErr) else
      let '(s1, r1) := astep E s (AExpire rd) in
      if is_err r1 then (s1, RErr) else astep E s1 (AAdd id flush n tadd)
  | FlushAll | Close => astep E s AFlushAll
  | Other => (s, RNil)
  end.

Definition s0 : gst := {| groups := []; out := {| olog := []; osend := 0%N |}; accepted := [] |}.
Definition run (E : env) (ops : list op) : gst := fold_left (fun s o => fst (step E s o)) ops s0.
Definition arun (E : env) (l : list atom) : gst := fold_left (fun s a => fst (astep E s a)) l s0.

(* the atoms of a sequential history: Process = expire, then (unless it failed) add *)
Definition op_atoms (E : env) (s : gst) (o : op) : list atom :=
  match o with
  | NonGateable => []
  | Proc id flush n rd tadd =>
      if N.eqb id 0 then [] else
      if is_err (snd (astep E s (AExpire rd))) then [AExpire rd] else [AExpire rd; AAdd id flush n tadd]
  | FlushAll | Close => [AFlushAll]
  | Other => []
  end.
Fixpoint atoms_of (E : env) (s : gst) (ops : list op) : list atom :=
  match ops with
  | [] => []
  | o :: t => op_atoms E s o ++ atoms_of E (fst (step E s o)) t
  end.

(* ---------- projections of the history ---------- *)
Definition all_of (gs : list grp) : list ev := concat (map gevs gs).

Fixpoint arrivals (l : list entry) : list ev :=          (* newest first *)
  match l with [] => [] | LArr e :: t => e :: arrivals t | LOut _ _ _ :: t => arrivals t end.
Fixpoint emitted (l : list entry) : list ev :=
  match l with [] => [] | LArr _ :: t => emitted t | LOut _ _ evs :: t => evs ++ emitted t end.

(* events of [id] that arrived since the last time a group of [id] left the gate, in arrival order *)
Fixpoint pending (id : N) (l : list entry) : list ev :=
  match l with
  | [] => []
  | LArr e :: t => if N.eqb (eid e) id then pending id t ++ [e] else pending id t
  | LOut _ i _ :: t => if N.eqb i id then [] else pending id t
  end.

(* every composite ever built consists of exactly the events of its id that arrived since that id's group
   was opened (= since the previous group of the id left the gate), in arrival order *)
Fixpoint log_ok (l : list entry) : Prop :=
  match l with
  | [] => True
  | LArr _ :: t => log_ok t
  | LOut _ id evs :: t => evs = pending id t /\ log_ok t
  end.

(* everything the filter ever took in is in exactly one of: a group that left the gate, the gate *)
Definition everywhere (s : gst) : list ev := emitted (log s) ++ all_of (groups s).

(* the destinations the statement of C11 permits *)
Definition permitted (E : env) (d : dest) (evs : list ev) : Prop :=
  match d with
  | DReturned => compose E evs <> CFail
  | DSent => broker_set E = true /\ compose E evs = COk
  | DNoBroker | DFlushDrop => broker_set E = false
  | DCompose => compose E evs = CFail
  | DGateable => compose E evs = CGateable
  | DSendErr => broker_set E = true /\ compose E evs = COk
  end.

(* ---------- gated part of C12: lock events of one call, with the re-entrant Process of every composite sent ---------- *)
Inductive lk := Acq | Rel.

(* what Process does with the filter's mutex when it is handed the composite as a new event: a non-Gateable payload
   returns before the first Lock *)
Definition reenter (c : cres) : list lk := match c with CGateable => [Acq; Rel] | _ => [] end.

(* the Send calls made while the entries [l] (newest first) were produced, oldest first, with the class of payload *)
Fixpoint sends_of (E : env) (l : list entry) : list cres :=
  match l with
  | [] => []
  | LOut (DSent | DSendErr) _ evs :: t => sends_of E t ++ [compose E evs]
  | _ :: t => sends_of E t
  end.

Definition produced (s s' : gst) : list entry := firstn (length (log s') - length (log s)) (log s').

(* a critical section is Acq … Rel; the Sends happen inside it, each re-entering Process on the same filter *)
Definition section_trace (E : env) (s s' : gst) : list lk := Acq :: flat_map reenter (sends_of E (produced s s')) ++ [Rel].

Definition lock_trace (E : env) (s : gst) (o : op) : list lk :=
  match o with
  | NonGateable => []
  | Proc id flush n rd tadd =>
      if N.eqb id 0 then [] else
      let s1 := fst (astep E s (AExpire rd)) in
      [Acq; Rel] ++ section_trace E s s1 ++
      (if is_err (snd (astep E s (AExpire rd))) then [] else section_trace E s1 (fst (astep E s1 (AAdd id flush n tadd))))
  | FlushAll | Close => section_trace E s (fst (astep E s AFlushAll))
  | Other => []
  end.

(* the (non-reentrant) mutex is never acquired while held, and is released at the end *)
Fixpoint lock_safe (held : bool) (t : list lk) : bool :=
  match t with
  | [] => negb held
  | Acq :: r => if held then false else lock_safe true r
  | Rel :: r => if held then lock_safe false r else false
  end.
