(* GatedExamples.v — concrete histories showing that the hypotheses of the C11 / C17 theorems are met by non-trivial states. *)
From Coq Require Import List Bool NArith ZArith.
From Verif Require Import Gated GatedProofs.
Import ListNotations.
Open Scope Z_scope.

Definition E_ok : env := {| broker_set := true; expiration_cfg := 10; compose := fun _ => COk; send_fails := fun _ => false |}.
Definition E_nobroker : env := {| broker_set := false; expiration_cfg := 10; compose := fun _ => COk; send_fails := fun _ => false |}.
(* ComposeFrom fails for groups of two events, the second Send fails *)
Definition E_faulty : env :=
  {| broker_set := true; expiration_cfg := 10; compose := fun evs => if Nat.eqb (length evs) 2 then CFail else COk;
     send_fails := fun k => N.eqb k 1 |}.

Definition at_ (t : Z) (id : N) (flush : bool) (n : N) : op := Proc id flush n (fun _ => t) t.

(* ids 1,2,3 open groups at 1000,1001,1002; id 1 gets a second event and is flushed; at 1012 group 2 has expired (1011 < 1012),
   group 3 has not (1012 = 1012); a non-Gateable event and an event without id in between *)
Definition h1 : list op :=
  [at_ 1000 1 false 1; at_ 1001 2 false 2; at_ 1002 3 false 3; NonGateable; at_ 1002 1 false 4; at_ 1003 0 false 5;
   at_ 1003 1 true 6; at_ 1012 2 false 7].

Example h1_state :
  groups (run E_ok h1) = [ {| gid := 3; gevs := [{| eid := 3; en := 3 |}]; gexp := 1012 |};
                           {| gid := 2; gevs := [{| eid := 2; en := 7 |}]; gexp := 1022 |} ] /\
  log (run E_ok h1) =
    [ LArr {| eid := 2; en := 7 |};
      LOut DSent 2 [{| eid := 2; en := 2 |}];
      LOut DReturned 1 [{| eid := 1; en := 1 |}; {| eid := 1; en := 4 |}; {| eid := 1; en := 6 |}];
      LArr {| eid := 1; en := 6 |}; LArr {| eid := 1; en := 4 |}; LArr {| eid := 3; en := 3 |}; LArr {| eid := 2; en := 2 |};
      LArr {| eid := 1; en := 1 |} ] /\
  accepted (run E_ok h1) = [ {| eid := 1; en := 1 |}; {| eid := 2; en := 2 |}; {| eid := 3; en := 3 |}; {| eid := 1; en := 4 |};
                             {| eid := 1; en := 6 |}; {| eid := 2; en := 7 |} ].
Proof. repeat split. Qed.

Fixpoint nodupb (l : list ev) : bool := match l with [] => true | x :: t => negb (existsb (ev_eqb x) t) && nodupb t end.
Lemma ev_eqb_eq a b : ev_eqb a b = true -> a = b.
Proof.
  destruct a as [i n], b as [j m]. unfold ev_eqb. cbn [eid en]. intros H. apply andb_prop in H as [H1 H2].
  apply N.eqb_eq in H1, H2. subst. reflexivity.
Qed.
Lemma nodupb_sound l : nodupb l = true -> NoDup l.
Proof.
  induction l as [|x t IH]; cbn [nodupb]; intros H; [constructor|]. apply andb_prop in H as [H1 H2]. constructor; [|apply IH, H2].
  intros Hin. apply negb_true_iff in H1. assert (Hx : existsb (ev_eqb x) t = true); [|congruence].
  apply existsb_exists. exists x. split; [exact Hin|]. destruct x. unfold ev_eqb. cbn. rewrite !N.eqb_refl. reflexivity.
Qed.

(* C11: distinct events, some accepted, some already composed (returned / sent through the Broker), some still gated *)
Example c11_inhabited :
  NoDup (procs h1) /\ In {| eid := 1; en := 4 |} (accepted (run E_ok h1)) /\
  In (LOut DSent 2 [{| eid := 2; en := 2 |}]) (log (run E_ok h1)) /\ length (groups (run E_ok h1)) = 2%nat.
Proof.
  split; [apply nodupb_sound; vm_compute; reflexivity|]. split; [vm_compute; tauto|]. split; [vm_compute; tauto|reflexivity].
Qed.

(* a history in which composition and sending fail: groups are discarded for the permitted reasons *)
Definition h2 : list op :=
  [at_ 1000 1 false 1; at_ 1000 2 false 2; at_ 1001 3 false 3; at_ 1001 1 true 4; at_ 1002 3 false 5; FlushAll; at_ 1003 2 false 6; Close].
Example h2_log :
  map (fun x => match x with LOut d id evs => Some (d, id, map en evs) | LArr _ => None end) (log (run E_faulty h2)) =
  [ Some (DSendErr, 2%N, [6%N]); None; Some (DCompose, 3%N, [3%N; 5%N]); Some (DSent, 2%N, [2%N]); None;
    Some (DCompose, 1%N, [1%N; 4%N]); None; None; None; None ].
Proof. reflexivity. Qed.

(* C17: three open groups, two of them expired at the time of the next Process, which succeeds *)
Definition three : gst := run E_ok [at_ 1000 1 false 1; at_ 1001 2 false 2; at_ 1005 3 false 3].
Example c17_inhabited :
  length (groups three) = 3%nat /\
  snd (step E_ok three (at_ 1012 3 false 4)) = RWithheld /\
  map gid (groups (fst (step E_ok three (at_ 1012 3 false 4)))) = [3%N] /\
  snd (step E_ok three FlushAll) = RNil /\ snd (step E_nobroker (run E_nobroker [at_ 1000 1 false 1; at_ 1001 2 false 2]) Close) = RNil.
Proof. repeat split. Qed.

(* a gate whose list order is NOT its expiry order (Filter.Expiration was shortened between the two openings, or the clock stepped
   back): group 1 arrived first and expires at 1010, group 2 arrived second and expires at 1005.  At 1007 the sweep must step over
   the unexpired group 1 and still emit group 2. *)
Definition unordered : gst :=
  {| groups := [ {| gid := 1; gevs := [{| eid := 1; en := 1 |}]; gexp := 1010 |}; {| gid := 2; gevs := [{| eid := 2; en := 2 |}]; gexp := 1005 |} ];
     out := {| olog := [LArr {| eid := 2; en := 2 |}; LArr {| eid := 1; en := 1 |}]; osend := 0 |};
     accepted := [{| eid := 1; en := 1 |}; {| eid := 2; en := 2 |}] |}.
Example unordered_sweep :
  snd (step E_ok unordered (at_ 1007 3 false 3)) = RWithheld /\
  map gid (groups (fst (step E_ok unordered (at_ 1007 3 false 3)))) = [1%N; 3%N] /\
  hd (LArr {| eid := 0; en := 0 |}) (tl (log (fst (step E_ok unordered (at_ 1007 3 false 3))))) = LOut DSent 2 [{| eid := 2; en := 2 |}].
Proof. repeat split. Qed.
