(* GatedProofs.v — theorems about the gated.Filter model (Gated.v), for every history of atomic steps (hence every
   interleaving of concurrent Process calls), every fault oracle and every sequence of clock readings.
   C11: accounting / exactly_once, group_integrity, dests_permitted, non_gateable_identity, empty_id_rejected,
        broker_composites_not_gateable.   C17: expire_success, expired_gone, flushall_empties, memory_bound.
   C12 (gated part): gated_reentry_terminates. *)
From Coq Require Import List Bool Arith NArith ZArith Lia Permutation Sorted.
From Verif Require Import Gated.
Import ListNotations.
Open Scope Z_scope.

Definition ev_eq_dec (a b : ev) : {a = b} + {a <> b}.
Proof. decide equality; apply N.eq_dec. Defined.
Definition cnt (x : ev) (l : list ev) : nat := count_occ ev_eq_dec l x.

Lemma cnt_app x a b : cnt x (a ++ b) = (cnt x a + cnt x b)%nat.
Proof. apply count_occ_app. Qed.
Lemma cnt_cons x e l : cnt x (e :: l) = (cnt x [e] + cnt x l)%nat.
Proof. apply (cnt_app x [e] l). Qed.
Lemma all_of_cons g t : all_of (g :: t) = gevs g ++ all_of t.
Proof. reflexivity. Qed.

(* ================= the shape of what a step does to the history ================= *)

(* openGate pushes exactly one entry for the group, with a permitted destination *)
Definition gate_dest (E : env) (o : outs) (g : grp) : dest :=
  match compose E (gevs g) with
  | CFail => DCompose
  | CGateable => DGateable
  | COk => if broker_set E then (if send_fails E (osend o) then DSendErr else DSent) else DNoBroker
  end.

Lemma open_gate_olog E o g : olog (fst (open_gate E o g)) = LOut (gate_dest E o g) (gid g) (gevs g) :: olog o.
Proof.
  unfold open_gate, gate_dest. destruct (compose E (gevs g)); try reflexivity.
  destruct (broker_set E); [destruct (send_fails E (osend o))|]; reflexivity.
Qed.

Lemma gate_dest_permitted E o g : permitted E (gate_dest E o g) (gevs g).
Proof.
  unfold gate_dest. destruct (compose E (gevs g)) eqn:Ec; cbn; try exact Ec.
  destruct (broker_set E) eqn:Eb; [destruct (send_fails E (osend o))|]; cbn; auto.
Qed.

Lemma open_gate_ok_dest E o g : snd (open_gate E o g) = true ->
  gate_dest E o g = (if broker_set E then DSent else DNoBroker) /\
  osend (fst (open_gate E o g)) = (if broker_set E then N.succ (osend o) else osend o).
Proof.
  unfold open_gate, gate_dest. destruct (compose E (gevs g)); cbn; try discriminate.
  destruct (broker_set E); [destruct (send_fails E (osend o)); cbn; [discriminate|]|]; auto.
Qed.

(* ================= C11: accounting ================= *)

Definition ocnt (x : ev) (o : outs) : nat := cnt x (emitted (olog o)).

Lemma open_gate_cnt E o g x : ocnt x (fst (open_gate E o g)) = (ocnt x o + cnt x (gevs g))%nat.
Proof. unfold ocnt. rewrite open_gate_olog. cbn [emitted]. rewrite cnt_app. lia. Qed.
Lemma open_gate_arrivals E o g : arrivals (olog (fst (open_gate E o g))) = arrivals (olog o).
Proof. rewrite open_gate_olog. reflexivity. Qed.

Lemma walk_cnt E x gs : forall sel o,
  let '(k, o', _) := walk E sel o gs in
  (ocnt x o' + cnt x (all_of k) = ocnt x o + cnt x (all_of gs))%nat /\ arrivals (olog o') = arrivals (olog o).
Proof.
  induction gs as [|g t IH]; intros sel o; cbn [walk]; [split; [lia|reflexivity]|].
  destruct (sel O g).
  - pose proof (open_gate_cnt E o g x) as Hg. pose proof (open_gate_arrivals E o g) as Ha.
    destruct (open_gate E o g) as [o1 ok]. cbn [fst] in Hg, Ha. destruct ok.
    + specialize (IH (fun i => sel (S i)) o1). destruct (walk E (fun i => sel (S i)) o1 t) as [[k o'] ok'].
      destruct IH as [IH1 IH2]. rewrite all_of_cons, cnt_app. split; [lia|congruence].
    + rewrite all_of_cons, cnt_app. split; [lia|exact Ha].
  - specialize (IH (fun i => sel (S i)) o). destruct (walk E (fun i => sel (S i)) o t) as [[k o'] ok'].
    destruct IH as [IH1 IH2]. rewrite !all_of_cons, !cnt_app. split; [lia|exact IH2].
Qed.

Lemma drop_all_cnt x gs : forall o,
  ocnt x (drop_all o gs) = (ocnt x o + cnt x (all_of gs))%nat /\ arrivals (olog (drop_all o gs)) = arrivals (olog o).
Proof.
  induction gs as [|g t IH]; intros o; cbn [drop_all]; [split; [cbn; lia|reflexivity]|].
  destruct (IH (push o DFlushDrop g false)) as [IH1 IH2]. rewrite IH1, IH2. unfold ocnt, push. cbn [olog emitted arrivals].
  rewrite all_of_cons, !cnt_app. split; [lia|reflexivity].
Qed.

Lemma add_ev_cnt x e ex gs : cnt x (all_of (add_ev e ex gs)) = (cnt x (all_of gs) + cnt x [e])%nat.
Proof.
  induction gs as [|g t IH]; cbn [add_ev]; [reflexivity|].
  destruct (N.eqb (gid g) (eid e)).
  - rewrite !all_of_cons. cbn [gevs]. rewrite !cnt_app. lia.
  - rewrite !all_of_cons, !cnt_app, IH. lia.
Qed.

Lemma take_group_cnt x id gs :
  let '(r, k) := take_group id gs in
  cnt x (all_of gs) = (match r with Some g => cnt x (gevs g) | None => 0 end + cnt x (all_of k))%nat.
Proof.
  induction gs as [|g t IH]; cbn [take_group]; [reflexivity|].
  destruct (N.eqb (gid g) id).
  - rewrite all_of_cons, cnt_app. reflexivity.
  - destruct (take_group id t) as [r k]. rewrite !all_of_cons, !cnt_app, IH. lia.
Qed.

(* the event just added is found again: the [None] branch of AAdd is unreachable *)
Lemma take_group_add_ev e ex gs : exists g rest, take_group (eid e) (add_ev e ex gs) = (Some g, rest).
Proof.
  induction gs as [|g t IH]; cbn [add_ev take_group].
  - cbn [gid]. rewrite N.eqb_refl. eauto.
  - destruct (N.eqb (gid g) (eid e)) eqn:Eg; cbn [take_group gid]; rewrite Eg; [eauto|].
    destruct IH as [g1 [rest H]]. rewrite H. eauto.
Qed.

Definition ecnt (x : ev) (s : gst) : nat := (ocnt x (out s) + cnt x (all_of (groups s)))%nat.
Lemma ecnt_everywhere x s : cnt x (everywhere s) = ecnt x s.
Proof. unfold everywhere, ecnt, ocnt, log. rewrite cnt_app. reflexivity. Qed.

Definition seen (s : gst) : list ev := arrivals (log s).

Lemma astep_accounting E s a x : ecnt x s = cnt x (seen s) -> ecnt x (fst (astep E s a)) = cnt x (seen (fst (astep E s a))).
Proof.
  intros H. unfold seen, log in *. destruct a as [rd|id flush n tadd|]; cbn [astep].
  - unfold expire_list. pose proof (walk_cnt E x (groups s) (expired rd) (out s)) as Hw.
    destruct (walk E (expired rd) (out s) (groups s)) as [[k o'] ok]. destruct Hw as [H1 H2].
    cbn [fst]. unfold with_out. unfold ecnt in *. cbn [out groups]. rewrite H2. lia.
  - destruct (N.eqb id 0); [exact H|].
    set (e := {| eid := id; en := n |}).
    pose proof (add_ev_cnt x e (tadd + expiration E) (groups s)) as Ha.
    destruct flush.
    + pose proof (take_group_cnt x id (add_ev e (tadd + expiration E) (groups s))) as Ht.
      destruct (take_group id (add_ev e (tadd + expiration E) (groups s))) as [[g|] rest]; [|exact H].
      destruct (compose E (gevs g)); cbn [fst]; unfold ecnt, ocnt, push, log in *; cbn [out groups olog emitted arrivals];
        rewrite (cnt_cons x e), ?cnt_app; lia.
    + cbn [fst]. unfold ecnt, ocnt, log in *. cbn [out groups olog emitted arrivals]. rewrite (cnt_cons x e). lia.
  - destruct (groups s) as [|g t] eqn:Eg; [exact H|]. rewrite <- Eg in *.
    destruct (broker_set E).
    + unfold flush_list. pose proof (walk_cnt E x (groups s) (fun _ _ => true) (out s)) as Hw.
      destruct (walk E (fun _ _ => true) (out s) (groups s)) as [[k o'] ok]. destruct Hw as [H1 H2].
      cbn [fst]. unfold with_out. unfold ecnt in *. cbn [out groups]. rewrite H2. lia.
    + cbn [fst]. unfold with_out. destruct (drop_all_cnt x (groups s) (out s)) as [H1 H2].
      unfold ecnt in *. cbn [out groups]. rewrite H1, H2. cbn [all_of map concat cnt count_occ]. lia.
Qed.

Lemma fold_inv {A B} (f : A -> B -> A) (P : A -> Prop) : (forall a b, P a -> P (f a b)) -> forall l a, P a -> P (fold_left f l a).
Proof. intros Hs l. induction l as [|b t IH]; intros a Ha; cbn [fold_left]; [exact Ha|]. apply IH, Hs, Ha. Qed.

(* everything the filter took in is, after every history of atomic steps, in exactly one place (as multisets) *)
Theorem accounting E l x : cnt x (everywhere (arun E l)) = cnt x (seen (arun E l)).
Proof.
  rewrite ecnt_everywhere. unfold arun.
  apply (fold_inv (fun s a => fst (astep E s a)) (fun s => ecnt x s = cnt x (seen s))); [|reflexivity].
  intros s a H. apply astep_accounting, H.
Qed.

Theorem accounting_perm E l : Permutation (everywhere (arun E l)) (seen (arun E l)).
Proof. apply (Permutation_count_occ ev_eq_dec). intros x. apply accounting. Qed.

(* ---------- what arrived is what was handed to Process ---------- *)
Fixpoint adds (l : list atom) : list ev :=
  match l with
  | [] => []
  | AAdd id _ n _ :: t => if N.eqb id 0 then adds t else {| eid := id; en := n |} :: adds t
  | _ :: t => adds t
  end.

Lemma walk_arrivals E gs sel o : arrivals (olog (snd (fst (walk E sel o gs)))) = arrivals (olog o).
Proof. pose proof (walk_cnt E {| eid := 0; en := 0 |} gs sel o) as H. destruct (walk E sel o gs) as [[k o'] ok]. apply H. Qed.

Lemma astep_seen E s a :
  seen (fst (astep E s a)) = match a with AAdd id _ n _ => if N.eqb id 0 then seen s else {| eid := id; en := n |} :: seen s | _ => seen s end.
Proof.
  unfold seen, log. destruct a as [rd|id flush n tadd|]; cbn [astep].
  - unfold expire_list. pose proof (walk_arrivals E (groups s) (expired rd) (out s)) as H.
    destruct (walk E (expired rd) (out s) (groups s)) as [[k o'] ok]. exact H.
  - destruct (N.eqb id 0); [reflexivity|]. destruct flush; [|reflexivity].
    destruct (take_group_add_ev {| eid := id; en := n |} (tadd + expiration E) (groups s)) as [g [rest H]]. cbn [eid] in H. rewrite H.
    destruct (compose E (gevs g)); reflexivity.
  - destruct (groups s) as [|g t] eqn:Eg; [reflexivity|]. destruct (broker_set E).
    + unfold flush_list. pose proof (walk_arrivals E (g :: t) (fun _ _ => true) (out s)) as H.
      destruct (walk E (fun _ _ => true) (out s) (g :: t)) as [[k o'] ok]. exact H.
    + cbn [fst]; unfold with_out; cbn [out]. apply drop_all_cnt. exact {| eid := 0; en := 0 |}.
Qed.

Lemma seen_fold E l : forall s, seen (fold_left (fun s a => fst (astep E s a)) l s) = rev (adds l) ++ seen s.
Proof.
  induction l as [|a t IH]; intros s; cbn [fold_left adds]; [reflexivity|].
  rewrite IH, astep_seen. destruct a as [rd|id flush n tadd|]; try reflexivity.
  destruct (N.eqb id 0); [reflexivity|]. cbn [rev]. rewrite <- app_assoc. reflexivity.
Qed.
Lemma seen_arun E l : seen (arun E l) = rev (adds l).
Proof. unfold arun. rewrite seen_fold. cbn. apply app_nil_r. Qed.

Lemma walk_accepted_frame E s a : incl (accepted s) (seen s) -> incl (accepted (fst (astep E s a))) (seen (fst (astep E s a))).
Proof.
  intros H. rewrite astep_seen. destruct a as [rd|id flush n tadd|]; cbn [astep].
  - unfold expire_list. destruct (walk E (expired rd) (out s) (groups s)) as [[k o'] ok]. exact H.
  - destruct (N.eqb id 0); [exact H|].
    assert (H2 : incl (accepted s ++ [{| eid := id; en := n |}]) ({| eid := id; en := n |} :: seen s)).
    { intros x Hx. apply in_app_or in Hx as [Hx|[<-|[]]]; [right; apply H, Hx|left; reflexivity]. }
    assert (H1 : incl (accepted s) ({| eid := id; en := n |} :: seen s)) by (intros x Hx; right; apply H, Hx).
    destruct flush; [|exact H2].
    destruct (take_group id (add_ev {| eid := id; en := n |} (tadd + expiration E) (groups s))) as [[g|] rest]; [|exact H1].
    destruct (compose E (gevs g)); cbn [fst accepted]; assumption.
  - destruct (groups s) as [|g t]; [exact H|]. destruct (broker_set E).
    + unfold flush_list. destruct (walk E (fun _ _ => true) (out s) (g :: t)) as [[k o'] ok]. exact H.
    + exact H.
Qed.

Lemma accepted_seen E l : incl (accepted (arun E l)) (seen (arun E l)).
Proof.
  unfold arun. apply (fold_inv (fun s a => fst (astep E s a)) (fun s => incl (accepted s) (seen s))).
  - intros s a H. apply walk_accepted_frame, H.
  - intros x [].
Qed.

(* C11 exactly_once: when the events handed to Process are pairwise distinct, every accepted event is, at every moment of
   every history and interleaving, in exactly one place: one composite that left the gate (returned, sent through the
   Broker, or discarded for a permitted reason — see dests_permitted) or the gate itself; never in two. *)
Theorem exactly_once E l e : NoDup (adds l) -> In e (accepted (arun E l)) -> cnt e (everywhere (arun E l)) = 1%nat.
Proof.
  intros Hnd Hin. rewrite accounting. unfold cnt. apply NoDup_count_occ'.
  - rewrite seen_arun. apply NoDup_rev, Hnd.
  - apply accepted_seen, Hin.
Qed.

(* nothing the filter never took in is anywhere, and nothing is anywhere twice *)
Theorem at_most_once E l x : NoDup (adds l) -> (cnt x (everywhere (arun E l)) <= 1)%nat.
Proof.
  intros Hnd. rewrite accounting, seen_arun. unfold cnt.
  pose proof (NoDup_rev Hnd) as H. rewrite (NoDup_count_occ ev_eq_dec) in H. apply H.
Qed.

(* ================= C11: group integrity ================= *)

Fixpoint gated_of (id : N) (gs : list grp) : list ev :=
  match gs with [] => [] | g :: t => if N.eqb (gid g) id then gevs g else gated_of id t end.

Definition inv (s : gst) : Prop :=
  NoDup (map gid (groups s)) /\ (forall id, pending id (log s) = gated_of id (groups s)) /\ log_ok (log s).

Lemma gated_of_notin id gs : ~ In id (map gid gs) -> gated_of id gs = [].
Proof.
  induction gs as [|g t IH]; cbn [gated_of map]; [reflexivity|]. intros H.
  destruct (N.eqb (gid g) id) eqn:Eg; [apply N.eqb_eq in Eg; exfalso; apply H; left; exact Eg|].
  apply IH. intros Hin. apply H. right. exact Hin.
Qed.
Lemma gated_of_in g gs : NoDup (map gid gs) -> In g gs -> gated_of (gid g) gs = gevs g.
Proof.
  induction gs as [|g0 t IH]; cbn [gated_of map]; intros Hnd Hin; [contradiction|].
  inversion Hnd as [|? ? Hn Ht]; subst. destruct Hin as [->|Hin]; [rewrite N.eqb_refl; reflexivity|].
  destruct (N.eqb (gid g0) (gid g)) eqn:Eg; [|apply IH; assumption].
  apply N.eqb_eq in Eg. exfalso. apply Hn. rewrite Eg. apply in_map, Hin.
Qed.

(* the walk: each opened group is logged with exactly its pending events; what remains is still described by the log *)
Lemma walk_inv E gs : forall sel o k o' ok, walk E sel o gs = (k, o', ok) ->
  NoDup (map gid gs) -> (forall g, In g gs -> pending (gid g) (olog o) = gevs g) -> log_ok (olog o) ->
  log_ok (olog o') /\ incl k gs /\ NoDup (map gid k) /\
  (forall g, In g k -> pending (gid g) (olog o') = gevs g) /\
  (forall id, In id (map gid gs) -> ~ In id (map gid k) -> pending id (olog o') = []) /\
  (forall id, ~ In id (map gid gs) -> pending id (olog o') = pending id (olog o)).
Proof.
  induction gs as [|g t IH]; intros sel o k o' ok H Hnd Hp Hl; cbn [walk] in H.
  - injection H as <- <- <-. repeat split; auto using incl_nil_l, NoDup_nil. intros ? [].
  - cbn [map] in Hnd. inversion Hnd as [|? ? Hn Ht]; subst.
    assert (Hneq : forall g', In g' t -> N.eqb (gid g) (gid g') = false).
    { intros g' Hin. apply N.eqb_neq. intros Heq. apply Hn. rewrite Heq. apply in_map, Hin. }
    destruct (sel O g).
    + pose proof (open_gate_olog E o g) as Ho. destruct (open_gate E o g) as [o1 ok1]. cbn [fst] in Ho.
      assert (Hl1 : log_ok (olog o1)).
      { rewrite Ho. cbn [log_ok]. split; [symmetry; apply Hp; left; reflexivity|exact Hl]. }
      assert (Hp1 : forall g', In g' t -> pending (gid g') (olog o1) = gevs g').
      { intros g' Hin. rewrite Ho. cbn [pending]. rewrite (Hneq g' Hin). apply Hp. right. exact Hin. }
      assert (Hg1 : pending (gid g) (olog o1) = []) by (rewrite Ho; cbn [pending]; rewrite N.eqb_refl; reflexivity).
      assert (Hf1 : forall id, ~ In id (map gid (g :: t)) -> pending id (olog o1) = pending id (olog o)).
      { intros id Hnin. rewrite Ho. cbn [pending]. destruct (N.eqb (gid g) id) eqn:Eg; [|reflexivity].
        apply N.eqb_eq in Eg. exfalso. apply Hnin. left. exact Eg. }
      destruct ok1.
      * destruct (IH _ _ _ _ _ H Ht Hp1 Hl1) as [I1 [I2 [I3 [I4 [I5 I6]]]]].
        split; [exact I1|]. split; [apply incl_tl, I2|]. split; [exact I3|]. split; [exact I4|]. split.
        -- intros id Hin Hnk. destruct Hin as [<-|Hin]; [rewrite (I6 _ Hn); exact Hg1|apply I5; assumption].
        -- intros id Hnin. rewrite I6; [apply Hf1, Hnin|]. intros Hin. apply Hnin. right. exact Hin.
      * injection H as <- <- <-.
        split; [exact Hl1|]. split; [apply incl_tl, incl_refl|]. split; [exact Ht|]. split; [exact Hp1|]. split.
        -- intros id Hin Hnk. destruct Hin as [<-|Hin]; [exact Hg1|contradiction].
        -- exact Hf1.
    + destruct (walk E (fun i => sel (S i)) o t) as [[k1 o1] ok1] eqn:Ew. injection H as <- <- <-.
      assert (Hp1 : forall g', In g' t -> pending (gid g') (olog o) = gevs g') by (intros g' Hin; apply Hp; right; exact Hin).
      destruct (IH _ _ _ _ _ Ew Ht Hp1 Hl) as [I1 [I2 [I3 [I4 [I5 I6]]]]].
      assert (Hnk : ~ In (gid g) (map gid k1)).
      { intros Hin. apply in_map_iff in Hin as [g' [Hg' Hin]]. apply I2 in Hin. pose proof (Hneq g' Hin) as Hx.
        rewrite Hg', N.eqb_refl in Hx. discriminate. }
      split; [exact I1|]. split; [intros x [<-|Hx]; [left; reflexivity|right; apply I2, Hx]|].
      split; [cbn [map]; constructor; assumption|]. split.
      * intros g' [<-|Hin]; [rewrite (I6 _ Hn); apply Hp; left; reflexivity|apply I4, Hin].
      * split.
        -- intros id Hin Hni. cbn [map] in Hni. destruct Hin as [<-|Hin]; [exfalso; apply Hni; left; reflexivity|].
           apply I5; [exact Hin|]. intros Hx. apply Hni. right. exact Hx.
        -- intros id Hnin. apply I6. intros Hin. apply Hnin. right. exact Hin.
Qed.

Lemma walk_inv_state E sel s k o' ok : inv s -> walk E sel (out s) (groups s) = (k, o', ok) -> inv (with_out s k o').
Proof.
  intros [Hnd [Hp Hl]] Hw. unfold log in *.
  assert (Hp0 : forall g, In g (groups s) -> pending (gid g) (olog (out s)) = gevs g).
  { intros g Hin. rewrite Hp. apply gated_of_in; assumption. }
  destruct (walk_inv E _ _ _ _ _ _ Hw Hnd Hp0 Hl) as [I1 [I2 [I3 [I4 [I5 I6]]]]].
  unfold inv, log. unfold with_out; cbn [groups out]. split; [exact I3|]. split; [|exact I1].
  intros id. destruct (in_dec N.eq_dec id (map gid k)) as [Hin|Hnin].
  - apply in_map_iff in Hin as [g [<- Hin]]. rewrite (gated_of_in g k I3 Hin). apply I4, Hin.
  - rewrite (gated_of_notin id k Hnin). destruct (in_dec N.eq_dec id (map gid (groups s))) as [Hin|Hnin2].
    + apply I5; assumption.
    + rewrite I6, Hp; [apply gated_of_notin|]; assumption.
Qed.

Lemma drop_all_inv gs : forall o, NoDup (map gid gs) -> (forall g, In g gs -> pending (gid g) (olog o) = gevs g) -> log_ok (olog o) ->
  log_ok (olog (drop_all o gs)) /\ (forall id, In id (map gid gs) -> pending id (olog (drop_all o gs)) = []) /\
  (forall id, ~ In id (map gid gs) -> pending id (olog (drop_all o gs)) = pending id (olog o)).
Proof.
  induction gs as [|g t IH]; intros o Hnd Hp Hl; cbn [drop_all]; [repeat split; auto; intros ? []|].
  cbn [map] in Hnd. inversion Hnd as [|? ? Hn Ht]; subst.
  assert (Hneq : forall g', In g' t -> N.eqb (gid g) (gid g') = false).
  { intros g' Hin. apply N.eqb_neq. intros Heq. apply Hn. rewrite Heq. apply in_map, Hin. }
  destruct (IH (push o DFlushDrop g false) Ht) as [I1 [I2 I3]].
  - intros g' Hin. cbn [push olog pending]. rewrite (Hneq g' Hin). apply Hp. right. exact Hin.
  - cbn [push olog log_ok]. split; [symmetry; apply Hp; left; reflexivity|exact Hl].
  - split; [exact I1|]. split.
    + intros id [<-|Hin]; [rewrite (I3 _ Hn); cbn [push olog pending]; rewrite N.eqb_refl; reflexivity|apply I2, Hin].
    + intros id Hnin. rewrite I3; [|intros Hin; apply Hnin; right; exact Hin].
      cbn [push olog pending]. destruct (N.eqb (gid g) id) eqn:Eg; [|reflexivity].
      apply N.eqb_eq in Eg. exfalso. apply Hnin. left. exact Eg.
Qed.

Lemma gated_of_add_ev e ex gs id :
  gated_of id (add_ev e ex gs) = if N.eqb (eid e) id then gated_of id gs ++ [e] else gated_of id gs.
Proof.
  induction gs as [|g t IH]; cbn [add_ev gated_of gid gevs].
  - destruct (N.eqb (eid e) id); reflexivity.
  - destruct (N.eqb (gid g) (eid e)) eqn:Eg; cbn [gated_of gid gevs].
    + apply N.eqb_eq in Eg. rewrite Eg. destruct (N.eqb (eid e) id); reflexivity.
    + destruct (N.eqb (gid g) id) eqn:Egi; [|exact IH].
      apply N.eqb_eq in Egi. subst id. rewrite N.eqb_sym, Eg. reflexivity.
Qed.

Lemma map_gid_add_ev e ex gs :
  map gid (add_ev e ex gs) = if in_dec N.eq_dec (eid e) (map gid gs) then map gid gs else map gid gs ++ [eid e].
Proof.
  induction gs as [|g t IH]; cbn [add_ev map gid]; [reflexivity|].
  destruct (N.eqb (gid g) (eid e)) eqn:Eg; cbn [map gid].
  - apply N.eqb_eq in Eg. destruct (in_dec N.eq_dec (eid e) (gid g :: map gid t)) as [_|Hn]; [reflexivity|].
    exfalso. apply Hn. left. exact Eg.
  - apply N.eqb_neq in Eg. rewrite IH. destruct (in_dec N.eq_dec (eid e) (map gid t)) as [Hi|Hn];
      destruct (in_dec N.eq_dec (eid e) (gid g :: map gid t)) as [Hi2|Hn2]; try reflexivity.
    + exfalso. apply Hn2. right. exact Hi.
    + destruct Hi2 as [Hx|Hx]; [contradiction|contradiction].
Qed.

Lemma NoDup_snoc {A} (l : list A) x : NoDup l -> ~ In x l -> NoDup (l ++ [x]).
Proof.
  induction l as [|y t IH]; cbn; intros Hd Hn; [constructor; [intros []|constructor]|].
  inversion Hd as [|? ? Hy Ht]; subst. constructor.
  - intros Hin. apply in_app_or in Hin as [Hin|[<-|[]]]; [contradiction|apply Hn; left; reflexivity].
  - apply IH; [assumption|]. intros Hin. apply Hn. right. exact Hin.
Qed.

Lemma add_ev_nodup e ex gs : NoDup (map gid gs) -> NoDup (map gid (add_ev e ex gs)).
Proof.
  intros H. rewrite map_gid_add_ev. destruct (in_dec N.eq_dec (eid e) (map gid gs)); [exact H|apply NoDup_snoc; assumption].
Qed.

Lemma take_group_in id gs g : In g (snd (take_group id gs)) -> In g gs.
Proof.
  induction gs as [|g0 t IH]; cbn [take_group]; [tauto|].
  destruct (N.eqb (gid g0) id); cbn [snd]; [intros H; right; exact H|].
  destruct (take_group id t) as [r k]. cbn [snd] in *. intros [<-|H]; [left; reflexivity|right; apply IH; exact H].
Qed.

Lemma take_group_spec id gs g rest : take_group id gs = (Some g, rest) -> NoDup (map gid gs) ->
  gid g = id /\ gevs g = gated_of id gs /\ NoDup (map gid rest) /\
  (forall id', gated_of id' rest = if N.eqb id id' then [] else gated_of id' gs).
Proof.
  revert g rest. induction gs as [|g0 t IH]; intros g rest H Hnd; cbn [take_group] in H; [discriminate|].
  cbn [map] in Hnd. inversion Hnd as [|? ? Hn Ht]; subst.
  destruct (N.eqb (gid g0) id) eqn:Eg.
  - injection H as <- <-. apply N.eqb_eq in Eg. split; [exact Eg|]. cbn [gated_of]. rewrite <- Eg, N.eqb_refl.
    split; [reflexivity|]. split; [exact Ht|]. intros id'. destruct (N.eqb (gid g0) id') eqn:E2; [|reflexivity].
    apply N.eqb_eq in E2. subst id'. apply gated_of_notin, Hn.
  - destruct (take_group id t) as [r k] eqn:Et. injection H as -> <-.
    destruct (IH _ _ eq_refl Ht) as [I1 [I2 [I3 I4]]]. split; [exact I1|]. cbn [gated_of]. rewrite Eg. split; [exact I2|]. split.
    + cbn [map]. constructor; [|exact I3]. intros Hin. apply Hn.
      apply in_map_iff in Hin as [g' [Hg' Hin]]. rewrite <- Hg'. apply in_map.
      apply (take_group_in id t). rewrite Et. exact Hin.
    + intros id'. cbn [gated_of]. destruct (N.eqb (gid g0) id') eqn:E2; [|apply I4].
      apply N.eqb_eq in E2. subst id'. rewrite N.eqb_sym, Eg. reflexivity.
Qed.

Lemma astep_inv E s a : inv s -> inv (fst (astep E s a)).
Proof.
  intros Hi. destruct a as [rd|id flush n tadd|]; cbn [astep].
  - unfold expire_list. destruct (walk E (expired rd) (out s) (groups s)) as [[k o'] ok] eqn:Ew. cbn [fst].
    eapply walk_inv_state; eauto.
  - destruct (N.eqb id 0); [exact Hi|]. destruct Hi as [Hnd [Hp Hl]].
    set (e := {| eid := id; en := n |}). set (gs' := add_ev e (tadd + expiration E) (groups s)).
    assert (Hnd' : NoDup (map gid gs')) by (apply add_ev_nodup, Hnd).
    assert (Hp' : forall i, pending i (LArr e :: log s) = gated_of i gs').
    { intros i. unfold gs'. rewrite gated_of_add_ev. cbn [pending]. rewrite Hp. reflexivity. }
    destruct flush.
    + destruct (take_group id gs') as [[g|] rest] eqn:Et; [|split; [|split]; assumption].
      destruct (take_group_spec _ _ _ _ Et Hnd') as [T1 [T2 [T3 T4]]].
      assert (Hfin : forall d acc, inv {| groups := rest; out := push {| olog := LArr e :: log s; osend := nsend s |} d g false; accepted := acc |}).
      { intros d acc. unfold inv, log. cbn [groups out push olog]. split; [exact T3|]. split.
        - intros i. cbn [pending]. rewrite T1, T4. destruct (N.eqb id i); [reflexivity|apply Hp'].
        - cbn [log_ok]. split; [rewrite T1, T2; symmetry; apply Hp'|exact Hl]. }
      destruct (compose E (gevs g)); cbn [fst]; apply Hfin.
    + cbn [fst]. unfold inv, log. cbn [groups out olog]. split; [exact Hnd'|]. split; [exact Hp'|exact Hl].
  - destruct (groups s) as [|g t] eqn:Eg; [exact Hi|]. rewrite <- Eg. destruct (broker_set E).
    + unfold flush_list. destruct (walk E (fun _ _ => true) (out s) (groups s)) as [[k o'] ok] eqn:Ew. cbn [fst].
      eapply walk_inv_state; eauto.
    + cbn [fst]. destruct Hi as [Hnd [Hp Hl]]. unfold log in *.
      assert (Hp0 : forall g, In g (groups s) -> pending (gid g) (olog (out s)) = gevs g).
      { intros g0 Hin. rewrite Hp. apply gated_of_in; assumption. }
      destruct (drop_all_inv (groups s) (out s) Hnd Hp0 Hl) as [I1 [I2 I3]].
      unfold inv, log. unfold with_out; cbn [groups out map gated_of]. split; [constructor|]. split; [|exact I1].
      intros id. destruct (in_dec N.eq_dec id (map gid (groups s))) as [Hin|Hnin]; [apply I2, Hin|].
      rewrite I3, Hp; [apply gated_of_notin|]; assumption.
Qed.

Lemma inv_arun E l : inv (arun E l).
Proof.
  unfold arun. apply (fold_inv (fun s a => fst (astep E s a)) inv).
  - intros s a. apply astep_inv.
  - split; [constructor|]. split; [reflexivity|exact I].
Qed.

(* C11 group_integrity: every composite ever built — returned, sent or discarded — consists of exactly the events of its id
   that arrived since that id's group was opened, in arrival order; and the gate holds exactly the events still pending. *)
Theorem group_integrity E l : log_ok (log (arun E l)).
Proof. apply inv_arun. Qed.

Theorem gate_is_pending E l id : gated_of id (groups (arun E l)) = pending id (log (arun E l)).
Proof. symmetry. apply inv_arun. Qed.

Theorem groups_distinct E l : NoDup (map gid (groups (arun E l))).
Proof. apply inv_arun. Qed.

(* [log_ok] unfolded: wherever a composite occurs in the history, it equals the pending events of its id at that point *)
Lemma log_ok_split l : log_ok l -> forall post d id evs pre, l = post ++ LOut d id evs :: pre -> evs = pending id pre.
Proof.
  induction l as [|x t IH]; intros H post d id evs pre Heq; [destruct post; discriminate|].
  destruct post as [|y post]; cbn in Heq.
  - injection Heq as -> ->. cbn [log_ok] in H. apply H.
  - injection Heq as -> Heq. assert (Ht : log_ok t) by (destruct y; cbn [log_ok] in H; [exact H|apply H]).
    apply (IH Ht _ _ _ _ _ Heq).
Qed.

Theorem composite_is_pending E l post d id evs pre :
  log (arun E l) = post ++ LOut d id evs :: pre -> evs = pending id pre.
Proof. apply log_ok_split, group_integrity. Qed.

(* pending events all carry the id, so composites never mix ids *)
Lemma pending_eid id l : forall e, In e (pending id l) -> eid e = id.
Proof.
  induction l as [|x t IH]; intros e Hin; cbn [pending] in Hin; [contradiction|]. destruct x as [e0|d i evs].
  - destruct (N.eqb (eid e0) id) eqn:Ee; [|apply IH, Hin].
    apply in_app_or in Hin as [Hin|[<-|[]]]; [apply IH, Hin|apply N.eqb_eq, Ee].
  - destruct (N.eqb i id); [contradiction|apply IH, Hin].
Qed.

(* ================= C11: permitted destinations ================= *)

Fixpoint dests_ok (E : env) (l : list entry) : Prop :=
  match l with [] => True | LArr _ :: t => dests_ok E t | LOut d _ evs :: t => permitted E d evs /\ dests_ok E t end.

Lemma walk_dests E gs : forall sel o, dests_ok E (olog o) -> dests_ok E (olog (snd (fst (walk E sel o gs)))).
Proof.
  induction gs as [|g t IH]; intros sel o H; cbn [walk]; [exact H|]. destruct (sel O g).
  - pose proof (open_gate_olog E o g) as Ho. destruct (open_gate E o g) as [o1 ok]. cbn [fst] in Ho.
    assert (H1 : dests_ok E (olog o1)) by (rewrite Ho; split; [apply gate_dest_permitted|exact H]).
    destruct ok; [apply IH, H1|exact H1].
  - specialize (IH (fun i => sel (S i)) o H). destruct (walk E (fun i => sel (S i)) o t) as [[k o'] ok]. exact IH.
Qed.

Lemma drop_all_dests E gs : broker_set E = false -> forall o, dests_ok E (olog o) -> dests_ok E (olog (drop_all o gs)).
Proof.
  intros Hb. induction gs as [|g t IH]; intros o H; cbn [drop_all]; [exact H|]. apply IH. split; [exact Hb|exact H].
Qed.

Lemma astep_dests E s a : dests_ok E (log s) -> dests_ok E (log (fst (astep E s a))).
Proof.
  intros H. unfold log in *. destruct a as [rd|id flush n tadd|]; cbn [astep].
  - unfold expire_list. pose proof (walk_dests E (groups s) (expired rd) (out s) H) as Hw.
    destruct (walk E (expired rd) (out s) (groups s)) as [[k o'] ok]. exact Hw.
  - destruct (N.eqb id 0); [exact H|]. destruct flush; [|exact H].
    destruct (take_group id _) as [[g|] rest]; [|exact H].
    destruct (compose E (gevs g)) eqn:Ec; cbn [fst out push olog dests_ok permitted]; (split; [|exact H]); congruence.
  - destruct (groups s) as [|g t] eqn:Eg; [exact H|]. destruct (broker_set E) eqn:Eb.
    + unfold flush_list. pose proof (walk_dests E (g :: t) (fun _ _ => true) (out s) H) as Hw.
      destruct (walk E (fun _ _ => true) (out s) (g :: t)) as [[k o'] ok]. exact Hw.
    + cbn [fst]; unfold with_out; cbn [out]. apply drop_all_dests; assumption.
Qed.

Lemma dests_ok_in E l : dests_ok E l -> forall d id evs, In (LOut d id evs) l -> permitted E d evs.
Proof.
  induction l as [|x t IH]; intros H d id evs Hin; [contradiction|]. destruct x as [e|d0 i0 evs0]; cbn [dests_ok] in H.
  - destruct Hin as [Hx|Hin]; [discriminate|eapply IH; eauto].
  - destruct Hin as [Hx|Hin]; [injection Hx as <- <- <-; apply H|eapply IH; [apply H|eauto]].
Qed.

(* C11: a group leaves the gate only towards a destination the statement permits: returned to a flush event (composition
   succeeded), sent through the configured Broker (composition succeeded with a non-Gateable payload), dropped because no
   Broker is configured, or discarded because composition failed / returned a Gateable payload / Send failed. *)
Theorem dests_permitted E l d id evs : In (LOut d id evs) (log (arun E l)) -> permitted E d evs.
Proof.
  apply dests_ok_in. unfold arun. apply (fold_inv (fun s a => fst (astep E s a)) (fun s => dests_ok E (log s))); [|exact I].
  intros s a. apply astep_dests.
Qed.

(* C11: composites emitted through the Broker are never themselves Gateable *)
Theorem broker_composites_not_gateable E l id evs d :
  In (LOut d id evs) (log (arun E l)) -> d = DSent \/ d = DSendErr -> compose E evs <> CGateable.
Proof. intros Hin Hd. pose proof (dests_permitted E l d id evs Hin) as Hp. destruct Hd; subst d; cbn in Hp; destruct Hp; congruence. Qed.

(* C11: non-Gateable events pass through unchanged and leave the filter untouched; events without an id are rejected *)
Theorem non_gateable_identity E s : step E s NonGateable = (s, RPass).
Proof. reflexivity. Qed.
(* the other exported methods (Reopen, Type, Now) leave the gate alone *)
Theorem other_methods_identity E s : step E s Other = (s, RNil).
Proof. reflexivity. Qed.
Theorem empty_id_rejected E s flush n rd tadd : step E s (Proc 0 flush n rd tadd) = (s, RErr).
Proof. reflexivity. Qed.

(* C11: an accepted event without the flush flag is withheld (nothing is returned) and sits last in its id's group *)
Theorem accepted_withheld E s id n rd tadd : snd (step E s (Proc id false n rd tadd)) <> RErr ->
  snd (step E s (Proc id false n rd tadd)) = RWithheld /\
  exists pre, gated_of id (groups (fst (step E s (Proc id false n rd tadd)))) = pre ++ [{| eid := id; en := n |}].
Proof.
  cbn [step]. destruct (N.eqb id 0) eqn:Ei; [intros H; exfalso; apply H; reflexivity|].
  destruct (astep E s (AExpire rd)) as [s1 r1]. destruct (is_err r1); [intros H; exfalso; apply H; reflexivity|].
  intros _. cbn [astep]. rewrite Ei. cbn [snd fst groups]. split; [reflexivity|].
  rewrite gated_of_add_ev. cbn [eid]. rewrite N.eqb_refl. eauto.
Qed.

Lemma take_group_add_ev_last e z gs : forall g rest, take_group (eid e) (add_ev e z gs) = (Some g, rest) ->
  gid g = eid e /\ exists pre, gevs g = pre ++ [e].
Proof.
  induction gs as [|g0 t IH]; intros g rest Et; cbn [add_ev take_group] in Et.
  - cbn [gid] in Et. rewrite N.eqb_refl in Et. injection Et as <- _. split; [reflexivity|exists []; reflexivity].
  - destruct (N.eqb (gid g0) (eid e)) eqn:E0; cbn [take_group gid] in Et; rewrite E0 in Et.
    + injection Et as <- _. split; [apply N.eqb_eq, E0|exists (gevs g0); reflexivity].
    + destruct (take_group (eid e) (add_ev e z t)) as [r k] eqn:E1. injection Et as -> _. eapply IH; reflexivity.
Qed.

(* C11: a flush event whose composition succeeds gets back the composite of exactly its group, ending with itself *)
Theorem flush_returns_group E s id n rd tadd evs : snd (step E s (Proc id true n rd tadd)) = RComposite evs ->
  exists pre, evs = pre ++ [{| eid := id; en := n |}] /\
              log (fst (step E s (Proc id true n rd tadd))) =
                LOut DReturned id evs :: LArr {| eid := id; en := n |} :: log (fst (astep E s (AExpire rd))).
Proof.
  cbn [step]. destruct (N.eqb id 0) eqn:Ei; [discriminate|].
  destruct (astep E s (AExpire rd)) as [s1 r1]. destruct (is_err r1); [discriminate|]. cbn [astep fst]. rewrite Ei.
  set (e := {| eid := id; en := n |}). set (gs' := add_ev e (tadd + expiration E) (groups s1)).
  destruct (take_group id gs') as [[g|] rest] eqn:Et; [|discriminate].
  assert (Hg : exists pre, gevs g = pre ++ [e] /\ gid g = id).
  { destruct (take_group_add_ev_last e (tadd + expiration E) (groups s1) g rest Et) as [Hid [pre Hpre]]. exists pre. split; assumption. }
  destruct Hg as [pre [Hg Hid]].
  destruct (compose E (gevs g)); cbn [snd fst]; try discriminate; intros H; injection H as <-; exists pre;
    (split; [exact Hg|]); unfold log; cbn [out push olog]; rewrite Hid; reflexivity.
Qed.

(* ---------- sequential histories are particular atom lists ---------- *)
Lemma step_atoms E o s : fst (step E s o) = fold_left (fun s a => fst (astep E s a)) (op_atoms E s o) s.
Proof.
  destruct o as [id flush n rd tadd| | | |]; cbn [op_atoms step]; try reflexivity.
  destruct (N.eqb id 0); [reflexivity|].
  destruct (astep E s (AExpire rd)) as [s1 r1] eqn:Ea. cbn [snd]. destruct (is_err r1); cbn [fold_left]; rewrite ?Ea; reflexivity.
Qed.

Lemma run_atoms E ops : forall s, fold_left (fun s o => fst (step E s o)) ops s = fold_left (fun s a => fst (astep E s a)) (atoms_of E s ops) s.
Proof.
  induction ops as [|o t IH]; intros s; [reflexivity|]. cbn [fold_left atoms_of]. rewrite fold_left_app, <- step_atoms. apply IH.
Qed.

Theorem run_is_arun E ops : run E ops = arun E (atoms_of E s0 ops).
Proof. apply run_atoms. Qed.

(* the events of a sequential history *)
Fixpoint procs (ops : list op) : list ev :=
  match ops with
  | [] => []
  | Proc id _ n _ _ :: t => {| eid := id; en := n |} :: procs t
  | _ :: t => procs t
  end.

Lemma NoDup_sub {A} (l k : list A) : NoDup l -> (exists f : list bool, k = map fst (filter snd (combine l f))) -> NoDup k.
Proof.
  intros Hnd [f ->]. revert f. induction l as [|x t IH]; intros f; [constructor|]. destruct f as [|b f]; [constructor|].
  inversion Hnd as [|? ? Hn Ht]; subst. cbn [combine filter snd]. destruct b; cbn [map fst]; [|apply IH, Ht].
  constructor; [|apply IH, Ht]. intros Hin. apply Hn. apply in_map_iff in Hin as [[y b] [<- Hin]]. apply filter_In in Hin as [Hin _].
  apply in_combine_l in Hin. exact Hin.
Qed.

Lemma adds_atoms_of E ops : forall s, exists f, adds (atoms_of E s ops) = map fst (filter snd (combine (procs ops) f)).
Proof.
  induction ops as [|o t IH]; intros s; [exists []; reflexivity|]. cbn [atoms_of procs].
  destruct (IH (fst (step E s o))) as [f Hf].
  destruct o as [id flush n rd tadd| | | |]; cbn [op_atoms app]; try (exists f; exact Hf).
  destruct (N.eqb id 0) eqn:Ei; [exists (false :: f); exact Hf|].
  destruct (is_err (snd (astep E s (AExpire rd)))); cbn [app adds]; [exists (false :: f); exact Hf|].
  rewrite Ei. exists (true :: f). cbn [combine filter snd map fst]. rewrite Hf. reflexivity.
Qed.

(* C11 exactly_once for whole operations: Process / FlushAll / Close histories *)
Theorem exactly_once_seq E ops e : NoDup (procs ops) -> In e (accepted (run E ops)) -> cnt e (everywhere (run E ops)) = 1%nat.
Proof.
  intros Hnd Hin. rewrite run_is_arun in *. apply exactly_once; [|exact Hin].
  eapply NoDup_sub; [exact Hnd|apply adds_atoms_of].
Qed.

(* ================= C17: nothing lingers ================= *)

(* the groups at the positions selected / not selected by [sel] *)
Fixpoint pick (sel : nat -> grp -> bool) (want : bool) (gs : list grp) : list grp :=
  match gs with
  | [] => []
  | g :: t => if Bool.eqb (sel O g) want then g :: pick (fun i => sel (S i)) want t else pick (fun i => sel (S i)) want t
  end.

Definition out_entry (E : env) (g : grp) : entry := LOut (if broker_set E then DSent else DNoBroker) (gid g) (gevs g).

(* a successful walk removed exactly the selected groups, each logged once, oldest first (the log is newest first),
   each through the Broker when one is configured *)
Lemma walk_success E gs : forall sel o k o', walk E sel o gs = (k, o', true) ->
  k = pick sel false gs /\
  olog o' = rev (map (out_entry E) (pick sel true gs)) ++ olog o /\
  osend o' = (if broker_set E then osend o + N.of_nat (length (pick sel true gs)) else osend o)%N.
Proof.
  induction gs as [|g t IH]; intros sel o k o' H; cbn [walk pick] in *.
  - injection H as <- <-. cbn. repeat split. destruct (broker_set E); [lia|reflexivity].
  - destruct (sel O g); cbn [Bool.eqb].
    + pose proof (open_gate_olog E o g) as Ho. pose proof (open_gate_ok_dest E o g) as Hd.
      destruct (open_gate E o g) as [o1 ok]. cbn [fst snd] in Ho, Hd. destruct ok; [|discriminate].
      destruct (Hd eq_refl) as [Hd1 Hd2]. destruct (IH _ _ _ _ H) as [I1 [I2 I3]].
      split; [exact I1|]. split.
      * rewrite I2, Ho, Hd1. cbn [map rev]. rewrite <- app_assoc. reflexivity.
      * rewrite I3, Hd2. cbn [length]. destruct (broker_set E); [lia|reflexivity].
    + destruct (walk E (fun i => sel (S i)) o t) as [[k1 o1] ok1] eqn:Ew. injection H as <- <- ->.
      destruct (IH _ _ _ _ Ew) as [I1 [I2 I3]]. split; [f_equal; exact I1|]. split; assumption.
Qed.

(* C17: a successful processExpiredEvents leaves exactly the unexpired groups and emitted every expired one once, oldest first *)
Theorem expire_success E s rd : snd (astep E s (AExpire rd)) = RNil ->
  let s' := fst (astep E s (AExpire rd)) in
  groups s' = pick (expired rd) false (groups s) /\
  log s' = rev (map (out_entry E) (pick (expired rd) true (groups s))) ++ log s.
Proof.
  cbn [astep]. unfold expire_list. destruct (walk E (expired rd) (out s) (groups s)) as [[k o'] ok] eqn:Ew.
  destruct ok; cbn [snd fst]; [intros _|discriminate]. destruct (walk_success _ _ _ _ _ _ Ew) as [H1 [H2 _]].
  unfold log. unfold with_out; cbn [groups out]. split; assumption.
Qed.

Lemma pick_in sel want gs : forall g, In g (pick sel want gs) -> In g gs.
Proof.
  revert sel. induction gs as [|g0 t IH]; intros sel g Hin; cbn [pick] in Hin; [contradiction|].
  destruct (Bool.eqb (sel O g0) want); [destruct Hin as [<-|Hin]; [left; reflexivity|right; eapply IH; eauto]|right; eapply IH; eauto].
Qed.

Lemma pick_unexpired rd T gs : (forall i, T <= rd i) -> forall g, In g (pick (expired rd) false gs) -> T <= gexp g.
Proof.
  revert rd. induction gs as [|g0 t IH]; intros rd Hrd g Hin; cbn [pick] in Hin; [contradiction|].
  unfold expired at 1 in Hin. destruct (gexp g0 <? rd O) eqn:Ex; cbn [Bool.eqb] in Hin.
  - apply (IH (fun i => rd (S i))); [intros i; apply Hrd|exact Hin].
  - destruct Hin as [<-|Hin]; [apply Z.ltb_ge in Ex; specialize (Hrd O); lia|].
    apply (IH (fun i => rd (S i))); [intros i; apply Hrd|exact Hin].
Qed.

Lemma add_ev_exp e ex gs g : In g (add_ev e ex gs) -> gexp g = ex \/ exists g0, In g0 gs /\ gexp g = gexp g0.
Proof.
  induction gs as [|g0 t IH]; cbn [add_ev].
  - intros [<-|[]]. left. reflexivity.
  - destruct (N.eqb (gid g0) (eid e)).
    + intros [<-|Hin]; right; [exists g0|exists g]; (split; [|reflexivity]); [left; reflexivity|right; exact Hin].
    + intros [<-|Hin]; [right; exists g0; split; [left; reflexivity|reflexivity]|].
      destruct (IH Hin) as [?|[g1 [H1 H2]]]; [left; assumption|right; exists g1; split; [right; exact H1|exact H2]].
Qed.


Lemma expiration_nonneg E : 0 <= expiration_cfg E -> 0 <= expiration E.
Proof. unfold expiration, default_expiration. destruct (expiration_cfg E =? 0); lia. Qed.

(* C17 expired_gone: after any successful Process of a Gateable event all of whose clock readings are at least T, no group
   whose expiry time lies before T remains gated *)
Theorem expired_gone E s id flush n rd tadd T : 0 <= expiration_cfg E -> (forall i, T <= rd i) -> T <= tadd ->
  snd (step E s (Proc id flush n rd tadd)) <> RErr ->
  forall g, In g (groups (fst (step E s (Proc id flush n rd tadd)))) -> ~ (gexp g < T).
Proof.
  intros Hexp Hrd Hadd Hres g Hin. apply expiration_nonneg in Hexp. cbn [step] in *.
  destruct (N.eqb id 0) eqn:Ei; [exfalso; apply Hres; reflexivity|].
  pose proof (expire_success E s rd) as Hs. destruct (astep E s (AExpire rd)) as [s1 r1] eqn:Ea. cbn [snd fst] in Hs.
  destruct r1; cbn [is_err] in *; try (exfalso; apply Hres; reflexivity);
    try (cbn [astep] in Ea; unfold expire_list in Ea; destruct (walk E (expired rd) (out s) (groups s)) as [[k o'] ok];
         destruct ok; injection Ea as _ Ea; discriminate).
  destruct (Hs eq_refl) as [Hg _]. clear Hs.
  assert (Hk : forall g, In g (add_ev {| eid := id; en := n |} (tadd + expiration E) (groups s1)) -> T <= gexp g).
  { intros g1 H1. apply add_ev_exp in H1 as [H1|[g0 [H0 H1]]]; [lia|]. rewrite H1. rewrite Hg in H0.
    eapply pick_unexpired; eauto. }
  cbn [astep] in Hin, Hres. rewrite Ei in Hin, Hres. destruct flush.
  - pose proof (take_group_in id (add_ev {| eid := id; en := n |} (tadd + expiration E) (groups s1))) as Ht.
    destruct (take_group id _) as [[g1|] rest]; [|exfalso; apply Hres; reflexivity]. cbn [snd] in Ht.
    destruct (compose E (gevs g1)); cbn [fst snd groups] in *; try (exfalso; apply Hres; reflexivity);
      specialize (Hk g (Ht g Hin)); lia.
  - cbn [fst groups] in Hin. specialize (Hk g Hin). lia.
Qed.

(* C17: ... and each group that had expired by every reading was emitted through the Broker (dropped when none is configured),
   oldest first, before the new event was added *)
Theorem expired_emitted E s id flush n rd tadd : N.eqb id 0 = false ->
  snd (step E s (Proc id flush n rd tadd)) <> RErr ->
  exists new, log (fst (step E s (Proc id flush n rd tadd))) =
              new ++ LArr {| eid := id; en := n |} :: rev (map (out_entry E) (pick (expired rd) true (groups s))) ++ log s.
Proof.
  intros Ei Hres. cbn [step] in *. rewrite Ei in *.
  pose proof (expire_success E s rd) as Hs. destruct (astep E s (AExpire rd)) as [s1 r1] eqn:Ea. cbn [snd fst] in Hs.
  destruct r1; cbn [is_err] in *; try (exfalso; apply Hres; reflexivity);
    try (cbn [astep] in Ea; unfold expire_list in Ea; destruct (walk E (expired rd) (out s) (groups s)) as [[k o'] ok];
         destruct ok; injection Ea as _ Ea; discriminate).
  destruct (Hs eq_refl) as [_ Hl]. cbn [astep] in Hres |- *. rewrite Ei in Hres |- *. destruct flush.
  - destruct (take_group id _) as [[g|] rest]; [|exfalso; apply Hres; reflexivity].
    destruct (compose E (gevs g)); cbn [fst]; unfold log in *; cbn [out push olog]; rewrite Hl;
      eexists [_]; reflexivity.
  - cbn [fst]. unfold log in *. cbn [out olog]. rewrite Hl. exists []. reflexivity.
Qed.

(* C17 flushall_empties: after a successful FlushAll / Close nothing remains gated and every previously gated group was
   emitted exactly once, oldest first: through the Broker when one is configured, dropped otherwise *)
Definition flush_entry (E : env) (g : grp) : entry := LOut (if broker_set E then DSent else DFlushDrop) (gid g) (gevs g).

Lemma pick_all gs : forall sel, (forall i g, sel i g = true) -> pick sel true gs = gs /\ pick sel false gs = [].
Proof.
  induction gs as [|g t IH]; intros sel H; cbn [pick]; [split; reflexivity|]. rewrite H. cbn [Bool.eqb].
  destruct (IH (fun i => sel (S i))) as [I1 I2]; [intros; apply H|]. rewrite I1, I2. split; reflexivity.
Qed.

Lemma drop_all_log gs : forall o, olog (drop_all o gs) = rev (map (fun g => LOut DFlushDrop (gid g) (gevs g)) gs) ++ olog o.
Proof.
  induction gs as [|g t IH]; intros o; cbn [drop_all map rev]; [reflexivity|]. rewrite IH. cbn [push olog]. rewrite <- app_assoc. reflexivity.
Qed.

Theorem flushall_empties E s : snd (astep E s AFlushAll) = RNil ->
  groups (fst (astep E s AFlushAll)) = [] /\
  log (fst (astep E s AFlushAll)) = rev (map (flush_entry E) (groups s)) ++ log s.
Proof.
  cbn [astep]. destruct (groups s) as [|g t] eqn:Eg; [intros _; split; [exact Eg|reflexivity]|]. unfold flush_entry.
  destruct (broker_set E) eqn:Eb.
  - unfold flush_list. destruct (walk E (fun _ _ => true) (out s) (g :: t)) as [[k o'] ok] eqn:Ew.
    destruct ok; cbn [fst snd]; [intros _|discriminate]. destruct (walk_success _ _ _ _ _ _ Ew) as [H1 [H2 _]].
    destruct (pick_all (g :: t) (fun _ _ => true)) as [P1 P2]; [reflexivity|]. rewrite P1 in H2. rewrite P2 in H1.
    unfold log, out_entry in *. rewrite Eb in H2. unfold with_out; cbn [groups out]. split; assumption.
  - intros _. cbn [fst]; unfold with_out; cbn [groups]. split; [reflexivity|]. unfold log. cbn [out]. apply drop_all_log.
Qed.

Corollary flushall_empties_step E s : snd (step E s FlushAll) = RNil ->
  groups (fst (step E s FlushAll)) = [] /\ log (fst (step E s FlushAll)) = rev (map (flush_entry E) (groups s)) ++ log s.
Proof. apply flushall_empties. Qed.
Corollary close_empties_step E s : snd (step E s Close) = RNil ->
  groups (fst (step E s Close)) = [] /\ log (fst (step E s Close)) = rev (map (flush_entry E) (groups s)) ++ log s.
Proof. apply flushall_empties. Qed.

(* C17 memory_bound: after a successful Process at time T everything the filter holds belongs to an unexpired group *)
Theorem memory_bound E s id flush n rd tadd T : 0 <= expiration_cfg E -> (forall i, T <= rd i) -> T <= tadd ->
  snd (step E s (Proc id flush n rd tadd)) <> RErr ->
  forall e, In e (all_of (groups (fst (step E s (Proc id flush n rd tadd))))) ->
  exists g, In g (groups (fst (step E s (Proc id flush n rd tadd)))) /\ In e (gevs g) /\ T <= gexp g.
Proof.
  intros Hexp Hrd Hadd Hres e Hin. unfold all_of in Hin. apply in_concat in Hin as [evs [Hevs Hin]].
  apply in_map_iff in Hevs as [g [<- Hg]]. exists g. split; [exact Hg|]. split; [exact Hin|].
  pose proof (expired_gone E s id flush n rd tadd T Hexp Hrd Hadd Hres g Hg). lia.
Qed.

(* C11 + C17 together: once a FlushAll / Close has succeeded, every event accepted so far has left the gate in exactly one
   composite (returned, sent or — only for the permitted reasons — discarded) and nothing is withheld any more *)
Lemma adds_app l k : adds (l ++ k) = adds l ++ adds k.
Proof.
  induction l as [|a t IH]; [reflexivity|]. cbn [app adds]. destruct a as [rd|id f n tadd|]; try exact IH.
  destruct (N.eqb id 0); [exact IH|]. cbn [app]. f_equal. exact IH.
Qed.

Theorem handed_over_exactly_once_after_flush E l e : NoDup (adds l) -> In e (accepted (arun E l)) ->
  snd (astep E (arun E l) AFlushAll) = RNil ->
  let s' := arun E (l ++ [AFlushAll]) in groups s' = [] /\ cnt e (emitted (log s')) = 1%nat.
Proof.
  intros Hnd Hin Hok s'.
  assert (Hs' : s' = fst (astep E (arun E l) AFlushAll)) by (unfold s', arun; rewrite fold_left_app; reflexivity).
  destruct (flushall_empties E (arun E l) Hok) as [Hg _]. rewrite <- Hs' in Hg. split; [exact Hg|].
  assert (Hacc : accepted s' = accepted (arun E l)).
  { rewrite Hs'. cbn [astep]. destruct (groups (arun E l)) as [|g t]; [reflexivity|]. destruct (broker_set E); [|reflexivity].
    unfold flush_list. destruct (walk E (fun _ _ => true) (out (arun E l)) (g :: t)) as [[k o'] ok]. reflexivity. }
  pose proof (exactly_once E (l ++ [AFlushAll]) e) as Hx. fold s' in Hx. rewrite adds_app in Hx. cbn [adds] in Hx. rewrite app_nil_r in Hx.
  rewrite Hacc in Hx. specialize (Hx Hnd Hin). unfold everywhere in Hx. rewrite Hg in Hx. cbn [all_of map concat] in Hx. rewrite app_nil_r in Hx. exact Hx.
Qed.

(* "oldest first" = list order: when the clock readings used to open groups never decrease, the groups are listed by
   non-decreasing expiry, so the walk emits expired groups oldest expiry first. *)
Fixpoint add_times (l : list atom) : list Z :=
  match l with [] => [] | AAdd id _ _ t :: r => if N.eqb id 0 then add_times r else t :: add_times r | _ :: r => add_times r end.

Definition exp_sorted (gs : list grp) : Prop := StronglySorted Z.le (map gexp gs).

Definition sinv (E : env) (hi : Z) (s : gst) : Prop := exp_sorted (groups s) /\ forall g, In g (groups s) -> gexp g <= hi + expiration E.

Lemma SS_sub (l k : list Z) : StronglySorted Z.le l -> (exists f : list bool, k = map fst (filter snd (combine l f))) -> StronglySorted Z.le k.
Proof.
  intros Hs [f ->]. revert f. induction l as [|x t IH]; intros f; [constructor|]. destruct f as [|b f]; [constructor|].
  inversion Hs as [|? ? Ht Hx]; subst. cbn [combine filter snd]. destruct b; cbn [map fst]; [|apply IH, Ht].
  constructor; [apply IH, Ht|]. rewrite Forall_forall in *. intros y Hy. apply Hx. apply in_map_iff in Hy as [[z b] [<- Hin]].
  apply filter_In in Hin as [Hin _]. apply in_combine_l in Hin. exact Hin.
Qed.

Lemma walk_sub E gs : forall sel o, exists f, map gexp (fst (fst (walk E sel o gs))) = map fst (filter snd (combine (map gexp gs) f)).
Proof.
  induction gs as [|g t IH]; intros sel o; cbn [walk]; [exists []; reflexivity|]. destruct (sel O g).
  - destruct (open_gate E o g) as [o1 ok]. destruct ok.
    + destruct (IH (fun i => sel (S i)) o1) as [f Hf]. exists (false :: f). exact Hf.
    + exists (false :: map (fun _ => true) t). cbn [fst map combine filter snd]. clear. induction t as [|x r IHr]; [reflexivity|]. cbn. f_equal. exact IHr.
  - destruct (IH (fun i => sel (S i)) o) as [f Hf]. destruct (walk E (fun i => sel (S i)) o t) as [[k o'] ok]. cbn [fst] in *.
    exists (true :: f). cbn. f_equal. exact Hf.
Qed.

Lemma take_group_sub id gs : exists f, map gexp (snd (take_group id gs)) = map fst (filter snd (combine (map gexp gs) f)).
Proof.
  induction gs as [|g t IH]; cbn [take_group]; [exists []; reflexivity|]. destruct (N.eqb (gid g) id).
  - exists (false :: map (fun _ => true) t). cbn [snd map combine filter]. clear. induction t as [|x r IHr]; [reflexivity|]. cbn. f_equal. exact IHr.
  - destruct IH as [f Hf]. destruct (take_group id t) as [r k]. cbn [snd] in *. exists (true :: f). cbn. f_equal. exact Hf.
Qed.

Lemma add_ev_sorted e ex gs : exp_sorted gs -> (forall g, In g gs -> gexp g <= ex) -> exp_sorted (add_ev e ex gs).
Proof.
  unfold exp_sorted. induction gs as [|g t IH]; intros Hs Hle; cbn [add_ev map gexp]; [constructor; constructor|].
  cbn [map] in Hs. inversion Hs as [|? ? Ht Hx]; subst. destruct (N.eqb (gid g) (eid e)); cbn [map gexp]; [constructor; assumption|].
  constructor; [apply IH; [exact Ht|intros g0 H0; apply Hle; right; exact H0]|].
  rewrite Forall_forall in *. intros y Hy. apply in_map_iff in Hy as [g1 [<- H1]]. apply add_ev_exp in H1 as [->|[g0 [H0 ->]]].
  - apply Hle. left. reflexivity.
  - apply Hx. apply in_map, H0.
Qed.

Lemma sub_in (l : list Z) f y : In y (map fst (filter snd (combine l f))) -> In y l.
Proof. intros Hy. apply in_map_iff in Hy as [[z b] [<- Hin]]. apply filter_In in Hin as [Hin _]. apply in_combine_l in Hin. exact Hin. Qed.

Lemma astep_sinv E hi s a : 0 <= expiration E -> sinv E hi s ->
  (forall id f n t, a = AAdd id f n t -> hi <= t) ->
  sinv E (match a with AAdd id _ _ t => if N.eqb id 0 then hi else t | _ => hi end) (fst (astep E s a)).
Proof.
  intros Hex [Hs Hb] Ha. destruct a as [rd|id flush n tadd|]; cbn [astep].
  - unfold expire_list. destruct (walk_sub E (groups s) (expired rd) (out s)) as [f Hf].
    destruct (walk E (expired rd) (out s) (groups s)) as [[k o'] ok]. cbn [fst] in *. unfold with_out, sinv. cbn [groups]. split.
    + unfold exp_sorted. eapply SS_sub; [exact Hs|eauto].
    + intros g Hg. assert (Hin : In (gexp g) (map gexp (groups s))) by (apply (sub_in _ f); rewrite <- Hf; apply in_map, Hg).
      apply in_map_iff in Hin as [g0 [<- H0]]. apply Hb, H0.
  - destruct (N.eqb id 0); [split; assumption|]. specialize (Ha _ _ _ _ eq_refl).
    set (e := {| eid := id; en := n |}).
    assert (Hs' : exp_sorted (add_ev e (tadd + expiration E) (groups s))).
    { apply add_ev_sorted; [exact Hs|]. intros g Hg. specialize (Hb g Hg). lia. }
    assert (Hb' : forall g, In g (add_ev e (tadd + expiration E) (groups s)) -> gexp g <= tadd + expiration E).
    { intros g Hg. apply add_ev_exp in Hg as [->|[g0 [H0 ->]]]; [lia|]. specialize (Hb g0 H0). lia. }
    destruct flush; [|split; assumption].
    destruct (take_group_sub id (add_ev e (tadd + expiration E) (groups s))) as [f Hf].
    pose proof (take_group_in id (add_ev e (tadd + expiration E) (groups s))) as Hin.
    destruct (take_group id (add_ev e (tadd + expiration E) (groups s))) as [[g|] rest]; cbn [snd] in *.
    + assert (Hr : sinv E tadd {| groups := rest; out := out s; accepted := accepted s |}).
      { split; cbn [groups]; [unfold exp_sorted; eapply SS_sub; [exact Hs'|eauto]|intros g0 H0; apply Hb', Hin, H0]. }
      destruct (compose E (gevs g)); cbn [fst]; split; cbn [groups]; apply Hr.
    + cbn [fst]. split; [exact Hs|]. intros g Hg. specialize (Hb g Hg). lia.
  - destruct (groups s) as [|g t] eqn:Eg; [cbn [fst]; split; [rewrite Eg|rewrite Eg]; assumption|]. destruct (broker_set E).
    + unfold flush_list. destruct (walk_sub E (g :: t) (fun _ _ => true) (out s)) as [f Hf].
      destruct (walk E (fun _ _ => true) (out s) (g :: t)) as [[k o'] ok]. cbn [fst] in *. unfold with_out, sinv. cbn [groups]. split.
      * unfold exp_sorted. eapply SS_sub; [exact Hs|eauto].
      * intros g0 Hg. assert (Hin : In (gexp g0) (map gexp (g :: t))) by (apply (sub_in _ f); rewrite <- Hf; apply in_map, Hg).
        apply in_map_iff in Hin as [g1 [<- H1]]. apply Hb, H1.
    + cbn [fst]. unfold with_out, sinv. cbn [groups]. split; [constructor|intros ? []].
Qed.

(* non-decreasing group-opening clock readings => the gate is ordered by expiry, oldest first *)
Theorem groups_sorted_by_expiry E l : 0 <= expiration_cfg E -> StronglySorted Z.le (add_times l) -> exp_sorted (groups (arun E l)).
Proof.
  intros Hex Hmono. apply expiration_nonneg in Hex.
  assert (Hgen : forall l s hi, sinv E hi s -> StronglySorted Z.le (add_times l) -> (forall t, In t (add_times l) -> hi <= t) ->
                 exp_sorted (groups (fold_left (fun s a => fst (astep E s a)) l s))).
  { clear l Hmono. induction l as [|a r IH]; intros s hi Hi Hm Hlo; cbn [fold_left]; [apply Hi|].
    pose proof (astep_sinv E hi s a Hex Hi) as Hstep.
    destruct a as [rd|id flush n tadd|]; cbn [add_times] in Hm, Hlo.
    - eapply IH; [apply Hstep; intros; discriminate|exact Hm|exact Hlo].
    - destruct (N.eqb id 0) eqn:Ei.
      + assert (Hs0 : fst (astep E s (AAdd id flush n tadd)) = s) by (cbn [astep]; rewrite Ei; reflexivity).
        rewrite Hs0. eapply IH; [exact Hi|exact Hm|exact Hlo].
      + inversion Hm as [|? ? Hm' Hall]; subst. eapply IH; [|exact Hm'|].
        * assert (Hx := Hstep). try rewrite Ei in Hx. apply Hx. intros ? ? ? ? H. injection H as _ _ _ <-. apply Hlo. left. reflexivity.
        * intros t Ht. rewrite Forall_forall in Hall. apply Hall, Ht.
    - eapply IH; [apply Hstep; intros; discriminate|exact Hm|exact Hlo]. }
  destruct (add_times l) as [|t0 r] eqn:El.
  - unfold arun. apply (Hgen l s0 0); [split; [constructor|intros ? []]|rewrite El; constructor|rewrite El; intros ? []].
  - unfold arun. apply (Hgen l s0 t0); [split; [constructor|intros ? []]|rewrite El; exact Hmono|].
    rewrite El. intros t [<-|Ht]; [lia|]. inversion Hmono as [|? ? _ Hall]; subst. rewrite Forall_forall in Hall. apply Hall, Ht.
Qed.

(* ================= gated part of C12 ================= *)

Lemma walk_log_ext E gs : forall sel o, exists new, olog (snd (fst (walk E sel o gs))) = new ++ olog o /\ dests_ok E new /\
  (forall e, ~ In (LArr e) new).
Proof.
  induction gs as [|g t IH]; intros sel o; cbn [walk]; [exists []; repeat split; auto|]. destruct (sel O g).
  - pose proof (open_gate_olog E o g) as Ho. destruct (open_gate E o g) as [o1 ok]. cbn [fst] in Ho.
    assert (H1 : exists new, olog o1 = new ++ olog o /\ dests_ok E new /\ (forall e, ~ In (LArr e) new)).
    { exists [LOut (gate_dest E o g) (gid g) (gevs g)]. split; [exact Ho|]. split; [split; [apply gate_dest_permitted|exact I]|].
      intros e [Hx|[]]. discriminate. }
    destruct ok; [|exact H1]. destruct H1 as [n1 [E1 [D1 A1]]]. destruct (IH (fun i => sel (S i)) o1) as [n2 [E2 [D2 A2]]].
    exists (n2 ++ n1). split; [rewrite E2, E1, app_assoc; reflexivity|]. split.
    + clear - D1 D2. induction n2 as [|x r IHr]; [exact D1|]. destruct x; cbn in *; [apply IHr, D2|split; [apply D2|apply IHr, D2]].
    + intros e Hin. apply in_app_or in Hin as [Hin|Hin]; [eapply A2|eapply A1]; eauto.
  - specialize (IH (fun i => sel (S i)) o). destruct (walk E (fun i => sel (S i)) o t) as [[k o'] ok]. exact IH.
Qed.

Lemma firstn_app_exact {A} (a b : list A) : firstn (length (a ++ b) - length b) (a ++ b) = a.
Proof. rewrite app_length. replace (length a + length b - length b)%nat with (length a + 0)%nat by lia. rewrite firstn_app_2. cbn. apply app_nil_r. Qed.

Lemma sends_of_plain E new : dests_ok E new -> forall c, In c (sends_of E new) -> c = COk.
Proof.
  induction new as [|x t IH]; intros H c Hin; cbn [sends_of] in Hin; [contradiction|]. destruct x as [e|d i evs]; cbn [dests_ok] in H.
  - apply IH; assumption.
  - destruct H as [Hp H]. destruct d; try (apply IH; assumption);
      (apply in_app_or in Hin as [Hin|[<-|[]]]; [apply IH; assumption|cbn in Hp; apply Hp]).
Qed.

Lemma flat_map_reenter_nil l : (forall c, In c l -> c = COk) -> flat_map reenter l = [].
Proof. induction l as [|c t IH]; intros H; [reflexivity|]. cbn [flat_map]. rewrite (H c (or_introl eq_refl)). cbn. apply IH. intros c0 H0. apply H. right. exact H0. Qed.

Lemma section_plain E s s' new : log s' = new ++ log s -> dests_ok E new -> section_trace E s s' = [Acq; Rel].
Proof.
  intros Hl Hd. unfold section_trace, produced. rewrite Hl, firstn_app_exact. rewrite flat_map_reenter_nil; [reflexivity|].
  apply sends_of_plain, Hd.
Qed.

Lemma astep_log_ext E s a : exists new, log (fst (astep E s a)) = new ++ log s /\ dests_ok E new.
Proof.
  unfold log. destruct a as [rd|id flush n tadd|]; cbn [astep].
  - unfold expire_list. destruct (walk_log_ext E (groups s) (expired rd) (out s)) as [new [H1 [H2 _]]].
    destruct (walk E (expired rd) (out s) (groups s)) as [[k o'] ok]. exists new. split; assumption.
  - destruct (N.eqb id 0); [exists []; split; [reflexivity|exact I]|]. destruct flush; [|eexists [_]; split; [reflexivity|exact I]].
    destruct (take_group id _) as [[g|] rest]; [|exists []; split; [reflexivity|exact I]].
    destruct (compose E (gevs g)) eqn:Ec; cbn [fst out push olog]; eexists [_; _]; (split; [reflexivity|]); cbn; (split; [congruence|exact I]).
  - destruct (groups s) as [|g t] eqn:Eg; [exists []; split; [reflexivity|exact I]|]. destruct (broker_set E) eqn:Eb.
    + unfold flush_list. destruct (walk_log_ext E (g :: t) (fun _ _ => true) (out s)) as [new [H1 [H2 _]]].
      destruct (walk E (fun _ _ => true) (out s) (g :: t)) as [[k o'] ok]. exists new. split; assumption.
    + cbn [fst]; unfold with_out; cbn [out]. rewrite drop_all_log. eexists. split; [reflexivity|].
      clear - Eb. induction (g :: t) as [|g0 r IH]; [exact I|]. cbn [map rev].
      assert (Happ : forall a b, dests_ok E a -> dests_ok E b -> dests_ok E (a ++ b)).
      { intros a b Ha Hb. induction a as [|x q IHq]; [exact Hb|]. destruct x; cbn in *; [apply IHq, Ha|split; [apply Ha|apply IHq, Ha]]. }
      apply Happ; [exact IH|]. split; [exact Eb|exact I].
Qed.

(* C12 (gated part): whatever the state, oracle and clock, a Process / FlushAll / Close call never acquires the filter's
   (non-reentrant) mutex while holding it — the composites it sends while holding the lock are never Gateable, so when the
   Broker routes them into a pipeline containing this same filter, Process returns before its first Lock — and the mutex is
   free again when the call returns. *)
Theorem gated_reentry_terminates E s o : lock_safe false (lock_trace E s o) = true.
Proof.
  destruct o as [id flush n rd tadd| | | |]; cbn [lock_trace]; try reflexivity.
  - destruct (N.eqb id 0); [reflexivity|].
    destruct (astep_log_ext E s (AExpire rd)) as [n1 [L1 D1]]. rewrite (section_plain E s _ n1 L1 D1).
    destruct (is_err (snd (astep E s (AExpire rd)))); [reflexivity|].
    destruct (astep_log_ext E (fst (astep E s (AExpire rd))) (AAdd id flush n tadd)) as [n2 [L2 D2]].
    rewrite (section_plain E _ _ n2 L2 D2). reflexivity.
  - destruct (astep_log_ext E s AFlushAll) as [n1 [L1 D1]]. rewrite (section_plain E s _ n1 L1 D1). reflexivity.
  - destruct (astep_log_ext E s AFlushAll) as [n1 [L1 D1]]. rewrite (section_plain E s _ n1 L1 D1). reflexivity.
Qed.

(* had ComposeFrom's Gateable payload been sent, the re-entrant Process would have self-deadlocked: the check is not vacuous *)
Example reenter_gateable_deadlocks : lock_safe false (Acq :: reenter CGateable ++ [Rel]) = false.
Proof. reflexivity. Qed.
