(* Json.v — JSON value model, Go-compatible rendering (encoding/json of the Go toolchain in use, HTML escaping on, as
   json.NewEncoder produces it) in its compact and its SetIndent("", "  ") form, and a fuelled recursive-descent parser.
   Bytes are N (values below 256 are what Go can hold; larger values are treated like invalid bytes), strings and
   number tokens are lists of bytes.  Model only: the proofs are in JsonProofs.v. *)
From Coq Require Import List Bool Arith NArith.
Import ListNotations.
Open Scope N_scope.

Definition bytes := list N.

(* numbers are carried as the already-rendered token (strconv / json.Number text), so no decimal arithmetic is needed *)
Inductive jv :=
| JNull
| JBool (b : bool)
| JNum (tok : bytes)
| JStr (s : bytes)
| JArr (l : list jv)
| JObj (l : list (bytes * jv)).      (* members in emission order (Go: struct field order / sorted map keys) *)

(* ------------------------------------------------------------------ characters *)
Definition is_digit (c : N) : bool := (48 <=? c) && (c <=? 57).
Definition is_ws (c : N) : bool := (c =? 32) || (c =? 10) || (c =? 13) || (c =? 9).
Definition hex (d : N) : N := if d <? 10 then 48 + d else 87 + d.   (* 0-9a-f, lower case as Go emits *)
Definition unhex (c : N) : option N :=
  if (48 <=? c) && (c <=? 57) then Some (c - 48)
  else if (97 <=? c) && (c <=? 102) then Some (c - 87)
  else if (65 <=? c) && (c <=? 70) then Some (c - 55)
  else None.

(* ------------------------------------------------------------------ strings: Go's appendString with escapeHTML *)
(* bytes below 0x80 *)
Definition esc (c : N) : bytes :=
  if c =? 34 then [92; 34]
  else if c =? 92 then [92; 92]
  else if c =? 8 then [92; 98]        (* \b *)
  else if c =? 12 then [92; 102]      (* \f *)
  else if c =? 10 then [92; 110]      (* \n *)
  else if c =? 13 then [92; 114]      (* \r *)
  else if c =? 9 then [92; 116]       (* \t *)
  else if (c <? 32) || (c =? 60) || (c =? 62) || (c =? 38) then [92; 117; 48; 48; hex (c / 16); hex (c mod 16)]
  else [c].

(* utf8.DecodeRune: lead byte classes and the accept range of the second byte *)
Definition cont (b : N) : bool := (128 <=? b) && (b <=? 191).
Definition width (c : N) : N :=
  if (194 <=? c) && (c <=? 223) then 2
  else if (224 <=? c) && (c <=? 239) then 3
  else if (240 <=? c) && (c <=? 244) then 4
  else 0.
Definition lo1 (c : N) : N := if c =? 224 then 160 else if c =? 240 then 144 else 128.
Definition hi1 (c : N) : N := if c =? 237 then 159 else if c =? 244 then 143 else 191.
Definition ok1 (c c1 : N) : bool := (lo1 c <=? c1) && (c1 <=? hi1 c).
(* U+2028 / U+2029 = E2 80 A8 / E2 80 A9 *)
Definition is_sep (c c1 c2 : N) : bool := (c =? 226) && (c1 =? 128) && ((c2 =? 168) || (c2 =? 169)).

(* a string is cut into the units appendString handles one at a time *)
Inductive chunk :=
| CAscii (c : N)          (* a byte below 0x80 *)
| CRaw (bs : bytes)       (* a valid multi-byte UTF-8 sequence, copied raw *)
| CSep (c2 : N)           (* U+2028 / U+2029: escaped *)
| CBad (c : N).           (* a byte that starts no valid sequence: RuneError, width 1 *)

Fixpoint chunks (s : bytes) : list chunk :=
  match s with
  | [] => []
  | c :: t =>
      if c <? 128 then CAscii c :: chunks t else
      match t with
      | c1 :: t1 =>
          if (width c =? 2) && ok1 c c1 then CRaw [c; c1] :: chunks t1 else
          match t1 with
          | c2 :: t2 =>
              if (width c =? 3) && ok1 c c1 && cont c2 then
                (if is_sep c c1 c2 then CSep c2 else CRaw [c; c1; c2]) :: chunks t2
              else
                match t2 with
                | c3 :: t3 =>
                    if (width c =? 4) && ok1 c c1 && cont c2 && cont c3 then CRaw [c; c1; c2; c3] :: chunks t3
                    else CBad c :: chunks t
                | [] => CBad c :: chunks t
                end
          | [] => CBad c :: chunks t
          end
      | [] => CBad c :: chunks t
      end
  end.

Definition repl : bytes := [239; 191; 189].                (* U+FFFD *)
Definition render_chunk (k : chunk) : bytes :=
  match k with
  | CAscii c => esc c
  | CRaw bs => bs
  | CSep c2 => [92; 117; 50; 48; 50; hex (c2 mod 16)]      (* backslash u 2 0 2 8|9 *)
  | CBad _ => [92; 117; 102; 102; 102; 100]                (* backslash u f f f d *)
  end.
(* what a JSON reader gets back: the string itself, except that every invalid byte has become U+FFFD *)
Definition image_chunk (k : chunk) : bytes :=
  match k with
  | CAscii c => [c]
  | CRaw bs => bs
  | CSep c2 => [226; 128; c2]
  | CBad _ => repl
  end.
Definition render_chars (s : bytes) : bytes := flat_map render_chunk (chunks s).
Definition sanitize (s : bytes) : bytes := flat_map image_chunk (chunks s).
Definition render_str (s : bytes) : bytes := 34 :: render_chars s ++ [34].
Definition is_bad (k : chunk) : bool := match k with CBad _ => true | _ => false end.
Definition utf8_valid (s : bytes) : bool := negb (existsb is_bad (chunks s)).

(* ------------------------------------------------------------------ number tokens (the JSON grammar) *)
Definition numchar (c : N) : bool := is_digit c || (c =? 45) || (c =? 43) || (c =? 46) || (c =? 101) || (c =? 69).
Fixpoint drop_digits (l : bytes) : bytes := match l with c :: r => if is_digit c then drop_digits r else l | [] => [] end.
Definition digits1 (l : bytes) : option bytes :=      (* at least one digit *)
  match l with c :: r => if is_digit c then Some (drop_digits r) else None | [] => None end.
Definition after_exp (l : bytes) : bool :=
  match l with
  | [] => true
  | c :: r =>
      if (c =? 101) || (c =? 69) then
        match r with
        | s :: r' => match digits1 (if (s =? 43) || (s =? 45) then r' else r) with Some [] => true | _ => false end
        | [] => false
        end
      else false
  end.
Definition after_int (l : bytes) : bool :=
  match l with
  | c :: r => if c =? 46 then match digits1 r with Some r' => after_exp r' | None => false end else after_exp l
  | [] => true
  end.
Definition strip_minus (tok : bytes) : bytes := match tok with c :: r => if c =? 45 then r else tok | [] => [] end.
Definition valid_num (tok : bytes) : bool :=
  match strip_minus tok with
  | c :: r => if c =? 48 then after_int r else if is_digit c then after_int (drop_digits r) else false
  | [] => false
  end.

(* ------------------------------------------------------------------ rendering *)
Section Render.
  Variable ind : bool.                     (* false: compact; true: json.Indent with prefix "" and indent "  " *)
  Definition nl (d : nat) : bytes := if ind then 10 :: repeat 32 (2 * d) else [].
  Definition colon : bytes := if ind then [58; 32] else [58].

  Fixpoint render_g (d : nat) (v : jv) : bytes :=
    match v with
    | JNull => [110; 117; 108; 108]
    | JBool true => [116; 114; 117; 101]
    | JBool false => [102; 97; 108; 115; 101]
    | JNum tok => tok
    | JStr s => render_str s
    | JArr l =>
        match l with
        | [] => [91; 93]
        | x :: t =>
            91 :: nl (S d) ++ render_g (S d) x ++
            (fix tail (t : list jv) : bytes :=
               match t with [] => [] | y :: t' => 44 :: nl (S d) ++ render_g (S d) y ++ tail t' end) t
            ++ nl d ++ [93]
        end
    | JObj l =>
        match l with
        | [] => [123; 125]
        | (k, x) :: t =>
            123 :: nl (S d) ++ render_str k ++ colon ++ render_g (S d) x ++
            (fix tail (t : list (bytes * jv)) : bytes :=
               match t with
               | [] => []
               | (k', y) :: t' => 44 :: nl (S d) ++ render_str k' ++ colon ++ render_g (S d) y ++ tail t'
               end) t
            ++ nl d ++ [125]
        end
    end.
End Render.

Definition render (v : jv) : bytes := render_g false 0 v.           (* json.Marshal / Encoder without indentation *)
Definition render_indent (v : jv) : bytes := render_g true 0 v.     (* Encoder.SetIndent("", "  ") *)
(* Encoder.Encode terminates every value with a newline *)
Definition encode_line (v : jv) : bytes := render v ++ [10].
Definition encode_text (v : jv) : bytes := render_indent v ++ [10].

(* ------------------------------------------------------------------ the JSON image of a value *)
Fixpoint jimage (v : jv) : jv :=
  match v with
  | JStr s => JStr (sanitize s)
  | JArr l => JArr (map jimage l)
  | JObj l => JObj (map (fun kv => (sanitize (fst kv), jimage (snd kv))) l)
  | _ => v
  end.

(* ------------------------------------------------------------------ parsing *)
Definition unescape (e : N) : option N :=
  if e =? 34 then Some 34 else if e =? 92 then Some 92 else if e =? 47 then Some 47 else if e =? 98 then Some 8
  else if e =? 102 then Some 12 else if e =? 110 then Some 10 else if e =? 114 then Some 13
  else if e =? 116 then Some 9 else None.

(* UTF-8 encoding of a code point of the basic plane given by \uXXXX; surrogates are not produced by the renderer and
   are rejected *)
Definition utf8_enc (cp : N) : option bytes :=
  if cp <? 128 then Some [cp]
  else if cp <? 2048 then Some [192 + cp / 64; 128 + cp mod 64]
  else if (55296 <=? cp) && (cp <=? 57343) then None
  else Some [224 + cp / 4096; 128 + (cp / 64) mod 64; 128 + cp mod 64].

(* body of a string after the opening quote, up to and including the closing quote *)
Fixpoint parse_chars (inp : bytes) : option (bytes * bytes) :=
  match inp with
  | [] => None
  | c :: rest =>
      if c =? 34 then Some ([], rest)
      else if c =? 92 then
        match rest with
        | [] => None
        | e :: rest2 =>
            if e =? 117 then
              match rest2 with
              | a :: b :: x :: y :: rest' =>
                  match unhex a, unhex b, unhex x, unhex y with
                  | Some ha, Some hb, Some hx, Some hy =>
                      match utf8_enc (4096 * ha + 256 * hb + 16 * hx + hy) with
                      | Some u => match parse_chars rest' with Some (s, r) => Some (u ++ s, r) | None => None end
                      | None => None
                      end
                  | _, _, _, _ => None
                  end
              | _ => None
              end
            else
              match unescape e with
              | Some c' => match parse_chars rest2 with Some (s, r) => Some (c' :: s, r) | None => None end
              | None => None
              end
        end
      else if c <? 32 then None
      else match parse_chars rest with Some (s, r) => Some (c :: s, r) | None => None end
  end.

Fixpoint skip_ws (l : bytes) : bytes := match l with c :: r => if is_ws c then skip_ws r else l | [] => [] end.
Fixpoint span_num (inp : bytes) : bytes * bytes :=
  match inp with
  | c :: r => if numchar c then let '(d, r') := span_num r in (c :: d, r') else ([], inp)
  | [] => ([], [])
  end.
Definition parse_str (inp : bytes) : option (bytes * bytes) :=
  match skip_ws inp with c :: r => if c =? 34 then parse_chars r else None | [] => None end.

Fixpoint parse (fuel : nat) (inp : bytes) : option (jv * bytes) :=
  match fuel with
  | O => None
  | S k =>
      match skip_ws inp with
      | [] => None
      | c :: r =>
          if c =? 110 then match r with 117 :: 108 :: 108 :: r' => Some (JNull, r') | _ => None end
          else if c =? 116 then match r with 114 :: 117 :: 101 :: r' => Some (JBool true, r') | _ => None end
          else if c =? 102 then match r with 97 :: 108 :: 115 :: 101 :: r' => Some (JBool false, r') | _ => None end
          else if c =? 34 then match parse_chars r with Some (s, r') => Some (JStr s, r') | None => None end
          else if (c =? 45) || is_digit c then
            let '(tok, r') := span_num (c :: r) in if valid_num tok then Some (JNum tok, r') else None
          else if c =? 91 then
            match skip_ws r with
            | [] => None
            | c2 :: r' =>
                if c2 =? 93 then Some (JArr [], r')
                else match parse k r with
                     | Some (x, r1) =>
                         match parse_arr_tail k r1 with Some (t, r2) => Some (JArr (x :: t), r2) | None => None end
                     | None => None
                     end
            end
          else if c =? 123 then
            match skip_ws r with
            | [] => None
            | c2 :: r' =>
                if c2 =? 125 then Some (JObj [], r')
                else match parse_member k r with
                     | Some (kx, r1) =>
                         match parse_obj_tail k r1 with Some (t, r2) => Some (JObj (kx :: t), r2) | None => None end
                     | None => None
                     end
            end
          else None
      end
  end
with parse_arr_tail (fuel : nat) (inp : bytes) : option (list jv * bytes) :=
  match fuel with
  | O => None
  | S k =>
      match skip_ws inp with
      | c :: r =>
          if c =? 93 then Some ([], r)
          else if c =? 44 then
            match parse k r with
            | Some (x, r1) => match parse_arr_tail k r1 with Some (t, r2) => Some (x :: t, r2) | None => None end
            | None => None
            end
          else None
      | [] => None
      end
  end
with parse_member (fuel : nat) (inp : bytes) : option ((bytes * jv) * bytes) :=
  match fuel with
  | O => None
  | S k =>
      match parse_str inp with
      | Some (key, r0) =>
          match skip_ws r0 with
          | c :: r1 =>
              if c =? 58 then match parse k r1 with Some (x, r2) => Some ((key, x), r2) | None => None end else None
          | [] => None
          end
      | None => None
      end
  end
with parse_obj_tail (fuel : nat) (inp : bytes) : option (list (bytes * jv) * bytes) :=
  match fuel with
  | O => None
  | S k =>
      match skip_ws inp with
      | c :: r =>
          if c =? 125 then Some ([], r)
          else if c =? 44 then
            match parse_member k r with
            | Some (kx, r1) => match parse_obj_tail k r1 with Some (t, r2) => Some (kx :: t, r2) | None => None end
            | None => None
            end
          else None
      | [] => None
      end
  end.

(* a whole document: one value, then only white space *)
Definition parse_doc (inp : bytes) : option jv :=
  match parse (S (length inp)) inp with
  | Some (v, r) => match skip_ws r with [] => Some v | _ => None end
  | None => None
  end.

(* ------------------------------------------------------------------ sizes (parser fuel), well-formedness, equality *)
Fixpoint size (v : jv) : nat :=
  match v with
  | JArr l => match l with
              | [] => 1
              | x :: t => 1 + size x + (fix ts (t : list jv) : nat :=
                                          match t with [] => 1 | y :: t' => 1 + size y + ts t' end) t
              end
  | JObj l => match l with
              | [] => 1
              | (_, x) :: t => 2 + size x + (fix ts (t : list (bytes * jv)) : nat :=
                                               match t with [] => 1 | (_, y) :: t' => 2 + size y + ts t' end) t
              end
  | _ => 1
  end%nat.

(* the only constraint on a value: number tokens are JSON numbers *)
Definition wf_num (tok : bytes) : Prop := valid_num tok = true /\ Forall (fun c => numchar c = true) tok.
Fixpoint wf (v : jv) : Prop :=
  match v with
  | JNum tok => wf_num tok
  | JArr l => (fix all (l : list jv) : Prop := match l with [] => True | x :: t => wf x /\ all t end) l
  | JObj l => (fix all (l : list (bytes * jv)) : Prop :=
                 match l with [] => True | (_, x) :: t => wf x /\ all t end) l
  | _ => True
  end.
Fixpoint wfb (v : jv) : bool :=
  match v with
  | JNum tok => valid_num tok && forallb numchar tok
  | JArr l => (fix all (l : list jv) : bool := match l with [] => true | x :: t => wfb x && all t end) l
  | JObj l => (fix all (l : list (bytes * jv)) : bool :=
                 match l with [] => true | (_, x) :: t => wfb x && all t end) l
  | _ => true
  end.

Fixpoint beqb (a b : bytes) : bool :=
  match a, b with [], [] => true | x :: a', y :: b' => (x =? y) && beqb a' b' | _, _ => false end.
Fixpoint jv_eqb (a b : jv) : bool :=
  match a, b with
  | JNull, JNull => true
  | JBool x, JBool y => Bool.eqb x y
  | JNum s, JNum t => beqb s t
  | JStr s, JStr t => beqb s t
  | JArr l, JArr m =>
      (fix go (l m : list jv) : bool :=
         match l, m with [], [] => true | x :: l', y :: m' => jv_eqb x y && go l' m' | _, _ => false end) l m
  | JObj l, JObj m =>
      (fix go (l m : list (bytes * jv)) : bool :=
         match l, m with
         | [], [] => true
         | (k, x) :: l', (k', y) :: m' => beqb k k' && jv_eqb x y && go l' m'
         | _, _ => false
         end) l m
  | _, _ => false
  end.

(* strings over bytes below 0x80 / values all of whose strings are *)
Definition ascii (s : bytes) : Prop := Forall (fun c => c < 128) s.
