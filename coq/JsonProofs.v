(* JsonProofs.v — the codec theorems about Json.v: parsing the rendering (compact or indented) of any well-formed value gives
   back its JSON image, for every nesting and every byte string; renderings are single-line, consist of bytes, and strings
   that are valid UTF-8 are their own image. *)
From Coq Require Import List Bool Arith NArith ZArith Lia ZifyN ZifyNat ZifyBool.
From Verif Require Import Json.
Import ListNotations.
Open Scope N_scope.
Ltac Zify.zify_post_hook ::= Z.div_mod_to_equations.

(* ------------------------------------------------------------------ an induction principle for the nested type *)
Section JvInd.
  Variable Q : jv -> Prop.
  Hypothesis Hnull : Q JNull.
  Hypothesis Hbool : forall b, Q (JBool b).
  Hypothesis Hnum : forall t, Q (JNum t).
  Hypothesis Hstr : forall s, Q (JStr s).
  Hypothesis Harr : forall l, Forall Q l -> Q (JArr l).
  Hypothesis Hobj : forall l, Forall (fun kv => Q (snd kv)) l -> Q (JObj l).
  Fixpoint jv_ind' (v : jv) : Q v :=
    match v with
    | JNull => Hnull
    | JBool b => Hbool b
    | JNum t => Hnum t
    | JStr s => Hstr s
    | JArr l => Harr l ((fix go (l : list jv) : Forall Q l :=
                           match l with [] => Forall_nil _ | x :: t => Forall_cons x (jv_ind' x) (go t) end) l)
    | JObj l => Hobj l ((fix go (l : list (bytes * jv)) : Forall (fun kv => Q (snd kv)) l :=
                           match l with [] => Forall_nil _ | kv :: t => Forall_cons kv (jv_ind' (snd kv)) (go t) end) l)
    end.
End JvInd.

(* ------------------------------------------------------------------ hex *)
Lemma unhex_hex d : d < 16 -> unhex (hex d) = Some d.
Proof.
  intros H. unfold hex, unhex. destruct (d <? 10) eqn:E.
  - replace ((48 <=? 48 + d) && (48 + d <=? 57)) with true by lia. f_equal. lia.
  - replace ((48 <=? 87 + d) && (87 + d <=? 57)) with false by lia.
    replace ((97 <=? 87 + d) && (87 + d <=? 102)) with true by lia. f_equal. lia.
Qed.

(* ------------------------------------------------------------------ strings *)
Definition pcons (pre : bytes) (o : option (bytes * bytes)) : option (bytes * bytes) :=
  match o with Some (s, r) => Some (pre ++ s, r) | None => None end.

Lemma parse_esc c inp : c < 128 -> parse_chars (esc c ++ inp) = pcons [c] (parse_chars inp).
Proof.
  intros Hc. unfold esc, pcons.
  destruct (c =? 34) eqn:E1; [apply N.eqb_eq in E1; subst; cbn; destruct (parse_chars inp) as [[? ?]|]; reflexivity|].
  destruct (c =? 92) eqn:E2; [apply N.eqb_eq in E2; subst; cbn; destruct (parse_chars inp) as [[? ?]|]; reflexivity|].
  destruct (c =? 8) eqn:E3; [apply N.eqb_eq in E3; subst; cbn; destruct (parse_chars inp) as [[? ?]|]; reflexivity|].
  destruct (c =? 12) eqn:E4; [apply N.eqb_eq in E4; subst; cbn; destruct (parse_chars inp) as [[? ?]|]; reflexivity|].
  destruct (c =? 10) eqn:E5; [apply N.eqb_eq in E5; subst; cbn; destruct (parse_chars inp) as [[? ?]|]; reflexivity|].
  destruct (c =? 13) eqn:E6; [apply N.eqb_eq in E6; subst; cbn; destruct (parse_chars inp) as [[? ?]|]; reflexivity|].
  destruct (c =? 9) eqn:E7; [apply N.eqb_eq in E7; subst; cbn; destruct (parse_chars inp) as [[? ?]|]; reflexivity|].
  destruct ((c <? 32) || (c =? 60) || (c =? 62) || (c =? 38)) eqn:E8.
  - cbn [app]. unfold parse_chars; fold parse_chars.
    change (92 =? 34) with false. change (92 =? 92) with true. change (117 =? 117) with true.
    change (unhex 48) with (Some 0).
    rewrite !unhex_hex by lia.
    replace (4096 * 0 + 256 * 0 + 16 * (c / 16) + c mod 16) with c by lia.
    unfold utf8_enc. replace (c <? 128) with true by lia.
    destruct (parse_chars inp) as [[s r]|]; reflexivity.
  - cbn [app]. unfold parse_chars; fold parse_chars.
    rewrite E1, E2.
    replace (c <? 32) with false by (destruct (c <? 32); cbn in E8; congruence).
    destruct (parse_chars inp) as [[s r]|]; reflexivity.
Qed.

Lemma parse_raw bs inp : Forall (fun b => 128 <= b) bs -> parse_chars (bs ++ inp) = pcons bs (parse_chars inp).
Proof.
  induction 1 as [|b bs Hb _ IH].
  - cbn [app]. unfold pcons. destruct (parse_chars inp) as [[? ?]|]; reflexivity.
  - cbn [app]. unfold parse_chars; fold parse_chars.
    replace (b =? 34) with false by lia. replace (b =? 92) with false by lia. replace (b <? 32) with false by lia.
    rewrite IH. unfold pcons. destruct (parse_chars inp) as [[? ?]|]; reflexivity.
Qed.

Lemma parse_sep168 inp : parse_chars ([92; 117; 50; 48; 50; 56] ++ inp) = pcons [226; 128; 168] (parse_chars inp).
Proof. vm_compute. reflexivity. Qed.
Lemma parse_sep169 inp : parse_chars ([92; 117; 50; 48; 50; 57] ++ inp) = pcons [226; 128; 169] (parse_chars inp).
Proof. vm_compute. reflexivity. Qed.
Lemma parse_repl inp : parse_chars ([92; 117; 102; 102; 102; 100] ++ inp) = pcons repl (parse_chars inp).
Proof. vm_compute. reflexivity. Qed.

Definition chunk_ok (k : chunk) : Prop :=
  match k with
  | CAscii c => c < 128
  | CRaw bs => Forall (fun b => 128 <= b /\ b < 256) bs
  | CSep c2 => c2 = 168 \/ c2 = 169
  | CBad _ => True
  end.
(* the bytes a chunk stands for *)
Definition orig_chunk (k : chunk) : bytes :=
  match k with CAscii c => [c] | CRaw bs => bs | CSep c2 => [226; 128; c2] | CBad c => [c] end.

Lemma parse_chunk k inp : chunk_ok k -> parse_chars (render_chunk k ++ inp) = pcons (image_chunk k) (parse_chars inp).
Proof.
  destruct k as [c|bs|c2|c]; cbn [chunk_ok render_chunk image_chunk]; intros H.
  - apply parse_esc. exact H.
  - apply parse_raw. eapply Forall_impl; [|exact H]. cbn. intros a [Ha _]. exact Ha.
  - destruct H as [-> | ->].
    + change (hex (168 mod 16)) with 56. apply parse_sep168.
    + change (hex (169 mod 16)) with 57. apply parse_sep169.
  - apply parse_repl.
Qed.

Lemma width_ge c : width c <> 0 -> 194 <= c /\ c <= 244.
Proof.
  unfold width. destruct ((194 <=? c) && (c <=? 223)) eqn:E1; [lia|].
  destruct ((224 <=? c) && (c <=? 239)) eqn:E2; [lia|].
  destruct ((240 <=? c) && (c <=? 244)) eqn:E3; [lia|]. congruence.
Qed.
Lemma ok1_range c c1 : ok1 c c1 = true -> 128 <= c1 /\ c1 <= 191.
Proof.
  unfold ok1, lo1, hi1. destruct (c =? 224); destruct (c =? 240); destruct (c =? 237); destruct (c =? 244); lia.
Qed.
Lemma cont_range c : cont c = true -> 128 <= c /\ c <= 191.
Proof. unfold cont. lia. Qed.

(* every string is cut into good chunks, and the chunks are the string *)
Lemma chunks_spec : forall n s, (length s <= n)%nat ->
  Forall chunk_ok (chunks s) /\ flat_map orig_chunk (chunks s) = s.
Proof.
  induction n as [|n IH]; intros s Hn.
  { destruct s; [split; [constructor|reflexivity]|cbn in Hn; lia]. }
  destruct s as [|c t]; [split; [constructor|reflexivity]|].
  cbn [length] in Hn.
  assert (Hbad : Forall chunk_ok (CBad c :: chunks t) /\ flat_map orig_chunk (CBad c :: chunks t) = c :: t).
  { destruct (IH t ltac:(lia)) as [K1 K2]. split; [constructor; [exact I|exact K1]|]. cbn [flat_map orig_chunk app]. rewrite K2. reflexivity. }
  cbn [chunks]. destruct (c <? 128) eqn:Ec.
  { destruct (IH t ltac:(lia)) as [K1 K2]. split; [constructor; [cbn; lia|exact K1]|]. cbn [flat_map orig_chunk app]. rewrite K2. reflexivity. }
  destruct t as [|c1 t1]; [exact Hbad|].
  cbn [length] in Hn.
  destruct ((width c =? 2) && ok1 c c1) eqn:E2.
  { apply andb_true_iff in E2. destruct E2 as [Ew Eo]. apply N.eqb_eq in Ew.
    pose proof (width_ge c ltac:(lia)). pose proof (ok1_range c c1 Eo).
    destruct (IH t1 ltac:(lia)) as [K1 K2]. split.
    - constructor; [|exact K1]. cbn. repeat constructor; lia.
    - cbn [flat_map orig_chunk app]. rewrite K2. reflexivity. }
  destruct t1 as [|c2 t2]; [exact Hbad|].
  cbn [length] in Hn.
  destruct ((width c =? 3) && ok1 c c1 && cont c2) eqn:E3.
  { apply andb_true_iff in E3. destruct E3 as [E3 Ec2]. apply andb_true_iff in E3. destruct E3 as [Ew Eo]. apply N.eqb_eq in Ew.
    pose proof (width_ge c ltac:(lia)). pose proof (ok1_range c c1 Eo). pose proof (cont_range c2 Ec2).
    destruct (IH t2 ltac:(lia)) as [K1 K2].
    destruct (is_sep c c1 c2) eqn:Es.
    - unfold is_sep in Es. split.
      + constructor; [|exact K1]. cbn. lia.
      + cbn [flat_map orig_chunk app]. rewrite K2.
        assert (c = 226) by lia. assert (c1 = 128) by lia. subst. reflexivity.
    - split.
      + constructor; [|exact K1]. cbn. repeat constructor; lia.
      + cbn [flat_map orig_chunk app]. rewrite K2. reflexivity. }
  destruct t2 as [|c3 t3]; [exact Hbad|].
  cbn [length] in Hn.
  destruct ((width c =? 4) && ok1 c c1 && cont c2 && cont c3) eqn:E4; [|exact Hbad].
  apply andb_true_iff in E4. destruct E4 as [E4 Ec3]. apply andb_true_iff in E4. destruct E4 as [E4 Ec2].
  apply andb_true_iff in E4. destruct E4 as [Ew Eo]. apply N.eqb_eq in Ew.
  pose proof (width_ge c ltac:(lia)). pose proof (ok1_range c c1 Eo). pose proof (cont_range c2 Ec2). pose proof (cont_range c3 Ec3).
  destruct (IH t3 ltac:(lia)) as [K1 K2]. split.
  - constructor; [|exact K1]. cbn. repeat constructor; lia.
  - cbn [flat_map orig_chunk app]. rewrite K2. reflexivity.
Qed.
Lemma chunks_ok s : Forall chunk_ok (chunks s).
Proof. apply (chunks_spec (length s)). lia. Qed.
Lemma chunks_orig s : flat_map orig_chunk (chunks s) = s.
Proof. apply (chunks_spec (length s)). lia. Qed.

Lemma parse_chunks ks rest : Forall chunk_ok ks ->
  parse_chars (flat_map render_chunk ks ++ 34 :: rest) = Some (flat_map image_chunk ks, rest).
Proof.
  induction 1 as [|k ks Hk _ IH].
  - reflexivity.
  - cbn [flat_map]. rewrite <- app_assoc. rewrite (parse_chunk k _ Hk). rewrite IH. reflexivity.
Qed.

(* parsing the body of a rendered string gives the string's image — for every byte string *)
Theorem parse_render_chars s rest : parse_chars (render_chars s ++ 34 :: rest) = Some (sanitize s, rest).
Proof. unfold render_chars, sanitize. apply parse_chunks. apply chunks_ok. Qed.

(* strings that are valid UTF-8 (in particular ASCII strings) are their own image: Go copies them through raw, except for
   the escapes, and a reader gets them back byte for byte *)
Theorem sanitize_valid s : utf8_valid s = true -> sanitize s = s.
Proof.
  unfold utf8_valid, sanitize. intros H. rewrite <- (chunks_orig s) at 2.
  apply negb_true_iff in H. induction (chunks s) as [|k ks IH]; [reflexivity|].
  cbn [existsb] in H. apply orb_false_iff in H. destruct H as [Hk Hks].
  cbn [flat_map]. rewrite (IH Hks). f_equal. destruct k; cbn in *; try reflexivity. discriminate.
Qed.
Lemma ascii_chunks s : ascii s -> chunks s = map CAscii s.
Proof.
  induction 1 as [|c s Hc _ IH]; [reflexivity|]. cbn [chunks map]. replace (c <? 128) with true by lia. rewrite IH. reflexivity.
Qed.
Theorem ascii_valid s : ascii s -> utf8_valid s = true.
Proof.
  intros H. unfold utf8_valid. rewrite (ascii_chunks s H). apply negb_true_iff.
  induction s as [|c s IH]; [reflexivity|]. cbn. apply IH. inversion H; assumption.
Qed.
Theorem sanitize_ascii s : ascii s -> sanitize s = s.
Proof. intros H. apply sanitize_valid. apply ascii_valid. exact H. Qed.
(* the image is always valid UTF-8 and a fixed point *)

(* ------------------------------------------------------------------ unfolding lemmas for the nested fixpoints *)
Section Tails.
  Variable ind : bool.
  Fixpoint arr_tail (d : nat) (t : list jv) : bytes :=
    match t with [] => [] | y :: t' => 44 :: nl ind d ++ render_g ind d y ++ arr_tail d t' end.
  Fixpoint obj_tail (d : nat) (t : list (bytes * jv)) : bytes :=
    match t with
    | [] => []
    | (k', y) :: t' => 44 :: nl ind d ++ render_str k' ++ colon ind ++ render_g ind d y ++ obj_tail d t'
    end.
  Lemma render_arr d x t :
    render_g ind d (JArr (x :: t)) = 91 :: nl ind (S d) ++ render_g ind (S d) x ++ arr_tail (S d) t ++ nl ind d ++ [93].
  Proof.
    cbn [render_g]. do 3 f_equal. f_equal.
    induction t as [|y t IH]; [reflexivity|]. cbn [arr_tail]. rewrite IH. reflexivity.
  Qed.
  Lemma render_obj d k x t :
    render_g ind d (JObj ((k, x) :: t)) =
    123 :: nl ind (S d) ++ render_str k ++ colon ind ++ render_g ind (S d) x ++ obj_tail (S d) t ++ nl ind d ++ [125].
  Proof.
    cbn [render_g]. do 5 f_equal. f_equal.
    induction t as [|[k' y] t IH]; [reflexivity|]. cbn [obj_tail]. rewrite IH. reflexivity.
  Qed.
End Tails.

Fixpoint tsize (t : list jv) : nat := match t with [] => 1 | y :: t' => 1 + size y + tsize t' end%nat.
Fixpoint otsize (t : list (bytes * jv)) : nat := match t with [] => 1 | (_, y) :: t' => 2 + size y + otsize t' end%nat.
Lemma size_arr x t : size (JArr (x :: t)) = (1 + size x + tsize t)%nat.
Proof.
  reflexivity.
Qed.
Lemma size_obj k x t : size (JObj ((k, x) :: t)) = (2 + size x + otsize t)%nat.
Proof.
  reflexivity.
Qed.
Lemma size_pos v : (1 <= size v)%nat.
Proof. destruct v as [| | | |[|x t]|[|[k x] t]]; cbn [size]; lia. Qed.

Fixpoint wf_all (l : list jv) : Prop := match l with [] => True | x :: t => wf x /\ wf_all t end.
Fixpoint wf_mem (l : list (bytes * jv)) : Prop := match l with [] => True | (_, x) :: t => wf x /\ wf_mem t end.
Lemma wf_arr l : wf (JArr l) <-> wf_all l.
Proof. cbn [wf]. induction l as [|x t IH]; cbn [wf_all]; tauto. Qed.
Lemma wf_obj l : wf (JObj l) <-> wf_mem l.
Proof. cbn [wf]. induction l as [|[k x] t IH]; cbn [wf_mem]; tauto. Qed.

Lemma jimage_arr l : jimage (JArr l) = JArr (map jimage l).
Proof. reflexivity. Qed.
Lemma jimage_obj l : jimage (JObj l) = JObj (map (fun kv => (sanitize (fst kv), jimage (snd kv))) l).
Proof. reflexivity. Qed.

(* ------------------------------------------------------------------ white space, numbers *)
Definition all_ws (w : bytes) : Prop := Forall (fun c => is_ws c = true) w.
Lemma skip_ws_app w x : all_ws w -> skip_ws (w ++ x) = skip_ws x.
Proof. induction 1 as [|c w Hc _ IH]; [reflexivity|]. cbn [app skip_ws]. rewrite Hc. exact IH. Qed.
Lemma nl_ws ind d : all_ws (nl ind d).
Proof.
  unfold nl, all_ws. destruct ind; [|constructor]. constructor; [reflexivity|].
  induction (2 * d)%nat as [|n IH]; [constructor|]. cbn [repeat]. constructor; [reflexivity|exact IH].
Qed.
Lemma skip_ws_nws c r : is_ws c = false -> skip_ws (c :: r) = c :: r.
Proof. intros H. cbn [skip_ws]. rewrite H. reflexivity. Qed.

Definition follow_ok (rest : bytes) : Prop := match rest with c :: _ => numchar c = false | [] => True end.

Lemma span_num_app tok rest :
  Forall (fun c => numchar c = true) tok -> follow_ok rest -> span_num (tok ++ rest) = (tok, rest).
Proof.
  induction 1 as [|c tok Hc _ IH]; intros Hf.
  - cbn [app]. destruct rest as [|c r]; [reflexivity|]. cbn [span_num]. cbn in Hf. rewrite Hf. reflexivity.
  - cbn [app span_num]. rewrite Hc. rewrite (IH Hf). reflexivity.
Qed.
Lemma valid_num_head tok : valid_num tok = true -> exists c r, tok = c :: r /\ ((c =? 45) || is_digit c) = true.
Proof.
  unfold valid_num, strip_minus. destruct tok as [|c r]; [discriminate|]. intros H. exists c, r. split; [reflexivity|].
  destruct (c =? 45) eqn:E; [reflexivity|]. cbn [orb].
  destruct (c =? 48) eqn:E0; [apply N.eqb_eq in E0; subst; reflexivity|]. destruct (is_digit c); [reflexivity|discriminate].
Qed.

(* first character of a rendering: never white space, never a closing bracket *)
Lemma render_head ind d v tl : wf v ->
  exists c r, render_g ind d v ++ tl = c :: r /\ is_ws c = false /\ (c =? 93) = false /\ (c =? 125) = false.
Proof.
  intros Hw. destruct v as [|[|]|tok|s|[|x t]|[|[k x] t]].
  - eexists _, _. split; [reflexivity|]. repeat split.
  - eexists _, _. split; [reflexivity|]. repeat split.
  - eexists _, _. split; [reflexivity|]. repeat split.
  - cbn [render_g]. destruct Hw as [Hv _]. destruct (valid_num_head tok Hv) as [c [r [-> Hc]]].
    eexists _, _. split; [reflexivity|]. unfold is_digit, is_ws in *. repeat split; lia.
  - eexists _, _. split; [reflexivity|]. repeat split.
  - eexists _, _. split; [reflexivity|]. repeat split.
  - rewrite render_arr. eexists _, _. split; [reflexivity|]. repeat split.
  - eexists _, _. split; [reflexivity|]. repeat split.
  - rewrite render_obj. eexists _, _. split; [reflexivity|]. repeat split.
Qed.

Lemma parse_str_render w k rest : all_ws w -> parse_str (w ++ render_str k ++ rest) = Some (sanitize k, rest).
Proof.
  intros Hw. unfold parse_str. rewrite (skip_ws_app _ _ Hw). unfold render_str. cbn [app skip_ws].
  change (is_ws 34) with false. cbv iota. change (34 =? 34) with true. cbv iota.
  rewrite <- app_assoc. cbn [app]. apply parse_render_chars.
Qed.

Lemma colon_shape ind : exists w, colon ind = 58 :: w /\ all_ws w.
Proof. destruct ind; cbn [colon]; eexists; split; try reflexivity; repeat constructor. Qed.

(* ------------------------------------------------------------------ the round trip *)
Theorem parse_render_n ind : forall n v, (size v <= n)%nat -> wf v ->
  forall d k w rest, (size v <= k)%nat -> all_ws w -> follow_ok rest ->
    parse k (w ++ render_g ind d v ++ rest) = Some (jimage v, rest).
Proof.
  induction n as [|n IH]; intros v Hs Hw d k w rest Hk Hws Hf.
  { pose proof (size_pos v). lia. }
  destruct k as [|k]; [pose proof (size_pos v); lia|].
  destruct (render_head ind d v rest Hw) as [c0 [r0 [Ehd [Hnws [Hn93 Hn125]]]]].
  assert (Hskip : skip_ws (w ++ render_g ind d v ++ rest) = render_g ind d v ++ rest).
  { rewrite (skip_ws_app _ _ Hws). rewrite Ehd. apply skip_ws_nws. exact Hnws. }
  destruct v as [|[|]|tok|s|l|l].
  - cbn [parse]. rewrite Hskip. reflexivity.
  - cbn [parse]. rewrite Hskip. reflexivity.
  - cbn [parse]. rewrite Hskip. reflexivity.
  - (* number *)
    destruct Hw as [Hv Hd]. destruct (valid_num_head tok Hv) as [c [r [-> Hc]]].
    cbn [parse]. rewrite Hskip. cbn [render_g app jimage].
    assert (c <> 110 /\ c <> 116 /\ c <> 102 /\ c <> 34) as [N1 [N2 [N3 N4]]] by (unfold is_digit in Hc; lia).
    replace (c =? 110) with false by lia. replace (c =? 116) with false by lia.
    replace (c =? 102) with false by lia. replace (c =? 34) with false by lia. rewrite Hc.
    change (c :: r ++ rest) with ((c :: r) ++ rest). rewrite (span_num_app _ _ Hd Hf). rewrite Hv. reflexivity.
  - (* string *)
    cbn [parse]. rewrite Hskip. cbn [render_g jimage]. unfold render_str. cbn [app].
    change (34 =? 110) with false. change (34 =? 116) with false. change (34 =? 102) with false.
    change (34 =? 34) with true. cbv iota. rewrite <- app_assoc. cbn [app].
    rewrite (parse_render_chars s rest). reflexivity.
  - (* array *)
    apply wf_arr in Hw.
    assert (Htail : forall t, (tsize t <= n)%nat -> wf_all t -> forall d k rest, (tsize t <= k)%nat ->
                    parse_arr_tail k (arr_tail ind (S d) t ++ nl ind d ++ 93 :: rest) = Some (map jimage t, rest)).
    { induction t as [|y t IHt]; intros Ht Hwt d0 k0 rest0 Hk0.
      - destruct k0; [cbn in Hk0; lia|]. cbn [arr_tail app parse_arr_tail].
        rewrite (skip_ws_app _ _ (nl_ws ind d0)). reflexivity.
      - cbn [tsize] in *. destruct k0 as [|k0]; [lia|]. destruct Hwt as [Hy Hwt].
        cbn [arr_tail app parse_arr_tail skip_ws]. change (is_ws 44) with false. cbv iota.
        change (44 =? 93) with false. change (44 =? 44) with true. cbv iota.
        rewrite <- !app_assoc.
        rewrite (IH y); [|lia|assumption|lia|apply nl_ws|].
        + rewrite IHt; [reflexivity|lia|assumption|lia].
        + destruct t as [|z t]; [|reflexivity]. cbn [arr_tail app].
          unfold nl. destruct ind; reflexivity. }
    destruct l as [|x t].
    + cbn [parse]. rewrite Hskip. reflexivity.
    + rewrite size_arr in *. destruct Hw as [Hx Hwt].
      cbn [parse]. rewrite Hskip. rewrite render_arr. cbn [app].
      change (91 =? 110) with false. change (91 =? 116) with false. change (91 =? 102) with false.
      change (91 =? 34) with false. change ((91 =? 45) || is_digit 91) with false. change (91 =? 91) with true. cbv iota.
      rewrite <- !app_assoc.
      destruct (render_head ind (S d) x (arr_tail ind (S d) t ++ nl ind d ++ [93] ++ rest) Hx) as [c [r [Ehx [Hcw [Hc93 _]]]]].
      rewrite (skip_ws_app _ _ (nl_ws ind (S d))). rewrite Ehx. rewrite (skip_ws_nws _ _ Hcw). rewrite Hc93.
      rewrite <- Ehx.
      rewrite (IH x); [|lia|assumption|lia|apply nl_ws|].
      * cbn [app]. rewrite Htail; [reflexivity|lia|assumption|lia].
      * destruct t as [|z t]; [|reflexivity]. cbn [arr_tail app]. unfold nl. destruct ind; reflexivity.
  - (* object *)
    apply wf_obj in Hw.
    assert (Hmem : forall key y, wf y -> (size y <= n)%nat -> forall d k w rest, (1 + size y <= k)%nat -> all_ws w -> follow_ok rest ->
                   parse_member k (w ++ render_str key ++ colon ind ++ render_g ind d y ++ rest) = Some ((sanitize key, jimage y), rest)).
    { intros key y Hy Hsy d0 k0 w0 rest0 Hk0 Hw0 Hf0. destruct k0 as [|k0]; [lia|].
      cbn [parse_member]. rewrite (parse_str_render w0 key _ Hw0).
      destruct (colon_shape ind) as [cw [-> Hcw]]. cbn [app skip_ws]. change (is_ws 58) with false. cbv iota.
      change (58 =? 58) with true. cbv iota.
      rewrite (IH y); [reflexivity|lia|assumption|lia|assumption|assumption]. }
    assert (Htail : forall t, (otsize t <= n)%nat -> wf_mem t -> forall d k rest, (otsize t <= k)%nat ->
                    parse_obj_tail k (obj_tail ind (S d) t ++ nl ind d ++ 125 :: rest) =
                    Some (map (fun kv => (sanitize (fst kv), jimage (snd kv))) t, rest)).
    { induction t as [|[ky y] t IHt]; intros Ht Hwt d0 k0 rest0 Hk0.
      - destruct k0; [cbn in Hk0; lia|]. cbn [obj_tail app parse_obj_tail].
        rewrite (skip_ws_app _ _ (nl_ws ind d0)). reflexivity.
      - cbn [otsize] in *. destruct k0 as [|k0]; [lia|]. destruct Hwt as [Hy Hwt].
        cbn [obj_tail app parse_obj_tail skip_ws]. change (is_ws 44) with false. cbv iota.
        change (44 =? 125) with false. change (44 =? 44) with true. cbv iota.
        rewrite <- !app_assoc.
        rewrite Hmem; [|assumption|lia|lia|apply nl_ws|].
        + rewrite IHt; [reflexivity|lia|assumption|lia].
        + destruct t as [|[kz z] t]; [|reflexivity]. cbn [obj_tail app]. unfold nl. destruct ind; reflexivity. }
    destruct l as [|[key x] t].
    + cbn [parse]. rewrite Hskip. reflexivity.
    + rewrite size_obj in *. destruct Hw as [Hx Hwt].
      cbn [parse]. rewrite Hskip. rewrite render_obj. cbn [app].
      change (123 =? 110) with false. change (123 =? 116) with false. change (123 =? 102) with false.
      change (123 =? 34) with false. change ((123 =? 45) || is_digit 123) with false.
      change (123 =? 91) with false. change (123 =? 123) with true. cbv iota.
      rewrite <- !app_assoc.
      rewrite (skip_ws_app _ _ (nl_ws ind (S d))). unfold render_str at 1. cbn [app skip_ws].
      change (is_ws 34) with false. cbv iota. change (34 =? 125) with false. cbv iota.
      change (34 :: render_chars key ++ [34] ++ colon ind ++ render_g ind (S d) x ++ obj_tail ind (S d) t ++ nl ind d ++ [125] ++ rest)
        with (render_str key ++ colon ind ++ render_g ind (S d) x ++ obj_tail ind (S d) t ++ nl ind d ++ [125] ++ rest).
      rewrite Hmem; [|assumption|lia|lia|apply nl_ws|].
      * cbn [app]. rewrite Htail; [reflexivity|lia|assumption|lia].
      * destruct t as [|[kz z] t]; [|reflexivity]. cbn [obj_tail app]. unfold nl. destruct ind; reflexivity.
Qed.

(* parse . render = image, for both renderings, at every indentation depth, followed by anything that does not continue a
   number token *)
Theorem parse_render_g ind d v rest : wf v -> follow_ok rest ->
  parse (size v) (render_g ind d v ++ rest) = Some (jimage v, rest).
Proof. intros Hw Hf. apply (parse_render_n ind (size v) v (le_n _) Hw d (size v) [] rest (le_n _)); [constructor|exact Hf]. Qed.

Theorem parse_render v rest : wf v -> follow_ok rest -> parse (size v) (render v ++ rest) = Some (jimage v, rest).
Proof. apply parse_render_g. Qed.
Theorem parse_render_indent v rest : wf v -> follow_ok rest ->
  parse (size v) (render_indent v ++ rest) = Some (jimage v, rest).
Proof. apply parse_render_g. Qed.

(* ------------------------------------------------------------------ what the bytes of a rendering look like *)
Lemma hex_range d : d < 16 -> 48 <= hex d /\ hex d <= 102.
Proof. intros H. unfold hex. destruct (d <? 10) eqn:E; lia. Qed.

Lemma Forall_flat_map {A} (Pr : N -> Prop) (f : A -> bytes) l :
  Forall (fun x => Forall Pr (f x)) l -> Forall Pr (flat_map f l).
Proof. induction 1 as [|x l Hx _ IH]; [constructor|]. cbn [flat_map]. apply Forall_app. split; assumption. Qed.

Section RenderForall.
  Variable Pr : N -> Prop.
  Variable ind : bool.
  Hypothesis Hpunct : forall c, In c [110; 117; 108; 116; 114; 101; 102; 97; 115; 91; 93; 123; 125; 44; 58; 34] -> Pr c.
  Hypothesis Hws : ind = true -> Pr 10 /\ Pr 32.
  Hypothesis Hchunk : forall k, chunk_ok k -> Forall Pr (render_chunk k).
  Hypothesis Hnum : forall c, numchar c = true -> Pr c.

  Lemma nl_forall d : Forall Pr (nl ind d).
  Proof.
    unfold nl. destruct ind eqn:E; [|constructor]. destruct (Hws eq_refl) as [H10 H32]. constructor; [exact H10|].
    induction (2 * d)%nat as [|n IH]; [constructor|]. cbn [repeat]. constructor; [exact H32|exact IH].
  Qed.
  Lemma colon_forall : Forall Pr (colon ind).
  Proof.
    unfold colon. destruct ind eqn:E.
    - destruct (Hws eq_refl) as [_ H32]. constructor; [apply Hpunct; cbn; tauto|]. constructor; [exact H32|constructor].
    - constructor; [apply Hpunct; cbn; tauto|constructor].
  Qed.
  Lemma render_str_forall s : Forall Pr (render_str s).
  Proof.
    unfold render_str. constructor; [apply Hpunct; cbn; tauto|]. apply Forall_app. split.
    - unfold render_chars. apply Forall_flat_map. eapply Forall_impl; [|apply chunks_ok]. exact Hchunk.
    - constructor; [apply Hpunct; cbn; tauto|constructor].
  Qed.

  Lemma render_g_forall v : wf v -> forall d, Forall Pr (render_g ind d v).
  Proof.
    induction v as [|b|tok|s|l IHl|l IHl] using jv_ind'; intros Hw d.
    - cbn [render_g]. repeat constructor; apply Hpunct; cbn; tauto.
    - destruct b; cbn [render_g]; repeat constructor; apply Hpunct; cbn; tauto.
    - cbn [render_g]. destruct Hw as [_ Hd]. eapply Forall_impl; [|exact Hd]. exact Hnum.
    - cbn [render_g]. apply render_str_forall.
    - apply wf_arr in Hw. destruct l as [|x t].
      + cbn [render_g]. repeat constructor; apply Hpunct; cbn; tauto.
      + rewrite render_arr. inversion IHl as [|? ? IHx IHt]; subst. destruct Hw as [Hx Hwt].
        constructor; [apply Hpunct; cbn; tauto|]. apply Forall_app. split; [apply nl_forall|].
        apply Forall_app. split; [apply IHx; exact Hx|]. apply Forall_app. split.
        * clear IHx Hx IHl. induction t as [|y t IH]; [constructor|].
          inversion IHt as [|? ? IHy IHt']; subst. destruct Hwt as [Hy Hwt].
          cbn [arr_tail]. constructor; [apply Hpunct; cbn; tauto|]. apply Forall_app. split; [apply nl_forall|].
          apply Forall_app. split; [apply IHy; exact Hy|]. apply IH; assumption.
        * apply Forall_app. split; [apply nl_forall|]. constructor; [apply Hpunct; cbn; tauto|constructor].
    - apply wf_obj in Hw. destruct l as [|[k x] t].
      + cbn [render_g]. repeat constructor; apply Hpunct; cbn; tauto.
      + rewrite render_obj. inversion IHl as [|? ? IHx IHt]; subst. destruct Hw as [Hx Hwt]. cbn [snd] in IHx.
        constructor; [apply Hpunct; cbn; tauto|]. apply Forall_app. split; [apply nl_forall|].
        apply Forall_app. split; [apply render_str_forall|]. apply Forall_app. split; [apply colon_forall|].
        apply Forall_app. split; [apply IHx; exact Hx|]. apply Forall_app. split.
        * clear IHx Hx IHl. induction t as [|[k' y] t IH]; [constructor|].
          inversion IHt as [|? ? IHy IHt']; subst. destruct Hwt as [Hy Hwt]. cbn [snd] in IHy.
          cbn [obj_tail]. constructor; [apply Hpunct; cbn; tauto|]. apply Forall_app. split; [apply nl_forall|].
          apply Forall_app. split; [apply render_str_forall|]. apply Forall_app. split; [apply colon_forall|].
          apply Forall_app. split; [apply IHy; exact Hy|]. apply IH; assumption.
        * apply Forall_app. split; [apply nl_forall|]. constructor; [apply Hpunct; cbn; tauto|constructor].
  Qed.
End RenderForall.

Lemma esc_range c : c < 128 -> Forall (fun b => b <> 10 /\ b < 128) (esc c).
Proof.
  intros Hc. unfold esc.
  destruct (c =? 34); [repeat constructor; lia|]. destruct (c =? 92); [repeat constructor; lia|].
  destruct (c =? 8); [repeat constructor; lia|]. destruct (c =? 12); [repeat constructor; lia|].
  destruct (c =? 10) eqn:E10; [repeat constructor; lia|]. destruct (c =? 13); [repeat constructor; lia|].
  destruct (c =? 9); [repeat constructor; lia|].
  destruct ((c <? 32) || (c =? 60) || (c =? 62) || (c =? 38)).
  - pose proof (hex_range (c / 16) ltac:(lia)) as Ha. pose proof (hex_range (c mod 16) ltac:(lia)) as Hb.
    repeat constructor; lia.
  - repeat constructor; lia.
Qed.
Lemma render_chunk_range k : chunk_ok k -> Forall (fun b => b <> 10 /\ b < 256) (render_chunk k).
Proof.
  destruct k as [c|bs|c2|c]; cbn [chunk_ok render_chunk]; intros H.
  - eapply Forall_impl; [|apply esc_range; exact H]. cbn. intros a [Ha Hb]. lia.
  - eapply Forall_impl; [|exact H]. cbn. intros a [Ha Hb]. lia.
  - pose proof (hex_range (c2 mod 16) ltac:(lia)) as Hh. repeat constructor; lia.
  - repeat constructor; lia.
Qed.
Lemma numchar_range c : numchar c = true -> c <> 10 /\ c < 256.
Proof. unfold numchar, is_digit. lia. Qed.

(* the compact rendering of any well-formed value contains no newline: the line Encoder.Encode writes is a single line *)
Theorem render_single_line v : wf v -> ~ In 10 (render v).
Proof.
  intros Hw Hin.
  assert (H : Forall (fun b => b <> 10) (render v)).
  { unfold render. apply render_g_forall; try assumption.
    - intros c Hc. cbn in Hc. repeat (destruct Hc as [<-|Hc]; [lia|]). destruct Hc.
    - discriminate.
    - intros k Hk. eapply Forall_impl; [|apply render_chunk_range; exact Hk]. cbn. tauto.
    - intros c Hc. apply numchar_range. exact Hc. }
  rewrite Forall_forall in H. apply (H 10 Hin). reflexivity.
Qed.
Theorem encode_line_single v : wf v -> exists body, encode_line v = body ++ [10] /\ ~ In 10 body.
Proof. intros Hw. exists (render v). split; [reflexivity|]. apply render_single_line. exact Hw. Qed.

(* both renderings consist of bytes *)
Theorem render_g_bytes ind d v : wf v -> Forall (fun b => b < 256) (render_g ind d v).
Proof.
  intros Hw. apply render_g_forall; try assumption.
  - intros c Hc. cbn in Hc. repeat (destruct Hc as [<-|Hc]; [lia|]). destruct Hc.
  - intros _. lia.
  - intros k Hk. eapply Forall_impl; [|apply render_chunk_range; exact Hk]. cbn. tauto.
  - intros c Hc. apply numchar_range. exact Hc.
Qed.

(* ------------------------------------------------------------------ whole documents *)
Lemma length_render_str k : (2 <= length (render_str k))%nat.
Proof. unfold render_str. cbn [length]. rewrite app_length. cbn [length]. lia. Qed.
Lemma length_colon ind : (1 <= length (colon ind))%nat.
Proof. destruct ind; cbn; lia. Qed.

Lemma size_le_length ind v : wf v -> forall d, (size v <= length (render_g ind d v))%nat.
Proof.
  induction v as [|b|tok|s|l IHl|l IHl] using jv_ind'; intros Hw d.
  - cbn. lia.
  - destruct b; cbn; lia.
  - cbn [size render_g]. destruct Hw as [Hv _]. destruct (valid_num_head tok Hv) as [c [r [-> _]]]. cbn [length]. lia.
  - cbn [size render_g]. pose proof (length_render_str s). lia.
  - apply wf_arr in Hw. destruct l as [|x t]; [cbn; lia|].
    rewrite size_arr, render_arr. inversion IHl as [|? ? IHx IHt]; subst. destruct Hw as [Hx Hwt].
    cbn [length]. rewrite !app_length. specialize (IHx Hx (S d)).
    assert (Ht : (tsize t <= length (arr_tail ind (S d) t) + 1)%nat).
    { clear IHx Hx IHl. induction t as [|y t IH]; [cbn; lia|].
      inversion IHt as [|? ? IHy IHt']; subst. destruct Hwt as [Hy Hwt].
      cbn [tsize arr_tail length]. rewrite !app_length. specialize (IHy Hy (S d)). specialize (IH Hwt IHt'). lia. }
    cbn [length]. lia.
  - apply wf_obj in Hw. destruct l as [|[k x] t]; [cbn; lia|].
    rewrite size_obj, render_obj. inversion IHl as [|? ? IHx IHt]; subst. destruct Hw as [Hx Hwt]. cbn [snd] in IHx.
    cbn [length]. rewrite !app_length. specialize (IHx Hx (S d)).
    pose proof (length_render_str k) as Lk. pose proof (length_colon ind) as Lc.
    assert (Ht : (otsize t <= length (obj_tail ind (S d) t) + 1)%nat).
    { clear IHx Hx IHl Lk. induction t as [|[k' y] t IH]; [cbn; lia|].
      inversion IHt as [|? ? IHy IHt']; subst. destruct Hwt as [Hy Hwt]. cbn [snd] in IHy.
      cbn [otsize obj_tail length]. rewrite !app_length. specialize (IHy Hy (S d)). specialize (IH Hwt IHt').
      pose proof (length_render_str k') as Lk'. lia. }
    cbn [length]. lia.
Qed.

(* a whole stored value — the rendering followed by the newline Encoder.Encode appends — parses to the image *)
Theorem parse_doc_render ind v : wf v -> parse_doc (render_g ind 0 v ++ [10]) = Some (jimage v).
Proof.
  intros Hw. unfold parse_doc.
  pose proof (parse_render_n ind (size v) v (le_n _) Hw 0%nat (S (length (render_g ind 0 v ++ [10]))) [] [10]) as H.
  cbn [app] in H. rewrite H.
  - reflexivity.
  - rewrite app_length. pose proof (size_le_length ind v Hw 0%nat). lia.
  - constructor.
  - reflexivity.
Qed.
Theorem parse_doc_line v : wf v -> parse_doc (encode_line v) = Some (jimage v).
Proof. apply (parse_doc_render false). Qed.
Theorem parse_doc_text v : wf v -> parse_doc (encode_text v) = Some (jimage v).
Proof. apply (parse_doc_render true). Qed.

(* ------------------------------------------------------------------ well-formedness is decidable; images of valid values *)
Lemma wfb_wf v : wfb v = true -> wf v.
Proof.
  induction v as [|b|tok|s|l IHl|l IHl] using jv_ind'; intros H; try exact I.
  - cbn [wfb] in H. apply andb_true_iff in H. destruct H as [H1 H2]. split; [exact H1|].
    apply Forall_forall. intros c Hc. rewrite forallb_forall in H2. apply H2. exact Hc.
  - apply wf_arr. cbn [wfb] in H. induction l as [|x t IH]; [exact I|].
    inversion IHl as [|? ? IHx IHt]; subst. apply andb_true_iff in H. destruct H as [Hx Ht].
    split; [apply IHx; exact Hx|]. apply IH; assumption.
  - apply wf_obj. cbn [wfb] in H. induction l as [|[k x] t IH]; [exact I|].
    inversion IHl as [|? ? IHx IHt]; subst. apply andb_true_iff in H. destruct H as [Hx Ht]. cbn [snd] in IHx.
    split; [apply IHx; exact Hx|]. apply IH; assumption.
Qed.

(* values all of whose strings and keys are valid UTF-8 *)
Fixpoint jvalid (v : jv) : Prop :=
  match v with
  | JStr s => utf8_valid s = true
  | JArr l => (fix all (l : list jv) : Prop := match l with [] => True | x :: t => jvalid x /\ all t end) l
  | JObj l => (fix all (l : list (bytes * jv)) : Prop :=
                 match l with [] => True | (k, x) :: t => utf8_valid k = true /\ jvalid x /\ all t end) l
  | _ => True
  end.
Theorem jimage_valid v : jvalid v -> jimage v = v.
Proof.
  induction v as [|b|tok|s|l IHl|l IHl] using jv_ind'; intros H; try reflexivity.
  - cbn [jimage]. f_equal. apply sanitize_valid. exact H.
  - rewrite jimage_arr. f_equal. cbn [jvalid] in H. induction l as [|x t IH]; [reflexivity|].
    inversion IHl as [|? ? IHx IHt]; subst. destruct H as [Hx Ht]. cbn [map]. rewrite (IHx Hx). f_equal. apply IH; assumption.
  - rewrite jimage_obj. f_equal. cbn [jvalid] in H. induction l as [|[k x] t IH]; [reflexivity|].
    inversion IHl as [|? ? IHx IHt]; subst. destruct H as [Hk [Hx Ht]]. cbn [snd] in IHx. cbn [map fst snd].
    rewrite (IHx Hx). rewrite (sanitize_valid k Hk). f_equal. apply IH; assumption.
Qed.

(* for such values the round trip is the identity *)
Corollary parse_render_valid v rest : wf v -> jvalid v -> follow_ok rest ->
  parse (size v) (render v ++ rest) = Some (v, rest).
Proof. intros Hw Hv Hf. rewrite (parse_render v rest Hw Hf). rewrite (jimage_valid v Hv). reflexivity. Qed.

(* faithfulness as injectivity: two well-formed values with the same rendering (compact or indented, at any depth, even one
   compact and one indented at different depths when the bytes coincide) have the same JSON image — the line determines the
   image *)
Theorem render_g_injective ind1 d1 ind2 d2 v1 v2 : wf v1 -> wf v2 ->
  render_g ind1 d1 v1 = render_g ind2 d2 v2 -> jimage v1 = jimage v2.
Proof.
  intros W1 W2 E.
  pose proof (parse_render_n ind1 (size v1) v1 (le_n _) W1 d1 (size v1 + size v2)%nat [] [] (Nat.le_add_r _ _)
                (Forall_nil _) I) as P1.
  pose proof (parse_render_n ind2 (size v2) v2 (le_n _) W2 d2 (size v1 + size v2)%nat [] []
                (Nat.le_add_l _ _) (Forall_nil _) I) as P2.
  cbn [app] in P1, P2. rewrite E, P2 in P1. injection P1 as P1. symmetry. exact P1.
Qed.

Corollary render_injective v1 v2 : wf v1 -> wf v2 -> render v1 = render v2 -> jimage v1 = jimage v2.
Proof. apply render_g_injective. Qed.
