(* LockDeadlock.v — any number of threads whose remaining traces are safe (LockSound.trace_safe, which includes the lock
   order: a lock is only acquired while every held lock has a smaller rank, a callback that may take lock l only runs
   while every held lock ranks below l) never deadlock on the library's locks.
   Semantics: a configuration is a list of threads (locks held, events still to perform).  The next event of a thread is
   enabled when the mutex / RW-lock rules allow it with respect to all the other threads: a write acquisition needs the
   lock to be free, a read acquisition needs no writer to hold it AND no writer to be queued on it (Go's sync.RWMutex
   prefers writers: a pending Lock blocks new RLocks -- this is what makes recursive read locking deadlock), a callback of
   kind k needs every lock of user_acquires k to be read-acquirable (it may call Broker.Send), everything else is always
   enabled.  Theorem no_deadlock: in a good configuration in which some thread is unfinished, some thread can step; good
   configurations are closed under steps, so no reachable configuration is stuck. *)
From Coq Require Import List Bool Arith String Lia.
From Verif Require Import LockLang LockSound.
Import ListNotations.

Section Deadlock.
  Variable C : contracts.

  Definition thr := (held * trace)%type.
  Definition cfg := list thr.

  (* the locks the next event has to be granted (a callback: transiently, in read mode) *)
  Definition needs (e : ev) : list (string * mode) :=
    match e with
    | EA (Acq l m) => [(l, m)]
    | EA (User k) => map (fun l => (l, MR)) (user_acquires C k)
    | _ => []
    end.
  Definition waiting_wb (t : thr) (l : string) : bool :=
    match snd t with (_, EA (Acq l' MW)) :: _ => String.eqb l' l | _ => false end.
  Definition holds_w (t : thr) (l : string) : bool := match lookup l (fst t) with Some MW => true | _ => false end.
  Definition holds (t : thr) (l : string) : bool := match lookup l (fst t) with Some _ => true | None => false end.
  Definition grantb (others : list thr) (l : string) (m : mode) : bool :=
    forallb (fun o => match m with
                      | MW => negb (holds o l)
                      | MR => negb (holds_w o l) && negb (waiting_wb o l)
                      end) others.
  Definition enabledb (others : list thr) (t : thr) : bool :=
    match snd t with
    | [] => false
    | a :: _ => forallb (fun lm => grantb others (fst lm) (snd lm)) (needs (snd a))
    end.

  Inductive stepN : cfg -> cfg -> Prop :=
  | StepN pre H a T post : enabledb (pre ++ post) (H, a :: T) = true ->
      stepN (pre ++ (H, a :: T) :: post) (pre ++ (updE H (snd a), T) :: post).

  (* a thread is good when what it still has to do is safe and ends with every lock released *)
  Record tgood (t : thr) : Prop := {
    tg_safe : trace_safe C (fst t) (snd t);
    tg_bal : forall l, lookup l (upds (fst t) (snd t)) = None;
  }.
  Definition cgood (c : cfg) : Prop := forall t, In t c -> tgood t.

  (* ---------- a thread that holds a lock is not finished; its next acquisition ranks above everything it holds ---------- *)
  Lemma holder_unfinished t l : tgood t -> holds t l = true -> snd t <> [].
  Proof.
    intros [_ Hb] Hh Hnil. unfold holds in Hh. specialize (Hb l). rewrite Hnil in Hb. cbn in Hb. rewrite Hb in Hh. discriminate.
  Qed.

  Lemma ranked_holds rk (H : held) l l' : ranked rk H l' = true -> lookup l H <> None -> (rk l < rk l')%nat.
  Proof.
    intros Hr Hl. destruct (lookup_in _ _ Hl) as [m Hm]. unfold ranked in Hr. rewrite forallb_forall in Hr.
    specialize (Hr _ Hm). cbn in Hr. apply Nat.ltb_lt. exact Hr.
  Qed.

  (* the safety of the next event: the needed locks are not held by the thread itself and rank above all it holds *)
  Lemma needs_fresh_ranked H fn e T l m :
    trace_safe C H ((fn, e) :: T) -> In (l, m) (needs e) -> lookup l H = None /\ ranked (rank C) H l = true.
  Proof.
    intros [Hs _] Hin. cbn [fst snd] in Hs. destruct e as [[l0 m0|l0 m0|f|f|k]|p]; cbn [needs] in Hin.
    - destruct Hin as [E|[]]. inversion E; subst. exact Hs.
    - destruct Hin.
    - destruct Hin.
    - destruct Hin.
    - apply in_map_iff in Hin as [x [E Hx]]. inversion E; subst. cbn [ev_safe act_safe] in Hs. destruct Hs as [Hd Hr].
      rewrite disjoint_spec in Hd. rewrite forallb_forall in Hr. auto.
    - destruct Hin.
  Qed.

  (* ---------- no deadlock ---------- *)
  Definition all_needed (c : cfg) : list nat :=
    flat_map (fun t => match snd t with [] => [] | a :: _ => map (fun lm => rank C (fst lm)) (needs (snd a)) end) c.

  (* u (at some position of c) is blocked on l *)
  Definition blocked (c : cfg) (u : thr) (l : string) : Prop :=
    exists pre post a T m, c = pre ++ u :: post /\ snd u = a :: T /\ In (l, m) (needs (snd a)) /\ grantb (pre ++ post) l m = false.

  Lemma forallb_false {A} (f : A -> bool) l : forallb f l = false -> exists x, In x l /\ f x = false.
  Proof.
    induction l as [|a t IH]; cbn; [discriminate|]. destruct (f a) eqn:E; cbn.
    - intros Hf. destruct (IH Hf) as [x [Hx Hfx]]. eauto.
    - intros _. eauto.
  Qed.

  Lemma in_split_cfg (c : cfg) u : In u c -> exists pre post, c = pre ++ u :: post.
  Proof. apply in_split. Qed.

  Section AllDisabled.
    Variable c : cfg.
    Hypothesis Hgood : cgood c.
    Hypothesis Hdis : forall pre t post, c = pre ++ t :: post -> snd t <> [] -> enabledb (pre ++ post) t = false.

    (* an unfinished thread is blocked on something *)
    Lemma unfinished_blocked u : In u c -> snd u <> [] -> exists l, blocked c u l.
    Proof.
      intros Hin Hne. destruct (in_split_cfg _ _ Hin) as [pre [post Hc]].
      pose proof (Hdis _ _ _ Hc Hne) as He. unfold enabledb in He. destruct (snd u) as [|a T] eqn:Es; [congruence|].
      destruct (forallb_false _ _ He) as [[l m] [Hlm Hg]]. cbn [fst snd] in Hg.
      exists l, pre, post, a, T, m. auto.
    Qed.

    (* whoever is blocked on l is blocked by a thread that holds l *)
    Lemma blocked_has_holder u l : blocked c u l -> exists h, In h c /\ holds h l = true.
    Proof.
      intros [pre [post [a [T [m [Hc [Hs [Hn Hg]]]]]]]].
      unfold grantb in Hg. destruct (forallb_false _ _ Hg) as [o [Ho Hf]].
      assert (Hoc : In o c) by (rewrite Hc; apply in_app_or in Ho as [Ho|Ho]; apply in_or_app; [left|right; right]; exact Ho).
      destruct m.
      - (* a reader: blocked by a holder in write mode, or by a queued writer, who in turn is blocked by a holder *)
        apply andb_false_iff in Hf as [Hf|Hf]; apply negb_false_iff in Hf.
        + exists o. split; [exact Hoc|]. unfold holds_w in Hf. unfold holds. destruct (lookup l (fst o)) as [[|]|]; try discriminate; reflexivity.
        + (* o's next event is Acq l MW *)
          unfold waiting_wb in Hf. destruct (snd o) as [|[fo eo] To] eqn:Eo; [discriminate|].
          destruct eo as [[l' m'|? ?|?|?|?]|?]; try discriminate. destruct m'; [discriminate|]. apply String.eqb_eq in Hf. subst l'.
          destruct (in_split_cfg _ _ Hoc) as [pre2 [post2 Hc2]].
          assert (Hne : snd o <> []) by (rewrite Eo; discriminate).
          pose proof (Hdis _ _ _ Hc2 Hne) as He. unfold enabledb in He. rewrite Eo in He. cbn [snd needs forallb fst] in He.
          rewrite andb_true_r in He. unfold grantb in He. destruct (forallb_false _ _ He) as [o2 [Ho2 Hf2]].
          apply negb_false_iff in Hf2. exists o2. split; [|exact Hf2].
          rewrite Hc2. apply in_app_or in Ho2 as [Ho2|Ho2]; apply in_or_app; [left|right; right]; exact Ho2.
      - apply negb_false_iff in Hf. exists o. auto.
    Qed.

    (* from a blocked thread to one blocked on a lock of strictly greater rank *)
    Lemma blocked_climbs u l : blocked c u l -> exists u' l', blocked c u' l' /\ (rank C l < rank C l')%nat.
    Proof.
      intros Hb. destruct (blocked_has_holder _ _ Hb) as [h [Hh Hhl]].
      pose proof (Hgood _ Hh) as Hgh.
      pose proof (holder_unfinished _ _ Hgh Hhl) as Hne.
      destruct (unfinished_blocked _ Hh Hne) as [l' Hb'].
      exists h, l'. split; [exact Hb'|].
      destruct Hb' as [pre [post [a [T [m [Hc [Hs [Hn Hg]]]]]]]].
      destruct Hgh as [Hsafe _]. rewrite Hs in Hsafe. destruct a as [fa ea]. cbn [snd] in Hn.
      destruct (needs_fresh_ranked _ _ _ _ _ _ Hsafe Hn) as [_ Hr].
      eapply ranked_holds; [exact Hr|]. unfold holds in Hhl. destruct (lookup l (fst h)); [discriminate|discriminate].
    Qed.

    Lemma blocked_rank_bound u l : blocked c u l -> In (rank C l) (all_needed c).
    Proof.
      intros [pre [post [a [T [m [Hc [Hs [Hn Hg]]]]]]]]. unfold all_needed. apply in_flat_map. exists u. split.
      - rewrite Hc. apply in_or_app. right. left. reflexivity.
      - destruct u as [Hu tu]. cbn [snd] in Hs |- *. subst tu. apply in_map_iff. exists (l, m). auto.
    Qed.

    Lemma no_blocked : forall n u l, blocked c u l -> (list_max (all_needed c) - rank C l <= n)%nat -> False.
    Proof.
      induction n as [|n IH]; intros u l Hb Hn.
      - destruct (blocked_climbs _ _ Hb) as [u' [l' [Hb' Hlt]]].
        pose proof (blocked_rank_bound _ _ Hb') as Hin.
        assert (Hle : (rank C l' <= list_max (all_needed c))%nat).
        { pose proof (proj1 (list_max_le (all_needed c) (list_max (all_needed c))) (Nat.le_refl _)) as Hall.
          rewrite Forall_forall in Hall. exact (Hall _ Hin). }
        lia.
      - destruct (blocked_climbs _ _ Hb) as [u' [l' [Hb' Hlt]]].
        apply (IH u' l' Hb').
        pose proof (blocked_rank_bound _ _ Hb') as Hin.
        assert (Hle : (rank C l' <= list_max (all_needed c))%nat).
        { pose proof (proj1 (list_max_le (all_needed c) (list_max (all_needed c))) (Nat.le_refl _)) as Hall.
          rewrite Forall_forall in Hall. exact (Hall _ Hin). }
        lia.
    Qed.
  End AllDisabled.

  (* search for an enabled thread *)
  Fixpoint find_enabled (pre post : list thr) : option (list thr * thr * list thr) :=
    match post with
    | [] => None
    | t :: rest => if enabledb (rev pre ++ rest) t then Some (rev pre, t, rest) else find_enabled (t :: pre) rest
    end.
  Lemma find_enabled_some pre post p t q :
    find_enabled pre post = Some (p, t, q) -> rev pre ++ post = p ++ t :: q /\ enabledb (p ++ q) t = true.
  Proof.
    revert pre; induction post as [|x rest IH]; intros pre Hf; cbn in Hf; [discriminate|].
    destruct (enabledb (rev pre ++ rest) x) eqn:E.
    - inversion Hf; subst. auto.
    - destruct (IH _ Hf) as [H1 H2]. cbn [rev] in H1. rewrite <- app_assoc in H1. auto.
  Qed.
  Lemma find_enabled_none pre post :
    find_enabled pre post = None -> forall p t q, post = p ++ t :: q -> enabledb (rev pre ++ p ++ q) t = false.
  Proof.
    revert pre; induction post as [|x rest IH]; intros pre Hf p t q Heq; [destruct p; discriminate|].
    cbn in Hf. destruct (enabledb (rev pre ++ rest) x) eqn:E; [discriminate|].
    destruct p as [|y p].
    - cbn in Heq. inversion Heq; subst. exact E.
    - cbn in Heq. inversion Heq; subst. specialize (IH _ Hf p t q eq_refl). cbn [rev] in IH. rewrite <- app_assoc in IH. exact IH.
  Qed.

  Theorem no_deadlock c : cgood c -> (exists t, In t c /\ snd t <> []) -> exists c', stepN c c'.
  Proof.
    intros Hgood [t [Hin Hne]].
    destruct (find_enabled [] c) as [[[p u] q]|] eqn:Ef.
    - destruct (find_enabled_some _ _ _ _ _ Ef) as [Hc He]. cbn in Hc. subst c.
      destruct u as [H tr]. destruct tr as [|a T]; [unfold enabledb in He; cbn in He; discriminate|].
      eexists. apply StepN. exact He.
    - exfalso.
      assert (Hdis : forall pre t0 post, c = pre ++ t0 :: post -> snd t0 <> [] -> enabledb (pre ++ post) t0 = false).
      { intros pre t0 post Hc _. pose proof (find_enabled_none _ _ Ef pre t0 post Hc) as Hx. cbn in Hx. exact Hx. }
      destruct (unfinished_blocked c Hdis t Hin Hne) as [l Hb].
      exact (no_blocked c Hgood Hdis _ t l Hb (Nat.le_refl _)).
  Qed.

  (* ---------- good configurations are closed under steps: no reachable configuration is stuck ---------- *)
  Theorem cgood_step c c' : cgood c -> stepN c c' -> cgood c'.
  Proof.
    intros Htg Hs. destruct Hs as [pre H a T post Hen].
    assert (Hme : tgood (H, a :: T)) by (apply Htg; apply in_or_app; right; left; reflexivity).
    destruct Hme as [Hsafe Hbal]. cbn [fst snd] in Hsafe, Hbal. destruct Hsafe as [Sa ST].
    intros t Hin. apply in_app_or in Hin as [Hin|[<-|Hin]].
    - apply Htg. apply in_or_app. left. exact Hin.
    - constructor; cbn [fst snd]; [exact ST|exact Hbal].
    - apply Htg. apply in_or_app. right. right. exact Hin.
  Qed.

  Inductive reachN (c0 : cfg) : cfg -> Prop :=
  | RN0 : reachN c0 c0
  | RNS c c' : reachN c0 c -> stepN c c' -> reachN c0 c'.

  Corollary never_stuck c0 c : cgood c0 -> reachN c0 c -> (exists t, In t c /\ snd t <> []) -> exists c', stepN c c'.
  Proof.
    intros Hg Hr. apply no_deadlock. induction Hr; [exact Hg|]. eapply cgood_step; eauto.
  Qed.
End Deadlock.

(* ================= whole programs ================= *)
(* Any number of threads of a program whose obligation holds (API calls made by different goroutines, goroutines they
   start), each performing one complete run from the empty lock set, in any interleaving the lock rules permit: as long as
   some thread is unfinished, some thread can take its next step. *)
Definition thread_run (C : contracts) (pr : program) (entries : list string) (tr : trace) : Prop :=
  exists fn body t x ds', thread C (fenv_of (reachable pr entries)) fn body /\
    run (fenv_of (reachable pr entries)) fn body [] t x ds' /\ is_brk x = false /\ tr = t ++ tag fn ds'.

Theorem program_never_stuck C pr entries lits unsup :
  check_program C pr entries lits unsup = [] ->
  forall traces, (forall tr, In tr traces -> thread_run C pr entries tr) ->
  forall c, reachN C (map (fun tr => ([], tr)) traces) c -> (exists t, In t c /\ snd t <> []) -> exists c', stepN C c c'.
Proof.
  intros Hc traces Htr c Hreach Hun. eapply never_stuck; eauto.
  intros t Hin. apply in_map_iff in Hin as [tr [<- Hin]]. destruct (Htr _ Hin) as [fn [body [t0 [x [ds' [Hth [Hrun [Hx ->]]]]]]]].
  constructor; cbn [fst snd].
  - eapply program_safe; eauto.
  - unfold check_program in Hc. apply app_eq_nil in Hc as [_ Hall].
    eapply thread_balanced; eauto.
    intros f b Hf. eapply check_all_nil; [exact Hall|]. apply assoc_In. exact Hf.
Qed.
