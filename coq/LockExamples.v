(* LockExamples.v — non-vacuity for the lock-discipline theorems: a miniature Broker on which the checker accepts the
   repaired shape (close after unlocking) and rejects the defective one (close under the lock, finding F6), an unguarded
   access (F3-F5 shape), and actual runs / threads of the accepted program. *)
From Coq Require Import List Bool String.
From Verif Require Import LockLang LockSound.
Import ListNotations.
Local Open Scope string_scope.

Definition L := "Broker.lock".
Definition mini_contracts (acq : string -> list string) : contracts :=
  {| guard_of := fun f => if String.eqb f "Broker.nodes" then GLock L else GFree;
     requires := fun _ => [];
     acquires := acq;
     user_acquires := fun k => if mem k ["Node.Process"; "Closer.Close"] then [L] else [];
     constructors := []; waived := [];
     rank := fun l => if String.eqb l "Broker.lock" then 5%nat else if String.eqb l "graph.thresholdLock" then 6%nat else 7%nat |}.

Definition send_body : prog :=
  PSeq (PAct (Acq L MR)) (PSeq (PAct (Rd "Broker.nodes")) (PSeq (PAct (Rel L MR)) (PSeq (PCall "process") PRet))).
Definition process_body : prog := PSeq (PGo (PSeq (PAct (User "Node.Process")) PRet)) PRet.
(* RemoveNode as repaired: unregister under the lock, close after unlocking *)
Definition remove_good : prog :=
  PSeq (PAct (Acq L MW)) (PSeq (PAct (Wr "Broker.nodes")) (PSeq (PAct (Rel L MW)) (PSeq (PAct (User "Closer.Close")) PRet))).
(* RemoveNode as found (F6): Close runs under the deferred unlock *)
Definition remove_bad : prog :=
  PSeq (PAct (Acq L MW)) (PSeq (PDefer (Rel L MW)) (PSeq (PAct (Wr "Broker.nodes")) (PSeq (PAct (User "Closer.Close")) PRet))).
(* a getter that forgets the lock (F3-F5 shape) *)
Definition getter_bad : prog := PSeq (PAct (Rd "Broker.nodes")) PRet.

Definition mini_good : program := [("Send", send_body); ("process", process_body); ("RemoveNode", remove_good)].
Definition mini_bad_close : program := [("Send", send_body); ("process", process_body); ("RemoveNode", remove_bad)].
Definition mini_bad_access : program := (mini_good ++ [("Nodes", getter_bad)])%list.
Definition mini (pr : program) : contracts :=
  mini_contracts (fun f => assocd f (infer 6 (fun k => if mem k ["Node.Process"; "Closer.Close"] then [L] else []) pr []) []).

Example good_accepted : check_program (mini mini_good) mini_good ["Send"; "RemoveNode"] [] [] = [].
Proof. vm_compute. reflexivity. Qed.
Example bad_close_rejected :
  flat_complaints (check_program (mini mini_bad_close) mini_bad_close ["Send"; "RemoveNode"] [] []) = [("RemoveNode", KCallback, "Closer.Close")].
Proof. vm_compute. reflexivity. Qed.
Example bad_access_rejected :
  flat_complaints (check_program (mini mini_bad_access) mini_bad_access ["Send"; "RemoveNode"; "Nodes"] [] []) = [("Nodes", KUnguardedRead, "Broker.nodes")].
Proof. vm_compute. reflexivity. Qed.
(* holding the lock across the dispatch is rejected too: process is charged with what its goroutines may take *)
Definition send_holding : prog :=
  PSeq (PAct (Acq L MR)) (PSeq (PDefer (Rel L MR)) (PSeq (PAct (Rd "Broker.nodes")) (PSeq (PCall "process") PRet))).
Definition mini_bad_send : program := [("Send", send_holding); ("process", process_body); ("RemoveNode", remove_good)].
Example bad_send_rejected :
  flat_complaints (check_program (mini mini_bad_send) mini_bad_send ["Send"; "RemoveNode"] [] []) = [("Send", KCallHolding, "process"); ("Send", KLockOrder, "process")].
Proof. vm_compute. reflexivity. Qed.

(* the setter takes the threshold lock under the broker lock (in rank order); the inverted nesting is rejected *)
Definition setter_good : prog :=
  PSeq (PAct (Acq L MW)) (PSeq (PAct (Acq "graph.thresholdLock" MW)) (PSeq (PAct (Rel "graph.thresholdLock" MW)) (PSeq (PAct (Rel L MW)) PRet))).
Definition setter_inverted : prog :=
  PSeq (PAct (Acq "graph.thresholdLock" MW)) (PSeq (PAct (Acq L MW)) (PSeq (PAct (Rel L MW)) (PSeq (PAct (Rel "graph.thresholdLock" MW)) PRet))).
Definition mini_order_ok : program := (mini_good ++ [("Set", setter_good)])%list.
Definition mini_order_bad : program := (mini_good ++ [("Set", setter_inverted)])%list.
Example order_accepted : check_program (mini mini_order_ok) mini_order_ok ["Send"; "RemoveNode"; "Set"] [] [] = [].
Proof. vm_compute. reflexivity. Qed.
Example order_rejected :
  flat_complaints (check_program (mini mini_order_bad) mini_order_bad ["Send"; "RemoveNode"; "Set"] [] []) = [("Set", KLockOrder, L)].
Proof. vm_compute. reflexivity. Qed.

(* check-then-act: looking the map up under the read lock, releasing, then creating under the write lock without looking
   again is rejected; re-reading in the write section is accepted (seeded mutant C04-1) *)
Definition create_stale : prog :=
  PSeq (PAct (Acq L MR)) (PSeq (PAct (Rd "Broker.nodes")) (PSeq (PAct (Rel L MR))
  (PSeq (PAct (Acq L MW)) (PSeq (PDefer (Rel L MW)) (PSeq (PAlt (PAct (Wr "Broker.nodes")) PSkip) PRet))))).
Definition create_fresh : prog :=
  PSeq (PAct (Acq L MR)) (PSeq (PAct (Rd "Broker.nodes")) (PSeq (PAct (Rel L MR))
  (PSeq (PAct (Acq L MW)) (PSeq (PDefer (Rel L MW)) (PSeq (PAct (Rd "Broker.nodes")) (PSeq (PAlt (PAct (Wr "Broker.nodes")) PSkip) PRet)))))).
Example cta_rejected :
  flat_complaints (cta_program (mini [("Create", create_stale)]) [("Create", create_stale)]) = [("Create", KCheckThenAct, "Broker.nodes")].
Proof. vm_compute. reflexivity. Qed.
Example cta_accepted : cta_program (mini [("Create", create_fresh)]) [("Create", create_fresh)] = [].
Proof. vm_compute. reflexivity. Qed.
Example cta_stale_still_guarded : check_program (mini [("Create", create_stale)]) [("Create", create_stale)] ["Create"] [] [] = [].
Proof. vm_compute. reflexivity. Qed.

(* a blocking wait that is not a mutex operation (callback kind "wait:...") under the registry lock is rejected: RemovePipelineAndNodes
   waiting for the in-flight Sends while it holds the lock (seeded mutant C12-10); after the unlock it is accepted *)
Definition waits_contracts (pr : program) : contracts :=
  let ua := fun k => if String.prefix "wait:" k then [L] else [] in
  {| guard_of := fun _ => GFree; requires := fun _ => []; acquires := fun f => assocd f (infer 6 ua pr []) [];
     user_acquires := ua; constructors := []; waived := []; rank := fun _ => 5%nat |}.
Definition remove_waiting : prog :=
  PSeq (PAct (Acq L MW)) (PSeq (PDefer (Rel L MW)) (PSeq (PAct (User "wait:WaitGroup.Wait")) PRet)).
Definition remove_not_waiting : prog :=
  PSeq (PAct (Acq L MW)) (PSeq (PAct (Rel L MW)) (PSeq (PAct (User "wait:WaitGroup.Wait")) PRet)).
Example wait_under_lock_rejected :
  flat_complaints (check_program (waits_contracts [("Remove", remove_waiting)]) [("Remove", remove_waiting)] ["Remove"] [] [])
  = [("Remove", KCallback, "wait:WaitGroup.Wait")].
Proof. vm_compute. reflexivity. Qed.
Example wait_after_unlock_accepted :
  check_program (waits_contracts [("Remove", remove_not_waiting)]) [("Remove", remove_not_waiting)] ["Remove"] [] [] = [].
Proof. vm_compute. reflexivity. Qed.

(* the clock pseudo field: read before queueing for the sink's mutex is rejected (seeded C15-9), after taking it accepted *)
Definition clock_contracts (pr : program) : contracts :=
  {| guard_of := fun f => if String.eqb f "FileSink.clock!" then GLock "FileSink.l" else GFree; requires := fun _ => [];
     acquires := fun f => assocd f (infer 6 (fun _ => []) pr []) []; user_acquires := fun _ => []; constructors := []; waived := [];
     rank := fun _ => 5%nat |}.
Definition process_clock_early : prog :=
  PSeq (PAct (Rd "FileSink.clock!")) (PSeq (PAct (Acq "FileSink.l" MW)) (PSeq (PDefer (Rel "FileSink.l" MW)) PRet)).
Definition process_clock_locked : prog :=
  PSeq (PAct (Acq "FileSink.l" MW)) (PSeq (PDefer (Rel "FileSink.l" MW)) (PSeq (PAct (Rd "FileSink.clock!")) PRet)).
Example clock_early_rejected :
  flat_complaints (check_program (clock_contracts [("Process", process_clock_early)]) [("Process", process_clock_early)] ["Process"] [] [])
  = [("Process", KUnguardedRead, "FileSink.clock!")].
Proof. vm_compute. reflexivity. Qed.
Example clock_locked_accepted :
  check_program (clock_contracts [("Process", process_clock_locked)]) [("Process", process_clock_locked)] ["Process"] [] [] = [].
Proof. vm_compute. reflexivity. Qed.
(* registry map mutations (pseudo field roots!, written at every Store / Delete on a graph's roots): a Delete after the lock was
   released is rejected (seeded C04-19), inside the critical section accepted *)
Definition registry_contracts (pr : program) : contracts :=
  {| guard_of := fun f => if String.eqb f "graph.roots!" then GLock "Broker.lock" else GFree; requires := fun _ => [];
     acquires := fun f => assocd f (infer 6 (fun _ => []) pr []) []; user_acquires := fun _ => []; constructors := []; waived := [];
     rank := fun _ => 5%nat |}.
Definition remove_delete_late : prog :=
  PSeq (PAct (Acq "Broker.lock" MW)) (PSeq (PAct (Wr "nodeUsage.referenceCount")) (PSeq (PAct (Rel "Broker.lock" MW)) (PSeq (PAct (Wr "graph.roots!")) PRet))).
Definition remove_delete_locked : prog :=
  PSeq (PAct (Acq "Broker.lock" MW)) (PSeq (PDefer (Rel "Broker.lock" MW)) (PSeq (PAct (Wr "nodeUsage.referenceCount")) (PSeq (PAct (Wr "graph.roots!")) PRet))).
Example delete_after_unlock_rejected :
  flat_complaints (check_program (registry_contracts [("RemovePipeline", remove_delete_late)]) [("RemovePipeline", remove_delete_late)] ["RemovePipeline"] [] [])
  = [("RemovePipeline", KUnguardedWrite, "graph.roots!")].
Proof. vm_compute. reflexivity. Qed.
Example delete_under_lock_accepted :
  check_program (registry_contracts [("RemovePipeline", remove_delete_locked)]) [("RemovePipeline", remove_delete_locked)] ["RemovePipeline"] [] [] = [].
Proof. vm_compute. reflexivity. Qed.
(* an unaudited concurrency construct *)
Example unaudited_rejected :
  flat_complaints (unaudited [("process", "go")] [("process", process_body); ("Reopen", PSeq (PGo (PSeq (PAct (User "wait:chan-send")) PRet)) PRet)])
  = [("Reopen", KUnauditedConcurrency, "go"); ("Reopen", KUnauditedConcurrency, "wait:chan-send")].
Proof. vm_compute. reflexivity. Qed.

Definition fenv_good := fenv_of (reachable mini_good ["Send"; "RemoveNode"]).
Lemma fenv_good_remove : fenv_good "RemoveNode" = Some remove_good. Proof. vm_compute. reflexivity. Qed.
Lemma fenv_good_send : fenv_good "Send" = Some send_body. Proof. vm_compute. reflexivity. Qed.
Lemma fenv_good_process : fenv_good "process" = Some process_body. Proof. vm_compute. reflexivity. Qed.

Lemma run_act_seq fenv fn a q ds t x ds' :
  run fenv fn q ds t x ds' -> run fenv fn (PSeq (PAct a) q) ds ((fn, EA a) :: t) x ds'.
Proof. intros H. change ((fn, EA a) :: t) with ([(fn, EA a)] ++ t)%list. eapply RSeqN; [apply RAct|exact H]. Qed.

(* an actual run of RemoveNode: lock, write, unlock, Close *)
Definition remove_trace : trace :=
  [("RemoveNode", EA (Acq L MW)); ("RemoveNode", EA (Wr "Broker.nodes")); ("RemoveNode", EA (Rel L MW)); ("RemoveNode", EA (User "Closer.Close"))].
Example remove_runs : run fenv_good "RemoveNode" remove_good [] remove_trace XR [].
Proof. unfold remove_good, remove_trace. repeat apply run_act_seq. apply RRet. Qed.
Example remove_is_thread : thread (mini mini_good) fenv_good "RemoveNode" remove_good.
Proof. apply TEntry; [exact fenv_good_remove|reflexivity]. Qed.
(* the Close callback is the 4th event of that run, and Broker.lock is not held there *)
Example remove_close_event : nth_error (remove_trace ++ tag "RemoveNode" []) 3 = Some ("RemoveNode", EA (User "Closer.Close"))
  /\ In L (user_acquires (mini mini_good) "Closer.Close").
Proof. split; [reflexivity|left; reflexivity]. Qed.

(* an actual run of Send that starts a goroutine, and the goroutine as a thread of the program *)
Definition process_trace : trace := [("process", EGo (PSeq (PAct (User "Node.Process")) PRet))].
Definition send_trace : trace :=
  [("Send", EA (Acq L MR)); ("Send", EA (Rd "Broker.nodes")); ("Send", EA (Rel L MR)); ("process", EGo (PSeq (PAct (User "Node.Process")) PRet))].
Example process_runs : run fenv_good "process" process_body [] process_trace XR [].
Proof.
  unfold process_body, process_trace.
  change [("process", EGo (PSeq (PAct (User "Node.Process")) PRet))] with ([("process", EGo (PSeq (PAct (User "Node.Process")) PRet))] ++ [])%list.
  eapply RSeqN; [apply RGo|apply RRet].
Qed.
Example send_runs : run fenv_good "Send" send_body [] send_trace XR [].
Proof.
  unfold send_body, send_trace. repeat apply run_act_seq.
  change [("process", EGo (PSeq (PAct (User "Node.Process")) PRet))] with (((process_trace ++ tag "process" []) ++ []))%list.
  eapply RSeqN; [|apply RRet].
  eapply RCall with (x := XR); [exact fenv_good_process|exact process_runs|reflexivity].
Qed.
Example goroutine_is_thread : thread (mini mini_good) fenv_good "process" (PSeq (PAct (User "Node.Process")) PRet).
Proof.
  eapply TSpawn with (fn := "Send") (body := send_body) (t := send_trace) (x := XR) (ds' := []).
  - apply TEntry; [exact fenv_good_send|reflexivity].
  - exact send_runs.
  - reflexivity.
  - vm_compute. right. right. right. left. reflexivity.
Qed.

(* all of it together: the hypotheses of the program-level theorems are met by a program that has callbacks,
   goroutines and guarded accesses *)
Example nonvacuous :
  check_program (mini mini_good) mini_good ["Send"; "RemoveNode"] [] [] = [] /\
  thread (mini mini_good) fenv_good "RemoveNode" remove_good /\
  run fenv_good "RemoveNode" remove_good [] remove_trace XR [] /\
  nth_error (remove_trace ++ tag "RemoveNode" []) 3 = Some ("RemoveNode", EA (User "Closer.Close")) /\
  In L (user_acquires (mini mini_good) "Closer.Close") /\
  thread (mini mini_good) fenv_good "process" (PSeq (PAct (User "Node.Process")) PRet) /\
  guard_of (mini mini_good) "Broker.nodes" = GLocks [L].
Proof.
  split; [exact good_accepted|]. split; [exact remove_is_thread|]. split; [exact remove_runs|].
  split; [exact (proj1 remove_close_event)|]. split; [exact (proj2 remove_close_event)|].
  split; [exact goroutine_is_thread|reflexivity].
Qed.
