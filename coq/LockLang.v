(* LockLang.v — the command language the translator (translate/) emits for every function of the six library
   packages, and the modular must-lockset checker that is run on the generated program (Gen_Locks.v) on every check.
   Only definitions here; the semantics and the soundness proofs are in LockSound.v, the discipline table in Contracts.v.

   prog:  Acq/Rel of a named lock in read or write mode, Rd/Wr of a named field (instance-insensitive: "pkg.Type.field"),
          User k = a call into code the library does not own (callback kind k), Call of a library function, Go (new thread),
          Ret, Defer (dynamic: recorded when executed, run LIFO at function exit), Seq, Alt, Loop, Block (a function literal
          run in place: own return scope and defer frame), Loop1 (switch / select: a breakable region run once),
          Brk n (break / continue leaving n+1 enclosing breakable regions). *)
From Coq Require Import List Bool Arith String.
Import ListNotations.
Local Open Scope string_scope.

Inductive mode := MR | MW.
Definition mode_eqb (a b : mode) := match a, b with MR, MR | MW, MW => true | _, _ => false end.

Inductive act :=
| Acq (l : string) (m : mode) | Rel (l : string) (m : mode)
| Rd (f : string) | Wr (f : string) | User (k : string).

Inductive prog :=
| PSkip | PAct (a : act) | PSeq (p q : prog) | PAlt (p q : prog) | PLoop (p : prog)
| PCall (f : string) | PRet | PDefer (a : act) | PGo (p : prog) | PBlock (p : prog) | PBrk (n : nat) | PLoop1 (p : prog).

Definition held := list (string * mode).
Fixpoint lookup (l : string) (h : held) : option mode :=
  match h with [] => None | (l', m) :: t => if String.eqb l l' then Some m else lookup l t end.
Fixpoint remove (l : string) (h : held) : held :=
  match h with [] => [] | (l', m) :: t => if String.eqb l l' then remove l t else (l', m) :: remove l t end.

(* GLocks ls: writers hold every lock of ls in write mode, readers hold at least one of them (any mode).
   GImmutable: written only by the functions listed as constructors.  GFree: not constrained. *)
Inductive guard := GLocks (ls : list string) | GImmutable | GFree.
Definition GLock (l : string) := GLocks [l].

Record contracts := {
  guard_of : string -> guard;
  requires : string -> held;                 (* locks the callers of a function must hold, with their mode *)
  acquires : string -> list string;          (* locks a function may itself acquire (callers must not hold them) *)
  user_acquires : string -> list string;     (* locks a callback of this kind may acquire *)
  constructors : list string;                (* functions allowed to write immutable fields *)
  waived : list (string * string);           (* (function, field): accesses excused by a recorded known finding *)
  rank : string -> nat;                      (* lock order: a lock may only be acquired while every held lock has a smaller rank *)
}.

Definition mem (l : string) (ls : list string) : bool := existsb (String.eqb l) ls.
Definition mem2 (a b : string) (ls : list (string * string)) : bool :=
  existsb (fun p => String.eqb a (fst p) && String.eqb b (snd p)) ls.
Definition disjoint (h : held) (ls : list string) : bool :=
  forallb (fun l => match lookup l h with None => true | Some _ => false end) ls.
Definition opt_mode_eqb (a b : option mode) : bool :=
  match a, b with Some x, Some y => mode_eqb x y | None, None => true | _, _ => false end.
Definition covers (h req : held) : bool :=
  forallb (fun lm => opt_mode_eqb (lookup (fst lm) h) (lookup (fst lm) req)) req.
Fixpoint held_eqb (a b : held) : bool :=
  match a, b with
  | [], [] => true
  | (l, m) :: a', (l', m') :: b' => String.eqb l l' && mode_eqb m m' && held_eqb a' b'
  | _, _ => false
  end.
Definition act_eqb (a b : act) : bool :=
  match a, b with
  | Acq l m, Acq l' m' | Rel l m, Rel l' m' => String.eqb l l' && mode_eqb m m'
  | Rd f, Rd f' | Wr f, Wr f' | User f, User f' => String.eqb f f'
  | _, _ => false
  end.
Fixpoint acts_eqb (a b : list act) : bool :=
  match a, b with [], [] => true | x :: a', y :: b' => act_eqb x y && acts_eqb a' b' | _, _ => false end.
(* decl = None: unrestricted (a goroutine body is an entry point nobody calls) *)
Definition declared (decl : option (list string)) (l : string) : bool :=
  match decl with None => true | Some d => mem l d end.

(* every lock of h ranks strictly below l *)
Definition ranked (rk : string -> nat) (h : held) (l : string) : bool := forallb (fun lm => Nat.ltb (rk (fst lm)) (rk l)) h.

Definition rd_ok (h : held) (ls : list string) : bool :=
  existsb (fun l => match lookup l h with Some _ => true | None => false end) ls.
Definition wr_ok (h : held) (ls : list string) : bool :=
  forallb (fun l => match lookup l h with Some MW => true | _ => false end) ls.

(* ---------- diagnostics ---------- *)
Inductive ckind :=
| KReacquire | KAcqUndeclared | KRelMode | KRelNotHeld | KRelUndeclared      (* subject: the lock *)
| KUnguardedRead | KUnguardedWrite | KImmutableWrite                         (* subject: the field *)
| KCallback                                                                  (* subject: the callback kind *)
| KLockOrder                                                                 (* subject: the lock / callee / callback acquired out of order *)
| KCallRequires | KCallHolding | KCalleeUndeclared                           (* subject: the callee *)
| KBreakLocks | KBreakOutside | KBranches | KLoopNeutral | KSwitchNeutral | KDeferInLoop | KDeferInSwitch
| KReturnHeld | KGoHeld | KGoHolding | KLiteralNeutral | KReqAcqOverlap
| KUndefinedCallee | KDuplicateName | KEntryRequires | KLiteralCallee | KUnsupported
| KCheckThenAct                                                              (* subject: the field *)
| KUnauditedConcurrency.                                                     (* subject: the construct: go / wait:... *)   (* program-level *)
Definition complaint := (ckind * string)%type.
Notation "a +++ b" := (@List.app complaint a b) (at level 60, right associativity).

(* ---- call graph: callees, reachability from the entry points ---- *)
Fixpoint callees (p : prog) : list string :=
  match p with
  | PCall f => [f]
  | PSeq p q | PAlt p q => callees p ++ callees q
  | PLoop p | PBlock p | PLoop1 p | PGo p => callees p
  | _ => []
  end.
Fixpoint dedup (l : list string) : list string :=
  match l with [] => [] | x :: t => if mem x t then dedup t else x :: dedup t end.
(* ---- inference of the [acquires] table (untrusted: the checker validates whatever table it is given).
        A function is charged with what the goroutines it starts may acquire as well: the starter may wait for them. ---- *)
Fixpoint direct_acq (ua : string -> list string) (p : prog) : list string :=
  match p with
  | PAct (Acq l _) => [l]
  | PAct (User k) => ua k
  | PDefer (Acq l _) => [l]
  | PDefer (User k) => ua k
  | PSeq p q | PAlt p q => direct_acq ua p ++ direct_acq ua q
  | PLoop p | PBlock p | PLoop1 p | PGo p => direct_acq ua p
  | _ => []
  end.

(* abstract state: locks certainly held + deferred actions; None = no normal exit *)
Definition st := option (held * list act).

Section Check.
  Variable C : contracts.
  Variable fname : string.

  Definition step_act (decl : option (list string)) (h : held) (a : act) : list complaint * held :=
    match a with
    | Acq l m =>
        if declared decl l then
          match lookup l h with
          | None => if ranked (rank C) h l then ([], (l, m) :: h) else ([(KLockOrder, l)], (l, m) :: h)
          | Some _ => ([(KReacquire, l)], h)
          end
        else ([(KAcqUndeclared, l)], (l, m) :: h)
    | Rel l m =>
        if declared decl l then
          match lookup l h with
          | Some m' => if mode_eqb m m' then ([], remove l h) else ([(KRelMode, l)], remove l h)
          | None => ([(KRelNotHeld, l)], h)
          end
        else ([(KRelUndeclared, l)], h)
    | Rd f =>
        match guard_of C f with
        | GLocks ls => if rd_ok h ls || mem2 fname f (waived C) then ([], h) else ([(KUnguardedRead, f)], h)
        | _ => ([], h)
        end
    | Wr f =>
        match guard_of C f with
        | GLocks ls => if wr_ok h ls || mem2 fname f (waived C) then ([], h) else ([(KUnguardedWrite, f)], h)
        | GImmutable => if mem fname (constructors C) then ([], h) else ([(KImmutableWrite, f)], h)
        | GFree => ([], h)
        end
    | User k =>
        if disjoint h (user_acquires C k) && forallb (declared decl) (user_acquires C k) then
          (if forallb (ranked (rank C) h) (user_acquires C k) then ([], h) else ([(KLockOrder, k)], h))
        else ([(KCallback, k)], h)
    end.

  Definition go_acq (p : prog) : list string :=
    dedup (direct_acq (user_acquires C) p ++ flat_map (acquires C) (callees p)).

  Fixpoint run_defers (decl : option (list string)) (h : held) (ds : list act) : list complaint * held :=
    match ds with
    | [] => ([], h)
    | a :: t => let '(e1, h') := step_act decl h a in let '(e2, h'') := run_defers decl h' t in (e1 +++ e2, h'')
    end.

  (* no defer directly inside a loop or switch body: keeps the deferred stack at a break equal to the one at
     region entry (the analysed code never does it; function literals have their own frame) *)
  Fixpoint no_defer (p : prog) : bool :=
    match p with
    | PDefer _ => false
    | PSeq p q | PAlt p q => no_defer p && no_defer q
    | PLoop p | PLoop1 p => no_defer p
    | _ => true
    end.

  (* entry: lock set every return must restore; les: lock sets at the entry of the enclosing breakable regions,
     innermost first *)
  Fixpoint check (decl : option (list string)) (entry : held) (les : list held) (p : prog) (h : held) (ds : list act)
    : list complaint * st :=
    match p with
    | PSkip => ([], Some (h, ds))
    | PAct a => let '(e, h') := step_act decl h a in (e, Some (h', ds))
    | PDefer a => ([], Some (h, a :: ds))
    | PBrk n =>
        (match nth_error les n with
         | Some le => if held_eqb h le then [] else [(KBreakLocks, fname)]
         | None => [(KBreakOutside, fname)]
         end, None)
    | PSeq p q =>
        match check decl entry les p h ds with
        | (e, None) => (e, None)
        | (e, Some (h', ds')) => let '(e2, r) := check decl entry les q h' ds' in (e +++ e2, r)
        end
    | PAlt p q =>
        let '(e1, r1) := check decl entry les p h ds in
        let '(e2, r2) := check decl entry les q h ds in
        match r1, r2 with
        | None, r => (e1 +++ e2, r)
        | r, None => (e1 +++ e2, r)
        | Some (h1, d1), Some (h2, d2) =>
            if held_eqb h1 h2 && acts_eqb d1 d2 then (e1 +++ e2, Some (h1, d1))
            else (e1 +++ e2 +++ [(KBranches, fname)], Some (h1, d1))
        end
    | PLoop p =>
        if negb (no_defer p) then ([(KDeferInLoop, fname)], Some (h, ds)) else
        match check decl entry (h :: les) p h ds with
        | (e, None) => (e, Some (h, ds))
        | (e, Some (h', ds')) => if held_eqb h' h then (e, Some (h, ds)) else (e +++ [(KLoopNeutral, fname)], Some (h, ds))
        end
    | PLoop1 p =>
        if negb (no_defer p) then ([(KDeferInSwitch, fname)], Some (h, ds)) else
        match check decl entry (h :: les) p h ds with
        | (e, None) => (e, Some (h, ds))
        | (e, Some (h', ds')) => if held_eqb h' h then (e, Some (h, ds)) else (e +++ [(KSwitchNeutral, fname)], Some (h, ds))
        end
    | PCall f =>
        ((if covers h (requires C f) then [] else [(KCallRequires, f)]) +++
         (if disjoint h (acquires C f) then [] else [(KCallHolding, f)]) +++
         (if forallb (declared decl) (acquires C f) then [] else [(KCalleeUndeclared, f)]) +++
         (if forallb (ranked (rank C) h) (acquires C f) then [] else [(KLockOrder, f)]),
         Some (h, ds))
    | PRet =>
        let '(e, h') := run_defers decl h ds in
        (e +++ (if held_eqb h' entry then [] else [(KReturnHeld, fname)]), None)
    | PGo p =>
        (* the starter may wait for the goroutine: it must not hold what the goroutine (its callees, its callbacks) may
           take, nor a lock of equal or higher rank *)
        let acq := go_acq p in
        let e0 := (if disjoint h acq then [] else [(KGoHolding, fname)]) +++
                  (if forallb (ranked (rank C) h) acq then [] else [(KLockOrder, fname)]) in
        match check None [] [] p [] [] with
        | (e, None) => (e0 +++ e, Some (h, ds))
        | (e, Some (h', ds')) =>
            let '(e2, h'') := run_defers None h' ds' in
            (e0 +++ e +++ e2 +++ (if held_eqb h'' [] then [] else [(KGoHeld, fname)]), Some (h, ds))
        end
    | PBlock p =>
        match check decl h [] p h [] with
        | (e, None) => (e, Some (h, ds))
        | (e, Some (h', ds')) =>
            let '(e2, h'') := run_defers decl h' ds' in
            (e +++ e2 +++ (if held_eqb h'' h then [] else [(KLiteralNeutral, fname)]), Some (h, ds))
        end
    end.
End Check.

(* a function body is checked as "body; return" from exactly its required locks *)
Definition check_fn (C : contracts) (f : string) (body : prog) : list complaint :=
  (if disjoint (requires C f) (acquires C f) then [] else [(KReqAcqOverlap, f)]) +++
  fst (check C f (Some (acquires C f)) (requires C f) [] (PSeq body PRet) (requires C f) []).

(* ---------- whole programs ---------- *)
Definition program := list (string * prog).
Fixpoint assoc {A} (k : string) (l : list (string * A)) : option A :=
  match l with [] => None | (k', v) :: t => if String.eqb k k' then Some v else assoc k t end.
Definition assocd {A} (k : string) (l : list (string * A)) (d : A) : A :=
  match assoc k l with Some v => v | None => d end.
Definition fenv_of (pr : program) : string -> option prog := fun f => assoc f pr.

Definition ckind_eqb (a b : ckind) : bool :=
  match a, b with
  | KReacquire, KReacquire | KAcqUndeclared, KAcqUndeclared | KRelMode, KRelMode | KRelNotHeld, KRelNotHeld
  | KRelUndeclared, KRelUndeclared | KUnguardedRead, KUnguardedRead | KUnguardedWrite, KUnguardedWrite
  | KImmutableWrite, KImmutableWrite | KCallback, KCallback | KLockOrder, KLockOrder | KCallRequires, KCallRequires | KCallHolding, KCallHolding
  | KCalleeUndeclared, KCalleeUndeclared | KBreakLocks, KBreakLocks | KBreakOutside, KBreakOutside | KBranches, KBranches
  | KLoopNeutral, KLoopNeutral | KSwitchNeutral, KSwitchNeutral | KDeferInLoop, KDeferInLoop | KDeferInSwitch, KDeferInSwitch
  | KReturnHeld, KReturnHeld | KGoHeld, KGoHeld | KGoHolding, KGoHolding | KLiteralNeutral, KLiteralNeutral | KReqAcqOverlap, KReqAcqOverlap
  | KUndefinedCallee, KUndefinedCallee | KDuplicateName, KDuplicateName | KEntryRequires, KEntryRequires
  | KLiteralCallee, KLiteralCallee | KUnsupported, KUnsupported | KCheckThenAct, KCheckThenAct | KUnauditedConcurrency, KUnauditedConcurrency => true
  | _, _ => false
  end.
Definition complaint_eqb (a b : complaint) : bool := ckind_eqb (fst a) (fst b) && String.eqb (snd a) (snd b).
Fixpoint dedup_c (l : list complaint) : list complaint :=
  match l with [] => [] | x :: t => if existsb (complaint_eqb x) t then dedup_c t else x :: dedup_c t end.

(* every function of the list is checked; the result names function and reasons *)
Definition check_all (C : contracts) (pr : program) : list (string * list complaint) :=
  flat_map (fun fb => match dedup_c (check_fn C (fst fb) (snd fb)) with [] => [] | w => [(fst fb, w)] end) pr.

(* worklist closure: each round expands only the names found in the previous one and stops when nothing is new.
   If the fuel ran out early the result is not closed under calls, which wf_program reports (KUndefinedCallee). *)
Fixpoint reach (n : nat) (pr : program) (frontier seen : list string) : list string :=
  match n with
  | O => seen
  | S k =>
      match frontier with
      | [] => seen
      | _ =>
          let next := dedup (filter (fun c => negb (mem c seen))
                               (flat_map (fun f => match assoc f pr with Some b => callees b | None => [] end) frontier)) in
          reach k pr next (seen ++ next)
      end
  end.
Definition restrict (pr : program) (names : list string) : program := filter (fun fb => mem (fst fb) names) pr.
(* the functions reachable from the entry points *)
Definition reachable (pr : program) (entries : list string) : program :=
  let e := dedup entries in restrict pr (reach (List.length pr) pr e e).

(* ---- inference of the [acquires] table (direct_acq is defined above) ---- *)
Fixpoint infer (n : nat) (ua : string -> list string) (pr : program) (tbl : list (string * list string)) : list (string * list string) :=
  match n with
  | O => tbl
  | S k =>
      infer k ua pr
        (map (fun fb => (fst fb, dedup (direct_acq ua (snd fb) ++ flat_map (fun c => assocd c tbl []) (callees (snd fb))))) pr)
  end.

(* ---- program-level well-formedness: unique names, every callee of a checked function is defined, entry points
        require nothing, callees that are handed a function literal acquire nothing (the literal is modelled as run
        by the caller, under the caller's locks), nothing the translator could not express ---- *)
Fixpoint dup_names (l : list string) : list string :=
  match l with [] => [] | x :: t => if mem x t then x :: dup_names t else dup_names t end.
Definition wf_program (C : contracts) (pr rp : program) (entries lit_callees unsupported : list string) : list complaint :=
  map (fun n => (KDuplicateName, n)) (dup_names (map fst pr)) +++
  flat_map (fun fb => flat_map (fun c => match assoc c rp with Some _ => [] | None => [(KUndefinedCallee, c)] end) (dedup (callees (snd fb)))) rp +++
  flat_map (fun f => match assoc f rp with
                     | Some _ => match requires C f with [] => [] | _ => [(KEntryRequires, f)] end
                     | None => [] end) entries +++
  flat_map (fun f => match acquires C f with [] => [] | _ => [(KLiteralCallee, f)] end) lit_callees +++
  map (fun u => (KUnsupported, u)) unsupported.

(* the obligation evaluated on every run: [] means every reachable function checks and the program is well formed *)
Definition check_program (C : contracts) (pr : program) (entries lit_callees unsupported : list string) : list (string * list complaint) :=
  let rp := reachable pr entries in
  (match wf_program C pr rp entries lit_callees unsupported with [] => [] | w => [("<program>", w)] end) ++ check_all C rp.

(* ---- the ordered sync.Map operations a function performs on graph.roots (emitted by the translator; C07's
        overwrite-is-one-Store obligation) ---- *)
Inductive rop := RStore | RDelete | RRange | RNodes | ROther.
Definition rop_eqb (a b : rop) : bool :=
  match a, b with RStore, RStore | RDelete, RDelete | RRange, RRange | RNodes, RNodes | ROther, ROther => true | _, _ => false end.
Definition count_rop (r : rop) (l : list rop) : nat := List.length (filter (rop_eqb r) l).
(* roots operations of a function including those of the functions it calls (fuel = call depth) *)
Fixpoint rops_trans (n : nat) (pr : program) (tbl : list (string * list rop)) (f : string) : list rop :=
  match n with
  | O => assocd f tbl []
  | S k => assocd f tbl [] ++
           flat_map (rops_trans k pr tbl) (match assoc f pr with Some b => dedup (callees b) | None => [] end)
  end.

(* complaints as flat triples (function, kind, subject): what the check prints and the driver parses *)
Definition flat_complaints (l : list (string * list complaint)) : list (string * ckind * string) :=
  flat_map (fun fc => map (fun c => (fst fc, fst c, snd c)) (snd fc)) l.

(* ================= check-then-act (atomicity of a decision on a guarded field) =================
   A critical section of lock l = from an Acq l to the matching Rel l (for a function that requires l: its whole body).
   Rule: a function must not write a field guarded by l in one critical section of l when it read that field in an EARLIER
   critical section of l, released since, unless it read the field again in the current section before the write
   ("look the graph up under the read lock, release, take the write lock and create it without looking again").
   The analysis is path-insensitive where branches join (a field counts as re-read only if re-read on every branch, as
   stale if stale on some branch), iterates loop bodies three times, treats a callee that REQUIRES locks as running inside
   the caller's section (its reads and writes, transitively, as one block) and other callees as not touching the caller's
   sections.  A structural obligation over the generated program, like roots_ops; no semantic theorem is attached to it. *)
Local Close Scope string_scope.
Record ctst := { ct_cur : list (string * list string);       (* held lock -> fields read in its current section *)
                 ct_stale : list (string * string) }.         (* (lock, field): read in an earlier, released section *)
Definition ct_init (req : held) : ctst := {| ct_cur := map (fun lm => (fst lm, [])) req; ct_stale := [] |}.
Definition guard_locks (C : contracts) (f : string) : list string := match guard_of C f with GLocks ls => ls | _ => [] end.
Definition ct_held (l : string) (s : ctst) : bool := match assoc l (ct_cur s) with Some _ => true | None => false end.
Fixpoint cur_add (l f : string) (cur : list (string * list string)) : list (string * list string) :=
  match cur with
  | [] => []
  | (l', fs) :: t => if String.eqb l l' then (l', if mem f fs then fs else f :: fs) :: t else (l', fs) :: cur_add l f t
  end.
Definition stale_del (l f : string) (st : list (string * string)) : list (string * string) :=
  filter (fun p => negb (String.eqb l (fst p) && String.eqb f (snd p))) st.
Definition stale_add (l f : string) (st : list (string * string)) : list (string * string) :=
  if mem2 l f st then st else (l, f) :: st.
(* a read (or a write, once checked) of f refreshes it in every held section of its guard locks *)
Definition ct_touch (C : contracts) (f : string) (s : ctst) : ctst :=
  fold_left (fun s l => if ct_held l s then {| ct_cur := cur_add l f (ct_cur s); ct_stale := stale_del l f (ct_stale s) |} else s)
            (guard_locks C f) s.
Definition ct_is_stale (C : contracts) (f : string) (s : ctst) : bool :=
  existsb (fun l => ct_held l s && mem2 l f (ct_stale s)) (guard_locks C f).
Definition cta_act (C : contracts) (s : ctst) (a : act) : list complaint * ctst :=
  match a with
  | Acq l _ => ([], if ct_held l s then s else {| ct_cur := (l, []) :: ct_cur s; ct_stale := ct_stale s |})
  | Rel l _ => ([], {| ct_cur := filter (fun p => negb (String.eqb l (fst p))) (ct_cur s);
                       ct_stale := fold_left (fun st f => stale_add l f st) (assocd l (ct_cur s) []) (ct_stale s) |})
  | Rd f => ([], ct_touch C f s)
  | Wr f => ((if ct_is_stale C f s then [(KCheckThenAct, f)] else []), ct_touch C f s)
  | User _ => ([], s)
  end.

Definition ct_join (a b : ctst) : ctst :=
  {| ct_cur := map (fun lf => (fst lf, filter (fun f => mem f (assocd (fst lf) (ct_cur b) [])) (snd lf))) (ct_cur a);
     ct_stale := ct_stale a ++ filter (fun p => negb (mem2 (fst p) (snd p) (ct_stale a))) (ct_stale b) |}.
Definition ct_joinopt (a b : option ctst) : option ctst :=
  match a, b with Some x, Some y => Some (ct_join x y) | Some x, None => Some x | None, y => y end.
Definition ct_joinall (l : list ctst) : option ctst := fold_left (fun acc s => ct_joinopt acc (Some s)) l None.

Record ctres := { cr_c : list complaint; cr_n : option ctst; cr_b : list (nat * ctst); cr_r : list ctst }.
Definition brk0 (b : list (nat * ctst)) : list ctst := flat_map (fun ns => match fst ns with O => [snd ns] | S _ => [] end) b.
Definition brk_out (b : list (nat * ctst)) : list (nat * ctst) := flat_map (fun ns => match fst ns with O => [] | S n => [(n, snd ns)] end) b.

(* reads / writes a requires-callee performs inside its caller's section *)
Fixpoint direct_rw (p : prog) : list string * list string :=
  match p with
  | PAct (Rd f) | PDefer (Rd f) => ([f], [])
  | PAct (Wr f) | PDefer (Wr f) => ([], [f])
  | PSeq p q | PAlt p q => let '(r1, w1) := direct_rw p in let '(r2, w2) := direct_rw q in (r1 ++ r2, w1 ++ w2)
  | PLoop p | PBlock p | PLoop1 p => direct_rw p
  | _ => ([], [])
  end.
Definition needs_locks (C : contracts) (f : string) : bool := match requires C f with [] => false | _ => true end.
Fixpoint rw_summary (n : nat) (C : contracts) (pr : program) (tbl : list (string * (list string * list string)))
  : list (string * (list string * list string)) :=
  match n with
  | O => tbl
  | S k =>
      rw_summary k C pr
        (map (fun fb => let '(r, w) := direct_rw (snd fb) in
                        let sub := filter (needs_locks C) (dedup (callees (snd fb))) in
                        (fst fb, (dedup (r ++ flat_map (fun c => fst (assocd c tbl ([], []))) sub),
                                  dedup (w ++ flat_map (fun c => snd (assocd c tbl ([], []))) sub)))) pr)
  end.

Section CTA.
  Variable C : contracts.
  Variable summ : list (string * (list string * list string)).

  Definition cta_call (f : string) (s : ctst) : list complaint * ctst :=
    if needs_locks C f then
      let '(r, w) := assocd f summ ([], []) in
      (flat_map (fun x => if ct_is_stale C x s && negb (mem x r) then [(KCheckThenAct, x)] else []) w,
       fold_left (fun s x => ct_touch C x s) (r ++ w) s)
    else ([], s).

  Fixpoint cta (p : prog) (s : ctst) : ctres :=
    match p with
    | PSkip | PDefer _ => {| cr_c := []; cr_n := Some s; cr_b := []; cr_r := [] |}
    | PAct a => let '(c, s') := cta_act C s a in {| cr_c := c; cr_n := Some s'; cr_b := []; cr_r := [] |}
    | PRet => {| cr_c := []; cr_n := None; cr_b := []; cr_r := [s] |}
    | PBrk n => {| cr_c := []; cr_n := None; cr_b := [(n, s)]; cr_r := [] |}
    | PSeq p q =>
        let r1 := cta p s in
        match cr_n r1 with
        | None => r1
        | Some s1 => let r2 := cta q s1 in
                     {| cr_c := cr_c r1 +++ cr_c r2; cr_n := cr_n r2; cr_b := cr_b r1 ++ cr_b r2; cr_r := cr_r r1 ++ cr_r r2 |}
        end
    | PAlt p q =>
        let r1 := cta p s in let r2 := cta q s in
        {| cr_c := cr_c r1 +++ cr_c r2; cr_n := ct_joinopt (cr_n r1) (cr_n r2); cr_b := cr_b r1 ++ cr_b r2; cr_r := cr_r r1 ++ cr_r r2 |}
    | PLoop p =>
        let round := fun s => let r := cta p s in
                              (r, match ct_joinall (s :: match cr_n r with Some x => [x] | None => [] end ++ brk0 (cr_b r)) with Some x => x | None => s end) in
        let '(r1, s1) := round s in let '(r2, s2) := round s1 in let '(r3, s3) := round s2 in
        {| cr_c := cr_c r1 +++ cr_c r2 +++ cr_c r3; cr_n := Some s3; cr_b := brk_out (cr_b r3); cr_r := cr_r r3 |}
    | PLoop1 p =>
        let r := cta p s in
        {| cr_c := cr_c r; cr_n := ct_joinall (match cr_n r with Some x => [x] | None => [] end ++ brk0 (cr_b r));
           cr_b := brk_out (cr_b r); cr_r := cr_r r |}
    | PCall f => let '(c, s') := cta_call f s in {| cr_c := c; cr_n := Some s'; cr_b := []; cr_r := [] |}
    | PGo p => let r := cta p (ct_init []) in {| cr_c := cr_c r; cr_n := Some s; cr_b := []; cr_r := [] |}
    | PBlock p =>
        let r := cta p s in
        {| cr_c := cr_c r; cr_n := ct_joinall (match cr_n r with Some x => [x] | None => [] end ++ cr_r r); cr_b := []; cr_r := [] |}
    end.
End CTA.

Definition cta_program (C : contracts) (pr : program) : list (string * list complaint) :=
  let summ := rw_summary 8 C pr [] in
  flat_map (fun fb => match dedup_c (cr_c (cta C summ (snd fb) (ct_init (requires C (fst fb))))) with
                      | [] => [] | w => [(fst fb, w)] end) pr.


(* ================= concurrency constructs (goroutine starts, blocking waits that are not mutex operations) =================
   Every (function, construct) pair of the program must be on an audited list (Contracts.audited_concurrency): a new `go`
   statement, channel operation, WaitGroup / Cond wait in the library is a change the lock language cannot judge by itself
   (it does not model who signals whom), so it breaks this obligation and sends the check searching for a call that hangs. *)
Fixpoint constructs (p : prog) : list string :=
  match p with
  | PAct (User k) | PDefer (User k) => if String.prefix "wait:" k then [k] else []
  | PGo p => "go"%string :: constructs p
  | PSeq p q | PAlt p q => constructs p ++ constructs q
  | PLoop p | PBlock p | PLoop1 p => constructs p
  | _ => []
  end.
Definition unaudited (audited : list (string * string)) (pr : program) : list (string * list complaint) :=
  flat_map (fun fb => match dedup_c (flat_map (fun c => if mem2 (fst fb) c audited then [] else [(KUnauditedConcurrency, c)]) (constructs (snd fb))) with
                      | [] => [] | w => [(fst fb, w)] end) pr.
