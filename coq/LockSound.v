(* LockSound.v — big-step trace semantics of the command language of LockLang.v and the soundness of the checker:
   if the checker has no complaint about any function of a program then every run of every thread of that program
   (entry points called from a thread holding nothing they acquire, and every goroutine they transitively start) is
   SAFE: every field access holds its guard, no lock is acquired while held or released while not held, no callback
   runs under a lock it may take.  From safety: two threads never have a write and a conflicting access to the same
   lock-guarded field enabled at the same time (no data race), and no Process / Close callback ever runs while the
   thread holds Broker.lock.  (Port of notes/spikes/LockFull.v, extended with break depths, spawn events, waivers,
   reachability and the whole-program theorems.) *)
From Coq Require Import List Bool Arith String Lia.
From Verif Require Import LockLang.
Import ListNotations.

(* ---------- semantics ---------- *)
Inductive exit := XN | XR | XB (n : nat).
Definition is_brk (x : exit) : bool := match x with XB _ => true | _ => false end.
(* leaving a breakable region: a break aimed at this region ends there, one aimed further out goes on *)
Definition leave (x : exit) : exit := match x with XB 0 => XN | XB (S n) => XB n | x => x end.

(* what a thread does: an action, or the start of another thread running p *)
Inductive ev := EA (a : act) | EGo (p : prog).
Definition trace := list (string * ev).     (* each event tagged with the function performing it *)
Definition tag (fn : string) (l : list act) : trace := map (fun a => (fn, EA a)) l.

Section Sem.
  Variable fenv : string -> option prog.

  (* run fn p ds t x ds' : inside function fn, from deferred stack ds, p produces trace t, exits with x and
     leaves deferred stack ds' *)
  Inductive run (fn : string) : prog -> list act -> trace -> exit -> list act -> Prop :=
  | RSkip ds : run fn PSkip ds [] XN ds
  | RAct a ds : run fn (PAct a) ds [(fn, EA a)] XN ds
  | RDefer a ds : run fn (PDefer a) ds [] XN (a :: ds)
  | RBrk n ds : run fn (PBrk n) ds [] (XB n) ds
  | RRet ds : run fn PRet ds [] XR ds
  | RSeqN p q ds t1 ds1 t2 x ds2 : run fn p ds t1 XN ds1 -> run fn q ds1 t2 x ds2 -> run fn (PSeq p q) ds (t1 ++ t2) x ds2
  | RSeqX p q ds t1 x ds1 : run fn p ds t1 x ds1 -> x <> XN -> run fn (PSeq p q) ds t1 x ds1
  | RAltL p q ds t x ds1 : run fn p ds t x ds1 -> run fn (PAlt p q) ds t x ds1
  | RAltR p q ds t x ds1 : run fn q ds t x ds1 -> run fn (PAlt p q) ds t x ds1
  | RLoop0 p ds : run fn (PLoop p) ds [] XN ds
  | RLoopS p ds t1 x1 ds1 t2 x ds2 : run fn p ds t1 x1 ds1 -> x1 = XN \/ x1 = XB 0 ->     (* normal end or continue: go round again *)
      run fn (PLoop p) ds1 t2 x ds2 -> run fn (PLoop p) ds (t1 ++ t2) x ds2
  | RLoopX p ds t1 x1 ds1 : run fn p ds t1 x1 ds1 -> x1 <> XN ->      (* break / outer break / return from the body *)
      run fn (PLoop p) ds t1 (leave x1) ds1
  | RLoop1 p ds t x ds1 : run fn p ds t x ds1 -> run fn (PLoop1 p) ds t (leave x) ds1
  | RCall f body ds t x dsf : fenv f = Some body -> run f body [] t x dsf -> is_brk x = false ->
      run fn (PCall f) ds (t ++ tag f dsf) XN ds
  | RBlock p ds t x dsf : run fn p [] t x dsf -> is_brk x = false -> run fn (PBlock p) ds (t ++ tag fn dsf) XN ds
  | RGo p ds : run fn (PGo p) ds [(fn, EGo p)] XN ds.    (* the spawned body runs in another thread *)
End Sem.

(* ---------- what "safe" means ---------- *)
(* the body of a started goroutine has been checked as a thread of its own, from the empty lock set *)
Definition go_ok (C : contracts) (fn : string) (p : prog) : Prop :=
  exists res, check C fn None [] [] p [] [] = ([], res) /\
    match res with None => True | Some (h', ds') => run_defers C fn None h' ds' = ([], []) end.

Definition act_safe (C : contracts) (fname : string) (H : held) (a : act) : Prop :=
  match a with
  | Acq l _ => lookup l H = None /\ ranked (rank C) H l = true
  | Rel l m => lookup l H = Some m
  | Rd f => match guard_of C f with GLocks ls => rd_ok H ls = true \/ mem2 fname f (waived C) = true | _ => True end
  | Wr f => match guard_of C f with
            | GLocks ls => wr_ok H ls = true \/ mem2 fname f (waived C) = true
            | GImmutable => mem fname (constructors C) = true
            | GFree => True end
  | User k => disjoint H (user_acquires C k) = true /\ forallb (ranked (rank C) H) (user_acquires C k) = true
  end.
Definition ev_safe (C : contracts) (fname : string) (H : held) (e : ev) : Prop :=
  match e with EA a => act_safe C fname H a | EGo p => go_ok C fname p end.
Definition upd (H : held) (a : act) : held :=
  match a with Acq l m => (l, m) :: H | Rel l _ => remove l H | _ => H end.
Definition updE (H : held) (e : ev) : held := match e with EA a => upd H a | EGo _ => H end.
Fixpoint upds (H : held) (t : trace) : held := match t with [] => H | a :: t' => upds (updE H (snd a)) t' end.
Fixpoint trace_safe (C : contracts) (H : held) (t : trace) : Prop :=
  match t with [] => True | a :: t' => ev_safe C (fst a) H (snd a) /\ trace_safe C (updE H (snd a)) t' end.

Lemma trace_safe_app C H t1 t2 : trace_safe C H (t1 ++ t2) <-> trace_safe C H t1 /\ trace_safe C (upds H t1) t2.
Proof. revert H; induction t1 as [|a t1 IH]; intros H; cbn; [tauto|]. rewrite IH. tauto. Qed.
Lemma upds_app H t1 t2 : upds H (t1 ++ t2) = upds (upds H t1) t2.
Proof. revert H; induction t1 as [|a t1 IH]; intros H; cbn; auto. Qed.

(* ---------- basic facts ---------- *)
Lemma mode_eqb_eq a b : mode_eqb a b = true -> a = b.
Proof. destruct a, b; cbn; congruence. Qed.
Lemma held_eqb_eq a b : held_eqb a b = true -> a = b.
Proof.
  revert b; induction a as [|[l m] a IH]; intros [|[l' m'] b]; cbn; try congruence.
  intros H. apply andb_prop in H as [H H3]. apply andb_prop in H as [H1 H2].
  apply String.eqb_eq in H1. apply mode_eqb_eq in H2. f_equal; [congruence|auto].
Qed.
Lemma held_eqb_refl a : held_eqb a a = true.
Proof. induction a as [|[l m] a IH]; cbn; [reflexivity|]. rewrite String.eqb_refl, IH. destruct m; reflexivity. Qed.
Lemma mem_In l ls : mem l ls = true <-> In l ls.
Proof.
  unfold mem. rewrite existsb_exists. split.
  - intros [x [Hx He]]. apply String.eqb_eq in He. subst; auto.
  - intros H. exists l. split; auto. apply String.eqb_refl.
Qed.
Lemma lookup_remove_same l h : lookup l (remove l h) = None.
Proof. induction h as [|[l' m] h IH]; cbn; auto. destruct (String.eqb l l') eqn:E; auto. cbn. rewrite E. auto. Qed.
Lemma lookup_remove_other l l' h : l <> l' -> lookup l (remove l' h) = lookup l h.
Proof.
  intros Hn. induction h as [|[l2 m] h IH]; cbn; auto.
  destruct (String.eqb l' l2) eqn:E.
  - apply String.eqb_eq in E. subst. destruct (String.eqb l l2) eqn:E2; auto. apply String.eqb_eq in E2. congruence.
  - cbn. rewrite IH. auto.
Qed.
Lemma disjoint_spec h ls : disjoint h ls = true <-> forall l, In l ls -> lookup l h = None.
Proof.
  unfold disjoint. rewrite forallb_forall. split; intros H l Hl; specialize (H l Hl).
  - destruct (lookup l h); congruence.
  - rewrite H. auto.
Qed.
Lemma app_nil_s (a b : list complaint) : a +++ b = [] -> a = [] /\ b = [].
Proof. apply app_eq_nil. Qed.

(* abstract set is a sub-map of the concrete one and exact on the declared locks (all locks when decl = None) *)
Definition absrel (decl : option (list string)) (h H : held) : Prop :=
  (forall l m, lookup l h = Some m -> lookup l H = Some m) /\
  (forall l, declared decl l = true -> lookup l H = lookup l h).

Lemma rd_ok_mono h H ls : (forall l m, lookup l h = Some m -> lookup l H = Some m) -> rd_ok h ls = true -> rd_ok H ls = true.
Proof.
  intros Hs. unfold rd_ok. rewrite !existsb_exists. intros [l [Hl Hx]]. exists l. split; auto.
  destruct (lookup l h) eqn:E; [|discriminate]. rewrite (Hs _ _ E). reflexivity.
Qed.
Lemma wr_ok_mono h H ls : (forall l m, lookup l h = Some m -> lookup l H = Some m) -> wr_ok h ls = true -> wr_ok H ls = true.
Proof.
  intros Hs. unfold wr_ok. rewrite !forallb_forall. intros Hall l Hl. specialize (Hall l Hl).
  destruct (lookup l h) as [[|]|] eqn:E; try discriminate. rewrite (Hs _ _ E). reflexivity.
Qed.

(* the locks a function does not know about (held by its callers, not declared) all rank below every lock it may take:
   what makes the lock-order check modular *)
Definition rinv (rk : string -> nat) (decl : option (list string)) (H : held) : Prop :=
  forall l', lookup l' H <> None -> declared decl l' = false -> forall l, declared decl l = true -> (rk l' < rk l)%nat.
Lemma rinv_stable rk decl H H' : (forall l, declared decl l = false -> lookup l H' = lookup l H) -> rinv rk decl H -> rinv rk decl H'.
Proof. intros Hst Hr l' Hl' Hd l Hl. apply (Hr l'); auto. rewrite <- (Hst l' Hd). exact Hl'. Qed.
Lemma rinv_nil rk decl : rinv rk decl [].
Proof. intros l' Hl'. cbn in Hl'. congruence. Qed.
Lemma in_lookup (h : held) l m : In (l, m) h -> lookup l h <> None.
Proof.
  induction h as [|[l0 m0] t IH]; cbn; [tauto|]. intros [E|Hin].
  - inversion E; subst. rewrite String.eqb_refl. discriminate.
  - destruct (String.eqb l l0); [discriminate|auto].
Qed.
Lemma lookup_in (h : held) l : lookup l h <> None -> exists m, In (l, m) h.
Proof.
  induction h as [|[l0 m0] t IH]; cbn; [congruence|]. destruct (String.eqb l l0) eqn:E.
  - apply String.eqb_eq in E. subst. eauto.
  - intros Hn. destruct (IH Hn) as [m Hm]. eauto.
Qed.
(* from the check on the abstract set to the concrete one *)
Lemma ranked_lift rk decl h H l :
  (forall x, declared decl x = true -> lookup x H = lookup x h) -> rinv rk decl H -> declared decl l = true ->
  ranked rk h l = true -> ranked rk H l = true.
Proof.
  intros Hex Hr Hl Hrk. unfold ranked in *. rewrite forallb_forall in *. intros [l' m'] Hin. cbn [fst].
  apply Nat.ltb_lt. pose proof (in_lookup _ _ _ Hin) as Hne.
  destruct (declared decl l') eqn:Ed.
  - rewrite (Hex l' Ed) in Hne. destruct (lookup_in _ _ Hne) as [m Hm]. specialize (Hrk _ Hm). cbn in Hrk. apply Nat.ltb_lt in Hrk. exact Hrk.
  - apply (Hr l' Hne Ed l Hl).
Qed.

Lemma act_eqb_eq a b : act_eqb a b = true -> a = b.
Proof.
  destruct a, b; cbn; try discriminate; intros H;
    try (apply andb_prop in H as [H1 H2]; apply String.eqb_eq in H1; apply mode_eqb_eq in H2; subst; reflexivity);
    apply String.eqb_eq in H; subst; reflexivity.
Qed.
Lemma acts_eqb_eq a b : acts_eqb a b = true -> a = b.
Proof.
  revert b; induction a as [|x a IH]; intros [|y b]; cbn; try discriminate; [reflexivity|].
  intros H. apply andb_prop in H as [H1 H2]. apply act_eqb_eq in H1. rewrite (IH _ H2). subst. reflexivity.
Qed.

Lemma covers_spec h req : covers h req = true -> forall l m, lookup l req = Some m -> lookup l h = Some m.
Proof.
  unfold covers. rewrite forallb_forall. intros Hc l m Hl.
  assert (Hin : exists m', In (l, m') req).
  { clear Hc. induction req as [|[l' m'] req IH]; cbn in *; try discriminate.
    destruct (String.eqb l l') eqn:E.
    - apply String.eqb_eq in E. subst. eauto.
    - destruct (IH Hl) as [m2 H2]. eauto. }
  destruct Hin as [m' Hin]. specialize (Hc _ Hin). cbn in Hc.
  rewrite Hl in Hc. destruct (lookup l h); cbn in Hc; try discriminate.
  apply mode_eqb_eq in Hc. congruence.
Qed.

Section Sound.
  Variable C : contracts.
  Variable fenv : string -> option prog.
  Hypothesis all_checked : forall f body, fenv f = Some body -> check_fn C f body = [].

  Lemma step_act_sound fn decl h H a h' :
    step_act C fn decl h a = ([], h') -> absrel decl h H -> rinv (rank C) decl H ->
    act_safe C fn H a /\ absrel decl h' (upd H a) /\ (forall l, declared decl l = false -> lookup l (upd H a) = lookup l H).
  Proof.
    intros Hs [Hsub Hex] Hrinv. destruct a as [l m|l m|f|f|k]; cbn [step_act act_safe upd] in *.
    - destruct (declared decl l) eqn:Ed; [|inversion Hs].
      destruct (lookup l h) eqn:El; [inversion Hs|].
      destruct (ranked (rank C) h l) eqn:Erk; inversion Hs; subst h'.
      assert (HlH : lookup l H = None) by (rewrite Hex; auto).
      split; [split; [exact HlH|eapply ranked_lift; eauto]|]. split.
      + split.
        * intros l0 m0. cbn. destruct (String.eqb l0 l) eqn:E; auto.
        * intros l0 Hl0. cbn. destruct (String.eqb l0 l) eqn:E; auto.
      + intros l0 Hn. cbn. destruct (String.eqb l0 l) eqn:E; auto. apply String.eqb_eq in E. subst. congruence.
    - destruct (declared decl l) eqn:Ed; [|inversion Hs].
      destruct (lookup l h) eqn:El; [|inversion Hs].
      destruct (mode_eqb m m0) eqn:Em; inversion Hs; subst h'.
      apply mode_eqb_eq in Em. subst m0.
      split; [apply Hsub; auto|]. split.
      + split.
        * intros l0 m0 Hl0. destruct (string_dec l0 l) as [->|Hn].
          -- rewrite lookup_remove_same in Hl0. discriminate.
          -- rewrite lookup_remove_other in * by auto. auto.
        * intros l0 Hl0. destruct (string_dec l0 l) as [->|Hn].
          -- rewrite !lookup_remove_same. auto.
          -- rewrite !lookup_remove_other by auto. auto.
      + intros l0 Hn. apply lookup_remove_other. intros ->. congruence.
    - destruct (guard_of C f) as [ls| |]; [|inversion Hs; subst; repeat split; auto..].
      destruct (rd_ok h ls || mem2 fn f (waived C)) eqn:E; inversion Hs; subst.
      split; [|repeat split; auto].
      apply orb_prop in E as [E|E]; [left; eapply rd_ok_mono; eauto|right; exact E].
    - destruct (guard_of C f) as [ls| |].
      + destruct (wr_ok h ls || mem2 fn f (waived C)) eqn:E; inversion Hs; subst.
        split; [|repeat split; auto].
        apply orb_prop in E as [E|E]; [left; eapply wr_ok_mono; eauto|right; exact E].
      + destruct (mem fn (constructors C)) eqn:E; inversion Hs; subst. repeat split; auto.
      + inversion Hs; subst. repeat split; auto.
    - destruct (disjoint h (user_acquires C k)) eqn:Ed; cbn [andb] in Hs; [|inversion Hs].
      destruct (forallb (declared decl) (user_acquires C k)) eqn:Ef; [|inversion Hs].
      destruct (forallb (ranked (rank C) h) (user_acquires C k)) eqn:Erk; inversion Hs; subst.
      split; [|repeat split; auto]. split.
      + apply disjoint_spec. intros l Hl. rewrite forallb_forall in Ef. specialize (Ef l Hl).
        rewrite Hex by auto. rewrite disjoint_spec in Ed. auto.
      + rewrite forallb_forall in *. intros l Hl. eapply ranked_lift; eauto.
  Qed.

  Lemma run_defers_sound fn decl ds : forall h H h',
    run_defers C fn decl h ds = ([], h') -> absrel decl h H -> rinv (rank C) decl H ->
    trace_safe C H (tag fn ds) /\ absrel decl h' (upds H (tag fn ds)) /\
    (forall l, declared decl l = false -> lookup l (upds H (tag fn ds)) = lookup l H).
  Proof.
    induction ds as [|a t IH]; intros h H h' Hr Ha Hri; cbn [run_defers] in Hr.
    - inversion Hr; subst. cbn. auto.
    - destruct (step_act C fn decl h a) as [e1 h1] eqn:E1. destruct (run_defers C fn decl h1 t) as [e2 h2] eqn:E2.
      inversion Hr as [[He Hh]]. apply app_nil_s in He as [-> ->]. subst h2.
      destruct (step_act_sound _ _ _ _ _ _ E1 Ha Hri) as [S1 [S2 S3]].
      destruct (IH _ _ _ E2 S2 (rinv_stable _ _ _ _ S3 Hri)) as [T1 [T2 T3]]. cbn [tag map trace_safe upds updE ev_safe fst snd].
      split; [split; assumption|]. split; [exact T2|].
      intros l Hl. rewrite T3, S3; auto.
  Qed.

  Lemma no_defer_run fn p ds t x ds' : run fenv fn p ds t x ds' -> no_defer p = true -> ds' = ds.
  Proof.
    induction 1; cbn [no_defer]; intros Hn; try reflexivity; try discriminate.
    - apply andb_prop in Hn as [H1 H2]. rewrite (IHrun2 H2). apply IHrun1. exact H1.
    - apply andb_prop in Hn as [H1 H2]. apply IHrun. exact H1.
    - apply andb_prop in Hn as [H1 H2]. apply IHrun. exact H1.
    - apply andb_prop in Hn as [H1 H2]. apply IHrun. exact H2.
    - rewrite (IHrun2 Hn). apply IHrun1. exact Hn.
    - apply IHrun. exact Hn.
    - apply IHrun. exact Hn.
  Qed.

  Definition post (decl : option (list string)) (entry : held) (les : list held) (fn : string) (res : st)
             (H : held) (t : trace) (x : exit) (dsout : list act) : Prop :=
    trace_safe C H t /\
    (forall l, declared decl l = false -> lookup l (upds H t) = lookup l H) /\
    match x with
    | XN => exists h', res = Some (h', dsout) /\ absrel decl h' (upds H t)
    | XR => trace_safe C (upds H t) (tag fn dsout) /\ absrel decl entry (upds H (t ++ tag fn dsout)) /\
            (forall l, declared decl l = false -> lookup l (upds H (t ++ tag fn dsout)) = lookup l H)
    | XB n => exists le, nth_error les n = Some le /\ absrel decl le (upds H t)
    end.

  (* facts about a checked loop / switch body shared by the PLoop and PLoop1 cases *)
  Lemma region_result (fn : string) decl entry les p h ds (kind : ckind) res :
    (let '(e, r) := check C fn decl entry (h :: les) p h ds in
     match r with
     | None => (e, Some (h, ds))
     | Some (h', ds') => if held_eqb h' h then (e, Some (h, ds)) else (e +++ [(kind, fn)], Some (h, ds))
     end) = ([], res) ->
    exists r1, check C fn decl entry (h :: les) p h ds = ([], r1) /\ res = Some (h, ds) /\
               (forall h1 d1, r1 = Some (h1, d1) -> h1 = h).
  Proof.
    destruct (check C fn decl entry (h :: les) p h ds) as [e1 [[h1 d1]|]] eqn:E1.
    - destruct (held_eqb h1 h) eqn:Eq; intros Hc; injection Hc as He Hres.
      + apply held_eqb_eq in Eq. subst. exists (Some (h, d1)). repeat split; auto. intros ? ? Hx. inversion Hx; reflexivity.
      + apply app_nil_s in He as [_ He]. discriminate.
    - intros Hc. injection Hc as He Hres. subst. exists None. repeat split; auto. intros ? ? Hx. discriminate.
  Qed.

  Theorem check_sound :
    forall fn p ds t x ds', run fenv fn p ds t x ds' ->
    forall decl entry les h H res,
      check C fn decl entry les p h ds = ([], res) -> absrel decl h H -> rinv (rank C) decl H ->
      post decl entry les fn res H t x ds'.
  Proof.
    induction 1 as [ fn ds | fn a ds | fn a ds | fn n ds | fn ds
                   | fn p q ds t1 ds1 t2 x ds2 R1 IH1 R2 IH2
                   | fn p q ds t1 x ds1 R1 IH1 Hx
                   | fn p q ds t x ds1 R IH | fn p q ds t x ds1 R IH
                   | fn p ds
                   | fn p ds t1 x1 ds1 t2 x ds2 R1 IH1 Hx1 R2 IH2
                   | fn p ds t1 x1 ds1 R1 IH1 Hx1
                   | fn p ds t x ds1 R IH
                   | fn f body ds t x dsf Hf R IH Hxb
                   | fn p ds t x dsf R IH Hxb
                   | fn p ds ];
      intros decl entry les h H res Hc Ha Hri; cbn [check] in Hc.
    - (* skip *) inversion Hc; subst. split; [exact I|]. split; [auto|]. exists h. auto.
    - (* act *)
      destruct (step_act C fn decl h a) as [e h1] eqn:Es. inversion Hc; subst.
      destruct (step_act_sound _ _ _ _ _ _ Es Ha Hri) as [S1 [S2 S3]].
      split; [cbn; auto|]. split; [cbn; auto|]. exists h1. auto.
    - (* defer *) inversion Hc; subst. split; [exact I|]. split; [auto|]. exists h. auto.
    - (* break *)
      destruct (nth_error les n) as [le|] eqn:En; [|inversion Hc].
      destruct (held_eqb h le) eqn:E; inversion Hc. apply held_eqb_eq in E. subst.
      split; [exact I|]. split; [auto|]. exists le. auto.
    - (* return *)
      destruct (run_defers C fn decl h ds) as [e h1] eqn:Er. injection Hc as He Hres.
      apply app_nil_s in He as [-> He]. destruct (held_eqb h1 entry) eqn:E; [|discriminate].
      apply held_eqb_eq in E. subst h1.
      destruct (run_defers_sound _ _ _ _ _ _ Er Ha Hri) as [T1 [T2 T3]].
      split; [exact I|]. split; [auto|]. cbn [app upds]. auto.
    - (* seq, first part normal *)
      destruct (check C fn decl entry les p h ds) as [e1 [[h1 d1]|]] eqn:E1.
      + destruct (check C fn decl entry les q h1 d1) as [e2 r2] eqn:E2. injection Hc as He Hres.
        apply app_nil_s in He as [-> ->]. subst r2.
        destruct (IH1 _ _ _ _ _ _ E1 Ha Hri) as [T1 [F1 [h' [Eh A1]]]]. inversion Eh; subst h' d1.
        destruct (IH2 _ _ _ _ _ _ E2 A1 (rinv_stable _ _ _ _ F1 Hri)) as [T2 [F2 P2]].
        split; [apply trace_safe_app; auto|]. split.
        * intros l Hl. rewrite upds_app, F2, F1; auto.
        * destruct x.
          -- rewrite upds_app. exact P2.
          -- destruct P2 as [P2a [P2b P2c]]. rewrite upds_app. split; [exact P2a|].
             rewrite <- app_assoc, !upds_app. rewrite upds_app in P2b, P2c. split; [exact P2b|].
             intros l Hl. rewrite P2c, F1; auto.
          -- rewrite upds_app. exact P2.
      + inversion Hc; subst. destruct (IH1 _ _ _ _ _ _ E1 Ha Hri) as [_ [_ [h' [Eh _]]]]. discriminate.
    - (* seq, first part leaves *)
      destruct (check C fn decl entry les p h ds) as [e1 [[h1 d1]|]] eqn:E1.
      + destruct (check C fn decl entry les q h1 d1) as [e2 r2] eqn:E2. injection Hc as He Hres.
        apply app_nil_s in He as [-> ->].
        destruct (IH1 _ _ _ _ _ _ E1 Ha Hri) as [T1 [F1 P1]]. split; [exact T1|]. split; [exact F1|].
        destruct x; [congruence|exact P1|exact P1].
      + inversion Hc; subst. destruct (IH1 _ _ _ _ _ _ E1 Ha Hri) as [T1 [F1 P1]]. split; [exact T1|]. split; [exact F1|].
        destruct x; [congruence|exact P1|exact P1].
    - (* alt left *)
      destruct (check C fn decl entry les p h ds) as [e1 r1] eqn:E1.
      destruct (check C fn decl entry les q h ds) as [e2 r2] eqn:E2.
      assert (He : e1 = [] /\ (x = XN -> res = r1)).
      { destruct r1 as [[h1 d1]|]; destruct r2 as [[h2 d2]|].
        - destruct (held_eqb h1 h2 && acts_eqb d1 d2) eqn:Eq; injection Hc as He Hres.
          + apply app_nil_s in He as [-> _]. auto.
          + apply app_nil_s in He as [_ He]. apply app_nil_s in He as [_ He]. discriminate.
        - injection Hc as He Hres. apply app_nil_s in He as [-> _]. auto.
        - injection Hc as He Hres. apply app_nil_s in He as [-> _]. split; [reflexivity|].
          intros ->. destruct (IH _ _ _ _ _ _ E1 Ha Hri) as [_ [_ [h' [Eh _]]]]. subst. discriminate.
        - injection Hc as He Hres. apply app_nil_s in He as [-> _]. auto. }
      destruct He as [-> Hr]. destruct (IH _ _ _ _ _ _ E1 Ha Hri) as [T1 [F1 P1]].
      split; [exact T1|]. split; [exact F1|]. destruct x; [rewrite (Hr eq_refl); exact P1|exact P1|exact P1].
    - (* alt right *)
      destruct (check C fn decl entry les p h ds) as [e1 r1] eqn:E1.
      destruct (check C fn decl entry les q h ds) as [e2 r2] eqn:E2.
      assert (He : e2 = [] /\ (x = XN -> res = r2)).
      { destruct r1 as [[h1 d1]|]; destruct r2 as [[h2 d2]|].
        - destruct (held_eqb h1 h2 && acts_eqb d1 d2) eqn:Eq; injection Hc as He Hres.
          + apply app_nil_s in He as [_ ->]. apply andb_prop in Eq as [Q1 Q2].
            apply held_eqb_eq in Q1. apply acts_eqb_eq in Q2. subst. auto.
          + apply app_nil_s in He as [_ He]. apply app_nil_s in He as [_ He]. discriminate.
        - injection Hc as He Hres. apply app_nil_s in He as [_ ->]. split; [reflexivity|].
          intros ->. destruct (IH _ _ _ _ _ _ E2 Ha Hri) as [_ [_ [h' [Eh _]]]]. discriminate.
        - injection Hc as He Hres. apply app_nil_s in He as [_ ->]. auto.
        - injection Hc as He Hres. apply app_nil_s in He as [_ ->]. auto. }
      destruct He as [-> Hr]. destruct (IH _ _ _ _ _ _ E2 Ha Hri) as [T1 [F1 P1]].
      split; [exact T1|]. split; [exact F1|]. destruct x; [rewrite (Hr eq_refl); exact P1|exact P1|exact P1].
    - (* loop, zero iterations *)
      destruct (no_defer p) eqn:End; cbn [negb] in Hc; [|inversion Hc].
      destruct (region_result _ _ _ _ _ _ _ _ _ Hc) as [r1 [_ [-> _]]].
      split; [exact I|]. split; [auto|]. exists h. auto.
    - (* loop, one more round *)
      destruct (no_defer p) eqn:End; cbn [negb] in Hc; [|inversion Hc].
      pose proof (no_defer_run _ _ _ _ _ _ R1 End) as Hds. subst ds1.
      destruct (region_result _ _ _ _ _ _ _ _ _ Hc) as [r1 [E1 [-> Hh]]].
      destruct (IH1 _ _ _ _ _ _ E1 Ha Hri) as [T1 [F1 P1]].
      assert (A1 : absrel decl h (upds H t1)).
      { destruct Hx1 as [->| ->].
        - destruct P1 as [h' [Eh A]]. rewrite (Hh _ _ Eh) in A. exact A.
        - destruct P1 as [le [Hle A]]. cbn in Hle. inversion Hle; subst le. exact A. }
      assert (Hc2 : check C fn decl entry les (PLoop p) h ds = ([], Some (h, ds))).
      { cbn [check]. rewrite End. cbn [negb]. exact Hc. }
      destruct (IH2 _ _ _ _ _ _ Hc2 A1 (rinv_stable _ _ _ _ F1 Hri)) as [T2 [F2 P2]].
      split; [apply trace_safe_app; auto|]. split.
      + intros l Hl. rewrite upds_app, F2, F1; auto.
      + destruct x.
        * rewrite upds_app. exact P2.
        * destruct P2 as [P2a [P2b P2c]]. rewrite upds_app. split; [exact P2a|].
          rewrite <- app_assoc, !upds_app. rewrite upds_app in P2b, P2c. split; [exact P2b|].
          intros l Hl. rewrite P2c, F1; auto.
        * rewrite upds_app. exact P2.
    - (* loop left by break, outer break or return *)
      destruct (no_defer p) eqn:End; cbn [negb] in Hc; [|inversion Hc].
      pose proof (no_defer_run _ _ _ _ _ _ R1 End) as Hds. subst ds1.
      destruct (region_result _ _ _ _ _ _ _ _ _ Hc) as [r1 [E1 [-> Hh]]].
      destruct (IH1 _ _ _ _ _ _ E1 Ha Hri) as [T1 [F1 P1]].
      split; [exact T1|]. split; [exact F1|].
      destruct x1 as [| |[|n]]; cbn [leave]; [congruence|exact P1| |exact P1].
      destruct P1 as [le [Hle A]]. cbn in Hle. inversion Hle; subst le. exists h. auto.
    - (* switch / select *)
      destruct (no_defer p) eqn:End; cbn [negb] in Hc; [|inversion Hc].
      pose proof (no_defer_run _ _ _ _ _ _ R End) as Hds. subst ds1.
      destruct (region_result _ _ _ _ _ _ _ _ _ Hc) as [r1 [E1 [-> Hh]]].
      destruct (IH _ _ _ _ _ _ E1 Ha Hri) as [T1 [F1 P1]].
      split; [exact T1|]. split; [exact F1|].
      destruct x as [| |[|n]]; cbn [leave].
      + destruct P1 as [h' [Eh A]]. rewrite (Hh _ _ Eh) in A. exists h. auto.
      + exact P1.
      + destruct P1 as [le [Hle A]]. cbn in Hle. inversion Hle; subst le. exists h. auto.
      + exact P1.
    - (* call *)
      injection Hc as He Hres. apply app_nil_s in He as [E1 He]. apply app_nil_s in He as [E2 E3]. apply app_nil_s in E3 as [E3 E4].
      destruct (covers h (requires C f)) eqn:Ecov; [|discriminate].
      destruct (disjoint h (acquires C f)) eqn:Edis; [|discriminate].
      destruct (forallb (declared decl) (acquires C f)) eqn:Esub; [|discriminate].
      destruct (forallb (ranked (rank C) h) (acquires C f)) eqn:Erk; [|discriminate].
      pose proof (all_checked _ _ Hf) as Hck. unfold check_fn in Hck.
      apply app_nil_s in Hck as [Hdj Hck].
      destruct (disjoint (requires C f) (acquires C f)) eqn:Edj; [|discriminate].
      rewrite disjoint_spec in Edj, Edis. rewrite forallb_forall in Esub.
      destruct Ha as [Hsub Hex].
      assert (Ha' : absrel (Some (acquires C f)) (requires C f) H).
      { split.
        - intros l m Hl. apply Hsub. eapply covers_spec; eauto.
        - intros l Hl. cbn in Hl. apply mem_In in Hl. rewrite (Edj l Hl). rewrite Hex by (apply Esub; exact Hl). apply Edis. exact Hl. }
      assert (Hri' : rinv (rank C) (Some (acquires C f)) H).
      { intros l' Hl' Hd l Hl. cbn in Hl. apply mem_In in Hl.
        destruct (declared decl l') eqn:Edl.
        - rewrite (Hex l' Edl) in Hl'. destruct (lookup_in _ _ Hl') as [m0 Hm0].
          rewrite forallb_forall in Erk. specialize (Erk l Hl). unfold ranked in Erk. rewrite forallb_forall in Erk.
          specialize (Erk _ Hm0). cbn in Erk. apply Nat.ltb_lt. exact Erk.
        - apply (Hri l' Hl' Edl l). apply Esub. exact Hl. }
      cbn [check] in Hck.
      destruct (check C f (Some (acquires C f)) (requires C f) [] body (requires C f) []) as [eb [[hb db]|]] eqn:Eb.
      + destruct (run_defers C f (Some (acquires C f)) hb db) as [er hr] eqn:Er. cbn [fst] in Hck.
        apply app_nil_s in Hck as [-> Hck]. apply app_nil_s in Hck as [-> Hck].
        destruct (held_eqb hr (requires C f)) eqn:Eq; [|discriminate]. apply held_eqb_eq in Eq. subst hr.
        destruct (IH _ _ _ _ _ _ Eb Ha' Hri') as [T1 [F1 P1]].
        assert (Hfin : trace_safe C (upds H t) (tag f dsf) /\ absrel (Some (acquires C f)) (requires C f) (upds H (t ++ tag f dsf)) /\
                       (forall l, declared (Some (acquires C f)) l = false -> lookup l (upds H (t ++ tag f dsf)) = lookup l H)).
        { destruct x; [|exact P1|discriminate].
          destruct P1 as [h' [Eh A]]. inversion Eh; subst h' db.
          destruct (run_defers_sound _ _ _ _ _ _ Er A (rinv_stable _ _ _ _ F1 Hri')) as [D1 [D2 D3]]. rewrite upds_app. split; [exact D1|]. split; [exact D2|].
          intros l Hl. rewrite D3, F1; auto. }
        destruct Hfin as [G1 [G2 G3]].
        split; [apply trace_safe_app; auto|]. split.
        * intros l Hl. apply G3. cbn. destruct (mem l (acquires C f)) eqn:Em; [|reflexivity].
          apply mem_In in Em. rewrite (Esub l Em) in Hl. discriminate.
        * exists h. split; [subst; reflexivity|]. destruct G2 as [_ G2b]. split.
          -- intros l m Hl. destruct (mem l (acquires C f)) eqn:Em.
             ++ apply mem_In in Em. rewrite (Edis l Em) in Hl. discriminate.
             ++ rewrite G3 by exact Em. auto.
          -- intros l Hl. destruct (mem l (acquires C f)) eqn:Em.
             ++ rewrite G2b by exact Em. apply mem_In in Em. rewrite (Edj l Em), (Edis l Em). reflexivity.
             ++ rewrite G3 by exact Em. auto.
      + cbn [fst] in Hck. subst eb.
        destruct (IH _ _ _ _ _ _ Eb Ha' Hri') as [T1 [F1 P1]].
        assert (Hfin : trace_safe C (upds H t) (tag f dsf) /\ absrel (Some (acquires C f)) (requires C f) (upds H (t ++ tag f dsf)) /\
                       (forall l, declared (Some (acquires C f)) l = false -> lookup l (upds H (t ++ tag f dsf)) = lookup l H)).
        { destruct x; [|exact P1|discriminate]. destruct P1 as [h' [Eh A]]. discriminate. }
        destruct Hfin as [G1 [G2 G3]].
        split; [apply trace_safe_app; auto|]. split.
        * intros l Hl. apply G3. cbn. destruct (mem l (acquires C f)) eqn:Em; [|reflexivity].
          apply mem_In in Em. rewrite (Esub l Em) in Hl. discriminate.
        * exists h. split; [subst; reflexivity|]. destruct G2 as [_ G2b]. split.
          -- intros l m Hl. destruct (mem l (acquires C f)) eqn:Em.
             ++ apply mem_In in Em. rewrite (Edis l Em) in Hl. discriminate.
             ++ rewrite G3 by exact Em. auto.
          -- intros l Hl. destruct (mem l (acquires C f)) eqn:Em.
             ++ rewrite G2b by exact Em. apply mem_In in Em. rewrite (Edj l Em), (Edis l Em). reflexivity.
             ++ rewrite G3 by exact Em. auto.
    - (* function literal called in place *)
      destruct (check C fn decl h [] p h []) as [eb [[hb db]|]] eqn:Eb.
      + destruct (run_defers C fn decl hb db) as [er hr] eqn:Er. injection Hc as He Hres.
        apply app_nil_s in He as [-> He]. apply app_nil_s in He as [-> He].
        destruct (held_eqb hr h) eqn:Eq; [|discriminate]. apply held_eqb_eq in Eq. subst hr.
        destruct (IH _ _ _ _ _ _ Eb Ha Hri) as [T1 [F1 P1]].
        assert (Hfin : trace_safe C (upds H t) (tag fn dsf) /\ absrel decl h (upds H (t ++ tag fn dsf)) /\
                       (forall l, declared decl l = false -> lookup l (upds H (t ++ tag fn dsf)) = lookup l H)).
        { destruct x; [|exact P1|discriminate].
          destruct P1 as [h' [Eh A]]. inversion Eh; subst h' db.
          destruct (run_defers_sound _ _ _ _ _ _ Er A (rinv_stable _ _ _ _ F1 Hri)) as [D1 [D2 D3]]. rewrite upds_app. split; [exact D1|]. split; [exact D2|].
          intros l Hl. rewrite D3, F1; auto. }
        destruct Hfin as [G1 [G2 G3]].
        split; [apply trace_safe_app; auto|]. split; [exact G3|]. exists h. auto.
      + inversion Hc; subst.
        destruct (IH _ _ _ _ _ _ Eb Ha Hri) as [T1 [F1 P1]].
        assert (Hfin : trace_safe C (upds H t) (tag fn dsf) /\ absrel decl h (upds H (t ++ tag fn dsf)) /\
                       (forall l, declared decl l = false -> lookup l (upds H (t ++ tag fn dsf)) = lookup l H)).
        { destruct x; [|exact P1|discriminate]. destruct P1 as [h' [Eh A]]. discriminate. }
        destruct Hfin as [G1 [G2 G3]].
        split; [apply trace_safe_app; auto|]. split; [exact G3|]. exists h. auto.
    - (* go: in this thread only the spawn event happens; the body was checked as a thread of its own *)
      assert (Hgo : go_ok C fn p /\ res = Some (h, ds)).
      { unfold go_ok. destruct (check C fn None [] [] p [] []) as [e1 [[h1 d1]|]] eqn:E1.
        - destruct (run_defers C fn None h1 d1) as [e2 h2] eqn:E2. injection Hc as He Hres.
          apply app_nil_s in He as [_ He]. apply app_nil_s in He as [-> He]. apply app_nil_s in He as [-> He].
          destruct (held_eqb h2 []) eqn:Eq; [|discriminate]. apply held_eqb_eq in Eq. subst h2.
          split; [|auto]. exists (Some (h1, d1)). split; [reflexivity|exact E2].
        - injection Hc as He Hres. apply app_nil_s in He as [_ He]. subst e1. split; [|auto]. exists None. split; [reflexivity|exact I]. }
      destruct Hgo as [Hgo ->].
      split; [cbn; auto|]. split; [cbn; auto|]. exists h. auto.
  Qed.

  (* entry point: a function with no requirement, called by a thread that holds nothing of what it acquires *)
  Corollary entry_point_safe f body t x dsf :
    fenv f = Some body -> requires C f = [] -> run fenv f body [] t x dsf -> is_brk x = false ->
    trace_safe C [] (t ++ tag f dsf).
  Proof.
    intros Hf Hr Hrun Hx.
    assert (Hcall : run fenv f (PCall f) [] (t ++ tag f dsf) XN []) by (eapply RCall; eauto).
    assert (Hck : check C f (Some (acquires C f)) [] [] (PCall f) [] [] = ([], Some ([], []))).
    { cbn [check]. rewrite Hr. cbn [covers forallb].
      assert (Hd : disjoint [] (acquires C f) = true) by (apply disjoint_spec; reflexivity).
      assert (Hs : forallb (declared (Some (acquires C f))) (acquires C f) = true).
      { apply forallb_forall. intros l Hl. cbn. apply mem_In. exact Hl. }
      assert (Hk : forallb (ranked (rank C) []) (acquires C f) = true) by (apply forallb_forall; reflexivity).
      rewrite Hd, Hs, Hk. reflexivity. }
    assert (Ha : absrel (Some (acquires C f)) [] []) by (split; auto).
    destruct (check_sound _ _ _ _ _ _ Hcall _ _ _ _ _ _ Hck Ha (rinv_nil _ _)) as [T _]. exact T.
  Qed.

  (* a started goroutine whose body was accepted (go_ok) is safe from the empty lock set *)
  Lemma go_sound fn p t x ds' :
    go_ok C fn p -> run fenv fn p [] t x ds' -> is_brk x = false -> trace_safe C [] (t ++ tag fn ds').
  Proof.
    intros [res [Hck Hd]] Hrun Hx.
    assert (Ha : absrel None [] []) by (split; auto).
    destruct (check_sound _ _ _ _ _ _ Hrun _ _ _ _ _ _ Hck Ha (rinv_nil _ _)) as [T1 [F1 P1]].
    apply trace_safe_app. split; [exact T1|].
    destruct x; [|exact (proj1 P1)|discriminate].
    destruct P1 as [h' [-> A]].
    destruct (run_defers_sound _ _ _ _ _ _ Hd A (rinv_stable _ _ _ _ F1 (rinv_nil _ _))) as [D1 _]. exact D1.
  Qed.

  (* ... and ends with every lock released *)
  Lemma go_final_empty fn p t x ds' :
    go_ok C fn p -> run fenv fn p [] t x ds' -> is_brk x = false -> forall l, lookup l (upds [] (t ++ tag fn ds')) = None.
  Proof.
    intros [res [Hck Hd]] Hrun Hx l.
    assert (Ha : absrel None [] []) by (split; auto).
    destruct (check_sound _ _ _ _ _ _ Hrun _ _ _ _ _ _ Hck Ha (rinv_nil _ _)) as [T1 [F1 P1]].
    destruct x; [| |discriminate].
    - destruct P1 as [h' [-> A]].
      destruct (run_defers_sound _ _ _ _ _ _ Hd A (rinv_stable _ _ _ _ F1 (rinv_nil _ _))) as [_ [[_ D2] _]].
      rewrite upds_app. rewrite D2 by reflexivity. reflexivity.
    - destruct P1 as [_ [[_ A2] _]]. rewrite A2 by reflexivity. reflexivity.
  Qed.

  Lemma safe_spawn H t fn p : trace_safe C H t -> In (fn, EGo p) t -> go_ok C fn p.
  Proof.
    revert H; induction t as [|a t IH]; intros H Hs Hin; [destruct Hin|].
    destruct Hs as [Sa St]. destruct Hin as [->|Hin]; [exact Sa|eauto].
  Qed.

  (* the threads of a program: any function without requirements may be called by a fresh thread (this covers
     the exported API); every goroutine started in a run of a thread is a thread *)
  Inductive thread : string -> prog -> Prop :=
  | TEntry f body : fenv f = Some body -> requires C f = [] -> thread f body
  | TSpawn fn body t x ds' fn' p : thread fn body -> run fenv fn body [] t x ds' -> is_brk x = false ->
      In (fn', EGo p) t -> thread fn' p.

  Theorem thread_safe fn body : thread fn body ->
    forall t x ds', run fenv fn body [] t x ds' -> is_brk x = false -> trace_safe C [] (t ++ tag fn ds').
  Proof.
    induction 1 as [f body Hf Hr|fn body t0 x0 ds0 fn' p Hth IH Hrun0 Hx0 Hin]; intros t x ds' Hrun Hx.
    - eapply entry_point_safe; eauto.
    - eapply go_sound; eauto. specialize (IH _ _ _ Hrun0 Hx0). apply trace_safe_app in IH as [IH _].
      eapply safe_spawn; eauto.
  Qed.
  Theorem thread_balanced fn body : thread fn body ->
    forall t x ds', run fenv fn body [] t x ds' -> is_brk x = false -> forall l, lookup l (upds [] (t ++ tag fn ds')) = None.
  Proof.
    induction 1 as [f body Hf Hr|fn body t0 x0 ds0 fn' p Hth IH Hrun0 Hx0 Hin]; intros t x ds' Hrun Hx l.
    - assert (Hcall : run fenv f (PCall f) [] (t ++ tag f ds') XN []) by (eapply RCall; eauto).
      assert (Hck : check C f None [] [] (PCall f) [] [] = ([], Some ([], []))).
      { cbn [check]. rewrite Hr. cbn [covers forallb].
        assert (Hd : disjoint [] (acquires C f) = true) by (apply disjoint_spec; reflexivity).
        assert (Hs : forallb (declared None) (acquires C f) = true) by (apply forallb_forall; reflexivity).
        assert (Hk : forallb (ranked (rank C) []) (acquires C f) = true) by (apply forallb_forall; reflexivity).
        rewrite Hd, Hs, Hk. reflexivity. }
      assert (Ha : absrel None [] []) by (split; auto).
      destruct (check_sound _ _ _ _ _ _ Hcall _ _ _ _ _ _ Hck Ha (rinv_nil _ _)) as [_ [_ [h' [Eh [_ A2]]]]].
      inversion Eh; subst h'. rewrite A2 by reflexivity. reflexivity.
    - eapply go_final_empty; eauto.
      pose proof (thread_safe _ _ Hth _ _ _ Hrun0 Hx0) as Hs. apply trace_safe_app in Hs as [Hs _].
      eapply safe_spawn; eauto.
  Qed.
End Sound.

(* ================= from the obligation evaluated on every run to the semantic statement ================= *)
Lemma dedup_c_nil l : dedup_c l = [] -> l = [].
Proof.
  induction l as [|x t IH]; [reflexivity|]. cbn. destruct (existsb (complaint_eqb x) t) eqn:E; [|discriminate].
  intros Ht. specialize (IH Ht). subst t. cbn in E. discriminate.
Qed.
Lemma assoc_In {A} k (l : list (string * A)) v : assoc k l = Some v -> In (k, v) l.
Proof.
  induction l as [|[k' v'] t IH]; cbn; [discriminate|]. destruct (String.eqb k k') eqn:E.
  - intros Hv. inversion Hv; subst. apply String.eqb_eq in E. subst. left. reflexivity.
  - intros Hv. right. auto.
Qed.
Lemma check_all_nil C pr : check_all C pr = [] -> forall f body, In (f, body) pr -> check_fn C f body = [].
Proof.
  unfold check_all. induction pr as [|[f0 b0] t IH]; intros Hc f body Hin; [destruct Hin|].
  cbn [flat_map fst snd] in Hc. apply app_eq_nil in Hc as [H0 Ht].
  destruct Hin as [Heq|Hin]; [|eauto]. inversion Heq; subst.
  destruct (dedup_c (check_fn C f body)) eqn:E; [apply dedup_c_nil; exact E|discriminate].
Qed.

(* every thread of the part of the program reachable from the entry points is safe when the obligation holds *)
Theorem program_safe C pr entries lits unsup :
  check_program C pr entries lits unsup = [] ->
  forall fn body, thread C (fenv_of (reachable pr entries)) fn body ->
  forall t x ds', run (fenv_of (reachable pr entries)) fn body [] t x ds' -> is_brk x = false ->
  trace_safe C [] (t ++ tag fn ds').
Proof.
  unfold check_program. intros Hc. apply app_eq_nil in Hc as [_ Hall].
  intros fn body Hth. eapply thread_safe; [|exact Hth].
  intros f b Hf. eapply check_all_nil; [exact Hall|]. apply assoc_In. exact Hf.
Qed.

(* ================= consequence 1 (C12): no Process / Close callback while Broker.lock is held ================= *)
(* the lock set a thread holds when it performs the i-th event of a trace *)
Definition held_at (H : held) (t : trace) (i : nat) : held := upds H (firstn i t).

Lemma trace_safe_nth C H t i fn e : trace_safe C H t -> nth_error t i = Some (fn, e) -> ev_safe C fn (held_at H t i) e.
Proof.
  unfold held_at. revert H i; induction t as [|a t IH]; intros H [|i] Hs Hn; cbn in Hn; try discriminate.
  - inversion Hn; subst. destruct Hs as [Sa _]. exact Sa.
  - destruct Hs as [_ St]. cbn [firstn upds]. eapply IH; eauto.
Qed.

(* a callback of a kind that may take lock l never runs while the thread holds l (in any mode) *)
Theorem callback_never_under C H t i fn k l :
  trace_safe C H t -> nth_error t i = Some (fn, EA (User k)) -> In l (user_acquires C k) ->
  lookup l (held_at H t i) = None.
Proof.
  intros Hs Hn Hl. pose proof (trace_safe_nth _ _ _ _ _ _ Hs Hn) as Hsafe. cbn in Hsafe.
  destruct Hsafe as [Hsafe _]. rewrite disjoint_spec in Hsafe. auto.
Qed.

(* a thread never blocks on a lock it already holds, and only releases what it holds *)
Theorem no_self_deadlock C H t i fn l m :
  trace_safe C H t -> nth_error t i = Some (fn, EA (Acq l m)) -> lookup l (held_at H t i) = None.
Proof. intros Hs Hn. exact (proj1 (trace_safe_nth _ _ _ _ _ _ Hs Hn)). Qed.

(* every lock taken by a thread that starts and ends a run with the empty set was released: the number of
   acquisitions of l equals the number of releases when the final set is empty -- stated as: the final lock set of
   an entry point run is empty *)
Lemma entry_final_empty C fenv
  (all_checked : forall f body, fenv f = Some body -> check_fn C f body = []) f body t x dsf :
  fenv f = Some body -> requires C f = [] -> run fenv f body [] t x dsf -> is_brk x = false ->
  forall l, lookup l (upds [] (t ++ tag f dsf)) = None.
Proof.
  intros Hf Hr Hrun Hx l.
  assert (Hcall : run fenv f (PCall f) [] (t ++ tag f dsf) XN []) by (eapply RCall; eauto).
  assert (Hck : check C f None [] [] (PCall f) [] [] = ([], Some ([], []))).
  { cbn [check]. rewrite Hr. cbn [covers forallb].
    assert (Hd : disjoint [] (acquires C f) = true) by (apply disjoint_spec; reflexivity).
    assert (Hs : forallb (declared None) (acquires C f) = true) by (apply forallb_forall; reflexivity).
    assert (Hk : forallb (ranked (rank C) []) (acquires C f) = true) by (apply forallb_forall; reflexivity).
    rewrite Hd, Hs, Hk. reflexivity. }
  assert (Ha : absrel None [] []) by (split; auto).
  destruct (check_sound C fenv all_checked _ _ _ _ _ _ Hcall _ _ _ _ _ _ Hck Ha (rinv_nil _ _)) as [_ [_ [h' [Eh [_ A2]]]]].
  inversion Eh; subst h'. rewrite A2 by reflexivity. reflexivity.
Qed.

(* ================= consequence 2 (C04, C19): from "every access holds its guard" to "no data race" ================= *)
(* Two threads (any two threads of a larger system: removing the others only enables more steps), each with the
   locks it holds and the trace it still has to perform.  A thread may take a step when the lock rules allow it
   with respect to the other thread. *)
Section NoRace.
  Variable C : contracts.

  Definition can_step (Hother : held) (e : ev) : Prop :=
    match e with
    | EA (Acq l MW) => lookup l Hother = None
    | EA (Acq l MR) => lookup l Hother <> Some MW
    | _ => True
    end.

  Record cfg2 := { h1 : held; t1 : trace; h2 : held; t2 : trace }.

  Inductive step2 : cfg2 -> cfg2 -> Prop :=
  | Step1 H1 a T1 H2 T2 : can_step H2 (snd a) -> step2 {| h1 := H1; t1 := a :: T1; h2 := H2; t2 := T2 |}
                                                       {| h1 := updE H1 (snd a); t1 := T1; h2 := H2; t2 := T2 |}
  | Step2 H1 T1 H2 a T2 : can_step H1 (snd a) -> step2 {| h1 := H1; t1 := T1; h2 := H2; t2 := a :: T2 |}
                                                       {| h1 := H1; t1 := T1; h2 := updE H2 (snd a); t2 := T2 |}.

  (* a write lock excludes every other holder *)
  Definition excl (Ha Hb : held) : Prop := forall l, lookup l Ha = Some MW -> lookup l Hb = None.

  Record good (c : cfg2) : Prop := {
    g_s1 : trace_safe C (h1 c) (t1 c);
    g_s2 : trace_safe C (h2 c) (t2 c);
    g_12 : excl (h1 c) (h2 c);
    g_21 : excl (h2 c) (h1 c);
  }.

  Lemma excl_upd_self Ha Hb e : excl Ha Hb -> excl Hb Ha -> can_step Hb e ->
    (forall l m, e = EA (Acq l m) -> lookup l Ha = None) -> excl (updE Ha e) Hb /\ excl Hb (updE Ha e).
  Proof.
    intros E1 E2 Hc Hfresh. destruct e as [[l m|l m|f|f|k]|p]; cbn [updE upd]; try (split; assumption).
    - split.
      + intros l0. cbn. destruct (String.eqb l0 l) eqn:E.
        * apply String.eqb_eq in E. subst l0. intros Hm. inversion Hm; subst m. exact Hc.
        * apply E1.
      + intros l0 Hw. cbn. destruct (String.eqb l0 l) eqn:E.
        * apply String.eqb_eq in E. subst l0. exfalso. destruct m; cbn in Hc; congruence.
        * apply E2. exact Hw.
    - split.
      + intros l0 Hw. destruct (string_dec l0 l) as [->|Hn].
        * rewrite lookup_remove_same in Hw. discriminate.
        * rewrite lookup_remove_other in Hw by exact Hn. apply E1. exact Hw.
      + intros l0 Hw. destruct (string_dec l0 l) as [->|Hn].
        * apply lookup_remove_same.
        * rewrite lookup_remove_other by exact Hn. apply E2. exact Hw.
  Qed.

  Theorem good_step c c' : good c -> step2 c c' -> good c'.
  Proof.
    intros [S1 S2 E12 E21] Hs. destruct Hs as [H1 a T1 H2 T2 Hc|H1 T1 H2 a T2 Hc]; cbn [h1 t1 h2 t2] in *.
    - destruct S1 as [Sa S1].
      destruct (excl_upd_self H1 H2 (snd a) E12 E21 Hc) as [N1 N2].
      { intros l m Ha. rewrite Ha in Sa. exact (proj1 Sa). }
      constructor; cbn [h1 t1 h2 t2]; assumption.
    - destruct S2 as [Sa S2].
      destruct (excl_upd_self H2 H1 (snd a) E21 E12 Hc) as [N1 N2].
      { intros l m Ha. rewrite Ha in Sa. exact (proj1 Sa). }
      constructor; cbn [h1 t1 h2 t2]; assumption.
  Qed.

  Inductive reach2 (c0 : cfg2) : cfg2 -> Prop :=
  | R2refl : reach2 c0 c0
  | R2step c c' : reach2 c0 c -> step2 c c' -> reach2 c0 c'.

  Lemma good_reach c0 c : good c0 -> reach2 c0 c -> good c.
  Proof. intros Hg Hr. induction Hr; [exact Hg|]. eapply good_step; eauto. Qed.

  Definition reads_or_writes (f : string) (e : ev) : Prop := e = EA (Rd f) \/ e = EA (Wr f).

  (* the next events of the two threads are never a write and a conflicting access to the same lock-guarded field
     (accesses excused by a waiver -- a recorded known finding -- excepted) *)
  Theorem no_data_race c0 c f ls fa a fb b T1 T2 :
    good c0 -> reach2 c0 c -> guard_of C f = GLocks ls -> ls <> [] ->
    t1 c = (fa, a) :: T1 -> t2 c = (fb, b) :: T2 ->
    mem2 fa f (waived C) = false -> mem2 fb f (waived C) = false ->
    (a = EA (Wr f) /\ reads_or_writes f b) \/ (b = EA (Wr f) /\ reads_or_writes f a) -> False.
  Proof.
    intros Hg Hr Hgd Hne E1 E2 Wa Wb Hconf. destruct (good_reach _ _ Hg Hr) as [S1 S2 E12 E21].
    rewrite E1 in S1. rewrite E2 in S2. destruct S1 as [Sa _]. destruct S2 as [Sb _]. cbn [fst snd] in *.
    assert (Hw : forall Hx Hy fx x fy y, ev_safe C fx Hx x -> ev_safe C fy Hy y -> excl Hx Hy ->
                 mem2 fx f (waived C) = false -> mem2 fy f (waived C) = false ->
                 x = EA (Wr f) -> reads_or_writes f y -> False).
    { intros Hx Hy fx x fy y Sx Sy Ex Wx Wy -> Hy'. cbn [ev_safe act_safe] in Sx. rewrite Hgd in Sx.
      destruct Sx as [Sx|Sx]; [|congruence].
      assert (Hhold : exists l, In l ls /\ lookup l Hy <> None).
      { destruct Hy' as [->| ->]; cbn [ev_safe act_safe] in Sy; rewrite Hgd in Sy; (destruct Sy as [Sy|Sy]; [|congruence]).
        - unfold rd_ok in Sy. apply existsb_exists in Sy as [l [Hl Hx']]. exists l. split; [exact Hl|].
          destruct (lookup l Hy); [discriminate|discriminate].
        - destruct ls as [|l ls']; [congruence|]. exists l. split; [left; reflexivity|].
          unfold wr_ok in Sy. cbn in Sy. apply andb_prop in Sy as [Sy _]. destruct (lookup l Hy) as [[|]|]; discriminate. }
      destruct Hhold as [l [Hl Hyl]]. unfold wr_ok in Sx. rewrite forallb_forall in Sx. specialize (Sx l Hl).
      destruct (lookup l Hx) as [[|]|] eqn:El; try discriminate. apply Hyl. apply Ex. exact El. }
    destruct Hconf as [[Ha Hb]|[Hb Ha]].
    - exact (Hw _ _ _ _ _ _ Sa Sb E12 Wa Wb Ha Hb).
    - exact (Hw _ _ _ _ _ _ Sb Sa E21 Wb Wa Hb Ha).
  Qed.

  (* two threads that both start with nothing held and safe traces *)
  Lemma good_init ta tb : trace_safe C [] ta -> trace_safe C [] tb -> good {| h1 := []; t1 := ta; h2 := []; t2 := tb |}.
  Proof. intros Sa Sb. constructor; cbn; auto; intros l Hl; discriminate. Qed.
End NoRace.

(* the whole-program form: any two threads of a program whose obligation holds, any interleaving *)
Theorem program_no_data_race C pr entries lits unsup :
  check_program C pr entries lits unsup = [] ->
  forall fna ba ta xa da fnb bb tb xb db,
    thread C (fenv_of (reachable pr entries)) fna ba -> run (fenv_of (reachable pr entries)) fna ba [] ta xa da -> is_brk xa = false ->
    thread C (fenv_of (reachable pr entries)) fnb bb -> run (fenv_of (reachable pr entries)) fnb bb [] tb xb db -> is_brk xb = false ->
  forall c f ls fa a fb b T1 T2,
    reach2 {| h1 := []; t1 := ta ++ tag fna da; h2 := []; t2 := tb ++ tag fnb db |} c ->
    guard_of C f = GLocks ls -> ls <> [] ->
    t1 c = (fa, a) :: T1 -> t2 c = (fb, b) :: T2 ->
    mem2 fa f (waived C) = false -> mem2 fb f (waived C) = false ->
    (a = EA (Wr f) /\ reads_or_writes f b) \/ (b = EA (Wr f) /\ reads_or_writes f a) -> False.
Proof.
  intros Hc fna ba ta xa da fnb bb tb xb db Tha Ra Xa Thb Rb Xb c f ls fa a fb b T1 T2 Hreach.
  eapply no_data_race; [|exact Hreach].
  apply good_init; eapply program_safe; eauto.
Qed.

(* the whole-program form of consequence 1 *)
Theorem program_callback_never_under C pr entries lits unsup :
  check_program C pr entries lits unsup = [] ->
  forall fn body t x ds', thread C (fenv_of (reachable pr entries)) fn body ->
    run (fenv_of (reachable pr entries)) fn body [] t x ds' -> is_brk x = false ->
  forall i fn' k l, nth_error (t ++ tag fn ds') i = Some (fn', EA (User k)) -> In l (user_acquires C k) ->
    lookup l (held_at [] (t ++ tag fn ds') i) = None.
Proof.
  intros Hc fn body t x ds' Hth Hrun Hx i fn' k l Hn Hl.
  eapply callback_never_under; eauto. eapply program_safe; eauto.
Qed.

(* whole-program forms of the other two protocol facts *)
Theorem program_no_self_deadlock C pr entries lits unsup :
  check_program C pr entries lits unsup = [] ->
  forall fn body t x ds', thread C (fenv_of (reachable pr entries)) fn body ->
    run (fenv_of (reachable pr entries)) fn body [] t x ds' -> is_brk x = false ->
  forall i fn' l m, nth_error (t ++ tag fn ds') i = Some (fn', EA (Acq l m)) ->
    lookup l (held_at [] (t ++ tag fn ds') i) = None.
Proof.
  intros Hc fn body t x ds' Hth Hrun Hx i fn' l m Hn.
  eapply no_self_deadlock; eauto. eapply program_safe; eauto.
Qed.

(* when an API call (a function without requirements) returns, the calling thread holds no lock it did not hold before *)
Theorem program_call_releases_all C pr entries lits unsup :
  check_program C pr entries lits unsup = [] ->
  forall f body t x dsf, fenv_of (reachable pr entries) f = Some body -> requires C f = [] ->
    run (fenv_of (reachable pr entries)) f body [] t x dsf -> is_brk x = false ->
  forall l, lookup l (upds [] (t ++ tag f dsf)) = None.
Proof.
  unfold check_program. intros Hc. apply app_eq_nil in Hc as [_ Hall].
  intros f body t x dsf Hf Hr Hrun Hx l. eapply entry_final_empty; eauto.
  intros f0 b0 Hf0. eapply check_all_nil; [exact Hall|]. apply assoc_In. exact Hf0.
Qed.
