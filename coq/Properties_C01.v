(* C01 — every registered pipeline of the event's type sees the event, in node order. *)
From Coq Require Import List Bool NArith Permutation.
From Verif Require Import Alist Broker Dispatch DispatchProofs DispatchAcceptProofs Run_Dispatch DispatchExamples RunDispatchSound.
Import ListNotations.

(* One traversal: the nodes invoked are an initial segment of the pipeline's nodes in registration order, each position
   at most once (for every node behaviour [beh], pipeline [p], start position [k], node list and event). *)
Theorem C01_traverse_prefix : forall beh p k ns e,
  is_prefix DispatchProofs.node_eqb (map fst (fst (traverse beh p k ns e))) ns = true.
Proof. exact traverse_prefix. Qed.
Print Assumptions C01_traverse_prefix.

(* Node k+1 is invoked if and only if node k returned a non-nil event and no error, and it receives exactly the event
   node k returned; a drop or an error ends the traversal at node k. *)
Theorem C01_traverse_chain : forall beh p k n n2 rest e,
  traverse beh p k (n :: n2 :: rest) e =
  match beh p k e with
  | OPass e' => ((n, e) :: fst (traverse beh p (N.succ k) (n2 :: rest) e'), snd (traverse beh p (N.succ k) (n2 :: rest) e'))
  | ODrop => ([(n, e)], Some (MComplete (nid n) (nsink n)))
  | OErr x => ([(n, e)], Some (MWarn x))
  end.
Proof. exact traverse_chain. Qed.
Print Assumptions C01_traverse_chain.

(* The first node of a pipeline receives the event the traversal was started with (Send's event [e0]). *)
Theorem C01_traverse_first : forall beh p k n rest e, exists cs, fst (traverse beh p k (n :: rest) e) = (n, e) :: cs.
Proof. exact traverse_first. Qed.
Print Assumptions C01_traverse_first.

(* For every schedule of the dispatch protocol (every reachable state, cancelled or not): the Process calls of every
   invocation are a prefix of the sequential traversal of its pipeline; once it produced a status they are the whole. *)
Theorem C01_calls_are_traversal : forall beh e0 roots c0 s t,
  roots_ok roots -> reach beh e0 roots c0 s -> In t (tasks s) ->
  exists rest, calls_of beh e0 (key t) = tcalls t ++ rest /\
               (forall m, tstage t = SSend m \/ fin_of t = Some (FSent m) -> rest = []).
Proof. exact calls_are_traversal. Qed.
Print Assumptions C01_calls_are_traversal.

(* With or without cancellation, at any moment: all Process calls made so far are, up to interleaving, one prefix of the
   sequential traversal per STARTED pipeline; the started pipelines are a sub-multiset of the registered ones (the others
   are still to be started, or were skipped by the Range loop); and nothing is skipped while the context is live. *)
Theorem C01_call_log_sound : forall beh e0 roots c0 s, roots_ok roots -> reach beh e0 roots c0 s ->
  exists started : list (root * list call),
    Permutation (clog s) (flat_map snd started) /\
    Permutation (map fst started ++ roots_of (rng s) ++ skipped s) roots /\
    (forall r cs, In (r, cs) started -> exists rest, calls_of beh e0 r = cs ++ rest) /\
    (ctx s = false -> skipped s = []).
Proof. exact call_log_sound. Qed.
Print Assumptions C01_call_log_sound.

(* With a context that is never cancelled, when Send's goroutines have finished, the Process calls made are exactly — as a
   multiset, nothing more and nothing less — the calls of the sequential traversals of all registered pipelines: every
   pipeline is traversed exactly once, and nothing else is invoked. For all roots, behaviours and schedules. *)
Theorem C01_send_traverses_exactly : forall beh e0 roots s,
  roots_ok roots -> reach beh e0 roots false s -> terminal s -> ctx s = false ->
  Permutation (clog s) (flat_map (calls_of beh e0) roots).
Proof. exact send_traverses_exactly. Qed.
Print Assumptions C01_send_traverses_exactly.

(* The pipelines a Send dispatches to are, after every registration history, exactly those registered for the type sent at
   that moment and none of another type, each with its node ids in registration order; none is empty. *)
Theorem C01_roots_of_broker_spec : forall cf ops ety rs, roots_of_broker (Broker.run cf ops) ety = Some rs ->
  (forall pid ns, In (pid, ns) rs <->
     exists p, In ((ety, pid), p) (b_pipes (Broker.run cf ops)) /\ ns = zip_nodes (p_ids p) (p_objs p)) /\
  (forall pid ns, In (pid, ns) rs -> map nid ns = match aget pkeqb (ety, pid) (b_pipes (Broker.run cf ops)) with
                                                 | Some p => p_ids p | None => [] end) /\
  roots_ok rs.
Proof. exact roots_of_broker_spec. Qed.
Print Assumptions C01_roots_of_broker_spec.

(* Tie: a trace accepted by the executable acceptor is an execution of the model. *)
Theorem C01_accepted_trace_is_execution : forall beh e0 want roots c0 tr a,
  run_trace beh e0 want {| a_st := init roots c0; a_recv := 0; a_pend := false; a_rets := [] |} 0%N tr = (a, None) ->
  reach beh e0 roots c0 (a_st a).
Proof. exact accepted_trace_is_execution. Qed.
Print Assumptions C01_accepted_trace_is_execution.

(* What the check's verdict means: the evaluated function [Run_Dispatch.mismatches] returns [] exactly when, for every case,
   the recorded trace is an execution of the dispatch model from the pipelines and thresholds the registry model gives for
   the recorded registration history, complete once quiet, the returned Status / error and the nodes' own logs are the
   model's, and the observation-only oracles hold ([RunDispatchSound.case_ok]); both directions. *)
Theorem C01_verdict_is_model_execution : forall cs, mismatches cs = [] <-> Forall case_ok cs.
Proof. exact mismatches_nil_iff. Qed.
Print Assumptions C01_verdict_is_model_execution.

(* and therefore, for an accepted quiet Send whose context was not cancelled beforehand: the model execution is terminal, the
   nodes' own invocation log is its call log, and — context never cancelled — that call log is exactly the multiset of the
   sequential traversals of the registry model's pipelines for the type *)
Theorem C01_verdict_calls_are_traversals : forall c roots0 roots, case_ok c -> model_roots c = Some roots0 -> roots = eff_roots c roots0 -> roots_ok roots ->
  d_quiet c = true -> d_pre c = false ->
  exists a, reach (beh_of (d_trace c)) (e0_of (d_trace c)) roots false (a_st a) /\ terminal (a_st a) /\
            sortN (map (fun cl => enc (nobj (fst cl)) (snd cl)) (clog (a_st a))) = sortN (map (fun oc => enc (fst oc) (snd oc)) (d_nodecalls c)) /\
            (ctx (a_st a) = false ->
             Permutation (clog (a_st a)) (flat_map (calls_of (beh_of (d_trace c)) (e0_of (d_trace c))) roots)).
Proof. exact verdict_calls_are_traversals. Qed.
Print Assumptions C01_verdict_calls_are_traversals.

Theorem C01_nonvacuous :
  roots_ok ex_roots /\ reach ex_beh ex_e0 ex_roots false ex_final /\ terminal ex_final /\ ctx ex_final = false /\
  length (collected ex_final) = 3 /\ length (tasks ex_final) = 6.
Proof. exact uncancelled_nonvacuous. Qed.
Theorem C01_nonvacuous_cancelled :
  reach ex_beh ex_e0 ex_roots false ex_cancelled /\ terminal ex_cancelled /\ ctx ex_cancelled = true /\
  skipped ex_cancelled <> [] /\ (exists t, In t (tasks ex_cancelled) /\ fin_of t = Some FAborted).
Proof. exact cancelled_nonvacuous. Qed.
