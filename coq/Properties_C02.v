(* C02 — Send's Status and error truthfully account for what the pipelines did. *)
From Coq Require Import List Bool NArith ZArith Permutation.
From Verif Require Import Alist Broker Dispatch DispatchProofs DispatchExamples Run_Dispatch RunDispatchSound DispatchAcceptProofs.
Import ListNotations.

(* "Never invented", for every schedule and every cancel point: in every reachable state the registered pipelines split
   into [reported] and [others] such that what the collector holds (and Send returns) is exactly one final status per
   reported pipeline — the status the sequential traversal of THAT pipeline ends with. No entry without its own pipeline,
   no pipeline reported twice. *)
Theorem C02_status_never_invented : forall beh e0 roots c0 s, roots_ok roots -> reach beh e0 roots c0 s ->
  exists reported others, Permutation (reported ++ others) roots /\
                          Permutation (collected s) (flat_map (final_of beh e0) reported).
Proof. exact status_never_invented. Qed.
Print Assumptions C02_status_never_invented.

(* What a final status means: a warning is an error a node invoked in that traversal really returned; a complete entry
   names the last node invoked, which dropped the event or was the pipeline's last node and returned without error; the
   complete-sink flag is that node's own type. *)
Theorem C02_final_status_spec : forall beh p k ns e m, snd (traverse beh p k ns e) = Some m ->
  exists pre n ev j, fst (traverse beh p k ns e) = pre ++ [(n, ev)] /\ In n ns /\
    match m with
    | MWarn x => beh p j ev = OErr x
    | MComplete id sk => id = nid n /\ sk = nsink n /\
                         (beh p j ev = ODrop \/ exists e', beh p j ev = OPass e' /\ exists pre', ns = pre' ++ [n])
    end.
Proof. exact traverse_final_spec. Qed.
Print Assumptions C02_final_status_spec.

(* On the protocol state: the report is a permutation of the statuses handed over by distinct finished invocations. *)
Theorem C02_status_sound : forall beh e0 roots c0 s, roots_ok roots -> reach beh e0 roots c0 s ->
  Permutation (collected s) (sent_msgs (tasks s)) /\
  forall t m, In t (tasks s) -> fin_of t = Some (FSent m) -> snd (traverse beh (tpipe t) 0%N (tall t) (e0 (tpipe t))) = Some m.
Proof. exact status_sound. Qed.
Print Assumptions C02_status_sound.

(* Context never cancelled: exactly one entry per registered pipeline ... *)
Theorem C02_status_complete_uncancelled : forall beh e0 roots s,
  roots_ok roots -> reach beh e0 roots false s -> terminal s -> ctx s = false ->
  Permutation (collected s) (flat_map (final_of beh e0) roots).
Proof. exact status_complete_uncancelled. Qed.
Print Assumptions C02_status_complete_uncancelled.

(* ... so completes + warnings = pipelines; *)
Theorem C02_status_count_uncancelled : forall beh e0 roots s,
  roots_ok roots -> reach beh e0 roots false s -> terminal s -> ctx s = false ->
  length (completes (collected s)) + length (warnings (collected s)) = length roots.
Proof. exact status_count_uncancelled. Qed.
Print Assumptions C02_status_count_uncancelled.

(* under cancellation entries may be missing but there are never more than pipelines. *)
Theorem C02_status_count_bound : forall beh e0 roots c0 s, roots_ok roots -> reach beh e0 roots c0 s ->
  length (collected s) <= length roots.
Proof. exact status_count_bound. Qed.
Print Assumptions C02_status_count_bound.

(* complete-sinks is exactly the sub-list of the complete entries whose node is a sink *)
Theorem C02_complete_sinks_spec : forall acc,
  complete_sinks acc = completes (filter (fun m => match m with MComplete _ true => true | _ => false end) acc).
Proof. exact complete_sinks_spec. Qed.
Print Assumptions C02_complete_sinks_spec.

(* Send returns an error iff fewer completes than the success threshold or fewer complete sinks than the sink threshold *)
Theorem C02_send_error_iff : forall c thr thrS acc,
  get_error c thr thrS acc <> None <->
  (Z.of_nat (length (completes acc)) < thr \/ Z.of_nat (length (complete_sinks acc)) < thrS)%Z.
Proof. exact get_error_iff. Qed.
Print Assumptions C02_send_error_iff.

(* and that error wraps the context's error exactly when the context was done when process read it *)
Theorem C02_send_error_wraps_ctx : forall c thr thrS acc k c', get_error c thr thrS acc = Some (k, c') -> c' = c.
Proof. exact get_error_wraps_ctx. Qed.
Print Assumptions C02_send_error_wraps_ctx.

(* a type without graph has nothing to dispatch to (Send fails before any node is invoked) *)
Theorem C02_no_graph_no_roots : forall b ety, memN ety (b_graphs b) = false -> roots_of_broker b ety = None.
Proof. exact no_graph_no_roots. Qed.
Print Assumptions C02_no_graph_no_roots.

(* Thresholds: a non-negative value is accepted and read back (the other threshold of the type is untouched) ... *)
Theorem C02_threshold_set_get : forall cf b ety v, ety <> 0%N -> (0 <= v)%Z ->
  snd (fst (Broker.step cf b (SetThr ety v))) = ROk /\ get_thr (fst (fst (Broker.step cf b (SetThr ety v)))) ety = (v, true) /\
  get_thr_sinks (fst (fst (Broker.step cf b (SetThr ety v)))) ety = (snd (thr_of b ety), true).
Proof. exact threshold_set_get. Qed.
Print Assumptions C02_threshold_set_get.
Theorem C02_threshold_sinks_set_get : forall cf b ety v, ety <> 0%N -> (0 <= v)%Z ->
  snd (fst (Broker.step cf b (SetThrSinks ety v))) = ROk /\ get_thr_sinks (fst (fst (Broker.step cf b (SetThrSinks ety v)))) ety = (v, true) /\
  get_thr (fst (fst (Broker.step cf b (SetThrSinks ety v)))) ety = (fst (thr_of b ety), true).
Proof. exact threshold_sinks_set_get. Qed.
Print Assumptions C02_threshold_sinks_set_get.

(* ... read back as last set, over all histories: whatever came before and whatever calls other than a threshold call for
   this type follow *)
Theorem C02_threshold_last_set : forall cf ops1 ops2 ety v, ety <> 0%N -> (0 <= v)%Z ->
  forallb (fun o => negb (sets_thr_of ety o)) ops2 = true ->
  get_thr (Broker.run cf (ops1 ++ SetThr ety v :: ops2)) ety = (v, true).
Proof. exact threshold_last_set. Qed.
Print Assumptions C02_threshold_last_set.

(* negative values are rejected and change nothing *)
Theorem C02_threshold_rejects_negative : forall cf b ety v, (v < 0)%Z ->
  Broker.step cf b (SetThr ety v) = (b, RInvalid, []) /\ Broker.step cf b (SetThrSinks ety v) = (b, RInvalid, []).
Proof. exact threshold_rejects_negative. Qed.
Print Assumptions C02_threshold_rejects_negative.

(* a threshold call for one type never influences another type's thresholds, nor any pipeline or node *)
Theorem C02_threshold_frame : forall cf b ety v o, o = SetThr ety v \/ o = SetThrSinks ety v ->
  b_nodes (fst (fst (Broker.step cf b o))) = b_nodes b /\ b_pipes (fst (fst (Broker.step cf b o))) = b_pipes b /\
  forall ety', ety' <> ety -> thr_of (fst (fst (Broker.step cf b o))) ety' = thr_of b ety'.
Proof. exact threshold_frame. Qed.
Print Assumptions C02_threshold_frame.

(* What the check's verdict means: the evaluated function [Run_Dispatch.mismatches] returns [] exactly when, for every case,
   the recorded trace is an execution of the dispatch model from the pipelines and thresholds the registry model gives for
   the recorded registration history, complete once quiet, the returned Status / error and the nodes' own logs are the
   model's, and the observation-only oracles hold ([RunDispatchSound.case_ok]); both directions. *)
Theorem C02_verdict_is_model_execution : forall cs, mismatches cs = [] <-> Forall case_ok cs.
Proof. exact mismatches_nil_iff. Qed.
Print Assumptions C02_verdict_is_model_execution.

(* and therefore the returned Status of an accepted Send is, as multisets, the model collector's, which holds exactly one final
   status per pipeline of a sub-multiset of the registry model's pipelines *)
Theorem C02_verdict_status_never_invented : forall c roots0 roots, case_ok c -> model_roots c = Some roots0 -> roots = eff_roots c roots0 -> roots_ok roots ->
  exists a, reach (beh_of (d_trace c)) (e0_of (d_trace c)) roots (d_pre c) (a_st a) /\
            (forall acc b, result (a_st a) = Some (acc, b) ->
               (sortN (completes acc), sortN (complete_sinks acc), sortN (warnings acc)) = status_obs c) /\
            exists reported others, Permutation (reported ++ others) roots /\
              Permutation (collected (a_st a)) (flat_map (final_of (beh_of (d_trace c)) (e0_of (d_trace c))) reported).
Proof. exact verdict_status_never_invented. Qed.
Print Assumptions C02_verdict_status_never_invented.

Theorem C02_nonvacuous :
  roots_ok ex_roots /\ reach ex_beh ex_e0 ex_roots false ex_final /\ terminal ex_final /\ ctx ex_final = false /\
  length (collected ex_final) = 3 /\ length (tasks ex_final) = 6.
Proof. exact uncancelled_nonvacuous. Qed.
Theorem C02_nonvacuous_error :
  get_error true 2 1 [MComplete 5 true; MWarn 9] = Some (ENotEnough, true) /\
  get_error false 1 2 [MComplete 5 true; MWarn 9] = Some (ENotEnoughSinks, false) /\
  get_error true 1 1 [MComplete 5 true; MWarn 9] = None.
Proof. exact get_error_nonvacuous. Qed.
