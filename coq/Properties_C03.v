(* C03 — Send always returns and leaves no goroutine behind, whatever the cancel point. *)
From Coq Require Import Permutation List Bool Arith NArith.
From Verif Require Import Alist Broker Dispatch DispatchProofs DispatchAcceptProofs Run_Dispatch DispatchExamples RunDispatchSound.
Import ListNotations.

(* Every step of the protocol — including cancellation at any moment — strictly decreases a natural-number measure, so every
   execution is finite: at most [measure (init roots c0)] steps, for any number of pipelines and nodes. *)
Theorem C03_dispatch_measure : forall beh e0 s s', step beh e0 s s' -> measure s' < measure s.
Proof. exact step_measure. Qed.
Print Assumptions C03_dispatch_measure.
Theorem C03_executions_bounded : forall beh e0 n s s', steps beh e0 n s s' -> n + measure s' <= measure s.
Proof. exact executions_bounded. Qed.
Print Assumptions C03_executions_bounded.

(* No deadlock, no lost wake-up: every reachable state is terminal, or some node is still inside Process (the only thing
   the protocol ever waits for), or a step that involves no node return is enabled. *)
Theorem C03_dispatch_progress : forall beh e0 roots c0 s, roots_ok roots -> reach beh e0 roots c0 s ->
  terminal s \/ in_process s \/ exists s', internal_step beh e0 s s'.
Proof. exact progress_reach. Qed.
Print Assumptions C03_dispatch_progress.

(* Every maximal execution ends in a terminal state, and from every reachable state a terminal state can be reached. *)
Theorem C03_reaches_terminal : forall beh e0 roots c0 s,
  roots_ok roots -> reach beh e0 roots c0 s -> (forall s', ~ step beh e0 s s') -> terminal s.
Proof. exact reaches_terminal. Qed.
Print Assumptions C03_reaches_terminal.
Theorem C03_can_terminate : forall beh e0 roots c0 s, roots_ok roots -> reach beh e0 roots c0 s ->
  exists n s', steps beh e0 n s s' /\ terminal s'.
Proof. exact can_terminate_reach. Qed.
Print Assumptions C03_can_terminate.

(* "Promptly after cancellation even if nodes are still running": whenever the context is done and Send's collector is
   still in its loop, it can leave the loop and return in two steps of its own, whatever the tasks are doing (they are
   untouched), and what it returns carries the context error. *)
Theorem C03_collector_returns_on_cancel : forall beh e0 s acc,
  coll s = CCollect acc -> ctx s = true ->
  exists s1 s2, step beh e0 s s1 /\ step beh e0 s1 s2 /\ coll s2 = CRet /\ result s2 = Some (acc, true) /\ tasks s2 = tasks s.
Proof. exact collector_returns_on_cancel. Qed.
Print Assumptions C03_collector_returns_on_cancel.

(* "After all pipelines finished otherwise": once the channel is closed the collector returns. *)
Theorem C03_collector_returns_when_done : forall beh e0 s acc,
  coll s = CCollect acc -> rng s = RClosed ->
  exists s1 s2, step beh e0 s s1 /\ step beh e0 s1 s2 /\ coll s2 = CRet /\ result s2 = Some (acc, ctx s).
Proof. exact collector_returns_when_done. Qed.
Print Assumptions C03_collector_returns_when_done.

(* In every terminal state no invocation of doProcess is left and the wait group is balanced. *)
Theorem C03_terminal_no_goroutine : forall beh e0 roots c0 s, roots_ok roots -> reach beh e0 roots c0 s -> terminal s ->
  wg s = 0 /\ forall t, In t (tasks s) -> exists f, tstage t = SDone f.
Proof. exact terminal_no_goroutine_reach. Qed.
Print Assumptions C03_terminal_no_goroutine.

(* The two ways the code could panic are excluded: no status is pending once the channel is closed (send on a closed
   channel), and the wait-group counter always equals the number of live invocations (it never goes negative). *)
Theorem C03_no_send_after_close : forall beh e0 roots c0 s t m, roots_ok roots -> reach beh e0 roots c0 s ->
  rng s = RClosed -> In t (tasks s) -> tstage t <> SSend m.
Proof. exact no_send_after_close_reach. Qed.
Print Assumptions C03_no_send_after_close.
Theorem C03_wg_counts_live : forall beh e0 roots c0 s, roots_ok roots -> reach beh e0 roots c0 s -> wg s = count live (tasks s).
Proof. exact wg_counts_live. Qed.
Print Assumptions C03_wg_counts_live.

(* Tie: a trace the acceptor accepts is an execution of the model, and if it ends in a terminal model state nothing of that
   Send is left running. *)
Theorem C03_accepted_complete_no_goroutine : forall beh e0 want roots c0 tr a, roots_ok roots ->
  run_trace beh e0 want {| a_st := init roots c0; a_recv := 0; a_pend := false; a_rets := [] |} 0%N tr = (a, None) ->
  is_terminal (a_st a) = true ->
  wg (a_st a) = 0 /\ forall t, In t (tasks (a_st a)) -> exists f, tstage t = SDone f.
Proof. exact accepted_complete_no_goroutine. Qed.
Print Assumptions C03_accepted_complete_no_goroutine.

(* What the check's verdict means: the evaluated function [Run_Dispatch.mismatches] returns [] exactly when, for every case,
   the recorded trace is an execution of the dispatch model from the pipelines and thresholds the registry model gives for
   the recorded registration history, complete once quiet, the returned Status / error and the nodes' own logs are the
   model's, and the observation-only oracles hold ([RunDispatchSound.case_ok]); both directions. *)
Theorem C03_verdict_is_model_execution : forall cs, mismatches cs = [] <-> Forall case_ok cs.
Proof. exact mismatches_nil_iff. Qed.
Print Assumptions C03_verdict_is_model_execution.

(* and therefore an accepted quiet Send has left nothing behind: not in the goroutine dump, and not in the model execution the
   trace is (wait group balanced, every invocation returned) *)
Theorem C03_verdict_no_goroutine : forall c roots0 roots, case_ok c -> model_roots c = Some roots0 -> roots = eff_roots c roots0 -> roots_ok roots -> d_quiet c = true ->
  d_leak c = false /\
  exists a, reach (beh_of (d_trace c)) (e0_of (d_trace c)) roots (d_pre c) (a_st a) /\
            wg (a_st a) = 0 /\ forall t, In t (tasks (a_st a)) -> exists f, tstage t = SDone f.
Proof. exact verdict_no_goroutine. Qed.
Print Assumptions C03_verdict_no_goroutine.

(* "Promptly" in wall-clock time is not a theorem: it is measured by the harness (C03_..._partial in that sense only). *)

Theorem C03_nonvacuous_pending :
  reach ex_beh ex_e0 ex_roots false ex_pending /\ coll ex_pending = CCollect [] /\ ctx ex_pending = true /\
  exists t, In t (tasks ex_pending) /\ tstage t = SRun.
Proof. exact pending_nonvacuous. Qed.
Theorem C03_nonvacuous_cancelled :
  reach ex_beh ex_e0 ex_roots false ex_cancelled /\ terminal ex_cancelled /\ ctx ex_cancelled = true /\
  skipped ex_cancelled <> [] /\ (exists t, In t (tasks ex_cancelled) /\ fin_of t = Some FAborted).
Proof. exact cancelled_nonvacuous. Qed.
