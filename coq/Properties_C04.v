(* C04 — the Broker is race-free under concurrent use; registration is linearizable for Send.
   (a) Lock discipline (LockSound.v), for EVERY program of the command language and EVERY contract table: when the
       obligation [check_program C pr ... = []] holds -- it is re-evaluated on every check against the program regenerated
       from the source tree (coq/obligations/Obl_C04.v, theorem broker_race_free) -- any two threads (API calls of different
       goroutines, goroutines they start) never have a write and a conflicting access to the same guarded registry field
       enabled together, under any interleaving the mutex / RW-lock rules permit.
   (b) Delivery under overlap (ConcProofs.v), for EVERY timed history consistent with the observed call intervals.
   Assumed, not proved: the Go memory model, the sync.Map contract (Store / Delete linearizable per key; Range decides every
   key once, at some instant during the call), the completeness of the translator's access extraction (cross-checked by
   the race detector), panics other than those a data race can cause. *)
From Coq Require Import List String NArith Sorted.
From Verif Require Import Alist Broker Run_Broker Run_Conc RunConcProofs Conc ConcProofs ConcExamples LockLang LockSound LockExamples.
Import ListNotations.

Theorem C04_no_data_race : forall C pr entries lits unsup,
  check_program C pr entries lits unsup = [] ->
  forall fna ba ta xa da fnb bb tb xb db,
    thread C (fenv_of (reachable pr entries)) fna ba -> run (fenv_of (reachable pr entries)) fna ba [] ta xa da -> is_brk xa = false ->
    thread C (fenv_of (reachable pr entries)) fnb bb -> run (fenv_of (reachable pr entries)) fnb bb [] tb xb db -> is_brk xb = false ->
  forall c f ls fa a fb b T1 T2,
    reach2 {| h1 := []; t1 := ta ++ tag fna da; h2 := []; t2 := tb ++ tag fnb db |} c ->
    guard_of C f = GLocks ls -> ls <> [] ->
    t1 c = (fa, a) :: T1 -> t2 c = (fb, b) :: T2 ->
    mem2 fa f (waived C) = false -> mem2 fb f (waived C) = false ->
    (a = EA (Wr f) /\ reads_or_writes f b) \/ (b = EA (Wr f) /\ reads_or_writes f a) -> False.
Proof. exact program_no_data_race. Qed.
Print Assumptions C04_no_data_race.

Theorem C04_check_sound : forall C fenv,
  (forall f body, fenv f = Some body -> check_fn C f body = []) ->
  forall fn p ds t x ds', run fenv fn p ds t x ds' ->
  forall decl entry les h H res, check C fn decl entry les p h ds = ([], res) -> absrel decl h H -> rinv (rank C) decl H ->
  post C decl entry les fn res H t x ds'.
Proof. exact check_sound. Qed.
Print Assumptions C04_check_sound.

(* the delivery bounds: for every timed history H -- every interleaving of the Send's lookup and visits with the single
   Store / Delete of the other calls -- in which each call takes effect strictly inside its observed [invocation, return]
   interval: a Send that starts after the registration returned and ends before any other call on the pipeline id is
   requested delivers exactly once (must1); a Send that ends before the registration is requested or starts after a later
   call on the id returned delivers never (must0); in all cases at most once *)
Theorem C04_send_delivery_bounds : forall H T0 T1 keys k v te ri rr si sr (others : list obs_op),
  send_in H T0 T1 keys -> In k keys -> (exists tv, In (tv, Visit k) H) ->
  (si < T0)%N -> (T1 < sr)%N ->
  In (te, EnvStore k v) H -> (ri < te)%N -> (te < rr)%N ->
  (forall t, In (t, EnvStore k v) H -> t = te) ->
  (forall t l, In (t, l) H -> touches k l -> (t, l) <> (te, EnvStore k v) ->
     exists o, In o others /\ (oo_inv o < t)%N /\ (t < oo_ret o)%N) ->
  (forall o, In o others -> exists t, In (t, oo_lab o) H /\ touches k (oo_lab o) /\ (t, oo_lab o) <> (te, EnvStore k v) /\
                                      (oo_inv o < t)%N /\ (t < oo_ret o)%N) ->
  (must1 ri rr si sr others = true -> count k v (visited (exec (labels H))) = 1%nat) /\
  (must0 ri rr si sr others = true -> count k v (visited (exec (labels H))) = 0%nat) /\
  (count k v (visited (exec (labels H))) <= 1)%nat.
Proof. exact send_delivery_bounds. Qed.
Print Assumptions C04_send_delivery_bounds.

(* a pipeline registered before the Send started and at most overwritten (each overwrite ONE Store, see the re-checked
   obligation coq/obligations/Obl_roots.v) until the Send ended is delivered to in exactly one of its versions *)
Theorem C04_send_delivery_some : forall H T0 T1 keys k v te ri rr si sr (others : list obs_op),
  send_in H T0 T1 keys -> In k keys -> (exists tv, In (tv, Visit k) H) ->
  (si < T0)%N -> (T1 < sr)%N ->
  In (te, EnvStore k v) H -> (ri < te)%N -> (te < rr)%N ->
  (forall t l, In (t, l) H -> touches k l -> (t, l) <> (te, EnvStore k v) ->
     exists o, In o others /\ oo_lab o = l /\ (oo_inv o < t)%N /\ (t < oo_ret o)%N) ->
  must_some ri rr si sr others = true ->
  exists v', count k v' (visited (exec (labels H))) = 1%nat /\
             forall v'', v'' <> v' -> count k v'' (visited (exec (labels H))) = 0%nat.
Proof. exact send_delivery_some. Qed.
Print Assumptions C04_send_delivery_some.

Theorem C04_never_stored_never_delivered : forall H T0 T1 keys k v,
  send_in H T0 T1 keys -> (forall t, ~ In (t, EnvStore k v) H) -> count k v (visited (exec (labels H))) = 0%nat.
Proof. exact never_stored_never_delivered. Qed.
Print Assumptions C04_never_stored_never_delivered.

(* one Send delivers to at most one version of a pipeline id, whatever the other callers do meanwhile *)
Theorem C04_at_most_one_version : forall ls k,
  (List.length (filter (fun p => N.eqb (fst p) k) (visited (exec ls))) <= 1)%nat.
Proof. exact at_most_one_version. Qed.
Print Assumptions C04_at_most_one_version.

(* quiescence: registry calls are atomic steps (by (a)), so the registry after any set of concurrent calls is determined by
   the set of (instant, operation) pairs alone: it is the sequential fold over them in order of their instants *)
Theorem C04_quiescent_sequential : forall H1 H2 : thist,
  sortedT H1 -> sortedT H2 -> (forall x, In x H1 <-> In x H2) -> exec (labels H1) = exec (labels H2).
Proof. exact quiescent_sequential. Qed.
Print Assumptions C04_quiescent_sequential.

(* "once concurrent callers quiesce the broker behaves as if their calls had run in some sequential order": the
   correspondence decides this for every observed history by a search (Run_Conc.lin, evaluated by vm_compute).  The search is
   sound and complete for the declarative statement: [linearizable final b ops] = some permutation of the calls in which every
   call is minimal, w.r.t. "returned before the other was invoked", among those that follow it, replayed on Broker.step from b,
   reproduces every observed result (ok / error / closed objects) and ends in the observed registry *)
Theorem C04_linearization_search_sound : forall depth budget final b pend bud',
  lin depth budget final b pend = (bud', LFound) -> linearizable final b pend.
Proof. exact lin_sound. Qed.
Print Assumptions C04_linearization_search_sound.
Theorem C04_linearization_search_complete : forall depth budget final b pend bud',
  lin depth budget final b pend = (bud', LNone) -> ~ linearizable final b pend.
Proof. exact lin_complete. Qed.
Print Assumptions C04_linearization_search_complete.

(* non-vacuity: a timed history that meets every hypothesis of the delivery theorem with must1 = true (and delivers once),
   one with must0 = true, and the miniature Broker program for part (a) *)
Theorem C04_nonvacuous :
  (send_in ex_H 10 20 [1; 2]%N /\ In (5%N, EnvStore 1 7) ex_H /\ must1 3 6 8 25 ex_others = true /\
   count 1 7 (visited (exec (labels ex_H))) = 1%nat) /\
  (send_in ex_H0 10 20 [1; 2]%N /\ must0 3 6 12 25 ex_others0 = true /\ count 1 7 (visited (exec (labels ex_H0))) = 0%nat) /\
  check_program (mini mini_good) mini_good ["Send"; "RemoveNode"]%string [] [] = [].
Proof. exact conc_nonvacuous. Qed.

(* the check-then-act rule (LockLang.cta, re-evaluated per run in Obl_C04.v as broker_no_check_then_act) rejects the
   "look up under the read lock, create under the write lock without looking again" shape -- which the lockset discipline
   alone accepts -- and accepts the re-reading one *)
Theorem C04_nonvacuous_check_then_act :
  flat_complaints (cta_program (mini [("Create", create_stale)]%string) [("Create", create_stale)]%string) = [("Create", KCheckThenAct, "Broker.nodes")]%string /\
  cta_program (mini [("Create", create_fresh)]%string) [("Create", create_fresh)]%string = [] /\
  check_program (mini [("Create", create_stale)]%string) [("Create", create_stale)]%string ["Create"]%string [] [] = [].
Proof. exact (conj cta_rejected (conj cta_accepted cta_stale_still_guarded)). Qed.

(* The tie, stated for the very function the check evaluates: `Run_Conc.mismatches cases` is computed by vm_compute in every
   cases_*.v file and must be [].  That verdict holds exactly when, for every observed concurrent history: the delivery
   oracle accepts every (Send, pipeline version) count (its rules are the verdicts of C04_send_delivery_bounds /
   C04_send_delivery_some), the calls are linearizable on the sequential model with the observed results and final registry,
   and the search concluded within its budget (lin_budget = 200000 nodes; running out of it is reported as KLinBudget, i.e. a
   non-empty list, never as acceptance). *)
(* the registry's map mutations are a pseudo field (roots!) guarded by Broker.lock: a Delete performed after the lock was released is
   rejected, inside the critical section accepted (per run: Obl_C04.v registry_map_mutations_under_lock) *)
Theorem C04_nonvacuous_registry_mutation_under_lock :
  flat_complaints (check_program (registry_contracts [("RemovePipeline", remove_delete_late)]%string) [("RemovePipeline", remove_delete_late)]%string ["RemovePipeline"]%string [] [])
    = [("RemovePipeline", KUnguardedWrite, "graph.roots!")]%string /\
  check_program (registry_contracts [("RemovePipeline", remove_delete_locked)]%string) [("RemovePipeline", remove_delete_locked)]%string ["RemovePipeline"]%string [] [] = [].
Proof. exact (conj delete_after_unlock_rejected delete_under_lock_accepted). Qed.

Theorem C04_verdict_is_linearizable_history : forall cs,
  mismatches cs = [] <->
  Forall (fun c => delivery_oracle_ok c /\ linearizable (cc_final c) b0 (cc_ops c) /\ search_conclusive c) cs.
Proof. exact verdict_iff. Qed.
Print Assumptions C04_verdict_is_linearizable_history.
