(* C05 — only well-formed pipelines are ever registered; failed calls change nothing. *)
From Coq Require Import List NArith.
From Verif Require Import Alist Broker BrokerProofs BrokerExamples Run_Broker RunBrokerSound.
Import ListNotations.

(* RegisterPipeline succeeds exactly when the definition meets the declarative well-formedness predicate [wf_spec]
   (non-empty pipeline id, type and node list; no empty node id; valid policy argument; no existing (type, id) registered
   with DenyOverwrite; every listed node registered; at least two nodes, the last a sink, the one before it a formatter
   or formatter-filter) — in every broker state, for every node list. *)
Theorem C05_register_pipeline_ok_iff : forall cf b pid ety ids pa,
  snd (fst (step cf b (RegisterPipeline pid ety ids pa))) = ROk <-> wf_spec b pid ety ids pa.
Proof. exact register_pipeline_ok_iff. Qed.
Print Assumptions C05_register_pipeline_ok_iff.

(* a refused RegisterPipeline / RegisterNode / RemoveNode / RemovePipelineAndNodes(false) leaves the registered nodes
   (objects, policies, in-use counts) and the registered pipelines exactly as they were, and closes nothing. *)
Theorem C05_refusal_frame : forall cf b o,
  refused o (snd (fst (step cf b o))) ->
  b_nodes (fst (fst (step cf b o))) = b_nodes b /\ b_pipes (fst (fst (step cf b o))) = b_pipes b /\ snd (step cf b o) = [].
Proof. exact refusal_frame. Qed.
Print Assumptions C05_refusal_frame.

(* IsAnyPipelineRegistered(t) is true exactly when at least one pipeline is currently registered for t, after every history. *)
Theorem C05_is_any_iff : forall cf ops ety,
  is_any (run cf ops) ety = true <-> exists pid p, In ((ety, pid), p) (b_pipes (run cf ops)).
Proof. exact is_any_iff. Qed.
Print Assumptions C05_is_any_iff.

Theorem C05_nonvacuous : wf_spec (run nocf h1) 3%N 1%N [1%N; 2%N; 3%N] ANone.
Proof. exact wf_spec_inhabited. Qed.

(* the tie: what the correspondence check's verdict means.  The check evaluates [mismatches] on the histories the real Broker
   produced and requires []; that holds exactly when every observed history is an execution of this model (each call's result,
   error flag, closes and registry snapshot, and each Reopen's visits, are the model's) and meets the observation-only
   oracles - so the theorems above speak about the observed histories, and nothing the model can produce is rejected. *)
Theorem C05_verdict_is_model_execution : forall cs,
  mismatches cs = [] <->
  Forall (fun c => accepted (c_close_fails c) (c_non_closers c) b0 (c_steps c) /\ oracles_ok None [] (c_steps c)) cs.
Proof. exact mismatches_nil_iff. Qed.
Print Assumptions C05_verdict_is_model_execution.
