(* C06 — node in-use accounting matches the registered pipelines. *)
From Coq Require Import List NArith Arith.
From Verif Require Import Alist Broker BrokerProofs BrokerClose BrokerExamples Run_Broker RunBrokerSound.
Import ListNotations.

(* after every history (any close-failure oracle) the reference count of every registered node is the number of
   currently registered pipelines that list it *)
Theorem C06_rc_exact : forall cf ops id u,
  aget N.eqb id (b_nodes (run cf ops)) = Some u -> nu_rc u = listing id (run cf ops).
Proof. exact rc_exact. Qed.
Print Assumptions C06_rc_exact.

(* in use <-> some currently registered pipeline lists the node *)
Theorem C06_in_use_iff : forall cf ops id u,
  aget N.eqb id (b_nodes (run cf ops)) = Some u ->
  ((0 < nu_rc u)%nat <-> exists k p, In (k, p) (b_pipes (run cf ops)) /\ memN id (p_ids p) = true).
Proof. exact in_use_iff. Qed.
Print Assumptions C06_in_use_iff.

(* nothing stays pinned: RemoveNode on a registered node no pipeline lists never answers "in use" and closes exactly it *)
Theorem C06_nothing_pinned : forall cf ops id u,
  id <> 0%N -> aget N.eqb id (b_nodes (run cf ops)) = Some u ->
  (forall k p, In (k, p) (b_pipes (run cf ops)) -> memN id (p_ids p) = false) ->
  snd (fst (step cf (run cf ops) (RemoveNode id))) <> RInUse /\ snd (step cf (run cf ops) (RemoveNode id)) = [nu_obj u].
Proof. exact nothing_pinned. Qed.
Print Assumptions C06_nothing_pinned.

(* RemoveNode of a node in use is refused without side effects *)
Theorem C06_remove_in_use_refused : forall cf ops id u,
  id <> 0%N -> aget N.eqb id (b_nodes (run cf ops)) = Some u ->
  (exists k p, In (k, p) (b_pipes (run cf ops)) /\ memN id (p_ids p) = true) ->
  step cf (run cf ops) (RemoveNode id) = (run cf ops, RInUse, []).
Proof. exact remove_in_use_refused. Qed.
Print Assumptions C06_remove_in_use_refused.

(* RemovePipelineAndNodes: removes the pipeline; each listed node that no remaining pipeline lists is unregistered and
   closed once, every other node stays registered with its count decremented by one; nodes the pipeline does not list
   are untouched; the call reports true even when a Close failed *)
Theorem C06_rpan_spec : forall cf ops ety pid old,
  ety <> 0%N -> pid <> 0%N ->
  aget pkeqb (ety, pid) (b_pipes (run cf ops)) = Some old ->
  let b := run cf ops in
  let '(b', r, closed) := step cf b (RemovePipelineAndNodes ety pid) in
  (r = ROk \/ r = RCloseErr) /\
  aget pkeqb (ety, pid) (b_pipes b') = None /\
  (forall k, k <> (ety, pid) -> aget pkeqb k (b_pipes b') = aget pkeqb k (b_pipes b)) /\
  (forall id, aget N.eqb id (b_nodes b') =
     match aget N.eqb id (b_nodes b) with
     | Some u => if memN id (p_ids old)
                 then (if Nat.leb (listing id b) 1 then None else Some (set_rc u (pred (nu_rc u))))
                 else Some u
     | None => None end) /\
  closed = map (fun id => match aget N.eqb id (b_nodes b) with Some u => nu_obj u | None => 0%N end)
               (filter (fun id => Nat.leb (listing id b) 1) (distinct (p_ids old))).
Proof. exact rpan_spec. Qed.
Print Assumptions C06_rpan_spec.

(* no history makes the broker close a node twice: in every history whose RegisterNode calls each bring a new node
   object, the global log of Close calls (all steps, any close-failure oracle) is duplicate-free *)
Theorem C06_no_double_close : forall cf ops, NoDup (reg_objs ops) -> NoDup (closed_in cf b0 ops).
Proof. exact no_double_close. Qed.
Print Assumptions C06_no_double_close.

Theorem C06_nonvacuous_fresh : NoDup (reg_objs h1) /\ closed_in nocf b0 (h1 ++ [RemovePipelineAndNodes 1%N 2%N; RemovePipelineAndNodes 2%N 1%N; RemovePipelineAndNodes 1%N 1%N]) = [11%N; 12%N; 13%N].
Proof. exact fresh_history_closes. Qed.

Theorem C06_nonvacuous :
  map (fun kv => (fst kv, nu_rc (snd kv))) (b_nodes (run nocf h1)) = [(1%N, 2%nat); (2%N, 3%nat); (3%N, 3%nat)].
Proof. exact rc_values. Qed.

(* the tie: what the correspondence check's verdict means.  The check evaluates [mismatches] on the histories the real Broker
   produced and requires []; that holds exactly when every observed history is an execution of this model (each call's result,
   error flag, closes and registry snapshot, and each Reopen's visits, are the model's) and meets the observation-only
   oracles - so the theorems above speak about the observed histories, and nothing the model can produce is rejected. *)
Theorem C06_verdict_is_model_execution : forall cs,
  mismatches cs = [] <->
  Forall (fun c => accepted (c_close_fails c) (c_non_closers c) b0 (c_steps c) /\ oracles_ok None [] (c_steps c)) cs.
Proof. exact mismatches_nil_iff. Qed.
Print Assumptions C06_verdict_is_model_execution.
