(* C07 — overwrite policy: DenyOverwrite is sticky, AllowOverwrite swaps, invalid policies are rejected. *)
From Coq Require Import List NArith.
From Verif Require Import Alist Broker BrokerProofs BrokerExamples.
Import ListNotations.

(* a node id registered with DenyOverwrite refuses every later registration, whatever its arguments, and nothing changes *)
Theorem C07_deny_node_refuses : forall cf b id u obj ty pa,
  aget N.eqb id (b_nodes b) = Some u -> nu_pol u = PDeny ->
  fst (step cf b (RegisterNode id obj ty pa)) = (b, RInvalid) \/ fst (step cf b (RegisterNode id obj ty pa)) = (b, RDenied).
Proof. exact deny_node_refuses. Qed.
Print Assumptions C07_deny_node_refuses.

(* ... and after ANY history the same object is still registered under that id with DenyOverwrite, unless some call of the
   history closed it (RemoveNode / RemovePipelineAndNodes: the explicit removal) *)
Theorem C07_deny_sticky_node : forall cf ops b id u,
  aget N.eqb id (b_nodes b) = Some u -> nu_pol u = PDeny ->
  (exists u', aget N.eqb id (b_nodes (fold_left (fun b o => fst (fst (step cf b o))) ops b)) = Some u'
              /\ nu_obj u' = nu_obj u /\ nu_pol u' = PDeny)
  \/ In (nu_obj u) (closed_in cf b ops).
Proof. exact deny_sticky_node. Qed.
Print Assumptions C07_deny_sticky_node.

(* a pipeline id registered (within a type) with DenyOverwrite refuses every later registration under it *)
Theorem C07_deny_pipeline_refuses : forall cf b pid ety ids pa old,
  aget pkeqb (ety, pid) (b_pipes b) = Some old -> p_pol old = PDeny ->
  let '(b', r, closed) := step cf b (RegisterPipeline pid ety ids pa) in
  r <> ROk /\ b_pipes b' = b_pipes b /\ b_nodes b' = b_nodes b /\ closed = [].
Proof. exact deny_pipeline_refuses. Qed.
Print Assumptions C07_deny_pipeline_refuses.

(* ... and the original registration (node list, linked objects, policy) is exactly what is registered after any history
   that contains no RemovePipeline / RemovePipelineAndNodes of that (type, id) *)
Theorem C07_deny_sticky_pipeline : forall cf ops b ety pid old,
  aget pkeqb (ety, pid) (b_pipes b) = Some old -> p_pol old = PDeny ->
  (forall o, In o ops -> ~ removes_pipeline o ety pid) ->
  aget pkeqb (ety, pid) (b_pipes (fold_left (fun b o => fst (fst (step cf b o))) ops b)) = Some old.
Proof. exact deny_sticky_pipeline. Qed.
Print Assumptions C07_deny_sticky_pipeline.

(* AllowOverwrite (the default): a well-formed re-registration succeeds; the new node list is linked with the objects
   registered now, and the policy given now applies from here on *)
Theorem C07_allow_then_reregister : forall cf b pid ety ids pa p,
  wf_spec b pid ety ids pa -> pol_of pa = Some p ->
  let b' := fst (fst (step cf b (RegisterPipeline pid ety ids pa))) in
  exists newp, aget pkeqb (ety, pid) (b_pipes b') = Some newp /\ p_ids newp = ids /\ p_pol newp = p /\
               resolve ids (b_nodes b) = Some (p_objs newp).
Proof. exact allow_then_reregister. Qed.
Print Assumptions C07_allow_then_reregister.

Theorem C07_allow_node_reregister : forall cf b id u obj ty pa p,
  id <> 0%N -> aget N.eqb id (b_nodes b) = Some u -> nu_pol u = PAllow -> pol_of pa = Some p ->
  let b' := fst (fst (step cf b (RegisterNode id obj ty pa))) in
  exists u', aget N.eqb id (b_nodes b') = Some u' /\ nu_obj u' = obj /\ nu_pol u' = p /\ nu_rc u' = nu_rc u.
Proof. exact allow_node_reregister. Qed.
Print Assumptions C07_allow_node_reregister.

(* invalid policy values are rejected and change nothing *)
Theorem C07_invalid_policy_rejected_node : forall cf b id obj ty, step cf b (RegisterNode id obj ty ABad) = (b, RInvalid, []).
Proof. exact invalid_policy_rejected_node. Qed.
Theorem C07_invalid_policy_rejected_pipeline : forall cf b pid ety ids, step cf b (RegisterPipeline pid ety ids ABad) = (b, RInvalid, []).
Proof. exact invalid_policy_rejected_pipeline. Qed.
Print Assumptions C07_invalid_policy_rejected_pipeline.

(* re-registering a node id affects only pipelines registered afterwards *)
Theorem C07_node_reregistration_local : forall cf b id obj ty pa ety,
  b_pipes (fst (fst (step cf b (RegisterNode id obj ty pa)))) = b_pipes b /\
  deliveries (fst (fst (step cf b (RegisterNode id obj ty pa)))) ety = deliveries b ety.
Proof. exact node_reregistration_local. Qed.
Print Assumptions C07_node_reregistration_local.

Theorem C07_nonvacuous_node : exists u, aget N.eqb 3%N (b_nodes (run nocf h1)) = Some u /\ nu_pol u = PDeny.
Proof. exact deny_node_exists. Qed.
Theorem C07_nonvacuous_pipeline : exists p, aget pkeqb (1%N, 1%N) (b_pipes (run nocf h1)) = Some p /\ p_pol p = PDeny.
Proof. exact deny_pipe_exists. Qed.
