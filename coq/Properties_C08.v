(* C08 — FileSink never loses, duplicates, reorders or tears an acknowledged event.
   Model: FileSink.v (file_sink.go transcribed over a directory of inodes; every clock reading is an input).
   Hypotheses of every theorem, for EVERY configuration c, initial set of foreign files fids, directory mode dm, history ops:
     special c = false   the path is a directory (for /dev/null, /dev/stdout, /dev/stderr there are no files to speak about)
     fault_free ops      no write(2) fails (the write-retry branch is outside C08's quantifier; see C08_retry_* below)
     clock_ok k0 ops     the clock readings of the history strictly increase
   [reading fs] sorts the sink's files by stamp, puts the plain name last and concatenates their chunks; a chunk is one
   whole event (the chunk 0 = bytes that are not a whole event never appears: see C08_no_torn_chunk). *)
From Coq Require Import List Bool NArith ZArith Sorted.
From Verif Require Import FileSink FileSinkProofs FileSinkExamples.
Import ListNotations.

(* the acknowledged sequence = what retention removed ++ what the files read, oldest to newest: every acknowledged event
   is there exactly once, whole, contiguous, in acknowledgement order *)
Theorem C08_acked_is_pruned_plus_reading : forall c fids dm k0 ops,
  special c = false -> fault_free ops -> clock_ok k0 ops ->
  acked (run c fids dm k0 ops) = pruned (run c fids dm k0 ops) ++ reading (files (run c fids dm k0 ops)).
Proof. exact acked_is_pruned_plus_reading. Qed.
Print Assumptions C08_acked_is_pruned_plus_reading.

Theorem C08_acked_suffix : forall c fids dm k0 ops,
  special c = false -> fault_free ops -> clock_ok k0 ops ->
  exists k, reading (files (run c fids dm k0 ops)) = skipn k (acked (run c fids dm k0 ops)).
Proof. exact acked_suffix. Qed.
Print Assumptions C08_acked_suffix.

(* what retention removed is a prefix of the acknowledged sequence *)
Theorem C08_pruned_is_prefix : forall c fids dm k0 ops,
  special c = false -> fault_free ops -> clock_ok k0 ops ->
  pruned (run c fids dm k0 ops) = firstn (length (pruned (run c fids dm k0 ops))) (acked (run c fids dm k0 ops)).
Proof. exact pruned_is_prefix. Qed.
Print Assumptions C08_pruned_is_prefix.

(* MaxFiles = 0: nothing is ever missing *)
Theorem C08_no_prune_no_loss : forall c fids dm k0 ops,
  special c = false -> fault_free ops -> clock_ok k0 ops -> maxFiles c = 0%N ->
  reading (files (run c fids dm k0 ops)) = acked (run c fids dm k0 ops).
Proof. exact no_prune_no_loss. Qed.
Print Assumptions C08_no_prune_no_loss.
(* … and with a limit, as long as nothing has been pruned yet *)
Theorem C08_nothing_pruned_nothing_lost : forall c fids dm k0 ops,
  special c = false -> fault_free ops -> clock_ok k0 ops ->
  pruned (run c fids dm k0 ops) = [] -> reading (files (run c fids dm k0 ops)) = acked (run c fids dm k0 ops).
Proof. exact nothing_pruned_nothing_lost. Qed.
Print Assumptions C08_nothing_pruned_nothing_lost.

(* the files in the order of their creation are in reading order (stamps strictly ascending, plain name last), so
   "oldest to newest" is well defined and is what [reading] computes *)
Theorem C08_reading_order : forall c fids dm k0 ops,
  special c = false -> fault_free ops -> clock_ok k0 ops ->
  StronglySorted nlt (names (files (run c fids dm k0 ops))) /\
  reading_files (files (run c fids dm k0 ops)) = sink_files (files (run c fids dm k0 ops)).
Proof. exact reading_order. Qed.
Print Assumptions C08_reading_order.

(* a process killed at any boundary between two atomic file-system steps of any call (open/create, close, rename, each
   single remove of pruneFiles, the one write(2)) leaves files that read as all acknowledged events (minus what retention
   removed) plus at most the whole in-flight one; the last crash point is the state in which the call returns *)
Theorem C08_crash_whole_events : forall c fids dm k0 ops o,
  special c = false -> fault_free (ops ++ [o]) -> clock_ok k0 (ops ++ [o]) ->
  let w := run c fids dm k0 ops in
  Forall (fun w' =>
            sinv c w' /\
            (pruned w' ++ reading (files w') = acked w \/
             exists id, in_flight o = Some id /\ pruned w' ++ reading (files w') = acked w ++ [id]))
         (crash_points c w o) /\
  last (crash_points c w o) w = step c w o.
Proof. exact crash_whole_events. Qed.
Print Assumptions C08_crash_whole_events.

(* n writers: every interleaving of their calls (each atomic under FileSink.l — C19) is a list of (writer, call) in the
   order of mutex acquisition; the files then hold exactly the events of the calls that returned nil, in that order *)
Theorem C08_serialised_writers : forall c fids dm k0 (s : list (N * op)),
  special c = false -> fault_free (map snd s) -> clock_ok k0 (map snd s) ->
  let w := run c fids dm k0 (map snd s) in
  pruned w ++ reading (files w) = map snd (ack_log c (w_init fids dm k0) s).
Proof. exact serialised_writers. Qed.
Print Assumptions C08_serialised_writers.
(* the log of an interleaving is ordered like the interleaving: what was acknowledged in an earlier critical section comes first *)
Theorem C08_ack_log_in_schedule_order : forall c s1 w s2,
  ack_log c w (s1 ++ s2) = ack_log c w s1 ++ ack_log c (run_from c w (map snd s1)) s2.
Proof. exact ack_log_app. Qed.
Print Assumptions C08_ack_log_in_schedule_order.

(* without a failing write(2) the files never contain bytes that are not a whole event (chunk 0) *)
Theorem C08_no_torn_chunk : forall c fids dm k0 ops,
  special c = false -> fault_free ops -> clock_ok k0 ops -> Forall write_id_nonzero ops ->
  ~ In 0%N (pruned (run c fids dm k0 ops) ++ reading (files (run c fids dm k0 ops))).
Proof. exact no_torn_chunk. Qed.
Print Assumptions C08_no_torn_chunk.

(* outside C08's quantifier (needs a failing write(2)): the write-retry branch can leave the bytes of a failed first
   attempt in the file, in front of the whole event it then writes *)
Theorem C08_outside_quantifier_retry_leaves_partial :
  acked (ex_retry retry_partial) = [1%N] /\ reading (files (ex_retry retry_partial)) = [0%N; 1%N].
Proof. exact retry_leaves_partial. Qed.

(* beyond the fault-free quantifier: for EVERY outcome of the write-fault oracle, a Process call that returns nil has put the
   whole event at the end of what the files read (after at most the bytes of a failed first attempt), and a call that returns
   an error acknowledges nothing — "every event for which Process returned success is present" survives failing write(2)s *)
Theorem C08_write_ack_present : forall c w id size t1 t2 t3 t4 t5 flt,
  sinv c w -> (clock w < t1)%Z -> (t1 < t2)%Z -> (t2 < t3)%Z -> (t3 < t4)%Z -> (t4 < t5)%Z ->
  let r := do_write c w id size t1 t2 t3 t4 t5 flt in
  if snd (fst r)
  then D (fst (fst r)) = D w ++ (if first_fails flt && leaves_partial flt then [0%N] else []) ++ [id] /\ acked (fst (fst r)) = acked w ++ [id]
  else acked (fst (fst r)) = acked w.
Proof. exact write_ack_present. Qed.
Print Assumptions C08_write_ack_present.

(* the hypotheses are satisfiable by a history with rotations, retention, an external rename, a failed rotation and Reopen *)
Theorem C08_nonvacuous :
  special ex_cfg = false /\ fault_free ex_ops /\ clock_ok 0 ex_ops /\
  acked ex_w = [1; 2; 3; 4; 5; 6; 8; 9]%N /\ pruned ex_w = [1; 2]%N /\ reading (files ex_w) = [3; 4; 5; 6; 8; 9]%N.
Proof. exact ex_nonvacuous. Qed.
Print Assumptions C08_nonvacuous.

(* ---- what the check's verdict means (RunFileSinkSound.v): [Run_FileSink.mismatches cases = []], evaluated by vm_compute on every
   shard, holds exactly when every case's observed history is an execution of the model (where the case is compared with
   the model), satisfies the statements of C08/C15 evaluated on the observations after every observed call, and its
   directory event log obeys stamp order and oldest-first retention ---- *)
From Verif Require Import Run_FileSink RunFileSinkSound.
Theorem C08_verdict_is_model_execution : forall cs,
  mismatches cs = [] <->
  Forall (fun k =>
    dirlog_ok (c_dirlog k) /\
    (c_model k = true -> accepted (c_cfg k) (empties_of (c_steps k)) (w_init (c_fids k) (c_dm k) (c_k0 k)) (c_steps k)) /\
    oracles_ok (c_cfg k) (c_writers k) (c_counts k) (c_dm k) (empties_of (c_steps k)) false false (w_init (c_fids k) (c_dm k) (c_k0 k)) [] 0%N (c_steps k)) cs.
Proof. exact mismatches_nil_iff. Qed.
Print Assumptions C08_verdict_is_model_execution.
(* SIGKILL cases: only whole consecutive events ending at the last acknowledged one or the next, and the directory is the
   model's state after the last acknowledged call or (existentially) one of the crash points of the next call *)
Theorem C08_kill_verdict_is_crash_point : forall ks, kill_mismatches ks = [] <-> Forall kill_ok ks.
Proof. exact kill_mismatches_nil_iff. Qed.
Print Assumptions C08_kill_verdict_is_crash_point.
(* failing write(2): the whole events in the files are exactly the acknowledged ones *)
Theorem C08_fsize_verdict_is_ack_present : forall ls, fsize_mismatches ls = [] <-> Forall fsize_ok ls.
Proof. exact fsize_mismatches_nil_iff. Qed.
Print Assumptions C08_fsize_verdict_is_ack_present.
(* hence the theorems above speak about the observed directory: after an accepted history the files the harness read are
   the model's acknowledged sequence minus a prefix *)
Theorem C08_observed_reading_is_acked_suffix : forall c E fids dm k0 (l : list (op * option sobs)) o ob,
  special c = false -> fault_free (map fst l ++ [o]) -> clock_ok k0 (map fst l ++ [o]) ->
  accepted c E (w_init fids dm k0) (map (fun p => (XOp (fst p), snd p)) l ++ [(XOp o, Some ob)]) ->
  exists k, obs_reading ob = vis E (skipn k (acked (run c fids dm k0 (map fst l ++ [o])))).
Proof. exact observed_reading_is_acked_suffix. Qed.
Print Assumptions C08_observed_reading_is_acked_suffix.
