(* C09 — encrypt.Filter leaks no classified plaintext (secure default, fails closed).
   Model: Tag.v (tag resolution on strings), Encrypt.v (Process and the walker on payload trees of the grammar G with
   symbolic leaves), EncryptSpec.v (the predicates the statements use).  Every statement quantifies over all
   configurations [c] (override table, wrapper present or not, key, failure oracles of the AEAD / HMAC calls), all
   payload trees and all event-wrapper infos. *)
From Coq Require Import List Bool NArith ZArith String.
From Verif Require Import Tag Encrypt EncryptSpec EncryptProofs Run_Encrypt RunEncryptSound.
Import ListNotations.

(* no_leak: whenever Process forwards an event for a payload of the grammar, the forwarded payload is clean: at every
   position [cleanb] (a predicate on the OUTPUT alone) finds the value its own class tag / PointerTag, the defaults and
   the overrides dictate: "[REDACTED]" for secret, untagged and unknown, Enc / Hmac under the key in force for
   sensitive or where the tag or an override says so, and only public / no-operation values as they were. *)
Theorem C09_no_leak : forall c ek ewi x y,
  process c ek (PVal ewi x) = ROut y -> inGb (c_ov c) (CTop false) x = true ->
  cleanb (c_ov c) (key_of c ek ewi) (CTop false) y = true.
Proof. exact no_leak. Qed.
Print Assumptions C09_no_leak.

(* ... and a value [cleanb] accepts under an action other than "leave alone" is not readable without the key *)
Theorem C09_clean_not_exposed : forall key a l, leaf_okb key a l = true -> a <> ASkip -> exposed l = false.
Proof. exact leaf_ok_not_exposed. Qed.
Print Assumptions C09_clean_not_exposed.

(* exactness: the forwarded payload is the specification applied to the private copy, position by position *)
Theorem C09_as_dictated : forall c ek ewi x y,
  process c ek (PVal ewi x) = ROut y -> y = spec (c_ov c) (key_of c ek ewi) (CTop false) (copyz x).
Proof. exact as_dictated. Qed.
Print Assumptions C09_as_dictated.

(* secure_default: a missing class tag and every classification text other than exactly public / sensitive / secret
   (mixed case, typos, empty) resolve to redaction, whatever the operation text and the overrides; at a struct field
   and at an untagged map key the walker then writes "[REDACTED]" *)
Theorem C09_secure_default : forall ov t,
  (t = None \/ exists s, t = Some s /\ class_of_text (hd EmptyString (split_comma s)) = CUnknown) ->
  action (resolve_tag ov t) = ARedact.
Proof. exact secure_default. Qed.
Print Assumptions C09_secure_default.

Theorem C09_secure_default_field : forall c s lk l t ig mt,
  (t = None \/ exists tx, t = Some tx /\ class_of_text (hd EmptyString (split_comma tx)) = CUnknown) ->
  walk c (CField true ig t mt) (VLeaf lk l) s = Some (VLeaf lk Redacted, s).
Proof. exact secure_default_field. Qed.
Print Assumptions C09_secure_default_field.

Theorem C09_secure_default_map_key : forall c s lk l, walk c CMapVal (VLeaf lk l) s = Some (VLeaf lk Redacted, s).
Proof. exact secure_default_map_key. Qed.
Print Assumptions C09_secure_default_map_key.

(* the defaults (sensitive: encrypt, secret and unclassified: redact, public: nothing) and the precedence of an override
   over whatever operation the tag names *)
Theorem C09_defaults : 
  action (resolve_string no_overrides "sensitive") = AEncrypt /\ action (resolve_string no_overrides "secret") = ARedact /\
  action (resolve_string no_overrides "public") = ASkip /\ action (resolve_tag no_overrides None) = ARedact.
Proof. exact defaults_no_overrides. Qed.
Print Assumptions C09_defaults.

Theorem C09_override_wins : forall ov s c o,
  class_of_text (hd EmptyString (split_comma s)) = c -> override_of ov c = Some o -> resolve_string ov s = (c, o).
Proof. exact override_wins. Qed.
Print Assumptions C09_override_wins.

(* a value is left as it was only when it is classified public or the operation in force for it is "none" *)
Theorem C09_skip_only_public_or_none : forall ti, action ti = ASkip <-> fst ti = CPublic \/ snd ti = ONone.
Proof. exact action_skip. Qed.
Print Assumptions C09_skip_only_public_or_none.

(* fails_closed.  The result type has no "partially filtered event": Process yields the same event, nothing, an
   error, or a completely walked copy.  When a copy is forwarded, every AEAD and HMAC call the run made succeeded and
   calls were only made with a wrapper; so a call failing at any position means no event. *)
Theorem C09_fails_closed_calls : forall c ek ewi x y,
  process c ek (PVal ewi x) = ROut y ->
  exists ne nh, calls c ek ewi x = Some (ne, nh) /\
    (forall i, (i < ne)%N -> c_encfail c i = false) /\ (forall i, (i < nh)%N -> c_hmacfail c i = false) /\
    ((ne, nh) <> (0%N, 0%N) -> c_wrap c = true).
Proof. exact fails_closed_calls. Qed.
Print Assumptions C09_fails_closed_calls.

Theorem C09_fails_closed_missing_wrapper : forall c ek x,
  c_wrap c = false -> needs_wrapper (c_ov c) = true -> process c ek (PVal None x) = RErr.
Proof. exact fails_closed_missing_wrapper. Qed.
Print Assumptions C09_fails_closed_missing_wrapper.

Theorem C09_fails_closed_event_wrapper : forall c ek id x,
  all_none (c_ov c) = false -> c_wrap c = false \/ id = 0%N -> process c ek (PVal (Some id) x) = RErr.
Proof. exact fails_closed_event_wrapper. Qed.
Print Assumptions C09_fails_closed_event_wrapper.

Theorem C09_fails_closed_unsettable : forall c ek ewi lk l y,
  lk = LStr \/ lk = LBytes -> process c ek (PVal ewi (VLeaf lk l)) <> ROut y.
Proof. exact fails_closed_unsettable. Qed.
Print Assumptions C09_fails_closed_unsettable.

Theorem C09_fails_closed_bad_pointer : forall c ek ewi ts l y,
  malformed ts = true ->
  process c ek (PVal ewi (VMap (Some ts) l)) <> ROut y /\ process c ek (PVal ewi (VPtr (Some (VMap (Some ts) l)))) <> ROut y.
Proof. exact fails_closed_bad_pointer. Qed.
Print Assumptions C09_fails_closed_bad_pointer.

Theorem C09_fails_closed_bad_pointer_struct : forall c ek ewi ts fs y,
  malformed ts = true -> process c ek (PVal ewi (VPtr (Some (VStruct (Some ts) fs)))) <> ROut y.
Proof. exact fails_closed_bad_pointer_struct. Qed.
Print Assumptions C09_fails_closed_bad_pointer_struct.

(* rotation payloads are consumed, never forwarded as a filtered event.
   (Full statement of the property: "consumed, never forwarded".  With EVERY operation overridden to none Process
   returns the event it was given before it looks at the payload kind (C10's clause), so the rotation payload is then
   forwarded; hence the hypothesis.) *)
Theorem C09_rotation_payload_consumed_partial : forall c ek, all_none (c_ov c) = false -> process c ek PRotate = RConsumed.
Proof. exact rotation_payload_consumed. Qed.
Print Assumptions C09_rotation_payload_consumed_partial.

Theorem C09_rotation_payload_never_filtered : forall c ek y, process c ek PRotate <> ROut y.
Proof. exact rotation_payload_never_filtered. Qed.
Print Assumptions C09_rotation_payload_never_filtered.

(* non-vacuity: a payload of G with public / sensitive / secret / untagged / mis-spelt fields, pointers, a slice, an
   untagged map holding a struct by value, a Taggable map and a Taggable struct is forwarded, the output is clean (the
   input is not), 2 AEAD and 3 HMAC calls were made; with the second HMAC failing, or without wrapper, nothing is forwarded *)
Theorem C09_nonvacuous :
  inGb (c_ov cfg0) (CTop false) ex_payload = true /\ tosb (CTop false) ex_payload = true /\
  exists y, process cfg0 2%N (PVal None ex_payload) = ROut y /\ cleanb (c_ov cfg0) 1%N (CTop false) y = true /\
            erase y = erase (copyz ex_payload) /\ calls cfg0 2%N None ex_payload = Some (2%N, 3%N) /\
            cleanb (c_ov cfg0) 1%N (CTop false) ex_payload = false.
Proof. exact ex_forwarded_clean. Qed.

Theorem C09_nonvacuous_fails_closed :
  process {| c_ov := no_overrides; c_wrap := true; c_key := 1%N; c_encfail := fun _ => false; c_hmacfail := fun i => N.eqb i 1 |} 2%N (PVal None ex_payload) = RErr /\
  process {| c_ov := no_overrides; c_wrap := false; c_key := 1%N; c_encfail := fun _ => false; c_hmacfail := fun _ => false |} 2%N (PVal None ex_payload) = RErr /\
  process cfg0 2%N PRotate = RConsumed /\ process cfg0 2%N PNil = RSame.
Proof. exact ex_fails_closed. Qed.

(* the tie: what the correspondence check's verdict means.  Run_Encrypt.mismatches evaluates to [] (by vm_compute, on the cases
   the harness printed) exactly when every case is accepted: the observed outcome of Process is the model's (same event /
   consumed / error as Encrypt.process says; a forwarded payload agrees with the model's position by position, up to HMACs over
   texts nobody can recompute), and the observation-only oracles hold (input equal to its snapshot, also after the forwarded
   event was rewritten; observed payload clean and shape-preserving where theorems no_leak / shape_preserved apply; nothing
   below unexported fields lost - the known finding F10 is the one oracle the C09 check reports as KNOWN-FINDING).  The C09 check
   itself looks at the kinds of mismatch that speak about C09, a subset: an empty list is the stronger statement. *)
Theorem C09_verdict_is_model_execution : forall cs, mismatches cs = [] <-> Forall case_accepted cs.
Proof. exact RunEncryptSound.mismatches_nil_iff. Qed.
Print Assumptions C09_verdict_is_model_execution.

(* an accepted forwarded payload is, up to that agreement, the specification applied to the private copy *)
Theorem C09_accepted_forwarded_is_model : forall e ewi x o fl,
  e_snaponly e = false -> case_accepted e -> e_payload e = PVal ewi x -> e_obs e = ObOut o fl ->
  exists m, process (cfg_of e) (e_ekey e) (PVal ewi x) = ROut m /\ agree m o /\
            m = spec (e_ov e) (key_of (cfg_of e) (e_ekey e) ewi) (CTop false) (copyz x).
Proof. exact accepted_forwarded_is_model. Qed.
Print Assumptions C09_accepted_forwarded_is_model.
