(* C10 — encrypt.Filter leaks no classified plaintext (secure default, fails closed). *)
From Coq Require Import List Bool NArith ZArith String.
From Verif Require Import Tag Encrypt EncryptProofs.
Import ListNotations.

Theorem C10_secure_default : forall ov t,
  (t = None \/ exists s, t = Some s /\ class_of_text (hd EmptyString (split_comma s)) = CUnknown) ->
  action (resolve_tag ov t) = ARedact.
Proof. exact secure_default. Qed.
Print Assumptions C10_secure_default.
