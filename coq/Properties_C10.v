(* C10 — encrypt.Filter works on a private copy: the original event stays untouched.
   PARTIAL: "Process never modifies the event it was given" has no counterpart in a heap-free functional model (the
   model's input is immutable by construction); that half is tied dynamically: the harness takes a deep snapshot of
   the input event (payload graph, type, time, formatted data) before Process and compares it afterwards, on every
   generated case (observable KMutated of Run_Encrypt).  Proved here: what the forwarded event looks like. *)
From Coq Require Import List Bool NArith ZArith String.
From Verif Require Import Tag Encrypt EncryptSpec EncryptProofs Run_Encrypt RunEncryptSound.
Import ListNotations.

(* shape_preserved: the forwarded payload and the private copy of the input are equal once the contents of string-like
   leaves are forgotten: same constructors at every position, same slice lengths, map keys, field names and tags,
   equal non-string values — for every payload whose PointerTags name string values *)
Theorem C10_shape_preserved : forall c ek ewi x y,
  process c ek (PVal ewi x) = ROut y -> tosb (CTop false) x = true -> erase y = erase (copyz x).
Proof. exact shape_preserved. Qed.
Print Assumptions C10_shape_preserved.

(* ... and the private copy is the input itself when no struct field is unexported *)
Theorem C10_shape_preserved_exported : forall c ek ewi x y,
  process c ek (PVal ewi x) = ROut y -> tosb (CTop false) x = true -> all_exported x = true -> erase y = erase x.
Proof. exact shape_preserved_exported. Qed.
Print Assumptions C10_shape_preserved_exported.

Theorem C10_copy_is_input_when_exported : forall x, all_exported x = true -> copyz x = x.
Proof. exact copyz_exported. Qed.
Print Assumptions C10_copy_is_input_when_exported.

(* public-classified and no-operation values are forwarded as they are: struct fields, and keys all of whose tags say so *)
Theorem C10_public_kept : forall ov key a ig t mt,
  action (resolve_tag ov t) = ASkip ->
  (forall lk l, spec ov key (CField a ig t mt) (VLeaf lk l) = VLeaf lk l) /\
  (forall lk ls, spec ov key (CField a ig t mt) (VLeaves lk ls) = VLeaves lk ls).
Proof. exact public_kept. Qed.
Print Assumptions C10_public_kept.

Theorem C10_public_key_kept : forall ov key ts y,
  Forall (fun t => action (resolve_string ov t) = ASkip) ts -> spec_tags ov key ts y = y.
Proof. exact public_key_kept. Qed.
Print Assumptions C10_public_key_kept.

(* noop_identity: a nil payload, every operation overridden to none, or a zero payload => the event itself is returned
   (for a zero payload the wrapper check comes first: an encrypting configuration without wrapper is an error) *)
Theorem C10_noop_identity : forall c ek,
  process c ek PNil = RSame /\
  (forall p, all_none (c_ov c) = true -> process c ek p = RSame) /\
  (forall x, is_zero x = true -> (c_wrap c = true \/ needs_wrapper (c_ov c) = false) -> process c ek (PVal None x) = RSame) /\
  (forall id x, is_zero x = true -> c_wrap c = true -> id <> 0%N -> process c ek (PVal (Some id) x) = RSame).
Proof. exact noop_identity. Qed.
Print Assumptions C10_noop_identity.

(* F10: "every non-string value preserved" is false for unexported struct fields: the copy holds their zero value.
   (Full statement of the property: erase y = erase x for every payload; refuted by this witness, which replayed on the
   code is known finding KF-C10-unexported-zeroed.) *)
Theorem C10_unexported_zeroed_refuted :
  exists c ek x y, process c ek (PVal None x) = ROut y /\ tosb (CTop false) x = true /\ inGb (c_ov c) (CTop false) x = true /\ erase y <> erase x.
Proof. exact unexported_zeroed_refuted. Qed.
Print Assumptions C10_unexported_zeroed_refuted.

Theorem C10_nonvacuous :
  inGb (c_ov cfg0) (CTop false) ex_payload = true /\ tosb (CTop false) ex_payload = true /\
  exists y, process cfg0 2%N (PVal None ex_payload) = ROut y /\ cleanb (c_ov cfg0) 1%N (CTop false) y = true /\
            erase y = erase (copyz ex_payload) /\ calls cfg0 2%N None ex_payload = Some (2%N, 3%N) /\
            cleanb (c_ov cfg0) 1%N (CTop false) ex_payload = false.
Proof. exact ex_forwarded_clean. Qed.

(* the tie: what the correspondence check's verdict means.  Run_Encrypt.mismatches evaluates to [] (by vm_compute, on the cases
   the harness printed) exactly when every case is accepted: the observed outcome of Process is the model's (same event /
   consumed / error as Encrypt.process says; a forwarded payload agrees with the model's position by position, up to HMACs over
   texts nobody can recompute), and the observation-only oracles hold (input equal to its snapshot, also after the forwarded
   event was rewritten; observed payload clean and shape-preserving where theorems no_leak / shape_preserved apply; nothing
   below unexported fields lost - the known finding F10 is the one oracle the C10 check reports as KNOWN-FINDING).  The C10 check
   itself looks at the kinds of mismatch that speak about C10, a subset: an empty list is the stronger statement. *)
Theorem C10_verdict_is_model_execution : forall cs, mismatches cs = [] <-> Forall case_accepted cs.
Proof. exact RunEncryptSound.mismatches_nil_iff. Qed.
Print Assumptions C10_verdict_is_model_execution.

(* an accepted forwarded payload is, up to that agreement, the specification applied to the private copy *)
Theorem C10_accepted_forwarded_is_model : forall e ewi x o fl,
  e_snaponly e = false -> case_accepted e -> e_payload e = PVal ewi x -> e_obs e = ObOut o fl ->
  exists m, process (cfg_of e) (e_ekey e) (PVal ewi x) = ROut m /\ agree m o /\
            m = spec (e_ov e) (key_of (cfg_of e) (e_ekey e) ewi) (CTop false) (copyz x).
Proof. exact accepted_forwarded_is_model. Qed.
Print Assumptions C10_accepted_forwarded_is_model.
