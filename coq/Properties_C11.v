(* C11 — gated.Filter neither loses, duplicates nor reorders gated events.
   Model: Gated.v (gated.go after repair F1).  A history is a list of the filter's critical sections ([atom]): any such
   list, hence every interleaving of concurrent Process / FlushAll / Close calls; [E] carries the configuration and the
   fault oracles (ComposeFrom outcome per argument, which Send fails); clock readings are arguments of the atoms.
   [log] is the ghost history: LArr e = event e entered its id's group, LOut d id evs = the group of id left the gate
   with events evs towards destination d.  [adds l] are the events handed to Process in l. *)
From Coq Require Import List NArith ZArith Permutation.
From Verif Require Import Gated GatedProofs GatedExamples.
From Verif Require Run_Gated RunGatedSound.
Import ListNotations.

(* exactly once: when the events handed to Process are pairwise distinct, every accepted event (Process returned no error) is,
   after every history, in exactly one place — one composite that left the gate, or the gate itself — never in two. *)
Theorem C11_exactly_once : forall E l e,
  NoDup (adds l) -> In e (accepted (arun E l)) -> cnt e (everywhere (arun E l)) = 1%nat.
Proof. exact exactly_once. Qed.
Print Assumptions C11_exactly_once.

(* the same for histories of whole calls (Process = expire; add), [procs ops] = the events of the Process calls *)
Theorem C11_exactly_once_seq : forall E ops e,
  NoDup (procs ops) -> In e (accepted (run E ops)) -> cnt e (everywhere (run E ops)) = 1%nat.
Proof. exact exactly_once_seq. Qed.
Print Assumptions C11_exactly_once_seq.

(* without any hypothesis on the events: what left the gate together with what is gated is a permutation of what arrived *)
Theorem C11_accounting : forall E l, Permutation (everywhere (arun E l)) (seen (arun E l)).
Proof. exact accounting_perm. Qed.
Print Assumptions C11_accounting.

(* group integrity: wherever a composite occurs in the history — returned to a flush event, sent through the Broker or
   discarded — its events are exactly the events of that id that arrived since the id's previous group left the gate
   (= since this group was opened), in arrival order; and what the gate holds for an id is exactly what is pending. *)
Theorem C11_group_integrity : forall E l post d id evs pre,
  log (arun E l) = post ++ LOut d id evs :: pre -> evs = pending id pre.
Proof. exact composite_is_pending. Qed.
Print Assumptions C11_group_integrity.

Theorem C11_gate_is_pending : forall E l id, gated_of id (groups (arun E l)) = pending id (log (arun E l)).
Proof. exact gate_is_pending. Qed.
Print Assumptions C11_gate_is_pending.

(* a group leaves the gate only as the statement allows: DReturned (flush event, composition did not fail), DSent (Broker
   configured, non-Gateable composite), DNoBroker / DFlushDrop (no Broker configured at expiry / FlushAll), DCompose /
   DGateable (composition reported an error / returned a Gateable payload), DSendErr (Send reported an error) *)
Theorem C11_dests_permitted : forall E l d id evs, In (LOut d id evs) (log (arun E l)) -> permitted E d evs.
Proof. exact dests_permitted. Qed.
Print Assumptions C11_dests_permitted.

(* together with C17: once a FlushAll / Close has succeeded, every event accepted so far has left the gate in exactly one
   composite and nothing is withheld any more *)
Theorem C11_handed_over_exactly_once_after_flush : forall E l e,
  NoDup (adds l) -> In e (accepted (arun E l)) -> snd (astep E (arun E l) AFlushAll) = RNil ->
  let s' := arun E (l ++ [AFlushAll]) in groups s' = [] /\ cnt e (emitted (log s')) = 1%nat.
Proof. exact handed_over_exactly_once_after_flush. Qed.
Print Assumptions C11_handed_over_exactly_once_after_flush.

(* an accepted event without the flush flag is withheld: nothing is returned and it sits last in its id's group *)
Theorem C11_accepted_withheld : forall E s id n rd tadd,
  snd (step E s (Proc id false n rd tadd)) <> RErr ->
  snd (step E s (Proc id false n rd tadd)) = RWithheld /\
  exists pre, gated_of id (groups (fst (step E s (Proc id false n rd tadd)))) = pre ++ [{| eid := id; en := n |}].
Proof. exact accepted_withheld. Qed.
Print Assumptions C11_accepted_withheld.

(* a flush event gets back the composite of its group, which ends with the flush event itself, and the group leaves the gate *)
Theorem C11_flush_returns_group : forall E s id n rd tadd evs,
  snd (step E s (Proc id true n rd tadd)) = RComposite evs ->
  exists pre, evs = pre ++ [{| eid := id; en := n |}] /\
              log (fst (step E s (Proc id true n rd tadd))) =
                LOut DReturned id evs :: LArr {| eid := id; en := n |} :: log (fst (astep E s (AExpire rd))).
Proof. exact flush_returns_group. Qed.
Print Assumptions C11_flush_returns_group.

(* non-Gateable events pass through unchanged (and leave the filter untouched); events without an id are rejected *)
Theorem C11_non_gateable_identity : forall E s, step E s NonGateable = (s, RPass).
Proof. exact non_gateable_identity. Qed.
Print Assumptions C11_non_gateable_identity.

Theorem C11_empty_id_rejected : forall E s flush n rd tadd, step E s (Proc 0 flush n rd tadd) = (s, RErr).
Proof. exact empty_id_rejected. Qed.
Print Assumptions C11_empty_id_rejected.

(* the other exported methods of the Filter — Reopen, Type, Now — do nothing to the gate (a Broker.Reopen, e.g. on log rotation,
   must not close open groups early) *)
Theorem C11_other_methods_identity : forall E s, step E s Other = (s, RNil).
Proof. exact other_methods_identity. Qed.
Print Assumptions C11_other_methods_identity.

(* composites emitted through the Broker are never themselves Gateable *)
Theorem C11_broker_composites_not_gateable : forall E l id evs d,
  In (LOut d id evs) (log (arun E l)) -> d = DSent \/ d = DSendErr -> compose E evs <> CGateable.
Proof. exact broker_composites_not_gateable. Qed.
Print Assumptions C11_broker_composites_not_gateable.

(* ---------- what the check's verdict means ----------
   The correspondence part of the check evaluates Run_Gated.mismatches / conc_mismatches on the harness' cases with vm_compute and
   requires [].  That verdict is exactly: every observed history is an execution of the model (result, returned composite,
   ComposeFrom arguments, payloads handed to the Sender and the VerifGated snapshot of every call are the model's) and satisfies
   the observation-only oracles; every concurrent case satisfies the declarative concurrent oracle.  (The engine drops the
   kinds that do not speak about the property at hand; on a tree where the whole list is empty this is the reading.) *)
Theorem C11_verdict_is_model_execution : forall cs,
  Run_Gated.mismatches cs = [] <->
  Forall (fun c => RunGatedSound.accepted (Run_Gated.g_cfg c) s0 (Run_Gated.g_steps c) /\
                   RunGatedSound.oracles_ok (Run_Gated.g_cfg c) RunGatedSound.ostate0 (Run_Gated.g_steps c)) cs.
Proof. exact RunGatedSound.mismatches_nil_iff. Qed.
Print Assumptions C11_verdict_is_model_execution.

Theorem C11_concurrent_verdict_is_oracle : forall cs,
  Run_Gated.conc_mismatches cs = [] <-> Forall (fun c => RunGatedSound.conc_ok (Run_Gated.cc_obs c)) cs.
Proof. exact RunGatedSound.conc_mismatches_nil_iff. Qed.
Print Assumptions C11_concurrent_verdict_is_oracle.

(* the hypotheses are met by a history with distinct events, accepted events, a composite sent through the Broker and two
   groups still gated *)
Theorem C11_nonvacuous :
  NoDup (procs h1) /\ In {| eid := 1; en := 4 |} (accepted (run E_ok h1)) /\
  In (LOut DSent 2 [{| eid := 2; en := 2 |}]) (log (run E_ok h1)) /\ length (groups (run E_ok h1)) = 2%nat.
Proof. exact c11_inhabited. Qed.
