(* C12 — Broker calls terminate even when nodes call back into the Broker (lock part).
   The theorems below hold for EVERY program of the command language and EVERY contract table: whenever the obligation
   [check_program C pr ... = []] holds (it is re-evaluated by vm_compute on every check against the program regenerated
   from the source tree, see coq/obligations/Obl_C12.v) then, in every run of every thread (API call or goroutine started
   by one), no callback that may call Broker.Send runs while the thread holds a lock that callback may take, no lock is
   acquired while already held, and every lock is released when the call returns.
   Full statement of C12 ("every Broker call returns in bounded time whenever the nodes return"): NOT claimed here -- the
   termination of the sequential code and of the dispatch protocol (C03) is outside the lock language; what is proved is
   that the three ways a Broker call can block for ever on Broker.lock are excluded. *)
From Coq Require Import List String.
From Verif Require Import LockLang LockSound LockDeadlock LockExamples.
Import ListNotations.

Theorem C12_no_lock_held_at_callback_partial : forall C pr entries lits unsup,
  check_program C pr entries lits unsup = [] ->
  forall fn body t x ds', thread C (fenv_of (reachable pr entries)) fn body ->
    run (fenv_of (reachable pr entries)) fn body [] t x ds' -> is_brk x = false ->
  forall i fn' k l, nth_error (t ++ tag fn ds') i = Some (fn', EA (User k)) -> In l (user_acquires C k) ->
    lookup l (held_at [] (t ++ tag fn ds') i) = None.
Proof. exact program_callback_never_under. Qed.
Print Assumptions C12_no_lock_held_at_callback_partial.

Theorem C12_no_self_deadlock : forall C pr entries lits unsup,
  check_program C pr entries lits unsup = [] ->
  forall fn body t x ds', thread C (fenv_of (reachable pr entries)) fn body ->
    run (fenv_of (reachable pr entries)) fn body [] t x ds' -> is_brk x = false ->
  forall i fn' l m, nth_error (t ++ tag fn ds') i = Some (fn', EA (Acq l m)) ->
    lookup l (held_at [] (t ++ tag fn ds') i) = None.
Proof. exact program_no_self_deadlock. Qed.
Print Assumptions C12_no_self_deadlock.

Theorem C12_call_releases_all_locks : forall C pr entries lits unsup,
  check_program C pr entries lits unsup = [] ->
  forall f body t x dsf, fenv_of (reachable pr entries) f = Some body -> requires C f = [] ->
    run (fenv_of (reachable pr entries)) f body [] t x dsf -> is_brk x = false ->
  forall l, lookup l (upds [] (t ++ tag f dsf)) = None.
Proof. exact program_call_releases_all. Qed.
Print Assumptions C12_call_releases_all_locks.

(* No deadlock on the library's locks.  Any number of threads of a program whose obligation holds (API calls from different
   goroutines, goroutines they start), each performing a complete run, interleaved in any way the lock rules permit -- a
   write acquisition needs the lock free; a read acquisition needs no writer holding it and no writer QUEUED on it (Go's
   RWMutex prefers writers); a callback that may call Broker.Send needs Broker.lock to be read-acquirable -- never reach a
   configuration in which some thread is unfinished and none can take its next step.  (The obligation includes the lock
   order: a lock is only acquired, and such a callback only runs, while every held lock ranks lower.) *)
Theorem C12_never_stuck_partial : forall C pr entries lits unsup,
  check_program C pr entries lits unsup = [] ->
  forall traces, (forall tr, In tr traces -> thread_run C pr entries tr) ->
  forall c, reachN C (map (fun tr => ([], tr)) traces) c -> (exists t, In t c /\ snd t <> []) -> exists c', stepN C c c'.
Proof. exact program_never_stuck. Qed.
Print Assumptions C12_never_stuck_partial.

(* the general form: threads in the middle of their runs *)
Theorem C12_no_deadlock : forall C c, cgood C c -> (exists t, In t c /\ snd t <> []) -> exists c', stepN C c c'.
Proof. exact no_deadlock. Qed.
Print Assumptions C12_no_deadlock.

(* the checker is sound for every program point, for any additional locks the caller holds *)
Theorem C12_check_sound : forall C fenv,
  (forall f body, fenv f = Some body -> check_fn C f body = []) ->
  forall fn p ds t x ds', run fenv fn p ds t x ds' ->
  forall decl entry les h H res, check C fn decl entry les p h ds = ([], res) -> absrel decl h H -> rinv (rank C) decl H ->
  post C decl entry les fn res H t x ds'.
Proof. exact check_sound. Qed.
Print Assumptions C12_check_sound.

(* non-vacuity: a miniature Broker is accepted, has a run in which a Close callback happens (after the unlock), has a
   goroutine thread; the defective shapes (Close under the lock = F6, Send holding the lock across the dispatch) are rejected *)
Theorem C12_nonvacuous :
  check_program (mini mini_good) mini_good ["Send"; "RemoveNode"]%string [] [] = [] /\
  thread (mini mini_good) fenv_good "RemoveNode" remove_good /\
  run fenv_good "RemoveNode" remove_good [] remove_trace XR [] /\
  nth_error (remove_trace ++ tag "RemoveNode" []) 3 = Some ("RemoveNode"%string, EA (User "Closer.Close")) /\
  In L (user_acquires (mini mini_good) "Closer.Close") /\
  thread (mini mini_good) fenv_good "process" (PSeq (PAct (User "Node.Process")) PRet) /\
  guard_of (mini mini_good) "Broker.nodes" = GLocks [L].
Proof. exact nonvacuous. Qed.
Theorem C12_nonvacuous_rejects_F6 :
  flat_complaints (check_program (mini mini_bad_close) mini_bad_close ["Send"; "RemoveNode"]%string [] []) = [("RemoveNode", KCallback, "Closer.Close")]%string.
Proof. exact bad_close_rejected. Qed.
Theorem C12_nonvacuous_lock_order :
  check_program (mini mini_order_ok) mini_order_ok ["Send"; "RemoveNode"; "Set"]%string [] [] = [] /\
  flat_complaints (check_program (mini mini_order_bad) mini_order_bad ["Send"; "RemoveNode"; "Set"]%string [] []) = [("Set", KLockOrder, L)]%string.
Proof. exact (conj order_accepted order_rejected). Qed.
Theorem C12_nonvacuous_rejects_lock_across_dispatch :
  flat_complaints (check_program (mini mini_bad_send) mini_bad_send ["Send"; "RemoveNode"]%string [] []) = [("Send", KCallHolding, "process"); ("Send", KLockOrder, "process")]%string.
Proof. exact bad_send_rejected. Qed.

(* a wait that is not a mutex operation (sync.WaitGroup.Wait, sync.Cond.Wait, channel operations, select without default) is a
   callback kind "wait:..." that may depend on the registry locks: under the lock it is rejected, after the unlock accepted
   (per run: Obl_C12.v no_blocking_wait_under_registry_lock / generated_no_registry_lock_at_blocking_wait) *)
Theorem C12_nonvacuous_rejects_wait_under_lock :
  flat_complaints (check_program (waits_contracts [("Remove", remove_waiting)]%string) [("Remove", remove_waiting)]%string ["Remove"]%string [] [])
    = [("Remove", KCallback, "wait:WaitGroup.Wait")]%string /\
  check_program (waits_contracts [("Remove", remove_not_waiting)]%string) [("Remove", remove_not_waiting)]%string ["Remove"]%string [] [] = [].
Proof. exact (conj wait_under_lock_rejected wait_after_unlock_accepted). Qed.

(* a goroutine start or blocking wait that is not on the audited list is reported (per run: Obl_C12.v no_unaudited_concurrency_construct) *)
Theorem C12_nonvacuous_rejects_unaudited_concurrency :
  flat_complaints (unaudited [("process", "go")]%string [("process", process_body); ("Reopen", PSeq (PGo (PSeq (PAct (User "wait:chan-send")) PRet)) PRet)]%string)
  = [("Reopen", KUnauditedConcurrency, "go"); ("Reopen", KUnauditedConcurrency, "wait:chan-send")]%string.
Proof. exact unaudited_rejected. Qed.
