(* C13 — sinks deliver exactly the bytes of their configured format, or report an error.
   Models: Sinks.v.  [writer_process fmt wnil e w] is writer.Sink.Process (fmt 0 = Format unset, wnil = no Writer configured,
   e = the event's Formatted table or None for a nil event, w = the io.Writer's answer (n, err?) to a Write of a buffer);
   its value is (result, the Write calls made: buffer handed over and n reported).  [filesink_process] is the part of
   FileSink.Process this property speaks about (format selection, special paths, the single retry); FileSink's rotation and
   file handling belong to C08/C15.  [crun vals sched] runs concurrent writer.Sink.Process calls under the schedule [sched] of
   their atomic steps; [ret_time] / [may_choose] describe ChannelSink's select in a timed model. *)
From Coq Require Import List NArith ZArith.
From Verif Require Import Sinks SinksProofs SinksExamples.
From Verif Require Run_Sinks RunSinksSound.
Import ListNotations.

(* writer.Sink reports success exactly when a writer is configured, the event carries bytes for the configured format (JSON when
   unset) and the writer accepted exactly those bytes without error *)
Theorem C13_writer_success_iff : forall fmt wnil e w,
  fst (writer_process fmt wnil e w) = SOk <->
  wnil = false /\ exists t val, e = Some t /\ lookup (eff_format fmt) t = Some val /\ (val = [] \/ w val = (lenN val, false)).
Proof. exact writer_success_iff. Qed.
Print Assumptions C13_writer_success_iff.

(* ... and then the destination received exactly the stored bytes, once: through one Write call of the whole value (no call when
   there is nothing to write) *)
Theorem C13_writer_success_writes : forall fmt wnil e w cs, writer_process fmt wnil e w = (SOk, cs) ->
  exists t val, e = Some t /\ lookup (eff_format fmt) t = Some val /\ received cs = val /\ (cs = [] \/ cs = [(val, lenN val)]).
Proof. exact writer_success_writes. Qed.
Print Assumptions C13_writer_success_writes.

(* whatever the outcome, the only thing ever handed to the writer is the whole stored value of the configured format, at most once *)
Theorem C13_writer_only_the_value : forall fmt wnil e w,
  snd (writer_process fmt wnil e w) = [] \/
  exists t val n, e = Some t /\ lookup (eff_format fmt) t = Some val /\ snd (writer_process fmt wnil e w) = [(val, n)].
Proof. exact writer_only_the_value. Qed.
Print Assumptions C13_writer_only_the_value.

(* an error instead when the event carries no bytes for the format (nothing is written), the write fails, or it is short *)
Theorem C13_writer_absent_format_error : forall fmt e w t,
  e = Some t -> lookup (eff_format fmt) t = None -> writer_process fmt false e w = (SErr, []).
Proof. exact writer_absent_format_error. Qed.
Print Assumptions C13_writer_absent_format_error.
Theorem C13_writer_failed_write_error : forall fmt t val w n,
  lookup (eff_format fmt) t = Some val -> val <> [] -> w val = (n, true) -> fst (writer_process fmt false (Some t) w) <> SOk.
Proof. exact writer_failed_write_error. Qed.
Print Assumptions C13_writer_failed_write_error.
Theorem C13_writer_short_write_error : forall fmt t val w n,
  lookup (eff_format fmt) t = Some val -> w val = (n, false) -> (n < lenN val)%N -> fst (writer_process fmt false (Some t) w) = SErr.
Proof. exact writer_short_write_error. Qed.
Print Assumptions C13_writer_short_write_error.

(* JSON when unset, for both sinks *)
Theorem C13_default_format_json : forall wnil e w, writer_process 0 wnil e w = writer_process json_fmt wnil e w.
Proof. exact default_format_json. Qed.
Print Assumptions C13_default_format_json.
Theorem C13_filesink_default_format_json : forall k t F, filesink_process k 0 t F = filesink_process k json_fmt t F.
Proof. exact filesink_default_format_json. Qed.
Print Assumptions C13_filesink_default_format_json.

(* concurrent Process calls: under EVERY schedule of their atomic steps (a write proceeds byte by byte, other threads run in
   between), whenever the sink's mutex is free the destination holds exactly the concatenation of the whole values of the
   calls that completed, in the order in which they took the mutex, each once; those are exactly the calls that report
   success; a call whose event lacks the format fails *)
Theorem C13_writes_contiguous : forall vals sched, let s := crun vals sched in
  holder s = None ->
  stream s = concat (map (val_of vals) (order s)) /\ NoDup (order s) /\
  (forall i, In i (order s) <-> pcs s i = PDone SOk) /\ (forall i, pcs s i = PDone SErr -> vals i = None).
Proof. exact writes_contiguous. Qed.
Print Assumptions C13_writes_contiguous.

(* ... and at every instant the destination holds whole values followed by a prefix of the value being written *)
Theorem C13_writes_contiguous_always : forall vals sched, let s := crun vals sched in
  exists pre written, stream s = concat (map (val_of vals) pre) ++ written /\
    match holder s with None => written = [] /\ pre = order s
                      | Some h => order s = pre ++ [h] /\ exists rest, val_of vals h = written ++ rest end.
Proof. exact writes_contiguous_always. Qed.
Print Assumptions C13_writes_contiguous_always.

(* FileSink: success (other than on /dev/null) exactly when the format is present, the file could be opened, and a Write — the
   first, or for a regular file the one retried after a successful reopen — accepted the whole value *)
Theorem C13_filesink_success_iff : forall k fmt t F, k <> PNull ->
  (fst (filesink_process k fmt t F) = SOk <->
   exists val, lookup (eff_format fmt) t = Some val /\ (k = PFile -> fs_open_ok F = true) /\
     (val = [] \/ fs_w1 F val = (lenN val, false) \/
      (k = PFile /\ fst (write_to (fs_w1 F) val) = SErr /\ fs_reopen_ok F = true /\ fs_w2 F val = (lenN val, false)))).
Proof. exact filesink_success_iff. Qed.
Print Assumptions C13_filesink_success_iff.

(* C13_filesink_success_received_partial: when FileSink reports success and no Write failed after taking part of the value, the
   destination received exactly the stored bytes.  The full statement (success => exactly the bytes, once, with no side condition)
   is FALSE of the model's retry path, see C13_filesink_retry_exactly_refuted: a first Write that fails after taking a prefix,
   then a successful reopen and retry, leaves prefix ++ value at the destination.  Reaching that path on the implementation needs
   a write(2) on a regular file that fails part-way and then succeeds, which the harness cannot inject: model-level finding only. *)
Theorem C13_filesink_success_received_partial : forall k fmt t F cs, filesink_process k fmt t F = (SOk, cs) -> k <> PNull ->
  (forall val, lookup (eff_format fmt) t = Some val -> fst (write_to (fs_w1 F) val) = SErr -> fst (fs_w1 F val) = 0%N) ->
  exists val, lookup (eff_format fmt) t = Some val /\ received cs = val.
Proof. exact filesink_success_received. Qed.
Print Assumptions C13_filesink_success_received_partial.

Theorem C13_filesink_retry_exactly_refuted : exists t F cs,
  filesink_process PFile 0 t F = (SOk, cs) /\ lookup json_fmt t = Some [1; 2; 3; 4]%N /\ received cs = [1; 2; 1; 2; 3; 4]%N.
Proof. exact filesink_retry_exactly_refuted. Qed.
Print Assumptions C13_filesink_retry_exactly_refuted.

(* what does hold without any side condition: on success the destination received the whole value, preceded at most by a
   prefix of it (the part a failed first Write had accepted before the retry) — never a tail alone, never anything else *)
Theorem C13_filesink_success_prefix_then_value : forall k fmt t F cs, filesink_process k fmt t F = (SOk, cs) -> k <> PNull ->
  exists val n, lookup (eff_format fmt) t = Some val /\ received cs = firstn n val ++ val.
Proof. exact filesink_success_prefix_then_value. Qed.
Print Assumptions C13_filesink_success_prefix_then_value.

Theorem C13_filesink_only_the_value : forall k fmt t F c,
  In c (snd (filesink_process k fmt t F)) -> lookup (eff_format fmt) t = Some (fst c).
Proof. exact filesink_only_the_value. Qed.
Print Assumptions C13_filesink_only_the_value.

Theorem C13_filesink_absent_format_error : forall k fmt t F,
  k <> PNull -> lookup (eff_format fmt) t = None -> filesink_process k fmt t F = (SErr, []).
Proof. exact filesink_absent_format_error. Qed.
Print Assumptions C13_filesink_absent_format_error.

(* the special paths are pass-through: /dev/null succeeds without looking at the event; stdout / stderr depend on nothing but
   the write itself (no open, rotate, reopen) *)
Theorem C13_filesink_devnull_bypass : forall fmt t F, filesink_process PNull fmt t F = (SOk, []).
Proof. exact filesink_devnull_bypass. Qed.
Print Assumptions C13_filesink_devnull_bypass.
Theorem C13_filesink_std_bypass : forall k fmt t F F',
  is_std k = true -> fs_w1 F = fs_w1 F' -> filesink_process k fmt t F = filesink_process k fmt t F'.
Proof. exact filesink_std_bypass. Qed.
Print Assumptions C13_filesink_std_bypass.

(* ChannelSink: the call returns by taking some ready arm (never neither) ... *)
Theorem C13_channel_some_arm : forall T, exists a, may_choose T a.
Proof. exact channel_some_arm. Qed.
Print Assumptions C13_channel_some_arm.

(* ... whichever arm is taken exactly one thing happens: the very event is handed to the channel and success reported, or nothing
   is handed over and an error is reported — and an error only once the timeout has elapsed or the context is done *)
Theorem C13_channel_exactly_one : forall T ev a, may_choose T a ->
  (chan_outcome ev a = (Some ev, SOk) /\ a = ASent /\ exists c, chan_at T = Some c) \/
  (chan_outcome ev a = (None, SErr) /\
   ((a = ATimeout /\ ret_time T = t0 T + timeout T)%Z \/ (a = ACtx /\ exists d, ctx_at T = Some d /\ (d <= ret_time T)%Z))).
Proof. exact channel_exactly_one. Qed.
Print Assumptions C13_channel_exactly_one.

Theorem C13_channel_never_both : forall ev a,
  ~ (fst (chan_outcome ev a) <> None /\ snd (chan_outcome ev a) <> SOk) /\ ~ (fst (chan_outcome ev a) = None /\ snd (chan_outcome ev a) = SOk).
Proof. exact channel_never_both. Qed.
Print Assumptions C13_channel_never_both.

(* C13_channel_bounded_partial: in the timed MODEL of select the call returns no later than the shorter of timeout and context.
   Full statement (not provable here): the real call's latency is bounded by min(timeout, time until the context is done) plus
   scheduling delay — the Go scheduler and timers are outside the model; the harness measures the latency against generous
   bounds (and checks a timeout is never reported early) instead. *)
Theorem C13_channel_bounded_partial : forall T,
  (ret_time T <= t0 T + timeout T)%Z /\ (forall td, ctx_at T = Some td -> (ret_time T <= Z.max (t0 T) td)%Z).
Proof. exact channel_bounded. Qed.
Print Assumptions C13_channel_bounded_partial.

(* ---------- what the check's verdict means ----------
   The correspondence part of the check evaluates Run_Sinks.mismatches with vm_compute.  An empty list means exactly: every
   case is accepted — writer.Sink / FileSink: the observed result and Write calls / delivered bytes are the model's on the
   case's inputs and the statement of C13 holds on the observations; concurrent calls: the stream is the concatenation of the
   successful calls' whole values, each once; ChannelSink: exactly-one holds and the arm taken is one the timed model allows
   within the case's slack (the timing-ambiguous choice is read off the observation; with slack 0 that is Sinks.may_choose,
   RunSinksSound.within_slack_0).  The engine reports kind KFsRetryPrefix as the KNOWN-FINDING KF-C13-filesink-retry-leaves-prefix,
   so what it requires is the second theorem: the same acceptance with that one shape admitted. *)
Theorem C13_verdict_is_model_execution : forall cs,
  Run_Sinks.mismatches cs = [] <-> Forall (fun ic => RunSinksSound.case_ok true (snd ic)) cs.
Proof. exact RunSinksSound.mismatches_nil_iff. Qed.
Print Assumptions C13_verdict_is_model_execution.

Theorem C13_verdict_modulo_known_finding : forall cs,
  RunSinksSound.modulo_known (Run_Sinks.mismatches cs) = [] <-> Forall (fun ic => RunSinksSound.case_ok false (snd ic)) cs.
Proof. exact RunSinksSound.mismatches_modulo_known_nil_iff. Qed.
Print Assumptions C13_verdict_modulo_known_finding.

Theorem C13_nonvacuous :
  fst (writer_process 0 false (Some tab) w_ok) = SOk /\ fst (writer_process 2 false (Some tab) w_short) = SErr /\
  holder (crun vals3 sched3) = None /\ stream (crun vals3 sched3) = [1; 2; 3; 7; 8]%N /\
  may_choose {| t0 := 0; timeout := 50; chan_at := None; ctx_at := Some 20%Z |} ACtx.
Proof. exact c13_inhabited. Qed.
