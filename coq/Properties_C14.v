(* C14 — JSON formatters emit one faithful JSON line and never alter the event. *)
From Coq Require Import List NArith.
From Verif Require Import Alist Json JsonProofs Formatters FormattersProofs FormatsExamples Run_Formatters RunFormatsSound.
Import ListNotations.
Open Scope N_scope.

(* ---- the codec: what is stored is one line of valid JSON that decodes back to the time, the type and the payload's image ---- *)

(* Parsing Go's rendering of a value — compact (ind = false) or indented (ind = true), at any depth, followed by anything that
   does not continue a number token — gives back the value's JSON image: for EVERY well-formed value (number tokens are JSON
   numbers; nothing else is required), every nesting, every byte string.  [jimage] replaces each byte that starts no valid
   UTF-8 sequence by U+FFFD (what Go emits and every JSON reader sees) and is the identity otherwise (C14_jimage_valid). *)
Theorem C14_parse_render : forall ind d v rest, wf v -> follow_ok rest ->
  parse (size v) (render_g ind d v ++ rest) = Some (jimage v, rest).
Proof. exact parse_render_g. Qed.
Print Assumptions C14_parse_render.

(* faithful, as injectivity: the stored bytes determine the JSON image — two well-formed values rendered to the same bytes
   (compact or indented, at any depths) have the same image, and valid values (their own image) are then equal *)
Theorem C14_render_injective : forall ind1 d1 ind2 d2 v1 v2, wf v1 -> wf v2 ->
  render_g ind1 d1 v1 = render_g ind2 d2 v2 -> jimage v1 = jimage v2.
Proof. exact render_g_injective. Qed.
Print Assumptions C14_render_injective.

Theorem C14_render_injective_valid : forall v1 v2, wf v1 -> wf v2 -> jvalid v1 -> jvalid v2 -> render v1 = render v2 -> v1 = v2.
Proof.
  intros v1 v2 W1 W2 J1 J2 E. rewrite <- (jimage_valid v1 J1), <- (jimage_valid v2 J2). exact (render_injective v1 v2 W1 W2 E).
Qed.
Print Assumptions C14_render_injective_valid.

(* valid UTF-8 (ASCII in particular) passes through unchanged: such strings, and values built from them, are their own image *)
Theorem C14_sanitize_valid : forall s, utf8_valid s = true -> sanitize s = s.
Proof. exact sanitize_valid. Qed.
Print Assumptions C14_sanitize_valid.
Theorem C14_ascii_valid : forall s, ascii s -> utf8_valid s = true.
Proof. exact ascii_valid. Qed.
Print Assumptions C14_ascii_valid.
Theorem C14_jimage_valid : forall v, jvalid v -> jimage v = v.
Proof. exact jimage_valid. Qed.
Print Assumptions C14_jimage_valid.

(* the compact rendering contains no newline *)
Theorem C14_render_single_line : forall v, wf v -> ~ In 10 (render v).
Proof. exact render_single_line. Qed.
Print Assumptions C14_render_single_line.

(* the stored line is exactly one newline-terminated line ... *)
Theorem C14_envelope_single_line : forall t ty v, wf v -> exists body, envelope t ty v = body ++ [10] /\ ~ In 10 body.
Proof. exact envelope_single_line. Qed.
Print Assumptions C14_envelope_single_line.

(* ... that parses (as a whole document) to an object with exactly the members created_at, event_type and payload, holding
   the time text, the type and the payload's image *)
Theorem C14_envelope_members : forall t ty v, wf v ->
  parse_doc (envelope t ty v) =
  Some (JObj [(k_created_at, JStr (sanitize t)); (k_event_type, JStr (sanitize ty)); (k_payload, jimage v)]).
Proof. exact envelope_members. Qed.
Print Assumptions C14_envelope_members.

Theorem C14_envelope_members_valid : forall t ty v, wf v -> utf8_valid t = true -> utf8_valid ty = true -> jvalid v ->
  parse_doc (envelope t ty v) = Some (JObj [(k_created_at, JStr t); (k_event_type, JStr ty); (k_payload, v)]).
Proof. exact envelope_members_valid. Qed.
Print Assumptions C14_envelope_members_valid.

(* ---- the nodes ---- *)

(* JSONFormatter and JSONFormatterFilter leave the event's type, creation time and payload and every format other than
   "json" exactly as they were — for every payload type, image function, predicate and format table. *)
Theorem C14_formatter_frame : forall (P : Type) (image : P -> option jv) (e : event P),
  frame P e (fst (json_formatter image e)).
Proof. exact formatter_frame. Qed.
Print Assumptions C14_formatter_frame.

Theorem C14_jff_frame : forall (P : Type) (image : P -> option jv) pred (e : event P),
  frame P e (fst (json_formatter_filter image pred e)).
Proof. exact jff_frame. Qed.
Print Assumptions C14_jff_frame.

(* an encodable event: the envelope line is what is stored under json, and JSONFormatter passes the very event on *)
Theorem C14_formatter_stores : forall (P : Type) (image : P -> option jv) (e : event P) b,
  json_line image e = Some b ->
  format fmt_json (fst (json_formatter image e)) = Some b /\ snd (json_formatter image e) = OFwd.
Proof. exact formatter_stores. Qed.
Print Assumptions C14_formatter_stores.

Theorem C14_jff_stores : forall (P : Type) (image : P -> option jv) pred (e : event P) b,
  json_line image e = Some b -> format fmt_json (fst (json_formatter_filter image pred e)) = Some b.
Proof. exact jff_stores. Qed.
Print Assumptions C14_jff_stores.

(* a payload (or creation time) that cannot be encoded: an error, nothing forwarded, the event untouched *)
Theorem C14_formatter_error_forwards_nothing : forall (P : Type) (image : P -> option jv) (e : event P),
  (ev_time e = None \/ image (ev_payload e) = None) ->
  json_formatter image e = (e, OErr) /\ forall pred, json_formatter_filter image pred e = (e, OErr).
Proof. exact formatter_error_forwards_nothing. Qed.
Print Assumptions C14_formatter_error_forwards_nothing.

(* JSONFormatterFilter forwards exactly when (the event is encodable and) its predicate is absent or returns true *)
Theorem C14_jff_forward_iff : forall (P : Type) (image : P -> option jv) pred (e : event P),
  snd (json_formatter_filter image pred e) = OFwd <->
  exists b, json_line image e = Some b /\
            (pred = None \/ exists p, pred = Some p /\ p (formatted_as fmt_json b e) = PTrue).
Proof. exact jff_forward_iff. Qed.
Print Assumptions C14_jff_forward_iff.

(* an error is returned exactly when the event cannot be encoded or the predicate returns an error *)
Theorem C14_jff_error_iff : forall (P : Type) (image : P -> option jv) pred (e : event P),
  snd (json_formatter_filter image pred e) = OErr <->
  (json_line image e = None \/
   exists b p, json_line image e = Some b /\ pred = Some p /\ p (formatted_as fmt_json b e) = PErr).
Proof. exact jff_error_iff. Qed.
Print Assumptions C14_jff_error_iff.

(* Filter forwards exactly when its predicate returns true, reports an error exactly when the predicate does, and never
   touches the event *)
Theorem C14_filter_forward_iff : forall (P : Type) pred (e : event P), snd (filter pred e) = OFwd <-> pred e = PTrue.
Proof. exact filter_forward_iff. Qed.
Print Assumptions C14_filter_forward_iff.
Theorem C14_filter_error_iff : forall (P : Type) pred (e : event P), snd (filter pred e) = OErr <-> pred e = PErr.
Proof. exact filter_error_iff. Qed.
Print Assumptions C14_filter_error_iff.
Theorem C14_filter_untouched : forall (P : Type) pred (e : event P), fst (filter pred e) = e.
Proof. exact filter_untouched. Qed.
Print Assumptions C14_filter_untouched.

(* FormattedAs / Format under any interleaving of the goroutines' programs (each call one atomic step under Event.l):
   every Format returns the latest preceding FormattedAs value for that name, the final table holds the last writes *)
Theorem C14_lww_every_sequence : forall t sched, lww t sched.
Proof. exact lww_all. Qed.
Print Assumptions C14_lww_every_sequence.
Theorem C14_format_table_lww : forall progs sched, interleave progs sched -> forall t, lww t sched.
Proof. exact format_table_lww. Qed.
Print Assumptions C14_format_table_lww.

(* ---- the tie: what the correspondence check's verdict means ---- *)

(* The check evaluates [Run_Formatters.mismatches] on the cases the real nodes produced and is green exactly when it is [].
   That holds iff every case is accepted: a Process case's observation is the model's run (error flag, forwarded event, the
   bytes under json = Json.render of the envelope, the other entries), type/time/payload were seen untouched, the stored
   value is one newline-terminated line that Json.parse_doc reads as exactly created_at (a string), event_type = the type's
   image, payload = the payload's image, Go's decoder agreed, an error not the predicate's left the table as it was, and the
   value re-read after later Process calls is the stored one; a FormattedAs/Format schedule's results and final table are
   the model table's.  Both directions: nothing the model cannot produce is accepted, nothing it produces is rejected. *)
Theorem C14_verdict_is_model_execution : forall cs, mismatches cs = [] <-> Forall case_accepted cs.
Proof. exact mismatches_nil_iff. Qed.
Print Assumptions C14_verdict_is_model_execution.

(* in an accepted schedule every observed Format(f) returned the last value stored under exactly f before it *)
Theorem C14_accepted_schedule_is_lww : forall ops t final pre g f r post,
  table_accepted t ops final -> ops = pre ++ (g, TGet f, r) :: post ->
  r = Some (last_write f (tget f t) (ops_of pre)).
Proof. exact table_accepted_lww. Qed.
Print Assumptions C14_accepted_schedule_is_lww.

(* the leniency, stated: leaving out the byte comparison with Json.render (kind KBytes — what the engine calls model drift
   when it is the only disagreement) the verdict is [property_ok]: the same statement without "the bytes are the model's".
   A tree on which only that holds (e.g. '<' left unescaped) is reported as a broken correspondence without a failing input,
   not as a failing case. *)
Theorem C14_property_verdict : forall c,
  (forall v, c_payload c = Some v -> wf v) ->
  (List.filter (fun k => match k with KBytes => false | _ => true end) (run_proc c) = [] <-> property_ok c).
Proof. exact property_kinds_nil_iff. Qed.
Print Assumptions C14_property_verdict.

(* non-vacuity: a concrete interleaving; a concrete well-formed nested payload with control, HTML, U+2028, multi-byte and
   invalid bytes that is encodable (and an unencodable one), with a dropping predicate *)
Theorem C14_nonvacuous_interleaving :
  interleave [[TSet 1 [65]; TGet 1]; [TSet 1 [66]]] [TSet 1 [65]; TSet 1 [66]; TGet 1].
Proof. exact interleave_ex. Qed.
Theorem C14_nonvacuous :
  wf ex_payload /\ follow_ok [10] /\ json_line Some ex_event = Some (envelope ex_time [116; 38] ex_payload) /\
  snd (json_formatter_filter Some (Some (fun _ => PFalse)) ex_event) = ODrop /\
  snd (json_formatter (fun _ : jv => @None jv) ex_event) = OErr.
Proof. exact ex_nonvacuous_c14. Qed.
