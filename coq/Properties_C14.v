(* C14 — JSON formatters emit one faithful JSON line and never alter the event. *)
From Coq Require Import List NArith.
From Verif Require Import Alist Json Formatters FormattersProofs.
Import ListNotations.
Open Scope N_scope.

(* JSONFormatter and JSONFormatterFilter leave the event's type, creation time and payload and every format other than
   "json" exactly as they were — for every payload type, image function, predicate and format table. *)
Theorem C14_formatter_frame : forall (P : Type) (image : P -> option jv) (e : event P),
  frame P e (fst (json_formatter image e)).
Proof. exact formatter_frame. Qed.
Print Assumptions C14_formatter_frame.

Theorem C14_jff_frame : forall (P : Type) (image : P -> option jv) pred (e : event P),
  frame P e (fst (json_formatter_filter image pred e)).
Proof. exact jff_frame. Qed.
Print Assumptions C14_jff_frame.

(* an encodable event: the envelope line is what is stored under json, and JSONFormatter passes the very event on *)
Theorem C14_formatter_stores : forall (P : Type) (image : P -> option jv) (e : event P) b,
  json_line image e = Some b ->
  format fmt_json (fst (json_formatter image e)) = Some b /\ snd (json_formatter image e) = OFwd.
Proof. exact formatter_stores. Qed.
Print Assumptions C14_formatter_stores.

Theorem C14_jff_stores : forall (P : Type) (image : P -> option jv) pred (e : event P) b,
  json_line image e = Some b -> format fmt_json (fst (json_formatter_filter image pred e)) = Some b.
Proof. exact jff_stores. Qed.
Print Assumptions C14_jff_stores.

(* a payload (or creation time) that cannot be encoded: an error, nothing forwarded, the event untouched *)
Theorem C14_formatter_error_forwards_nothing : forall (P : Type) (image : P -> option jv) (e : event P),
  (ev_time e = None \/ image (ev_payload e) = None) ->
  json_formatter image e = (e, OErr) /\ forall pred, json_formatter_filter image pred e = (e, OErr).
Proof. exact formatter_error_forwards_nothing. Qed.
Print Assumptions C14_formatter_error_forwards_nothing.

(* JSONFormatterFilter forwards exactly when (the event is encodable and) its predicate is absent or returns true *)
Theorem C14_jff_forward_iff : forall (P : Type) (image : P -> option jv) pred (e : event P),
  snd (json_formatter_filter image pred e) = OFwd <->
  exists b, json_line image e = Some b /\
            (pred = None \/ exists p, pred = Some p /\ p (formatted_as fmt_json b e) = PTrue).
Proof. exact jff_forward_iff. Qed.
Print Assumptions C14_jff_forward_iff.

(* an error is returned exactly when the event cannot be encoded or the predicate returns an error *)
Theorem C14_jff_error_iff : forall (P : Type) (image : P -> option jv) pred (e : event P),
  snd (json_formatter_filter image pred e) = OErr <->
  (json_line image e = None \/
   exists b p, json_line image e = Some b /\ pred = Some p /\ p (formatted_as fmt_json b e) = PErr).
Proof. exact jff_error_iff. Qed.
Print Assumptions C14_jff_error_iff.

(* Filter forwards exactly when its predicate returns true, reports an error exactly when the predicate does, and never
   touches the event *)
Theorem C14_filter_forward_iff : forall (P : Type) pred (e : event P), snd (filter pred e) = OFwd <-> pred e = PTrue.
Proof. exact filter_forward_iff. Qed.
Print Assumptions C14_filter_forward_iff.
Theorem C14_filter_error_iff : forall (P : Type) pred (e : event P), snd (filter pred e) = OErr <-> pred e = PErr.
Proof. exact filter_error_iff. Qed.
Print Assumptions C14_filter_error_iff.
Theorem C14_filter_untouched : forall (P : Type) pred (e : event P), fst (filter pred e) = e.
Proof. exact filter_untouched. Qed.
Print Assumptions C14_filter_untouched.

(* FormattedAs / Format under any interleaving of the goroutines' programs (each call one atomic step under Event.l):
   every Format returns the latest preceding FormattedAs value for that name, the final table holds the last writes *)
Theorem C14_format_table_lww : forall progs sched, interleave progs sched -> forall t, lww t sched.
Proof. exact format_table_lww. Qed.
Print Assumptions C14_format_table_lww.

Theorem C14_nonvacuous :
  interleave [[TSet 1 [65]; TGet 1]; [TSet 1 [66]]] [TSet 1 [65]; TSet 1 [66]; TGet 1].
Proof. exact interleave_ex. Qed.
